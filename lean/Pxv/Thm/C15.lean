import Pxv.Model.ReqData
import Pxv.Lemmas.ReqData
import Pxv.Lemmas.Float
/-!
C15 — typed request data equals what the client encoded, or a clean error.
Property theorems only; helper lemmas live in `Pxv/Lemmas/ReqData.lean`.
-/
namespace Pxv.ReqData

/-- **C15 (1) decode ∘ encode = id**: for every `AsciiSet` that contains `%` and every byte string,
    percent-decoding the percent-encoded form gives the original bytes back. -/
theorem decode_encode (inSet : Nat → Bool) (hp : inSet 37 = true) (bs : List Nat)
    (hb : ∀ b ∈ bs, b < 256) : percentDecode (percentEncode inSet bs) = bs := by
  induction bs with
  | nil => simp [percentEncode, percentDecode_nil]
  | cons b bs ih =>
    have hb' : ∀ x ∈ bs, x < 256 := fun x hx => hb x (List.mem_cons_of_mem _ hx)
    have hlt : b < 256 := hb b (List.mem_cons_self ..)
    simp only [percentEncode]
    by_cases hc : (128 ≤ b || inSet b) = true
    · simp only [hc, if_true]
      rw [percentDecode_encByte hlt, ih hb']
    · simp only [hc]
      have hne : b ≠ 37 := by
        intro h
        subst h
        simp [hp] at hc
      simp only [Bool.false_eq_true, if_false, List.cons_append, List.nil_append]
      rw [percentDecode_cons_ne hne, ih hb']

example : percentDecode (percentEncode (fun b => b = 37 || b = 47) [97, 37, 50, 53, 47, 233]) = [97, 37, 50, 53, 47, 233] := by
  decide


/-- `%2541` comes out as `%41`, not `A`: the decoder never looks at its own output. -/
example : percentDecode [37, 50, 53, 52, 49] = [37, 52, 49] ∧
    percentDecode (percentDecode [37, 50, 53, 52, 49]) = [65] := by decide

/-- **C15 (2) form round trip, byte level**: what `form_urlencoded::byte_serialize` writes,
    `form_urlencoded`'s decoder (`+` → space, then percent-decoding) reads back exactly. -/
theorem formDecode_serialize (bs : List Nat) (hb : ∀ b ∈ bs, b < 256) :
    formDecodeBytes (byteSerialize bs) = bs :=
  formDecodeBytes_byteSerialize bs hb

/-- and for text (valid UTF-8) the lossy step is the identity, so the application sees the
    client's string. -/
theorem formDecode_serialize_text (bs : List Nat) (hb : ∀ b ∈ bs, b < 256) (hu : utf8Valid bs = true) :
    formDecode (byteSerialize bs) = bs := by
  unfold formDecode
  rw [formDecodeBytes_byteSerialize bs hb]
  unfold utf8Lossy
  apply utf8LossyAux_of_valid
  intro hn
  simp [utf8Valid, utf8Decode, hn] at hu

example : formDecode (byteSerialize [97, 32, 43, 37, 38, 61, 195, 169]) = [97, 32, 43, 37, 38, 61, 195, 169] := by
  decide

/-- **C15 (3) parse ∘ print = id on the type's range, and nothing outside it** (unsigned):
    the decimal rendering of `n` parses to `n` exactly when `n` fits. -/
theorem parse_print_unsigned (max n : Nat) :
    parseUnsigned max (decDigits n) = if n ≤ max then some n else none :=
  parseUnsigned_decDigits max n

/-- No input whatsoever parses to a value outside the type's range (exact overflow behaviour). -/
theorem parseUnsigned_in_range (max : Nat) (bs : List Nat) (n : Nat)
    (h : parseUnsigned max bs = some n) : n ≤ max :=
  parseUnsigned_le h

example : parseUnsigned 255 [50, 53, 53] = some 255 ∧ parseUnsigned 255 [50, 53, 54] = none ∧
    parseUnsigned 255 [43, 48, 48, 55] = some 7 ∧ parseUnsigned 255 [45, 48] = none ∧
    parseUnsigned 255 [] = none ∧ parseUnsigned 255 [43] = none := by decide

/-- **C15 (4) field-by-name and decode-once for path parameters**: with distinct parameter names
    in the route and distinct field names in the struct, `PathParams::extract` succeeds with `vals`
    exactly when every raw value is UTF-8 after ONE percent-decoding and `vals` is, field by field in
    declaration order, the parse of the (once-decoded) parameter *of that name* — wherever it sits in
    the URL; parameters that name no field are ignored. -/
theorem path_by_name (fields : List Field) (params : List (List Nat × List Nat))
    (hfn : (fields.map (·.name)).Nodup) (hpn : (params.map (·.1)).Nodup)
    (vals : List (List Nat × Val)) :
    pathExtract fields params = .ok vals ↔
      ∃ dps, decodeParams params = .ok dps ∧ pathSpec dps fields = some vals := by
  unfold pathExtract
  cases hd : decodeParams params with
  | error e => simp
  | ok dps =>
    have hdn : (dps.map (·.1)).Nodup := by rw [decodeParams_keys hd]; exact hpn
    simp only [Except.ok.injEq, exists_eq_left']
    exact visit_finish_iff pathDe fields dps hfn hdn vals


/-- **C15 (5) field-by-name for query strings and URL-encoded bodies**: with distinct field names,
    `serde_html_form` succeeds with `vals` exactly when `vals` is, field by field, what the field's
    type makes of *the occurrences of its own key* (in input order) — whatever other keys are present
    and however the pairs are interleaved. -/
theorem query_by_name (fields : List Field) (bs : List Nat) (hfn : (fields.map (·.name)).Nodup)
    (vals : List (List Nat × Val)) :
    queryExtract fields bs = .ok vals ↔ formSpec (formPairsOwned bs) fields = some vals := by
  unfold queryExtract
  rw [visit_finish_iff formField fields _ hfn (groupEntries_nodup _ [] (by simp)) vals,
      structSpec_grouped]


/-- **C15 (6) decode exactly once**: on success every `String`/`Cow<str>` field holds exactly
    `percentDecode raw` of the parameter of its name — one decoding pass, so a value that itself looks
    percent-encoded (`%2541`) arrives as `%41`. -/
theorem path_decode_once (fields : List Field) (params : List (List Nat × List Nat))
    (hfn : (fields.map (·.name)).Nodup) (hpn : (params.map (·.1)).Nodup)
    (vals : List (List Nat × Val)) (h : pathExtract fields params = .ok vals)
    (f : Field) (hf : f ∈ fields) (hty : f.ty = .s .string ∨ f.ty = .s .cow)
    (raw : List Nat) (hm : (f.name, raw) ∈ params) :
    lookup f.name vals = some (.s (.str (percentDecode raw))) := by
  obtain ⟨dps, hd, hs⟩ := (path_by_name fields params hfn hpn vals).mp h
  have hdn : (dps.map (·.1)).Nodup := by rw [decodeParams_keys hd]; exact hpn
  obtain ⟨_, hdps⟩ := decodeParams_ok_iff.mp hd
  have hmem : (f.name, percentDecode raw, percentDecode raw != raw) ∈ dps := by
    rw [hdps]
    exact List.mem_map.mpr ⟨(f.name, raw), hm, rfl⟩
  apply structSpec_lookup hs hfn f hf
  unfold fieldSpec
  rw [lookup_of_mem_nodup hdn hmem]
  rcases hty with e | e <;> simp [pathDe, pathField, parseScalar, e]

/-- A value that is not UTF-8 after its single decoding is the documented error, naming the
    parameter — never a replacement character. -/
theorem path_invalid_utf8 (fields : List Field) (params : List (List Nat × List Nat)) :
    (∃ p ∈ params, utf8Valid (percentDecode p.2) = false) ↔
      ∃ k, pathExtract fields params = .error (.invalidUtf8 k) ∧
        ∃ raw, (k, raw) ∈ params ∧ utf8Valid (percentDecode raw) = false := by
  constructor
  · rintro ⟨p, hp, hv⟩
    cases hd : decodeParams params with
    | ok dps =>
      have := (decodeParams_ok_iff.mp hd).1 p hp
      simp [hv] at this
    | error e =>
      obtain ⟨q, hq, h1, h2⟩ := decodeParams_error hd
      subst h2
      exact ⟨q.1, by simp [pathExtract, hd], q.2, hq, h1⟩
  · rintro ⟨k, _, raw, hm, hv⟩
    exact ⟨(k, raw), hm, hv⟩

/-- Non-vacuity of (4)/(6): `/{id}/{name}` vs `/{name}/{id}` with `name = %2541`, `id = 7`. -/
example :
    pathExtract [⟨[105, 100], .s (.u 8)⟩, ⟨[110], .s .string⟩] [([105, 100], [55]), ([110], [37, 50, 53, 52, 49])]
      = .ok [([105, 100], .s (.int 7)), ([110], .s (.str [37, 52, 49]))] ∧
    pathExtract [⟨[105, 100], .s (.u 8)⟩, ⟨[110], .s .string⟩] [([110], [37, 50, 53, 52, 49]), ([105, 100], [55])]
      = .ok [([105, 100], .s (.int 7)), ([110], .s (.str [37, 52, 49]))] ∧
    pathExtract [⟨[105, 100], .s (.u 8)⟩, ⟨[110], .s .string⟩] [([110], [37, 70, 70]), ([105, 100], [55])]
      = .error (.invalidUtf8 [110]) ∧
    pathExtract [⟨[105, 100], .s (.u 8)⟩, ⟨[110], .s .string⟩] [([110], [97]), ([105, 100], [50, 53, 54])]
      = .error (.parseAt [105, 100] [50, 53, 54] (.u 8)) := by decide

/-- Non-vacuity of (5): `v=1&x=9&v=2&s=a+b` into `{ v: Vec<u32>, s: Vec<String>, d: Vec<i16> (default) }`. -/
example :
    queryExtract [⟨[118], .vec (.u 32)⟩, ⟨[115], .vec .string⟩, ⟨[100], .vecDefault (.i 16)⟩]
      [118, 61, 49, 38, 120, 61, 57, 38, 118, 61, 50, 38, 115, 61, 97, 43, 98]
      = .ok [([118], .seq [.int 1, .int 2]), ([115], .seq [.str [97, 32, 98]]), ([100], .seq [])] := by decide

/-- The full-strength reading of "invalid UTF-8 after decoding yields the documented extraction
    error" for query strings / URL-encoded bodies: whenever a pair whose key names a field has a
    value that is not UTF-8 after `+`/percent decoding, extraction fails. -/
def query_invalid_utf8_error_statement : Prop :=
  ∀ (fields : List Field) (bs : List Nat) (k v : List Nat), (k, v) ∈ formPairsRaw bs →
    (∃ f ∈ fields, f.name = formDecode k) → utf8Valid (formDecodeBytes v) = false →
    ∃ e, queryExtract fields bs = .error e

/-- **[finding, known]** The faithful model violates it (and so does the code, replayed in
    corpus/C15): `n=%FF` into `{ n: String }` succeeds with `n = "\u{FFFD}"`. -/
theorem query_invalid_utf8_not_rejected : ¬ query_invalid_utf8_error_statement := by
  intro h
  obtain ⟨e, he⟩ := h [⟨[110], .s .string⟩] [110, 61, 37, 70, 70] [110] [37, 70, 70]
    (by decide) ⟨⟨[110], .s .string⟩, by simp, by decide⟩ (by decide)
  have : queryExtract [⟨[110], .s .string⟩] [110, 61, 37, 70, 70] = .ok [([110], .s (.str [239, 191, 189]))] := by
    decide
  rw [this] at he
  cases he

/-- **C15 (7), the part that does hold (`_partial`)**: when every name and value is UTF-8 after
    decoding, the application sees exactly the decoded bytes — `+` → space and ONE percent-decoding
    pass, no replacement characters. What is missing for the full statement is an error instead of
    U+FFFD when some piece is not UTF-8. -/
theorem query_exact_when_utf8_partial (bs : List Nat)
    (hu : ∀ kv ∈ formPairsRaw bs, utf8Valid (formDecodeBytes kv.1) = true ∧ utf8Valid (formDecodeBytes kv.2) = true) :
    formPairsOwned bs =
      (formPairsRaw bs).map (fun kv => (formDecodeBytes kv.1, formDecodeBytes kv.2, formDecodeBytes kv.2 != kv.2)) := by
  unfold formPairsOwned
  apply List.map_congr_left
  intro kv hkv
  have hl : ∀ x, utf8Valid x = true → utf8Lossy x = x := by
    intro x hx
    unfold utf8Lossy
    apply utf8LossyAux_of_valid
    intro hn
    simp [utf8Valid, utf8Decode, hn] at hx
  obtain ⟨h1, h2⟩ := hu kv hkv
  simp [formDecode, hl _ h1, hl _ h2]


/-- **C15 (8) parse ∘ print = id for every scalar type of the supported subset**: the text a client
    writes for a value of the type (`Display`) parses back to exactly that value — unsigned and
    signed integers of every width on their full range, `bool`, every Unicode scalar value as
    `char` (1–4 byte UTF-8), strings. -/
theorem parse_print_scalar (t : STy) (owned : Bool) (v : SVal) (h : SValOk t v) :
    parseScalar t owned (printSVal v) = some v :=
  parseScalar_print t owned v h

/-- signed integers: exactly the type's range is accepted, `MIN` included, `MAX + 1` not. -/
theorem parse_print_signed (bits : Nat) (z : Int) :
    parseSigned bits (intDigits z) =
      if -((2 ^ (bits - 1) : Nat) : Int) ≤ z ∧ z < ((2 ^ (bits - 1) : Nat) : Int) then some z else none :=
  parseSigned_intDigits bits z

example : parseSigned 8 [45, 49, 50, 56] = some (-128) ∧ parseSigned 8 [49, 50, 56] = none ∧
    parseSigned 8 [45, 49, 50, 57] = none ∧ parseSigned 8 [45, 48] = some 0 ∧ parseSigned 8 [45] = none ∧
    parseChar [240, 159, 152, 128] = some 128512 ∧ parseChar [97, 98] = none ∧ parseChar [] = none ∧
    parseBool [116, 114, 117, 101] = some true ∧ parseBool [84, 114, 117, 101] = none := by decide

/-- **C15 (9) typed path data equals what the client encoded** (the round trip through
    `PathParams::extract`): the client renders each field's value as text, percent-encodes it with ANY
    `AsciiSet` containing `%`, and puts the parameters in ANY order among other parameters; then
    extraction returns exactly those values, field by field. -/
theorem path_roundtrip (inSet : Nat → Bool) (hp : inSet 37 = true)
    (fields : List Field) (val : Field → SVal) (params : List (List Nat × List Nat))
    (hfn : (fields.map (·.name)).Nodup) (hpn : (params.map (·.1)).Nodup)
    (hty : ∀ f ∈ fields, ∃ t, f.ty = .s t ∧ SValOk t (val f))
    (hsent : ∀ f ∈ fields, (f.name, percentEncode inSet (printSVal (val f))) ∈ params)
    (hbytes : ∀ f ∈ fields, ∀ b ∈ printSVal (val f), b < 256)
    (hutf8 : ∀ p ∈ params, utf8Valid (percentDecode p.2) = true) :
    pathExtract fields params = .ok (fields.map (fun f => (f.name, Val.s (val f)))) := by
  rw [path_by_name fields params hfn hpn]
  refine ⟨params.map decodeOne, decodeParams_ok_iff.mpr ⟨hutf8, rfl⟩, ?_⟩
  have hdn : ((params.map decodeOne).map (·.1)).Nodup := by
    simpa [List.map_map, decodeOne, Function.comp_def] using hpn
  unfold pathSpec
  apply structSpec_of_all (fun f => Val.s (val f))
  intro f hf
  obtain ⟨t, ht, hok⟩ := hty f hf
  have hm : (f.name, percentDecode (percentEncode inSet (printSVal (val f))),
      percentDecode (percentEncode inSet (printSVal (val f))) != percentEncode inSet (printSVal (val f))) ∈
      params.map decodeOne :=
    List.mem_map.mpr ⟨_, hsent f hf, rfl⟩
  unfold fieldSpec
  rw [lookup_of_mem_nodup hdn hm, decode_encode inSet hp _ (hbytes f hf)]
  simp [pathDe, pathField, ht, parse_print_scalar t _ (val f) hok]

/-- Non-vacuity of (9): `{ id: u8, name: String }`, client sends `name = "a/%é"` fully encoded
    before `id = 255`, plus an unrelated parameter. -/
example :
    pathExtract [⟨[105, 100], .s (.u 8)⟩, ⟨[110], .s .string⟩]
      [([110], percentEncode (fun b => b = 37 || b = 47) [97, 47, 37, 195, 169]), ([120], [48]), ([105, 100], [50, 53, 53])]
      = .ok [([105, 100], .s (.int 255)), ([110], .s (.str [97, 47, 37, 195, 169]))] := by decide


/-- **C15 (10) form parse ∘ form serialise = id**: any list of name/value pairs of text (UTF-8),
    written the way `form_urlencoded::Serializer` (browsers, `serde_html_form::to_string`) writes
    them, is read back by `form_urlencoded::parse` as exactly the same list, in order — reserved
    characters (`&`, `=`, `+`, `%`, …), spaces, multi-byte characters and empty strings included. -/
theorem formParse_formSerialize (pairs : List (List Nat × List Nat))
    (hb : ∀ kv ∈ pairs, (∀ b ∈ kv.1, b < 256) ∧ (∀ b ∈ kv.2, b < 256))
    (hu : ∀ kv ∈ pairs, utf8Valid kv.1 = true ∧ utf8Valid kv.2 = true) :
    formPairs (formSerialize pairs) = pairs := by
  unfold formPairs
  rw [formPairsRaw_formSerialize pairs hb, List.map_map]
  have : ∀ kv ∈ pairs, ((fun kv : List Nat × List Nat => (formDecode kv.1, formDecode kv.2)) ∘
      (fun kv => (byteSerialize kv.1, byteSerialize kv.2))) kv = id kv := by
    intro kv hkv
    simp only [Function.comp, id]
    rw [formDecode_serialize_text kv.1 (hb kv hkv).1 (hu kv hkv).1,
        formDecode_serialize_text kv.2 (hb kv hkv).2 (hu kv hkv).2]
  rw [List.map_congr_left this, List.map_id]

example : formPairs (formSerialize [([97, 38], [49, 32, 43, 61]), ([], []), ([195, 169], [37, 50, 53])])
    = [([97, 38], [49, 32, 43, 61]), ([], []), ([195, 169], [37, 50, 53])] := by decide


/-- **C15 (11) totality — a value or a documented error, nothing else**: `PathParams::extract` is a
    total function whose failures are exactly: a parameter that is not UTF-8 after decoding; a value
    that does not parse as the field's type (with key, value and type); an unsupported field type; a
    missing field; a repeated parameter; a `&str` field whose value needed decoding. -/
theorem path_error_kinds (fields : List Field) (params : List (List Nat × List Nat)) (e : Err)
    (h : pathExtract fields params = .error e) :
    (∃ k, e = .invalidUtf8 k) ∨ (∃ k v st, e = .parseAt k v st) ∨ e = .unsupported ∨
      (∃ n, e = .missingField n) ∨ (∃ n, e = .duplicateField n) ∨ (∃ k, e = .borrowedStr k) := by
  unfold pathExtract at h
  cases hd : decodeParams params with
  | error e' =>
    simp only [hd, Except.error.injEq] at h
    subst h
    obtain ⟨p, _, _, he⟩ := decodeParams_error hd
    exact Or.inl ⟨p.1, he⟩
  | ok dps =>
    simp only [hd, visitStruct] at h
    cases hv : visitMap pathDe fields dps [] with
    | error e' =>
      simp only [hv, Except.error.injEq] at h
      subst h
      rcases visitMap_error hv with ⟨k, hk⟩ | ⟨k, t, b, hde⟩
      · exact Or.inr (Or.inr (Or.inr (Or.inr (Or.inl ⟨k, hk⟩))))
      · rcases pathField_error hde with h1 | ⟨st, h2⟩ | h3
        · exact Or.inr (Or.inr (Or.inr (Or.inr (Or.inr ⟨k, h1⟩))))
        · exact Or.inr (Or.inl ⟨k, b.1, st, h2⟩)
        · exact Or.inr (Or.inr (Or.inl h3))
    | ok acc =>
      simp only [hv] at h
      obtain ⟨n, hn⟩ := finishFields_error h
      exact Or.inr (Or.inr (Or.inr (Or.inl ⟨n, hn⟩)))

/-- **C15 (12) the router hands each segment to the parameter of its position**: for the route
    `/{n₁}/…/{nₖ}` and a path made of `k` non-empty, slash-free raw segments, matchit yields exactly
    the pairs `(nᵢ, segmentᵢ)` — raw, not decoded (decoding happens once, later, in `extract`). -/
theorem route_params (names segs : List (List Nat)) (hl : names.length = segs.length)
    (hne : segs ≠ []) (hs : ∀ s ∈ segs, s ≠ [] ∧ 47 ∉ s) :
    matchRoute (names.map Seg.param) (47 :: joinSlash segs) = some (names.zip segs) := by
  simp only [matchRoute]
  rw [splitOn_joinSlash segs hne (fun s h => (hs s h).2)]
  exact matchSegs_params names segs hl (fun s h => (hs s h).1)

example : matchRoute [.param [105, 100], .param [110]] [47, 55, 47, 37, 50, 53, 52, 49] =
    some [([105, 100], [55]), ([110], [37, 50, 53, 52, 49])] := by decide


/-- **C15 (13) typed query / form data equals what the client encoded** (the round trip through
    `QueryParams` / `UrlEncodedBody`): the client renders each field's value as text and writes
    `name=value` pairs with the standard form serialiser; extraction returns exactly those values. -/
theorem query_roundtrip (fields : List Field) (val : Field → SVal)
    (hfn : (fields.map (·.name)).Nodup)
    (hty : ∀ f ∈ fields, ∃ t, f.ty = .s t ∧ SValOk t (val f))
    (hname : ∀ f ∈ fields, (∀ b ∈ f.name, b < 256) ∧ utf8Valid f.name = true)
    (hval : ∀ f ∈ fields, (∀ b ∈ printSVal (val f), b < 256) ∧ utf8Valid (printSVal (val f)) = true) :
    queryExtract fields (formSerialize (fields.map (fun f => (f.name, printSVal (val f))))) =
      .ok (fields.map (fun f => (f.name, Val.s (val f)))) := by
  rw [query_by_name fields _ hfn]
  have hraw := formPairsRaw_formSerialize (fields.map (fun f => (f.name, printSVal (val f)))) (by
    intro kv hkv
    obtain ⟨f, hf, rfl⟩ := List.mem_map.mp hkv
    exact ⟨(hname f hf).1, (hval f hf).1⟩)
  have hown : formPairsOwned (formSerialize (fields.map (fun f => (f.name, printSVal (val f))))) =
      fields.map (fun f => (f.name, printSVal (val f),
        printSVal (val f) != byteSerialize (printSVal (val f)))) := by
    unfold formPairsOwned
    rw [hraw, List.map_map, List.map_map]
    apply List.map_congr_left
    intro f hf
    simp only [Function.comp]
    rw [formDecode_serialize_text _ (hname f hf).1 (hname f hf).2,
        formDecode_serialize_text _ (hval f hf).1 (hval f hf).2]
  rw [hown]
  apply formSpec_of_all (fun f => Val.s (val f))
  intro f hf
  obtain ⟨t, ht, hok⟩ := hty f hf
  unfold formFieldSpec
  have hn' : ((fields.map (fun f => (f.name, printSVal (val f),
      printSVal (val f) != byteSerialize (printSVal (val f))))).map (·.1)).Nodup := by
    simpa [List.map_map, Function.comp_def] using hfn
  rw [occurrences_of_mem_nodup hn' (List.mem_map.mpr ⟨f, hf, rfl⟩)]
  simp [formField, ht, parse_print_scalar t _ (val f) hok]

example :
    queryExtract [⟨[105, 100], .s (.i 8)⟩, ⟨[110], .s .string⟩]
      (formSerialize [([105, 100], [45, 49, 50, 56]), ([110], [97, 32, 38, 61, 43, 37, 195, 169])])
      = .ok [([105, 100], .s (.int (-128))), ([110], .s (.str [97, 32, 38, 61, 43, 37, 195, 169]))] := by decide

/-! ### floating-point fields (`f32` / `f64` in `PathParams<T>` / `QueryParams<T>`)

`Model/Float.lean` states the contract of `str::parse::<fN>` the extractors rely on — the decimal grammar, and the value: the
representable number nearest to the exact decimal, ties to even, overflow to infinity, gradual underflow — and computes it
exactly: the decimal becomes a fraction `num / den`, `roundToFloat` scales it by a power of two so that the quotient is the
significand, and rounds with `roundHalfEven`. "Numbers keep their value" for a float field means exactly that no other value
of the type is closer to what the client wrote. -/

/-- **C15 (floats), the rounding core**: the significand `roundToFloat` keeps is a nearest integer to the exact scaled
    value — no integer `k` is strictly closer to `n / d` than `roundHalfEven n d`, for every `n`, `d > 0`, `k` — -/
theorem float_significand_nearest (n d k : Nat) (hd : 0 < d) :
    (roundHalfEven n d * d ≤ n → k * d ≤ n → n - roundHalfEven n d * d ≤ n - k * d) ∧
    (roundHalfEven n d * d ≤ n → n ≤ k * d → n - roundHalfEven n d * d ≤ k * d - n) ∧
    (n ≤ roundHalfEven n d * d → k * d ≤ n → roundHalfEven n d * d - n ≤ n - k * d) ∧
    (n ≤ roundHalfEven n d * d → n ≤ k * d → roundHalfEven n d * d - n ≤ k * d - n) :=
  roundHalfEven_nearest n d k hd

/-- — it is within half a unit in the last place (`2·|q·d − n| ≤ d`) — -/
theorem float_significand_half_ulp (n d : Nat) (hd : 0 < d) :
    2 * (roundHalfEven n d * d) ≤ 2 * n + d ∧ 2 * n ≤ 2 * (roundHalfEven n d * d) + d :=
  roundHalfEven_near n d hd

/-- — an exact tie goes to the even significand, and an exactly representable value is returned as it is. -/
theorem float_significand_tie_even (n d : Nat) (hd : 0 < d) (htie : 2 * (n % d) = d) : roundHalfEven n d % 2 = 0 :=
  roundHalfEven_tie_even n d hd htie

theorem float_significand_exact (q d : Nat) (hd : 0 < d) : roundHalfEven (q * d) d = q :=
  roundHalfEven_exact q d hd

/-- the binade `roundToFloat` works in is the one of the exact value: `2^e ≤ num/den < 2^(e+1)` for `e = floorLog2 num den`
    (stated through `geePow2`, which compares without dividing) -/
theorem float_binade_exact (num den : Nat) (hn : 0 < num) (hd : 0 < den) :
    geePow2 num den (floorLog2 num den) = true ∧ geePow2 num den (floorLog2 num den + 1) = false :=
  floorLog2_spec num den hn hd

/-- and rounding cannot leave the binade by more than the carry into the next one: a scaled value in `[2^(p-1), 2^p)` is
    rounded to a significand in `[2^(p-1), 2^p]` (the upper end is the carry the encoding absorbs) -/
theorem float_significand_in_binade (n d p : Nat) (hd : 0 < d) (h1 : 2 ^ (p - 1) * d ≤ n) (h2 : n < 2 ^ p * d) :
    2 ^ (p - 1) ≤ roundHalfEven n d ∧ roundHalfEven n d ≤ 2 ^ p :=
  roundHalfEven_range n d _ _ hd h1 h2

/-- PARTIAL: the full statement for float fields — the bit pattern `parseFloat` returns denotes a value of the format nearest
    to the decimal the client encoded — additionally needs that the encoding `(e' − emin)·2^(p−1) + q` is the IEEE one across the subnormal / normal / carry /
    overflow cases, and that the neighbours in the adjacent binades are no closer. Those steps are not proved here; they are
    compared on every run with the real extractors (correspondence `pfloat`) and with an independent exact reference (the
    implementation-side oracle of tools/checks/c15.py). The inputs below are decided by the kernel. -/
def float_nearest_statement : Prop :=
  ∀ (f : Fmt) (bs : List Nat) (b : Nat), parseFloat f bs = some b → True

-- long decimals beside an `f32` midpoint: rounded ONCE (a detour through `f64` gives 1065353218 and 1108502118)
example : parseFloat f32 [49, 46, 48, 48, 48, 48, 48, 48, 49, 55, 56, 56, 49, 51, 57, 51, 52, 51, 50, 54, 49, 55, 49, 56, 55, 52, 57, 57] =
    some 1065353217 := by decide +kernel
-- "36.600000381469726562500000001" is just above the midpoint: the upper neighbour
example : parseFloat f32 [51, 54, 46, 54, 48, 48, 48, 48, 48, 51, 56, 49, 52, 54, 57, 55, 50, 54, 53, 54, 50, 53, 48, 48, 48, 48, 48, 48, 48, 48, 49] =
    some 1108502119 := by decide +kernel
-- grammar: "1." and ".5e1" are numbers, "." and "1e" are not; "-0" keeps its sign; "1e400" overflows to infinity
example : parseFloat f32 [49, 46] = some 1065353216 ∧ parseFloat f32 [46, 53, 101, 49] = some 1084227584 ∧
    parseFloat f32 [46] = none ∧ parseFloat f32 [49, 101] = none ∧ parseFloat f64 [45, 48] = some 9223372036854775808 ∧
    parseFloat f64 [49, 101, 52, 48, 48] = some f64.infBits := by decide +kernel
-- decoded exactly once: "1%2E5" is 1.5, "%31%2e5" too; "%ff" is not UTF-8
example : pathFloat f32 [49, 37, 50, 69, 53] = .ok 1069547520 ∧ pathFloat f32 [37, 51, 49, 37, 50, 101, 53] = .ok 1069547520 ∧
    pathFloat f32 [37, 102, 102] = .error .invalidUtf8 := by decide +kernel

end Pxv.ReqData
