import Pxv.Model.ReqData
import Pxv.Lemmas.ReqData
/-!
C15 — typed request data equals what the client encoded, or a clean error.
Property theorems only; helper lemmas live in `Pxv/Lemmas/ReqData.lean`.
-/
namespace Pxv.ReqData

/-- **C15 (1) decode ∘ encode = id**: for every `AsciiSet` that contains `%` and every byte string,
    percent-decoding the percent-encoded form gives the original bytes back. -/
theorem decode_encode (inSet : Nat → Bool) (hp : inSet 37 = true) (bs : List Nat)
    (hb : ∀ b ∈ bs, b < 256) : percentDecode (percentEncode inSet bs) = bs := by
  induction bs with
  | nil => simp [percentEncode, percentDecode_nil]
  | cons b bs ih =>
    have hb' : ∀ x ∈ bs, x < 256 := fun x hx => hb x (List.mem_cons_of_mem _ hx)
    have hlt : b < 256 := hb b (List.mem_cons_self ..)
    simp only [percentEncode]
    by_cases hc : (128 ≤ b || inSet b) = true
    · simp only [hc, if_true]
      rw [percentDecode_encByte hlt, ih hb']
    · simp only [hc]
      have hne : b ≠ 37 := by
        intro h
        subst h
        simp [hp] at hc
      simp only [Bool.false_eq_true, if_false, List.cons_append, List.nil_append]
      rw [percentDecode_cons_ne hne, ih hb']

example : percentDecode (percentEncode (fun b => b = 37 || b = 47) [97, 37, 50, 53, 47, 233]) = [97, 37, 50, 53, 47, 233] := by
  decide

end Pxv.ReqData
