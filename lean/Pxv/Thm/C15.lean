import Pxv.Model.ReqData
import Pxv.Lemmas.ReqData
/-!
C15 — typed request data equals what the client encoded, or a clean error.
Property theorems only; helper lemmas live in `Pxv/Lemmas/ReqData.lean`.
-/
namespace Pxv.ReqData

/-- **C15 (1) decode ∘ encode = id**: for every `AsciiSet` that contains `%` and every byte string,
    percent-decoding the percent-encoded form gives the original bytes back. -/
theorem decode_encode (inSet : Nat → Bool) (hp : inSet 37 = true) (bs : List Nat)
    (hb : ∀ b ∈ bs, b < 256) : percentDecode (percentEncode inSet bs) = bs := by
  induction bs with
  | nil => simp [percentEncode, percentDecode_nil]
  | cons b bs ih =>
    have hb' : ∀ x ∈ bs, x < 256 := fun x hx => hb x (List.mem_cons_of_mem _ hx)
    have hlt : b < 256 := hb b (List.mem_cons_self ..)
    simp only [percentEncode]
    by_cases hc : (128 ≤ b || inSet b) = true
    · simp only [hc, if_true]
      rw [percentDecode_encByte hlt, ih hb']
    · simp only [hc]
      have hne : b ≠ 37 := by
        intro h
        subst h
        simp [hp] at hc
      simp only [Bool.false_eq_true, if_false, List.cons_append, List.nil_append]
      rw [percentDecode_cons_ne hne, ih hb']

example : percentDecode (percentEncode (fun b => b = 37 || b = 47) [97, 37, 50, 53, 47, 233]) = [97, 37, 50, 53, 47, 233] := by
  decide


/-- `%2541` comes out as `%41`, not `A`: the decoder never looks at its own output. -/
example : percentDecode [37, 50, 53, 52, 49] = [37, 52, 49] ∧
    percentDecode (percentDecode [37, 50, 53, 52, 49]) = [65] := by decide

/-- **C15 (2) form round trip, byte level**: what `form_urlencoded::byte_serialize` writes,
    `form_urlencoded`'s decoder (`+` → space, then percent-decoding) reads back exactly. -/
theorem formDecode_serialize (bs : List Nat) (hb : ∀ b ∈ bs, b < 256) :
    formDecodeBytes (byteSerialize bs) = bs :=
  formDecodeBytes_byteSerialize bs hb

/-- and for text (valid UTF-8) the lossy step is the identity, so the application sees the
    client's string. -/
theorem formDecode_serialize_text (bs : List Nat) (hb : ∀ b ∈ bs, b < 256) (hu : utf8Valid bs = true) :
    formDecode (byteSerialize bs) = bs := by
  unfold formDecode
  rw [formDecodeBytes_byteSerialize bs hb]
  unfold utf8Lossy
  apply utf8LossyAux_of_valid
  intro hn
  simp [utf8Valid, utf8Decode, hn] at hu

example : formDecode (byteSerialize [97, 32, 43, 37, 38, 61, 195, 169]) = [97, 32, 43, 37, 38, 61, 195, 169] := by
  decide

/-- **C15 (3) parse ∘ print = id on the type's range, and nothing outside it** (unsigned):
    the decimal rendering of `n` parses to `n` exactly when `n` fits. -/
theorem parse_print_unsigned (max n : Nat) :
    parseUnsigned max (decDigits n) = if n ≤ max then some n else none :=
  parseUnsigned_decDigits max n

/-- No input whatsoever parses to a value outside the type's range (exact overflow behaviour). -/
theorem parseUnsigned_in_range (max : Nat) (bs : List Nat) (n : Nat)
    (h : parseUnsigned max bs = some n) : n ≤ max :=
  parseUnsigned_le h

example : parseUnsigned 255 [50, 53, 53] = some 255 ∧ parseUnsigned 255 [50, 53, 54] = none ∧
    parseUnsigned 255 [43, 48, 48, 55] = some 7 ∧ parseUnsigned 255 [45, 48] = none ∧
    parseUnsigned 255 [] = none ∧ parseUnsigned 255 [43] = none := by decide

/-- **C15 (4) field-by-name and decode-once for path parameters**: with distinct parameter names
    in the route and distinct field names in the struct, `PathParams::extract` succeeds with `vals`
    exactly when every raw value is UTF-8 after ONE percent-decoding and `vals` is, field by field in
    declaration order, the parse of the (once-decoded) parameter *of that name* — wherever it sits in
    the URL; parameters that name no field are ignored. -/
theorem path_by_name (fields : List Field) (params : List (List Nat × List Nat))
    (hfn : (fields.map (·.name)).Nodup) (hpn : (params.map (·.1)).Nodup)
    (vals : List (List Nat × Val)) :
    pathExtract fields params = .ok vals ↔
      ∃ dps, decodeParams params = .ok dps ∧ pathSpec dps fields = some vals := by
  unfold pathExtract
  cases hd : decodeParams params with
  | error e => simp
  | ok dps =>
    have hdn : (dps.map (·.1)).Nodup := by rw [decodeParams_keys hd]; exact hpn
    simp only [Except.ok.injEq, exists_eq_left']
    have hw := pathWalk_ok_iff fields dps [] 
    constructor
    · intro h
      cases hwk : pathWalk fields dps [] with
      | error e => simp [hwk] at h
      | ok acc =>
        simp only [hwk] at h
        obtain ⟨hacc, hk⟩ := (hw acc hdn (by intro p _; simp [lookup])).mp hwk
        simp only [List.nil_append] at hacc
        subst hacc
        exact (finishFields_eq_spec fields (fun f hf => finishOne_eq_spec hfn hf hdn hk) vals).mp h
    · intro h
      have hk := knownParse_of_spec hdn h
      have hwk : pathWalk fields dps [] = .ok (walkVals fields dps) :=
        (hw _ hdn (by intro p _; simp [lookup])).mpr ⟨by simp, hk⟩
      simp only [hwk]
      exact (finishFields_eq_spec fields (fun f hf => finishOne_eq_spec hfn hf hdn hk) vals).mpr h

end Pxv.ReqData
