import Pxv.Model.Borrow
import Pxv.Model.Generate
import Pxv.Thm.C02
/-!
C09 — the compiler always terminates with a verdict and fails atomically (the modelled part).

* every loop of the modelled passes is a Lean definition accepted by the termination checker
  (`orderLoop`, `reachFrom`, `held`: structural on explicit fuel bounded by the graph size);
* `order_never_stuck_of_run` (Thm/C02): the one `unreachable!` of the ordering step is dead whenever
  borrow checking left a graph with a legal order;
* below: the verdict is total and a rejected blueprint writes nothing.
-/
namespace Pxv.Gen

theorem finish_verdict (s : Writer × FS) :
    (finish s).exit = 0 ∨ ((finish s).exit ≠ 0 ∧ (finish s).reports ≥ 1) := by
  unfold finish
  by_cases hv : s.1.verifyOk = true
  · left; simp [hv]
  · right
    simp only [hv, if_false]
    refine ⟨by simp, ?_⟩
    simp only [Writer.verifyOk] at hv
    cases hm : s.1.mode with
    | update => simp [hm] at hv
    | check =>
      simp only [hm, List.isEmpty_iff] at hv
      cases ho : s.1.outdated with
      | nil => exact absurd ho hv
      | cons a l => simp

/-- **verdict**: exit 0, or non-zero with at least one error report. -/
theorem verdict_total (b : Build) (m : Mode) (fs : FS) :
    (generate b m fs).exit = 0 ∨ ((generate b m fs).exit ≠ 0 ∧ (generate b m fs).reports ≥ 1) := by
  unfold generate
  by_cases he : b.errors > 0
  · right; simp [he]; omega
  · simp only [he, if_false]
    by_cases hc : b.codegenOk = true
    · by_cases hl : b.libParses = true
      · simp only [hc, hl, Bool.not_true, Bool.false_eq_true, if_false]
        exact finish_verdict _
      · right; simp [hc, hl]
    · right; simp [hc]

/-- **atomic failure**: when the blueprint is rejected (at least one error diagnostic), nothing at
    all is written — the SDK on disk, the workspace manifest and the diagnostics file are untouched —
    in update mode and in check mode alike. -/
theorem reject_atomic (b : Build) (m : Mode) (fs : FS) (h : b.errors > 0) :
    (generate b m fs).fs = fs ∧ (generate b m fs).exit = 1 ∧ (generate b m fs).reports = b.errors ∧
    (generate b m fs).writes = 0 := by
  simp [generate, h]

theorem persist_mode (w : Writer) (fs : FS) (p : String) (c : List Nat) :
    (w.persist fs p c).1.mode = w.mode := by
  unfold Writer.persist
  cases hm : w.mode <;> simp only [hm] <;> split <;> simp [hm]

/-- an accepted blueprint whose code generation succeeds exits 0 in update mode. -/
theorem accept_exit0 (b : Build) (fs : FS) (h0 : b.errors = 0) (h1 : b.codegenOk = true)
    (h2 : b.libParses = true) : (generate b .update fs).exit = 0 := by
  have hd : ∀ s : Writer × FS, (stepDiag b s).1.mode = s.1.mode := by
    intro s; unfold stepDiag; split
    · exact persist_mode _ _ _ _
    · rfl
  have hmf : ∀ s : Writer × FS, (stepManifests b s).1.mode = s.1.mode := by
    intro s; simp only [stepManifests, persist_mode]
  have hl : ∀ s : Writer × FS, (stepLib b s).1.mode = s.1.mode := by
    intro s; simp only [stepLib, persist_mode]
  simp only [generate, h0, Nat.lt_irrefl, if_false, h1, h2, Bool.not_true, Bool.false_eq_true, finish]
  have : (stepLib b (stepManifests b (stepDiag b (⟨.update, [], 0⟩, fs)))).1.verifyOk = true := by
    simp [Writer.verifyOk, hl, hmf, hd]
  simp [this]

-- Non-vacuity: a rejected and an accepted build on a small file system.
def exFS : FS := FS.ofList [("sdk/Cargo.toml", ⟨[1], 3⟩), ("sdk/src/lib.rs", ⟨[2], 5⟩)]
def exBuild (errs : Nat) : Build :=
  { errors := errs, diag := some ("d.dot", [9]), codegenOk := true, libParses := true,
    rootPath := "Cargo.toml", rootEdit := fun x => x ++ [7], sdkManifestPath := "sdk/Cargo.toml",
    sdkEdit := fun _ => [1], libPath := "sdk/src/lib.rs", lib := [2, 2] }
example : (generate (exBuild 2) .update exFS).fs = exFS ∧ (generate (exBuild 2) .update exFS).exit = 1 :=
  ⟨rfl, rfl⟩
example : (generate (exBuild 0) .update exFS).exit = 0 ∧
    (generate (exBuild 0) .update exFS).fs.get "sdk/src/lib.rs" = some ⟨[2, 2], 6⟩ ∧
    (generate (exBuild 0) .update exFS).fs.get "sdk/Cargo.toml" = some ⟨[1], 3⟩ := by decide

end Pxv.Gen

/-! ### `complex_borrow_check` terminates once the call graph stops changing -/
namespace Pxv.CG

/-- **with the repair**: once a round neither clones nor changes the number of parked nodes, the loop ends within six
    more rounds, whatever state it is in (in particular after earlier successful clones). -/
theorem complex_loop_terminates (c : Ctl) (n : Nat) : Ctl.stable true n 6 c = none := by
  obtain ⟨s, f, p⟩ := c
  by_cases hn : n = 0
  · subst hn; simp [Ctl.stable, Ctl.next]
  · have hn' : (n == 0) = false := by simp [hn]
    by_cases hp : p = some n
    · subst hp
      cases s <;> cases f <;> simp [Ctl.stable, Ctl.next, hn']
    · have hp' : (p == some n) = false := by simp [hp]
      cases s <;> cases f <;> simp [Ctl.stable, Ctl.next, hn', hp']

/-- **without it** (the code as it was): after one successful clone (`flag = true`) a call graph that still has parked
    nodes and nothing left to clone keeps the loop alive forever, alternating between parking and cloning. -/
theorem complex_loop_diverged (n : Nat) (hn : n ≠ 0) (k : Nat) :
    ∃ c', Ctl.stable false n k { strat := .park, flag := true, prev := some n } = some c' ∧ c'.flag = true ∧
      c'.prev = some n ∧ (c'.strat = .park ∨ c'.strat = .clone) := by
  have hn' : (n == 0) = false := by simp [hn]
  induction k with
  | zero => exact ⟨_, rfl, rfl, rfl, Or.inl rfl⟩
  | succ k ih =>
    -- unfold one round at the END of the run: `stable (k+1) c = stable k c >>= next`
    have step : ∀ (k : Nat) (c : Ctl), Ctl.stable false n (k + 1) c = (Ctl.stable false n k c).bind (fun d => d.next false n false) := by
      intro k
      induction k with
      | zero => intro c; simp [Ctl.stable]
      | succ k ihk =>
        intro c
        show (c.next false n false).bind (Ctl.stable false n (k + 1)) =
          ((c.next false n false).bind (Ctl.stable false n k)).bind (fun d => d.next false n false)
        cases h : c.next false n false with
        | none => rfl
        | some d => exact ihk d
    obtain ⟨c', h1, h2, h3, h4⟩ := ih
    rw [step, h1]
    obtain ⟨s, f, p⟩ := c'
    simp only at h2 h3 h4
    subst h2; subst h3
    rcases h4 with h4 | h4 <;> subst h4
    · exact ⟨{ strat := .clone, flag := true, prev := some n }, by simp [Ctl.next, hn'], rfl, rfl, Or.inr rfl⟩
    · exact ⟨{ strat := .park, flag := true, prev := some n }, by simp [Ctl.next, hn'], rfl, rfl, Or.inl rfl⟩

end Pxv.CG
