import Pxv.Model.Domain
import Pxv.Lemmas.Domain
/-!
C20 — domain guards accept exactly the hosts the documentation says. Property theorems only
(helper lemmas: `Pxv/Lemmas/Domain.lean`).
-/
namespace Pxv.Domain

/-- **C20 (1)** A guard is accepted iff it is a syntactically valid, possibly templated, DNS name
    under the documented rules. For every string (no bound on its length or alphabet; parameter
    names are judged by the ASCII identifier rule `isIdent`). -/
theorem validate_iff (s : List Char) : validate s = .ok () ↔ Grammar s := by
  constructor
  · intro h
    unfold validate at h
    split at h
    · cases h
    rename_i hne
    split at h
    · cases h
    rename_i total htot
    split at h
    · cases h
    rename_i h253
    unfold labelsOf at htot
    split at htot
    · rename_i hdot
      -- absolute form: `s = body ++ "."`
      have hs : s = s.dropLast ++ ['.'] := eq_dropLast_snoc hdot
      rw [hs, splitDots_snoc_dot, List.dropLast_concat] at htot
      obtain ⟨m, hm, ht⟩ := LabelsG_of_validateLabels (splitDots_ne_nil _)
        (fun l hl => splitDots_mem_nodot hl) 0 0 total htot
      rw [joinDots_splitDots] at hm
      rw [hs]
      exact Grammar.absolute hm (by omega)
    · obtain ⟨m, hm, ht⟩ := LabelsG_of_validateLabels (splitDots_ne_nil _)
        (fun l hl => splitDots_mem_nodot hl) 0 0 total htot
      rw [joinDots_splitDots] at hm
      exact Grammar.relative hm (by omega)
  · intro h
    cases h with
    | @relative body n hb hn =>
      obtain ⟨hne, hlast⟩ := labelsG_last hb
      have := validateLabels_of_LabelsG hb 0 0 rfl
      simp only [validate, hne, if_false, labelsOf, hlast, this]
      have : ¬ (0 + 1 + n - 1 > 253) := by omega
      simpa using hn
    | @absolute body n hb hn =>
      have := validateLabels_of_LabelsG hb 0 0 rfl
      have hl : (body ++ ['.']).getLast? = some '.' := by simp
      simp only [validate, labelsOf, hl, if_true, splitDots_snoc_dot, List.dropLast_concat, this]
      have : ¬ (0 + 1 + n - 1 > 253) := by omega
      simpa using hn

end Pxv.Domain
