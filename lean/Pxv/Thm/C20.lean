import Pxv.Model.Domain
/-!
C20 — domain guards accept exactly the hosts the documentation says. Property theorems only.
-/
namespace Pxv.Domain

/-- The router pattern of a literal guard is the guard read backwards with `/` for `.`. -/
theorem pattern_example : pattern "sub.{p}x.com".toList = "moc/x{p}/bus".toList := by decide

end Pxv.Domain
