import Pxv.Model.Domain
import Pxv.Lemmas.Domain
import Pxv.Lemmas.DomainMatch
import Pxv.Lemmas.DomainOrder
/-!
C20 — domain guards accept exactly the hosts the documentation says. Property theorems only
(helper lemmas: `Pxv/Lemmas/Domain.lean`).
-/
namespace Pxv.Domain

/-- **C20 (1)** A guard is accepted iff it is a syntactically valid, possibly templated, DNS name
    under the documented rules. For every string (no bound on its length or alphabet; parameter
    names are judged by the ASCII identifier rule `isIdent`). -/
theorem validate_iff (s : List Char) : validate s = .ok () ↔ Grammar s := by
  constructor
  · intro h
    unfold validate at h
    split at h
    · cases h
    rename_i hne
    split at h
    · cases h
    rename_i total htot
    split at h
    · cases h
    rename_i h253
    unfold labelsOf at htot
    split at htot
    · rename_i hdot
      -- absolute form: `s = body ++ "."`
      have hs : s = s.dropLast ++ ['.'] := eq_dropLast_snoc hdot
      rw [hs, splitDots_snoc_dot, List.dropLast_concat] at htot
      obtain ⟨m, hm, ht⟩ := LabelsG_of_validateLabels (splitDots_ne_nil _)
        (fun l hl => splitDots_mem_nodot hl) 0 0 total htot
      rw [joinDots_splitDots] at hm
      rw [hs]
      exact Grammar.absolute hm (by omega)
    · obtain ⟨m, hm, ht⟩ := LabelsG_of_validateLabels (splitDots_ne_nil _)
        (fun l hl => splitDots_mem_nodot hl) 0 0 total htot
      rw [joinDots_splitDots] at hm
      exact Grammar.relative hm (by omega)
  · intro h
    cases h with
    | @relative body n hb hn =>
      obtain ⟨hne, hlast⟩ := labelsG_last hb
      have := validateLabels_of_LabelsG hb 0 0 rfl
      simp only [validate, hne, if_false, labelsOf, hlast, this]
      have : ¬ (0 + 1 + n - 1 > 253) := by omega
      simpa using hn
    | @absolute body n hb hn =>
      have := validateLabels_of_LabelsG hb 0 0 rfl
      have hl : (body ++ ['.']).getLast? = some '.' := by simp
      simp only [validate, labelsOf, hl, if_true, splitDots_snoc_dot, List.dropLast_concat, this]
      have : ¬ (0 + 1 + n - 1 > 253) := by omega
      simpa using hn

/-- **C20 (2)** An accepted guard matches a host exactly when the host fits it: the router that
    holds the guard's `matchit_pattern` (of the stored, normalised guard) answers for the
    normalised `Host` iff `Fits g h` — literal labels equal, `{p}` a non-empty leading part of one
    label, a leading `{*p}` one or more labels, one trailing dot ignored on either side.
    For every grammatical guard and every host (`'/' ∉ h`: `http::uri::Authority` guarantees it). -/
theorem match_iff (g h : List Char) (hg : Grammar g) (hh : '/' ∉ h) :
    matches1 (pattern (trimDots g)) (normHost h) = true ↔ Fits g h := by
  obtain ⟨body, n, hb, _, htrim, hstrip⟩ := grammar_body hg
  obtain ⟨gls, hne, hwf, hbody, _, htail⟩ := labelsG_struct hb
  have hca : ∀ x ∈ gls.reverse.dropLast, x.isCatchAll = false := by
    intro x hx
    rw [List.dropLast_reverse] at hx
    exact htail x (by simpa using hx)
  unfold matches1 Fits guardLabels
  rw [htrim, hstrip, hbody, pattern_struct hne hwf,
    parsePat_struct (G := gls.reverse) (by simpa using hne) (fun x hx => hwf x (by simpa using hx)) hca,
    path_normHost hh, guardLabels_of_struct hne hwf]
  exact segsMatch_iff_fitsFrom gls.reverse (hostLabels h).reverse

-- Non-vacuity (validate_iff): accepted and rejected strings, each error class reachable.
example : validate "{sub}.example.com.".toList = .ok () := rfl
example : Grammar "{*any}.{sub}b.example.com".toList := (validate_iff _).mp rfl
example : validate "a..b".toList = .error .emptyLabel := rfl
example : validate "sub.{*all}.domain.com".toList = .error .catchAllNotAtStart := rfl
example : validate "some{id}.domain.com".toList = .error .paramNotAtStart := rfl
example : validate "{fn}.com".toList = .error .invalidParamName := rfl
example : ¬ Grammar "{a}{b}.com".toList := fun h => by
  have := (validate_iff _).mpr h
  have e : validate "{a}{b}.com".toList = .error .tooManyParams := rfl
  rw [e] at this
  cases this

-- Non-vacuity (match_iff): a templated guard in absolute form and a host with a trailing dot.
example : Fits "{*any}.{sub}b.example.com.".toList "a.b.cb.example.com.".toList :=
  (match_iff _ _ ((validate_iff _).mp rfl) (by decide)).mp rfl
example : ¬ Fits "{*any}.{sub}b.example.com.".toList "b.example.com".toList := fun h =>
  absurd ((match_iff _ _ ((validate_iff _).mp rfl) (by decide)).mpr h) (by decide)
-- one trailing dot is ignored, two are not
example : ¬ Fits "a.com".toList "a.com..".toList := fun h =>
  absurd ((match_iff _ _ ((validate_iff _).mp rfl) (by decide)).mpr h) (by decide)

/-- With `guardNew` (what `DomainGuard::new` stores) spelled out. -/
theorem match_iff' (g d h : List Char) (hnew : guardNew g = .ok d) (hh : '/' ∉ h) :
    matches1 (pattern d) (normHost h) = true ↔ Fits g h := by
  unfold guardNew at hnew
  split at hnew
  · cases hnew
  · rename_i hv
    cases hnew
    exact match_iff g h ((validate_iff g).mp hv) hh

/-- What the router sees of an accepted guard: its pattern parses (the modelled `matchit` family
    is closed under `matchit_pattern`), and fitting hosts are exactly the matching paths. -/
theorem fits_gives_route {g d h : List Char} (hnew : guardNew g = .ok d) (hh : '/' ∉ h)
    (hf : Fits g h) :
    ∃ p, parsePat (pattern d) = some p ∧ segsMatch p (splitSlash (normHost h)) = true := by
  have := (match_iff' g d h hnew hh).mpr hf
  unfold matches1 at this
  split at this
  · cases this
  · rename_i p hp; exact ⟨p, hp, this⟩

/-- **C20 (3)** Two accepted guards with a common fitting host are either in conflict — and then
    `insert` of the second one answers `Conflict`, whichever comes first, i.e. the compiler rejects
    the pair — or strictly ordered by specificity (one of them is searched before the other on every
    host). This is the part of "two guards that can match the same host are rejected" that holds:
    see `no_two_candidates_statement_false` below. -/
theorem conflict_or_ordered (g1 g2 d1 d2 h : List Char)
    (h1 : guardNew g1 = .ok d1) (h2 : guardNew g2 = .ok d2) (hh : '/' ∉ h)
    (f1 : Fits g1 h) (f2 : Fits g2 h) :
    ∃ p1 p2, parsePat (pattern d1) = some p1 ∧ parsePat (pattern d2) = some p2 ∧
      ((conflict p1 p2 = true ∧ insChk [toks p1] (toks p2) false true = true ∧
          insChk [toks p2] (toks p1) false true = true)
        ∨ prefer p1 p2 = true ∨ prefer p2 p1 = true) := by
  obtain ⟨p1, hp1, m1⟩ := fits_gives_route h1 hh f1
  obtain ⟨p2, hp2, m2⟩ := fits_gives_route h2 hh f2
  refine ⟨p1, p2, hp1, hp2, ?_⟩
  rcases conflict_or_prefer p1 p2 _ m1 m2 with hc | hp | hp
  · left
    exact ⟨hc, insChk_of_conflict p1 p2 hc false true,
      insChk_of_conflict p2 p1 (by rw [conflict_symm]; exact hc) false true⟩
  · exact Or.inr (Or.inl hp)
  · exact Or.inr (Or.inr hp)

-- Non-vacuity (conflict_or_ordered): both branches occur.
example : ∃ p1 p2, parsePat (pattern "{a}.x.com".toList) = some p1 ∧
    parsePat (pattern "{*b}.x.com".toList) = some p2 ∧ conflict p1 p2 = true :=
  ⟨_, _, rfl, rfl, by decide⟩
example : Fits "{a}.x.com".toList "w.x.com".toList ∧ Fits "{*b}.x.com".toList "w.x.com".toList :=
  ⟨(match_iff' _ _ _ rfl (by decide)).mp rfl, (match_iff' _ _ _ rfl (by decide)).mp rfl⟩
example : ∃ p1 p2, parsePat (pattern "admin.x.com".toList) = some p1 ∧
    parsePat (pattern "{sub}.x.com".toList) = some p2 ∧ conflict p1 p2 = false ∧ prefer p1 p2 = true :=
  ⟨_, _, rfl, rfl, by decide, by decide⟩

/-- …and a conflicting pair is what `detect_domain_conflicts` reports: inserting the two patterns
    in order gives `[ok, conflict]`. -/
theorem conflict_rejected (q1 q2 : List Char) (s1 s2 : List Seg)
    (hp1 : parsePat q1 = some s1) (hp2 : parsePat q2 = some s2) (hc : conflict s1 s2 = true)
    (hn1 : paramCount s1 < 26) (hn2 : paramCount s2 < 26) :
    (insertAll [q1, q2] 0 []).1 = [.ok, .conflict] := by
  have e1 : ¬ paramCount s1 ≥ 26 := by omega
  have e2 : ¬ paramCount s2 ≥ 26 := by omega
  simp [insertAll, hp1, hp2, e1, e2, insChk_empty, insChk_of_conflict s1 s2 hc false true]

/-- The order is strict: of two ordered guards exactly one wins. -/
theorem ordered_strict (p1 p2 : List Seg) (h : prefer p1 p2 = true) : prefer p2 p1 = false :=
  prefer_asymm p1 p2 h

/-- Routes that pass `insert` pairwise are totally ordered on every path they share. -/
theorem ordered_of_no_conflict (routes : List (Nat × List Seg)) (segs : List (List Char))
    (hnc : ∀ r ∈ routes, ∀ r' ∈ routes, r ≠ r' → conflict r.2 r'.2 = false) :
    Ordered routes segs := by
  intro r hr r' hr' hm hm'
  by_cases e : r = r'
  · exact Or.inl e
  · rcases conflict_or_prefer r.2 r'.2 segs hm hm' with hc | hp
    · rw [hnc r hr r' hr' e] at hc; cases hc
    · exact Or.inr hp

/-- **C20 (4)** A request never has two candidate domains: among the routes of an accepted guard
    set, `Router::at` returns a matching route that is searched before every other matching route;
    that route is unique, so the answer does not depend on the order in which the guards were
    registered or inserted. -/
theorem domain_deterministic (routes routes' : List (Nat × List Seg)) (path : List Char)
    (hperm : routes.Perm routes') (hord : Ordered routes (splitSlash path)) :
    atRoutes routes path = atRoutes routes' path := by
  unfold atRoutes
  rw [bestRoute_perm hperm hord]

-- Non-vacuity (domain_deterministic): three overlapping, pairwise ordered routes, two orders.
example :
    let r := [(0, [Seg.lit "moc".toList, .lit "x".toList, .lit "nimda".toList]),
              (1, [Seg.lit "moc".toList, .lit "x".toList, .param [] "sub".toList, .catchAll [] "any".toList]),
              (2, [Seg.lit "moc".toList, .lit "x".toList, .param [] "sub".toList])]
    atRoutes r "moc/x/nimda".toList = some 0 ∧ atRoutes r.reverse "moc/x/nimda".toList = some 0 ∧
    atRoutes r "moc/x/ipa".toList = some 2 ∧ atRoutes r "moc/x/ipa/a/b".toList = some 1 := by decide

theorem at_most_specific (routes : List (Nat × List Seg)) (path : List Char)
    (hord : Ordered routes (splitSlash path)) :
    (atRoutes routes path = none ↔ ∀ r ∈ routes, segsMatch r.2 (splitSlash path) = false) ∧
    (∀ i, atRoutes routes path = some i →
      ∃ b, IsBest routes (splitSlash path) b ∧ b.1 = i ∧
        ∀ b', IsBest routes (splitSlash path) b' → b' = b) := by
  have hs := bestRoute_spec hord
  unfold atRoutes
  cases hb : bestRoute routes (splitSlash path) with
  | none =>
    rw [hb] at hs
    simp only [FoldInv] at hs
    exact ⟨by simpa using hs, by intro i hi; simp at hi⟩
  | some b =>
    rw [hb] at hs
    simp only [FoldInv] at hs
    refine ⟨?_, ?_⟩
    · constructor
      · intro h; simp at h
      · intro h
        have := hs.2.1
        rw [h b hs.1] at this; cases this
    · intro i hi
      simp only [Option.map_some, Option.some.injEq] at hi
      exact ⟨b, hs, hi, fun b' hb' => isBest_unique hb' hs⟩

/-! ### The full-strength statement fails (finding C20-specificity-overlap) -/

/-- "Two guards that can match the same host are rejected as conflicting", literally. -/
def no_two_candidates_statement : Prop :=
  ∀ g1 g2 d1 d2 h : List Char, guardNew g1 = .ok d1 → guardNew g2 = .ok d2 → d1 ≠ d2 →
    '/' ∉ h → Fits g1 h → Fits g2 h → (route [g1, g2] h).ins.any (· != .ok) = true

theorem fits_admin : Fits "admin.x.com".toList "admin.x.com".toList := by
  have e1 : guardLabels "admin.x.com".toList
      = [.lit "admin".toList, .lit "x".toList, .lit "com".toList] := by decide
  have e2 : hostLabels "admin.x.com".toList = ["admin".toList, "x".toList, "com".toList] := by decide
  unfold Fits
  rw [e1, e2]
  simp [fitsFrom]

theorem fits_sub : Fits "{sub}.x.com".toList "admin.x.com".toList := by
  have e1 : guardLabels "{sub}.x.com".toList
      = [.param "sub".toList [], .lit "x".toList, .lit "com".toList] := by decide
  have e2 : hostLabels "admin.x.com".toList = ["admin".toList, "x".toList, "com".toList] := by decide
  unfold Fits
  rw [e1, e2]
  simp only [List.reverse_cons, List.reverse_nil, List.nil_append, List.cons_append,
    fitsFrom, true_and, and_true]
  exact ⟨"admin".toList, by decide, by simp⟩

/-- The faithful model accepts `admin.x.com` together with `{sub}.x.com`, although the host
    `admin.x.com` fits both (upstream relies on this: ui test `blueprint/router/domain_routing`). -/
theorem no_two_candidates_statement_false : ¬ no_two_candidates_statement := by
  intro hst
  have := hst "admin.x.com".toList "{sub}.x.com".toList "admin.x.com".toList "{sub}.x.com".toList
    "admin.x.com".toList (by rfl) (by rfl) (by decide) (by decide) fits_admin fits_sub
  revert this
  decide

/-! ### one trailing dot -/

/-- One trailing dot of the host is ignored… -/
theorem fits_host_trailing_dot (g h : List Char) (hl : h.getLast? ≠ some '.') :
    Fits g (h ++ ['.']) ↔ Fits g h := by
  simp [Fits, hostLabels, stripDot_snoc_dot, stripDot_of_last hl]

/-- …and so is one trailing dot of the guard (absolute form). -/
theorem fits_guard_trailing_dot (g h : List Char) (hl : g.getLast? ≠ some '.') :
    Fits (g ++ ['.']) h ↔ Fits g h := by
  simp [Fits, guardLabels, stripDot_snoc_dot, stripDot_of_last hl]

/-- The generated server agrees: the router sees the same path for `h` and `h.`. -/
theorem normHost_trailing_dot (h : List Char) (hl : h.getLast? ≠ some '.') :
    normHost (h ++ ['.']) = normHost h := by
  simp [normHost, stripDot_snoc_dot, stripDot_of_last hl]

end Pxv.Domain
