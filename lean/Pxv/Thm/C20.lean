import Pxv.Model.Domain
import Pxv.Lemmas.Domain
import Pxv.Lemmas.DomainMatch
/-!
C20 — domain guards accept exactly the hosts the documentation says. Property theorems only
(helper lemmas: `Pxv/Lemmas/Domain.lean`).
-/
namespace Pxv.Domain

/-- **C20 (1)** A guard is accepted iff it is a syntactically valid, possibly templated, DNS name
    under the documented rules. For every string (no bound on its length or alphabet; parameter
    names are judged by the ASCII identifier rule `isIdent`). -/
theorem validate_iff (s : List Char) : validate s = .ok () ↔ Grammar s := by
  constructor
  · intro h
    unfold validate at h
    split at h
    · cases h
    rename_i hne
    split at h
    · cases h
    rename_i total htot
    split at h
    · cases h
    rename_i h253
    unfold labelsOf at htot
    split at htot
    · rename_i hdot
      -- absolute form: `s = body ++ "."`
      have hs : s = s.dropLast ++ ['.'] := eq_dropLast_snoc hdot
      rw [hs, splitDots_snoc_dot, List.dropLast_concat] at htot
      obtain ⟨m, hm, ht⟩ := LabelsG_of_validateLabels (splitDots_ne_nil _)
        (fun l hl => splitDots_mem_nodot hl) 0 0 total htot
      rw [joinDots_splitDots] at hm
      rw [hs]
      exact Grammar.absolute hm (by omega)
    · obtain ⟨m, hm, ht⟩ := LabelsG_of_validateLabels (splitDots_ne_nil _)
        (fun l hl => splitDots_mem_nodot hl) 0 0 total htot
      rw [joinDots_splitDots] at hm
      exact Grammar.relative hm (by omega)
  · intro h
    cases h with
    | @relative body n hb hn =>
      obtain ⟨hne, hlast⟩ := labelsG_last hb
      have := validateLabels_of_LabelsG hb 0 0 rfl
      simp only [validate, hne, if_false, labelsOf, hlast, this]
      have : ¬ (0 + 1 + n - 1 > 253) := by omega
      simpa using hn
    | @absolute body n hb hn =>
      have := validateLabels_of_LabelsG hb 0 0 rfl
      have hl : (body ++ ['.']).getLast? = some '.' := by simp
      simp only [validate, labelsOf, hl, if_true, splitDots_snoc_dot, List.dropLast_concat, this]
      have : ¬ (0 + 1 + n - 1 > 253) := by omega
      simpa using hn

/-- **C20 (2)** An accepted guard matches a host exactly when the host fits it: the router that
    holds the guard's `matchit_pattern` (of the stored, normalised guard) answers for the
    normalised `Host` iff `Fits g h` — literal labels equal, `{p}` a non-empty leading part of one
    label, a leading `{*p}` one or more labels, one trailing dot ignored on either side.
    For every grammatical guard and every host (`'/' ∉ h`: `http::uri::Authority` guarantees it). -/
theorem match_iff (g h : List Char) (hg : Grammar g) (hh : '/' ∉ h) :
    matches1 (pattern (trimDots g)) (normHost h) = true ↔ Fits g h := by
  obtain ⟨body, n, hb, _, htrim, hstrip⟩ := grammar_body hg
  obtain ⟨gls, hne, hwf, hbody, _, htail⟩ := labelsG_struct hb
  have hca : ∀ x ∈ gls.reverse.dropLast, x.isCatchAll = false := by
    intro x hx
    rw [List.dropLast_reverse] at hx
    exact htail x (by simpa using hx)
  unfold matches1 Fits guardLabels
  rw [htrim, hstrip, hbody, pattern_struct hne hwf,
    parsePat_struct (G := gls.reverse) (by simpa using hne) (fun x hx => hwf x (by simpa using hx)) hca,
    path_normHost hh, guardLabels_of_struct hne hwf]
  exact segsMatch_iff_fitsFrom gls.reverse (hostLabels h).reverse

/-- With `guardNew` (what `DomainGuard::new` stores) spelled out. -/
theorem match_iff' (g d h : List Char) (hnew : guardNew g = .ok d) (hh : '/' ∉ h) :
    matches1 (pattern d) (normHost h) = true ↔ Fits g h := by
  unfold guardNew at hnew
  split at hnew
  · cases hnew
  · rename_i hv
    cases hnew
    exact match_iff g h ((validate_iff g).mp hv) hh

end Pxv.Domain
