import Pxv.Model.Bp
import Pxv.Model.Attr
import Pxv.Lemmas.Bp
import Pxv.Lemmas.Attr
/-!
C19 — what you register is what the compiler sees. Property theorems only
(helper lemmas: `Pxv/Lemmas/Bp.lean`, `Pxv/Lemmas/Attr.lean`).

Part 1: the blueprint builder. `run` executes a program against the public API the way the Rust
code does (push, then in-place mutation of `components[component_id]`); `meaning` says what the
program *means* (one component per statement, each property set by the last call that sets it,
nested blueprints embedded unchanged). RON (`persist` / `ron::de`) is assumed to be the identity.
-/
namespace Pxv.Bp

mutual
/-- Executing one statement appends exactly the component the statement stands for; nothing that
    was registered before is touched. -/
theorem exec_eq (comps : List Component) : (op : Op) → exec comps op = comps ++ [meaning op]
  | .constructor c loc mods => by
    simp only [exec, meaning, pushThen_eq, ctor_fold, lastSomeD_none]
  | .handler k c loc ehs => by simp only [exec, meaning, pushThen_eq, eh_fold, lastSomeD_none]
  | .errorObserver c loc => by simp [exec, meaning, pushThen_eq]
  | .errorHandler c loc => by simp [exec, meaning, pushThen_eq]
  | .prebuilt c loc mods => by simp only [exec, meaning, pushThen_eq, prebuilt_fold, lastSomeD_none]
  | .config c loc mods => by simp only [exec, meaning, pushThen_eq, config_fold, lastSomeD_none]
  | .imp i loc => by simp [exec, meaning, pushThen_eq]
  | .routes i loc => by simp [exec, meaning, pushThen_eq]
  | .nest rmods loc creation child => by
    have := execAll_eq [] child
    simp only [exec, meaning, runRMods_eq, lastSomeD_none, this, List.nil_append]
  | .nestRoutes rmods i loc => by simp only [exec, meaning, runRMods_eq, lastSomeD_none]

theorem execAll_eq (comps : List Component) : (ops : List Op) → execAll comps ops = comps ++ meanings ops
  | [] => by simp [execAll, meanings]
  | op :: ops => by
    rw [execAll, exec_eq comps op, execAll_eq (comps ++ [meaning op]) ops]
    simp [meanings]
end

/-- **C19 (1) build_preserves.** The schema a program persists is: its creation site, and one
    component per statement, in statement order, each carrying exactly what the statement means —
    for every program (any length, any nesting depth, any overriding calls). -/
theorem build_preserves (bp : Bp) :
    (run bp).creation = bp.creation ∧ (run bp).components = meanings bp.ops := by
  simp [run, execAll_eq]

theorem meanings_length (ops : List Op) : (meanings ops).length = ops.length := by
  induction ops with
  | nil => rfl
  | cons o os ih => simp [meanings, ih]

theorem meanings_getElem? (ops : List Op) (i : Nat) : (meanings ops)[i]? = (ops[i]?).map meaning := by
  induction ops generalizing i with
  | nil => simp [meanings]
  | cons o os ih =>
    cases i with
    | zero => simp [meanings]
    | succ i => simp [meanings, ih]

/-- **C19 (2) order preserved.** The i-th registration is the i-th component: nothing is dropped,
    duplicated or reordered. -/
theorem order_preserved (bp : Bp) (i : Nat) :
    (run bp).components.length = bp.ops.length ∧
    (run bp).components[i]? = (bp.ops[i]?).map meaning := by
  rw [(build_preserves bp).2]
  exact ⟨meanings_length _, meanings_getElem? _ _⟩

/-- **C19 (3) nesting intact.** `nest` embeds exactly the schema the child program builds on its
    own, whatever came before in the parent. -/
theorem nest_intact (comps : List Component) (rmods : List RMod) (loc creation : Loc) (child : List Op) :
    exec comps (.nest rmods loc creation child) =
      comps ++ [.nested (run ⟨creation, child⟩).creation (run ⟨creation, child⟩).components
        (lastSome rmodPrefix rmods) (lastSome rmodDomain rmods) loc] := by
  rw [exec_eq]
  simp [meaning, run, execAll_eq]

theorem lastSome_append_none {α β} (f : α → Option β) (pre post : List α)
    (h : ∀ a ∈ post, f a = none) : lastSome f (pre ++ post) = lastSome f pre := by
  induction pre with
  | nil =>
    induction post with
    | nil => rfl
    | cons a as ih =>
      simp only [List.nil_append, lastSome] at ih ⊢
      rw [ih (fun x hx => h x (by simp [hx])), h a (by simp)]
  | cons a as ih => simp only [List.cons_append, lastSome, ih]

theorem lastSome_snoc {α β} (f : α → Option β) (pre : List α) (a : α) (b : β) (h : f a = some b) :
    lastSome f (pre ++ [a]) = some b := by
  induction pre with
  | nil => simp [lastSome, h]
  | cons x xs ih => simp [lastSome, ih]

/-- **C19 (4) prefix_last_wins.** In a chain `….prefix(p)….nest(..)` with no later `prefix` call,
    the nested blueprint gets `p` (and the location of that call) — earlier prefixes are
    overridden, interleaved `domain` calls are irrelevant. -/
theorem prefix_last_wins (pre post : List RMod) (p : String) (l : Loc)
    (hpost : ∀ m ∈ post, rmodPrefix m = none) :
    (runRMods (pre ++ [.pfx p l] ++ post) (none, none)).1 = some (p, l) := by
  rw [runRMods_eq]
  simp only [lastSomeD_none]
  rw [lastSome_append_none _ _ _ hpost]
  exact lastSome_snoc _ _ _ _ rfl

/-- **C19 (5) domain_last_wins.** Same for `domain`. -/
theorem domain_last_wins (pre post : List RMod) (d : String) (l : Loc)
    (hpost : ∀ m ∈ post, rmodDomain m = none) :
    (runRMods (pre ++ [.dom d l] ++ post) (none, none)).2 = some (d, l) := by
  rw [runRMods_eq]
  simp only [lastSomeD_none]
  rw [lastSome_append_none _ _ _ hpost]
  exact lastSome_snoc _ _ _ _ rfl

/-- No `prefix` call, no prefix (and likewise for `domain`). -/
theorem no_prefix_no_domain (rmods : List RMod) :
    ((∀ m ∈ rmods, rmodPrefix m = none) → (runRMods rmods (none, none)).1 = none) ∧
    ((∀ m ∈ rmods, rmodDomain m = none) → (runRMods rmods (none, none)).2 = none) := by
  rw [runRMods_eq]
  simp only [lastSomeD_none]
  constructor
  · intro h; simpa [lastSome] using lastSome_append_none rmodPrefix [] rmods h
  · intro h; simpa [lastSome] using lastSome_append_none rmodDomain [] rmods h

/-- **C19 (6) lifecycles, cloning policies, lints, error handlers, locations carried.** A
    constructor registered with a chain of modifier calls ends up with: the coordinates and the
    call site it was registered with, and for each property the value of the last call setting it
    (`none` if there is no such call); lints are kept per lint. -/
theorem constructor_carried (comps : List Component) (c : Coords) (loc : Loc) (mods : List CtorMod) :
    exec comps (.constructor c loc mods) = comps ++
      [.constructor c (lastSome ctorLifecycle mods) (lastSome ctorCloning mods) (lastSome ctorEh mods)
        { unused := lastSome (ctorLint .unused) mods,
          errorFallback := lastSome (ctorLint .errorFallback) mods } loc] := by
  rw [exec_eq]; rfl

/-- …and likewise the error handler of a route / fallback / middleware is the last one given. -/
theorem handler_carried (comps : List Component) (k : HKind) (c : Coords) (loc : Loc)
    (ehs : List (Coords × Loc)) (h : Coords) (hl : Loc) :
    exec comps (.handler k c loc (ehs ++ [(h, hl)])) = comps ++ [.handler k c loc (some ⟨h, hl⟩)] := by
  rw [exec_eq]
  simp only [meaning]
  rw [lastSome_snoc (fun x : Coords × Loc => some (EH.mk x.1 x.2)) ehs (h, hl) ⟨h, hl⟩ rfl]

-- Non-vacuity: a program with overriding calls at two nesting levels.
example :
    let c : Coords := ⟨"A", "app", "0.1.0", "singleton"⟩
    let prog : Bp := ⟨"new#0",
      [.constructor c "constructor#1" [.lifecycle .transient, .cloneIfNecessary, .lint .allow .unused,
          .lifecycle .singleton, .neverClone, .lint .deny .unused],
       .nest [.pfx "/a" "prefix#0", .dom "x.com" "rm_domain#1", .pfx "/b" "rm_prefix#2"] "rm_nest#0" "new#1"
         [.config c "config#0" [.defaultIfMissing, .required],
          .nest [] "nest#2" "new#2" [.routes ⟨.all, "crate", "app", "0.1.0"⟩ "routes#0"]]]⟩
    (run prog).components =
      [.constructor c (some .singleton) (some .neverClone) none { unused := some .deny } "constructor#1",
       .nested "new#1"
         [.config c none (some false) none "config#0",
          .nested "new#2" [.routesImp ⟨.all, "crate", "app", "0.1.0"⟩ "routes#0"] none none "nest#2"]
         (some ("/b", "rm_prefix#2")) (some ("x.com", "rm_domain#1")) "rm_nest#0"] := by
  intro c prog
  rw [(build_preserves prog).2]
  rfl

end Pxv.Bp

/-!
Part 2: attributes. `emitAttr` is the token list a macro writes on the item (from its `quote!`
template), `parseItem` is `pavexc_attr_parser::parse` on the item's attributes, `meaning` is what
the macro arguments mean. Token level: rustc's attribute printer and `syn`'s lexer sit in between.
-/
namespace Pxv.Attr

theorem interpret_emit (s : Spec) :
    interpret ⟨false, ["diagnostic", "pavex", s.kind], .list (some s.fields)⟩
      = some (fromFields s.kind s.fields) := by
  obtain ⟨hk, hm⟩ := spec_kind_known s
  unfold interpret
  simp only
  cases hkk : knownKeys s.kind with
  | none => rw [hkk] at hk; simp at hk
  | some keys => simp [hm]

/-- **C19 (7) attr_roundtrip.** For every legal combination of macro arguments (every component
    kind, every subset of optional arguments, every string), the attribute the macro writes is read
    back by the compiler as exactly the properties the arguments mean: id, path, method set,
    lifecycle, cloning policy, allow lists, error-handler input index, default flags. -/
theorem attr_roundtrip (s : Spec) (h : s.legal = true) :
    parseItem [some (emitAttr s)] = .some (meaning s) := by
  unfold parseItem emitAttr
  simp only [List.filterMap_cons, List.filterMap_nil, Option.bind_some,
    parseOuter_emit s.kind s.fields (spec_allValued s), List.flatten_cons, List.flatten_nil,
    List.append_nil]
  simp only [combine, interpret_emit, fromFields_emit s h, Option.isSome_none, Bool.false_eq_true,
    if_false]

/-- **C19 (8) unknown_attr_rejected.** An attribute in the `diagnostic::pavex` namespace whose kind
    the compiler does not know is an error, never silently ignored. -/
theorem unknown_attr_rejected (kind : String) (fs : List Field) (hv : AllValued fs)
    (hk : knownKeys kind = none) :
    parseItem [some (attrToks kind fs)] = .unknownAttribute := by
  unfold parseItem
  simp only [List.filterMap_cons, List.filterMap_nil, Option.bind_some, parseOuter_emit kind fs hv,
    List.flatten_cons, List.flatten_nil, List.append_nil]
  simp [combine, interpret, hk]

/-- Attributes outside the `diagnostic::pavex` namespace (`#[inline]`, `#[doc = ..]`, …) around the
    Pavex attribute change nothing. -/
theorem other_attrs_ignored (pre post : List Attribute) (a : Attribute)
    (hpre : ∀ x ∈ pre, interpret x = none) (hpost : ∀ x ∈ post, interpret x = none) :
    combine none (pre ++ a :: post) = combine none [a] := by
  have skip : ∀ (l : List Attribute) (acc : Option Props) (rest : List Attribute),
      (∀ x ∈ l, interpret x = none) → combine acc (l ++ rest) = combine acc rest := by
    intro l
    induction l with
    | nil => intro acc rest _; rfl
    | cons x xs ih =>
      intro acc rest hl
      simp only [List.cons_append, combine, hl x (by simp)]
      exact ih acc rest (fun y hy => hl y (by simp [hy]))
  rw [skip pre none _ hpre]
  simp only [combine]
  cases interpret a with
  | none => simpa [combine] using skip post none [] hpost
  | some o =>
    cases o with
    | some p => simpa [combine] using skip post (some p) [] hpost
    | none => rfl
    | unknownAttribute => rfl
    | invalidParams => rfl
    | multiple => rfl
    | panic => rfl

/-- Two Pavex attributes on one item are rejected. -/
theorem two_pavex_attrs_rejected (s1 s2 : Spec) (h1 : s1.legal = true) (h2 : s2.legal = true) :
    parseItem [some (emitAttr s1), some (emitAttr s2)] = .multiple := by
  unfold parseItem emitAttr
  simp only [List.filterMap_cons, List.filterMap_nil, Option.bind_some,
    parseOuter_emit _ _ (spec_allValued s1), parseOuter_emit _ _ (spec_allValued s2),
    List.flatten_cons, List.flatten_nil, List.append_nil, List.cons_append, List.nil_append]
  simp [combine, interpret_emit, fromFields_emit s1 h1, fromFields_emit s2 h2]

/-- The one combination `#[route]` used to let through although the documentation forbids it
    (`method` missing without `allow(any_method)`): the compiler does not get properties, it
    panics. (The macro now rejects it: repo commit "fix: reject #[route] without `method`…".) -/
theorem route_without_method_panics (id path : String) (ns : Bool) (aef : Option Bool) :
    parseItem [some (emitAttr (.route id path none ns false aef))] = .panic := by
  unfold parseItem emitAttr
  simp only [List.filterMap_cons, List.filterMap_nil, Option.bind_some,
    parseOuter_emit _ _ (spec_allValued _), List.flatten_cons, List.flatten_nil, List.append_nil]
  cases ns <;> cases aef <;>
    simp [combine, interpret, knownKeys, Spec.kind, Spec.fields, fromFields, optField, flagField, hasDup,
      lookup, getStr, getBool, getMethod]

-- Non-vacuity: legal specs of several kinds, with their attributes and meanings.
example : parseItem [some (emitAttr (.constructor "A" .requestScoped (some .cloneIfNecessary) (some true) (some false)))]
    = .some (.constructor "A" .requestScoped (some .cloneIfNecessary) (some true) (some false)) :=
  attr_roundtrip _ rfl
example : parseItem [some (emitAttr (.route "R" "/users/{id}" (some (.multiple ["POST", "GET", "POST"])) false false none))]
    = .some (.route "R" (.some ["GET", "POST"]) "/users/{id}" none) := by
  rw [attr_roundtrip _ rfl]; decide
example : parseItem [some (emitAttr (.route "R" "/hook" none true true none))] = .some (.route "R" .any "/hook" none) :=
  attr_roundtrip _ rfl
example : emitAttr (.errorHandler "H" 1 (some true))
    = [.punct '#', .punct '[', .ident "diagnostic", .punct ':', .punct ':', .ident "pavex", .punct ':', .punct ':',
       .ident "error_handler", .punct '(', .ident "id", .punct '=', .str "H", .punct ',',
       .ident "error_ref_input_index", .punct '=', .nat 1, .punct ',', .ident "default", .punct '=', .bool true,
       .punct ',', .punct ')', .punct ']'] := by
  decide
example : parseItem [some (attrToks "nope" [⟨"id", some (.str "A")⟩])] = .unknownAttribute :=
  unknown_attr_rejected _ _ (by intro f hf; simp at hf; subst hf; rfl) rfl

end Pxv.Attr
