import Pxv.Lemmas.SessionRefine
import Pxv.Lemmas.SessionCarry
/-!
C12 — session cookies are never emitted unprotected and never leak the id.

Property theorems only, about `finalizeSession` (middleware.rs), the cookie built by `finalize`
(session_.rs), what `ResponseCookies` holds afterwards (`respond`), the processor's outgoing
treatment (`outgoingAlg`) and the `Debug` view. Theorems 1–3, 7, 8 hold for *every* session state and
store, hence after every operation history and under every configuration — where the processor is a
parameter of each *request* (`Req.crypto`, `ReqOut.cfg`): the crypto configuration may change between
the requests of a history (key / algorithm rotation with fallbacks), the cookie a request presents
may have been written under another configuration and read through a fallback (`accept`), or the
incoming session may be assembled by hand (`Src.parts`, `IncomingSession::from_parts`).
-/
set_option linter.unusedSectionVars false
namespace Pxv.Session

variable {κ ν : Type} [DecidableEq κ]

/-- `finalize` neither touches the client state nor the invalidation flag when it hands out a value
    cookie: the cookie carries the session's client map, and the session is not invalidated. -/
theorem finalize_set_client (cfg : Config) (s s' : Sess κ ν) (w w' : World κ ν) (id : Nat) (c : Map κ ν)
    (h : finalize cfg s w = (.set id c, s', w')) : c = s.client.state ∧ s.invalidated = false := by
  unfold finalize at h
  cases hm : sync cfg s w with
  | mk o p =>
    obtain ⟨s1, w1⟩ := p
    rw [hm] at h
    cases o with
    | err e => simp at h
    | panic => simp at h
    | ok =>
      obtain ⟨_, g2, g3⟩ := sync_ok_fields cfg s s1 w w1 hm
      simp only at h
      split at h
      · split at h <;> simp at h
      · rename_i hinv
        rw [g2] at hinv
        refine ⟨?_, by simpa using hinv⟩
        repeat' split at h
        all_goals first
          | (simp at h; done)
          | (simp at h; rw [← g3]; exact h.1.2.symm)

/-- **C12 (1)**: a session cookie (value or removal) is attached only if the processor says it will
    sign or encrypt a cookie of that name. -/
theorem cookie_protected (cfg : Config) (s s' : Sess κ ν) (w w' : World κ ν) (f : Fin κ ν)
    (h : finalizeSession cfg s w = (f, s', w')) (hc : (∃ id c, f = .set id c) ∨ f = .removal) :
    willSign cfg = true ∨ willEncrypt cfg = true := by
  unfold finalizeSession at h
  generalize finalize cfg s w = m at h
  obtain ⟨f0, s0, w0⟩ := m
  cases f0 <;> simp only at h
  · -- set
    split at h
    · simp at h; obtain ⟨h1, _⟩ := h; subst h1; simp at hc
    · split at h
      · simp at h; obtain ⟨h1, _⟩ := h; subst h1; simp at hc
      · rename_i _ h2
        by_cases he : willEncrypt cfg = true
        · exact Or.inr he
        · simp [he] at h2
          exact Or.inl h2
  · -- removal
    split at h
    · simp at h; obtain ⟨h1, _⟩ := h; subst h1; simp at hc
    · split at h
      · simp at h; obtain ⟨h1, _⟩ := h; subst h1; simp at hc
      · rename_i _ h2
        by_cases he : willEncrypt cfg = true
        · exact Or.inr he
        · simp [he] at h2
          exact Or.inl h2
  all_goals (simp at h; obtain ⟨h1, _⟩ := h; subst h1; simp at hc)

/-- **C12 (2)**: a cookie that carries client-side state is attached only if the processor says it
    will encrypt it. -/
theorem client_state_encrypted (cfg : Config) (s s' : Sess κ ν) (w w' : World κ ν) (id : Nat) (c : Map κ ν)
    (h : finalizeSession cfg s w = (.set id c, s', w')) (hne : c ≠ []) : willEncrypt cfg = true := by
  unfold finalizeSession at h
  cases hm : finalize cfg s w with
  | mk f0 p =>
    obtain ⟨s0, w0⟩ := p
    rw [hm] at h
    cases f0 <;> simp only at h
    · rename_i id0 c0
      obtain ⟨e1, e2⟩ := finalize_set_client cfg s s0 w w0 id0 c0 hm
      have hme : clientIsEmpty s = false := by
        simp only [clientIsEmpty, e2]
        cases hs : s.client.state with
        | nil =>
          split at h
          · simp at h
          · split at h
            · simp at h
            · simp at h; exact absurd (by rw [← h.1.2, e1, hs]) hne
        | cons a t => simp
      split at h
      · simp at h
      · rename_i h1
        simp [hme] at h1
        exact h1
    · split at h
      · simp at h
      · split at h <;> simp at h
    all_goals simp at h

/-- **C12 (3)**: when the middleware fails the request, `ResponseCookies` is left as it was. -/
theorem error_no_cookie (cfg : Config) (rc : List (OutCookie κ ν)) (e : FinErr) :
    respond cfg rc (.err e : Fin κ ν) = rc := rfl

/-- ... and nothing else than one session cookie is ever added. -/
theorem respond_adds_at_most_one (cfg : Config) (rc : List (OutCookie κ ν)) (f : Fin κ ν) :
    (respond cfg rc f).length ≤ rc.length + 1 := by
  cases f <;> simp [respond]

/-- **C12 (4)**: the value cookie carries the configured name, domain, path, SameSite, Secure,
    HttpOnly, and a max-age (the configured TTL) exactly when the cookie kind is persistent. -/
theorem attrs_eq_config (cfg : Config) :
    (setAttrs cfg).name = cfg.cookie.name ∧ (setAttrs cfg).domain = cfg.cookie.domain ∧
    (setAttrs cfg).path = cfg.cookie.path ∧ (setAttrs cfg).sameSite = cfg.cookie.sameSite ∧
    (setAttrs cfg).secure = cfg.cookie.secure ∧ (setAttrs cfg).httpOnly = cfg.cookie.httpOnly ∧
    ((setAttrs cfg).maxAge = some cfg.ttl ↔ cfg.cookie.kind = .persistent) ∧
    ((setAttrs cfg).maxAge = none ↔ cfg.cookie.kind = .session) := by
  refine ⟨rfl, rfl, rfl, rfl, rfl, rfl, ?_, ?_⟩ <;> cases h : cfg.cookie.kind <;> simp [setAttrs, h]

/-- On the wire biscotti never drops an attribute; it adds `Secure` exactly when SameSite=None
    forces it. -/
theorem wire_attrs (cfg : Config) :
    (wireAttrs cfg).secure = (cfg.cookie.secure || decide (cfg.cookie.sameSite = some .none)) ∧
    (cfg.cookie.secure = true → (wireAttrs cfg).secure = true) ∧
    { wireAttrs cfg with secure := cfg.cookie.secure } = setAttrs cfg := by
  refine ⟨rfl, ?_, rfl⟩
  intro h; simp [wireAttrs, h]

/-- The removal cookie addresses the same cookie: configured name, domain and path. -/
theorem removal_attrs (cfg : Config) :
    (removalAttrs cfg).name = cfg.cookie.name ∧ (removalAttrs cfg).domain = cfg.cookie.domain ∧
    (removalAttrs cfg).path = cfg.cookie.path := ⟨rfl, rfl, rfl⟩

/-- **C12 (5)**: the `Debug` output does not depend on the session id: sessions that differ only in
    their id print the same. -/
theorem debug_no_id (s : Sess κ ν) (id' : CurId) : debugView { s with id := id' } = debugView s := rfl

/-- **C12 (6), full strength on the wire** (kept visible): whenever the middleware lets a cookie
    through, the processor really signs or encrypts it. False — see `wire_protected_statement_false`. -/
def wire_protected_statement : Prop :=
  ∀ cfg : Config, (willSign cfg = true ∨ willEncrypt cfg = true) → outgoingAlg cfg ≠ .none

/-- biscotti percent-encodes the cookie name *before* it looks up its crypto rule, while
    `will_sign`/`will_encrypt` look the raw name up: a name such as `my id` passes the middleware's
    check and goes out in plain text (finding C12-N1, in the third-party crate `biscotti`). -/
theorem wire_protected_statement_false : ¬ wire_protected_statement := by
  intro h
  have := h { ttl := 1, creation := .neverSkip, missing := .reject, extend := .onChanges, threshold := none,
              cookie := { name := "my id", domain := none, path := none, secure := true, httpOnly := true,
                          sameSite := none, kind := .session },
              crypto := { alg := .encrypt, ruleName := "my id", percentEncode := true } }
  revert this
  decide +kernel

/-- **C12 (6), partial**: if the cookie name is not changed by percent-encoding (or percent-encoding
    is off), what the middleware was promised is what happens on the wire. -/
theorem wire_protected_partial (cfg : Config)
    (hname : cfg.crypto.percentEncode = false ∨ pctEncode cfg.cookie.name = cfg.cookie.name) :
    (willEncrypt cfg = true → outgoingAlg cfg = .encrypt) ∧ (willSign cfg = true → outgoingAlg cfg = .sign) := by
  have hw : wireName cfg = cfg.cookie.name := by
    unfold wireName
    cases hname with
    | inl h => simp [h]
    | inr h => simp [h]
  constructor <;> intro h <;> simp [willEncrypt, willSign] at h <;> simp [outgoingAlg, hw, h]

/-- Every response of a history was produced under the processor of *its* request. -/
theorem history_cfgs (cfg : Config) (reqs : List (Req κ ν)) (c : Client κ ν) (w : World κ ν) :
    (runHistory cfg reqs c w).map (·.cfg) = reqs.map (fun rq => reqCfg cfg rq.crypto) := by
  induction reqs generalizing c w with
  | nil => rfl
  | cons rq rest ih =>
    simp only [runHistory, List.map_cons]
    congr 1
    exact ih _ _

/-- **C12 (7), every history, the processor may change from request to request**: in every
    history, every response that carries a session cookie satisfies (1) and (2) with respect to the
    processor in force for that request (`o.cfg`) — whatever processor wrote the cookie the request
    came in with, whether it was read through a fallback, and whether the incoming session was
    assembled by hand. -/
theorem every_cookie_protected (cfg : Config) (reqs : List (Req κ ν)) (c : Client κ ν) (w : World κ ν) :
    ∀ o ∈ runHistory cfg reqs c w,
      (((∃ id cl, o.fin = .set id cl) ∨ o.fin = .removal) → (willSign o.cfg = true ∨ willEncrypt o.cfg = true)) ∧
      (∀ id cl, o.fin = .set id cl → cl ≠ [] → willEncrypt o.cfg = true) := by
  induction reqs generalizing c w with
  | nil => intro o ho; simp [runHistory] at ho
  | cons rq rest ih =>
    intro o ho
    simp only [runHistory, List.mem_cons] at ho
    cases ho with
    | inr h => exact ih _ _ o h
    | inl h =>
      subst h
      simp only
      generalize reqCfg cfg rq.crypto = cfg'
      generalize presented cfg' c rq.src = pres
      generalize ({ (if rq.expire = true then expire pres w else w) with log := [] } : World κ ν) = w2
      unfold runRequest
      generalize newSession pres w2 = p
      obtain ⟨s0, w0⟩ := p
      simp only
      generalize runOps cfg' rq.rem rq.ops s0 w0 = m
      obtain ⟨rs, so, w1⟩ := m
      cases so with
      | none => simp
      | some s1 =>
        simp only
        cases hf : finalizeSession cfg' s1 w1 with
        | mk f q =>
          obtain ⟨s2, w2'⟩ := q
          simp only
          exact ⟨cookie_protected cfg' s1 s2 w1 w2' f hf, fun id cl e => by
            subst e; exact client_state_encrypted cfg' s1 s2 w1 w2' id cl hf⟩

/-- **C12 (8), no downgrade**: a session whose client-side state is not empty — no matter whether
    this request modified it or merely carried it over from the incoming cookie — never gets a
    value cookie from a processor that does not encrypt. -/
theorem client_state_never_downgraded (cfg : Config) (s s' : Sess κ ν) (w w' : World κ ν) (f : Fin κ ν)
    (h : finalizeSession cfg s w = (f, s', w')) (hne : s.client.state ≠ []) (hw : willEncrypt cfg = false) :
    ∀ id c, f ≠ .set id c := by
  intro id c e
  subst e
  have h0 := finalizeSession_set cfg s s' w w' id c h
  obtain ⟨e1, _⟩ := finalize_set_client cfg s s' w w' id c h0
  have := client_state_encrypted cfg s s' w w' id c h (by rw [e1]; exact hne)
  rw [hw] at this
  exact absurd this (by decide)

/-- **C12 (9), on the wire, partial**: in every history, every cookie handed to the client is
    really signed or encrypted, and really encrypted if it carries client-side state — for the
    requests whose processor does not alter the cookie name by percent-encoding (finding C12-N1). -/
theorem every_token_protected_partial (cfg : Config) (reqs : List (Req κ ν)) (c : Client κ ν) (w : World κ ν) :
    ∀ o ∈ runHistory cfg reqs c w, ∀ t, issuedBy o.cfg o.fin = some t →
      (o.cfg.crypto.percentEncode = false ∨ pctEncode o.cfg.cookie.name = o.cfg.cookie.name) →
      t.prot ≠ .none ∧ (t.client ≠ [] → t.prot = .encrypt) := by
  intro o ho t ht hname
  obtain ⟨p1, p2⟩ := every_cookie_protected cfg reqs c w o ho
  obtain ⟨q1, q2⟩ := wire_protected_partial o.cfg hname
  cases hf : o.fin with
  | set id cl =>
    rw [hf] at ht p1 p2
    simp only [issuedBy, Option.some.injEq] at ht
    subst ht
    simp only [issue]
    refine ⟨?_, fun hcl => q1 (p2 id cl rfl hcl)⟩
    cases p1 (Or.inl ⟨id, cl, rfl⟩) with
    | inl hs => rw [q2 hs]; decide
    | inr he => rw [q1 he]; decide
  | removal => rw [hf] at ht; simp [issuedBy] at ht
  | none => rw [hf] at ht; simp [issuedBy] at ht
  | err e => rw [hf] at ht; simp [issuedBy] at ht
  | panic => rw [hf] at ht; simp [issuedBy] at ht

/-- **Rotation keeps the cookies that are out there readable** (so that the situations (7)–(9)
    quantify over do arise): a protected cookie written under `cfgA` is read by a processor
    `cfgB` for the same cookie name exactly as `cfgA` itself reads it, provided `cfgB`'s rule still
    lists `cfgA`'s primary (algorithm, key) — as its own primary or as a fallback. -/
theorem rotation_keeps_cookies_readable (cfgA cfgB : Config) (id : Nat) (cl : Map κ ν)
    (hck : cfgB.cookie = cfgA.cookie) (hrn : cfgB.crypto.ruleName = cfgA.crypto.ruleName)
    (hpe : cfgB.crypto.percentEncode = cfgA.crypto.percentEncode) (hB : cfgB.crypto.alg ≠ .none)
    (hA : outgoingAlg cfgA ≠ .none)
    (hmem : (cfgA.crypto.alg, cfgA.crypto.key) ∈ (cfgB.crypto.alg, cfgB.crypto.key) :: cfgB.crypto.fallbacks) :
    accept cfgB (issue cfgA id cl) = accept cfgA (issue cfgA id cl) := by
  have hA' : cfgA.crypto.alg ≠ .none ∧ cfgA.crypto.ruleName = wireName cfgA := by
    unfold outgoingAlg at hA
    by_cases h : cfgA.crypto.alg ≠ .none ∧ cfgA.crypto.ruleName = wireName cfgA
    · exact h
    · simp [h] at hA
  have ho : outgoingAlg cfgA = cfgA.crypto.alg := by simp [outgoingAlg, hA'.1, hA'.2.symm]
  have vB : valueReadable cfgB.crypto (issue cfgA id cl) = true := by
    have hr : ruleFor cfgB.crypto (wireName cfgA) = some ((cfgB.crypto.alg, cfgB.crypto.key) :: cfgB.crypto.fallbacks) := by
      simp [ruleFor, hB, hrn, hA'.2]
    simp only [valueReadable, issue, hr, ho]
    simp only [Bool.and_eq_true, bne_iff_ne, ne_eq, List.any_eq_true]
    exact ⟨hA'.1, (cfgA.crypto.alg, cfgA.crypto.key), hmem, by simp⟩
  have vA : valueReadable cfgA.crypto (issue cfgA id cl) = true := by
    have hr : ruleFor cfgA.crypto (wireName cfgA) = some ((cfgA.crypto.alg, cfgA.crypto.key) :: cfgA.crypto.fallbacks) := by
      simp [ruleFor, hA'.1, hA'.2]
    simp only [valueReadable, issue, hr, ho]
    simp only [Bool.and_eq_true, bne_iff_ne, ne_eq, List.any_eq_true]
    exact ⟨hA'.1, (cfgA.crypto.alg, cfgA.crypto.key), List.mem_cons_self, by simp⟩
  simp only [accept, vA, vB, readName, hpe, hck]

def exCookie : CookieCfg :=
  { name := "id", domain := none, path := some "/", secure := true, httpOnly := true, sameSite := some .lax, kind := .persistent }
def exCfgWith (alg : Alg) : Config :=
  { ttl := 100, creation := .neverSkip, missing := .reject, extend := .onLoadsAndChanges, threshold := none,
    cookie := exCookie, crypto := { alg, ruleName := "id", percentEncode := true } }
def exCfgEnc := exCfgWith .encrypt
def exCfgSign := exCfgWith .sign
def exCfgNone := exCfgWith .none

-- Non-vacuity: a cookie does get through, with and without client state; and the refusals happen.
example : (finalizeSession exCfgEnc (⟨.newlyGenerated 0, some (.changed [(1, 2)]), .updated [(3, 4)], false⟩ : Sess Nat Nat)
    ⟨[], 1, []⟩).1 = .set 0 [(3, 4)] := by decide
example : (finalizeSession exCfgSign (⟨.newlyGenerated 0, some (.changed [(1, 2)]), .unchanged [], false⟩ : Sess Nat Nat)
    ⟨[], 1, []⟩).1 = .set 0 [] := by decide
example : (finalizeSession exCfgSign (⟨.newlyGenerated 0, some (.changed [(1, 2)]), .updated [(3, 4)], false⟩ : Sess Nat Nat)
    ⟨[], 1, []⟩).1 = .err .encryptionRequired := by decide
example : (finalizeSession exCfgNone (⟨.newlyGenerated 0, some (.changed [(1, 2)]), .unchanged [], false⟩ : Sess Nat Nat)
    ⟨[], 1, []⟩).1 = .err .cryptoRequired := by decide


/-! Rotation and hand-made incoming sessions do arise (non-vacuity of (7)–(9) for the extended
    histories). -/

def exEncOld : Crypto := { alg := .encrypt, ruleName := "id", percentEncode := true, key := 1 }
/-- signing is the new primary, the old encryption key is kept as a fallback -/
def exSignNew : Crypto := { alg := .sign, ruleName := "id", percentEncode := true, key := 2, fallbacks := [(.encrypt, 1)] }
def exEncNew : Crypto := { alg := .encrypt, ruleName := "id", percentEncode := true, key := 3, fallbacks := [(.encrypt, 1)] }

/-- Request 0 (old processor, encryption) stores client-side state; request 1 runs under the rotated
    processor (signing, old key as fallback), reads the session through the fallback, does not touch
    the client-side state — and is refused: the state would go out signed only. -/
example : (runHistory exCfgEnc
      [⟨.jar, false, 100, [.cInsert 3 4], some exEncOld⟩, ⟨.jar, false, 100, [.cGet 3, .insert 1 2], some exSignNew⟩]
      (Client.init : Client Nat Nat) World.init).map (fun o => (o.incoming, o.res, o.fin)) =
    [(none, [.val none], .set 0 [(3, 4)]), (some 0, [.val (some 4), .val none], .err .encryptionRequired)] := by
  decide +kernel

/-- Key rotation within encryption: read through the fallback, re-issued under the new key. -/
example : (runHistory exCfgEnc
      [⟨.jar, false, 100, [.cInsert 3 4], some exEncOld⟩, ⟨.jar, false, 100, [.cGet 3], some exEncNew⟩,
       ⟨.jar, false, 100, [.cGet 3], some exEncOld⟩]
      (Client.init : Client Nat Nat) World.init).map (fun o => (o.incoming, o.res, o.fin)) =
    [(none, [.val none], .set 0 [(3, 4)]), (some 0, [.val (some 4)], .set 0 [(3, 4)]),
     -- the old processor does not know the new key: the cookie is skipped, a new session starts
     (none, [.val none], .none)] := by
  decide +kernel

/-- `IncomingSession::from_parts`: a hand-made incoming session with client-side state, under a
    signing-only processor, with no client-side operation at all. -/
example : (runHistory exCfgSign
      [⟨.jar, false, 100, [.insert 1 2], none⟩, ⟨.parts 0 [(3, 4)], false, 100, [.get 1], none⟩]
      (Client.init : Client Nat Nat) World.init).map (fun o => (o.incoming, o.res, o.fin)) =
    [(none, [.val none], .set 0 []), (some 0, [.val (some 2)], .err .encryptionRequired)] := by
  decide +kernel

example : accept (reqCfg exCfgEnc (some exSignNew)) (issue (reqCfg exCfgEnc (some exEncOld)) 0 [(3, 4)] : Token Nat Nat)
    = some (0, [(3, 4)]) := by decide +kernel

end Pxv.Session
