import Pxv.Lemmas.ScopeWalk
import Pxv.Lemmas.ScopeProcess
import Pxv.Lemmas.ScopeDesignated
import Pxv.Lemmas.ScopeStage
import Pxv.Lemmas.Injection
import Pxv.Thm.C01
import Pxv.Thm.C03
import Pxv.Lemmas.StalemateInClass
import Pxv.Thm.C02
import Pxv.Lemmas.Complex
/-!
C04 — injection is faithful: right constructor, right scope, no illicit copies.

`get` mirrors `ConstructibleDb::get` over the scope graph `process`/`build` construct from a blueprint;
`tryClone`/`applyReqs` mirror the only way the borrow-checking passes add a clone node (through
`get_clone_component_id`); `stageCloning` mirrors the cross-middleware cloning of pipeline.rs step 4.
-/
namespace Pxv.Scope
open Pxv.CG

/-- **C04 (1) — nearest enclosing registration**: from a scope whose ancestors form a chain (every
    request handler, middleware and blueprint scope), `ConstructibleDb::get` returns what the first
    scope on the way up to the root has registered for the type. -/
theorem get_nearest (g : SGraph) (regs : List (Nat × Ctor)) (s ty : Nat)
    (hd : Decr g.parents) (hs : s ≤ g.app) (ht : TreeAbove g s) :
    get g regs s ty = firstHit (fun k => lookup regs k ty) (ancestors g s) :=
  Walk.get_nearest g regs s ty hd hs ht

/-- **C04 (1')**, in words: `get` answers `c` exactly when `c` is what the nearest ancestor-or-self
    scope with a registration for `ty` holds (every nearer scope has nothing for it). -/
theorem get_nearest_iff (g : SGraph) (regs : List (Nat × Ctor)) (s ty : Nat) (c : Ctor)
    (hd : Decr g.parents) (hs : s ≤ g.app) (ht : TreeAbove g s) :
    get g regs s ty = some c ↔
      ∃ pre a post, ancestors g s = pre ++ a :: post ∧ lookup regs a ty = some c ∧
        ∀ k ∈ pre, lookup regs k ty = none :=
  Walk.get_nearest_iff g regs s ty c hd hs ht

/-- **C04 (2) — the latest registration wins inside one scope**: what a scope holds for a type is the
    last constructor registered against that scope for that type. -/
theorem latest_wins (regs : List (Nat × Ctor)) (s ty : Nat) :
    lookup regs s ty =
      ((regs.filter (fun r => r.1 == s && r.2.ty == ty)).getLast?).map (·.2) :=
  Walk.latest_wins regs s ty

/-- **C04 (3) — registrations of parents are inherited**: a scope that has nothing for the type
    gets exactly what its parent gets. -/
theorem parent_inherited (g : SGraph) (regs : List (Nat × Ctor)) (s p ty : Nat)
    (hd : Decr g.parents) (hs : s ≤ g.app) (ht : TreeAbove g s)
    (hp : g.parents s = [p]) (hnone : lookup regs s ty = none) :
    get g regs s ty = get g regs p ty :=
  Walk.parent_inherited g regs s p ty hd hs ht hp hnone

/-- …and a scope that has a registration of its own uses it, whatever its ancestors say. -/
theorem own_registration_wins (g : SGraph) (regs : List (Nat × Ctor)) (s ty : Nat) (c : Ctor)
    (hown : lookup regs s ty = some c) : get g regs s ty = some c :=
  Walk.own_registration_wins g regs s ty c hown

/-- **C04 (4) — siblings are invisible**: registrations against scopes that are not ancestors of `s`
    (sibling blueprints, their routes, anything nested elsewhere) cannot change what `s` gets,
    wherever they sit in the registration order. -/
theorem sibling_invisible (g : SGraph) (regs extra : List (Nat × Ctor)) (s ty : Nat)
    (hd : Decr g.parents) (hs : s ≤ g.app) (ht : TreeAbove g s)
    (hout : ∀ r ∈ extra, r.1 ∉ ancestors g s) :
    get g (regs ++ extra) s ty = get g regs s ty :=
  Walk.sibling_invisible g regs extra s ty hd hs ht hout

/-- a run of clone requests starts from a graph without clone nodes -/
def fresh (g : Graph) : CGraph := { g := g }

/-- **C04 (5) — a never-clone value is never duplicated**: whatever clone requests the borrow-checking
    passes issue, in whatever order (each goes through the guard), every clone node that ends up in the
    call graph copies an original node whose constructor is not `NeverClone`. -/
theorem never_clone_no_clone_node (g : Graph) (reqs : List (Nat × Nat)) :
    ∀ kd ∈ (applyReqs (fresh g) reqs).clones, kd.2 < g.size ∧ (g.node kd.2).cloneable = true := by
  intro kd h
  rcases applyReqs_origin reqs (fresh g) kd h with h1 | ⟨h1, h2, _⟩
  · simp [fresh] at h1
  · exact ⟨h2, h1⟩

/-- the guard itself: a `NeverClone` constructor (the default) never gets a `Clone` transformer. -/
theorem guard_refuses_never_clone (c : Ctor) (h : c.cloneIfNecessary = false) :
    cloneGuard (some c) = false := by simp [cloneGuard, h]

/-- a refused request leaves the call graph untouched -/
theorem tryClone_never_clone (cg : CGraph) (d c : Nat) (h : (cg.g.node d).cloneable = false) :
    tryClone cg d c = none := by simp [tryClone, h]

/-- **C04 (6) — a clone is taken from the instance it stands in for**: after any run of clone
    requests on a well-formed call graph, the only edge into a clone node is a shared borrow of the
    node it copies. -/
theorem clone_from_instance (g : Graph) (hwf : g.wellFormed = true) (reqs : List (Nat × Nat)) :
    ∀ kd ∈ (applyReqs (fresh g) reqs).clones,
      (applyReqs (fresh g) reqs).g.inEdges kd.1 = [⟨kd.2, kd.1, .shared⟩] := by
  intro kd h
  have hinv : CloneInv (fresh g) := ⟨hwf, by simp [fresh]⟩
  exact ((applyReqs_inv reqs _ hinv).2 kd h).2

/-- **C04 (7) — fully constructed before use**: in any order the ordering step can produce for the
    (clone-extended) call graph, the producer of every input of a node — a clone's original
    included — is placed strictly before it. -/
theorem built_before_use {g : Graph} {σ : List Nat} (h : isRun g σ = true) {t : Nat} (ht : t ∈ σ)
    {e : Edge} (he : e ∈ g.inEdges t) : e.src ∈ σ ∧ pos σ e.src < pos σ t :=
  run_topo h ht (pred_of_inEdge he)

/-- …in particular the copied instance exists before its clone is taken, and the clone before the
    consumer it was made for runs. -/
theorem clone_built_in_order (g : Graph) (hwf : g.wellFormed = true) (reqs : List (Nat × Nat))
    {σ : List Nat} (hrun : isRun (applyReqs (fresh g) reqs).g σ = true) :
    ∀ kd ∈ (applyReqs (fresh g) reqs).clones, kd.1 ∈ σ → kd.2 ∈ σ ∧ pos σ kd.2 < pos σ kd.1 := by
  intro kd h hk
  have hin := clone_from_instance g hwf reqs kd h
  have : (⟨kd.2, kd.1, .shared⟩ : Edge) ∈ (applyReqs (fresh g) reqs).g.inEdges kd.1 := by simp [hin]
  exact built_before_use hrun hk this

/-- **C04 (1) on the scope graph pavexc really builds**: for every blueprint — any nesting, any
    interleaving of registrations — and every scope of it other than the application-state scope
    (blueprints, request handlers, middlewares), `get` returns the registration held by the nearest
    ancestor-or-self scope that has one. -/
theorem get_nearest_process (b : Bp) (s ty : Nat) (hs : s < (process b).next) :
    get (build (process b)) (process b).regs s ty =
      firstHit (fun k => lookup (process b).regs k ty) (ancestors (build (process b)) s) := by
  have hwf := process_wf b
  have hd := build_decr _ hwf
  apply Walk.get_nearest _ _ _ _ hd
  · simp [build]; omega
  · exact treeFrom_of_le_one _ hd (process b).next (build_parents_le_one _ hwf) _ _ hs


/-- **C04 — the blueprint decides**: for every blueprint — arbitrary nesting, registrations in any order, before
    or after the routes, several for one type — every route's request handler resolves every type to exactly what the
    documented rule designates: the latest registration of the nearest enclosing blueprint that registers the type
    (`designated`, read off the blueprint tree alone). Sibling blueprints never show up in it. -/
theorem get_designated (b : Bp) (ty : Nat) :
    ∀ rk ∈ (process b).routes,
      (rk.1, get (build (process b)) (process b).regs rk.2 ty) ∈ designated b ty := by
  have hw0 := walkOwn_wf b 0 {} wf_init (by decide)
  obtain ⟨es, rs, ms, h1, h2, h3, h4, h5, h6, h7, h8, _, h10⟩ := walkOwn_delta b 0 {}
  -- the state after the root's own registrations and its fallback
  have hst0 : ((walkOwn b 0 {}).addScope 0).Wf := addScope_wf _ 0 hw0.1 hw0.1.pos
  generalize hs0 : (walkOwn b 0 {}).addScope 0 = st0 at hst0
  have hregs0 : st0.regs = (ownCtors b).map (fun c => (0, c)) := by
    rw [← hs0]; simp only [St.addScope]; rw [h1]; rfl
  have hroutes0 : st0.routes = rs := by
    rw [← hs0]; simp only [St.addScope]; rw [h4]; rfl
  have hedges0 : ∀ e ∈ es, e ∈ st0.edges := by
    intro e he
    rw [← hs0]; simp only [St.addScope]; rw [h2]; simp [he]
  have hr0 : RegsLt st0 := by
    intro r hr
    rw [hregs0] at hr
    simp only [List.mem_map] at hr
    obtain ⟨c, _, rfl⟩ := hr
    exact hst0.pos
  have hproc : process b = kids b 0 st0 := by rw [← hs0]; rfl
  have hfacts := kids_facts b 0 st0 hst0 hr0 hst0.pos
  have hfin : (process b).Wf := process_wf b
  rw [hproc] at hfin ⊢
  have hlook : lookup st0.regs 0 ty = ownLast b ty := by
    rw [hregs0]
    have := lookup_own [] 0 (ownCtors b) ty rfl
    rw [List.nil_append] at this
    exact this
  have henv : getF (kids b 0 st0) 0 ty = ownLast b ty := by
    rw [getF_frozen hfacts.2 hst0 hfin 0 ty hst0.pos, getF_root st0 hst0 ty, hlook]
  obtain ⟨rs', hrs'⟩ := hfacts.2.routes
  intro rk hrk
  rw [hrs', hroutes0] at hrk
  simp only [designated, List.mem_append] at hrk ⊢
  rcases hrk with hrk | hrk
  · left
    have hedge := hedges0 _ (h6 rk hrk)
    have hk := (hst0.lt _ hedge).2
    simp only at hk
    have hnone : lookup st0.regs rk.2 ty = none := by
      apply lookup_of_no_regs
      rw [hregs0, List.filter_eq_nil_iff]
      intro x hx hc
      simp only [List.mem_map] at hx
      obtain ⟨c, _, rfl⟩ := hx
      simp only [beq_iff_eq] at hc
      have := (h3 _ (h6 rk hrk)).2
      simp only at this
      have h00 : ({} : St).next = 1 := rfl
      omega
    have : getF (kids b 0 st0) rk.2 ty = ownLast b ty := by
      rw [getF_frozen hfacts.2 hst0 hfin rk.2 ty hk, getF_parent st0 hst0 rk.2 0 ty hk (parents_of_edge hst0 hedge) hnone,
        getF_root st0 hst0 ty, hlook]
    show (rk.1, getF (kids b 0 st0) rk.2 ty) ∈ _
    rw [this]
    refine List.mem_map.mpr ⟨rk.1, ?_, rfl⟩
    rw [← h5]
    exact List.mem_map.mpr ⟨rk, hrk, rfl⟩
  · right
    have := kids_designated ty b 0 st0 (kids b 0 st0) (ownLast b ty) hst0 hr0 hst0.pos hfin (Ext.refl _) henv rs'
      (by rw [hrs', hroutes0]) rk hrk
    exact this



/-- **C04 — the blueprint decides, for middlewares too**: for every blueprint — arbitrary nesting, registrations in any order, before
    or after the routes, several for one type — every middleware resolves every type to exactly what the
    documented rule designates: the latest registration of the nearest enclosing blueprint that registers the type
    (`designatedM`: a middleware sees what the blueprint it is registered against sees — not what the routes it wraps see). -/
theorem get_designated_mw (b : Bp) (ty : Nat) :
    ∀ rk ∈ (process b).mws,
      (rk.1, get (build (process b)) (process b).regs rk.2 ty) ∈ designatedM b ty := by
  have hw0 := walkOwn_wf b 0 {} wf_init (by decide)
  obtain ⟨es, rs, ms, h1, h2, h3, h4, h5, h6, h7, h8, _, h10⟩ := walkOwn_delta b 0 {}
  -- the state after the root's own registrations and its fallback
  have hst0 : ((walkOwn b 0 {}).addScope 0).Wf := addScope_wf _ 0 hw0.1 hw0.1.pos
  generalize hs0 : (walkOwn b 0 {}).addScope 0 = st0 at hst0
  have hregs0 : st0.regs = (ownCtors b).map (fun c => (0, c)) := by
    rw [← hs0]; simp only [St.addScope]; rw [h1]; rfl
  have hroutes0 : st0.mws = ms := by
    rw [← hs0]; simp only [St.addScope]; rw [h7]; rfl
  have hedges0 : ∀ e ∈ es, e ∈ st0.edges := by
    intro e he
    rw [← hs0]; simp only [St.addScope]; rw [h2]; simp [he]
  have hr0 : RegsLt st0 := by
    intro r hr
    rw [hregs0] at hr
    simp only [List.mem_map] at hr
    obtain ⟨c, _, rfl⟩ := hr
    exact hst0.pos
  have hproc : process b = kids b 0 st0 := by rw [← hs0]; rfl
  have hfacts := kids_facts b 0 st0 hst0 hr0 hst0.pos
  have hfin : (process b).Wf := process_wf b
  rw [hproc] at hfin ⊢
  have hlook : lookup st0.regs 0 ty = ownLast b ty := by
    rw [hregs0]
    have := lookup_own [] 0 (ownCtors b) ty rfl
    rw [List.nil_append] at this
    exact this
  have henv : getF (kids b 0 st0) 0 ty = ownLast b ty := by
    rw [getF_frozen hfacts.2 hst0 hfin 0 ty hst0.pos, getF_root st0 hst0 ty, hlook]
  obtain ⟨rs', hrs'⟩ := hfacts.2.mws
  intro rk hrk
  rw [hrs', hroutes0] at hrk
  simp only [designatedM, List.mem_append] at hrk ⊢
  rcases hrk with hrk | hrk
  · left
    have hedge := hedges0 _ (h8 rk hrk)
    have hk := (hst0.lt _ hedge).2
    simp only at hk
    have hnone : lookup st0.regs rk.2 ty = none := by
      apply lookup_of_no_regs
      rw [hregs0, List.filter_eq_nil_iff]
      intro x hx hc
      simp only [List.mem_map] at hx
      obtain ⟨c, _, rfl⟩ := hx
      simp only [beq_iff_eq] at hc
      have := (h3 _ (h8 rk hrk)).2
      simp only at this
      have h00 : ({} : St).next = 1 := rfl
      omega
    have : getF (kids b 0 st0) rk.2 ty = ownLast b ty := by
      rw [getF_frozen hfacts.2 hst0 hfin rk.2 ty hk, getF_parent st0 hst0 rk.2 0 ty hk (parents_of_edge hst0 hedge) hnone,
        getF_root st0 hst0 ty, hlook]
    show (rk.1, getF (kids b 0 st0) rk.2 ty) ∈ _
    rw [this]
    refine List.mem_map.mpr ⟨rk.1, ?_, rfl⟩
    rw [← h10]
    exact List.mem_map.mpr ⟨rk, hrk, rfl⟩
  · right
    have := kids_designated_m ty b 0 st0 (kids b 0 st0) (ownLast b ty) hst0 hr0 hst0.pos hfin (Ext.refl _) henv rs'
      (by rw [hrs', hroutes0]) rk hrk
    exact this



/-- **C04 — no illicit copy between the middlewares of a stage**: when step 4 of the pipeline accepts a
    stage, every index at which it makes the generated stage function pass `value.clone()` belongs to a
    middleware that takes that type by value from a constructor whose cloning policy allows it; a
    never-clone value that would have to be duplicated makes the stage be rejected instead. -/
theorem stage_never_clone (mws : List (List StageInput)) (t : List (Nat × List Nat))
    (h : stageCloning mws = .ok t) :
    ∀ ty idxs, (ty, idxs) ∈ t → ∀ i ∈ idxs,
      ∃ inp ∈ (mws[i]?).getD [], inp.ty = ty ∧ inp.byRef = false ∧ inp.cloneable = true := by
  have hsound : Sound (fun i => (mws[i]?).getD []) (collectAll [] 0 mws) :=
    collectAll_sound mws mws 0 [] (fun k mw hk => by simpa using hk) (by intro e he; cases he)
  unfold stageCloning at h
  generalize collectAll [] 0 mws = table at h hsound
  -- every entry of the result comes from an entry of the table
  have key : ∀ (l : List (Nat × CloningInfo)) (acc : Except Nat (List (Nat × List Nat))) (t : List (Nat × List Nat)),
      l.foldl (fun acc e => match acc with
        | .error x => .error x
        | .ok t => match cloningFor e.2 with
          | none => .ok t
          | some (.error i) => .error i
          | some (.ok idxs) => .ok (t ++ [(e.1, idxs)])) acc = .ok t →
      ∀ x ∈ t, (∃ t0, acc = .ok t0 ∧ x ∈ t0) ∨ ∃ e ∈ l, cloningFor e.2 = some (.ok x.2) ∧ e.1 = x.1 := by
    intro l
    induction l with
    | nil =>
      intro acc t hf x hx
      simp only [List.foldl_nil] at hf
      exact Or.inl ⟨t, hf, hx⟩
    | cons e rest ih =>
      intro acc t hf x hx
      simp only [List.foldl_cons] at hf
      rcases ih _ t hf x hx with ⟨t0, ht0, hx0⟩ | ⟨e', he', h1, h2⟩
      · cases acc with
        | error a => simp at ht0
        | ok ta =>
          simp only at ht0
          cases hc : cloningFor e.2 with
          | none =>
            rw [hc] at ht0
            simp only [Except.ok.injEq] at ht0
            subst ht0
            exact Or.inl ⟨_, rfl, hx0⟩
          | some r =>
            rw [hc] at ht0
            cases r with
            | error a => simp at ht0
            | ok idxs =>
              simp only [Except.ok.injEq] at ht0
              subst ht0
              simp only [List.mem_append, List.mem_singleton] at hx0
              rcases hx0 with hx0 | rfl
              · exact Or.inl ⟨_, rfl, hx0⟩
              · exact Or.inr ⟨e, by simp, hc, rfl⟩
      · exact Or.inr ⟨e', List.mem_cons_of_mem _ he', h1, h2⟩
  intro ty idxs hmem i hi
  rcases key table (.ok []) t h (ty, idxs) hmem with ⟨t0, ht0, hx0⟩ | ⟨e, he, h1, h2⟩
  · simp only [Except.ok.injEq] at ht0
    subst ht0
    cases hx0
  · have := cloningFor_ok h1 i hi
    obtain ⟨inp, hin, hty, hbr, hcl⟩ := hsound e he (i, true) this
    exact ⟨inp, hin, by rw [hty]; exact h2, hbr, hcl⟩


-- Non-vacuity: root(0) ⊃ blueprint 1 ⊃ route scope 3; sibling blueprint 2. T7 is registered twice in the
-- root (ids 10 then 11), overridden in blueprint 1 (id 12) and registered in the sibling (id 13).
example :
    let g : SGraph := { app := 4, edges := [(0, 1), (0, 2), (1, 3), (0, 4), (1, 4)] }
    let regs : List (Nat × Ctor) := [(0, ⟨10, 7, .request, false⟩), (2, ⟨13, 7, .request, false⟩),
      (0, ⟨11, 7, .request, true⟩), (1, ⟨12, 7, .request, false⟩), (0, ⟨14, 8, .singleton, false⟩)]
    ancestors g 3 = [3, 1, 0] ∧ (get g regs 3 7).map (·.id) = some 12 ∧ (get g regs 3 8).map (·.id) = some 14 ∧
    (get g regs 2 7).map (·.id) = some 13 ∧ (get g regs 0 7).map (·.id) = some 11 ∧ get g regs 3 9 = none ∧
    g.parents 4 = [0, 1] := by decide
-- a cloneable node 0 moved into 1 and 2: the request (0,1) inserts clone node 3; a never-clone node is refused
example :
    let g : Graph := { nodes := [{ cloneable := true }, {}, {}], edges := [⟨0, 1, .move⟩, ⟨0, 2, .move⟩] }
    (applyReqs (fresh g) [(0, 1)]).clones = [(3, 0)] ∧
    (applyReqs (fresh g) [(0, 1)]).g.inEdges 3 = [⟨0, 3, .shared⟩] ∧
    (applyReqs (fresh g) [(1, 2), (0, 1), (0, 1)]).clones = [(3, 0)] ∧
    g.wellFormed = true ∧ isRun (applyReqs (fresh g) [(0, 1)]).g [0, 3, 1, 2] = true := by decide

-- Non-vacuity (scope graph of a real blueprint): root registers T7 twice (ids 10, 11), a route, and nests a blueprint that
-- overrides T7 (id 12) and has a route and a middleware; a second nested blueprint has only a route.
example :
    let b : Bp := .cons (.ctor ⟨10, 7, .request, false⟩) (.cons (.route 0) (.cons (.ctor ⟨11, 7, .request, true⟩)
      (.cons (.nest (.cons (.mw 0) (.cons (.route 1) (.cons (.ctor ⟨12, 7, .request, false⟩) .nil))))
      (.cons (.nest (.cons (.route 2) .nil)) .nil))))
    let st := process b
    st.routes = [(0, 1), (2, 4), (1, 7)] ∧ st.mws = [(0, 6)] ∧ st.nested = [(3, 0), (5, 0)] ∧ st.next = 8 ∧
    (build st).parents 8 = [0, 3, 5] ∧ ancestors (build st) 7 = [7, 5, 0] ∧
    ((get (build st) st.regs 7 7).map (·.id), (get (build st) st.regs 4 7).map (·.id), (get (build st) st.regs 1 7).map (·.id),
      (get (build st) st.regs 6 7).map (·.id)) = (some 12, some 11, some 11, some 12) ∧
    (designated b 7).map (fun x => (x.1, x.2.map (·.id))) = [(0, some 11), (1, some 12), (2, some 11)] ∧
    (designatedM b 7).map (fun x => (x.1, x.2.map (·.id))) = [(0, some 12)] := by decide

end Pxv.Scope

section
open Pxv.Scope
-- Non-vacuity (stage pass): pre `p(T0)`, handler `h(T0)`, post `q(&T0)` of one stage: both by-value uses need a clone when
-- the constructor allows it; with a never-clone constructor the stage is rejected at the first of them.
abbrev StageView := Option (List (Nat × List Nat)) × Option Nat
def stageView (r : Except Nat (List (Nat × List Nat))) : StageView :=
  match r with
  | .ok t => (some t, none)
  | .error i => (none, some i)
example : stageView (stageCloning [[⟨0, false, true, false⟩], [⟨0, false, true, false⟩], [⟨0, true, true, false⟩]]) =
    ((some [(0, [0, 1])], none) : StageView) := by decide
example : stageView (stageCloning [[⟨0, false, false, false⟩], [⟨0, false, false, false⟩], [⟨0, true, false, false⟩]]) =
    ((none, some 0) : StageView) := by decide
example : stageView (stageCloning [[⟨0, false, false, false⟩], [⟨0, true, false, false⟩]]) = ((none, some 0) : StageView) := by decide
example : stageView (stageCloning [[⟨0, true, false, false⟩], [⟨0, false, false, false⟩]]) = ((some [], none) : StageView) := by decide
end

namespace Pxv.Life
open Pxv.Scope

/-- **[finding]** the full statement is false of the faithful model: the handler and the post-processor of the
    nested blueprint receive the value of the root's constructor, which their own scope does not designate. -/
theorem injection_statement_false : ¬ injection_statement := by
  intro h
  have := h wEnv (fun _ => some 0) wChain wH (by decide)
  revert this
  decide


/-- **C04, proved part — injection is faithful in uniform pipelines**: when the handler and the
    middlewares of a route resolve every type the same way (no blueprint between them overrides a
    constructor that an enclosing middleware sees), every input of every one of them that the
    generated pipeline fills with a constructed value — directly in the component's closure or through
    any number of `Next` states — was built by the constructor the component's scope designates. -/
theorem injection_partial (env : Env) (tyOf : Nat → Option Nat) (chain : List Comp) (h : Comp)
    (lk : Nat → Option CDef) (hu : UidInj lk) (hun : Uniform env lk chain h) :
    faithful env (plan env tyOf chain h) = true := by
  have hok := plan_ok env tyOf chain h lk hu hun
  generalize plan env tyOf chain h = p at hok
  unfold faithful
  rw [List.all_eq_true]
  intro x hx
  obtain ⟨cp, ci⟩ := x
  rw [List.mem_zipIdx_iff_getElem?] at hx
  simp only at hx
  have hcp := List.mem_of_getElem? hx
  obtain ⟨hpok, hsc⟩ := hok cp hcp
  unfold faithfulAt
  rw [List.all_eq_true]
  intro y hy
  obtain ⟨⟨ty, m⟩, s⟩ := y
  obtain ⟨j, hj⟩ := List.mem_iff_getElem?.mp hy
  rw [List.getElem?_zip_eq_some] at hj
  have hans := hpok.args j (ty, m) s hj.1 hj.2
  simp only
  cases s with
  | built i =>
    obtain ⟨n, hn1, hn2⟩ := hans
    simp only [Plan.origin, Plan.ctorAt, hx, Option.bind_some, hn1, Option.map_some]
    rw [hsc]
    simpa using hn2
  | param t =>
    simp only [Ans] at hans
    subst hans
    simp only [Plan.origin, hx]
    cases ho : p.originOfParam cp.stage t with
    | app t' => simp [Plan.ctorAt]
    | stuck => simp [Plan.ctorAt]
    | node w i =>
      obtain ⟨wp, n, h1, h2, h3⟩ := originOfParam_ok p lk (fun cp hcp => (hok cp hcp).1) _ _ _ _ ho
      simp only [Plan.ctorAt, h1, Option.bind_some, h2, Option.map_some]
      rw [hsc]
      simpa using h3



-- Non-vacuity: the uniform pipeline of Thm/C03 (hoisting through `Next1` included) is faithful
example : Uniform exEnv exLk exChain exH := fun _ _ => rfl
example : faithful exEnv exPlan = true := by decide
example : UidInj exLk := uidInj_of_table exTab (by decide)
-- the guard is not vacuous: the pipeline of the compiler-panic witness (root post `m1(&T0)` + pre `m2(&T0)` share
-- `c0`, the route's blueprint overrides T0 with `c0b` and its handler takes &T0) has two nodes for `c0b`.
example :
    let env : Env := { get := fun s t => if t = 0 then (if s = 1 ∨ s = 2 then some wC0 else some wC0b) else none, fuel := 3 }
    let p := plan env (fun _ => some 0) [⟨.noop, 0, 5, []⟩, ⟨.post, 1, 1, [(0, .ref)]⟩, ⟨.pre, 2, 2, [(0, .ref)]⟩] ⟨.handler, 0, 5, [(0, .ref)]⟩
    p.invariantsOk = false ∧ p.count 100 = 2 := by decide
-- the witness of `injection_statement_false` passes the guard and delivers `c0` where `c0b` is designated
example : (plan wEnv (fun _ => some 0) wChain wH).invariantsOk = true ∧
    ((plan wEnv (fun _ => some 0) wChain wH).comps[2]?.map (fun c => c.args.map ((plan wEnv (fun _ => some 0) wChain wH).origin 2))) = some [.node 1 0] ∧
    (plan wEnv (fun _ => some 0) wChain wH).ctorAt (.node 1 0) = some wC0 ∧ wEnv.get 5 0 = some wC0b := by decide


end Pxv.Life

/-! ### generic constructors -/
namespace Pxv.Scope

/-- **C04 (1) with generic constructors**: `get_or_try_bind` returns what the NEAREST ancestor-or-self scope offers for the
    type, be it a concrete constructor or a generic one bound to the type; a scope further out is consulted only when
    the nearer ones offer neither. -/
theorem getT_nearest (g : SGraph) (regs : List (Nat × Ctor)) (tmpls : List (Nat × Tmpl)) (s ty : Nat)
    (hd : Decr g.parents) (hs : s ≤ g.app) (ht : TreeAbove g s) :
    getT g regs tmpls s ty = firstHit (fun k => lookupT regs tmpls k ty) (ancestors g s) := by
  unfold getT ancestors
  rw [bfs_chain _ _ _ _ (Walk.treeFrom_more _ hd s ht _)]
  rw [chainF_stable _ hd s _ (Walk.fuel_ge g s hs)]

/-- inside one scope the concrete constructor is preferred to a template -/
theorem lookupT_concrete_first (regs : List (Nat × Ctor)) (tmpls : List (Nat × Tmpl)) (s ty : Nat) (c : Ctor)
    (h : lookup regs s ty = some c) : lookupT regs tmpls s ty = some c := by
  simp [lookupT, h]

/-- a template of a nearer scope wins over a concrete constructor of a scope further out -/
theorem template_shadows_outer_concrete (g : SGraph) (regs : List (Nat × Ctor)) (tmpls : List (Nat × Tmpl)) (s ty : Nat)
    (c : Ctor) (hown : lookupT regs tmpls s ty = some c) : getT g regs tmpls s ty = some c := by
  unfold getT SGraph.fuel
  simp [bfs, hown]

/-- what the theorem excludes: root (scope 0) registers a concrete constructor 7 for type 0, the nested scope 1 a template
    9 for it; from scope 1 the template wins, the fast-path variant answers with the root's constructor. -/
example :
    let g : SGraph := { app := 2, edges := [(0, 1), (1, 2)] }
    let regs : List (Nat × Ctor) := [(0, { id := 7, ty := 0 })]
    let tmpls : List (Nat × Tmpl) := [(1, { id := 9, insts := [0, 1] })]
    (getT g regs tmpls 1 0).map (·.id) = some 9 ∧ (getTFast g regs tmpls 1 0).map (·.id) = some 7 ∧
    (getT g regs tmpls 0 0).map (·.id) = some 7 := by decide

end Pxv.Scope

/-! ### the last pass of the borrow checker (`ordering_stalemates`, repo 437e3c1) inserts clones too -/
namespace Pxv.CG
open Graph

/-- **C04 — no illicit copy by the last borrow-checking pass**: every edge `resolveStalemates` (the mirror of
    `ordering_stalemates`, compared with the real pass on every call graph) adds to a well-formed call graph is either the
    shared borrow through which a new node clones a node of the input graph whose constructor is clone-if-necessary, or
    the hand-over of such a new node to its consumer; new nodes are never cloned themselves. -/
theorem stalemate_pass_only_clones_cloneable {g : Graph} (hwf : g.wellFormed = true) :
    OnlyClones g (resolveStalemates g).1 :=
  resolveLoop_onlyClones g _ g [] [] hwf (onlyClones_refl g)

-- on the ring whose second value only may be cloned: one new node (7), cloning node 1, moved into node 4
example : (resolveStalemates exCross2).1.edges.filter (fun e => !(exCross2.edges.contains e)) =
    [⟨1, 7, .shared⟩, ⟨7, 4, .move⟩] := by decide

/-- **C04 — no illicit copy by `complex_borrow_check` either**: every edge `complexCheck` (the statement-by-statement mirror
    of the pass, compared with the real pass on every call graph) adds to a well-formed call graph is either the shared
    borrow through which a new node clones a node of the input graph whose constructor is clone-if-necessary, or the
    hand-over of such a new node to its consumer; new nodes are never cloned themselves; and the result is well-formed, so
    the hypotheses of `stalemate_pass_only_clones_cloneable` hold for the pass that runs next. Whatever the traversal does
    (parking, strategy switches, early exits of the visiting loop) is irrelevant to this. -/
theorem complex_pass_only_clones_cloneable {g : Graph} (hwf : g.wellFormed = true) :
    OnlyClones g (complexCheck g).g ∧ (complexCheck g).g.wellFormed = true :=
  ⟨(complexCheck_ginv hwf).2, (complexCheck_ginv hwf).1⟩

/-- the two passes in sequence -/
theorem complex_then_stalemate_only_clone_cloneable {g : Graph} (hwf : g.wellFormed = true) :
    OnlyClones (complexCheck g).g (resolveStalemates (complexCheck g).g).1 :=
  stalemate_pass_only_clones_cloneable (complex_pass_only_clones_cloneable hwf).2

-- `A` may be cloned, `B` may not: the one new node (5) clones `A` for `D`
example : (exX true false).wellFormed = true ∧
    (complexCheck (exX true false)).g.edges.filter (fun e => !((exX true false).edges.contains e)) = [⟨0, 5, .shared⟩, ⟨5, 2, .move⟩] := by
  decide

end Pxv.CG
