import Pxv.Lemmas.Scope
import Pxv.Lemmas.ScopeProcess
import Pxv.Lemmas.ScopeStage
import Pxv.Lemmas.Injection
import Pxv.Thm.C01
import Pxv.Thm.C03
/-!
C04 — injection is faithful: right constructor, right scope, no illicit copies.

`get` mirrors `ConstructibleDb::get` over the scope graph `process`/`build` construct from a blueprint;
`tryClone`/`applyReqs` mirror the only way the borrow-checking passes add a clone node (through
`get_clone_component_id`); `stageCloning` mirrors the cross-middleware cloning of pipeline.rs step 4.
-/
namespace Pxv.Scope
open Pxv.CG

/-- ancestor-or-self scopes of `s`, nearest first -/
def ancestors (g : SGraph) (s : Nat) : List Nat := chainF g.parents (s + 1) s

/-- every scope from `s` up to the root has at most one parent (true of every scope except the
    application-state scope) -/
def TreeAbove (g : SGraph) (s : Nat) : Prop := TreeFrom g.parents (s + 1) s

theorem fuel_ge (g : SGraph) (s : Nat) (h : s ≤ g.app) : s + 1 ≤ g.fuel := by
  unfold SGraph.fuel
  have : g.app + 1 ≤ (g.app + 1) * (g.app + 1) := Nat.le_mul_of_pos_left _ (by omega)
  omega

theorem treeFrom_ge (parents : Nat → List Nat) (s : Nat) :
    ∀ f, TreeFrom parents f s → ∀ f', f' ≤ f → TreeFrom parents f' s := by
  intro f h f' hle
  induction hle with
  | refl => exact h
  | step _ ih => exact ih (treeFrom_mono parents _ s h)

/-- more fuel does not break tree-likeness when parents decrease (the chain has ended by then) -/
theorem treeFrom_more (parents : Nat → List Nat) (hd : Decr parents) :
    ∀ s, TreeFrom parents (s + 1) s → ∀ f, TreeFrom parents f s := by
  intro s
  induction s using Nat.strongRecOn with
  | _ s ih =>
    intro h f
    cases f with
    | zero => trivial
    | succ f =>
      unfold TreeFrom at h ⊢
      match hp : parents s with
      | [] => trivial
      | [p] =>
        rw [hp] at h
        simp only at h ⊢
        have hlt : p < s := hd s p (by simp [hp])
        exact ih p hlt (treeFrom_ge parents p s h (p + 1) (by omega)) f
      | _ :: _ :: _ => rw [hp] at h; exact h.elim

/-- **C04 (1) — nearest enclosing registration**: from a scope whose ancestors form a chain (every
    request handler, middleware and blueprint scope), `ConstructibleDb::get` returns what the first
    scope on the way up to the root has registered for the type. -/
theorem get_nearest (g : SGraph) (regs : List (Nat × Ctor)) (s ty : Nat)
    (hd : Decr g.parents) (hs : s ≤ g.app) (ht : TreeAbove g s) :
    get g regs s ty = firstHit (fun k => lookup regs k ty) (ancestors g s) := by
  unfold get ancestors
  rw [bfs_chain _ _ _ _ (treeFrom_more _ hd s ht _)]
  rw [chainF_stable _ hd s _ (fuel_ge g s hs)]

/-- `firstHit` spelled out: the answer comes from the nearest ancestor-or-self scope that has the
    type, and every scope nearer than that one has nothing for it. -/
theorem firstHit_iff (has : Nat → Option Ctor) (l : List Nat) (c : Ctor) :
    firstHit has l = some c ↔
      ∃ pre a post, l = pre ++ a :: post ∧ has a = some c ∧ ∀ k ∈ pre, has k = none := by
  induction l with
  | nil => simp [firstHit]
  | cons x xs ih =>
    simp only [firstHit]
    cases hx : has x with
    | some c' =>
      constructor
      · intro h
        refine ⟨[], x, xs, rfl, ?_, by simp⟩
        simpa [hx] using h
      · rintro ⟨pre, a, post, hl, ha, hpre⟩
        cases pre with
        | nil =>
          simp only [List.nil_append, List.cons.injEq] at hl
          rw [hl.1, ha] at hx
          simp_all
        | cons y ys =>
          simp only [List.cons_append, List.cons.injEq] at hl
          have := hpre y (by simp)
          rw [← hl.1, hx] at this
          cases this
    | none =>
      simp only
      rw [ih]
      constructor
      · rintro ⟨pre, a, post, hl, ha, hpre⟩
        refine ⟨x :: pre, a, post, by simp [hl], ha, ?_⟩
        intro k hk
        simp only [List.mem_cons] at hk
        rcases hk with rfl | hk
        · exact hx
        · exact hpre k hk
      · rintro ⟨pre, a, post, hl, ha, hpre⟩
        cases pre with
        | nil =>
          simp only [List.nil_append, List.cons.injEq] at hl
          rw [← hl.1, hx] at ha
          cases ha
        | cons y ys =>
          simp only [List.cons_append, List.cons.injEq] at hl
          exact ⟨ys, a, post, hl.2, ha, fun k hk => hpre k (by simp [hk])⟩

/-- **C04 (1')**, in words: `get` answers `c` exactly when `c` is what the nearest ancestor-or-self
    scope with a registration for `ty` holds. -/
theorem get_nearest_iff (g : SGraph) (regs : List (Nat × Ctor)) (s ty : Nat) (c : Ctor)
    (hd : Decr g.parents) (hs : s ≤ g.app) (ht : TreeAbove g s) :
    get g regs s ty = some c ↔
      ∃ pre a post, ancestors g s = pre ++ a :: post ∧ lookup regs a ty = some c ∧
        ∀ k ∈ pre, lookup regs k ty = none := by
  rw [get_nearest g regs s ty hd hs ht, firstHit_iff]

/-- **C04 (2) — the latest registration wins inside one scope**: what a scope holds for a type is the
    last constructor registered against that scope for that type. -/
theorem latest_wins (regs : List (Nat × Ctor)) (s ty : Nat) :
    lookup regs s ty =
      ((regs.filter (fun r => r.1 == s && r.2.ty == ty)).getLast?).map (·.2) := by
  unfold lookup table
  rw [find_foldl_insert]
  simp [List.filter_filter, Bool.and_comm]

theorem ancestors_cons (g : SGraph) (s p : Nat) (hd : Decr g.parents) (hp : g.parents s = [p]) :
    ancestors g s = s :: ancestors g p := by
  unfold ancestors
  have hlt : p < s := hd s p (by simp [hp])
  have h1 : chainF g.parents (s + 1) s = s :: chainF g.parents s p := by
    rw [chainF]
    simp only [hp]
  rw [h1, chainF_stable _ hd p s (by omega)]

/-- **C04 (3) — registrations of parents are inherited**: a scope that has nothing for the type
    gets exactly what its parent gets. -/
theorem parent_inherited (g : SGraph) (regs : List (Nat × Ctor)) (s p ty : Nat)
    (hd : Decr g.parents) (hs : s ≤ g.app) (ht : TreeAbove g s)
    (hp : g.parents s = [p]) (hnone : lookup regs s ty = none) :
    get g regs s ty = get g regs p ty := by
  have hlt : p < s := hd s p (by simp [hp])
  have htp : TreeAbove g p := by
    unfold TreeAbove at ht ⊢
    unfold TreeFrom at ht
    rw [hp] at ht
    exact treeFrom_ge _ _ _ ht _ (by omega)
  rw [get_nearest g regs s ty hd hs ht, get_nearest g regs p ty hd (by omega) htp,
    ancestors_cons g s p hd hp]
  simp [firstHit, hnone]

/-- …and a scope that has a registration of its own uses it, whatever its ancestors say. -/
theorem own_registration_wins (g : SGraph) (regs : List (Nat × Ctor)) (s ty : Nat) (c : Ctor)
    (hown : lookup regs s ty = some c) : get g regs s ty = some c := by
  unfold get SGraph.fuel
  simp [bfs, hown]

theorem lookup_congr (regs regs' : List (Nat × Ctor)) (s ty : Nat)
    (h : regs.filter (fun r => r.1 == s) = regs'.filter (fun r => r.1 == s)) :
    lookup regs s ty = lookup regs' s ty := by
  unfold lookup table
  rw [h]

theorem firstHit_congr (has has' : Nat → Option Ctor) (l : List Nat)
    (h : ∀ k ∈ l, has k = has' k) : firstHit has l = firstHit has' l := by
  induction l with
  | nil => rfl
  | cons x xs ih =>
    simp only [firstHit]
    rw [h x (by simp), ih (fun k hk => h k (by simp [hk]))]

/-- **C04 (4) — siblings are invisible**: registrations against scopes that are not ancestors of `s`
    (sibling blueprints, their routes, anything nested elsewhere) cannot change what `s` gets,
    wherever they sit in the registration order. -/
theorem sibling_invisible (g : SGraph) (regs extra : List (Nat × Ctor)) (s ty : Nat)
    (hd : Decr g.parents) (hs : s ≤ g.app) (ht : TreeAbove g s)
    (hout : ∀ r ∈ extra, r.1 ∉ ancestors g s) :
    get g (regs ++ extra) s ty = get g regs s ty := by
  rw [get_nearest g _ s ty hd hs ht, get_nearest g _ s ty hd hs ht]
  apply firstHit_congr
  intro k hk
  apply lookup_congr
  rw [List.filter_append]
  have : extra.filter (fun r => r.1 == k) = [] := by
    rw [List.filter_eq_nil_iff]
    intro r hr
    have := hout r hr
    intro hrk
    simp only [beq_iff_eq] at hrk
    exact this (hrk ▸ hk)
  rw [this, List.append_nil]

/-- a run of clone requests starts from a graph without clone nodes -/
def fresh (g : Graph) : CGraph := { g := g }

/-- **C04 (5) — a never-clone value is never duplicated**: whatever clone requests the borrow-checking
    passes issue, in whatever order (each goes through the guard), every clone node that ends up in the
    call graph copies an original node whose constructor is not `NeverClone`. -/
theorem never_clone_no_clone_node (g : Graph) (reqs : List (Nat × Nat)) :
    ∀ kd ∈ (applyReqs (fresh g) reqs).clones, kd.2 < g.size ∧ (g.node kd.2).cloneable = true := by
  intro kd h
  rcases applyReqs_origin reqs (fresh g) kd h with h1 | ⟨h1, h2, _⟩
  · simp [fresh] at h1
  · exact ⟨h2, h1⟩

/-- the guard itself: a `NeverClone` constructor (the default) never gets a `Clone` transformer. -/
theorem guard_refuses_never_clone (c : Ctor) (h : c.cloneIfNecessary = false) :
    cloneGuard (some c) = false := by simp [cloneGuard, h]

/-- a refused request leaves the call graph untouched -/
theorem tryClone_never_clone (cg : CGraph) (d c : Nat) (h : (cg.g.node d).cloneable = false) :
    tryClone cg d c = none := by simp [tryClone, h]

/-- **C04 (6) — a clone is taken from the instance it stands in for**: after any run of clone
    requests on a well-formed call graph, the only edge into a clone node is a shared borrow of the
    node it copies. -/
theorem clone_from_instance (g : Graph) (hwf : g.wellFormed = true) (reqs : List (Nat × Nat)) :
    ∀ kd ∈ (applyReqs (fresh g) reqs).clones,
      (applyReqs (fresh g) reqs).g.inEdges kd.1 = [⟨kd.2, kd.1, .shared⟩] := by
  intro kd h
  have hinv : CloneInv (fresh g) := ⟨hwf, by simp [fresh]⟩
  exact ((applyReqs_inv reqs _ hinv).2 kd h).2

/-- **C04 (7) — fully constructed before use**: in any order the ordering step can produce for the
    (clone-extended) call graph, the producer of every input of a node — a clone's original
    included — is placed strictly before it. -/
theorem built_before_use {g : Graph} {σ : List Nat} (h : isRun g σ = true) {t : Nat} (ht : t ∈ σ)
    {e : Edge} (he : e ∈ g.inEdges t) : e.src ∈ σ ∧ pos σ e.src < pos σ t :=
  run_topo h ht (pred_of_inEdge he)

/-- …in particular the copied instance exists before its clone is taken, and the clone before the
    consumer it was made for runs. -/
theorem clone_built_in_order (g : Graph) (hwf : g.wellFormed = true) (reqs : List (Nat × Nat))
    {σ : List Nat} (hrun : isRun (applyReqs (fresh g) reqs).g σ = true) :
    ∀ kd ∈ (applyReqs (fresh g) reqs).clones, kd.1 ∈ σ → kd.2 ∈ σ ∧ pos σ kd.2 < pos σ kd.1 := by
  intro kd h hk
  have hin := clone_from_instance g hwf reqs kd h
  have : (⟨kd.2, kd.1, .shared⟩ : Edge) ∈ (applyReqs (fresh g) reqs).g.inEdges kd.1 := by simp [hin]
  exact built_before_use hrun hk this

/-- **C04 (1) on the scope graph pavexc really builds**: for every blueprint — any nesting, any
    interleaving of registrations — and every scope of it other than the application-state scope
    (blueprints, request handlers, middlewares), `get` returns the registration held by the nearest
    ancestor-or-self scope that has one. -/
theorem get_nearest_process (b : Bp) (s ty : Nat) (hs : s < (process b).next) :
    get (build (process b)) (process b).regs s ty =
      firstHit (fun k => lookup (process b).regs k ty) (ancestors (build (process b)) s) := by
  have hwf := process_wf b
  have hd := build_decr _ hwf
  apply get_nearest _ _ _ _ hd
  · simp [build]; omega
  · exact treeFrom_of_le_one _ hd (process b).next (build_parents_le_one _ hwf) _ _ hs


/-- **C04 — no illicit copy between the middlewares of a stage**: when step 4 of the pipeline accepts a
    stage, every index at which it makes the generated stage function pass `value.clone()` belongs to a
    middleware that takes that type by value from a constructor whose cloning policy allows it; a
    never-clone value that would have to be duplicated makes the stage be rejected instead. -/
theorem stage_never_clone (mws : List (List StageInput)) (t : List (Nat × List Nat))
    (h : stageCloning mws = .ok t) :
    ∀ ty idxs, (ty, idxs) ∈ t → ∀ i ∈ idxs,
      ∃ inp ∈ (mws[i]?).getD [], inp.ty = ty ∧ inp.byRef = false ∧ inp.cloneable = true := by
  have hsound : Sound (fun i => (mws[i]?).getD []) (collectAll [] 0 mws) :=
    collectAll_sound mws mws 0 [] (fun k mw hk => by simpa using hk) (by intro e he; cases he)
  unfold stageCloning at h
  generalize collectAll [] 0 mws = table at h hsound
  -- every entry of the result comes from an entry of the table
  have key : ∀ (l : List (Nat × CloningInfo)) (acc : Except Nat (List (Nat × List Nat))) (t : List (Nat × List Nat)),
      l.foldl (fun acc e => match acc with
        | .error x => .error x
        | .ok t => match cloningFor e.2 with
          | none => .ok t
          | some (.error i) => .error i
          | some (.ok idxs) => .ok (t ++ [(e.1, idxs)])) acc = .ok t →
      ∀ x ∈ t, (∃ t0, acc = .ok t0 ∧ x ∈ t0) ∨ ∃ e ∈ l, cloningFor e.2 = some (.ok x.2) ∧ e.1 = x.1 := by
    intro l
    induction l with
    | nil =>
      intro acc t hf x hx
      simp only [List.foldl_nil] at hf
      exact Or.inl ⟨t, hf, hx⟩
    | cons e rest ih =>
      intro acc t hf x hx
      simp only [List.foldl_cons] at hf
      rcases ih _ t hf x hx with ⟨t0, ht0, hx0⟩ | ⟨e', he', h1, h2⟩
      · cases acc with
        | error a => simp at ht0
        | ok ta =>
          simp only at ht0
          cases hc : cloningFor e.2 with
          | none =>
            rw [hc] at ht0
            simp only [Except.ok.injEq] at ht0
            subst ht0
            exact Or.inl ⟨_, rfl, hx0⟩
          | some r =>
            rw [hc] at ht0
            cases r with
            | error a => simp at ht0
            | ok idxs =>
              simp only [Except.ok.injEq] at ht0
              subst ht0
              simp only [List.mem_append, List.mem_singleton] at hx0
              rcases hx0 with hx0 | rfl
              · exact Or.inl ⟨_, rfl, hx0⟩
              · exact Or.inr ⟨e, by simp, hc, rfl⟩
      · exact Or.inr ⟨e', List.mem_cons_of_mem _ he', h1, h2⟩
  intro ty idxs hmem i hi
  rcases key table (.ok []) t h (ty, idxs) hmem with ⟨t0, ht0, hx0⟩ | ⟨e, he, h1, h2⟩
  · simp only [Except.ok.injEq] at ht0
    subst ht0
    cases hx0
  · have := cloningFor_ok h1 i hi
    obtain ⟨inp, hin, hty, hbr, hcl⟩ := hsound e he (i, true) this
    exact ⟨inp, hin, by rw [hty]; exact h2, hbr, hcl⟩


-- Non-vacuity: root(0) ⊃ blueprint 1 ⊃ route scope 3; sibling blueprint 2. T7 is registered twice in the
-- root (ids 10 then 11), overridden in blueprint 1 (id 12) and registered in the sibling (id 13).
example :
    let g : SGraph := { app := 4, edges := [(0, 1), (0, 2), (1, 3), (0, 4), (1, 4)] }
    let regs : List (Nat × Ctor) := [(0, ⟨10, 7, .request, false⟩), (2, ⟨13, 7, .request, false⟩),
      (0, ⟨11, 7, .request, true⟩), (1, ⟨12, 7, .request, false⟩), (0, ⟨14, 8, .singleton, false⟩)]
    ancestors g 3 = [3, 1, 0] ∧ (get g regs 3 7).map (·.id) = some 12 ∧ (get g regs 3 8).map (·.id) = some 14 ∧
    (get g regs 2 7).map (·.id) = some 13 ∧ (get g regs 0 7).map (·.id) = some 11 ∧ get g regs 3 9 = none ∧
    g.parents 4 = [0, 1] := by decide
-- a cloneable node 0 moved into 1 and 2: the request (0,1) inserts clone node 3; a never-clone node is refused
example :
    let g : Graph := { nodes := [{ cloneable := true }, {}, {}], edges := [⟨0, 1, .move⟩, ⟨0, 2, .move⟩] }
    (applyReqs (fresh g) [(0, 1)]).clones = [(3, 0)] ∧
    (applyReqs (fresh g) [(0, 1)]).g.inEdges 3 = [⟨0, 3, .shared⟩] ∧
    (applyReqs (fresh g) [(1, 2), (0, 1), (0, 1)]).clones = [(3, 0)] ∧
    g.wellFormed = true ∧ isRun (applyReqs (fresh g) [(0, 1)]).g [0, 3, 1, 2] = true := by decide

-- Non-vacuity (scope graph of a real blueprint): root registers T7 twice (ids 10, 11), a route, and nests a blueprint that
-- overrides T7 (id 12) and has a route and a middleware; a second nested blueprint has only a route.
example :
    let b : Bp := .cons (.ctor ⟨10, 7, .request, false⟩) (.cons (.route 0) (.cons (.ctor ⟨11, 7, .request, true⟩)
      (.cons (.nest (.cons (.mw 0) (.cons (.route 1) (.cons (.ctor ⟨12, 7, .request, false⟩) .nil))))
      (.cons (.nest (.cons (.route 2) .nil)) .nil))))
    let st := process b
    st.routes = [(0, 1), (2, 4), (1, 7)] ∧ st.mws = [(0, 6)] ∧ st.nested = [(3, 0), (5, 0)] ∧ st.next = 8 ∧
    (build st).parents 8 = [0, 3, 5] ∧ ancestors (build st) 7 = [7, 5, 0] ∧
    ((get (build st) st.regs 7 7).map (·.id), (get (build st) st.regs 4 7).map (·.id), (get (build st) st.regs 1 7).map (·.id),
      (get (build st) st.regs 6 7).map (·.id)) = (some 12, some 11, some 11, some 12) := by decide

end Pxv.Scope

section
open Pxv.Scope
-- Non-vacuity (stage pass): pre `p(T0)`, handler `h(T0)`, post `q(&T0)` of one stage: both by-value uses need a clone when
-- the constructor allows it; with a never-clone constructor the stage is rejected at the first of them.
abbrev StageView := Option (List (Nat × List Nat)) × Option Nat
def stageView (r : Except Nat (List (Nat × List Nat))) : StageView :=
  match r with
  | .ok t => (some t, none)
  | .error i => (none, some i)
example : stageView (stageCloning [[⟨0, false, true, false⟩], [⟨0, false, true, false⟩], [⟨0, true, true, false⟩]]) =
    ((some [(0, [0, 1])], none) : StageView) := by decide
example : stageView (stageCloning [[⟨0, false, false, false⟩], [⟨0, false, false, false⟩], [⟨0, true, false, false⟩]]) =
    ((none, some 0) : StageView) := by decide
example : stageView (stageCloning [[⟨0, false, false, false⟩], [⟨0, true, false, false⟩]]) = ((none, some 0) : StageView) := by decide
example : stageView (stageCloning [[⟨0, true, false, false⟩], [⟨0, false, false, false⟩]]) = ((some [], none) : StageView) := by decide
end

namespace Pxv.Life
open Pxv.Scope

/-- **[finding]** the full statement is false of the faithful model: the handler and the post-processor of the
    nested blueprint receive the value of the root's constructor, which their own scope does not designate. -/
theorem injection_statement_false : ¬ injection_statement := by
  intro h
  have := h wEnv (fun _ => some 0) wChain wH (by decide)
  revert this
  decide


/-- **C04, proved part — injection is faithful in uniform pipelines**: when the handler and the
    middlewares of a route resolve every type the same way (no blueprint between them overrides a
    constructor that an enclosing middleware sees), every input of every one of them that the
    generated pipeline fills with a constructed value — directly in the component's closure or through
    any number of `Next` states — was built by the constructor the component's scope designates. -/
theorem injection_partial (env : Env) (tyOf : Nat → Option Nat) (chain : List Comp) (h : Comp)
    (lk : Nat → Option CDef) (hu : UidInj lk) (hun : Uniform env lk chain h) :
    faithful env (plan env tyOf chain h) = true := by
  have hok := plan_ok env tyOf chain h lk hu hun
  generalize plan env tyOf chain h = p at hok
  unfold faithful
  rw [List.all_eq_true]
  intro x hx
  obtain ⟨cp, ci⟩ := x
  rw [List.mem_zipIdx_iff_getElem?] at hx
  simp only at hx
  have hcp := List.mem_of_getElem? hx
  obtain ⟨hpok, hsc⟩ := hok cp hcp
  unfold faithfulAt
  rw [List.all_eq_true]
  intro y hy
  obtain ⟨⟨ty, m⟩, s⟩ := y
  obtain ⟨j, hj⟩ := List.mem_iff_getElem?.mp hy
  rw [List.getElem?_zip_eq_some] at hj
  have hans := hpok.args j (ty, m) s hj.1 hj.2
  simp only
  cases s with
  | built i =>
    obtain ⟨n, hn1, hn2⟩ := hans
    simp only [Plan.origin, Plan.ctorAt, hx, Option.bind_some, hn1, Option.map_some]
    rw [hsc]
    simpa using hn2
  | param t =>
    simp only [Ans] at hans
    subst hans
    simp only [Plan.origin, hx]
    cases ho : p.originOfParam cp.stage t with
    | app t' => simp [Plan.ctorAt]
    | stuck => simp [Plan.ctorAt]
    | node w i =>
      obtain ⟨wp, n, h1, h2, h3⟩ := originOfParam_ok p lk (fun cp hcp => (hok cp hcp).1) _ _ _ _ ho
      simp only [Plan.ctorAt, h1, Option.bind_some, h2, Option.map_some]
      rw [hsc]
      simpa using h3



-- Non-vacuity: the uniform pipeline of Thm/C03 (hoisting through `Next1` included) is faithful
example : Uniform exEnv exLk exChain exH := fun _ _ => rfl
example : faithful exEnv exPlan = true := by decide
example : UidInj exLk := uidInj_of_table exTab (by decide)
-- the guard is not vacuous: the pipeline of the compiler-panic witness (root post `m1(&T0)` + pre `m2(&T0)` share
-- `c0`, the route's blueprint overrides T0 with `c0b` and its handler takes &T0) has two nodes for `c0b`.
example :
    let env : Env := { get := fun s t => if t = 0 then (if s = 1 ∨ s = 2 then some wC0 else some wC0b) else none, fuel := 3 }
    let p := plan env (fun _ => some 0) [⟨.noop, 0, 5, []⟩, ⟨.post, 1, 1, [(0, .ref)]⟩, ⟨.pre, 2, 2, [(0, .ref)]⟩] ⟨.handler, 0, 5, [(0, .ref)]⟩
    p.invariantsOk = false ∧ p.count 100 = 2 := by decide
-- the witness of `injection_statement_false` passes the guard and delivers `c0` where `c0b` is designated
example : (plan wEnv (fun _ => some 0) wChain wH).invariantsOk = true ∧
    ((plan wEnv (fun _ => some 0) wChain wH).comps[2]?.map (fun c => c.args.map ((plan wEnv (fun _ => some 0) wChain wH).origin 2))) = some [.node 1 0] ∧
    (plan wEnv (fun _ => some 0) wChain wH).ctorAt (.node 1 0) = some wC0 ∧ wEnv.get 5 0 = some wC0b := by decide


end Pxv.Life
