import Pxv.Model.Pipeline
/-!
C05 — middlewares and handler run in the documented order.
`run` mirrors what pavexc generates (chain → stages → nested stage functions); `doc` is the order
the guide describes. All theorems are for every chain, every nesting, every early-return choice.
-/
namespace Pxv.Pipe

/-- what follows the pre-processors of a stage, given the rest of the chain after the next wrap. -/
def midPart (early : Nat → Bool) (h : Nat) (rec : List Mw → List Event) :
    Option (Nat × List Mw) → List Event
  | none => [.handler h]
  | some (w, rest) => [.wrapStart w] ++ rec rest ++ [.wrapEnd w]

theorem runPres_append (early : Nat → Bool) (a b : List Nat) (k : List Event) :
    runPres early (a ++ b) k = runPres early a (runPres early b k) := by
  induction a with
  | nil => rfl
  | cons p ps ih => simp only [List.cons_append, runPres, ih]

/-- the accumulator-passing grouping, unfolded one wrapping scope at a time. -/
theorem runStages_group (early : Nat → Bool) (h : Nat) (ms : List Mw) (pres posts : List Nat) :
    runStages early (group ms pres posts h) =
      runPres early (pres ++ presOf (splitWrap ms).1)
        (midPart early h (fun r => runStages early (group r [] [] h)) (splitWrap ms).2)
      ++ (posts ++ postsOf (splitWrap ms).1).map .post := by
  induction ms generalizing pres posts with
  | nil => simp [group, splitWrap, presOf, postsOf, runStages, midPart]
  | cons m ms ih =>
    cases hk : m.kind with
    | wrap => simp [group, hk, splitWrap, presOf, postsOf, runStages, midPart]
    | pre =>
      simp only [group, hk, splitWrap]
      rw [ih]
      simp [presOf, postsOf, hk, List.filter_cons, List.append_assoc]
    | post =>
      simp only [group, hk, splitWrap]
      rw [ih]
      simp [presOf, postsOf, hk, List.filter_cons, List.append_assoc]

theorem splitWrap_rest_length (ms : List Mw) :
    ∀ w rest, (splitWrap ms).2 = some (w, rest) → rest.length < ms.length := by
  induction ms with
  | nil => intro w rest h; simp [splitWrap] at h
  | cons m ms ih =>
    intro w rest h
    cases hk : m.kind with
    | wrap =>
      simp only [splitWrap, hk, Option.some.injEq, Prod.mk.injEq] at h
      obtain ⟨_, rfl⟩ := h
      simp
    | pre =>
      simp only [splitWrap, hk] at h
      have := ih w rest h
      simp; omega
    | post =>
      simp only [splitWrap, hk] at h
      have := ih w rest h
      simp; omega

/-- **C05 (1) — the generated pipeline runs in the documented order**: for every chain of
    registrations, every handler and every early-return choice, the event sequence of the code
    pavexc generates equals the order the guide prescribes. -/
theorem run_eq_doc (early : Nat → Bool) (chain : List Mw) (h : Nat) :
    ∀ fuel, chain.length < fuel → run early chain h = doc early fuel chain h := by
  intro fuel
  induction fuel generalizing chain with
  | zero => intro hlt; omega
  | succ f ih =>
    intro hlt
    unfold run stages
    rw [runStages_group]
    simp only [List.nil_append, doc]
    cases hs : (splitWrap chain).2 with
    | none => simp [midPart]
    | some wr =>
      obtain ⟨w, rest⟩ := wr
      have hl := splitWrap_rest_length chain w rest hs
      have := ih rest (by omega)
      unfold run stages at this
      simp [midPart, this]

/-- the identity of the component an event starts, if any -/
def startOf : Event → Option Nat
  | .pre p => some p
  | .wrapStart w => some w
  | _ => none

theorem filterMap_runPres_noEarly (pres : List Nat) (k : List Event) :
    (runPres (fun _ => false) pres k).filterMap startOf = pres ++ k.filterMap startOf := by
  induction pres with
  | nil => rfl
  | cons p ps ih => simp [runPres, startOf, ih]

theorem starts_group (h : Nat) (ms : List Mw) (pres posts : List Nat) :
    (runStages (fun _ => false) (group ms pres posts h)).filterMap startOf =
      pres ++ (ms.filter (·.kind != .post)).map (·.id) := by
  induction ms generalizing pres posts with
  | nil =>
    simp [group, runStages, filterMap_runPres_noEarly, startOf, List.filterMap_append]
  | cons m ms ih =>
    cases hk : m.kind with
    | wrap =>
      simp only [group, hk, runStages, List.filterMap_append, filterMap_runPres_noEarly]
      rw [ih]
      have : (List.map Event.post posts).filterMap startOf = [] := by
        induction posts with
        | nil => rfl
        | cons a l ih2 => simp [startOf, ih2]
      simp [startOf, this, List.filter_cons, hk]
    | pre =>
      simp only [group, hk]
      rw [ih]
      simp [List.filter_cons, hk, List.append_assoc]
    | post =>
      simp only [group, hk]
      rw [ih]
      simp [List.filter_cons, hk]

/-- **C05 (2)**: when nobody returns early, the pre-processing and wrapping middlewares start in
    exactly their registration order (post-processors do not take part). -/
theorem starts_in_registration_order (chain : List Mw) (h : Nat) :
    (run (fun _ => false) chain h).filterMap startOf =
      (chain.filter (·.kind != .post)).map (·.id) := by
  unfold run stages
  rw [starts_group]
  rfl

theorem count_handler_runPres (early : Nat → Bool) (h : Nat) (pres : List Nat) (k : List Event) :
    (runPres early pres k).count (.handler h) ≤ k.count (.handler h) := by
  induction pres with
  | nil => exact Nat.le_refl _
  | cons p ps ih =>
    simp only [runPres]
    by_cases he : early p = true
    · simp [he, List.count_cons]
    · simp only [he]
      simpa [List.count_cons] using ih

theorem count_handler_posts (h : Nat) (posts : List Nat) :
    (posts.map Event.post).count (.handler h) = 0 := by
  induction posts with
  | nil => rfl
  | cons a l ih => simp [List.count_cons, ih]

/-- **C05 (3)**: the handler runs at most once, whatever the middlewares decide … -/
theorem handler_at_most_once (early : Nat → Bool) (ms : List Mw) (pres posts : List Nat) (h : Nat) :
    (runStages early (group ms pres posts h)).count (.handler h) ≤ 1 := by
  induction ms generalizing pres posts with
  | nil =>
    simp only [group, runStages, List.count_append, count_handler_posts, Nat.add_zero]
    exact Nat.le_trans (count_handler_runPres early h pres _) (by simp [List.count_cons])
  | cons m ms ih =>
    cases hk : m.kind with
    | wrap =>
      simp only [group, hk, runStages, List.count_append, count_handler_posts, Nat.add_zero]
      refine Nat.le_trans (count_handler_runPres early h pres _) ?_
      have := ih [] []
      simpa [List.count_append, List.count_cons] using this
    | pre => simp only [group, hk]; exact ih _ _
    | post => simp only [group, hk]; exact ih _ _

theorem handler_once_group (ms : List Mw) (pres posts : List Nat) (h : Nat) :
    (runStages (fun _ => false) (group ms pres posts h)).count (.handler h) = 1 := by
  have noEarly : ∀ (pres : List Nat) (k : List Event),
      (runPres (fun _ => false) pres k).count (.handler h) = k.count (.handler h) := by
    intro pres k
    induction pres with
    | nil => rfl
    | cons p ps ih => simp [runPres, List.count_cons, ih]
  induction ms generalizing pres posts with
  | nil => simp [group, runStages, List.count_append, count_handler_posts, noEarly, List.count_cons]
  | cons m ms ih =>
    cases hk : m.kind with
    | wrap =>
      simp only [group, hk, runStages, List.count_append, count_handler_posts, Nat.add_zero, noEarly]
      have := ih [] []
      simpa [List.count_append, List.count_cons] using this
    | pre => simp only [group, hk]; exact ih _ _
    | post => simp only [group, hk]; exact ih _ _

/-- … and exactly once, inside every wrapping middleware, when nobody returns early. -/
theorem handler_exactly_once (chain : List Mw) (h : Nat) :
    (run (fun _ => false) chain h).count (.handler h) = 1 := handler_once_group chain [] [] h

/-- **C05 (4)**: an early return in the outermost scope cuts everything that follows it inside that
    scope — later pre-processors, the wrapping middleware and all it contains, the handler — while
    the post-processors of that scope still run. -/
theorem early_cuts_scope (early : Nat → Bool) (seg : List Nat) (p : Nat) (more : List Nat)
    (k : List Event) (hseg : ∀ q ∈ seg, early q = false) (hp : early p = true) :
    runPres early (seg ++ p :: more) k = seg.map .pre ++ [.pre p, .early p] := by
  induction seg with
  | nil => simp [runPres, hp]
  | cons a l ih =>
    have ha : early a = false := hseg a (by simp)
    simp only [List.cons_append, runPres, ha, List.map_cons]
    rw [ih (fun q hq => hseg q (by simp [hq]))]
    simp

/-- **C05 (5)**: what encloses a wrapping middleware does not depend on what happens inside it: the
    outer pre-processors ran before it started and the outer post-processors run after it ended,
    whichever early returns happen inside. -/
theorem outer_scope_independent (early : Nat → Bool) (seg rest : List Mw) (w h : Nat)
    (hseg : ∀ m ∈ seg, m.kind ≠ .wrap) (hne : ∀ m ∈ seg, m.kind = .pre → early m.id = false) :
    run early (seg ++ ⟨.wrap, w⟩ :: rest) h =
      (presOf seg).map .pre ++ [.wrapStart w] ++ run early rest h ++ [.wrapEnd w] ++
      (postsOf seg).map .post := by
  have hsplit : ∀ seg : List Mw, (∀ m ∈ seg, m.kind ≠ .wrap) →
      splitWrap (seg ++ ⟨.wrap, w⟩ :: rest) = (seg, some (w, rest)) := by
    intro seg
    induction seg with
    | nil => intro _; simp [splitWrap]
    | cons a l ih =>
      intro hs
      have ha := hs a (by simp)
      have := ih (fun m hm => hs m (by simp [hm]))
      cases hk : a.kind with
      | wrap => exact absurd hk ha
      | pre => simp [splitWrap, hk, this]
      | post => simp [splitWrap, hk, this]
  have hnoearly : ∀ (ps : List Nat) (k : List Event), (∀ q ∈ ps, early q = false) →
      runPres early ps k = ps.map .pre ++ k := by
    intro ps k
    induction ps with
    | nil => intro _; rfl
    | cons a l ih =>
      intro hq
      simp [runPres, hq a (by simp), ih (fun q h => hq q (by simp [h]))]
  unfold run stages
  rw [runStages_group, hsplit seg hseg]
  simp only [List.nil_append, midPart]
  rw [hnoearly]
  · simp [List.append_assoc]
  · intro q hq
    simp only [presOf, List.mem_map, List.mem_filter, beq_iff_eq] at hq
    obtain ⟨m, ⟨hm, hk⟩, rfl⟩ := hq
    exact hne m hm hk

/-- **C05 (6) — scoping**: a route's chain is fixed at the moment the route is registered:
    nothing registered after it (in its own or an enclosing blueprint) can wrap it. -/
theorem after_route_invisible (h : Nat) (rest rest' : Bp) (c : List Mw) :
    (chains (.cons (.route h) rest) c).head? = (chains (.cons (.route h) rest') c).head? := by
  simp [chains]

/-- a nested blueprint starts from the chain its parent had when it was nested, and nothing it
    registers leaks to what the parent registers afterwards (siblings included). -/
theorem nested_is_snapshot (b rest : Bp) (c : List Mw) :
    chains (.cons (.nest b) rest) c = chains b c ++ chains rest c := by
  simp [chains]

theorem sibling_invisible (b1 b1' b2 rest : Bp) (c : List Mw) :
    ∃ pre pre', chains (.cons (.nest b1) (.cons (.nest b2) rest)) c = pre ++ chains b2 c ++ chains rest c ∧
      chains (.cons (.nest b1') (.cons (.nest b2) rest)) c = pre' ++ chains b2 c ++ chains rest c :=
  ⟨chains b1 c, chains b1' c, by simp [chains], by simp [chains]⟩

-- Non-vacuity: the scenarios of the guide's table.
-- wrap1, wrap2, post1, post2, pre1, pre2, route  (top_level of ui_tests/middlewares_execution_order)
example : run (fun _ => false)
    [⟨.wrap, 1⟩, ⟨.wrap, 2⟩, ⟨.post, 3⟩, ⟨.post, 4⟩, ⟨.pre, 5⟩, ⟨.pre, 6⟩] 0 =
    [.wrapStart 1, .wrapStart 2, .pre 5, .pre 6, .handler 0, .post 3, .post 4, .wrapEnd 2, .wrapEnd 1] := by
  decide
-- early return: wrap1, post1, pre(early), wrap2, pre2, post2, route
example : run (fun p => p == 9)
    [⟨.wrap, 1⟩, ⟨.post, 3⟩, ⟨.pre, 9⟩, ⟨.wrap, 2⟩, ⟨.pre, 6⟩, ⟨.post, 4⟩] 0 =
    [.wrapStart 1, .pre 9, .early 9, .post 3, .wrapEnd 1] := by decide
-- a middleware registered after the route, and one in a sibling blueprint, do not wrap it
example : chains (.cons (.mw ⟨.wrap, 1⟩) (.cons (.nest (.cons (.mw ⟨.pre, 2⟩) (.cons (.route 7) .nil)))
    (.cons (.route 8) (.cons (.mw ⟨.wrap, 3⟩) .nil)))) [] =
    [(7, [⟨.wrap, 1⟩, ⟨.pre, 2⟩]), (8, [⟨.wrap, 1⟩])] := by decide

end Pxv.Pipe
