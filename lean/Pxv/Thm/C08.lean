import Pxv.Model.Rules
import Pxv.Lemmas.Rules
import Pxv.Lemmas.RulesSpec
import Pxv.Model.Generate
import Pxv.Thm.C09
import Pxv.Lemmas.DepGraph
/-!
C08 — blueprints that break a documented rule are rejected, never compiled.

Per rule: a declarative statement of the violation (`…Violation`, any depth of the dependency graph,
any nesting level: the offending component only has to be *reachable* from a handler, a middleware
or an error observer through injected constructors, each found by the scope lookup) and the theorem
that the decision procedure mirroring pavexc's check reports it. Then: `check` (the pass sequence of
`App::build`) is non-empty, and a non-empty `check` writes nothing (Thm/C09 `reject_atomic`).

Where the real compiler breaks the property the full statement is kept and refuted on a concrete
witness (`…_statement_false`, `…_incomplete`): see known_findings.json.
-/
namespace Pxv.Rules

/-! ## The two graph algorithms (proved in Pxv/Lemmas/Rules.lean) -/

/-- **completeness of the worklist** (`detect_missing_constructors`, `DependencyGraph::build`):
    whatever is reachable from a root through the successor relation is processed. -/
theorem worklist_complete (succ : Nat → List Nat) (n : Nat) (roots : List Nat) {r c : Nat}
    (hr : r ∈ roots) (hrn : r < n) (h : ReachN succ n r c) : c ∈ closure succ n roots :=
  closure_complete succ n roots hr hrn h

/-- **completeness of `find_cycles`** (DFS with a visited set and a stack): if the graph has a cycle —
    of any length, anywhere — at least one cycle is reported. -/
theorem dfs_finds_a_cycle (adj : List (List Nat)) (h : HasCycle adj) : findCycles adj ≠ [] :=
  findCycles_complete adj h

/-- **soundness of the worklist**: it processes nothing but nodes reachable from a root. -/
theorem worklist_sound (succ : Nat → List Nat) (n : Nat) (roots : List Nat) {c : Nat}
    (h : c ∈ closure succ n roots) : c < n ∧ ∃ r ∈ roots, ReachN succ n r c :=
  closure_sound succ n roots h

/-- **soundness of `find_cycles`**: every reported list is a closed walk of the graph (non-empty,
    consecutive nodes joined by edges, the last one pointing back at the first). -/
theorem dfs_reports_only_cycles (adj : List (List Nat)) : ∀ c ∈ findCycles adj, IsCycle adj c :=
  findCycles_sound adj

/-! ## Scope lookup: nearest enclosing registration, siblings invisible
(vocabulary and proofs in Pxv/Lemmas/RulesSpec.lean) -/

/-- **nearest enclosing scope**: the lookup walks the visible scopes (`anc`: the scope itself, its
    parent, …, the root — nearest first) and answers with the first registration it meets. -/
theorem scope_lookup_first_visible (db : DB) (s t : Nat) :
    db.lookup s t = (db.anc s).findSome? (fun a => db.ctorIn a t) := lookup_eq_findSome db s t

/-- **siblings are invisible**: whatever the lookup finds is a constructor of the requested type
    registered against the scope itself or one of its ancestors. -/
theorem scope_lookup_visible_only {db : DB} {s t c : Nat} (h : db.lookup s t = some c) :
    c < db.n ∧ (db.comp c).kind = .ctor ∧ (db.comp c).out = t ∧ (db.comp c).scope ∈ db.anc s :=
  lookup_some h

/-- a registration in a nearer scope wins over one further up. -/
theorem scope_lookup_nearest_wins {db : DB} {s t c : Nat} (h : db.lookup s t = some c) :
    ∃ l1 l2, db.anc s = l1 ++ (db.comp c).scope :: l2 ∧ ∀ a ∈ l1, db.ctorIn a t = none :=
  lookup_nearest h

/-- nothing found ⇔ no visible scope has a registration for the type. -/
theorem scope_lookup_none_iff (db : DB) (s t : Nat) :
    db.lookup s t = none ↔ ∀ a ∈ db.anc s, db.ctorIn a t = none := lookup_none_iff db s t

/-- in a well-formed scope tree the visible scopes are exactly the chain of enclosing blueprints. -/
theorem scope_visible_iff_enclosing (db : DB) (hwf : db.WFScopes) (s a : Nat) :
    a ∈ db.anc s ↔ Anc db a s := anc_spec db hwf s a

/-- **a registration in a blueprint that does not enclose the consumer is never used**: siblings,
    children and cousins are invisible (well-formed scope tree). -/
theorem scope_not_enclosing_invisible (db : DB) (hwf : db.WFScopes) {s t c : Nat}
    (h : db.lookup s t = some c) : Anc db (db.comp c).scope s :=
  (anc_spec db hwf s _).mp (lookup_some h).2.2.2

/-- … so a type whose constructors are all registered against blueprints that do not enclose `s`
    (e.g. only against a sibling) has no constructor in `s`. -/
theorem scope_only_elsewhere_is_missing (db : DB) (hwf : db.WFScopes) {s t : Nat}
    (h : ∀ j, j < db.n → (db.comp j).kind = .ctor → (db.comp j).out = t → ¬ Anc db (db.comp j).scope s) :
    db.lookup s t = none := by
  cases hl : db.lookup s t with
  | none => rfl
  | some c =>
    have := lookup_some hl
    exact absurd (scope_not_enclosing_invisible db hwf hl) (h c this.1 this.2.1 this.2.2.1)

/-! ## Reachability: "at any depth of the dependency graph" -/

/-- **the worklist of `detect_missing_constructors` reaches every component** that a handler, a
    middleware or an error observer needs, at any depth. -/
theorem analysis_reaches_every_needed_component {db : DB} {c : Nat} (h : db.Reachable c) : c ∈ db.reach :=
  reach_complete h

/-! ## Rule: an injected type with no constructor in scope -/

/-- **missing constructor**: input `k` of a reachable component `c` has a type for which no visible
    scope (the component's blueprint or an enclosing one) holds a constructor ⇒ reported. -/
theorem missing_complete (db : DB) {c k : Nat} {x : Inp} (hr : db.Reachable c)
    (hx : (db.comp c).ins[k]? = some x) (hnone : db.lookup (db.comp c).scope x.ty = none) :
    ⟨.missing, c, k⟩ ∈ db.detectMissing := by
  unfold DB.detectMissing
  refine List.mem_flatMap.mpr ⟨c, reach_complete hr, ?_⟩
  unfold DB.missingAt
  refine List.mem_filterMap.mpr ⟨(x, k), List.mem_zipIdx_iff_getElem?.mpr hx, ?_⟩
  simp [hnone]

/-- the same, spelled out with the scope tree: no constructor for the type in any visible scope. -/
theorem missing_complete' (db : DB) {c k : Nat} {x : Inp} (hr : db.Reachable c)
    (hx : (db.comp c).ins[k]? = some x)
    (hnone : ∀ a ∈ db.anc (db.comp c).scope, ∀ j, j < db.n → (db.comp j).kind = .ctor →
      (db.comp j).out = x.ty → (db.comp j).scope ≠ a) :
    ⟨.missing, c, k⟩ ∈ db.detectMissing := by
  apply missing_complete db hr hx
  rw [lookup_none_iff]
  intro a ha
  cases h : db.ctorIn a x.ty with
  | none => rfl
  | some j =>
    have := ctorIn_some h
    exact absurd this.2.2.1 (hnone a ha j this.1 this.2.1 this.2.2.2)

/-- and nothing else is reported as missing: the diagnostic is exact. -/
theorem missing_sound (db : DB) {c k : Nat} (h : ⟨.missing, c, k⟩ ∈ db.detectMissing) :
    db.Reachable c ∧ ∃ x, (db.comp c).ins[k]? = some x ∧ db.lookup (db.comp c).scope x.ty = none := by
  unfold DB.detectMissing at h
  obtain ⟨i, hi, hd⟩ := List.mem_flatMap.mp h
  unfold DB.missingAt at hd
  obtain ⟨⟨x, k'⟩, hmem, hf⟩ := List.mem_filterMap.mp hd
  have hx : (db.comp i).ins[k']? = some x := List.mem_zipIdx_iff_getElem?.mp hmem
  simp only at hf
  cases hl : db.lookup (db.comp i).scope x.ty with
  | none =>
    simp only [hl, Option.some.injEq, Diag.mk.injEq] at hf
    obtain ⟨_, rfl, rfl⟩ := hf
    exact ⟨reach_sound hi, x, hx, hl⟩
  | some j =>
    simp only [hl] at hf
    split at hf
    · split at hf
      · simp at hf
      · simp at hf
      · split at hf <;> simp at hf
    · simp at hf

/-! ## Rules: `&mut` injection of a singleton / a transient / a clone-if-necessary request-scoped value -/

theorem mutSingleton_complete (db : DB) {c k j : Nat} {x : Inp} (hr : db.Reachable c)
    (hx : (db.comp c).ins[k]? = some x) (hm : x.mode = .mut)
    (hj : db.lookup (db.comp c).scope x.ty = some j) (hl : (db.comp j).life = .singleton) :
    ⟨.mutSingleton, c, k⟩ ∈ db.detectMissing := by
  unfold DB.detectMissing
  refine List.mem_flatMap.mpr ⟨c, reach_complete hr, ?_⟩
  unfold DB.missingAt
  refine List.mem_filterMap.mpr ⟨(x, k), List.mem_zipIdx_iff_getElem?.mpr hx, ?_⟩
  simp [hj, hm, hl]

theorem mutTransient_complete (db : DB) {c k j : Nat} {x : Inp} (hr : db.Reachable c)
    (hx : (db.comp c).ins[k]? = some x) (hm : x.mode = .mut)
    (hj : db.lookup (db.comp c).scope x.ty = some j) (hl : (db.comp j).life = .transient) :
    ⟨.mutTransient, c, k⟩ ∈ db.detectMissing := by
  unfold DB.detectMissing
  refine List.mem_flatMap.mpr ⟨c, reach_complete hr, ?_⟩
  unfold DB.missingAt
  refine List.mem_filterMap.mpr ⟨(x, k), List.mem_zipIdx_iff_getElem?.mpr hx, ?_⟩
  simp [hj, hm, hl]

theorem mutCloneable_complete (db : DB) {c k j : Nat} {x : Inp} (hr : db.Reachable c)
    (hx : (db.comp c).ins[k]? = some x) (hm : x.mode = .mut)
    (hj : db.lookup (db.comp c).scope x.ty = some j) (hl : (db.comp j).life = .request)
    (hc : (db.comp j).cloneIfNec = true) :
    ⟨.mutCloneable, c, k⟩ ∈ db.detectMissing := by
  unfold DB.detectMissing
  refine List.mem_flatMap.mpr ⟨c, reach_complete hr, ?_⟩
  unfold DB.missingAt
  refine List.mem_filterMap.mpr ⟨(x, k), List.mem_zipIdx_iff_getElem?.mpr hx, ?_⟩
  simp [hj, hm, hl, hc]

/-! ## Rule: any `&mut` input on a constructor (and on a wrapping middleware / an error observer) -/

theorem mutInput_complete (db : DB) {c k : Nat} {x : Inp} (hc : c < db.n)
    (hk : (db.comp c).kind.noMutInputs = true) (hx : (db.comp c).ins[k]? = some x) (hm : x.mode = .mut) :
    ∃ k', ⟨.mutInput, c, k'⟩ ∈ db.mutInputs := by
  unfold DB.mutInputs
  have hsome : ((db.comp c).ins.zipIdx.find? (fun (x, _) => x.mode == .mut)).isSome = true := by
    rw [List.find?_isSome]
    exact ⟨(x, k), List.mem_zipIdx_iff_getElem?.mpr hx, by simp [hm]⟩
  obtain ⟨⟨y, k'⟩, hy⟩ := Option.isSome_iff_exists.mp hsome
  refine ⟨k', List.mem_filterMap.mpr ⟨c, List.mem_range.mpr hc, ?_⟩⟩
  simp [hk, hy]

/-! ## Rule: clone-if-necessary on a type that is not `Clone` -/

theorem cloneNotClone_complete (db : DB) {c : Nat} (hc : c < db.n) (hk : (db.comp c).kind = .ctor)
    (hcl : (db.comp c).cloneIfNec = true) (hty : (db.ty (db.comp c).out).clone = false) :
    ⟨.cloneNotClone, c, (db.comp c).out⟩ ∈ db.cloneNotClone := by
  unfold DB.cloneNotClone
  refine List.mem_filterMap.mpr ⟨c, List.mem_range.mpr hc, ?_⟩
  simp [hk, hcl, hty]


/-! ## Rule: a dependency cycle (of any length) -/

/-- **cycles**: a reachable component that (transitively, through ≥ 1 injections) needs itself —
    a cycle of length 1, 2, 3, … anywhere below a handler/middleware/observer — is reported. -/
theorem cycles_complete (db : DB) {c : Nat} (hr : db.Reachable c) (hc : PathS db.deps c c) :
    db.cycles ≠ [] := by
  have hcyc : HasCycle db.depAdj := by
    refine ⟨c, ?_⟩
    unfold OnCycle
    refine PathS.transfer (P := fun i => i ∈ db.reach ∧ i < db.n) ?_ ⟨reach_complete hr, reach_lt hr⟩ hc
    intro a b ⟨ha, han⟩ hb
    refine ⟨?_, reach_closed ha hb, deps_lt hb⟩
    rw [succOf_depAdj ha han]; exact hb
  have := findCycles_complete db.depAdj hcyc
  unfold DB.cycles
  intro h
  exact this (List.map_eq_nil_iff.mp h)

/-- and only then: a reported cycle is a reachable component that needs itself. -/
theorem cycles_sound (db : DB) (h : db.cycles ≠ []) : ∃ c, db.Reachable c ∧ PathS db.deps c c := by
  unfold DB.cycles at h
  have hne : findCycles db.depAdj ≠ [] := fun e => h (by rw [e]; rfl)
  obtain ⟨cyc, hcyc⟩ := List.exists_mem_of_ne_nil _ hne
  obtain ⟨a, ha⟩ := (findCycles_sound db.depAdj cyc hcyc).onCycle
  have hedge : ∀ x y, y ∈ succOf db.depAdj x → x ∈ db.reach ∧ y ∈ db.deps x := by
    intro x y hy
    unfold succOf DB.depAdj at hy
    simp only [List.getD_eq_getElem?_getD, List.getElem?_map] at hy
    by_cases hx : x < db.n
    · simp only [List.getElem?_range hx, Option.map_some, Option.getD_some] at hy
      split at hy
      · rename_i hr; exact ⟨List.contains_iff_mem.mp hr, hy⟩
      · cases hy
    · have : (List.range db.n)[x]? = none := List.getElem?_eq_none (by simp; omega)
      simp [this] at hy
  have hreach : a ∈ db.reach := by
    obtain ⟨w, hw, _⟩ := onCycle_succ ha
    exact (hedge a w hw).1
  exact ⟨a, reach_sound hreach, PathS.transfer (P := fun _ => True) (fun x y _ hy => ⟨(hedge x y hy).2, trivial⟩) trivial ha⟩

/-! ## Rule: a singleton that depends on a request-scoped type, directly or through transients -/

/-- **singleton → request-scoped** (after the fix): a singleton constructor `s` with a chain
    `s → t₁ → … → tₖ` of transient constructors (k ≥ 0) whose last element takes a request-scoped
    type `r` ⇒ reported, with exactly that pair. -/
theorem singletonDeps_complete (db : DB) {s i r : Nat} (hs : s < db.n)
    (hl : (db.comp s).life = .singleton) (hk : (db.comp s).kind = .ctor)
    (hchain : db.ThroughTransients s i) (hr : r ∈ db.deps i) (hrl : (db.comp r).life = .request) :
    ⟨.singletonDep, s, r⟩ ∈ db.singletonDeps := by
  unfold DB.singletonDeps
  refine List.mem_flatMap.mpr ⟨s, mem_singletons.mpr ⟨hs, hl, hk⟩, ?_⟩
  refine List.mem_flatMap.mpr ⟨i, closure_complete db.transDeps db.n [s] (by simp) hs hchain, ?_⟩
  refine List.mem_map.mpr ⟨r, ?_, rfl⟩
  simp [DB.requestDeps, List.mem_filter, hr, hrl]

/-- and only then: every report names a singleton constructor and a request-scoped constructor it
    reaches through transient constructors only. -/
theorem singletonDeps_sound (db : DB) {s r : Nat} (h : ⟨.singletonDep, s, r⟩ ∈ db.singletonDeps) :
    s < db.n ∧ (db.comp s).life = .singleton ∧ (db.comp s).kind = .ctor ∧
    ∃ i, db.ThroughTransients s i ∧ r ∈ db.deps i ∧ (db.comp r).life = .request := by
  unfold DB.singletonDeps at h
  obtain ⟨s', hs', h1⟩ := List.mem_flatMap.mp h
  obtain ⟨i, hi, h2⟩ := List.mem_flatMap.mp h1
  obtain ⟨r', hr', he⟩ := List.mem_map.mp h2
  simp only [Diag.mk.injEq, true_and] at he
  obtain ⟨rfl, rfl⟩ := he
  have hs := mem_singletons.mp hs'
  obtain ⟨_, r0, hr0, hreach⟩ := closure_sound db.transDeps db.n [s'] hi
  simp at hr0
  subst hr0
  simp only [DB.requestDeps, List.mem_filter, decide_eq_true_eq] at hr'
  exact ⟨hs.1, hs.2.1, hs.2.2, i, hreach, hr'.1, hr'.2⟩

/-- the check as it was before the fix reports direct dependencies … -/
theorem singletonDepsDirect_direct (db : DB) {s r : Nat} (hs : s < db.n)
    (hl : (db.comp s).life = .singleton) (hk : (db.comp s).kind = .ctor)
    (hr : r ∈ db.deps s) (hrl : (db.comp r).life = .request) :
    ⟨.singletonDep, s, r⟩ ∈ db.singletonDepsDirect := by
  unfold DB.singletonDepsDirect
  refine List.mem_flatMap.mpr ⟨s, mem_singletons.mpr ⟨hs, hl, hk⟩, ?_⟩
  refine List.mem_map.mpr ⟨r, ?_, rfl⟩
  simp [DB.requestDeps, List.mem_filter, hr, hrl]

/-- … and only those: the witness of the finding (request-scoped `R`, transient `T(&R)`,
    singleton `S(T)`, handler `h(&S)`). -/
def witnessW1 : DB :=
  { parent := [0], tys := [defaultTy, defaultTy, defaultTy],
    comps := [⟨.ctor, 0, 0, .request, false, [], false, 0⟩,
              ⟨.ctor, 0, 1, .transient, false, [⟨0, .ref⟩], false, 1⟩,
              ⟨.ctor, 0, 2, .singleton, false, [⟨1, .val⟩], false, 2⟩,
              ⟨.handler, 0, 0, .request, false, [⟨2, .ref⟩], false, 3⟩],
    routes := [⟨3, [.lit 0], [0], false⟩], pparams := [] }

theorem singletonDepsDirect_incomplete :
    witnessW1.singletonDepsDirect = [] ∧ witnessW1.singletonDeps = [⟨.singletonDep, 2, 0⟩] ∧
    witnessW1.check = [⟨.singletonDep, 2, 0⟩] := by decide


/-! ## Rule: a singleton with constructors registered in two different (nested) blueprints -/

/-- **singleton ambiguity**: two different blueprints `s₁ ≠ s₂` (siblings, or one nested in the other —
    any two scopes) both hold a singleton constructor for type `t` ⇒ reported for `t`. -/
theorem singletonAmbiguity_complete (db : DB) {t s1 s2 c1 c2 : Nat} (ht : t < db.tys.length)
    (h1 : s1 ∈ db.scopes) (h2 : s2 ∈ db.scopes) (hne : s1 ≠ s2)
    (hc1 : db.ctorIn s1 t = some c1) (hl1 : (db.comp c1).life = .singleton)
    (hc2 : db.ctorIn s2 t = some c2) (hl2 : (db.comp c2).life = .singleton) :
    ∃ d ∈ db.singletonAmbiguity, d.a = t ∧ (d.kind = .singletonOnce ∨ d.kind = .singletonMulti) := by
  have hlen : 2 ≤ (db.singletonRegs t).length := by
    unfold DB.singletonRegs
    apply two_le_length_filterMap h1 h2 hne
    · simp [hc1, hl1]
    · simp [hc2, hl2]
  unfold DB.singletonAmbiguity
  by_cases hall : (db.singletonRegs t).all
      (fun c => (db.comp c).fn == (db.comp ((db.singletonRegs t).headD 0)).fn) = true
  · refine ⟨⟨.singletonOnce, t, (db.singletonRegs t).length⟩, ?_, rfl, Or.inl rfl⟩
    refine List.mem_filterMap.mpr ⟨t, List.mem_range.mpr ht, ?_⟩
    have : (db.singletonRegs t).length > 1 := hlen
    simp only [this, if_true, hall]
  · refine ⟨⟨.singletonMulti, t, (db.singletonRegs t).length⟩, ?_, rfl, Or.inr rfl⟩
    refine List.mem_filterMap.mpr ⟨t, List.mem_range.mpr ht, ?_⟩
    have : (db.singletonRegs t).length > 1 := hlen
    simp only [this, if_true, hall]
    simp

/-! ## Rule: a singleton needed at request time that is not `Send + Sync` -/

/-- **thread safety**: a singleton injected into a reachable component that runs at request time
    (anything but a singleton constructor) whose type is not `Send` ⇒ reported. -/
theorem notSend_complete (db : DB) {i c : Nat} (hi : db.Reachable i)
    (hrt : ¬ ((db.comp i).kind = .ctor ∧ (db.comp i).life = .singleton))
    (hc : c ∈ db.deps i) (hl : (db.comp c).life = .singleton)
    (hs : (db.ty (db.comp c).out).send = false) :
    ⟨.notSend, c, (db.comp c).out⟩ ∈ db.threadSafety := by
  unfold DB.threadSafety
  refine List.mem_flatMap.mpr ⟨c, mem_runtimeSingletons hi hrt hc hl, ?_⟩
  simp [hs]

/-- … or not `Sync`. -/
theorem notSync_complete (db : DB) {i c : Nat} (hi : db.Reachable i)
    (hrt : ¬ ((db.comp i).kind = .ctor ∧ (db.comp i).life = .singleton))
    (hc : c ∈ db.deps i) (hl : (db.comp c).life = .singleton)
    (hs : (db.ty (db.comp c).out).sync = false) :
    ⟨.notSync, c, (db.comp c).out⟩ ∈ db.threadSafety := by
  unfold DB.threadSafety
  refine List.mem_flatMap.mpr ⟨c, mem_runtimeSingletons hi hrt hc hl, ?_⟩
  simp [hs]

/-! ## Rule: a singleton taken by value without being `Copy` or clone-if-necessary -/

theorem singletonByValue_complete (db : DB) {i k c : Nat} {x : Inp} (hi : db.Reachable i)
    (hrt : ¬ ((db.comp i).kind = .ctor ∧ (db.comp i).life = .singleton))
    (hx : (db.comp i).ins[k]? = some x) (hm : x.mode = .val)
    (hc : db.lookup (db.comp i).scope x.ty = some c) (hl : (db.comp c).life = .singleton)
    (hcopy : (db.ty x.ty).copy = false) (hcl : (db.comp c).cloneIfNec = false) :
    ⟨.singletonByValue, i, k⟩ ∈ db.singletonByValue := by
  unfold DB.singletonByValue
  refine List.mem_flatMap.mpr ⟨i, mem_requestTime hi hrt, ?_⟩
  unfold DB.byValueAt
  refine List.mem_filterMap.mpr ⟨(x, k), List.mem_zipIdx_iff_getElem?.mpr hx, ?_⟩
  simp [hc, hm, hl, hcopy, hcl]

/-! ## Rule: an error observer that (transitively) needs a fallible constructor -/

/-- **observer → fallible**: the observer needs, at any depth, a request-scoped or transient
    constructor that can fail ⇒ reported for that observer. -/
theorem observerFallible_complete (db : DB) {o c : Nat} (ho : o < db.n)
    (hk : (db.comp o).kind = .observer) (hn : ObsNeeds db o c) (hne : c ≠ o)
    (hl : (db.comp c).life ≠ .singleton) (hf : (db.comp c).fallible = true) :
    ∃ c', ⟨.observerFallible, o, c'⟩ ∈ db.observerFallible := by
  have hmem : c ∈ closure (db.obsSucc o) db.n [o] :=
    closure_complete (db.obsSucc o) db.n [o] (by simp) ho hn.reach
  have hsome : ((closure (db.obsSucc o) db.n [o]).find?
      (fun c => c != o && (db.comp c).life != .singleton && (db.comp c).fallible)).isSome = true := by
    rw [List.find?_isSome]
    exact ⟨c, hmem, by simp [hne, hl, hf]⟩
  obtain ⟨c', hc'⟩ := Option.isSome_iff_exists.mp hsome
  refine ⟨c', ?_⟩
  unfold DB.observerFallible
  refine List.mem_filterMap.mpr ⟨o, ?_, by simp [hc']⟩
  simp [DB.observers, List.mem_filter, List.mem_range, ho, hk]


/-! ## Rule: two routes that can match the same request -/

/-- templates that matchit refuses to hold together (equal specificity) really do overlap. -/
theorem shapeConflict_overlap : ∀ (p q : List Seg), shapeConflict p q = true → Overlap p q := by
  intro p q h
  refine ⟨overlapWitness p q, ?_⟩
  induction p generalizing q with
  | nil =>
    cases q with
    | nil => simp [overlapWitness, matchPath]
    | cons b q => simp [shapeConflict] at h
  | cons a p ih =>
    cases q with
    | nil => cases a <;> simp [shapeConflict] at h
    | cons b q =>
      cases a <;> cases b <;> simp [shapeConflict] at h <;>
        simp [overlapWitness, matchPath, matchPath_inst]
      · obtain ⟨e, h⟩ := h
        subst e
        simpa using ih q h
      · exact ih q h

/-- **same template, common method** (same method + path; overlapping method sets; ANY vs specific;
    non-standard methods included after the fix) ⇒ a method conflict is reported. -/
theorem methodConflict_complete (db : DB) {k1 k2 m : Nat} {r1 r2 : Route} (hlt : k1 < k2)
    (h1 : db.routes[k1]? = some r1) (h2 : db.routes[k2]? = some r2) (hp : r1.path = r2.path)
    (hm1 : r1.accepts m = true) (hm2 : r2.accepts m = true) : db.methodConflicts ≠ [] := by
  have hr1 : r1 ∈ db.routes := List.mem_of_getElem? h1
  have hr2 : r2 ∈ db.routes := List.mem_of_getElem? h2
  have hg1 : r1 ∈ db.group r1.path := by simp [DB.group, List.mem_filter, hr1]
  have hg2 : r2 ∈ db.group r1.path := by simp [DB.group, List.mem_filter, hr2, hp]
  -- a method that is examined and that both accept
  have hex : ∃ m', m' ∈ (wellKnownMethods ++ (db.group r1.path).flatMap (·.methods)).eraseDups ∧
      r1.accepts m' = true ∧ r2.accepts m' = true := by
    by_cases hmM : m ∈ (wellKnownMethods ++ (db.group r1.path).flatMap (·.methods)).eraseDups
    · exact ⟨m, hmM, hm1, hm2⟩
    · rw [List.mem_eraseDups, List.mem_append, not_or] at hmM
      have hany : ∀ r, r ∈ db.group r1.path → r.accepts m = true → r.any = true := by
        intro r hr ha
        simp only [Route.accepts, Bool.or_eq_true] at ha
        rcases ha with ha | ha
        · exact ha
        · exact absurd (List.mem_flatMap.mpr ⟨r, hr, List.contains_iff_mem.mp ha⟩) hmM.2
      refine ⟨0, ?_, ?_, ?_⟩
      · rw [List.mem_eraseDups]; simp [wellKnownMethods]
      · simp [Route.accepts, hany r1 hg1 hm1]
      · simp [Route.accepts, hany r2 hg2 hm2]
  obtain ⟨m', hm'M, ha1, ha2⟩ := hex
  obtain ⟨kp, hkp⟩ := List.mem_iff_getElem?.mp (mem_paths hr1)
  have hlen : ((db.group r1.path).filter (·.accepts m')).length > 1 := by
    unfold DB.group
    rw [List.filter_filter]
    apply two_le_length_filter hlt h1 h2
    · simp [ha1]
    · simp [ha2, hp]
  intro hnil
  have hmem : (⟨.routeMethodConflict, kp, m'⟩ : Diag) ∈ db.methodConflicts := by
    unfold DB.methodConflicts
    refine List.mem_flatMap.mpr ⟨(r1.path, kp), List.mem_zipIdx_iff_getElem?.mpr hkp, ?_⟩
    refine List.mem_filterMap.mpr ⟨m', hm'M, ?_⟩
    simp only [hlen, if_true]
  rw [hnil] at hmem
  cases hmem

/-- **different templates of equal specificity** (same shape once parameter names are erased, or a
    catch-all facing a parameter/catch-all) ⇒ a path conflict is reported for the later one. -/
theorem pathConflict_complete (db : DB) {k1 k2 : Nat} {r1 r2 : Route} (hlt : k1 < k2)
    (h1 : db.routes[k1]? = some r1) (h2 : db.routes[k2]? = some r2) (hp : r1.path ≠ r2.path)
    (hs : shapeConflict r1.path r2.path = true) : ⟨.routePathConflict, k2, 0⟩ ∈ db.pathConflicts := by
  unfold DB.pathConflicts
  refine List.mem_filterMap.mpr ⟨(r2, k2), List.mem_zipIdx_iff_getElem?.mpr h2, ?_⟩
  have : (db.routes.take k2).any (fun r' => r'.path != r2.path && shapeConflict r'.path r2.path) = true := by
    rw [List.any_eq_true]
    refine ⟨r1, ?_, by simp [hp, hs]⟩
    apply List.mem_of_getElem? (i := k1)
    rw [List.getElem?_take, if_pos hlt, h1]
  simp [this]

/-- both kinds of conflict stop the compiler in the first stage. -/
theorem routeConflict_stage1 (db : DB) {k1 k2 : Nat} {r1 r2 : Route} (hlt : k1 < k2)
    (h1 : db.routes[k1]? = some r1) (h2 : db.routes[k2]? = some r2)
    (hm : ∃ m, r1.accepts m = true ∧ r2.accepts m = true)
    (hs : r1.path = r2.path ∨ shapeConflict r1.path r2.path = true) : db.stage1 ≠ [] := by
  unfold DB.stage1
  by_cases hmc : db.methodConflicts = []
  · simp only [hmc, List.isEmpty_nil, if_true]
    rcases hs with hs | hs
    · obtain ⟨m, hm1, hm2⟩ := hm
      exact absurd hmc (methodConflict_complete db hlt h1 h2 hs hm1 hm2)
    · by_cases hp : r1.path = r2.path
      · obtain ⟨m, hm1, hm2⟩ := hm
        exact absurd hmc (methodConflict_complete db hlt h1 h2 hp hm1 hm2)
      · intro hnil
        have := pathConflict_complete db hlt h1 h2 hp hs
        rw [hnil] at this
        cases this
  · have : db.methodConflicts.isEmpty = false := by
      cases h : db.methodConflicts with
      | nil => exact absurd h hmc
      | cons _ _ => rfl
    simp only [this, Bool.false_eq_true, if_false]
    exact hmc

/-- the full statement ("two routes that can match the same request are refused") for the model. -/
def routes_statement : Prop :=
  ∀ (db : DB) (k1 k2 : Nat) (r1 r2 : Route), k1 < k2 → db.routes[k1]? = some r1 → db.routes[k2]? = some r2 →
    RoutesOverlap r1 r2 → db.check ≠ []

/-- `GET /a/{x}` and `GET /a/b` (literals 0 = "a", 1 = "b") -/
def witnessW2 : DB :=
  { parent := [0], tys := [],
    comps := [⟨.handler, 0, 0, .request, false, [], false, 0⟩, ⟨.handler, 0, 0, .request, false, [], false, 1⟩],
    routes := [⟨0, [.lit 0, .param 0], [0], false⟩, ⟨1, [.lit 0, .lit 1], [0], false⟩], pparams := [] }

/-- **[finding, known]** the statement is false for the faithful model: templates of different
    specificity are accepted although the request `/a/b` matches both (matchit ranks them). -/
theorem routes_statement_false : ¬ routes_statement := by
  intro h
  have := h witnessW2 0 1 ⟨0, [.lit 0, .param 0], [0], false⟩ ⟨1, [.lit 0, .lit 1], [0], false⟩
    (by decide) (by decide) (by decide) ⟨⟨0, by decide, by decide⟩, ⟨[0, 1], by decide, by decide⟩⟩
  exact this (by decide)

/-- the part of the statement that holds: overlaps of equal specificity are refused. -/
theorem routes_partial (db : DB) {k1 k2 : Nat} {r1 r2 : Route} (hlt : k1 < k2)
    (h1 : db.routes[k1]? = some r1) (h2 : db.routes[k2]? = some r2)
    (hm : ∃ m, r1.accepts m = true ∧ r2.accepts m = true)
    (hs : r1.path = r2.path ∨ shapeConflict r1.path r2.path = true) :
    RoutesOverlap r1 r2 ∧ db.stage1 ≠ [] := by
  refine ⟨⟨hm, ?_⟩, routeConflict_stage1 db hlt h1 h2 hm hs⟩
  rcases hs with hs | hs
  · exact ⟨inst r1.path, matchPath_inst _, by rw [← hs]; exact matchPath_inst _⟩
  · exact shapeConflict_overlap _ _ hs

/-- before the fix, `QUERY /x` registered twice (method 9 = the first non-standard one) went through. -/
def witnessW3 : DB :=
  { parent := [0], tys := [],
    comps := [⟨.handler, 0, 0, .request, false, [], false, 0⟩, ⟨.handler, 0, 0, .request, false, [], false, 1⟩],
    routes := [⟨0, [.lit 0], [9], false⟩, ⟨1, [.lit 0], [9], false⟩], pparams := [] }

theorem methodConflictsStd_incomplete :
    witnessW3.methodConflictsStd = [] ∧ witnessW3.methodConflicts = [⟨.routeMethodConflict, 0, 9⟩] := by
  decide

/-- two catch-all-method routes (`allow(any_method, non_standard_methods)`) on one path and no method-specific route
    there: no guard names a method, the "named methods only" variant examines nothing and lets both through; the real
    rule reports every well-known method. -/
def witnessAnyAny : DB :=
  { parent := [0], tys := [],
    comps := [⟨.handler, 0, 0, .request, false, [], false, 0⟩, ⟨.handler, 0, 0, .request, false, [], false, 1⟩],
    routes := [⟨0, [.lit 0], [], true⟩, ⟨1, [.lit 0], [], true⟩], pparams := [] }

theorem methodConflictsNamed_incomplete :
    witnessAnyAny.methodConflictsNamed = [] ∧ witnessAnyAny.methodConflicts.length = 9 := by
  decide

/-! ## Rule: a path-parameter struct field that is not in the route template -/

/-- **path parameters** (after the fix: every `PathParams<T>` the handler needs, at any depth): a
    field of `T` that names no parameter of the route template ⇒ reported for that route. -/
theorem pathParams_complete (db : DB) {k c f : Nat} {r : Route} {pp : PathParams}
    (hr : db.routes[k]? = some r) (hh : r.comp < db.n) (hpp : pp ∈ db.pparams)
    (hc : db.Needs r.comp c) (hk : (db.comp c).kind = .ctor) (ho : (db.comp c).out = pp.ty)
    (hf : f ∈ pp.fields) (hnot : f ∉ paramNames r.path) :
    ⟨.pathParam, k, pp.ty⟩ ∈ db.pathParams := by
  unfold DB.pathParams
  refine List.mem_flatMap.mpr ⟨(r, k), List.mem_zipIdx_iff_getElem?.mpr hr, ?_⟩
  refine List.mem_filterMap.mpr ⟨pp, hpp, ?_⟩
  have hmem : c ∈ closure db.deps db.n [r.comp] :=
    closure_complete db.deps db.n [r.comp] (by simp) hh hc
  have h1 : (closure db.deps db.n [r.comp]).any
      (fun c => decide ((db.comp c).kind = .ctor) && decide ((db.comp c).out = pp.ty)) = true := by
    rw [List.any_eq_true]; exact ⟨c, hmem, by simp [hk, ho]⟩
  simp [h1]
  exact ⟨f, hf, hnot⟩

/-! ## Rejected, never compiled -/

/-- The documented rules, as violations of a component database: one constructor per rule of the
    property, each at any depth of the dependency graph (`Reachable`, `Needs`, `ThroughTransients`,
    `ObsNeeds`) and any nesting level (all lookups go through the scope tree). -/
inductive Violation (db : DB) : Prop
  /-- an injected type with no constructor in scope -/
  | missing {c k : Nat} {x : Inp} : db.Reachable c → (db.comp c).ins[k]? = some x →
      db.lookup (db.comp c).scope x.ty = none → Violation db
  /-- a dependency cycle -/
  | cycle {c : Nat} : db.Reachable c → PathS db.deps c c → Violation db
  /-- a singleton that depends on a request-scoped type, directly or through transient constructors -/
  | singletonDep {s i r : Nat} : s < db.n → (db.comp s).life = .singleton → (db.comp s).kind = .ctor →
      db.ThroughTransients s i → r ∈ db.deps i → (db.comp r).life = .request → Violation db
  /-- a singleton with constructors registered in two different blueprints -/
  | singletonTwice {t s1 s2 c1 c2 : Nat} : t < db.tys.length → s1 ∈ db.scopes → s2 ∈ db.scopes → s1 ≠ s2 →
      db.ctorIn s1 t = some c1 → (db.comp c1).life = .singleton →
      db.ctorIn s2 t = some c2 → (db.comp c2).life = .singleton → Violation db
  /-- a singleton needed at request time that is not `Send` or not `Sync` -/
  | notSendSync {i c : Nat} : db.Reachable i → ¬ ((db.comp i).kind = .ctor ∧ (db.comp i).life = .singleton) →
      c ∈ db.deps i → (db.comp c).life = .singleton →
      ((db.ty (db.comp c).out).send = false ∨ (db.ty (db.comp c).out).sync = false) → Violation db
  /-- a singleton taken by value at request time without being `Copy` or clone-if-necessary -/
  | singletonByValue {i k c : Nat} {x : Inp} : db.Reachable i →
      ¬ ((db.comp i).kind = .ctor ∧ (db.comp i).life = .singleton) →
      (db.comp i).ins[k]? = some x → x.mode = .val → db.lookup (db.comp i).scope x.ty = some c →
      (db.comp c).life = .singleton → (db.ty x.ty).copy = false → (db.comp c).cloneIfNec = false → Violation db
  /-- `&mut` injection of a singleton, a transient, or a clone-if-necessary request-scoped value -/
  | mutInjection {c k j : Nat} {x : Inp} : db.Reachable c → (db.comp c).ins[k]? = some x → x.mode = .mut →
      db.lookup (db.comp c).scope x.ty = some j →
      ((db.comp j).life = .singleton ∨ (db.comp j).life = .transient ∨
        ((db.comp j).life = .request ∧ (db.comp j).cloneIfNec = true)) → Violation db
  /-- any `&mut` input on a constructor -/
  | mutOnConstructor {c k : Nat} {x : Inp} : c < db.n → (db.comp c).kind = .ctor →
      (db.comp c).ins[k]? = some x → x.mode = .mut → Violation db
  /-- clone-if-necessary on a type that is not `Clone` -/
  | cloneNotClone {c : Nat} : c < db.n → (db.comp c).kind = .ctor → (db.comp c).cloneIfNec = true →
      (db.ty (db.comp c).out).clone = false → Violation db
  /-- an error observer that (transitively) needs a fallible constructor -/
  | observerFallible {o c : Nat} : o < db.n → (db.comp o).kind = .observer → ObsNeeds db o c → c ≠ o →
      (db.comp c).life ≠ .singleton → (db.comp c).fallible = true → Violation db
  /-- two routes that can match the same request, with templates of equal specificity
      (the remaining case is the known finding, `routes_statement_false`) -/
  | routes {k1 k2 : Nat} {r1 r2 : Route} : k1 < k2 → db.routes[k1]? = some r1 → db.routes[k2]? = some r2 →
      (∃ m, r1.accepts m = true ∧ r2.accepts m = true) →
      (r1.path = r2.path ∨ shapeConflict r1.path r2.path = true) → Violation db
  /-- a path-parameter struct field that is not in the route template -/
  | pathParam {k c f : Nat} {r : Route} {pp : PathParams} : db.routes[k]? = some r → r.comp < db.n →
      pp ∈ db.pparams → db.Needs r.comp c → (db.comp c).kind = .ctor → (db.comp c).out = pp.ty →
      f ∈ pp.fields → f ∉ paramNames r.path → Violation db

/-- **soundness of detection, all rules**: a violated rule makes `App::build` report an error. -/
theorem violation_detected (db : DB) (h : Violation db) : db.check ≠ [] := by
  apply check_ne_nil_of_stage
  cases h with
  | missing hr hx hn =>
    right; right; left
    exact stage3_of_mem (Or.inl (missing_complete db hr hx hn))
  | cycle hr hc =>
    right; right; right
    have := cycles_complete db hr hc
    intro e; simp [DB.stage4] at e; exact this e.1
  | singletonDep hs hl hk hch hr hrl =>
    right; right; left
    exact stage3_of_mem (Or.inr (Or.inr (Or.inl (singletonDeps_complete db hs hl hk hch hr hrl))))
  | singletonTwice ht h1 h2 hne hc1 hl1 hc2 hl2 =>
    right; right; left
    obtain ⟨d, hd, _⟩ := singletonAmbiguity_complete db ht h1 h2 hne hc1 hl1 hc2 hl2
    exact stage3_of_mem (Or.inr (Or.inl hd))
  | notSendSync hi hrt hc hl hs =>
    right; right; right
    rcases hs with hs | hs
    · exact stage4_of_mem (Or.inr (Or.inr (Or.inl (notSend_complete db hi hrt hc hl hs))))
    · exact stage4_of_mem (Or.inr (Or.inr (Or.inl (notSync_complete db hi hrt hc hl hs))))
  | singletonByValue hi hrt hx hm hc hl hcopy hcl =>
    right; right; right
    exact stage4_of_mem (Or.inr (Or.inr (Or.inr (singletonByValue_complete db hi hrt hx hm hc hl hcopy hcl))))
  | mutInjection hr hx hm hj hl =>
    right; right; left
    rcases hl with hl | hl | ⟨hl, hc⟩
    · exact stage3_of_mem (Or.inl (mutSingleton_complete db hr hx hm hj hl))
    · exact stage3_of_mem (Or.inl (mutTransient_complete db hr hx hm hj hl))
    · exact stage3_of_mem (Or.inl (mutCloneable_complete db hr hx hm hj hl hc))
  | mutOnConstructor hc hk hx hm =>
    right; left
    obtain ⟨k', hk'⟩ := mutInput_complete db hc (by simp [hk, Kind.noMutInputs]) hx hm
    exact ne_nil_of_mem (a := ⟨.mutInput, _, k'⟩) (by simpa [DB.stage2] using hk')
  | cloneNotClone hc hk hcl hty =>
    right; right; left
    exact stage3_of_mem (Or.inr (Or.inr (Or.inr (Or.inr (cloneNotClone_complete db hc hk hcl hty)))))
  | observerFallible ho hk hn hne hl hf =>
    right; right; left
    obtain ⟨c', hc'⟩ := observerFallible_complete db ho hk hn hne hl hf
    exact stage3_of_mem (Or.inr (Or.inr (Or.inr (Or.inl hc'))))
  | routes hlt h1 h2 hm hs =>
    left; exact routeConflict_stage1 db hlt h1 h2 hm hs
  | pathParam hr hh hpp hc hk ho hf hnot =>
    right; right; right
    exact stage4_of_mem (Or.inr (Or.inl (pathParams_complete db hr hh hpp hc hk ho hf hnot)))

/-- **C08**: a blueprint that violates a documented rule is refused with at least one error report
    and nothing is written — no SDK, no manifest, in update and in check mode (`b` is what the
    compiler computed for the blueprint: its error count is the number of diagnostics of `check`). -/
theorem c08_rejected_never_compiled (db : DB) (h : Violation db) (b : Gen.Build) (m : Gen.Mode)
    (fs : Gen.FS) (hb : b.errors = db.check.length) :
    (Gen.generate b m fs).exit = 1 ∧ (Gen.generate b m fs).reports ≥ 1 ∧
    (Gen.generate b m fs).fs = fs ∧ (Gen.generate b m fs).writes = 0 := by
  have hpos : b.errors > 0 := by
    rw [hb]; exact List.length_pos_iff.mpr (violation_detected db h)
  obtain ⟨h1, h2, h3, h4⟩ := Gen.reject_atomic b m fs hpos
  exact ⟨h2, by omega, h1, h4⟩

/-! ## The same rules when inputs are resolved from the route's blueprint (what `build_call_graph` does) -/

/-- whatever is wrong from the point of view of a call graph's root is reported -/
def scope_statement_dynamic : Prop := ∀ db : DB, db.dynamicCheck ≠ [] → db.check ≠ []

/-- root: `c0(&T1) -> T0`, `c1() -> T1`; nested blueprint: `c1b(&T2) -> T1` (no constructor for `T2`),
    route `h(&T0)`. -/
def witnessW5 : DB :=
  { parent := [0, 0], tys := [defaultTy, defaultTy, defaultTy],
    comps := [⟨.ctor, 0, 0, .request, false, [⟨1, .ref⟩], false, 0⟩,
              ⟨.ctor, 0, 1, .request, false, [], false, 1⟩,
              ⟨.ctor, 1, 1, .request, false, [⟨2, .ref⟩], false, 2⟩,
              ⟨.handler, 1, 0, .request, false, [⟨0, .ref⟩], false, 3⟩],
    routes := [⟨3, [.lit 0], [0], false⟩], pparams := [] }

/-- the same with `c1b(&T0) -> T1`: a cycle `T0 → T1 → T0` in the route's call graph only. -/
def witnessW6 : DB :=
  { witnessW5 with comps := [⟨.ctor, 0, 0, .request, false, [⟨1, .ref⟩], false, 0⟩,
              ⟨.ctor, 0, 1, .request, false, [], false, 1⟩,
              ⟨.ctor, 1, 1, .request, false, [⟨0, .ref⟩], false, 2⟩,
              ⟨.handler, 1, 0, .request, false, [⟨0, .ref⟩], false, 3⟩] }

/-- **[finding, known]** the analyses resolve the inputs of a component from the component's
    blueprint, `build_call_graph` from the route's: a missing constructor / a cycle that exists only
    for the latter is not reported. -/
theorem scope_statement_dynamic_false : ¬ scope_statement_dynamic := by
  intro h
  exact h witnessW5 (by decide) (by decide)

theorem missing_statement_dynamic_false :
    witnessW5.check = [] ∧ witnessW5.dynamicCheck = [⟨.missing, 2, 0⟩] := by decide

theorem cycle_statement_dynamic_false :
    witnessW6.check = [] ∧ witnessW6.dynamicCheck = [⟨.cycle, 0, 2⟩] := by decide


/-! ## Non-vacuity: every hypothesis set above is satisfiable on a concrete, non-trivial database -/

/-- scopes: 0 root, 1 nested in 0, 2 nested in 1, 3 nested in 0 (a sibling of 1).
    handler 4 (scope 2) → `c2` (scope 1) → transient `c1` (scope 1) → `c0` (root); `c2` also wants type 5,
    whose only constructor `c3` is registered against the sibling blueprint 3. -/
def exMissing : DB :=
  { parent := [0, 0, 1, 0], tys := List.replicate 6 defaultTy,
    comps := [⟨.ctor, 0, 0, .request, false, [], false, 0⟩,
              ⟨.ctor, 1, 1, .transient, false, [⟨0, .ref⟩], false, 1⟩,
              ⟨.ctor, 1, 2, .request, false, [⟨1, .val⟩, ⟨5, .ref⟩], false, 2⟩,
              ⟨.ctor, 3, 5, .request, false, [], false, 3⟩,
              ⟨.handler, 2, 0, .request, false, [⟨2, .ref⟩], false, 4⟩],
    routes := [⟨4, [.lit 0], [0], false⟩], pparams := [] }

example : exMissing.WFScopes := by
  intro s hs
  unfold DB.parentOf exMissing
  match s, hs with
  | 1, _ => decide
  | 2, _ => decide
  | 3, _ => decide
  | n + 4, _ => simp [List.getD]
example : exMissing.anc 2 = [2, 1, 0] ∧ exMissing.lookup 2 0 = some 0 ∧ exMissing.lookup 2 5 = none ∧
    exMissing.lookup 3 5 = some 3 := by decide
example : exMissing.Reachable 2 := ⟨4, by decide, by decide, (DB.Needs.refl _ _).step (by decide)⟩
example : ⟨.missing, 2, 1⟩ ∈ exMissing.detectMissing :=
  missing_complete exMissing ⟨4, by decide, by decide, (DB.Needs.refl _ _).step (by decide)⟩
    (x := ⟨5, .ref⟩) (by decide) (by decide)
example : Violation exMissing :=
  .missing (c := 2) (k := 1) (x := ⟨5, .ref⟩)
    ⟨4, by decide, by decide, (DB.Needs.refl _ _).step (by decide)⟩ (by decide) (by decide)
example : exMissing.check = [⟨.missing, 2, 1⟩] := by decide

/-- handler 4 (scope 1) → `c0` → ring `c1 → c2 → c3 → c1` of length 3 registered at the root. -/
def exCycle : DB :=
  { parent := [0, 0], tys := List.replicate 4 defaultTy,
    comps := [⟨.ctor, 1, 0, .request, false, [⟨1, .ref⟩], false, 0⟩,
              ⟨.ctor, 0, 1, .transient, false, [⟨2, .ref⟩], false, 1⟩,
              ⟨.ctor, 0, 2, .request, false, [⟨3, .ref⟩], false, 2⟩,
              ⟨.ctor, 0, 3, .request, false, [⟨1, .ref⟩], false, 3⟩,
              ⟨.handler, 1, 0, .request, false, [⟨0, .ref⟩], false, 4⟩],
    routes := [⟨4, [.lit 0], [0], false⟩], pparams := [] }

example : Violation exCycle :=
  .cycle (c := 2)
    ⟨4, by decide, by decide, (((DB.Needs.refl _ _).step (k := 0) (by decide)).step (k := 1) (by decide)).step (k := 2) (by decide)⟩
    (.cons (b := 3) (by decide) (.cons (b := 1) (by decide) (.single (by decide))))
example : exCycle.check = [⟨.cycle, 1, 3⟩] := by decide
example : HasCycle [[1], [2], [0], []] := ⟨0, .cons (b := 1) (by decide) (.cons (b := 2) (by decide) (.single (by decide)))⟩
example : findCycles [[1], [2], [0, 2], []] = [[0, 1, 2], [2]] := by decide

/-- the finding's witness satisfies the hypotheses of `singletonDeps_complete` (chain of length 1). -/
example : Violation witnessW1 :=
  .singletonDep (s := 2) (i := 1) (r := 0) (by decide) (by decide) (by decide)
    ((ReachN.refl 2).step (c := 1) (by decide) (by decide)) (by decide) (by decide)

/-- singleton type 0 registered (same constructor, `fn` 7) against the sibling blueprints 1 and 2;
    `&mut` of the singleton in handler 3; non-`Send` singleton type 1 taken by value by handler 3;
    clone-if-necessary on the non-`Clone` type 2 whose constructor also takes `&mut`;
    observer 6 → transient `c7` → fallible request-scoped `c8`. -/
def exMany : DB :=
  { parent := [0, 0, 0],
    tys := [defaultTy, ⟨false, false, false, true⟩, defaultTy, defaultTy, defaultTy],
    comps := [⟨.ctor, 1, 0, .singleton, false, [], false, 7⟩,
              ⟨.ctor, 2, 0, .singleton, false, [], false, 7⟩,
              ⟨.ctor, 0, 1, .singleton, false, [], false, 1⟩,
              ⟨.handler, 1, 0, .request, false, [⟨0, .mut⟩, ⟨1, .val⟩], false, 2⟩,
              ⟨.ctor, 0, 2, .request, true, [⟨1, .mut⟩], false, 3⟩,
              ⟨.handler, 2, 0, .request, false, [⟨2, .ref⟩], false, 4⟩,
              ⟨.observer, 0, 0, .request, false, [⟨3, .ref⟩], false, 5⟩,
              ⟨.ctor, 0, 3, .transient, false, [⟨4, .ref⟩], false, 6⟩,
              ⟨.ctor, 0, 4, .request, false, [], true, 8⟩],
    routes := [⟨3, [.lit 0, .param 1], [0, 1], false⟩, ⟨5, [.lit 0, .param 2], [], true⟩],
    pparams := [] }

example : Violation exMany :=
  .singletonTwice (t := 0) (s1 := 1) (s2 := 2) (c1 := 0) (c2 := 1) (by decide) (by decide) (by decide)
    (by decide) (by decide) (by decide) (by decide) (by decide)
example : Violation exMany :=
  .mutInjection (c := 3) (k := 0) (j := 0) (x := ⟨0, .mut⟩) ⟨3, by decide, by decide, DB.Needs.refl _ _⟩
    (by decide) (by decide) (by decide) (Or.inl (by decide))
example : Violation exMany :=
  .notSendSync (i := 3) (c := 2) ⟨3, by decide, by decide, DB.Needs.refl _ _⟩ (by decide) (by decide)
    (by decide) (Or.inl (by decide))
example : Violation exMany :=
  .singletonByValue (i := 3) (k := 1) (c := 2) (x := ⟨1, .val⟩) ⟨3, by decide, by decide, DB.Needs.refl _ _⟩
    (by decide) (by decide) (by decide) (by decide) (by decide) (by decide) (by decide)
example : Violation exMany :=
  .mutOnConstructor (c := 4) (k := 0) (x := ⟨1, .mut⟩) (by decide) (by decide) (by decide) (by decide)
example : Violation exMany := .cloneNotClone (c := 4) (by decide) (by decide) (by decide) (by decide)
example : Violation exMany :=
  .observerFallible (o := 6) (c := 8) (by decide) (by decide)
    (.through (i := 7) (.direct (by decide)) (by decide) (by decide) (by decide)) (by decide) (by decide) (by decide)
/-- `GET|POST /a/{x}` next to `ANY /a/{y}` (non-standard methods included): same shape, different names. -/
example : Violation exMany :=
  .routes (k1 := 0) (k2 := 1) (r1 := ⟨3, [.lit 0, .param 1], [0, 1], false⟩) (r2 := ⟨5, [.lit 0, .param 2], [], true⟩)
    (by decide) (by decide) (by decide) ⟨0, by decide, by decide⟩ (Or.inr (by decide))
example : exMany.stage1 = [⟨.routePathConflict, 1, 0⟩] ∧
    exMany.stage2 = [⟨.mutInput, 4, 0⟩] ∧
    exMany.stage3 = [⟨.mutSingleton, 3, 0⟩, ⟨.mutSingleton, 4, 0⟩, ⟨.singletonOnce, 0, 2⟩,
      ⟨.observerFallible, 6, 8⟩, ⟨.cloneNotClone, 4, 2⟩] ∧
    exMany.stage4 = [⟨.notSend, 2, 1⟩, ⟨.singletonByValue, 3, 1⟩] := by decide

/-- route 0: `/a/{x}` handled by `h1(&PathParams<P>)`... through constructor `c0(&PathParams<P>)`;
    `P` has the fields `x` (1) and `zz` (7). Type 1 is `PathParams<P>`, built by the framework's `c2`. -/
def exPathParams : DB :=
  { parent := [0], tys := List.replicate 2 defaultTy,
    comps := [⟨.ctor, 0, 0, .request, false, [⟨1, .ref⟩], false, 0⟩,
              ⟨.handler, 0, 0, .request, false, [⟨0, .ref⟩], false, 1⟩,
              ⟨.ctor, 0, 1, .request, false, [], true, 2⟩],
    routes := [⟨1, [.lit 0, .param 1], [0], false⟩], pparams := [⟨1, [1, 7]⟩] }

example : Violation exPathParams :=
  .pathParam (k := 0) (c := 2) (f := 7) (r := ⟨1, [.lit 0, .param 1], [0], false⟩) (pp := ⟨1, [1, 7]⟩)
    (by decide) (by decide) (by decide)
    (((DB.Needs.refl _ 1).step (k := 0) (by decide)).step (k := 2) (by decide)) (by decide) (by decide)
    (by decide) (by decide)
example : exPathParams.check = [⟨.pathParam, 0, 1⟩] := by decide

/-- `c08_rejected_never_compiled` on a concrete build and file system (Thm/C09's `exBuild`/`exFS`). -/
example : (Gen.generate (Gen.exBuild 1) .update Gen.exFS).exit = 1 ∧
    (Gen.generate (Gen.exBuild 1) .update Gen.exFS).fs = Gen.exFS :=
  let h := c08_rejected_never_compiled exPathParams
    (.pathParam (k := 0) (c := 2) (f := 7) (r := ⟨1, [.lit 0, .param 1], [0], false⟩) (pp := ⟨1, [1, 7]⟩)
      (by decide) (by decide) (by decide)
      (((DB.Needs.refl _ 1).step (k := 0) (by decide)).step (k := 2) (by decide)) (by decide) (by decide)
      (by decide) (by decide))
    (Gen.exBuild 1) .update Gen.exFS (by decide)
  ⟨h.1, h.2.2.1⟩

end Pxv.Rules

/-! ### the graph the cycle search runs on (`DependencyGraph::build`) -/
namespace Pxv.Dep

/-- **C08 (cycles), the graph is complete**: when the loop of `DependencyGraph::build` (mirrored by `build`: worklist with
    `IndexSet::pop`, error-handler phase, transformer phase, exit when nothing is left to visit AND the last transformer phase
    added no node) ends by itself, the graph it returns is closed: every compute node has its error handler and its
    transformers (the `Ok` / `Err` matchers) in the graph, and every explored node the constructors of its inputs — for every
    component database, root and set of error observers. A dependency cycle that is only reachable through the inputs of an
    error handler is therefore IN the graph `find_cycles` examines (cycles_complete does the rest). -/
theorem build_closed (db : DB) (fuel root : Nat) (observers : List Nat) (h : (build db fuel root observers).2 = true) :
    Closed db (build db fuel root observers).1 :=
  loopWith_spec fuel _ ⟨(fun c hc => by cases hc), (fun c hc => by cases hc), (fun c hc => by cases hc)⟩ h

/-- ... and the root is one of its nodes: the closure is the closure OF the component whose call graph is about to be built. -/
theorem build_contains_root (db : DB) (fuel root : Nat) (observers : List Nat) (h : (build db fuel root observers).2 = true) :
    root ∈ (build db fuel root observers).1.nodes :=
  build_root db fuel root observers h

/-- **no spurious dependency edges** (so no cycle is reported that the blueprint does not have: C02's side of the cycle rule):
    every edge of the graph `build` returns is justified by the database — a constructor feeding a component that needs its
    output, a component and its error handler, a component and one of its transformers. -/
theorem build_reports_only_real_dependencies (db : DB) (fuel root : Nat) (observers : List Nat) :
    ∀ e ∈ (build db fuel root observers).1.edges, Just db e :=
  build_edges_justified db fuel root observers

/-- the shape of the seeded change C09-5: handler 0 needs `A`, whose constructor is the `Ok` matcher 2 of the fallible
    callable 1; the `Err` matcher 3 has the error handler 4, which needs `C` (5); 5 needs `D` (6) and 6 needs `C`: a cycle
    behind the error handler -/
def exErrCycle : DB := { deps := [(0, [2]), (2, [1]), (4, [5]), (5, [6]), (6, [5])], eh := [(3, 4)], tr := [(1, [2, 3])] }

-- the real loop reaches the cycle 5 ⇄ 6 ...
example : (build exErrCycle 50 0 []).2 = true ∧ (build exErrCycle 50 0 []).1.nodes = [0, 2, 1, 3, 4, 5, 6] ∧
    (5, 6) ∈ (build exErrCycle 50 0 []).1.edges ∧ (6, 5) ∈ (build exErrCycle 50 0 []).1.edges := by decide
-- ... the variant that stops as soon as nothing is left to visit ends right after the matchers were added: the error handler of
-- the `Err` matcher is never looked up, the graph is not closed and the cycle is not in it
example : (buildEarly exErrCycle 50 0 []).2 = true ∧ (buildEarly exErrCycle 50 0 []).1.nodes = [0, 2, 1, 3] ∧
    exErrCycle.ehOf 3 = some 4 ∧ 4 ∉ (buildEarly exErrCycle 50 0 []).1.nodes := by decide

end Pxv.Dep

