import Pxv.Model.Rules
import Pxv.Model.Generate
import Pxv.Thm.C09
/-!
C08 — blueprints that break a documented rule are rejected, never compiled.
(first instalment: the gate structure; the per-rule completeness theorems follow)
-/
namespace Pxv.Rules

/-- the pass sequence reports something as soon as one of its stages does. -/
theorem check_ne_nil_of_stage (db : DB)
    (h : db.stage1 ≠ [] ∨ db.stage2 ≠ [] ∨ db.stage3 ≠ [] ∨ db.stage4 ≠ []) : db.check ≠ [] := by
  unfold DB.check
  by_cases h1 : db.stage1 = []
  · by_cases h2 : db.stage2 = []
    · by_cases h3 : db.stage3 = []
      · have h4 : db.stage4 ≠ [] := by
          rcases h with h | h | h | h
          · exact absurd h1 h
          · exact absurd h2 h
          · exact absurd h3 h
          · exact h
        simp [h1, h2, h3, h4]
      · simp [h1, h2, h3]
    · simp [h1, h2]
  · simp [h1]

end Pxv.Rules
