import Pxv.Model.Rules
import Pxv.Lemmas.Rules
import Pxv.Model.Generate
import Pxv.Thm.C09
/-!
C08 — blueprints that break a documented rule are rejected, never compiled.

Per rule: a declarative statement of the violation (`…Violation`, any depth of the dependency graph,
any nesting level: the offending component only has to be *reachable* from a handler, a middleware
or an error observer through injected constructors, each found by the scope lookup) and the theorem
that the decision procedure mirroring pavexc's check reports it. Then: `check` (the pass sequence of
`App::build`) is non-empty, and a non-empty `check` writes nothing (Thm/C09 `reject_atomic`).

Where the real compiler breaks the property the full statement is kept and refuted on a concrete
witness (`…_statement_false`, `…_incomplete`): see known_findings.json.
-/
namespace Pxv.Rules

/-! ## Scope lookup: nearest enclosing registration, siblings invisible -/

theorem lookupAux_eq (db : DB) (t : Nat) : ∀ (fuel s : Nat),
    db.lookupAux t fuel s = (db.ancAux fuel s).findSome? (fun a => db.ctorIn a t) := by
  intro fuel
  induction fuel with
  | zero => intro s; simp [DB.lookupAux, DB.ancAux]
  | succ fuel ih =>
    intro s
    simp only [DB.lookupAux, DB.ancAux, List.findSome?_cons]
    cases h : db.ctorIn s t with
    | some c => simp
    | none =>
      by_cases hs : s = 0
      · simp [hs]
      · simp [hs, ih]

/-- **nearest enclosing scope**: the lookup walks the visible scopes (`anc`: the scope itself, its
    parent, …, the root — nearest first) and answers with the first registration it meets. -/
theorem lookup_eq_findSome (db : DB) (s t : Nat) :
    db.lookup s t = (db.anc s).findSome? (fun a => db.ctorIn a t) := lookupAux_eq db t (s + 1) s

theorem ctorIn_some {db : DB} {s t c : Nat} (h : db.ctorIn s t = some c) :
    c < db.n ∧ (db.comp c).kind = .ctor ∧ (db.comp c).scope = s ∧ (db.comp c).out = t := by
  unfold DB.ctorIn at h
  have h1 := List.find?_some h
  have h2 := List.mem_of_find?_eq_some h
  simp only [DB.isCtorFor, Bool.and_eq_true, beq_iff_eq] at h1
  exact ⟨List.mem_range.mp (List.mem_reverse.mp h2), h1.1.1, h1.1.2, h1.2⟩

theorem ctorIn_ne_none {db : DB} {s t c : Nat} (hc : c < db.n) (h1 : (db.comp c).kind = .ctor)
    (h2 : (db.comp c).scope = s) (h3 : (db.comp c).out = t) : db.ctorIn s t ≠ none := by
  unfold DB.ctorIn
  intro h
  rw [List.find?_eq_none] at h
  have := h c (List.mem_reverse.mpr (List.mem_range.mpr hc))
  simp [DB.isCtorFor, h1, h2, h3] at this

/-- **siblings are invisible**: whatever the lookup finds is a constructor of the requested type
    registered against the scope itself or one of its ancestors. -/
theorem lookup_some {db : DB} {s t c : Nat} (h : db.lookup s t = some c) :
    c < db.n ∧ (db.comp c).kind = .ctor ∧ (db.comp c).out = t ∧ (db.comp c).scope ∈ db.anc s := by
  rw [lookup_eq_findSome, List.findSome?_eq_some_iff] at h
  obtain ⟨l1, a, l2, hl, ha, _⟩ := h
  have := ctorIn_some ha
  refine ⟨this.1, this.2.1, this.2.2.2, ?_⟩
  rw [this.2.2.1, hl]
  simp

/-- nothing found ⇔ no visible scope has a registration for the type. -/
theorem lookup_none_iff (db : DB) (s t : Nat) :
    db.lookup s t = none ↔ ∀ a ∈ db.anc s, db.ctorIn a t = none := by
  rw [lookup_eq_findSome, List.findSome?_eq_none_iff]

/-- a registration in a nearer scope wins over one further up. -/
theorem lookup_nearest {db : DB} {s t c : Nat} (h : db.lookup s t = some c) :
    ∃ l1 l2, db.anc s = l1 ++ (db.comp c).scope :: l2 ∧ ∀ a ∈ l1, db.ctorIn a t = none := by
  rw [lookup_eq_findSome, List.findSome?_eq_some_iff] at h
  obtain ⟨l1, a, l2, hl, ha, hnone⟩ := h
  exact ⟨l1, l2, by rw [(ctorIn_some ha).2.2.1]; exact hl, hnone⟩

/-- the ancestors of a scope in a well-formed scope tree. -/
inductive Anc (db : DB) : Nat → Nat → Prop
  | refl (s : Nat) : Anc db s s
  | up {a s : Nat} : s ≠ 0 → Anc db a (db.parentOf s) → Anc db a s

/-- scope ids are assigned in registration order: a parent has a smaller id than its children. -/
def DB.WFScopes (db : DB) : Prop := ∀ s, s ≠ 0 → db.parentOf s < s

theorem ancAux_spec (db : DB) (hwf : db.WFScopes) : ∀ (fuel s a : Nat), s < fuel →
    (a ∈ db.ancAux fuel s ↔ Anc db a s) := by
  intro fuel
  induction fuel with
  | zero => intro s a h; omega
  | succ fuel ih =>
    intro s a hs
    simp only [DB.ancAux, List.mem_cons]
    by_cases h0 : s = 0
    · subst h0
      simp only [if_true, List.not_mem_nil, or_false]
      constructor
      · intro e; subst e; exact .refl _
      · intro h; cases h with
        | refl => rfl
        | up hne _ => exact absurd rfl hne
    · simp only [h0, if_false]
      have hp := hwf s h0
      constructor
      · rintro (e | h)
        · subst e; exact .refl _
        · exact .up h0 ((ih _ a (by omega)).mp h)
      · intro h; cases h with
        | refl => left; rfl
        | up _ h => right; exact (ih _ a (by omega)).mpr h

/-- in a well-formed scope tree `anc` is exactly the chain of enclosing blueprints. -/
theorem anc_spec (db : DB) (hwf : db.WFScopes) (s a : Nat) : a ∈ db.anc s ↔ Anc db a s :=
  ancAux_spec db hwf (s + 1) s a (Nat.lt_succ_self s)


/-! ## Reachability: "at any depth of the dependency graph" -/

theorem deps_lt {db : DB} {s i j : Nat} (h : j ∈ db.depsFrom s i) : j < db.n := by
  unfold DB.depsFrom at h
  obtain ⟨x, _, hx⟩ := List.mem_filterMap.mp h
  exact (lookup_some hx).1

/-- `j` is the constructor injected for one of the inputs of `i`. -/
theorem mem_deps_iff {db : DB} {i j : Nat} :
    j ∈ db.deps i ↔ ∃ x ∈ (db.comp i).ins, db.lookup (db.comp i).scope x.ty = some j := by
  unfold DB.deps DB.depsFrom
  exact List.mem_filterMap

/-- component `i` needs `j`, directly or through any number of injected constructors. -/
def DB.Needs (db : DB) (i j : Nat) : Prop := ReachN db.deps db.n i j

theorem DB.Needs.refl (db : DB) (i : Nat) : db.Needs i i := ReachN.refl i
theorem DB.Needs.step {db : DB} {i j k : Nat} (h : db.Needs i j) (hk : k ∈ db.deps j) : db.Needs i k :=
  ReachN.step h hk (deps_lt hk)

/-- a component that the compiler has to build code for: a handler, a middleware, an error
    observer, or a constructor one of them needs (at any depth). -/
def DB.Reachable (db : DB) (c : Nat) : Prop :=
  ∃ r, r < db.n ∧ (db.comp r).kind.isRoot = true ∧ db.Needs r c

theorem mem_roots {db : DB} {r : Nat} : r ∈ db.roots ↔ r < db.n ∧ (db.comp r).kind.isRoot = true := by
  simp [DB.roots, List.mem_filter, List.mem_range]

/-- **the worklist of `detect_missing_constructors` reaches every such component.** -/
theorem reach_complete {db : DB} {c : Nat} (h : db.Reachable c) : c ∈ db.reach := by
  obtain ⟨r, hr, hk, hn⟩ := h
  exact closure_complete db.deps db.n db.roots (mem_roots.mpr ⟨hr, hk⟩) hr hn

theorem reach_closed {db : DB} {i j : Nat} (hi : i ∈ db.reach) (hj : j ∈ db.deps i) : j ∈ db.reach :=
  (closure_closed db.deps db.n db.roots).2 i hi j hj (deps_lt hj)

/-! ## Rule: an injected type with no constructor in scope -/

/-- **missing constructor**: input `k` of a reachable component `c` has a type for which no visible
    scope (the component's blueprint or an enclosing one) holds a constructor ⇒ reported. -/
theorem missing_complete (db : DB) {c k : Nat} {x : Inp} (hr : db.Reachable c)
    (hx : (db.comp c).ins[k]? = some x) (hnone : db.lookup (db.comp c).scope x.ty = none) :
    ⟨.missing, c, k⟩ ∈ db.detectMissing := by
  unfold DB.detectMissing
  refine List.mem_flatMap.mpr ⟨c, reach_complete hr, ?_⟩
  unfold DB.missingAt
  refine List.mem_filterMap.mpr ⟨(x, k), List.mem_zipIdx_iff_getElem?.mpr hx, ?_⟩
  simp [hnone]

/-- the same, spelled out with the scope tree: no constructor for the type in any visible scope. -/
theorem missing_complete' (db : DB) {c k : Nat} {x : Inp} (hr : db.Reachable c)
    (hx : (db.comp c).ins[k]? = some x)
    (hnone : ∀ a ∈ db.anc (db.comp c).scope, ∀ j, j < db.n → (db.comp j).kind = .ctor →
      (db.comp j).out = x.ty → (db.comp j).scope ≠ a) :
    ⟨.missing, c, k⟩ ∈ db.detectMissing := by
  apply missing_complete db hr hx
  rw [lookup_none_iff]
  intro a ha
  cases h : db.ctorIn a x.ty with
  | none => rfl
  | some j =>
    have := ctorIn_some h
    exact absurd this.2.2.1 (hnone a ha j this.1 this.2.1 this.2.2.2)

/-! ## Rules: `&mut` injection of a singleton / a transient / a clone-if-necessary request-scoped value -/

theorem mutSingleton_complete (db : DB) {c k j : Nat} {x : Inp} (hr : db.Reachable c)
    (hx : (db.comp c).ins[k]? = some x) (hm : x.mode = .mut)
    (hj : db.lookup (db.comp c).scope x.ty = some j) (hl : (db.comp j).life = .singleton) :
    ⟨.mutSingleton, c, k⟩ ∈ db.detectMissing := by
  unfold DB.detectMissing
  refine List.mem_flatMap.mpr ⟨c, reach_complete hr, ?_⟩
  unfold DB.missingAt
  refine List.mem_filterMap.mpr ⟨(x, k), List.mem_zipIdx_iff_getElem?.mpr hx, ?_⟩
  simp [hj, hm, hl]

theorem mutTransient_complete (db : DB) {c k j : Nat} {x : Inp} (hr : db.Reachable c)
    (hx : (db.comp c).ins[k]? = some x) (hm : x.mode = .mut)
    (hj : db.lookup (db.comp c).scope x.ty = some j) (hl : (db.comp j).life = .transient) :
    ⟨.mutTransient, c, k⟩ ∈ db.detectMissing := by
  unfold DB.detectMissing
  refine List.mem_flatMap.mpr ⟨c, reach_complete hr, ?_⟩
  unfold DB.missingAt
  refine List.mem_filterMap.mpr ⟨(x, k), List.mem_zipIdx_iff_getElem?.mpr hx, ?_⟩
  simp [hj, hm, hl]

theorem mutCloneable_complete (db : DB) {c k j : Nat} {x : Inp} (hr : db.Reachable c)
    (hx : (db.comp c).ins[k]? = some x) (hm : x.mode = .mut)
    (hj : db.lookup (db.comp c).scope x.ty = some j) (hl : (db.comp j).life = .request)
    (hc : (db.comp j).cloneIfNec = true) :
    ⟨.mutCloneable, c, k⟩ ∈ db.detectMissing := by
  unfold DB.detectMissing
  refine List.mem_flatMap.mpr ⟨c, reach_complete hr, ?_⟩
  unfold DB.missingAt
  refine List.mem_filterMap.mpr ⟨(x, k), List.mem_zipIdx_iff_getElem?.mpr hx, ?_⟩
  simp [hj, hm, hl, hc]

/-! ## Rule: any `&mut` input on a constructor (and on a wrapping middleware / an error observer) -/

theorem mutInput_complete (db : DB) {c k : Nat} {x : Inp} (hc : c < db.n)
    (hk : (db.comp c).kind.noMutInputs = true) (hx : (db.comp c).ins[k]? = some x) (hm : x.mode = .mut) :
    ∃ k', ⟨.mutInput, c, k'⟩ ∈ db.mutInputs := by
  unfold DB.mutInputs
  have hsome : ((db.comp c).ins.zipIdx.find? (fun (x, _) => x.mode == .mut)).isSome = true := by
    rw [List.find?_isSome]
    exact ⟨(x, k), List.mem_zipIdx_iff_getElem?.mpr hx, by simp [hm]⟩
  obtain ⟨⟨y, k'⟩, hy⟩ := Option.isSome_iff_exists.mp hsome
  refine ⟨k', List.mem_filterMap.mpr ⟨c, List.mem_range.mpr hc, ?_⟩⟩
  simp [hk, hy]

/-! ## Rule: clone-if-necessary on a type that is not `Clone` -/

theorem cloneNotClone_complete (db : DB) {c : Nat} (hc : c < db.n) (hk : (db.comp c).kind = .ctor)
    (hcl : (db.comp c).cloneIfNec = true) (hty : (db.ty (db.comp c).out).clone = false) :
    ⟨.cloneNotClone, c, (db.comp c).out⟩ ∈ db.cloneNotClone := by
  unfold DB.cloneNotClone
  refine List.mem_filterMap.mpr ⟨c, List.mem_range.mpr hc, ?_⟩
  simp [hk, hcl, hty]


/-! ## Rule: a dependency cycle (of any length) -/

theorem succOf_depAdj {db : DB} {i : Nat} (hi : i ∈ db.reach) (hn : i < db.n) :
    succOf db.depAdj i = db.deps i := by
  unfold succOf DB.depAdj
  simp only [List.getD_eq_getElem?_getD, List.getElem?_map, List.getElem?_range hn, Option.map_some,
    Option.getD_some]
  rw [if_pos (List.contains_iff_mem.mpr hi)]

theorem reach_lt {db : DB} {i : Nat} (hi : db.Reachable i) : i < db.n := by
  obtain ⟨r, hr, _, hn⟩ := hi
  cases hn with
  | refl => exact hr
  | step _ _ h => exact h

/-- **cycles**: a reachable component that (transitively, through ≥ 1 injections) needs itself —
    a cycle of length 1, 2, 3, … anywhere below a handler/middleware/observer — is reported. -/
theorem cycles_complete (db : DB) {c : Nat} (hr : db.Reachable c) (hc : PathS db.deps c c) :
    db.cycles ≠ [] := by
  have hcyc : HasCycle db.depAdj := by
    refine ⟨c, ?_⟩
    unfold OnCycle
    refine PathS.transfer (P := fun i => i ∈ db.reach ∧ i < db.n) ?_ ⟨reach_complete hr, reach_lt hr⟩ hc
    intro a b ⟨ha, han⟩ hb
    refine ⟨?_, reach_closed ha hb, deps_lt hb⟩
    rw [succOf_depAdj ha han]; exact hb
  have := findCycles_complete db.depAdj hcyc
  unfold DB.cycles
  intro h
  exact this (List.map_eq_nil_iff.mp h)

/-! ## Rule: a singleton that depends on a request-scoped type, directly or through transients -/

theorem mem_singletons {db : DB} {s : Nat} :
    s ∈ db.singletons ↔ s < db.n ∧ (db.comp s).life = .singleton ∧ (db.comp s).kind = .ctor := by
  simp [DB.singletons, List.mem_filter, List.mem_range]

/-- `t` is reached from `s` through transient constructors only (`s` itself included). -/
def DB.ThroughTransients (db : DB) (s t : Nat) : Prop := ReachN db.transDeps db.n s t

theorem DB.ThroughTransients.step {db : DB} {s i j : Nat} (h : db.ThroughTransients s i)
    (hj : j ∈ db.deps i) (ht : (db.comp j).life = .transient) : db.ThroughTransients s j :=
  ReachN.step h (by simp [DB.transDeps, List.mem_filter, hj, ht]) (deps_lt hj)

/-- **singleton → request-scoped** (after the fix): a singleton constructor `s` with a chain
    `s → t₁ → … → tₖ` of transient constructors (k ≥ 0) whose last element takes a request-scoped
    type `r` ⇒ reported, with exactly that pair. -/
theorem singletonDeps_complete (db : DB) {s i r : Nat} (hs : s < db.n)
    (hl : (db.comp s).life = .singleton) (hk : (db.comp s).kind = .ctor)
    (hchain : db.ThroughTransients s i) (hr : r ∈ db.deps i) (hrl : (db.comp r).life = .request) :
    ⟨.singletonDep, s, r⟩ ∈ db.singletonDeps := by
  unfold DB.singletonDeps
  refine List.mem_flatMap.mpr ⟨s, mem_singletons.mpr ⟨hs, hl, hk⟩, ?_⟩
  refine List.mem_flatMap.mpr ⟨i, closure_complete db.transDeps db.n [s] (by simp) hs hchain, ?_⟩
  refine List.mem_map.mpr ⟨r, ?_, rfl⟩
  simp [DB.requestDeps, List.mem_filter, hr, hrl]

/-- the check as it was before the fix reports direct dependencies … -/
theorem singletonDepsDirect_direct (db : DB) {s r : Nat} (hs : s < db.n)
    (hl : (db.comp s).life = .singleton) (hk : (db.comp s).kind = .ctor)
    (hr : r ∈ db.deps s) (hrl : (db.comp r).life = .request) :
    ⟨.singletonDep, s, r⟩ ∈ db.singletonDepsDirect := by
  unfold DB.singletonDepsDirect
  refine List.mem_flatMap.mpr ⟨s, mem_singletons.mpr ⟨hs, hl, hk⟩, ?_⟩
  refine List.mem_map.mpr ⟨r, ?_, rfl⟩
  simp [DB.requestDeps, List.mem_filter, hr, hrl]

/-- … and only those: the witness of the finding (request-scoped `R`, transient `T(&R)`,
    singleton `S(T)`, handler `h(&S)`). -/
def witnessW1 : DB :=
  { parent := [0], tys := [defaultTy, defaultTy, defaultTy],
    comps := [⟨.ctor, 0, 0, .request, false, [], false, 0⟩,
              ⟨.ctor, 0, 1, .transient, false, [⟨0, .ref⟩], false, 1⟩,
              ⟨.ctor, 0, 2, .singleton, false, [⟨1, .val⟩], false, 2⟩,
              ⟨.handler, 0, 0, .request, false, [⟨2, .ref⟩], false, 3⟩],
    routes := [⟨3, [.lit 0], [0], false⟩], pparams := [] }

theorem singletonDepsDirect_incomplete :
    witnessW1.singletonDepsDirect = [] ∧ witnessW1.singletonDeps = [⟨.singletonDep, 2, 0⟩] ∧
    witnessW1.check = [⟨.singletonDep, 2, 0⟩] := by decide


/-! ## Rule: a singleton with constructors registered in two different (nested) blueprints -/

/-- **singleton ambiguity**: two different blueprints `s₁ ≠ s₂` (siblings, or one nested in the other —
    any two scopes) both hold a singleton constructor for type `t` ⇒ reported for `t`. -/
theorem singletonAmbiguity_complete (db : DB) {t s1 s2 c1 c2 : Nat} (ht : t < db.tys.length)
    (h1 : s1 ∈ db.scopes) (h2 : s2 ∈ db.scopes) (hne : s1 ≠ s2)
    (hc1 : db.ctorIn s1 t = some c1) (hl1 : (db.comp c1).life = .singleton)
    (hc2 : db.ctorIn s2 t = some c2) (hl2 : (db.comp c2).life = .singleton) :
    ∃ d ∈ db.singletonAmbiguity, d.a = t ∧ (d.kind = .singletonOnce ∨ d.kind = .singletonMulti) := by
  have hlen : 2 ≤ (db.singletonRegs t).length := by
    unfold DB.singletonRegs
    apply two_le_length_filterMap h1 h2 hne
    · simp [hc1, hl1]
    · simp [hc2, hl2]
  unfold DB.singletonAmbiguity
  by_cases hall : (db.singletonRegs t).all
      (fun c => (db.comp c).fn == (db.comp ((db.singletonRegs t).headD 0)).fn) = true
  · refine ⟨⟨.singletonOnce, t, (db.singletonRegs t).length⟩, ?_, rfl, Or.inl rfl⟩
    refine List.mem_filterMap.mpr ⟨t, List.mem_range.mpr ht, ?_⟩
    have : (db.singletonRegs t).length > 1 := hlen
    simp only [this, if_true, hall]
  · refine ⟨⟨.singletonMulti, t, (db.singletonRegs t).length⟩, ?_, rfl, Or.inr rfl⟩
    refine List.mem_filterMap.mpr ⟨t, List.mem_range.mpr ht, ?_⟩
    have : (db.singletonRegs t).length > 1 := hlen
    simp only [this, if_true, hall]
    simp

/-! ## Rule: a singleton needed at request time that is not `Send + Sync` -/

theorem mem_requestTime {db : DB} {i : Nat} (hi : db.Reachable i)
    (hrt : ¬ ((db.comp i).kind = .ctor ∧ (db.comp i).life = .singleton)) : i ∈ db.requestTime := by
  unfold DB.requestTime
  refine List.mem_filter.mpr ⟨reach_complete hi, ?_⟩
  simp only [Bool.not_eq_true', Bool.and_eq_false_iff, decide_eq_false_iff_not]
  by_cases hk : (db.comp i).kind = .ctor
  · right; intro hl; exact hrt ⟨hk, hl⟩
  · left; exact hk

theorem mem_runtimeSingletons {db : DB} {i c : Nat} (hi : db.Reachable i)
    (hrt : ¬ ((db.comp i).kind = .ctor ∧ (db.comp i).life = .singleton))
    (hc : c ∈ db.deps i) (hl : (db.comp c).life = .singleton) : c ∈ db.runtimeSingletons := by
  unfold DB.runtimeSingletons
  rw [List.mem_eraseDups]
  refine List.mem_flatMap.mpr ⟨i, mem_requestTime hi hrt, ?_⟩
  simp [List.mem_filter, hc, hl]

/-- **thread safety**: a singleton injected into a reachable component that runs at request time
    (anything but a singleton constructor) whose type is not `Send` ⇒ reported. -/
theorem notSend_complete (db : DB) {i c : Nat} (hi : db.Reachable i)
    (hrt : ¬ ((db.comp i).kind = .ctor ∧ (db.comp i).life = .singleton))
    (hc : c ∈ db.deps i) (hl : (db.comp c).life = .singleton)
    (hs : (db.ty (db.comp c).out).send = false) :
    ⟨.notSend, c, (db.comp c).out⟩ ∈ db.threadSafety := by
  unfold DB.threadSafety
  refine List.mem_flatMap.mpr ⟨c, mem_runtimeSingletons hi hrt hc hl, ?_⟩
  simp [hs]

/-- … or not `Sync`. -/
theorem notSync_complete (db : DB) {i c : Nat} (hi : db.Reachable i)
    (hrt : ¬ ((db.comp i).kind = .ctor ∧ (db.comp i).life = .singleton))
    (hc : c ∈ db.deps i) (hl : (db.comp c).life = .singleton)
    (hs : (db.ty (db.comp c).out).sync = false) :
    ⟨.notSync, c, (db.comp c).out⟩ ∈ db.threadSafety := by
  unfold DB.threadSafety
  refine List.mem_flatMap.mpr ⟨c, mem_runtimeSingletons hi hrt hc hl, ?_⟩
  simp [hs]

/-! ## Rule: a singleton taken by value without being `Copy` or clone-if-necessary -/

theorem singletonByValue_complete (db : DB) {i k c : Nat} {x : Inp} (hi : db.Reachable i)
    (hrt : ¬ ((db.comp i).kind = .ctor ∧ (db.comp i).life = .singleton))
    (hx : (db.comp i).ins[k]? = some x) (hm : x.mode = .val)
    (hc : db.lookup (db.comp i).scope x.ty = some c) (hl : (db.comp c).life = .singleton)
    (hcopy : (db.ty x.ty).copy = false) (hcl : (db.comp c).cloneIfNec = false) :
    ⟨.singletonByValue, i, k⟩ ∈ db.singletonByValue := by
  unfold DB.singletonByValue
  refine List.mem_flatMap.mpr ⟨i, mem_requestTime hi hrt, ?_⟩
  unfold DB.byValueAt
  refine List.mem_filterMap.mpr ⟨(x, k), List.mem_zipIdx_iff_getElem?.mpr hx, ?_⟩
  simp [hc, hm, hl, hcopy, hcl]

/-! ## Rule: an error observer that (transitively) needs a fallible constructor -/

/-- what the observer `o` pulls in: its own inputs, and the inputs of every request-scoped/transient
    infallible constructor already pulled in — all looked up from the observer's blueprint. -/
inductive ObsNeeds (db : DB) (o : Nat) : Nat → Prop
  | direct {j : Nat} : j ∈ db.depsFrom (db.comp o).scope o → ObsNeeds db o j
  | through {i j : Nat} : ObsNeeds db o i → (db.comp i).life ≠ .singleton → (db.comp i).fallible = false →
      j ∈ db.depsFrom (db.comp o).scope i → ObsNeeds db o j

theorem ObsNeeds.reach {db : DB} {o c : Nat} (h : ObsNeeds db o c) : ReachN (db.obsSucc o) db.n o c := by
  induction h with
  | direct hj => exact .step (.refl o) (by simp [DB.obsSucc, hj]) (deps_lt hj)
  | through _ hl hf hj ih =>
    refine .step ih ?_ (deps_lt hj)
    unfold DB.obsSucc
    rw [if_pos (Or.inr ⟨hl, by simp [hf]⟩)]
    exact hj

/-- **observer → fallible**: the observer needs, at any depth, a request-scoped or transient
    constructor that can fail ⇒ reported for that observer. -/
theorem observerFallible_complete (db : DB) {o c : Nat} (ho : o < db.n)
    (hk : (db.comp o).kind = .observer) (hn : ObsNeeds db o c) (hne : c ≠ o)
    (hl : (db.comp c).life ≠ .singleton) (hf : (db.comp c).fallible = true) :
    ∃ c', ⟨.observerFallible, o, c'⟩ ∈ db.observerFallible := by
  have hmem : c ∈ closure (db.obsSucc o) db.n [o] :=
    closure_complete (db.obsSucc o) db.n [o] (by simp) ho hn.reach
  have hsome : ((closure (db.obsSucc o) db.n [o]).find?
      (fun c => c != o && (db.comp c).life != .singleton && (db.comp c).fallible)).isSome = true := by
    rw [List.find?_isSome]
    exact ⟨c, hmem, by simp [hne, hl, hf]⟩
  obtain ⟨c', hc'⟩ := Option.isSome_iff_exists.mp hsome
  refine ⟨c', ?_⟩
  unfold DB.observerFallible
  refine List.mem_filterMap.mpr ⟨o, ?_, by simp [hc']⟩
  simp [DB.observers, List.mem_filter, List.mem_range, ho, hk]

end Pxv.Rules
