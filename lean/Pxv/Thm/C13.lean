import Pxv.Model.Store
/-!
C13 — session stores behave like a map with expiry, under concurrency too.
-/
namespace Pxv.Store

/-- **[finding, known]** SQLite `create` on a live id answers `Ok` (and writes nothing). -/
theorem sqlite_create_live_witness :
    runObs 1000 sqlStep 0 ([] : Tbl Nat) [(0, .create 1 7 5000), (0, .create 1 8 5000), (0, .load 1)]
      ≠ specObs (Policy.strict true) 1000 0 AMap.empty [(0, .create 1 7 5000), (0, .create 1 8 5000), (0, .load 1)] := by
  decide

end Pxv.Store
