import Pxv.Lemmas.Store
/-!
C13 — session stores behave like a map with expiry, under concurrency too.

Property theorems only (helpers: `Pxv/Lemmas/Store.lean`). Everything is for every state type `σ`,
every history (list of `(delay, call)`; ids, states, TTLs, delays and traversal orders arbitrary)
and every schedule. `runObs g step` are the answers of a backend read at spec level, `specObs p g`
the answers of `MapWithExpiry` (`specStep`) on the same history with its clock at resolution `g`.
-/
namespace Pxv.Store

variable {σ : Type}

/-! ## In-memory backend -/

/-- **C13 (1), memory, general form**: from any table whose live records are those of an abstract
    map, every history gets exactly the answers of the specification (strict policy: `create` on a
    live id is a duplicate-id error). -/
theorem mem_refines_from (h : List (Nat × Op σ)) (now : Nat) (t : Tbl σ) (a : AMap σ)
    (ag : Agree now t a) :
    runObs 1 memStep now t h = specObs (Policy.strict false) 1 now a h := by
  refine refines_of_sim 1 memStep (Policy.strict false) (fun _ _ _ => false)
    (fun n t a => Agree (n / 1) t a) ?_ ?_ h now t a (by rwa [Nat.div_one])
    (anyStep_false_of_never _ _ _ _)
  · intro n n' s a hle inv
    rw [Nat.div_one] at inv ⊢
    exact agree_mono hle inv
  · intro now op s a inv _
    rw [Nat.div_one] at inv
    exact mem_sim inv op

/-- **C13 (1), memory**: the in-memory store, started empty, is observationally the map with expiry
    for every history. -/
theorem mem_refines (h : List (Nat × Op σ)) :
    runObs 1 memStep 0 ([] : Tbl σ) h = specObs (Policy.strict false) 1 0 AMap.empty h :=
  mem_refines_from h 0 [] AMap.empty (agree_empty 0)

/-! ## SQLite backend -/

/-- The full-strength statement for SQLite (strict policy). It is **false**: see below. -/
def sqlite_refines_statement : Prop :=
  ∀ (σ : Type) (h : List (Nat × Op σ)),
    runObs 1000 sqlStep 0 ([] : Tbl σ) h = specObs (Policy.strict true) 1000 0 AMap.empty h

/-- **[finding 1, known]** `create` on a live id answers `Ok` and writes nothing. -/
theorem sqlite_create_live_witness :
    runObs 1000 sqlStep 0 ([] : Tbl Nat) [(0, .create 1 7 5000), (0, .create 1 8 5000), (0, .load 1)]
      = [.ok, .ok, .loaded (some (7, 5))]
    ∧ specObs (Policy.strict true) 1000 0 AMap.empty [(0, .create 1 7 5000), (0, .create 1 8 5000), (0, .load 1)]
      = [.ok, .dup, .loaded (some (7, 5))] := by
  decide

/-- **[finding 2, known]** `change_id` onto an id whose expired row was not purged yet answers
    `DuplicateId`; the map with expiry renames. (Id 1 is created already expired: TTL 0.) -/
theorem sqlite_change_id_squatted_witness :
    runObs 1000 sqlStep 0 ([] : Tbl Nat)
        [(0, .create 1 7 0), (0, .create 2 8 5000), (0, .load 1), (0, .changeId 2 1), (0, .load 1)]
      = [.ok, .ok, .loaded none, .dup, .loaded none]
    ∧ specObs ⟨true, true⟩ 1000 0 AMap.empty
        [(0, .create 1 7 0), (0, .create 2 8 5000), (0, .load 1), (0, .changeId 2 1), (0, .load 1)]
      = [.ok, .ok, .loaded none, .ok, .loaded (some (8, 5))] := by
  decide

theorem sqlite_refines_statement_false : ¬ sqlite_refines_statement := by
  intro h
  have h1 := h Nat [(0, .create 1 7 5000), (0, .create 1 8 5000), (0, .load 1)]
  rw [sqlite_create_live_witness.1, sqlite_create_live_witness.2] at h1
  exact absurd h1 (by decide)

/-- General form of the two SQLite theorems: from agreeing states, for a policy that lets
    `change_id(i,i)` succeed, a history in which no call is a recorded finding (finding 1 only
    matters under the strict policy) gets exactly the specification's answers. -/
theorem sqlite_refines_from (p : Policy) (hp : p.renameSelfOk = true) (h : List (Nat × Op σ)) (now : Nat)
    (t : Tbl σ) (a : AMap σ) (ag : Agree (now / 1000) t a)
    (hc : p.createOnLiveOk = true ∨ anyStep sqlStep sqlCreateOnLive now t h = false)
    (hs : anyStep sqlStep sqlSquattedRename now t h = false) :
    runObs 1000 sqlStep now t h = specObs p 1000 now a h := by
  rcases hc with hc | hc
  · refine refines_of_sim 1000 sqlStep p sqlSquattedRename (fun n t a => Agree (n / 1000) t a) ?_ ?_ h now t a ag hs
    · intro n n' s a hle inv
      exact agree_mono (Nat.div_le_div_right hle) inv
    · intro now op s a inv hb
      exact sql_sim p hp inv op (Or.inl hc) hb
  · refine refines_of_sim 1000 sqlStep p (fun n o s => sqlCreateOnLive n o s || sqlSquattedRename n o s)
      (fun n t a => Agree (n / 1000) t a) ?_ ?_ h now t a ag (by rw [anyStep_or, hc, hs]; rfl)
    · intro n n' s a hle inv
      exact agree_mono (Nat.div_le_div_right hle) inv
    · intro now op s a inv hb
      simp only [Bool.or_eq_false_iff] at hb
      exact sql_sim p hp inv op (Or.inr hb.1) hb.2

/-- **C13 (1), SQLite, proved part**: against the specification weakened at exactly one point —
    `create` on a live id may answer `Ok`, still without any effect (finding 1) — the SQLite store
    refines the map with expiry (at second resolution) for every history that contains no rename
    onto a squatted id (finding 2). -/
theorem sqlite_refines_partial (h : List (Nat × Op σ))
    (hs : anyStep sqlStep sqlSquattedRename 0 ([] : Tbl σ) h = false) :
    runObs 1000 sqlStep 0 ([] : Tbl σ) h = specObs ⟨true, true⟩ 1000 0 AMap.empty h :=
  sqlite_refines_from ⟨true, true⟩ rfl h 0 [] AMap.empty (agree_empty _) (Or.inl rfl) hs

/-- **C13 (1), SQLite, conditional full strength**: on every history in which neither recorded
    finding occurs, the SQLite store meets the *strict* specification. So the two findings are the
    only ways in which the (modelled) SQLite store is not a map with expiry. -/
theorem sqlite_refines_of_clean (h : List (Nat × Op σ))
    (hc : anyStep sqlStep sqlCreateOnLive 0 ([] : Tbl σ) h = false)
    (hs : anyStep sqlStep sqlSquattedRename 0 ([] : Tbl σ) h = false) :
    runObs 1000 sqlStep 0 ([] : Tbl σ) h = specObs (Policy.strict true) 1000 0 AMap.empty h :=
  sqlite_refines_from (Policy.strict true) rfl h 0 [] AMap.empty (agree_empty _) (Or.inr hc) hs

/-! ## Concurrency -/

/-- **C13 (2), linearizability of atomic calls**: for every step function, every set of task
    programs and every schedule, the answers the tasks receive are exactly those of the
    *sequential* history `linearise` — the calls in the order in which the schedule performs them.
    (Atomicity of a call — mutex first and nothing else awaited / one SQL statement — is the
    assumption that makes `runConc` the right semantics; the check re-extracts it from the source.) -/
theorem atomic_linearizable {S R : Type} (step : Nat → Op σ → S → S × R) (sched : List Tick) :
    ∀ (now carry : Nat) (s : S) (progs : List (List (Op σ))),
      (runConc step (now + carry) s progs sched).map (·.2)
        = run step now s ((linearise carry progs sched).map (·.2))
      ∧ (runConc step (now + carry) s progs sched).map (·.1) = (linearise carry progs sched).map (·.1) := by
  induction sched with
  | nil => intros; exact ⟨rfl, rfl⟩
  | cons tk sched ih =>
    obtain ⟨d, k⟩ := tk
    intro now carry s progs
    simp only [runConc, linearise]
    split
    · rename_i op rest _
      have := ih (now + carry + d) 0 (step (now + carry + d) op s).1 (progs.set k rest)
      simp only [Nat.add_zero] at this
      simp only [List.map_cons, run, Nat.add_assoc] at this ⊢
      exact ⟨by rw [this.1], by rw [this.2]⟩
    · have := ih now (carry + d) s progs
      simp only [Nat.add_assoc] at this ⊢
      exact this

/-- The linearisation respects every task's program order: the calls of task `k` occur in it in
    program order, as an initial segment of `progs[k]`. -/
theorem linearise_program_order (k : Nat) (sched : List Tick) :
    ∀ (carry : Nat) (progs : List (List (Op σ))),
      (((linearise carry progs sched).filter (fun e => e.1 == k)).map (·.2.2)) <+: (progs[k]?).getD [] := by
  induction sched with
  | nil => intros; simp [linearise]
  | cons tk sched ih =>
    obtain ⟨d, k'⟩ := tk
    intro carry progs
    simp only [linearise]
    split
    · rename_i op rest hk
      have := ih 0 (progs.set k' rest)
      by_cases hkk : k' = k
      · subst hkk
        have hlt : k' < progs.length := by
          rcases Nat.lt_or_ge k' progs.length with h | h
          · exact h
          · rw [List.getElem?_eq_none h] at hk; cases hk
        simp only [List.filter_cons, beq_self_eq_true, if_true, List.map_cons, hk, Option.getD_some]
        rw [List.getElem?_set_self hlt] at this
        simpa using this
      · have hne : (k' == k) = false := by simpa using hkk
        simp only [List.filter_cons, hne, Bool.false_eq_true, if_false]
        rwa [List.getElem?_set_ne hkk] at this
    · exact ih (carry + d) progs

/-- **C13 (2), memory, concurrent callers**: whatever the interleaving, the answers the tasks get
    from the in-memory store are the answers of the map with expiry on one sequential order of
    their calls (the linearisation), which respects each task's program order. -/
theorem mem_concurrent (progs : List (List (Op σ))) (sched : List Tick) :
    let lin := (linearise 0 progs sched).map (·.2)
    (runConc memStep 0 ([] : Tbl σ) progs sched).map (·.2) = run memStep 0 [] lin
    ∧ runObs 1 memStep 0 ([] : Tbl σ) lin = specObs (Policy.strict false) 1 0 AMap.empty lin :=
  ⟨(atomic_linearizable memStep sched 0 0 [] progs).1, mem_refines _⟩

/-- **C13 (2), SQLite, concurrent callers** (same, modulo the two recorded findings). -/
theorem sqlite_concurrent (progs : List (List (Op σ))) (sched : List Tick)
    (hs : anyStep sqlStep sqlSquattedRename 0 ([] : Tbl σ) ((linearise 0 progs sched).map (·.2)) = false) :
    let lin := (linearise 0 progs sched).map (·.2)
    (runConc sqlStep 0 ([] : Tbl σ) progs sched).map (·.2) = run sqlStep 0 [] lin
    ∧ runObs 1000 sqlStep 0 ([] : Tbl σ) lin = specObs ⟨true, true⟩ 1000 0 AMap.empty lin :=
  ⟨(atomic_linearizable sqlStep sched 0 0 [] progs).1, sqlite_refines_partial _ hs⟩

end Pxv.Store
