import Pxv.Lemmas.Store
/-!
C13 — session stores behave like a map with expiry, under concurrency too.

Property theorems only (helpers: `Pxv/Lemmas/Store.lean`). Everything is for every state type `σ`,
every history (list of `(delay, call)`; ids, states, TTLs, delays and traversal orders arbitrary)
and every schedule. `runObs g step` are the answers of a backend read at spec level, `specObs p g`
the answers of `MapWithExpiry` (`specStep`) on the same history with its clock at resolution `g`.
-/
namespace Pxv.Store

variable {σ : Type}

/-! ## In-memory backend -/

/-- **C13 (1), memory, general form**: from any table whose live records are those of an abstract
    map, every history gets exactly the answers of the specification (strict policy: `create` on a
    live id is a duplicate-id error). -/
theorem mem_refines_from (h : List (Nat × Op σ)) (now : Nat) (t : Tbl σ) (a : AMap σ)
    (ag : Agree now t a) :
    runObs 1 memStep now t h = specObs (Policy.strict false) 1 now a h := by
  refine refines_of_sim 1 memStep (Policy.strict false) (fun _ _ _ => false)
    (fun n t a => Agree (n / 1) t a) ?_ ?_ h now t a (by rwa [Nat.div_one])
    (anyStep_false_of_never _ _ _ _)
  · intro n n' s a hle inv
    rw [Nat.div_one] at inv ⊢
    exact agree_mono hle inv
  · intro now op s a inv _
    rw [Nat.div_one] at inv
    exact mem_sim inv op

/-- **C13 (1), memory**: the in-memory store, started empty, is observationally the map with expiry
    for every history. -/
theorem mem_refines (h : List (Nat × Op σ)) :
    runObs 1 memStep 0 ([] : Tbl σ) h = specObs (Policy.strict false) 1 0 AMap.empty h :=
  mem_refines_from h 0 [] AMap.empty (agree_empty 0)

/-! ## SQLite backend -/

/-- The full-strength statement for SQLite (strict policy). It is **false**: see below. -/
def sqlite_refines_statement : Prop :=
  ∀ (σ : Type) (h : List (Nat × Op σ)),
    runObs 1000 sqlStep 0 ([] : Tbl σ) h = specObs (Policy.strict true) 1000 0 AMap.empty h

/-- **[finding 1, known]** `create` on a live id answers `Ok` and writes nothing. -/
theorem sqlite_create_live_witness :
    runObs 1000 sqlStep 0 ([] : Tbl Nat) [(0, .create 1 7 5000), (0, .create 1 8 5000), (0, .load 1)]
      = [.ok, .ok, .loaded (some (7, 5))]
    ∧ specObs (Policy.strict true) 1000 0 AMap.empty [(0, .create 1 7 5000), (0, .create 1 8 5000), (0, .load 1)]
      = [.ok, .dup, .loaded (some (7, 5))] := by
  decide

/-- **[finding 2, known]** `change_id` onto an id whose expired row was not purged yet answers
    `DuplicateId`; the map with expiry renames. (Id 1 is created already expired: TTL 0.) -/
theorem sqlite_change_id_squatted_witness :
    runObs 1000 sqlStep 0 ([] : Tbl Nat)
        [(0, .create 1 7 0), (0, .create 2 8 5000), (0, .load 1), (0, .changeId 2 1), (0, .load 1)]
      = [.ok, .ok, .loaded none, .dup, .loaded none]
    ∧ specObs ⟨true, true⟩ 1000 0 AMap.empty
        [(0, .create 1 7 0), (0, .create 2 8 5000), (0, .load 1), (0, .changeId 2 1), (0, .load 1)]
      = [.ok, .ok, .loaded none, .ok, .loaded (some (8, 5))] := by
  decide

theorem sqlite_refines_statement_false : ¬ sqlite_refines_statement := by
  intro h
  have h1 := h Nat [(0, .create 1 7 5000), (0, .create 1 8 5000), (0, .load 1)]
  rw [sqlite_create_live_witness.1, sqlite_create_live_witness.2] at h1
  exact absurd h1 (by decide)

/-- General form of the two SQLite theorems: from agreeing states, for a policy that lets
    `change_id(i,i)` succeed, a history in which no call is a recorded finding (finding 1 only
    matters under the strict policy) gets exactly the specification's answers. -/
theorem sqlite_refines_from (p : Policy) (hp : p.renameSelfOk = true) (h : List (Nat × Op σ)) (now : Nat)
    (t : Tbl σ) (a : AMap σ) (ag : Agree (now / 1000) t a)
    (hc : p.createOnLiveOk = true ∨ anyStep sqlStep sqlCreateOnLive now t h = false)
    (hs : anyStep sqlStep sqlSquattedRename now t h = false) :
    runObs 1000 sqlStep now t h = specObs p 1000 now a h := by
  rcases hc with hc | hc
  · refine refines_of_sim 1000 sqlStep p sqlSquattedRename (fun n t a => Agree (n / 1000) t a) ?_ ?_ h now t a ag hs
    · intro n n' s a hle inv
      exact agree_mono (Nat.div_le_div_right hle) inv
    · intro now op s a inv hb
      exact sql_sim p hp inv op (Or.inl hc) hb
  · refine refines_of_sim 1000 sqlStep p (fun n o s => sqlCreateOnLive n o s || sqlSquattedRename n o s)
      (fun n t a => Agree (n / 1000) t a) ?_ ?_ h now t a ag (by rw [anyStep_or, hc, hs]; rfl)
    · intro n n' s a hle inv
      exact agree_mono (Nat.div_le_div_right hle) inv
    · intro now op s a inv hb
      simp only [Bool.or_eq_false_iff] at hb
      exact sql_sim p hp inv op (Or.inr hb.1) hb.2

/-- **C13 (1), SQLite, proved part**: against the specification weakened at exactly one point —
    `create` on a live id may answer `Ok`, still without any effect (finding 1) — the SQLite store
    refines the map with expiry (at second resolution) for every history that contains no rename
    onto a squatted id (finding 2). -/
theorem sqlite_refines_partial (h : List (Nat × Op σ))
    (hs : anyStep sqlStep sqlSquattedRename 0 ([] : Tbl σ) h = false) :
    runObs 1000 sqlStep 0 ([] : Tbl σ) h = specObs ⟨true, true⟩ 1000 0 AMap.empty h :=
  sqlite_refines_from ⟨true, true⟩ rfl h 0 [] AMap.empty (agree_empty _) (Or.inl rfl) hs

/-- **C13 (1), SQLite, conditional full strength**: on every history in which neither recorded
    finding occurs, the SQLite store meets the *strict* specification. So the two findings are the
    only ways in which the (modelled) SQLite store is not a map with expiry. -/
theorem sqlite_refines_of_clean (h : List (Nat × Op σ))
    (hc : anyStep sqlStep sqlCreateOnLive 0 ([] : Tbl σ) h = false)
    (hs : anyStep sqlStep sqlSquattedRename 0 ([] : Tbl σ) h = false) :
    runObs 1000 sqlStep 0 ([] : Tbl σ) h = specObs (Policy.strict true) 1000 0 AMap.empty h :=
  sqlite_refines_from (Policy.strict true) rfl h 0 [] AMap.empty (agree_empty _) (Or.inr hc) hs

/-! ## Concurrency -/

/-- **C13 (2), linearizability of atomic calls**: for every step function, every set of task
    programs and every schedule, the answers the tasks receive are exactly those of the
    *sequential* history `linearise` — the calls in the order in which the schedule performs them.
    (Atomicity of a call — mutex first and nothing else awaited / one SQL statement — is the
    assumption that makes `runConc` the right semantics; the check re-extracts it from the source.) -/
theorem atomic_linearizable {S R : Type} (step : Nat → Op σ → S → S × R) (sched : List Tick) :
    ∀ (now carry : Nat) (s : S) (progs : List (List (Op σ))),
      (runConc step (now + carry) s progs sched).map (·.2)
        = run step now s ((linearise carry progs sched).map (·.2))
      ∧ (runConc step (now + carry) s progs sched).map (·.1) = (linearise carry progs sched).map (·.1) := by
  induction sched with
  | nil => intros; exact ⟨rfl, rfl⟩
  | cons tk sched ih =>
    obtain ⟨d, k⟩ := tk
    intro now carry s progs
    simp only [runConc, linearise]
    split
    · rename_i op rest _
      have := ih (now + carry + d) 0 (step (now + carry + d) op s).1 (progs.set k rest)
      simp only [Nat.add_zero] at this
      simp only [List.map_cons, run, Nat.add_assoc] at this ⊢
      exact ⟨by rw [this.1], by rw [this.2]⟩
    · have := ih now (carry + d) s progs
      simp only [Nat.add_assoc] at this ⊢
      exact this

/-- The linearisation respects every task's program order: the calls of task `k` occur in it in
    program order, as an initial segment of `progs[k]`. -/
theorem linearise_program_order (k : Nat) (sched : List Tick) :
    ∀ (carry : Nat) (progs : List (List (Op σ))),
      (((linearise carry progs sched).filter (fun e => e.1 == k)).map (·.2.2)) <+: (progs[k]?).getD [] := by
  induction sched with
  | nil => intros; simp [linearise]
  | cons tk sched ih =>
    obtain ⟨d, k'⟩ := tk
    intro carry progs
    simp only [linearise]
    split
    · rename_i op rest hk
      have := ih 0 (progs.set k' rest)
      by_cases hkk : k' = k
      · subst hkk
        have hlt : k' < progs.length := by
          rcases Nat.lt_or_ge k' progs.length with h | h
          · exact h
          · rw [List.getElem?_eq_none h] at hk; cases hk
        simp only [List.filter_cons, beq_self_eq_true, if_true, List.map_cons, hk, Option.getD_some]
        rw [List.getElem?_set_self hlt] at this
        simpa using this
      · have hne : (k' == k) = false := by simpa using hkk
        simp only [List.filter_cons, hne, Bool.false_eq_true, if_false]
        rwa [List.getElem?_set_ne hkk] at this
    · exact ih (carry + d) progs

/-- **C13 (2), memory, concurrent callers**: whatever the interleaving, the answers the tasks get
    from the in-memory store are the answers of the map with expiry on one sequential order of
    their calls (the linearisation), which respects each task's program order. -/
theorem mem_concurrent (progs : List (List (Op σ))) (sched : List Tick) :
    let lin := (linearise 0 progs sched).map (·.2)
    (runConc memStep 0 ([] : Tbl σ) progs sched).map (·.2) = run memStep 0 [] lin
    ∧ runObs 1 memStep 0 ([] : Tbl σ) lin = specObs (Policy.strict false) 1 0 AMap.empty lin :=
  ⟨(atomic_linearizable memStep sched 0 0 [] progs).1, mem_refines _⟩

/-- **C13 (2), SQLite, concurrent callers** (same, modulo the two recorded findings). -/
theorem sqlite_concurrent (progs : List (List (Op σ))) (sched : List Tick)
    (hs : anyStep sqlStep sqlSquattedRename 0 ([] : Tbl σ) ((linearise 0 progs sched).map (·.2)) = false) :
    let lin := (linearise 0 progs sched).map (·.2)
    (runConc sqlStep 0 ([] : Tbl σ) progs sched).map (·.2) = run sqlStep 0 [] lin
    ∧ runObs 1000 sqlStep 0 ([] : Tbl σ) lin = specObs ⟨true, true⟩ 1000 0 AMap.empty lin :=
  ⟨(atomic_linearizable sqlStep sched 0 0 [] progs).1, sqlite_refines_partial _ hs⟩

/-! ## `delete_expired` removes only expired records, and says how many -/

/-- Every table a history can produce holds at most one record per id. -/
theorem mem_reachable_wf (h : List (Nat × Op σ)) : ∀ (now : Nat) (t : Tbl σ), WF t →
    WF (runState memStep now t h).2 := by
  induction h with
  | nil => intro _ _ wf; exact wf
  | cons x h ih => intro now t wf; obtain ⟨d, op⟩ := x; exact ih _ _ (memStep_wf wf _ _)

theorem sqlite_reachable_wf (h : List (Nat × Op σ)) : ∀ (now : Nat) (t : Tbl σ), WF t →
    WF (runState sqlStep now t h).2 := by
  induction h with
  | nil => intro _ _ wf; exact wf
  | cons x h ih => intro now t wf; obtain ⟨d, op⟩ := x; exact ih _ _ (sqlStep_wf wf _ _)

/-- **C13 (3), memory**: whatever the traversal order `ord` and the batch size, `delete_expired`
    physically removes exactly the ids it lists: all of them held a record with `deadline ≤ now`
    (so no live record is ever removed), nothing else changes, the reported count is the number of
    records that disappeared, it respects the batch size, and without a batch size no expired
    record is left behind. -/
theorem mem_deleteExpired_exact (now : Nat) (batch : Option Nat) (ord : List Nat) (t : Tbl σ) (wf : WF t) :
    ∃ ids, memStep now (.deleteExpired batch ord) t = (eraseAll t ids, .deleted ids.length ids)
      ∧ (∀ i ∈ ids, ∃ r, get t i = some r ∧ r.deadline ≤ now)
      ∧ (∀ j, j ∉ ids → get (eraseAll t ids) j = get t j)
      ∧ (∀ j, j ∈ ids → get (eraseAll t ids) j = none)
      ∧ (eraseAll t ids).length + ids.length = t.length
      ∧ (∀ b, batch = some b → ids.length ≤ b)
      ∧ (batch = none → ∀ j r, get (eraseAll t ids) j = some r → now < r.deadline) := by
  refine ⟨memStaleIds t now batch ord, rfl, mem_staleIds_dead t now batch ord, ?_, ?_, ?_, ?_, ?_⟩
  · intro j hj; rw [get_eraseAll]; simp [hj]
  · intro j hj; rw [get_eraseAll]; simp [hj]
  · refine length_eraseAll t _ wf ?_ ?_
    · have hn : ∀ (q : Nat → Bool), ((iterOrder t ord).filter q).Nodup :=
        fun q => List.Nodup.sublist List.filter_sublist (nodup_iterOrder t ord)
      unfold memStaleIds
      cases batch with
      | none => exact hn _
      | some b => exact List.Nodup.sublist (List.take_sublist _ _) (hn _)
    · intro i hi
      obtain ⟨r, hg, _⟩ := mem_staleIds_dead t now batch ord i hi
      rw [← get_isSome_iff_mem_keys, hg]; rfl
  · intro b hb; subst hb; simp only [memStaleIds]; exact List.length_take_le _ _
  · intro hb j r hg
    subst hb
    rw [get_eraseAll] at hg
    by_cases hj : j ∈ memStaleIds t now none ord
    · simp [hj] at hg
    · simp only [hj, if_false] at hg
      rcases Nat.lt_or_ge now r.deadline with h | h
      · exact h
      · exfalso; apply hj
        simp only [memStaleIds]
        refine List.mem_filter.mpr ⟨(mem_iterOrder t ord j).mpr ?_, by simp [hg, memStale, h]⟩
        rw [← get_isSome_iff_mem_keys, hg]; rfl

/-- **C13 (3), SQLite**: same for the two `DELETE … WHERE deadline < unixepoch()` statements
    (`nowS = now / 1000`); rows with `deadline = nowS` are not live either but are left for later. -/
theorem sqlite_deleteExpired_exact (now : Nat) (batch : Option Nat) (ord : List Nat) (t : Tbl σ) (wf : WF t) :
    ∃ ids, sqlStep now (.deleteExpired batch ord) t = (eraseAll t ids, .deleted ids.length ids)
      ∧ (∀ i ∈ ids, ∃ r, get t i = some r ∧ r.deadline < now / 1000)
      ∧ (∀ j, j ∉ ids → get (eraseAll t ids) j = get t j)
      ∧ (∀ j, j ∈ ids → get (eraseAll t ids) j = none)
      ∧ (eraseAll t ids).length + ids.length = t.length
      ∧ (∀ b, batch = some b → ids.length ≤ b)
      ∧ (batch = none → ∀ j r, get (eraseAll t ids) j = some r → now / 1000 ≤ r.deadline) := by
  refine ⟨sqlExpiredIds t (now / 1000) batch ord, rfl, sql_expiredIds_dead t _ batch ord, ?_, ?_, ?_, ?_, ?_⟩
  · intro j hj; rw [get_eraseAll]; simp [hj]
  · intro j hj; rw [get_eraseAll]; simp [hj]
  · refine length_eraseAll t _ wf ?_ ?_
    · have hn : ∀ (q : Nat → Bool), ((iterOrder t ord).filter q).Nodup :=
        fun q => List.Nodup.sublist List.filter_sublist (nodup_iterOrder t ord)
      unfold sqlExpiredIds
      cases batch with
      | none => exact hn _
      | some b => exact List.Nodup.sublist (List.take_sublist _ _) (hn _)
    · intro i hi
      obtain ⟨r, hg, _⟩ := sql_expiredIds_dead t _ batch ord i hi
      rw [← get_isSome_iff_mem_keys, hg]; rfl
  · intro b hb; subst hb; simp only [sqlExpiredIds]; exact List.length_take_le _ _
  · intro hb j r hg
    subst hb
    rw [get_eraseAll] at hg
    by_cases hj : j ∈ sqlExpiredIds t (now / 1000) none ord
    · simp [hj] at hg
    · simp only [hj, if_false] at hg
      rcases Nat.lt_or_ge r.deadline (now / 1000) with h | h
      · exfalso; apply hj
        simp only [sqlExpiredIds]
        refine List.mem_filter.mpr ⟨(mem_iterOrder t ord j).mpr ?_, by simp [hg, h]⟩
        rw [← get_isSome_iff_mem_keys, hg]; rfl
      · exact h

/-! ## The specification says what the property says -/

/-- `load` returns the live record — never an expired or absent one. -/
theorem spec_load (p : Policy) (now i : Nat) (a : AMap σ) :
    specStep p now (.load i) a = (a, .loaded ((a.liveAt now i).map (fun r => (r.state, r.deadline))))
    ∧ ∀ st dl, (specStep p now (.load i) a).2 = .loaded (some (st, dl)) → now < dl ∧ a i = some ⟨st, dl⟩ := by
  constructor
  · simp only [specStep]; cases a.liveAt now i <;> rfl
  · intro st dl h
    simp only [specStep] at h
    cases hl : a.liveAt now i with
    | none => rw [hl] at h; cases h
    | some r =>
      rw [hl] at h
      rw [liveAt_eq] at hl
      obtain ⟨h1, h2⟩ := liveOpt_some hl
      cases h
      exact ⟨h2, h1⟩

/-- `create` never overwrites a live record (strict policy: it fails with duplicate-id). -/
theorem spec_create_live (b : Bool) (now i dl : Nat) (st : σ) (a : AMap σ) (r : Rec σ)
    (h : a.liveAt now i = some r) : specStep (Policy.strict b) now (.create i st dl) a = (a, .dup) := by
  simp [specStep, h, Policy.strict]

/-- `create` on an absent or expired id succeeds and is what `load` returns while it is live. -/
theorem spec_create_free (p : Policy) (now i dl : Nat) (st : σ) (a : AMap σ) (h : a.liveAt now i = none) :
    specStep p now (.create i st dl) a = (a.set i (some ⟨st, dl⟩), .ok) := by
  simp [specStep, h]

/-- `update`, `update_ttl`, `delete`, `change_id` answer unknown-id on absent or expired records,
    whatever else holds, and change nothing. -/
theorem spec_unknown (p : Policy) (now i : Nat) (a : AMap σ) (h : a.liveAt now i = none) :
    (∀ st dl, specStep p now (.update i st dl) a = (a, .unknown))
    ∧ (∀ dl, specStep p now (.updateTtl i dl) a = (a, .unknown))
    ∧ specStep p now (.delete i) a = (a, .unknown)
    ∧ (∀ n, specStep p now (.changeId i n) a = (a, .unknown)) := by
  simp [specStep, h]

/-- A call that fails has no effect at all. -/
theorem spec_failed_no_effect (p : Policy) (now : Nat) (op : SOp σ) (a : AMap σ)
    (h : (specStep p now op a).2 = .dup ∨ (specStep p now op a).2 = .unknown) :
    (specStep p now op a).1 = a := by
  cases op <;> simp only [specStep] at h ⊢ <;> (repeat' split) <;> simp_all

/-- `change_id` of a live record onto a free id is one step: afterwards the record (state and
    deadline) is under the new id, the old id is gone, every other id is untouched. -/
theorem spec_changeId_atomic (p : Policy) (now o n : Nat) (a : AMap σ) (r : Rec σ)
    (ho : a.liveAt now o = some r) (hne : n ≠ o) (hn : a.liveAt now n = none) :
    let post := (specStep p now (.changeId o n) a).1
    (specStep p now (.changeId o n) a).2 = .ok
    ∧ post.liveAt now n = some r ∧ post.liveAt now o = none ∧ ∀ j, j ≠ o → j ≠ n → post j = a j := by
  have hl := (liveOpt_some (by rw [← liveAt_eq]; exact ho)).2
  have ho' : ¬ o = n := fun h => hne h.symm
  simp only [specStep, ho, hne, if_false, hn]
  refine ⟨trivial, ?_, ?_, ?_⟩
  · simp [AMap.liveAt, AMap.set, live, hl]
  · simp [AMap.liveAt, AMap.set, ho']
  · intro j h1 h2; simp [AMap.set, h1, h2]

/-- `delete_expired` has no observable effect. -/
theorem spec_deleteExpired (p : Policy) (now : Nat) (a : AMap σ) :
    (specStep p now .deleteExpired a).1 = a := rfl

/-- Calls that do not mention an id do not touch it. -/
theorem spec_frame (p : Policy) (now : Nat) (op : SOp σ) (a : AMap σ) (j : Nat) (h : op.mentions j = false) :
    (specStep p now op a).1 j = a j := by
  cases op with
  | changeId o n =>
    simp only [SOp.mentions, Bool.or_eq_false_iff, beq_eq_false_iff_ne] at h
    have h1 : ¬ j = o := fun e => h.1 e.symm
    have h2 : ¬ j = n := fun e => h.2 e.symm
    simp only [specStep]
    (repeat' split) <;> simp [AMap.set, h1, h2]
  | deleteExpired => rfl
  | load i => simp only [specStep]; split <;> rfl
  | create i st dl | update i st dl | updateTtl i dl | delete i =>
    simp only [SOp.mentions, beq_eq_false_iff_ne] at h
    have h1 : ¬ j = i := fun e => h e.symm
    simp only [specStep]
    (repeat' split) <;> simp [AMap.set, h1]

/-- **"load returns exactly what the last successful create/update wrote"**: after a successful
    write of `(st, dl)` under id `i`, and any further calls that do not mention `i`, a `load i`
    before the deadline returns exactly `(st, dl)`. -/
theorem spec_load_last_write (p : Policy) (i : Nat) (st : σ) (dl : Nat) (h : List (Nat × SOp σ)) :
    ∀ (now : Nat) (a : AMap σ), a i = some ⟨st, dl⟩ → (∀ x ∈ h, x.2.mentions i = false) →
      ∀ d, now + (h.map (·.1)).sum + d < dl →
      (runSpec p now a (h ++ [(d, .load i)])).getLast? = some (.loaded (some (st, dl))) := by
  induction h with
  | nil =>
    intro now a ha _ d hd
    simp only [List.map_nil, List.sum_nil, Nat.add_zero] at hd
    simp [runSpec, specStep, AMap.liveAt, ha, live, hd]
  | cons x h ih =>
    obtain ⟨d0, op⟩ := x
    intro now a ha hm d hd
    have h1 := hm (d0, op) (List.mem_cons_self ..)
    have := ih (now + d0) (specStep p (now + d0) op a).1 (by rw [spec_frame p _ op a i h1]; exact ha)
      (fun x hx => hm x (List.mem_cons_of_mem _ hx)) d (by simp only [List.map_cons, List.sum_cons] at hd; omega)
    simp only [List.cons_append, runSpec]
    rw [List.getLast?_cons_of_ne_nil]
    · exact this
    · cases h <;> simp [runSpec]

/-! ## `change_id` takes effect atomically or not at all (backend level) -/

/-- Spec level: either `change_id` answers `Ok`, and then the live record of `o` is now the live
    record of `n`, `o` is gone and nothing else moved; or it answers an error and nothing changed. -/
theorem spec_changeId_cases (p : Policy) (now o n : Nat) (a : AMap σ) :
    let post := (specStep p now (.changeId o n) a).1
    ((specStep p now (.changeId o n) a).2 = .ok →
        ∃ r, a.liveAt now o = some r ∧ post.liveAt now n = some r
          ∧ (n ≠ o → post.liveAt now o = none) ∧ ∀ j, j ≠ o → j ≠ n → post j = a j)
    ∧ ((specStep p now (.changeId o n) a).2 ≠ .ok → post = a) := by
  simp only [specStep]
  cases ho : a.liveAt now o with
  | none => simp
  | some r =>
    by_cases hno : n = o
    · subst hno
      simp only [if_true]
      refine ⟨fun _ => ⟨r, rfl, ho, fun h => absurd rfl h, fun _ _ _ => trivial⟩, fun _ => trivial⟩
    · simp only [hno, if_false]
      cases hn : a.liveAt now n with
      | some r2 => simp
      | none =>
        have := spec_changeId_atomic p now o n a r ho hno hn
        simp only [specStep, ho, hno, if_false, hn] at this
        refine ⟨fun _ => ⟨r, rfl, this.2.1, fun _ => this.2.2.1, this.2.2.2⟩, fun h => absurd rfl h⟩

/-- **C13 (4), memory**: a `change_id` that answers `Ok` moves the live record of `o` (state and
    deadline) to `n` in one step — at no instant are both or neither visible — and leaves every
    other id's live record alone; a `change_id` that fails changes no live record. -/
theorem mem_changeId_atomic (now o n : Nat) (t : Tbl σ) :
    let post := (memStep now (.changeId o n) t).1
    ((memStep now (.changeId o n) t).2 = .ok →
        ∃ r, tblLive t now o = some r ∧ tblLive post now n = some r
          ∧ (n ≠ o → tblLive post now o = none) ∧ ∀ j, j ≠ o → j ≠ n → tblLive post now j = tblLive t now j)
    ∧ ((memStep now (.changeId o n) t).2 ≠ .ok → ∀ j, tblLive post now j = tblLive t now j) := by
  obtain ⟨h1, h2⟩ := mem_sim (agree_self now t) (.changeId o n)
  rw [Nat.div_one] at h1 h2
  have hc := spec_changeId_cases (Policy.strict false) now o n (fun i => get t i)
  simp only [absOp] at h1 h2
  constructor
  · intro hok
    have : (specStep (Policy.strict false) now (.changeId o n) (fun i => get t i)).2 = .ok := by
      rw [← h1, hok]; rfl
    obtain ⟨r, e1, e2, e3, e4⟩ := hc.1 this
    refine ⟨r, e1, (h2 n).trans e2, fun hne => (h2 o).trans (e3 hne), fun j hj1 hj2 => ?_⟩
    rw [h2 j, liveAt_eq, e4 j hj1 hj2]; rfl
  · intro hne j
    have : (specStep (Policy.strict false) now (.changeId o n) (fun i => get t i)).2 ≠ .ok := by
      rw [← h1]; intro h; exact hne ((absRes_ok_iff 1 now _).mp h)
    rw [h2 j, hc.2 this]; rfl

/-- **C13 (4), SQLite**: same for the single `UPDATE sessions SET id = ? …` statement, at second
    resolution — for every table, including those on which finding 2 strikes (there the call
    fails, and then changes nothing). -/
theorem sqlite_changeId_atomic (now o n : Nat) (t : Tbl σ) :
    let post := (sqlStep now (.changeId o n) t).1
    ((sqlStep now (.changeId o n) t).2 = .ok →
        ∃ r, tblLive t (now / 1000) o = some r ∧ tblLive post (now / 1000) n = some r
          ∧ (n ≠ o → tblLive post (now / 1000) o = none)
          ∧ ∀ j, j ≠ o → j ≠ n → get post j = get t j)
    ∧ ((sqlStep now (.changeId o n) t).2 ≠ .ok → post = t) := by
  simp only [sqlStep, sqlSel_eq]
  cases ho : tblLive t (now / 1000) o with
  | none => simp
  | some r =>
    by_cases hno : n = o
    · subst hno
      simp only [if_true]
      exact ⟨fun _ => ⟨r, rfl, ho, fun h => absurd rfl h, fun _ _ _ => trivial⟩, fun h => absurd rfl h⟩
    · simp only [hno, if_false]
      cases hg : get t n with
      | some r2 => simp
      | none =>
        have hl := (tblLive_some ho).2
        have hon : ¬ o = n := fun h => hno h.symm
        refine ⟨fun _ => ⟨r, rfl, ?_, fun _ => ?_, fun j h1 h2 => ?_⟩, fun h => absurd rfl h⟩
        · simp [tblLive, get_put, liveOpt, live, hl]
        · simp [tblLive, get_put, get_erase, hon, liveOpt]
        · simp [get_put, get_erase, h1, h2]

/-! ## Non-vacuity: the hypotheses are satisfiable on non-trivial instances -/

-- a memory history with expiry, a collision, a rename and a batched purge
example : runObs 1 memStep 0 ([] : Tbl Nat)
    [(0, .create 1 7 5), (0, .create 1 8 5), (3, .load 1), (2, .load 1), (0, .create 2 9 10),
     (0, .changeId 2 1), (1, .load 1), (0, .changeId 3 1), (0, .deleteExpired (some 1) [4, 1])]
    = [.ok, .dup, .loaded (some (7, 5)), .loaded none, .ok, .ok, .loaded (some (9, 15)), .unknown, .deleted] := by
  decide
-- a SQLite history satisfying both hypotheses of `sqlite_refines_of_clean`, crossing the
-- `deadline = unixepoch()` boundary (create at 0.5 s with TTL 1.6 s: deadline second 2)
example : anyStep sqlStep sqlCreateOnLive 0 ([] : Tbl Nat)
      [(500, .create 1 7 1600), (1400, .load 1), (100, .load 1), (0, .create 1 8 1000), (0, .load 1)] = false
    ∧ anyStep sqlStep sqlSquattedRename 0 ([] : Tbl Nat)
      [(500, .create 1 7 1600), (1400, .load 1), (100, .load 1), (0, .create 1 8 1000), (0, .load 1)] = false
    ∧ runObs 1000 sqlStep 0 ([] : Tbl Nat)
      [(500, .create 1 7 1600), (1400, .load 1), (100, .load 1), (0, .create 1 8 1000), (0, .load 1)]
      = [.ok, .loaded (some (7, 2)), .loaded none, .ok, .loaded (some (8, 3))] := by
  decide
-- a schedule that really interleaves two tasks (and has an idle tick)
example : (linearise 0 [[Op.create 1 (7 : Nat) 5, .load 1], [.delete 1, .load 1]] [⟨0, 0⟩, ⟨1, 1⟩, ⟨0, 5⟩, ⟨2, 1⟩, ⟨0, 0⟩]).map (·.1)
    = [0, 1, 1, 0] := by decide
example : (runConc memStep 0 ([] : Tbl Nat) [[Op.create 1 7 5, .load 1], [.delete 1, .load 1]]
    [⟨0, 0⟩, ⟨1, 1⟩, ⟨0, 5⟩, ⟨2, 1⟩, ⟨0, 0⟩]).map (·.2) = [.ok, .ok, .loaded none, .loaded none] := by decide
example : WF ([(1, ⟨7, 5⟩), (2, ⟨8, 0⟩)] : Tbl Nat) := by unfold WF keys; decide

end Pxv.Store
