import Pxv.Model.Router
/-! C07 — routing (theorems; work in progress) -/
namespace Pxv.Router
open Pxv.Matchit

/-- `default_fallback`: 404 exactly when no method is allowed, else 405 with the joined list. -/
theorem defaultFallback_404_iff (ms : List String) : (defaultFallback ms).1 = 404 ↔ ms = [] := by
  unfold defaultFallback allowHeader
  cases ms <;> simp

end Pxv.Router
