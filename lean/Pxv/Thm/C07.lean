import Pxv.Model.Router
import Pxv.Lemmas.Matchit
import Pxv.Lemmas.Router
import Pxv.Lemmas.RouterBp
/-!
# C07 — requests are routed to exactly the handler the blueprint designates

Model: `Pxv/Model/Router.lean` (blueprint walk, `Router::new`, generated dispatch, runtime fallback)
on `Pxv/Model/Matchit.lean` (matchit 0.9.2) and `Pxv/Model/Domain.lean`.

* `router_new_total` — an accepted blueprint yields a server that starts: every generated
  `insert(..).unwrap()` succeeds (path routers and domain router).
* `dispatch_spec_partial` — the generated `route` answers with the method arms of a most specific
  table entry whose domain and path guards match (or the applicable root fallback); full strength
  up to the side condition `NoNestedSuffix` of the matchit model. `dispatch_spec_statement_false`:
  without it the faithful model (and the real crate) misses a matching route.
* `dispatch_designated` — a registered handler whose path pattern is the most specific match and
  whose method guard accepts the method is the one that runs; `dispatch_unique_of_no_overlap` — if a
  single entry matches the path, it decides. `dispatch_unique_statement_false`: overlapping routes
  of different specificity are accepted (known finding).
* `most_specific_unique` — two most specific matching entries have the same pattern.
* `method_guard_unique` — two handlers registered for the same path never accept the same method.
* `allow_exact` / `default_fallback_405` / `default_fallback_404` — path matches, no method does:
  the fallback sees exactly the methods registered for that path; the default answers 405 + Allow.
* `fallback_innermost` / `prefix_fallback` / `root_fallback_innermost` — nothing matches: the
  fallback of the innermost blueprint that covers the request (default: 404).
-/
namespace Pxv.Router
open Pxv.Matchit

/-! ## 0. Accepted tables and the components they come from -/

/-- Every path router of an accepted table was built by `PathRouter::new` from components of the
    blueprint. -/
theorem compile_routers {ops : List Op} {t : Table} (h : compile ops = .ok t) :
    ∀ r ∈ t.pathRouters, ∃ cs, (∀ c ∈ cs, c ∈ (processBlueprint ops).comps) ∧
      PathRouter.new cs (fallbacksOf (processBlueprint ops).comps) = .ok r := by
  cases t with
  | agnostic r0 =>
    intro r hr
    simp [Table.pathRouters] at hr; subst hr
    exact ⟨_, fun c hc => hc, compile_agnostic h⟩
  | domains ds f =>
    intro r hr
    simp only [Table.pathRouters, List.mem_map] at hr
    obtain ⟨d, hd, rfl⟩ := hr
    obtain ⟨⟨gs, hgs⟩, _, _⟩ := compile_domains h
    exact buildDomains_ok hgs d hd

/-! ## 1. The server starts without panicking -/

/-- **router_new_total.** For an accepted blueprint every `insert(..).unwrap()` of the generated
    `router()` / `domain_N_router()` / `domain_router()` functions succeeds. -/
theorem router_new_total {ops : List Op} {t : Table} (h : compile ops = .ok t) :
    (∀ r ∈ t.pathRouters, ∃ rt, runtimeInserts r.leaves 0 {} = .ok rt) ∧
    (∀ ds f, t = .domains ds f → insertAllOk (ds.map (·.pattern)) 0 {} = true) := by
  refine ⟨?_, ?_⟩
  · intro r hr
    obtain ⟨cs, _, hnew⟩ := compile_routers h r hr
    exact PathRouter.new_runtime_ok hnew
  · intro ds f e
    subst e
    exact (compile_domains h).2.1

/-- Non-vacuous: a blueprint with a prefixed nested blueprint, a custom fallback and a catch-all is
    accepted … -/
def okOps : List Op :=
  [.route 0 (.some ["GET"]) "/a/{x}".toList, .route 1 (.some ["GET", "PURGE"]) "/a/b".toList,
   .nest (some "/api".toList) none [.route 2 .any "/{*rest}".toList, .fallback 0]]

set_option maxRecDepth 100000 in
example : (compile okOps).toOption.isSome = true := by decide +kernel

/-- … and the blueprint whose generated server used to panic at start-up (`/{x}b` is inserted
    before `/b/b{y}a` at compile time, after it at run time) is now refused. -/
def orderOps : List Op := [.route 0 (.some ["GET"]) "/{x}b".toList, .route 1 (.some ["GET"]) "/b/b{y}a".toList]

set_option maxRecDepth 100000 in
example : compile orderOps = .error .runtimeOrder := by decide +kernel

/-! ## 2. Dispatch -/

/-- The statement at full strength. -/
def dispatch_spec_statement : Prop :=
  ∀ (ops : List Op) (t : Table), compile ops = .ok t → ∀ req, TableRouted t req (t.dispatch req)

/-- **dispatch_spec** (partial: `NoNestedSuffix`). For an accepted table whose routers have no nested
    parameter suffixes at one position, every request is answered by the method arms of a most
    specific entry whose domain guard and path pattern match it — or, if no domain / no path
    matches, by the corresponding root fallback with no allowed methods. -/
theorem dispatch_spec_partial {ops : List Op} {t : Table} (_h : compile ops = .ok t) (hN : t.NoNestedSuffix)
    (req : Request) : TableRouted t req (t.dispatch req) :=
  tableDispatch_spec t hN req

set_option maxRecDepth 100000 in
/-- Non-vacuous: `okOps` (parameters, a catch-all, a nested prefix with its own fallback) is accepted
    and satisfies the side condition; so does a table with domain guards. -/
example : ∃ t, compile okOps = .ok t ∧ t.NoNestedSuffix := by
  refine ⟨(match compile okOps with | .ok t => t | .error _ => .agnostic ⟨[], none⟩), by decide +kernel, ?_⟩
  apply Table.noNestedSuffix_of_check
  decide +kernel

def domOps : List Op :=
  [.nest none (some "a.com".toList) [.route 0 (.some ["GET"]) "/r".toList, .fallback 0],
   .nest (some "/v1".toList) (some "{sub}.a.com".toList) [.route 1 (.some ["GET", "LOCK"]) "/r/{id}.json".toList]]

set_option maxRecDepth 100000 in
example : ∃ t, compile domOps = .ok t ∧ t.NoNestedSuffix ∧
    t.dispatch ⟨"LOCK", "/v1/r/7.json".toList, some "w.a.com:8080".toList⟩ = .handler 1 ∧
    t.dispatch ⟨"GET", "/nope".toList, some "a.com".toList⟩ = .fallback (some 0) [] ∧
    t.dispatch ⟨"GET", "/r".toList, some "b.org".toList⟩ = .fallback none [] := by
  refine ⟨(match compile domOps with | .ok t => t | .error _ => .agnostic ⟨[], none⟩), by decide +kernel, ?_,
    by decide +kernel, by decide +kernel, by decide +kernel⟩
  apply Table.noNestedSuffix_of_check
  decide +kernel

/-- The witness of the missing piece (matchit commits to the longest fitting suffix): `/{x}ab/c` and
    `/{x}b/d` are accepted, `GET /zab/d` matches the second route and gets the default fallback. -/
def commitOps : List Op := [.route 0 (.some ["GET"]) "/{x}ab/c".toList, .route 1 (.some ["GET"]) "/{x}b/d".toList]

def commitTable : Table :=
  match compile commitOps with
  | .ok t => t
  | .error _ => .agnostic ⟨[], none⟩

def commitReq : Request := ⟨"GET", "/zab/d".toList, none⟩

set_option maxRecDepth 100000 in
theorem commit_accepted : compile commitOps = .ok commitTable := by decide +kernel

set_option maxRecDepth 100000 in
theorem commit_facts :
    commitTable.dispatch commitReq = .fallback none [] ∧
    ∃ r, commitTable = .agnostic r ∧
      (∃ l ∈ r.leaves, l.Matches commitReq.path) ∧
      (∀ l ∈ r.leaves, l.dispatch commitReq.method ≠ .fallback none []) := by
  refine ⟨by decide +kernel, ?_⟩
  cases hc : commitTable with
  | agnostic r =>
    refine ⟨r, rfl, ?_, ?_⟩
    · have : ∃ l ∈ (match commitTable with | .agnostic r => r.leaves | _ => []), matchTok l.toks commitReq.path = true := by
        decide +kernel
      rw [hc] at this; exact this
    · have : ∀ l ∈ (match commitTable with | .agnostic r => r.leaves | _ => []), l.dispatch commitReq.method ≠ .fallback none [] := by
        decide +kernel
      rw [hc] at this; exact this
  | domains ds f =>
    have : (match commitTable with | .agnostic _ => true | _ => false) = true := by decide +kernel
    rw [hc] at this; cases this

theorem dispatch_spec_statement_false : ¬ dispatch_spec_statement := by
  intro hS
  have hR := hS commitOps commitTable commit_accepted commitReq
  obtain ⟨hd, r, hr, ⟨l, hl, hm⟩, hne⟩ := commit_facts
  rw [hd, hr] at hR
  cases hR with
  | agnostic hRouted =>
    rcases hRouted.inv with ⟨l', hl', he⟩ | ⟨hnone, _⟩
    · exact hne l' hl'.1 he.symm
    · exact hnone l hl hm

/-- **dispatch_designated.** In an accepted path router: if `x` is a registered handler whose method
    guard accepts `m`, whose (prefixed) path pattern matches the request path and is strictly more
    specific than every other entry that matches it, then `x` is the handler that runs. -/
theorem dispatch_designated {comps : List Comp} {fbs : List Fb} {r : PathRouter}
    (h : PathRouter.new comps fbs = .ok r) (hN : NoNestedSuffix r.rset)
    {x : Handler} (hx : x ∈ handlersOf comps) {m : String} (hadm : x.guard.admits m = true)
    {path : List Char}
    (hbest : ∀ l ∈ r.leaves, l.Matches path → l.path ≠ x.path → specGE l.toks (toks x.path) = false) :
    matchTok (toks x.path) path = true → r.dispatch m path = .handler x.h := by
  intro hmatch
  obtain ⟨lx, hlx, hpx, _⟩ := PathRouter.new_reachable h hx hadm
  rcases pathDispatch_spec r hN m path with ⟨l, ⟨hl, hlm, hmax⟩, he⟩ | ⟨hnone, _⟩
  · rw [he]
    by_cases hp : l.path = x.path
    · exact PathRouter.new_designated h hx hadm hl hp
    · have h1 := hbest l hl hlm hp
      have h2 := hmax lx hlx (by simpa [Leaf.Matches, Leaf.toks, hpx] using hmatch)
      simp only [Leaf.toks, hpx] at h2
      simp only [Leaf.toks] at h1
      rw [h1] at h2; cases h2
  · exact absurd (by simpa [Leaf.Matches, Leaf.toks, hpx] using hmatch) (hnone lx hlx)

/-- An accepted blueprint raised no diagnostic during the blueprint walk. -/
theorem compile_no_err {ops : List Op} {t : Table} (h : compile ops = .ok t) : (processBlueprint ops).err = none := by
  unfold compile at h
  simp only at h
  split at h
  · cases h
  · assumption

/-- **route_designated** — from the blueprint to the handler that runs. If the blueprint registers
    handler `hnd` with method guard `g` for path `full` (the route's path behind the prefixes of all
    enclosing nested blueprints: `Reg`), the blueprint is accepted (no domain guards), `g` accepts the
    request method, `full` matches the request path and is strictly more specific than every other
    table entry that matches it, then the generated server runs `hnd`. -/
theorem route_designated {ops : List Op} {r : PathRouter} (h : compile ops = .ok (.agnostic r))
    (hN : NoNestedSuffix r.rset) {hnd : Nat} {g : MGuard} {full : List Char} {d : Option (List Char)}
    (hreg : Reg ops none none hnd g full d) {m : String} (hadm : g.admits m = true) {path : List Char}
    (hmatch : matchTok (toks full) path = true)
    (hbest : ∀ l ∈ r.leaves, l.Matches path → l.path ≠ full → specGE l.toks (toks full) = false) :
    r.dispatch m path = .handler hnd := by
  obtain ⟨x, hx, h1, h2, h3, _⟩ := processBlueprint_registers (compile_no_err h) hreg
  subst h1; subst h2; subst h3
  exact dispatch_designated (compile_agnostic h) hN hx hadm hbest hmatch

set_option maxRecDepth 100000 in
/-- Non-vacuous: in `okOps`, `GET /api/x/y` reaches handler 2, registered as `/{*rest}` inside the
    blueprint nested at `/api`. -/
example : ((compile okOps).toOption.map (fun t => t.dispatch ⟨"GET", "/api/x/y".toList, none⟩)) = some (.handler 2) := by
  decide +kernel

/-- **dispatch_unique_of_no_overlap.** If the entries that match the path are all the same entry
    (no overlap at this path), that entry's method arms answer the request. -/
theorem dispatch_unique_of_no_overlap (r : PathRouter) (hN : NoNestedSuffix r.rset) (m : String) (path : List Char)
    (hNo : ∀ l₁ ∈ r.leaves, ∀ l₂ ∈ r.leaves, l₁.Matches path → l₂.Matches path → l₁ = l₂)
    {l : Leaf} (hl : l ∈ r.leaves) (hm : l.Matches path) : r.dispatch m path = l.dispatch m := by
  rcases pathDispatch_spec r hN m path with ⟨l', ⟨hl', hlm', _⟩, he⟩ | ⟨hnone, _⟩
  · rw [he, hNo l hl l' hl' hm hlm']
  · exact absurd hm (hnone l hl)

/-- **most_specific_unique.** Two most specific matching entries carry the same path pattern (up to
    parameter names): "the" most specific route is well defined. -/
theorem most_specific_unique {r : PathRouter} {l₁ l₂ : Leaf} {path : List Char}
    (h1 : MostSpecific r l₁ path) (h2 : MostSpecific r l₂ path) : l₁.toks = l₂.toks :=
  specGE_antisymm _ _ path h1.2.1 h2.2.1 (h1.2.2 l₂ h2.1 h2.2.1) (h2.2.2 l₁ h1.1 h1.2.1)
    (toks_starLast _) (toks_starLast _)

/-- The literal reading of "the unique handler whose guards match": in an accepted table at most one
    entry matches a path. -/
def dispatch_unique_statement : Prop :=
  ∀ (ops : List Op) (t : Table), compile ops = .ok t → ∀ r ∈ t.pathRouters, ∀ path,
    ∀ l₁ ∈ r.leaves, ∀ l₂ ∈ r.leaves, l₁.Matches path → l₂.Matches path → l₁ = l₂

def overlapOps : List Op := [.route 0 (.some ["GET"]) "/a/{x}".toList, .route 1 (.some ["GET"]) "/a/b".toList]

def overlapTable : Table :=
  match compile overlapOps with
  | .ok t => t
  | .error _ => .agnostic ⟨[], none⟩

set_option maxRecDepth 100000 in
theorem overlap_accepted : compile overlapOps = .ok overlapTable := by decide +kernel

/-- It fails: `/a/{x}` and `/a/b` are accepted together and both match `/a/b` (the request goes to
    `/a/b`, the more specific one: `dispatch_spec`). Known finding C07-specificity-overlap. -/
theorem dispatch_unique_statement_false : ¬ dispatch_unique_statement := by
  intro hS
  have key : ∃ r ∈ overlapTable.pathRouters, ∃ l₁ ∈ r.leaves, ∃ l₂ ∈ r.leaves,
      matchTok l₁.toks "/a/b".toList = true ∧ matchTok l₂.toks "/a/b".toList = true ∧ l₁ ≠ l₂ := by
    decide +kernel
  obtain ⟨r, hr, l₁, h1, l₂, h2, m1, m2, hne⟩ := key
  exact hne (hS overlapOps overlapTable overlap_accepted r hr "/a/b".toList l₁ h1 l₂ h2 m1 m2)

/-- **method_guard_unique.** In an accepted path router two different handlers registered for the
    same path never accept the same method — well-known, custom, or covered only by an `ANY` guard. -/
theorem method_guard_unique {comps : List Comp} {fbs : List Fb} {r : PathRouter}
    (h : PathRouter.new comps fbs = .ok r) {a b : Handler} (ha : a ∈ handlersOf comps) (hb : b ∈ handlersOf comps)
    (hp : b.path = a.path) {m : String} (hma : a.guard.admits m = true) (hmb : b.guard.admits m = true) : a = b := by
  obtain ⟨_, _, _, _, _, hnc, _⟩ := PathRouter.new_leaves h
  exact methodConflict_false hnc ha hb hp hma hmb

set_option maxRecDepth 100000 in
/-- Two handlers for `PURGE /p` (a custom method) are refused, … -/
example : compile [.route 0 (.some ["GET", "PURGE"]) "/p".toList, .route 1 (.some ["POST", "PURGE"]) "/p".toList]
    = .error .methodConflict := by decide +kernel

set_option maxRecDepth 100000 in
/-- … and so is a custom-method handler next to an `ANY` route that includes extension methods. -/
example : compile [.route 0 (.some ["PURGE"]) "/p".toList, .route 1 .any "/p".toList]
    = .error .methodConflict := by decide +kernel

/-! ## 3. The path matches, no method does -/

/-- **allow_exact.** In an accepted path router, if the most specific matching entry has no arm for
    the method and its fallback is a fallback handler `f`, then `f` runs and the methods it sees are
    exactly the methods of the guards registered for that entry's path. -/
theorem allow_exact {comps : List Comp} {fbs : List Fb} {r : PathRouter}
    (h : PathRouter.new comps fbs = .ok r) {l : Leaf} (hl : l ∈ r.leaves) {m : String} {f : Option Nat}
    (hno : ∀ a ∈ l.arms, a.2.2.contains m = false) (hf : l.fb = .fallback f) :
    l.dispatch m = .fallback f l.allowed ∧
    ∀ m', m' ∈ l.allowed ↔ ∃ x ∈ handlersOf comps, x.path = l.path ∧ ∃ ms, x.guard = .some ms ∧ m' ∈ ms := by
  refine ⟨?_, PathRouter.new_allowed h hl hf⟩
  rw [leaf_dispatch_no_arm hno, hf]

set_option maxRecDepth 100000 in
/-- Non-vacuous: in `okOps`, `DELETE /a/b` has a matching path and no matching method: the default
    fallback sees `GET` and `PURGE` and answers `405` with `Allow: GET,PURGE`; `DELETE /a/c` only
    matches `/a/{x}` (registered for `GET`). -/
example : ((compile okOps).toOption.map (fun t =>
      (t.dispatch ⟨"DELETE", "/a/b".toList, none⟩, t.dispatch ⟨"DELETE", "/a/c".toList, none⟩))) =
      some (.fallback none ["GET", "PURGE"], .fallback none ["GET"]) ∧
    defaultFallback ["GET", "PURGE"] = (405, some "GET,PURGE") := by
  constructor
  · decide +kernel
  · decide +kernel

/-- The fallback runs exactly when no arm accepts the method. -/
theorem fallback_iff_no_method {l : Leaf} {m : String} {f : Option Nat} {allowed : List String} :
    l.dispatch m = .fallback f allowed ↔
      (∀ a ∈ l.arms, a.2.2.contains m = false) ∧ l.fb = .fallback f ∧ allowed = l.allowed :=
  leaf_dispatch_fallback_iff

/-- **default_fallback_405.** With at least one allowed method the framework's fallback answers
    `405` and `Allow:` lists exactly the methods it was given. -/
theorem default_fallback_405 {ms : List String} (h : ms ≠ []) :
    defaultFallback ms = (405, some (",".intercalate ms)) := by
  unfold defaultFallback allowHeader
  cases ms with
  | nil => exact absurd rfl h
  | cons a as => simp

/-- **default_fallback_404.** Without allowed methods it answers `404` and sets no `Allow`. -/
theorem default_fallback_404 : defaultFallback [] = (404, none) := by
  simp [defaultFallback, allowHeader]

/-! ## 4. Nothing matches -/

/-- **fallback_innermost** (path level). If no entry matches the path, the root fallback of the path
    router runs, with no allowed methods (default: 404). -/
theorem fallback_innermost (r : PathRouter) (hN : NoNestedSuffix r.rset) (m : String) (path : List Char)
    (hnone : ∀ l ∈ r.leaves, ¬ l.Matches path) : r.dispatch m path = .fallback r.rootFb [] := by
  rcases pathDispatch_spec r hN m path with ⟨l, ⟨hl, hlm, _⟩, _⟩ | ⟨_, he⟩
  · exact absurd hlm (hnone l hl)
  · exact he

/-- **root_fallback_innermost.** The root fallback of an accepted path router is the fallback of the
    innermost blueprint that has one and encloses all the routes and fallbacks of that router. -/
theorem root_fallback_innermost {comps : List Comp} {fbs : List Fb} {r : PathRouter}
    (h : PathRouter.new comps fbs = .ok r) :
    ∃ fb ∈ fbs, r.rootFb = fb.f ∧ fb.bp.isPrefixOf (commonAncestor (comps.map Comp.scope)) = true ∧
      ∀ fb' ∈ fbs, fb'.bp.isPrefixOf (commonAncestor (comps.map Comp.scope)) = true → fb'.bp.length ≤ fb.bp.length := by
  obtain ⟨_, _, _, _, _, _, ⟨rootFb, hroot, hf⟩, _⟩ := PathRouter.new_leaves h
  obtain ⟨hm, hp, hmax⟩ := scopeFallback_spec hroot
  exact ⟨rootFb, hm, hf, hp, hmax⟩

/-- **prefix_fallback.** An entry of an accepted path router that is not the path of a registered
    handler is the catch-all `<prefix>{*catch_all}` of a nested blueprint with that prefix and its
    own fallback `f`: when it is the most specific match, `f` runs and sees no allowed methods. -/
theorem prefix_fallback {comps : List Comp} {fbs : List Fb} {r : PathRouter}
    (h : PathRouter.new comps fbs = .ok r) {l : Leaf} (hl : l ∈ r.leaves)
    (hnot : ¬ ∃ x ∈ handlersOf comps, x.path = l.path) (m : String) :
    ∃ fb ∈ fallbacksOf comps, ∃ pfx, fb.pfx = some pfx ∧ fallbackPath pfx = some l.path ∧
      l.dispatch m = .fallback fb.f [] := by
  rcases (PathRouter.new_entry h hl).2 with hx | ⟨harms, fb, hfb, pfx, h1, h2, h3⟩
  · exact absurd hx hnot
  · refine ⟨fb, hfb, pfx, h1, h2, ?_⟩
    rw [leaf_dispatch_no_arm (by rw [harms]; intro a ha; cases ha), h3]
    simp [Leaf.allowed, harms]

set_option maxRecDepth 100000 in
/-- Non-vacuous: in `okOps`, `/apix` is only matched by `/api{*catch_all}`, the entry of the nested
    blueprint's fallback 0; `/zzz` is matched by nothing: default fallback, `404`. -/
example : ((compile okOps).toOption.map (fun t =>
      (t.dispatch ⟨"GET", "/apix".toList, none⟩, t.dispatch ⟨"GET", "/zzz".toList, none⟩))) =
      some (.fallback (some 0) [], .fallback none []) ∧ defaultFallback [] = (404, none) := by
  constructor
  · decide +kernel
  · decide +kernel

/-- With domain guards: no guard fits the `Host` (or there is no usable `Host`) → the top-level
    fallback, with no allowed methods. -/
theorem no_domain_fallback (ds : List DomainEntry) (f : Option Nat) (hN : NoNestedSuffix (domRset ds)) (req : Request)
    (hnone : ∀ h, req.host.bind hostOf = some h → ∀ d ∈ ds, matchTok d.toks (Pxv.Domain.normHost h) = false) :
    (Table.domains ds f).dispatch req = .fallback f [] := by
  unfold Table.dispatch
  simp only
  cases hh : req.host.bind hostOf with
  | none => rfl
  | some h =>
    simp only
    have spec := atGo_spec (domRset ds) (Pxv.Domain.normHost h) hN
    have e : atRoutes ((List.range ds.length).zip (ds.map (·.pattern))) (Pxv.Domain.normHost h) =
        atGo (domRset ds) (Pxv.Domain.normHost h) := rfl
    rw [e]
    cases ha : atGo (domRset ds) (Pxv.Domain.normHost h) with
    | none => rfl
    | some i =>
      obtain ⟨tk, hm, hmt, _⟩ := spec.1 i ha
      obtain ⟨d, hd, ht⟩ := mem_domRset_iff.mp hm
      have := hnone h hh d (List.mem_of_getElem? hd)
      rw [ht, hmt] at this; cases this

/-! ## 5. The matchit level (used above) -/

/-- `Router::at` over an accepted route set without nested suffixes returns a matching route that is
    at least as specific as every matching route, and finds one whenever one matches. -/
theorem at_spec (S : RSet) (p : List Char) (hN : NoNestedSuffix S) :
    (∀ i, atGo S p = some i → ∃ t, (i, t) ∈ S ∧ matchTok t p = true ∧
        ∀ j t', (j, t') ∈ S → matchTok t' p = true → specGE t t' = true) ∧
    (atGo S p = none → ∀ j t', (j, t') ∈ S → matchTok t' p = false) :=
  atGo_spec S p hN

/-- Completeness of `at` at full strength … -/
def at_complete_statement : Prop :=
  ∀ (S : RSet) (p : List Char) (i : Nat) (t : List Tok), (i, t) ∈ S → matchTok t p = true → (atGo S p).isSome = true

/-- … fails on the faithful model, as it does in the crate (known finding C07-matchit-suffix-commit). -/
theorem at_complete_statement_false : ¬ at_complete_statement := by
  intro hS
  have := hS [(0, toks "/{x}ab/c".toList), (1, toks "/{x}b/d".toList)] "/zab/d".toList 1 (toks "/{x}b/d".toList)
    (by simp) (by decide +kernel)
  revert this
  decide +kernel

/-- The hypothesis of the partial theorems is satisfiable on a table with parameters, a static
    prefix form, suffix forms that are not nested, and a catch-all. -/
example : NoNestedSuffix [(0, toks "/a/{x}".toList), (1, toks "/a/u{x}/c".toList), (2, toks "/f/{n}.json".toList),
    (3, toks "/f/{n}.png".toList), (4, toks "/s/{*rest}".toList)] := by
  apply noNestedSuffix_of_check
  decide +kernel

end Pxv.Router
