import Pxv.Lemmas.Errors
import Pxv.Lemmas.ErrorsSplice
/-!
C06 — errors reach the right handler, every observer, and stop the pipeline.

Model: `Pxv/Model/Errors.lean`. The theorems of part (2) are about `exec`, the model of the code pavexc
generates from one ordered call graph; they hold for **every** graph, every set of failing components and
whatever basic blocks the visitor picks, because they only rest on the binding discipline of the generated
code (`Inv`, proved to be an invariant in `Pxv/Lemmas/Errors.lean`) and on *local* well-formedness of the
error arms (`armsWF`, a decidable predicate the check evaluates on every graph the real pavexc emits).
-/
namespace Pxv.Err
open Pxv.Pipe (Mw MwKind Stage Mid)

/-! ## (1) registration: which observers, which handler -/

/-- the route at an address: `[i₀, …, iₙ]` = item `i₀` of the blueprint is a nested blueprint, item `i₁` of
    that one is a nested blueprint, …, item `iₙ` of the innermost one is the route. -/
def routeAt : Bp → List Nat → Option Nat
  | .nil, _ => none
  | .cons _ _, [] => none
  | .cons (.route h _) _, [0] => some h
  | .cons (.nest b) _, 0 :: i :: more => routeAt b (i :: more)
  | .cons _ _, 0 :: _ => none
  | .cons _ rest, (i + 1) :: more => routeAt rest (i :: more)

/-- **the observers registered before the route at an address**: in each blueprint on the way down, the
    observers registered before the point where the next blueprint is nested (before the route, in the
    innermost one). Nothing registered later, nothing registered in a blueprint that is not on the way. -/
def obsAt : Bp → List Nat → List Nat
  | .nil, _ => []
  | .cons _ _, [] => []
  | .cons (.nest b) _, 0 :: more => obsAt b more
  | .cons _ _, 0 :: _ => []
  | .cons (.obs x) rest, (i + 1) :: more => x :: obsAt rest (i :: more)
  | .cons _ rest, (i + 1) :: more => obsAt rest (i :: more)

/-- **C06 (i) — exactly the observers registered before the route**, for every blueprint tree, by induction
    on the tree: the observer chain `routes` (↔ `_process_blueprint`) hands to a route is what was in force
    on entry followed by `obsAt`. Observers registered after the route, or in a sibling blueprint, are not
    part of it. -/
theorem observers_registered_before : ∀ (b : Bp) (addr : List Nat) (h : Nat) (c : List Mw) (o p : List Nat) (k : Nat),
    routeAt b addr = some h →
    ∃ r ∈ routes b c o p k, r.route = h ∧ r.observers = o ++ obsAt b addr
  | .nil, _, _, _, _, _, _, hr => by simp [routeAt] at hr
  | .cons it rest, [], _, _, _, _, _, hr => by simp [routeAt] at hr
  | .cons it rest, 0 :: more, h, c, o, p, k, hr => by
    cases it with
    | route h' d =>
      cases more with
      | nil =>
        simp only [routeAt, Option.some.injEq] at hr
        subst hr
        exact ⟨⟨h', c, o, p, d⟩, by simp [routes], rfl, by simp [obsAt]⟩
      | cons _ _ => simp [routeAt] at hr
    | nest b' =>
      cases more with
      | nil => simp [routeAt] at hr
      | cons i more' =>
        simp only [routeAt] at hr
        obtain ⟨r, hr1, hr2, hr3⟩ := observers_registered_before b' (i :: more') h c o (p ++ [k]) 0 hr
        exact ⟨r, by simp [routes, hr1], hr2, by simp [obsAt, hr3]⟩
    | ctor _ _ => simp [routeAt] at hr
    | mw _ _ => simp [routeAt] at hr
    | obs _ => simp [routeAt] at hr
    | ehReg _ => simp [routeAt] at hr
  | .cons it rest, (i + 1) :: more, h, c, o, p, k, hr => by
    simp only [routeAt] at hr
    cases it with
    | obs x =>
      obtain ⟨r, hr1, hr2, hr3⟩ := observers_registered_before rest (i :: more) h c (o ++ [x]) p k hr
      exact ⟨r, by simpa [routes] using hr1, hr2, by simp [obsAt, hr3]⟩
    | mw m d =>
      obtain ⟨r, hr1, hr2, hr3⟩ := observers_registered_before rest (i :: more) h (c ++ [m]) o p k hr
      exact ⟨r, by simpa [routes] using hr1, hr2, by simp [obsAt, hr3]⟩
    | route h' d =>
      obtain ⟨r, hr1, hr2, hr3⟩ := observers_registered_before rest (i :: more) h c o p k hr
      exact ⟨r, by simp [routes, hr1], hr2, by simp [obsAt, hr3]⟩
    | nest b' =>
      obtain ⟨r, hr1, hr2, hr3⟩ := observers_registered_before rest (i :: more) h c o p (k + 1) hr
      exact ⟨r, by simp [routes, hr1], hr2, by simp [obsAt, hr3]⟩
    | ctor j d =>
      obtain ⟨r, hr1, hr2, hr3⟩ := observers_registered_before rest (i :: more) h c o p k hr
      exact ⟨r, by simpa [routes] using hr1, hr2, by simp [obsAt, hr3]⟩
    | ehReg j =>
      obtain ⟨r, hr1, hr2, hr3⟩ := observers_registered_before rest (i :: more) h c o p k hr
      exact ⟨r, by simpa [routes] using hr1, hr2, by simp [obsAt, hr3]⟩

/-- a route's observer chain is fixed when the route is registered: nothing registered after it (in its
    own or an enclosing blueprint) is part of it. -/
theorem after_route_invisible (h : Nat) (d : Option Nat) (rest rest' : Bp) (c : List Mw) (o p : List Nat) (k : Nat) :
    (routes (.cons (.route h d) rest) c o p k).head? = (routes (.cons (.route h d) rest') c o p k).head? := by
  simp [routes]

/-- a nested blueprint starts from a snapshot of its parent's chains; what it registers does not leak to
    what the parent registers afterwards (siblings included). -/
theorem nested_is_snapshot (b rest : Bp) (c : List Mw) (o p : List Nat) (k : Nat) :
    routes (.cons (.nest b) rest) c o p k = routes b c o (p ++ [k]) 0 ++ routes rest c o p (k + 1) := by
  simp [routes]

-- observers: o1 before the nest, o2 inside the nested blueprint before the route, o3 inside after the
-- route, o4 in a sibling blueprint, o5 after everything
example : let bp : Bp := .cons (.obs 1) (.cons (.nest (.cons (.obs 4) .nil)) (.cons (.nest (.cons (.obs 2)
      (.cons (.route 7 none) (.cons (.obs 3) .nil)))) (.cons (.obs 5) (.cons (.route 8 none) .nil))))
    routeAt bp [2, 1] = some 7 ∧ obsAt bp [2, 1] = [1, 2] ∧ routeAt bp [4] = some 8 ∧ obsAt bp [4] = [1, 5] ∧
    (routes bp [] [] [] 0).map (fun r => (r.route, r.observers, r.path)) = [(7, [1, 2], [1]), (8, [1, 5], [])] := by
  decide

/-! ### the designated error handler -/

/-- a component-specific handler (`.error_handler(..)` on the registration) always wins. -/
theorem designate_direct (bp : Bp) (targetOf : Nat → Target) (t : Target) (path : List Nat) (k : Nat) :
    designate bp targetOf t path (some k) = .user k := rfl

/-- a handler for the concrete error type, visible from the component's scope, wins over any handler for
    `pavex::Error`, however close the latter is registered. -/
theorem designate_specific_first (bp : Bp) (targetOf : Nat → Target) (t : Target) (path : List Nat) (k : Nat)
    (h : lookupTyped bp targetOf t (path.length + 1) path = some k) :
    designate bp targetOf t path none = .user k := by
  simp [designate, h]

/-- no handler for the concrete type in scope: the user's handler for `pavex::Error` visible from there … -/
theorem designate_fallback (bp : Bp) (targetOf : Nat → Target) (t : Target) (path : List Nat) (k : Nat)
    (h : lookupTyped bp targetOf t (path.length + 1) path = none)
    (hf : lookupTyped bp targetOf .any (path.length + 1) path = some k) :
    designate bp targetOf t path none = .user k := by
  simp [designate, h, hf]

/-- … else the framework's `pavex::Error::to_response`. -/
theorem designate_default (bp : Bp) (targetOf : Nat → Target) (t : Target) (path : List Nat)
    (h : lookupTyped bp targetOf t (path.length + 1) path = none)
    (hf : lookupTyped bp targetOf .any (path.length + 1) path = none) :
    designate bp targetOf t path none = .default := by
  simp [designate, h, hf]

/-- **scoping of by-type handlers**: the handler found is registered, for that error type, in a blueprint
    that encloses (or is) the one the *fallible component* is registered in, and no blueprint in between
    registers one: the innermost enclosing registration wins; blueprints that do not enclose the component
    (siblings, children) are never consulted. -/
theorem lookupTyped_nearest (bp : Bp) (targetOf : Nat → Target) (t : Target) :
    ∀ (fuel : Nat) (path : List Nat) (k : Nat), lookupTyped bp targetOf t fuel path = some k →
      ∃ q, q <+: path ∧ k ∈ ehRegsAt bp q 0 ∧ targetOf k = t ∧
        ∀ q', q <+: q' → q' <+: path → q' ≠ q → ∀ k' ∈ ehRegsAt bp q' 0, targetOf k' ≠ t
  | 0, _, _, h => by simp [lookupTyped] at h
  | fuel + 1, path, k, h => by
    simp only [lookupTyped] at h
    split at h
    · rename_i k0 hk0
      simp only [Option.some.injEq] at h
      subst h
      have hmem := List.mem_of_getLast? hk0
      obtain ⟨hm1, hm2⟩ := List.mem_filter.mp hmem
      refine ⟨path, List.prefix_refl _, hm1, by simpa using hm2, ?_⟩
      intro q' h1 h2 hne
      exact absurd (h2.eq_of_length_le h1.length_le) hne
    · rename_i hnone
      split at h
      · simp at h
      · obtain ⟨q, hq1, hq2, hq3, hq4⟩ := lookupTyped_nearest bp targetOf t fuel path.dropLast k h
        refine ⟨q, hq1.trans (List.dropLast_prefix _), hq2, hq3, ?_⟩
        intro q' h1 h2 hne k' hk'
        by_cases hqp : q' = path
        · subst hqp
          intro hc
          have : k' ∈ (ehRegsAt bp q' 0).filter (fun k => targetOf k == t) :=
            List.mem_filter.mpr ⟨hk', by simpa using hc⟩
          rw [List.getLast?_eq_none_iff] at hnone
          rw [hnone] at this
          cases this
        · exact hq4 q' h1 (prefix_dropLast h2 hqp) hne k' hk'

/-! ## (2) one generated closure -/

/-- **C06 (a) — nothing that depends on the `Ok` value runs.** For every ordered call graph, every failing set
    and every way of running it: if the fallible node `x` inspected by the `MatchBranching` node `b` returned
    `Err`, then no node computed (directly or transitively) from its `Ok` matcher is ever invoked. -/
theorem ok_dependants_skipped (g : Graph) (fails : Kind → Bool) (fuel : Nat) (targets : List Nat)
    (hop : oneParent g = true) (b x okm : Nat)
    (hx : scrutinee g b = some x) (hf : fails (g.kind x) = true)
    (hokm : okm ∈ g.succs b) (hk : g.kind okm = .okMatch) (n : Nat) (hpath : DataPath g okm n) :
    ∀ e ∈ outOf g fails (exec g fails fuel targets [] {}).1, e.node ≠ n := by
  intro e he hen
  have hinv := exec_inv fuel targets [] {} (Inv.init g fails)
  have hop' := OneParent.of_check hop
  have hn := out_bound hinv e he
  rw [hen] at hn
  have hokb := bound_of_path hinv hop' hpath hn
  have hch := hinv.matchers okm hokb (by rw [hk]; rfl)
  obtain ⟨b', x', _, _, hvb', hx', hk'⟩ := hinv.chosen okm hch
  -- `okm` hangs off `b` only
  obtain ⟨e1, he1, hs1, hd1⟩ := mem_succs.mp hokm
  obtain ⟨e2, he2, hs2, hd2⟩ := mem_succs.mp hvb'
  have := hop' okm (by rw [hk]; rfl) e1 he1 e2 he2 hd1 hd2
  rw [hs1, hs2] at this
  subst this
  rw [hx] at hx'
  cases hx'
  rw [hf, hk] at hk'
  cases hk'

/-- the same for the other side: what hangs off an `Err` matcher only runs if its arm was entered. -/
theorem arm_entered_of_ran (g : Graph) (fails : Kind → Bool) (fuel : Nat) (targets : List Nat)
    (hop : oneParent g = true) (m n : Nat) (hk : g.kind m = .errMatch) (hpath : DataPath g m n)
    (e : Ev) (he : e ∈ outOf g fails (exec g fails fuel targets [] {}).1) (hen : e.node = n) :
    m ∈ (exec g fails fuel targets [] {}).1.errs := by
  have hinv := exec_inv fuel targets [] {} (Inv.init g fails)
  have hn := out_bound hinv e he
  rw [hen] at hn
  have hmb := bound_of_path hinv (OneParent.of_check hop) hpath hn
  exact (hinv.errs m).mpr ⟨hinv.matchers m hmb (by rw [hk]; rfl), hk⟩

/-- **C06 (b) — the designated error handler runs exactly once, and no other.** In a well-formed graph, if
    the closure returned through the `Err` arm of the matcher `m` (the only arm of that kind entered, and the
    last arm entered), then among everything that ran there is exactly one invocation of an error handler:
    the handler `h` that hangs off `m`. -/
theorem handler_once (g : Graph) (fails : Kind → Bool) (fuel : Nat) (targets : List Nat)
    (hwf : armsWF g = true) (st : St) (r m h : Nat) (rest : List Nat)
    (hexec : exec g fails fuel targets [] {} = (st, some r))
    (herrs : st.errs = [m]) (hlast : st.chosen = m :: rest)
    (hh : isEh (g.kind h) = true) (hm : m ∈ ehMatchers g h) :
    (outOf g fails st).filter (fun e => isEh e.kind) = [Ev.call h (g.kind h)] := by
  have wf := ArmsWF.of_check hwf
  have hinv : Inv g fails st := by
    have := exec_inv fuel targets [] {} (Inv.init g fails); rw [hexec] at this; exact this
  have hnd : st.ran.Nodup := by
    have := exec_ran_nodup (g := g) (fails := fails) fuel targets [] {} (by simp) (by simp)
    rw [hexec] at this; exact this
  obtain ⟨hrb, hret⟩ := exec_ret fuel targets [] {} st r hexec
  have hk := mem_ehMatchers_kind hm
  -- the returned terminal lies below `m`, hence is computed from `h`
  have hrs : r ∈ g.sinksOf m := by
    rcases hret with ⟨hc, _⟩ | ⟨v, rest', hc, hr⟩
    · rw [hlast] at hc; cases hc
    · rw [hlast] at hc; cases hc; exact hr
  have hhb : h ∈ st.bound := bound_of_path hinv wf.oneParent (wf.sinks m h hk hh hm r hrs) hrb
  have hhr : h ∈ st.ran := hinv.boundRan h hhb (isEh_not_structural hh) (isEh_not_unit hh)
  unfold outOf
  rw [filter_eh_out]
  rw [filter_all_eq hnd hhr hh]
  · rfl
  · intro n hn hne
    obtain ⟨m', hm'⟩ := wf.ehMatcher n hne
    have hm'mem : m' ∈ ehMatchers g n := by rw [hm']; exact List.mem_singleton.mpr rfl
    have hnb := (hinv.ran n hn).1
    have hm'b := bound_of_path hinv wf.oneParent (ehMatchers_path hm'mem) hnb
    have hk' := mem_ehMatchers_kind hm'mem
    have : m' ∈ st.errs := (hinv.errs m').mpr ⟨hinv.matchers m' hm'b (by rw [hk']; rfl), hk'⟩
    rw [herrs] at this
    have : m' = m := by simpa using this
    subst this
    exact wf.oneHandler m' n h hne hh hm'mem hm

/-- **C06 (c) — every observer runs exactly once, in order, after the error handler and right before the
    handler's response is turned into the closure's return value.** In a well-formed graph, if the closure
    returned through the `Err` arm of `m`, whose handler is `h` and whose handler's only consumer is `ir`
    (its `IntoResponse`), then
    * the invocations of output-less components (the observers) during the whole run are exactly the chain
      that happens before `ir`, in chain order, once each;
    * they sit between the handler's invocation and `ir`: the run is `A ++ observers ++ [ir] ++ B` with the
      handler's call in `A`. -/
theorem observers_once_in_order (g : Graph) (fails : Kind → Bool) (fuel : Nat) (targets : List Nat)
    (hwf : armsWF g = true) (st : St) (r m h ir : Nat) (rest : List Nat)
    (hexec : exec g fails fuel targets [] {} = (st, some r))
    (herrs : st.errs = [m]) (hlast : st.chosen = m :: rest)
    (hh : isEh (g.kind h) = true) (hm : m ∈ ehMatchers g h)
    (hir : g.dataPreds ir = [h]) (honly : ∀ c, h ∈ g.dataPreds c → c = ir)
    (hirk : isUnit (g.kind ir) = false ∧ isStructural (g.kind ir) = false) :
    let observers := (chainOf g g.size ir).map (fun p => Ev.call p (g.kind p))
    (outOf g fails st).filter (fun e => isUnit e.kind) = observers ∧
    ∃ A B, outOf g fails st = A ++ observers ++ [evAt g fails ir] ++ B ∧
      Ev.call h (g.kind h) ∈ A := by
  intro observers
  have wf := ArmsWF.of_check hwf
  have hinv : Inv g fails st := by
    have := exec_inv fuel targets [] {} (Inv.init g fails); rw [hexec] at this; exact this
  have hnd : st.ran.Nodup := by
    have := exec_ran_nodup (g := g) (fails := fails) fuel targets [] {} (by simp) (by simp)
    rw [hexec] at this; exact this
  obtain ⟨hrb, hret⟩ := exec_ret fuel targets [] {} st r hexec
  have hk := mem_ehMatchers_kind hm
  have hrs : r ∈ g.sinksOf m := by
    rcases hret with ⟨hc, _⟩ | ⟨v, rest', hc, hr⟩
    · rw [hlast] at hc; cases hc
    · rw [hlast] at hc; cases hc; exact hr
  have hpath := wf.sinks m h hk hh hm r hrs
  -- `ir` ran: the returned terminal is computed from `h` through its only consumer
  have hirb : ir ∈ st.bound := by
    rcases dataPath_head hpath with rfl | ⟨c, hc, hcr⟩
    · -- `h` itself cannot be a terminal: `ir` consumes it
      have hs := sinksOf_no_succs hrs
      have : h ∈ g.dataPreds ir := by rw [hir]; exact List.mem_singleton.mpr rfl
      obtain ⟨e, he, hes, hed, _⟩ := mem_dataPreds.mp this
      have : ir ∈ g.succs h := mem_succs.mpr ⟨e, he, hes, hed⟩
      rw [hs] at this; cases this
    · have := honly c hc
      subst this
      exact bound_of_path hinv wf.oneParent hcr hrb
  have hirr : ir ∈ st.ran := hinv.boundRan ir hirb hirk.2 hirk.1
  have hranu : ∀ n ∈ st.ran, isUnit (g.kind n) = false := fun n hn => (hinv.ran n hn).2.2
  -- calls are inlined in front of `ir` only
  have hfrag : ∀ n ∈ st.ran, n ≠ ir → frag g g.size n = [] := by
    intro n hn hne
    have hub : unitBefores g n = [] := by
      cases hub : unitBefores g n with
      | nil => rfl
      | cons p ps =>
        exfalso
        obtain ⟨h', hd', hh', _⟩ := wf.inlined n (hranu n hn) (by rw [hub]; simp)
        obtain ⟨m', hm'⟩ := wf.ehMatcher h' hh'
        have hm'mem : m' ∈ ehMatchers g h' := by rw [hm']; exact List.mem_singleton.mpr rfl
        have hnb := (hinv.ran n hn).1
        have hh'b : h' ∈ st.bound :=
          bound_closed hinv wf.oneParent hnb (by rw [hd']; exact List.mem_singleton.mpr rfl)
        have hm'b := bound_of_path hinv wf.oneParent (ehMatchers_path hm'mem) hh'b
        have hk' := mem_ehMatchers_kind hm'mem
        have : m' ∈ st.errs := (hinv.errs m').mpr ⟨hinv.matchers m' hm'b (by rw [hk']; rfl), hk'⟩
        rw [herrs] at this
        have : m' = m := by simpa using this
        subst this
        have := wf.oneHandler m' h' h hh' hh hm'mem hm
        subst this
        exact hne (honly n (by rw [hd']; exact List.mem_singleton.mpr rfl))
    cases hsz : g.size with
    | zero => rfl
    | succ k => simp [frag, hub]
  obtain ⟨r1, r2, hsplit⟩ := List.append_of_mem hirr
  have hr1 : ∀ n ∈ r1, n ≠ ir := by
    intro n hn hne
    subst hne
    rw [hsplit] at hnd
    have := (List.nodup_append.mp hnd).2.2 n hn n List.mem_cons_self
    exact this rfl
  have hr2 : ∀ n ∈ r2, n ≠ ir := by
    intro n hn hne
    subst hne
    rw [hsplit] at hnd
    have := (List.nodup_cons.mp (List.nodup_append.mp hnd).2.1).1
    exact this hn
  have hfragir : frag g g.size ir = observers := frag_eq_chain wf.single g.size ir
  constructor
  · unfold outOf
    rw [filter_unit_out g fails st.ran hranu, hsplit]
    simp only [List.flatMap_append, List.flatMap_cons]
    have h1 : r1.flatMap (frag g g.size) = [] := by
      apply List.flatMap_eq_nil_iff.mpr
      intro n hn
      exact hfrag n (by rw [hsplit]; exact List.mem_append_left _ hn) (hr1 n hn)
    have h2 : r2.flatMap (frag g g.size) = [] := by
      apply List.flatMap_eq_nil_iff.mpr
      intro n hn
      exact hfrag n (by rw [hsplit]; exact List.mem_append_right _ (List.mem_cons_of_mem _ hn)) (hr2 n hn)
    rw [h1, h2, hfragir]; simp
  · refine ⟨r1.flatMap (emit g fails), r2.flatMap (emit g fails), ?_, ?_⟩
    · unfold outOf
      rw [hsplit]
      simp only [List.flatMap_append, List.flatMap_cons, emit, hfragir]
      simp [List.append_assoc]
    · have hh1 : h ∈ r1 := hinv.order r1 ir r2 hsplit h (by rw [hir]; exact List.mem_singleton.mpr rfl)
        (isEh_not_structural hh) (isEh_not_unit hh)
      apply List.mem_flatMap.mpr
      refine ⟨h, hh1, ?_⟩
      simp [emit, evAt, isEh_not_canFail hh]

/-! ## (3) the pipeline -/

/-- **C06 (d) — the response of the closure is the error handler's.** Under the hypotheses of `handler_once`
    for the graph of a middleware / handler closure, the closure ends with the response of `h`. -/
theorem closure_status_is_handlers (env : Env) (k : Kind) (root : Nat)
    (hwf : armsWF (env.graphOf k) = true) (hroot : findRoot (env.graphOf k) = some root)
    (st : St) (r m h : Nat) (rest : List Nat)
    (hexec : exec (env.graphOf k) env.fails ((env.graphOf k).size + 1) (happySink (env.graphOf k) root) [] {} = (st, some r))
    (herrs : st.errs = [m]) (hlast : st.chosen = m :: rest)
    (hh : isEh ((env.graphOf k).kind h) = true) (hm : m ∈ ehMatchers (env.graphOf k) h) :
    (runClosure env k).outcome = .err (ehStatus env ((env.graphOf k).kind h)) := by
  have hone := handler_once (env.graphOf k) env.fails _ _ hwf st r m h rest hexec herrs hlast hh hm
  simp only [runClosure, runGraph, hroot, hexec, herrs, lastEhStatus, hone]
  simp [Ev.kind]

/-- a closure that returned normally leaves the response alone. -/
theorem statusOr_ok (s : Nat) : Outcome.ok.statusOr s = s := rfl

/-- **C06 (e) — the remaining post-processing does not replace the handler's response**: post-processing
    middlewares whose closures end normally hand on the status they received. -/
theorem posts_keep_status (env : Env) : ∀ (qs : List Nat) (s : Nat),
    (∀ q ∈ qs, (runClosure env (.mw q)).outcome = .ok) → (runPostsE env qs s).2.1 = s
  | [], _, _ => rfl
  | q :: qs, s, h => by
    simp only [runPostsE]
    rw [h q List.mem_cons_self]
    exact posts_keep_status env qs s (fun q' hq' => h q' (List.mem_cons_of_mem _ hq'))

/-- … and a post-processing middleware that fails replaces it with its own error handler's response. -/
theorem post_error_replaces (env : Env) (q : Nat) (qs : List Nat) (s e : Nat)
    (hq : (runClosure env (.mw q)).outcome = .err e)
    (hrest : ∀ q' ∈ qs, (runClosure env (.mw q')).outcome = .ok) :
    (runPostsE env (q :: qs) s).2.1 = e := by
  simp only [runPostsE, hq, Outcome.statusOr]
  exact posts_keep_status env qs e hrest

/-- **C06 (f) — an error in a pre-processing middleware (or in what it needs) stops the stage**: the later
    pre-processors, the wrapping middleware / handler of the stage and everything inside it do not run;
    the stage's post-processors receive the error handler's response. -/
theorem pre_error_stops_stage (env : Env) (s : Stage) (rest : List Stage) (e : Nat)
    (h : (runPresE env s.pres).2.1 = some e) :
    (runStagesE env (s :: rest)).evs = (runPresE env s.pres).1 ++ (runPostsE env s.posts e).1 ∧
    (runStagesE env (s :: rest)).status = (runPostsE env s.posts e).2.1 := by
  simp [runStagesE, h]

theorem pres_error_first (env : Env) (p : Nat) (ps : List Nat) (e : Nat)
    (hp : (runClosure env (.mw p)).outcome = .err e) :
    runPresE env (p :: ps) = (expand [.pre p] (runClosure env (.mw p)).evs, some e, (runClosure env (.mw p)).stuck) := by
  simp [runPresE, hp]

/-- **C06 (g) — an error in the handler's closure**: the stage answers with the error handler's response
    (after the stage's post-processing), whatever the handler would have returned. -/
theorem handler_error_status (env : Env) (s : Stage) (rest : List Stage) (h e : Nat)
    (hmid : s.mid = .handler h) (hpres : (runPresE env s.pres).2.1 = none)
    (herr : (runClosure env (.handler h)).outcome = .err e)
    (hposts : ∀ q ∈ s.posts, (runClosure env (.mw q)).outcome = .ok) :
    (runStagesE env (s :: rest)).status = e := by
  simp only [runStagesE, hpres, hmid, runMid, herr, Outcome.statusOr]
  exact posts_keep_status env s.posts e hposts

/-- **C06 (h) — an error in a wrapping middleware's closure before `next` is awaited** (one of its inputs, or
    the middleware itself): the inner stages do not run at all, and the stage answers with the error
    handler's response. -/
theorem wrap_error_skips_inner (env : Env) (s : Stage) (rest : List Stage) (w e : Nat)
    (hmid : s.mid = .wrap w) (hpres : (runPresE env s.pres).2.1 = none)
    (hnot : rootCalled (runClosure env (.mw w)).evs = false)
    (herr : (runClosure env (.mw w)).outcome = .err e)
    (hposts : ∀ q ∈ s.posts, (runClosure env (.mw q)).outcome = .ok) :
    (runStagesE env (s :: rest)).evs =
      (runPresE env s.pres).1 ++ expand [] (runClosure env (.mw w)).evs ++ (runPostsE env s.posts e).1 ∧
    (runStagesE env (s :: rest)).status = e := by
  simp only [runStagesE, hpres, hmid, runMid, hnot, herr, Outcome.statusOr, Bool.false_eq_true, ↓reduceIte]
  exact ⟨trivial, posts_keep_status env s.posts e hposts⟩

/-- **C06 (h′) — an error in the entry closure** (the synthetic `wrap_noop` stage builds the request-scoped
    values shared by several later stages): no middleware and no handler runs at all, the client sees the
    error handler's response. -/
theorem entry_error_stops_route (env : Env) (chain : List Mw) (h e : Nat)
    (hnot : rootCalled (runClosure env .noop).evs = false)
    (herr : (runClosure env .noop).outcome = .err e) :
    runRoute env chain h = ⟨expand [] (runClosure env .noop).evs, e, (runClosure env .noop).stuck⟩ := by
  simp [runRoute, hnot, herr, Outcome.statusOr]

/-- what a closure contributes to the trace when its root is not reached: constructor invocations,
    failures, error handlers and observers only — no middleware, no handler event. -/
theorem expand_nil_no_pipeline_events : ∀ (evs : List Ev), ∀ p ∈ expand [] evs,
    (∃ i, p = .ctor i) ∨ (∃ i, p = .failCtor i) ∨ (∃ i, p = .failHandler i) ∨ (∃ i, p = .failMw i) ∨
    (∃ k, p = .eh k) ∨ (∃ o, p = .observer o)
  | [], p, hp => by simp [expand] at hp
  | ev :: rest, p, hp => by
    simp only [expand, List.mem_append] at hp
    rcases hp with hp | hp
    · split at hp
      · simp at hp
      · cases ev with
        | call n k => cases k <;> simp_all [evOf]
        | fail n k => cases k <;> simp_all [evOf]
    · exact expand_nil_no_pipeline_events rest p hp

/-- when does a closure not reach its root? whenever a fallible node the root is computed from failed:
    the root (middleware / handler) is then not invoked, so, for a wrapping middleware, `next` is never
    awaited. -/
theorem root_not_called (g : Graph) (fails : Kind → Bool) (fuel : Nat) (targets : List Nat)
    (hop : oneParent g = true) (b x okm : Nat)
    (hx : scrutinee g b = some x) (hf : fails (g.kind x) = true)
    (hokm : okm ∈ g.succs b) (hk : g.kind okm = .okMatch)
    (hroots : ∀ n k, g.kind n = k → isRootCall (.call n k) = true → DataPath g okm n) :
    rootCalled (outOf g fails (exec g fails fuel targets [] {}).1) = false := by
  have hinv := exec_inv fuel targets [] {} (Inv.init g fails)
  apply Bool.eq_false_iff.mpr
  intro hc
  simp only [rootCalled, List.any_eq_true] at hc
  obtain ⟨e, he, hroot⟩ := hc
  have hkind : e = Ev.call e.node (g.kind e.node) := by
    -- an event that is a root call is the statement of its node
    simp only [outOf, List.mem_flatMap, emit, List.mem_append, List.mem_singleton] at he
    obtain ⟨n, hn, he⟩ := he
    rcases he with he | rfl
    · have hu := frag_unit g g.size n e he
      cases e with
      | call n' k' => cases k' <;> simp_all [isRootCall, isUnit, Ev.kind]
      | fail n' k' => simp [isRootCall] at hroot
    · unfold evAt at hroot ⊢
      split
      · rename_i hcf; simp [hcf, isRootCall] at hroot
      · rfl
  have hpath := hroots e.node (g.kind e.node) rfl (by rw [← hkind]; exact hroot)
  exact ok_dependants_skipped g fails fuel targets hop b x okm hx hf hokm hk e.node hpath e he rfl

/-! ## the observer splice and `enforce_invariants` -/

/-- **C06 (k) — the chain the splice builds is the registration order.** For every graph and every handler
    child in front of which nothing is inlined yet: after `attachObservers` (↔ the `for error_observer_id`
    loop and the final happens-before edge), the chain of output-less nodes that the generated code inlines in
    front of `child` (`chainOf`, what `observers_once_in_order` says runs) consists of the observers `obs`,
    in that order. -/
theorem spliced_chain_is_registration_order (g : Graph) (hc : Closed g) (enew child : Nat)
    (hchild : child < g.size) (hub : unitBefores g child = []) (obs : List Nat)
    (h : Nat) (hh : h < g.size) (hout : isUnit (g.kind h) = false) (hne : obs ≠ []) :
    let g' := attachObservers g enew child obs (some h)
    (chainOf g' g'.size child).map (fun n => observerId (g'.kind n)) = obs.map some := by
  intro g'
  obtain ⟨h1, h2⟩ := attachObservers_chain g hc enew child hchild hub obs (some h)
    (by intro p hp; cases hp; exact ⟨hh, hout⟩) (by intro h0; exact absurd h0 hne)
  show (chainOf g' g'.size child).map _ = _
  rw [h1]
  apply List.ext_getElem
  · simp
  · intro i hi1 hi2
    simp only [List.length_map, List.length_range] at hi1
    simp only [List.getElem_map, List.getElem_range]
    rw [h2 i hi1]
    rfl

/-- the splice adds exactly one observer node per observer and per error handler it fires for, and no
    other node. -/
theorem splice_nodes (obs : List Nat) : ∀ (hs : List Nat) (g : Graph),
    ∃ extra, (splice obs g hs).nodes = g.nodes ++ extra ∧
      (extra.filter isObserver).length = fired obs g hs * obs.length ∧
      (extra.filter (· == .branch)).length = 0
  | [], g => ⟨[], by simp [splice], by simp [fired], by simp⟩
  | h :: hs, g => by
    simp only [splice, fired]
    by_cases hobs : obs.isEmpty = true
    · simp only [hobs, ↓reduceIte]
      exact ⟨[], by simp, by simp, by simp⟩
    · simp only [hobs, Bool.false_eq_true, ↓reduceIte]
      cases hc : (g.succs h).head? with
      | none => simpa [hc] using splice_nodes obs hs g
      | some child =>
        cases he : errorNewOf g h with
        | none => simpa [hc, he] using splice_nodes obs hs g
        | some enew =>
          simp only []
          obtain ⟨extra, h1, h2, h3⟩ := splice_nodes obs hs (attachObservers g enew child obs (some h))
          refine ⟨obs.map Kind.observer ++ extra, ?_, ?_, ?_⟩
          · rw [h1, attachObservers_nodes]; simp
          · have : ((obs.map Kind.observer).filter isObserver).length = obs.length := by
              rw [List.filter_eq_self.mpr]
              · simp
              · intro k hk
                obtain ⟨o, _, rfl⟩ := List.mem_map.mp hk
                rfl
            rw [List.filter_append, List.length_append, this, h2, Nat.add_mul]
            omega
          · have : ((obs.map Kind.observer).filter (· == .branch)).length = 0 := by
              rw [List.filter_eq_nil_iff.mpr]
              · rfl
              · intro k hk
                obtain ⟨o, _, rfl⟩ := List.mem_map.mp hk
                simp
            rw [List.filter_append, List.length_append, this, h3]

theorem inject_nodes : ∀ (xs : List Nat) (g : Graph),
    (xs.foldl injectOne g).nodes = g.nodes ++ List.replicate (injected g xs) Kind.branch
  | [], g => by simp [injected]
  | x :: xs, g => by
    rw [List.foldl_cons, inject_nodes xs]
    simp only [injected]
    cases hc : (((g.succs x).filter (fun m => g.kind m == .okMatch || g.kind m == .errMatch)).length != 2) with
    | true =>
      rw [injectOne_nodes_not g x hc]
      simp
    | false =>
      rw [injectOne_nodes_of g x hc]
      simp [List.replicate_succ]

/-- **C06 (j) — `enforce_invariants`, proved**: in the graph pavexc generates code from, the number of
    observer nodes is the number of `MatchBranching` nodes times the number of observers — for every graph `g`
    without observers and branching nodes yet, *provided* every error whose matchers get a `MatchBranching`
    node also has its error handler reached by the splice (`fired = injected`; this is what the fixed point of
    `build_call_graph` delivers — one handler per fallible node, each with its `IntoResponse` child and its
    `pavex::Error::new` — and what the check validates on every real graph). -/
theorem n_observers_invariant_partial (obs : List Nat) (g : Graph)
    (h0 : countKind g isObserver = 0) (hb : countKind g (· == .branch) = 0)
    (hfix : fired obs g (ehNodes g) * obs.length =
      injected (spliceAll obs g) (fallibleNodes (spliceAll obs g)) * obs.length) :
    invariantHolds (injectBranching (spliceAll obs g)) obs.length = true := by
  obtain ⟨extra, h1, h2, h3⟩ := splice_nodes obs (ehNodes g) g
  have hn := inject_nodes (fallibleNodes (spliceAll obs g)) (spliceAll obs g)
  simp only [invariantHolds, injectBranching, countKind, beq_iff_eq]
  rw [hn]
  simp only [spliceAll] at hn h1 ⊢
  rw [h1]
  simp only [List.filter_append, List.length_append]
  simp only [countKind] at h0 hb
  have hr1 : ((List.replicate (injected (splice obs g (ehNodes g)) (fallibleNodes (splice obs g (ehNodes g)))) Kind.branch).filter isObserver).length = 0 := by
    rw [List.filter_eq_nil_iff.mpr]
    · rfl
    · intro k hk
      rw [(List.mem_replicate.mp hk).2]
      simp [isObserver]
  have hr2 : ((List.replicate (injected (splice obs g (ehNodes g)) (fallibleNodes (splice obs g (ehNodes g)))) Kind.branch).filter (· == .branch)).length
      = injected (splice obs g (ehNodes g)) (fallibleNodes (splice obs g (ehNodes g))) := by
    rw [List.filter_eq_self.mpr]
    · simp
    · intro k hk
      rw [(List.mem_replicate.mp hk).2]
      simp
  rw [h0, hb, h2, h3, hr1, hr2]
  simp only [spliceAll] at hfix
  simp [hfix]

/-- **C06 (j′) — `enforce_invariants` from static hypotheses on the graph before the splice**: no observer
    or branching node yet; every edge joins two nodes; every error handler has its `IntoResponse` child (not a
    matcher) and its `pavex::Error::new`; every fallible node has its two matchers; one error handler per
    fallible node. Then, for every list of observers, after the splice and the branching injection the
    number of observer nodes is the number of `MatchBranching` nodes times the number of observers.
    (The splice fires for every handler because attaching observers to one handler leaves what it looks at
    for the others untouched — `Ext`; likewise for the injection — `Rel`.) -/
theorem n_observers_invariant (obs : List Nat) (g : Graph) (hc : Closed g)
    (h0 : countKind g isObserver = 0) (hb : countKind g (· == .branch) = 0)
    (hel : obs.isEmpty = false → Eligible g (ehNodes g))
    (hchild : ∀ x ∈ ehNodes g, ∀ c, (g.succs x).head? = some c → g.kind c ≠ .errMatch)
    (hfall : ∀ x ∈ fallibleNodes g, (matcherSuccs g x).length = 2)
    (hone : (ehNodes g).length = (fallibleNodes g).length) :
    invariantHolds (injectBranching (spliceAll obs g)) obs.length = true := by
  apply n_observers_invariant_partial obs g h0 hb
  cases hne : obs.isEmpty with
  | true =>
    have : obs = [] := by simpa using hne
    subst this
    simp
  | false =>
    obtain ⟨hf, hext⟩ := splice_fired obs hne g hc (ehNodes g) g (ehNodes g) (fun _ h => h)
      (Ext.refl _ g) (hel hne)
    have hC : ∀ d, ChildOf g (ehNodes g) d → d < g.size ∧ g.kind d ≠ .errMatch := by
      rintro d ⟨x, hx, hd⟩
      exact ⟨succs_lt hc (List.mem_of_mem_head? hd), hchild x hx d hd⟩
    have hfn : fallibleNodes (spliceAll obs g) = fallibleNodes g := hext.fallibleNodes_eq hc hC
    have hc1 : Closed (spliceAll obs g) := splice_closed obs _ g hc
    have hinj : injected (spliceAll obs g) (fallibleNodes (spliceAll obs g)) = (fallibleNodes g).length := by
      rw [hfn]
      apply injected_eq_length (spliceAll obs g) hc1 (fallibleNodes g) (spliceAll obs g) [] (Rel.refl _)
      · exact List.Nodup.sublist List.filter_sublist List.nodup_range
      · intro x hx
        have hxlt : x < g.size := List.mem_range.mp (List.mem_filter.mp hx).1
        refine ⟨Nat.lt_of_lt_of_le hxlt hext.size_le, by simp, ?_⟩
        rw [show spliceAll obs g = splice obs g (ehNodes g) from rfl, hext.matcherSuccs_eq hc x hxlt]
        exact hfall x hx
    rw [hf, hinj, hone]

/-- the same, from the executable check the driver evaluates on every real graph (with the observers and
    branching nodes removed). -/
theorem n_observers_invariant_of_check (obs : List Nat) (g : Graph) (h : spliceReady g (!obs.isEmpty) = true) :
    invariantHolds (injectBranching (spliceAll obs g)) obs.length = true := by
  simp only [spliceReady, Bool.and_eq_true, beq_iff_eq] at h
  obtain ⟨⟨⟨⟨⟨hc, h0⟩, hb⟩, hel⟩, hfall⟩, hone⟩ := h
  have hel' := List.all_eq_true.mp hel
  apply n_observers_invariant obs g ?_ h0 hb ?_ ?_ ?_ hone
  · intro e he
    have := List.all_eq_true.mp hc e he
    simpa using this
  · intro hne x hx
    have := hel' x hx
    simp only [Bool.and_eq_true, decide_eq_true_eq, hne, Bool.not_false, Bool.not_true, Bool.false_or] at this
    exact ⟨this.1.1.1, this.1.1.2, this.1.2⟩
  · intro x hx c hcx
    have := hel' x hx
    simp only [Bool.and_eq_true, hcx, bne_iff_ne] at this
    exact this.2
  · intro x hx
    have := List.all_eq_true.mp hfall x hx
    simpa using this

/-! ### non-vacuity: a handler that takes `&T0` and returns `Result`, with a specific error handler and
two observers; the constructor of `T0` is fallible too (fallback handler).

positions: 0 `c0` · 1 `match` · 2 Err(c0) · 3 `Error::new` · 4 default handler · 5 o0 · 6 o1 · 7 into_response ·
8 Ok(c0) · 9 `h0` · 10 `match` · 11 Err(h0) · 12 x3 · 13 `Error::new` · 14 o0 · 15 o1 · 16 into_response ·
17 Ok(h0) · 18 into_response -/
def demo : Graph :=
  ⟨[.ctor 0, .branch, .errMatch, .errorNew, .ehDefault, .observer 0, .observer 1, .intoResponse,
    .okMatch, .handler 0, .branch, .errMatch, .eh 3, .errorNew, .observer 0, .observer 1, .intoResponse,
    .okMatch, .intoResponse],
   [⟨0, 1, .move⟩, ⟨1, 2, .move⟩, ⟨1, 8, .move⟩, ⟨2, 3, .move⟩, ⟨3, 4, .shared⟩, ⟨3, 5, .shared⟩, ⟨3, 6, .shared⟩,
    ⟨5, 6, .before⟩, ⟨6, 7, .before⟩, ⟨4, 7, .move⟩, ⟨8, 9, .shared⟩, ⟨9, 10, .move⟩, ⟨10, 11, .move⟩,
    ⟨10, 17, .move⟩, ⟨11, 12, .shared⟩, ⟨11, 13, .move⟩, ⟨13, 14, .shared⟩, ⟨13, 15, .shared⟩, ⟨14, 15, .before⟩,
    ⟨15, 16, .before⟩, ⟨12, 16, .move⟩, ⟨17, 18, .move⟩]⟩

example : armsWF demo = true := by decide
example : armShape demo 10 (.eh 3) false [0, 1] = true ∧ armShape demo 1 .ehDefault true [0, 1] = true := by decide
-- nothing fails: the constructor, then the handler
example : outOf demo (fun _ => false) (runGraph demo (fun _ => false)).1 =
    [.call 0 (.ctor 0), .call 9 (.handler 0), .call 18 .intoResponse] := by decide
-- the handler fails: its own error handler, then the two observers, in order, then the response
example : let fails := fun k => k == Kind.handler 0
    outOf demo fails (runGraph demo fails).1 =
      [.call 0 (.ctor 0), .fail 9 (.handler 0), .call 12 (.eh 3), .call 13 .errorNew,
       .call 14 (.observer 0), .call 15 (.observer 1), .call 16 .intoResponse] ∧
    (runGraph demo fails).1.errs = [11] ∧ (runGraph demo fails).1.chosen = [11, 8] := by decide
-- the constructor fails (and the handler would): only the first failure matters, the handler never runs
example : let fails := fun k => k == Kind.handler 0 || k == Kind.ctor 0
    outOf demo fails (runGraph demo fails).1 =
      [.fail 0 (.ctor 0), .call 3 .errorNew, .call 4 .ehDefault, .call 5 (.observer 0), .call 6 (.observer 1),
       .call 7 .intoResponse] ∧ (runGraph demo fails).1.errs = [2] := by decide
-- the hypotheses of `ok_dependants_skipped` / `handler_once` / `observers_once_in_order` are satisfiable
example : scrutinee demo 1 = some 0 ∧ 8 ∈ demo.succs 1 ∧ demo.kind 8 = .okMatch ∧
    DataPath demo 8 9 ∧ 11 ∈ ehMatchers demo 12 ∧ demo.dataPreds 16 = [12] :=
  ⟨by decide, by decide, by decide, .single (by decide), by decide, by decide⟩

/-- `demo` before the splice and the branching: 0 `c0` · 1 Err(c0) · 2 `Error::new` · 3 default handler ·
    4 into_response · 5 Ok(c0) · 6 `h0` · 7 Err(h0) · 8 x3 · 9 `Error::new` · 10 into_response · 11 Ok(h0) ·
    12 into_response -/
def demo0 : Graph :=
  ⟨[.ctor 0, .errMatch, .errorNew, .ehDefault, .intoResponse, .okMatch, .handler 0, .errMatch, .eh 3, .errorNew,
    .intoResponse, .okMatch, .intoResponse],
   [⟨0, 1, .move⟩, ⟨0, 5, .move⟩, ⟨1, 2, .move⟩, ⟨2, 3, .shared⟩, ⟨3, 4, .move⟩, ⟨5, 6, .shared⟩, ⟨6, 7, .move⟩,
    ⟨6, 11, .move⟩, ⟨7, 8, .shared⟩, ⟨7, 9, .move⟩, ⟨8, 10, .move⟩, ⟨11, 12, .move⟩]⟩

-- the hypotheses of `n_observers_invariant_partial` hold on it: two errors, two handlers reached, 2 × 2 observers
example : countKind demo0 isObserver = 0 ∧ countKind demo0 (· == .branch) = 0 ∧
    fired [0, 1] demo0 (ehNodes demo0) = 2 ∧
    injected (spliceAll [0, 1] demo0) (fallibleNodes (spliceAll [0, 1] demo0)) = 2 ∧
    countKind (injectBranching (spliceAll [0, 1] demo0)) isObserver = 4 := by decide
example : spliceReady demo0 true = true := by decide
-- the static hypotheses of `n_observers_invariant` hold on it as well
example : Closed demo0 ∧ Eligible demo0 (ehNodes demo0) ∧
    (∀ x ∈ ehNodes demo0, ∀ c, (demo0.succs x).head? = some c → demo0.kind c ≠ .errMatch) ∧
    (∀ x ∈ fallibleNodes demo0, (matcherSuccs demo0 x).length = 2) ∧
    (ehNodes demo0).length = (fallibleNodes demo0).length :=
  ⟨by decide, by decide, by decide, by decide, by decide⟩
-- and the graph the model builds has well-formed arms of the predicted shape
example : let g := injectBranching (spliceAll [0, 1] demo0)
    oneParent g = true ∧
    armShape g 17 .ehDefault true [0, 1] = true ∧ armShape g 18 (.eh 3) false [0, 1] = true := by decide

/-! ### a clause that does *not* hold: "every failure is handled"

`handler_once` needs the Err arm of the failed node to be entered. The generated code does not always enter
it: a node that only an error arm needs is emitted in the basic block in front of the `MatchBranching` node
of *that* arm's parent (the visitor takes every node that can reach one of the block's terminals, error
terminals included), so its `Result` is computed — and, if the arm is not entered, never inspected.
Witness (↔ corpus/C06/006, reproduced on the real pavexc): `c0` is only needed by the error handler of `c1`.

positions: 0 shared input · 1 `c0` · 2 `c1` · 3 `match c1` · 4 Err(c1) · 5 `match c0` · 6 Err(c0) · 7 `Error::new` ·
8 default handler · 9 into_response · 10 Ok(c0) · 11 x0 (handler of c1's error, takes `&T0`) · 12 into_response ·
13 Ok(c1) · 14 `h0` · 15 into_response -/
def swallowed : Graph :=
  ⟨[.input, .ctor 0, .ctor 1, .branch, .errMatch, .branch, .errMatch, .errorNew, .ehDefault, .intoResponse,
    .okMatch, .eh 0, .intoResponse, .okMatch, .handler 0, .intoResponse],
   [⟨0, 1, .shared⟩, ⟨0, 2, .shared⟩, ⟨1, 5, .move⟩, ⟨5, 6, .move⟩, ⟨5, 10, .move⟩, ⟨6, 7, .move⟩, ⟨7, 8, .shared⟩,
    ⟨8, 9, .move⟩, ⟨2, 3, .move⟩, ⟨3, 4, .move⟩, ⟨3, 13, .move⟩, ⟨4, 11, .shared⟩, ⟨10, 11, .shared⟩, ⟨11, 12, .move⟩,
    ⟨13, 14, .shared⟩, ⟨14, 15, .move⟩]⟩

/-- the full-strength reading of "the error handler runs exactly once on that error": whenever a component
    returned `Err`, an error handler ran. -/
def every_failure_handled_statement : Prop :=
  ∀ (g : Graph) (fails : Kind → Bool), armsWF g = true → (runGraph g fails).1.stuck = false →
    ∀ e ∈ outOf g fails (runGraph g fails).1, (∃ n k, e = .fail n k) →
      ∃ e' ∈ outOf g fails (runGraph g fails).1, isEh e'.kind = true

/-- **finding**: it is false for the faithful model (and for the real code: known finding
    `C06-swallowed-speculative-failure`): `c0` fails, nobody looks at its `Result`, the request is served
    normally. What holds is `handler_once`: *if the Err arm is entered*, its handler runs exactly once. -/
theorem every_failure_handled_statement_false : ¬ every_failure_handled_statement := by
  intro h
  have := h swallowed (fun k => k == .ctor 0) (by decide) (by decide) (.fail 1 (.ctor 0)) (by decide) ⟨1, .ctor 0, rfl⟩
  revert this
  decide

-- the run in question: `c0` fails, `c1` and the handler run, no error arm is entered
example : outOf swallowed (fun k => k == .ctor 0) (runGraph swallowed (fun k => k == .ctor 0)).1 =
    [.call 0 .input, .fail 1 (.ctor 0), .call 2 (.ctor 1), .call 14 (.handler 0), .call 15 .intoResponse] ∧
    (runGraph swallowed (fun k => k == .ctor 0)).1.errs = [] := by decide
-- when `c1` fails as well, the arm that needs `T0` is entered and `c0`'s error is the one that is handled
example : let fails := fun k => k == Kind.ctor 0 || k == Kind.ctor 1
    (outOf swallowed fails (runGraph swallowed fails).1).filter (fun e => isEh e.kind) = [.call 8 .ehDefault] := by
  decide

/-! ### non-vacuity of part (3): the route `h0` of `demo` behind `wrap m2`, `pre m3` and `post m1` -/

def gPost : Graph := ⟨[.input, .mw 1, .intoResponse], [⟨0, 1, .move⟩, ⟨1, 2, .move⟩]⟩
def gPre : Graph := ⟨[.mw 3], []⟩
def gWrap : Graph := ⟨[.other, .other, .mw 2, .intoResponse], [⟨0, 1, .move⟩, ⟨1, 2, .move⟩, ⟨2, 3, .move⟩]⟩
def gNoop : Graph := ⟨[.other, .other, .noop, .intoResponse], [⟨0, 1, .move⟩, ⟨1, 2, .move⟩, ⟨2, 3, .move⟩]⟩

def demoEnv (failing : List Kind) (early : List Nat) : Env :=
  ⟨fun k => match k with
    | .handler _ => demo | .mw 1 => gPost | .mw 3 => gPre | .mw 2 => gWrap | _ => gNoop,
   fun k => failing.contains k, fun p => early.contains p, fun k => 520 + k⟩

def demoChain : List Mw := [⟨.wrap, 2⟩, ⟨.post, 1⟩, ⟨.pre, 3⟩]

-- nothing fails
example : runRoute (demoEnv [] []) demoChain 0 =
    ⟨[.wrapStart 2, .pre 3, .ctor 0, .handler 0, .post 1, .wrapEnd 2], 200, false⟩ := by decide
-- the handler fails: its handler x3, the observers, then the remaining post-processing and the enclosing
-- wrapping middleware resume; the client sees x3's status
example : runRoute (demoEnv [.handler 0] []) demoChain 0 =
    ⟨[.wrapStart 2, .pre 3, .ctor 0, .failHandler 0, .eh 3, .observer 0, .observer 1, .post 1, .wrapEnd 2], 523, false⟩ := by
  decide
-- the constructor fails: the framework's handler (500), the handler `h0` never runs
example : runRoute (demoEnv [.ctor 0, .handler 0] []) demoChain 0 =
    ⟨[.wrapStart 2, .pre 3, .failCtor 0, .observer 0, .observer 1, .post 1, .wrapEnd 2], 500, false⟩ := by decide
-- the wrapping middleware fails before awaiting `next`: nothing inside it runs (its graph here has no
-- error arm, so the model flags the run as stuck: a fallible component must come with its matchers)
example : (runRoute (demoEnv [.mw 2] []) demoChain 0).evs = [.failMw 2] := by decide

end Pxv.Err
