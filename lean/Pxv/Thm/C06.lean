import Pxv.Lemmas.Errors
/-!
C06 — errors reach the right handler, every observer, and stop the pipeline.

Model: `Pxv/Model/Errors.lean`. The theorems of part (2) are about `exec`, the model of the code pavexc
generates from one ordered call graph; they hold for **every** graph, every set of failing components and
whatever basic blocks the visitor picks, because they only rest on the binding discipline of the generated
code (`Inv`, proved to be an invariant in `Pxv/Lemmas/Errors.lean`) and on *local* well-formedness of the
error arms (`armsWF`, a decidable predicate the check evaluates on every graph the real pavexc emits).
-/
namespace Pxv.Err
open Pxv.Pipe (Mw MwKind Stage Mid)

/-! ## (2) one generated closure -/

/-- **C06 (a) — nothing that depends on the `Ok` value runs.** For every ordered call graph, every failing set
    and every way of running it: if the fallible node `x` inspected by the `MatchBranching` node `b` returned
    `Err`, then no node computed (directly or transitively) from its `Ok` matcher is ever invoked. -/
theorem ok_dependants_skipped (g : Graph) (fails : Kind → Bool) (fuel : Nat) (targets : List Nat)
    (hop : oneParent g = true) (b x okm : Nat)
    (hx : scrutinee g b = some x) (hf : fails (g.kind x) = true)
    (hokm : okm ∈ g.succs b) (hk : g.kind okm = .okMatch) (n : Nat) (hpath : DataPath g okm n) :
    ∀ e ∈ outOf g fails (exec g fails fuel targets [] {}).1, e.node ≠ n := by
  intro e he hen
  have hinv := exec_inv fuel targets [] {} (Inv.init g fails)
  have hop' := OneParent.of_check hop
  have hn := out_bound hinv e he
  rw [hen] at hn
  have hokb := bound_of_path hinv hop' hpath hn
  have hch := hinv.matchers okm hokb (by rw [hk]; rfl)
  obtain ⟨b', x', _, _, hvb', hx', hk'⟩ := hinv.chosen okm hch
  -- `okm` hangs off `b` only
  obtain ⟨e1, he1, hs1, hd1⟩ := mem_succs.mp hokm
  obtain ⟨e2, he2, hs2, hd2⟩ := mem_succs.mp hvb'
  have := hop' okm (by rw [hk]; rfl) e1 he1 e2 he2 hd1 hd2
  rw [hs1, hs2] at this
  subst this
  rw [hx] at hx'
  cases hx'
  rw [hf, hk] at hk'
  cases hk'

/-- the same for the other side: what hangs off an `Err` matcher only runs if its arm was entered. -/
theorem arm_entered_of_ran (g : Graph) (fails : Kind → Bool) (fuel : Nat) (targets : List Nat)
    (hop : oneParent g = true) (m n : Nat) (hk : g.kind m = .errMatch) (hpath : DataPath g m n)
    (e : Ev) (he : e ∈ outOf g fails (exec g fails fuel targets [] {}).1) (hen : e.node = n) :
    m ∈ (exec g fails fuel targets [] {}).1.errs := by
  have hinv := exec_inv fuel targets [] {} (Inv.init g fails)
  have hn := out_bound hinv e he
  rw [hen] at hn
  have hmb := bound_of_path hinv (OneParent.of_check hop) hpath hn
  exact (hinv.errs m).mpr ⟨hinv.matchers m hmb (by rw [hk]; rfl), hk⟩

theorem frag_unit (g : Graph) : ∀ (fuel n : Nat), ∀ e ∈ frag g fuel n, isUnit e.kind = true
  | 0, _, e, he => by simp [frag] at he
  | fuel + 1, n, e, he => by
    simp only [frag, List.mem_flatMap, List.mem_append, List.mem_singleton] at he
    obtain ⟨p, hp, he⟩ := he
    rcases he with he | rfl
    · exact frag_unit g fuel p e he
    · exact (List.mem_filter.mp hp).2

theorem frag_eq_chain {g : Graph} (hs : ∀ n, (unitBefores g n).length ≤ 1) :
    ∀ (fuel n : Nat), frag g fuel n = (chainOf g fuel n).map (fun p => Ev.call p (g.kind p))
  | 0, _ => rfl
  | fuel + 1, n => by
    simp only [frag, chainOf]
    match hub : unitBefores g n, hs n with
    | [], _ => simp
    | [p], _ => simp [frag_eq_chain hs fuel p]
    | _ :: _ :: _, h => simp at h

theorem isEh_not_unit {k : Kind} (h : isEh k = true) : isUnit k = false := by
  cases k <;> simp_all [isEh, isUnit]

theorem isEh_not_structural {k : Kind} (h : isEh k = true) : isStructural k = false := by
  cases k <;> simp_all [isEh, isStructural]

theorem isEh_not_canFail {k : Kind} (h : isEh k = true) : canFail k = false := by
  cases k <;> simp_all [isEh, canFail]

theorem ehMatchers_path {g : Graph} {m h : Nat} (hm : m ∈ ehMatchers g h) : DataPath g m h := by
  simp only [ehMatchers, List.mem_append, List.mem_filter, List.mem_flatMap] at hm
  rcases hm with ⟨hm, _⟩ | ⟨e, ⟨he, _⟩, hm, _⟩
  · exact .single hm
  · exact .tail (.single hm) he

/-- the error handler events of a run, read off the nodes that ran -/
theorem filter_eh_out (g : Graph) (fails : Kind → Bool) (ran : List Nat) :
    (ran.flatMap (emit g fails)).filter (fun e => isEh e.kind) =
      (ran.filter (fun n => isEh (g.kind n))).map (fun n => Ev.call n (g.kind n)) := by
  induction ran with
  | nil => rfl
  | cons n rest ih =>
    simp only [List.flatMap_cons, List.filter_append, ih, emit]
    have hfrag : (frag g g.size n).filter (fun e => isEh e.kind) = [] := by
      apply List.filter_eq_nil_iff.mpr
      intro e he
      have := frag_unit g g.size n e he
      cases hk : e.kind <;> simp_all [isUnit, isEh]
    rw [hfrag]
    by_cases hn : isEh (g.kind n) = true
    · simp [evAt, hn, isEh_not_canFail hn, Ev.kind]
    · have hn' : isEh (g.kind n) = false := by simpa using hn
      simp only [List.nil_append, List.filter_cons, hn', Bool.false_eq_true, ↓reduceIte]
      unfold evAt
      split <;> simp [Ev.kind, hn']

theorem filter_all_eq {l : List Nat} {h : Nat} {q : Nat → Bool} (hnd : l.Nodup) (hmem : h ∈ l) (hq : q h = true)
    (hall : ∀ n ∈ l, q n = true → n = h) : l.filter q = [h] := by
  induction l with
  | nil => cases hmem
  | cons a l ih =>
    have hnd' := List.nodup_cons.mp hnd
    rcases List.mem_cons.mp hmem with rfl | hmem
    · simp only [List.filter_cons, hq, ↓reduceIte, List.cons.injEq, true_and]
      apply List.filter_eq_nil_iff.mpr
      intro n hn hqn
      have := hall n (List.mem_cons_of_mem _ hn) hqn
      subst this
      exact hnd'.1 hn
    · have ha : q a = false := by
        cases hqa : q a with
        | false => rfl
        | true =>
          have := hall a List.mem_cons_self hqa
          subst this
          exact absurd hmem hnd'.1
      simp only [List.filter_cons, ha, Bool.false_eq_true, ↓reduceIte]
      exact ih hnd'.2 hmem (fun n hn => hall n (List.mem_cons_of_mem _ hn))

/-- **C06 (b) — the designated error handler runs exactly once, and no other.** In a well-formed graph, if
    the closure returned through the `Err` arm of the matcher `m` (the only arm of that kind entered, and the
    last arm entered), then among everything that ran there is exactly one invocation of an error handler:
    the handler `h` that hangs off `m`. -/
theorem handler_once (g : Graph) (fails : Kind → Bool) (fuel : Nat) (targets : List Nat)
    (hwf : armsWF g = true) (st : St) (r m h : Nat) (rest : List Nat)
    (hexec : exec g fails fuel targets [] {} = (st, some r))
    (herrs : st.errs = [m]) (hlast : st.chosen = m :: rest)
    (hh : isEh (g.kind h) = true) (hm : m ∈ ehMatchers g h) :
    (outOf g fails st).filter (fun e => isEh e.kind) = [Ev.call h (g.kind h)] := by
  have wf := ArmsWF.of_check hwf
  have hinv : Inv g fails st := by
    have := exec_inv fuel targets [] {} (Inv.init g fails); rw [hexec] at this; exact this
  have hnd : st.ran.Nodup := by
    have := exec_ran_nodup (g := g) (fails := fails) fuel targets [] {} (by simp) (by simp)
    rw [hexec] at this; exact this
  obtain ⟨hrb, hret⟩ := exec_ret fuel targets [] {} st r hexec
  have hk := mem_ehMatchers_kind hm
  -- the returned terminal lies below `m`, hence is computed from `h`
  have hrs : r ∈ g.sinksOf m := by
    rcases hret with ⟨hc, _⟩ | ⟨v, rest', hc, hr⟩
    · rw [hlast] at hc; cases hc
    · rw [hlast] at hc; cases hc; exact hr
  have hhb : h ∈ st.bound := bound_of_path hinv wf.oneParent (wf.sinks m h hk hh hm r hrs) hrb
  have hhr : h ∈ st.ran := hinv.boundRan h hhb (isEh_not_structural hh) (isEh_not_unit hh)
  unfold outOf
  rw [filter_eh_out]
  rw [filter_all_eq hnd hhr hh]
  · rfl
  · intro n hn hne
    obtain ⟨m', hm'⟩ := wf.ehMatcher n hne
    have hm'mem : m' ∈ ehMatchers g n := by rw [hm']; exact List.mem_singleton.mpr rfl
    have hnb := (hinv.ran n hn).1
    have hm'b := bound_of_path hinv wf.oneParent (ehMatchers_path hm'mem) hnb
    have hk' := mem_ehMatchers_kind hm'mem
    have : m' ∈ st.errs := (hinv.errs m').mpr ⟨hinv.matchers m' hm'b (by rw [hk']; rfl), hk'⟩
    rw [herrs] at this
    have : m' = m := by simpa using this
    subst this
    exact wf.oneHandler m' n h hne hh hm'mem hm

theorem dataPath_head {g : Graph} {a n : Nat} (h : DataPath g a n) :
    a = n ∨ ∃ c, a ∈ g.dataPreds c ∧ DataPath g c n := by
  induction h with
  | refl => exact Or.inl rfl
  | tail hp hmem ih =>
    rename_i p n'
    rcases ih with rfl | ⟨c, hc, hcp⟩
    · exact Or.inr ⟨n', hmem, .refl⟩
    · exact Or.inr ⟨c, hc, .tail hcp hmem⟩

theorem sinksOf_no_succs {g : Graph} {a t : Nat} (h : t ∈ g.sinksOf a) : g.succs t = [] := by
  have := (List.mem_filter.mp h).2
  simpa using this

/-- the calls of components without output, read off the nodes that ran -/
theorem filter_unit_out (g : Graph) (fails : Kind → Bool) (ran : List Nat)
    (hran : ∀ n ∈ ran, isUnit (g.kind n) = false) :
    (ran.flatMap (emit g fails)).filter (fun e => isUnit e.kind) = ran.flatMap (frag g g.size) := by
  induction ran with
  | nil => rfl
  | cons n rest ih =>
    simp only [List.flatMap_cons, List.filter_append, emit]
    rw [ih (fun k hk => hran k (List.mem_cons_of_mem _ hk))]
    have hfrag : (frag g g.size n).filter (fun e => isUnit e.kind) = frag g g.size n := by
      apply List.filter_eq_self.mpr
      intro e he
      exact frag_unit g g.size n e he
    have hn := hran n List.mem_cons_self
    rw [hfrag]
    have : List.filter (fun e => isUnit e.kind) [evAt g fails n] = [] := by
      unfold evAt
      split <;> simp [Ev.kind, hn]
    rw [this]; simp

/-- **C06 (c) — every observer runs exactly once, in order, after the error handler and right before the
    handler's response is turned into the closure's return value.** In a well-formed graph, if the closure
    returned through the `Err` arm of `m`, whose handler is `h` and whose handler's only consumer is `ir`
    (its `IntoResponse`), then
    * the invocations of output-less components (the observers) during the whole run are exactly the chain
      that happens before `ir`, in chain order, once each;
    * they sit between the handler's invocation and `ir`: the run is `A ++ observers ++ [ir] ++ B` with the
      handler's call in `A`. -/
theorem observers_once_in_order (g : Graph) (fails : Kind → Bool) (fuel : Nat) (targets : List Nat)
    (hwf : armsWF g = true) (st : St) (r m h ir : Nat) (rest : List Nat)
    (hexec : exec g fails fuel targets [] {} = (st, some r))
    (herrs : st.errs = [m]) (hlast : st.chosen = m :: rest)
    (hh : isEh (g.kind h) = true) (hm : m ∈ ehMatchers g h)
    (hir : g.dataPreds ir = [h]) (honly : ∀ c, h ∈ g.dataPreds c → c = ir)
    (hirk : isUnit (g.kind ir) = false ∧ isStructural (g.kind ir) = false) :
    let observers := (chainOf g g.size ir).map (fun p => Ev.call p (g.kind p))
    (outOf g fails st).filter (fun e => isUnit e.kind) = observers ∧
    ∃ A B, outOf g fails st = A ++ observers ++ [evAt g fails ir] ++ B ∧
      Ev.call h (g.kind h) ∈ A := by
  intro observers
  have wf := ArmsWF.of_check hwf
  have hinv : Inv g fails st := by
    have := exec_inv fuel targets [] {} (Inv.init g fails); rw [hexec] at this; exact this
  have hnd : st.ran.Nodup := by
    have := exec_ran_nodup (g := g) (fails := fails) fuel targets [] {} (by simp) (by simp)
    rw [hexec] at this; exact this
  obtain ⟨hrb, hret⟩ := exec_ret fuel targets [] {} st r hexec
  have hk := mem_ehMatchers_kind hm
  have hrs : r ∈ g.sinksOf m := by
    rcases hret with ⟨hc, _⟩ | ⟨v, rest', hc, hr⟩
    · rw [hlast] at hc; cases hc
    · rw [hlast] at hc; cases hc; exact hr
  have hpath := wf.sinks m h hk hh hm r hrs
  -- `ir` ran: the returned terminal is computed from `h` through its only consumer
  have hirb : ir ∈ st.bound := by
    rcases dataPath_head hpath with rfl | ⟨c, hc, hcr⟩
    · -- `h` itself cannot be a terminal: `ir` consumes it
      have hs := sinksOf_no_succs hrs
      have : h ∈ g.dataPreds ir := by rw [hir]; exact List.mem_singleton.mpr rfl
      obtain ⟨e, he, hes, hed, _⟩ := mem_dataPreds.mp this
      have : ir ∈ g.succs h := mem_succs.mpr ⟨e, he, hes, hed⟩
      rw [hs] at this; cases this
    · have := honly c hc
      subst this
      exact bound_of_path hinv wf.oneParent hcr hrb
  have hirr : ir ∈ st.ran := hinv.boundRan ir hirb hirk.2 hirk.1
  have hranu : ∀ n ∈ st.ran, isUnit (g.kind n) = false := fun n hn => (hinv.ran n hn).2.2
  -- calls are inlined in front of `ir` only
  have hfrag : ∀ n ∈ st.ran, n ≠ ir → frag g g.size n = [] := by
    intro n hn hne
    have hub : unitBefores g n = [] := by
      cases hub : unitBefores g n with
      | nil => rfl
      | cons p ps =>
        exfalso
        obtain ⟨h', hd', hh', _⟩ := wf.inlined n (hranu n hn) (by rw [hub]; simp)
        obtain ⟨m', hm'⟩ := wf.ehMatcher h' hh'
        have hm'mem : m' ∈ ehMatchers g h' := by rw [hm']; exact List.mem_singleton.mpr rfl
        have hnb := (hinv.ran n hn).1
        have hh'b : h' ∈ st.bound :=
          bound_closed hinv wf.oneParent hnb (by rw [hd']; exact List.mem_singleton.mpr rfl)
        have hm'b := bound_of_path hinv wf.oneParent (ehMatchers_path hm'mem) hh'b
        have hk' := mem_ehMatchers_kind hm'mem
        have : m' ∈ st.errs := (hinv.errs m').mpr ⟨hinv.matchers m' hm'b (by rw [hk']; rfl), hk'⟩
        rw [herrs] at this
        have : m' = m := by simpa using this
        subst this
        have := wf.oneHandler m' h' h hh' hh hm'mem hm
        subst this
        exact hne (honly n (by rw [hd']; exact List.mem_singleton.mpr rfl))
    cases hsz : g.size with
    | zero => rfl
    | succ k => simp [frag, hub]
  obtain ⟨r1, r2, hsplit⟩ := List.append_of_mem hirr
  have hr1 : ∀ n ∈ r1, n ≠ ir := by
    intro n hn hne
    subst hne
    rw [hsplit] at hnd
    have := (List.nodup_append.mp hnd).2.2 n hn n List.mem_cons_self
    exact this rfl
  have hr2 : ∀ n ∈ r2, n ≠ ir := by
    intro n hn hne
    subst hne
    rw [hsplit] at hnd
    have := (List.nodup_cons.mp (List.nodup_append.mp hnd).2.1).1
    exact this hn
  have hfragir : frag g g.size ir = observers := frag_eq_chain wf.single g.size ir
  constructor
  · unfold outOf
    rw [filter_unit_out g fails st.ran hranu, hsplit]
    simp only [List.flatMap_append, List.flatMap_cons]
    have h1 : r1.flatMap (frag g g.size) = [] := by
      apply List.flatMap_eq_nil_iff.mpr
      intro n hn
      exact hfrag n (by rw [hsplit]; exact List.mem_append_left _ hn) (hr1 n hn)
    have h2 : r2.flatMap (frag g g.size) = [] := by
      apply List.flatMap_eq_nil_iff.mpr
      intro n hn
      exact hfrag n (by rw [hsplit]; exact List.mem_append_right _ (List.mem_cons_of_mem _ hn)) (hr2 n hn)
    rw [h1, h2, hfragir]; simp
  · refine ⟨r1.flatMap (emit g fails), r2.flatMap (emit g fails), ?_, ?_⟩
    · unfold outOf
      rw [hsplit]
      simp only [List.flatMap_append, List.flatMap_cons, emit, hfragir]
      simp [List.append_assoc]
    · have hh1 : h ∈ r1 := hinv.order r1 ir r2 hsplit h (by rw [hir]; exact List.mem_singleton.mpr rfl)
        (isEh_not_structural hh) (isEh_not_unit hh)
      apply List.mem_flatMap.mpr
      refine ⟨h, hh1, ?_⟩
      simp [emit, evAt, isEh_not_canFail hh]

/-! ### non-vacuity: a handler that takes `&T0` and returns `Result`, with a specific error handler and
two observers; the constructor of `T0` is fallible too (fallback handler).

positions: 0 `c0` · 1 `match` · 2 Err(c0) · 3 `Error::new` · 4 default handler · 5 o0 · 6 o1 · 7 into_response ·
8 Ok(c0) · 9 `h0` · 10 `match` · 11 Err(h0) · 12 x3 · 13 `Error::new` · 14 o0 · 15 o1 · 16 into_response ·
17 Ok(h0) · 18 into_response -/
def demo : Graph :=
  ⟨[.ctor 0, .branch, .errMatch, .errorNew, .ehDefault, .observer 0, .observer 1, .intoResponse,
    .okMatch, .handler 0, .branch, .errMatch, .eh 3, .errorNew, .observer 0, .observer 1, .intoResponse,
    .okMatch, .intoResponse],
   [⟨0, 1, .move⟩, ⟨1, 2, .move⟩, ⟨1, 8, .move⟩, ⟨2, 3, .move⟩, ⟨3, 4, .shared⟩, ⟨3, 5, .shared⟩, ⟨3, 6, .shared⟩,
    ⟨5, 6, .before⟩, ⟨6, 7, .before⟩, ⟨4, 7, .move⟩, ⟨8, 9, .shared⟩, ⟨9, 10, .move⟩, ⟨10, 11, .move⟩,
    ⟨10, 17, .move⟩, ⟨11, 12, .shared⟩, ⟨11, 13, .move⟩, ⟨13, 14, .shared⟩, ⟨13, 15, .shared⟩, ⟨14, 15, .before⟩,
    ⟨15, 16, .before⟩, ⟨12, 16, .move⟩, ⟨17, 18, .move⟩]⟩

example : armsWF demo = true := by decide
example : armShape demo 10 (.eh 3) [0, 1] = true ∧ armShape demo 1 .ehDefault [0, 1] = true := by decide
-- nothing fails: the constructor, then the handler
example : outOf demo (fun _ => false) (runGraph demo (fun _ => false)).1 =
    [.call 0 (.ctor 0), .call 9 (.handler 0), .call 18 .intoResponse] := by decide
-- the handler fails: its own error handler, then the two observers, in order, then the response
example : let fails := fun k => k == Kind.handler 0
    outOf demo fails (runGraph demo fails).1 =
      [.call 0 (.ctor 0), .fail 9 (.handler 0), .call 12 (.eh 3), .call 13 .errorNew,
       .call 14 (.observer 0), .call 15 (.observer 1), .call 16 .intoResponse] ∧
    (runGraph demo fails).1.errs = [11] ∧ (runGraph demo fails).1.chosen = [11, 8] := by decide
-- the constructor fails (and the handler would): only the first failure matters, the handler never runs
example : let fails := fun k => k == Kind.handler 0 || k == Kind.ctor 0
    outOf demo fails (runGraph demo fails).1 =
      [.fail 0 (.ctor 0), .call 3 .errorNew, .call 4 .ehDefault, .call 5 (.observer 0), .call 6 (.observer 1),
       .call 7 .intoResponse] ∧ (runGraph demo fails).1.errs = [2] := by decide
-- the hypotheses of `ok_dependants_skipped` / `handler_once` / `observers_once_in_order` are satisfiable
example : scrutinee demo 1 = some 0 ∧ 8 ∈ demo.succs 1 ∧ demo.kind 8 = .okMatch ∧
    DataPath demo 8 9 ∧ 11 ∈ ehMatchers demo 12 ∧ demo.dataPreds 16 = [12] :=
  ⟨by decide, by decide, by decide, .single (by decide), by decide, by decide⟩

end Pxv.Err
