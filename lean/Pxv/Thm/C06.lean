import Pxv.Model.Errors
/-!
C06 — errors reach the right handler, every observer, and stop the pipeline.
-/
namespace Pxv.Err
open Pxv.Pipe (Mw MwKind)

/-- a nested blueprint starts from a snapshot of its parent's observer chain; what it registers does not
    leak to what the parent registers afterwards. -/
theorem nested_is_snapshot (b rest : Bp) (c : List Mw) (o p : List Nat) (k : Nat) :
    routes (.cons (.nest b) rest) c o p k = routes b c o (p ++ [k]) 0 ++ routes rest c o p (k + 1) := by
  simp [routes]

end Pxv.Err
