import Pxv.Lemmas.TyCanon
/-! Helper lemmas for C17: canonical forms are complete — equivalent types that agree on which
lifetimes are `'static` have the same canonical form. -/
namespace Pxv.Ty

theorem canonLt_congr {l l' : Lt} (h : (if l = .static then Lt.static else .elided) = (if l' = .static then Lt.static else .elided))
    (n : Nat) : canonLt l n = canonLt l' n := by
  cases l <;> cases l' <;> simp [canonLt] at h ⊢

theorem canonGLt_congr {l l' : GLt} (h : (if l = .static then GLt.static else .inferred) = (if l' = .static then GLt.static else .inferred))
    (n : Nat) : canonGLt l n = canonGLt l' n := by
  cases l <;> cases l' <;> simp [canonGLt] at h ⊢

mutual
theorem canonGo_complete : ∀ (a b : Ty) (s s' : List String × List String) (n : Nat),
    equivGo a b s = some s' → ltSkeleton a = ltSkeleton b →
    ∃ c k, canonGo a ⟨n, s.1⟩ = (c, ⟨k, s'.1⟩) ∧ canonGo b ⟨n, s.2⟩ = (c, ⟨k, s'.2⟩)
  | .path al p i bs as, b, s, s', n, h, hk => by
      cases b <;> simp [equivGo] at h
      obtain ⟨⟨h1, h2, h3, h4⟩, h⟩ := h
      subst h1 h2 h3 h4
      simp only [ltSkeleton, Ty.path.injEq, true_and] at hk
      obtain ⟨c, k, e1, e2⟩ := canonArgs_complete _ _ _ _ n h hk
      exact ⟨.path al p i bs c, k, by simp [canonGo, e1], by simp [canonGo, e2]⟩
  | .ref m l t, b, s, s', n, h, hk => by
      cases b <;> simp [equivGo] at h
      rename_i m' l' t'
      obtain ⟨h1, h⟩ := h
      subst h1
      simp only [ltSkeleton, Ty.ref.injEq, true_and] at hk
      have hl := canonLt_congr hk.1 n
      obtain ⟨c, k, e1, e2⟩ := canonGo_complete t t' s s' (canonLt l n).2 h hk.2
      refine ⟨.ref m (canonLt l n).1 c, k, by simp [canonGo, e1], ?_⟩
      rw [hl] at e2 ⊢
      simp [canonGo, e2]
  | .tuple es, b, s, s', n, h, hk => by
      cases b <;> simp [equivGo] at h
      simp only [ltSkeleton, Ty.tuple.injEq] at hk
      obtain ⟨c, k, e1, e2⟩ := canonTys_complete _ _ _ _ n h hk
      exact ⟨.tuple c, k, by simp [canonGo, e1], by simp [canonGo, e2]⟩
  | .scalar x, b, s, s', n, h, hk => by
      cases b <;> simp [equivGo] at h
      obtain ⟨h1, h⟩ := h
      subst h1 h
      exact ⟨.scalar x, n, by simp [canonGo], by simp [canonGo]⟩
  | .slice e, b, s, s', n, h, hk => by
      cases b <;> simp [equivGo] at h
      simp only [ltSkeleton, Ty.slice.injEq] at hk
      obtain ⟨c, k, e1, e2⟩ := canonGo_complete _ _ _ _ n h hk
      exact ⟨.slice c, k, by simp [canonGo, e1], by simp [canonGo, e2]⟩
  | .array e m, b, s, s', n, h, hk => by
      cases b <;> simp [equivGo] at h
      obtain ⟨h1, h⟩ := h
      subst h1
      simp only [ltSkeleton, Ty.array.injEq, and_true] at hk
      obtain ⟨c, k, e1, e2⟩ := canonGo_complete _ _ _ _ n h hk
      exact ⟨.array c m, k, by simp [canonGo, e1], by simp [canonGo, e2]⟩
  | .rawPtr m t, b, s, s', n, h, hk => by
      cases b <;> simp [equivGo] at h
      obtain ⟨h1, h⟩ := h
      subst h1
      simp only [ltSkeleton, Ty.rawPtr.injEq, true_and] at hk
      obtain ⟨c, k, e1, e2⟩ := canonGo_complete _ _ _ _ n h hk
      exact ⟨.rawPtr m c, k, by simp [canonGo, e1], by simp [canonGo, e2]⟩
  | .fnPtr ins out abi u, b, s, s', n, h, hk => by
      cases b <;> simp [equivGo] at h
      obtain ⟨⟨h1, h2⟩, h⟩ := h
      subst h1 h2
      simp only [ltSkeleton, Ty.fnPtr.injEq, and_true] at hk
      split at h
      · rename_i s1 hi
        obtain ⟨c1, k1, e1, e2⟩ := canonIns_complete _ _ _ _ n hi hk.1
        obtain ⟨c2, k2, e3, e4⟩ := canonO_complete _ _ _ _ k1 h hk.2
        exact ⟨.fnPtr c1 c2 abi u, k2, by simp [canonGo, e1, e3], by simp [canonGo, e2, e4]⟩
      · cases h
  | .generic x, b, s, s', n, h, hk => by
      cases b <;> simp [equivGo] at h
      obtain ⟨h1, h⟩ := h
      subst h
      exact ⟨.generic (gname (idOf s.1 x).1), n, by simp [canonGo], by simp [canonGo, h1]⟩
theorem canonArgs_complete : ∀ (a b : GArgs) (s s' : List String × List String) (n : Nat),
    equivArgs a b s = some s' → ltSkeletonArgs a = ltSkeletonArgs b →
    ∃ c k, canonArgs a ⟨n, s.1⟩ = (c, ⟨k, s'.1⟩) ∧ canonArgs b ⟨n, s.2⟩ = (c, ⟨k, s'.2⟩)
  | .nil, b, s, s', n, h, hk => by
      cases b <;> simp [equivArgs] at h
      subst h
      exact ⟨.nil, n, by simp [canonArgs], by simp [canonArgs]⟩
  | .ty t r, b, s, s', n, h, hk => by
      cases b <;> simp only [equivArgs] at h <;> try cases h
      simp only [ltSkeletonArgs, GArgs.ty.injEq] at hk
      split at h
      · rename_i s1 h1
        obtain ⟨c1, k1, e1, e2⟩ := canonGo_complete _ _ _ _ n h1 hk.1
        obtain ⟨c2, k2, e3, e4⟩ := canonArgs_complete _ _ _ _ k1 h hk.2
        exact ⟨.ty c1 c2, k2, by simp [canonArgs, e1, e3], by simp [canonArgs, e2, e4]⟩
      · cases h
  | .lt l r, b, s, s', n, h, hk => by
      cases b <;> simp only [equivArgs] at h <;> try cases h
      rename_i l' r'
      simp only [ltSkeletonArgs, GArgs.lt.injEq] at hk
      have hl := canonGLt_congr hk.1 n
      obtain ⟨c, k, e1, e2⟩ := canonArgs_complete r r' s s' (canonGLt l n).2 h hk.2
      refine ⟨.lt (canonGLt l n).1 c, k, by simp [canonArgs, e1], ?_⟩
      rw [hl] at e2 ⊢
      simp [canonArgs, e2]
  | .const v r, b, s, s', n, h, hk => by
      cases b <;> simp only [equivArgs] at h <;> try cases h
      simp only [ltSkeletonArgs, GArgs.const.injEq] at hk
      split at h
      · rename_i hv; subst hv
        obtain ⟨c, k, e1, e2⟩ := canonArgs_complete _ _ _ _ n h hk.2
        exact ⟨.const v c, k, by simp [canonArgs, e1], by simp [canonArgs, e2]⟩
      · cases h
theorem canonTys_complete : ∀ (a b : Tys) (s s' : List String × List String) (n : Nat),
    equivTys a b s = some s' → ltSkeletonTys a = ltSkeletonTys b →
    ∃ c k, canonTys a ⟨n, s.1⟩ = (c, ⟨k, s'.1⟩) ∧ canonTys b ⟨n, s.2⟩ = (c, ⟨k, s'.2⟩)
  | .nil, b, s, s', n, h, hk => by
      cases b <;> simp [equivTys] at h
      subst h
      exact ⟨.nil, n, by simp [canonTys], by simp [canonTys]⟩
  | .cons t r, b, s, s', n, h, hk => by
      cases b <;> simp only [equivTys] at h <;> try cases h
      simp only [ltSkeletonTys, Tys.cons.injEq] at hk
      split at h
      · rename_i s1 h1
        obtain ⟨c1, k1, e1, e2⟩ := canonGo_complete _ _ _ _ n h1 hk.1
        obtain ⟨c2, k2, e3, e4⟩ := canonTys_complete _ _ _ _ k1 h hk.2
        exact ⟨.cons c1 c2, k2, by simp [canonTys, e1, e3], by simp [canonTys, e2, e4]⟩
      · cases h
theorem canonIns_complete : ∀ (a b : FnIns) (s s' : List String × List String) (n : Nat),
    equivIns a b s = some s' → ltSkeletonIns a = ltSkeletonIns b →
    ∃ c k, canonIns a ⟨n, s.1⟩ = (c, ⟨k, s'.1⟩) ∧ canonIns b ⟨n, s.2⟩ = (c, ⟨k, s'.2⟩)
  | .nil, b, s, s', n, h, hk => by
      cases b <;> simp [equivIns] at h
      subst h
      exact ⟨.nil, n, by simp [canonIns], by simp [canonIns]⟩
  | .cons nm t r, b, s, s', n, h, hk => by
      cases b <;> simp only [equivIns] at h <;> try cases h
      simp only [ltSkeletonIns, FnIns.cons.injEq, true_and] at hk
      split at h
      · rename_i s1 h1
        obtain ⟨c1, k1, e1, e2⟩ := canonGo_complete _ _ _ _ n h1 hk.1
        obtain ⟨c2, k2, e3, e4⟩ := canonIns_complete _ _ _ _ k1 h hk.2
        exact ⟨.cons none c1 c2, k2, by simp [canonIns, e1, e3], by simp [canonIns, e2, e4]⟩
      · cases h
theorem canonO_complete : ∀ (a b : OTy) (s s' : List String × List String) (n : Nat),
    equivO a b s = some s' → ltSkeletonO a = ltSkeletonO b →
    ∃ c k, canonO a ⟨n, s.1⟩ = (c, ⟨k, s'.1⟩) ∧ canonO b ⟨n, s.2⟩ = (c, ⟨k, s'.2⟩)
  | .none, b, s, s', n, h, hk => by
      cases b <;> simp [equivO] at h
      subst h
      exact ⟨.none, n, by simp [canonO], by simp [canonO]⟩
  | .some t, b, s, s', n, h, hk => by
      cases b <;> simp only [equivO] at h <;> try cases h
      simp only [ltSkeletonO, OTy.some.injEq] at hk
      obtain ⟨c, k, e1, e2⟩ := canonGo_complete _ _ _ _ n h hk
      exact ⟨.some c, k, by simp [canonO, e1], by simp [canonO, e2]⟩
end

/-! Canonicalisation keeps the lifetime skeleton. -/
theorem ltSk_canonLt (l : Lt) (n : Nat) :
    (if (canonLt l n).1 = .static then Lt.static else .elided) = (if l = .static then Lt.static else .elided) := by
  cases l <;> simp [canonLt]

theorem ltSk_canonGLt (l : GLt) (n : Nat) :
    (if (canonGLt l n).1 = .static then GLt.static else .inferred) = (if l = .static then GLt.static else .inferred) := by
  cases l <;> simp [canonGLt]

mutual
theorem canonGo_ltSkeleton : ∀ (a : Ty) (s : CSt), ltSkeleton (canonGo a s).1 = ltSkeleton a
  | .path al p i bs as, s => by simp [canonGo, ltSkeleton, canonArgs_ltSkeleton as s]
  | .ref m l t, s => by simp [canonGo, ltSkeleton, ltSk_canonLt, canonGo_ltSkeleton t]
  | .tuple es, s => by simp [canonGo, ltSkeleton, canonTys_ltSkeleton es s]
  | .scalar x, s => by simp [canonGo, ltSkeleton]
  | .slice e, s => by simp [canonGo, ltSkeleton, canonGo_ltSkeleton e s]
  | .array e n, s => by simp [canonGo, ltSkeleton, canonGo_ltSkeleton e s]
  | .rawPtr m t, s => by simp [canonGo, ltSkeleton, canonGo_ltSkeleton t s]
  | .fnPtr ins out abi u, s => by
      simp [canonGo, ltSkeleton, canonIns_ltSkeleton ins s, canonO_ltSkeleton out]
  | .generic x, s => by simp [canonGo, ltSkeleton]
theorem canonArgs_ltSkeleton : ∀ (a : GArgs) (s : CSt), ltSkeletonArgs (canonArgs a s).1 = ltSkeletonArgs a
  | .nil, s => by simp [canonArgs, ltSkeletonArgs]
  | .ty t r, s => by simp [canonArgs, ltSkeletonArgs, canonGo_ltSkeleton t s, canonArgs_ltSkeleton r]
  | .lt l r, s => by simp [canonArgs, ltSkeletonArgs, ltSk_canonGLt, canonArgs_ltSkeleton r]
  | .const v r, s => by simp [canonArgs, ltSkeletonArgs, canonArgs_ltSkeleton r s]
theorem canonTys_ltSkeleton : ∀ (a : Tys) (s : CSt), ltSkeletonTys (canonTys a s).1 = ltSkeletonTys a
  | .nil, s => by simp [canonTys, ltSkeletonTys]
  | .cons t r, s => by simp [canonTys, ltSkeletonTys, canonGo_ltSkeleton t s, canonTys_ltSkeleton r]
theorem canonIns_ltSkeleton : ∀ (a : FnIns) (s : CSt), ltSkeletonIns (canonIns a s).1 = ltSkeletonIns a
  | .nil, s => by simp [canonIns, ltSkeletonIns]
  | .cons n t r, s => by simp [canonIns, ltSkeletonIns, canonGo_ltSkeleton t s, canonIns_ltSkeleton r]
theorem canonO_ltSkeleton : ∀ (a : OTy) (s : CSt), ltSkeletonO (canonO a s).1 = ltSkeletonO a
  | .none, s => by simp [canonO, ltSkeletonO]
  | .some t, s => by simp [canonO, ltSkeletonO, canonGo_ltSkeleton t s]
end

end Pxv.Ty
