import Pxv.Lemmas.ScopeWalk
import Pxv.Lemmas.ScopeProcess
/-! The scope walk implements the documented rule on every blueprint: proofs behind `Thm/C04.lean` (`get_designated`). -/
namespace Pxv.Scope
open Walk

/-- constructors registered directly against a blueprint, in order -/
def ownCtors : Bp → List Ctor
  | .nil => []
  | .cons (.ctor c) rest => c :: ownCtors rest
  | .cons _ rest => ownCtors rest

/-- routes registered directly against a blueprint, in order -/
def ownRoutes : Bp → List Nat
  | .nil => []
  | .cons (.route r) rest => r :: ownRoutes rest
  | .cons _ rest => ownRoutes rest

/-- middlewares registered directly against a blueprint, in order -/
def ownMwIds : Bp → List Nat
  | .nil => []
  | .cons (.mw m) rest => m :: ownMwIds rest
  | .cons _ rest => ownMwIds rest

/-- the blueprint's own latest registration for a type -/
def ownLast (b : Bp) (ty : Nat) : Option Ctor := ((ownCtors b).filter (fun c => c.ty == ty)).getLast?

mutual
  /-- what the routes inside the blueprints nested in `b` get for `ty`, when `b` itself resolves it to `env` -/
  def nestedDesig (env : Option Ctor) (ty : Nat) : Bp → List (Nat × Option Ctor)
    | .nil => []
    | .cons i rest => nestedItem env ty i ++ nestedDesig env ty rest
  def nestedItem (env : Option Ctor) (ty : Nat) : Item → List (Nat × Option Ctor)
    | .nest b =>
      (ownRoutes b).map (fun r => (r, (ownLast b ty).or env)) ++ nestedDesig ((ownLast b ty).or env) ty b
    | _ => []
end

mutual
  /-- the same for the middlewares registered inside the blueprints nested in `b` -/
  def nestedDesigM (env : Option Ctor) (ty : Nat) : Bp → List (Nat × Option Ctor)
    | .nil => []
    | .cons i rest => nestedItemM env ty i ++ nestedDesigM env ty rest
  def nestedItemM (env : Option Ctor) (ty : Nat) : Item → List (Nat × Option Ctor)
    | .nest b =>
      (ownMwIds b).map (fun r => (r, (ownLast b ty).or env)) ++ nestedDesigM ((ownLast b ty).or env) ty b
    | _ => []
end

/-- the rule for middlewares: a middleware sees what the blueprint it is registered against sees -/
def designatedM (b : Bp) (ty : Nat) : List (Nat × Option Ctor) :=
  (ownMwIds b).map (fun r => (r, ownLast b ty)) ++ nestedDesigM (ownLast b ty) ty b

/-- **the documented rule**, read off the blueprint tree: a route gets, for a type, the latest registration of the
    nearest enclosing blueprint (its own included) that registers the type at all. -/
def designated (b : Bp) (ty : Nat) : List (Nat × Option Ctor) :=
  (ownRoutes b).map (fun r => (r, ownLast b ty)) ++ nestedDesig (ownLast b ty) ty b

/-- what a walk over a blueprint's own registrations adds -/
theorem walkOwn_delta : ∀ (b : Bp) (cur : Nat) (st : St), ∃ (es rs ms : List (Nat × Nat)),
    (walkOwn b cur st).regs = st.regs ++ (ownCtors b).map (fun c => (cur, c)) ∧
    (walkOwn b cur st).edges = st.edges ++ es ∧ (∀ e ∈ es, e.1 = cur ∧ st.next ≤ e.2) ∧
    (walkOwn b cur st).routes = st.routes ++ rs ∧ rs.map (·.1) = ownRoutes b ∧ (∀ r ∈ rs, (cur, r.2) ∈ es) ∧
    (walkOwn b cur st).mws = st.mws ++ ms ∧ (∀ m ∈ ms, (cur, m.2) ∈ es) ∧
    (walkOwn b cur st).nested = st.nested ∧ ms.map (·.1) = ownMwIds b := by
  intro b
  induction b using Bp.rec (motive_1 := fun _ => True) with
  | nil => intro cur st; exact ⟨[], [], [], by simp [walkOwn, ownCtors, ownRoutes, ownMwIds]⟩
  | cons i rest _ ih =>
    intro cur st
    cases i with
    | ctor c =>
      obtain ⟨es, rs, ms, h1, h2, h3, h4, h5, h6, h7, h8, h9, h10⟩ := ih cur { st with regs := st.regs ++ [(cur, c)] }
      refine ⟨es, rs, ms, ?_, h2, h3, h4, ?_, h6, h7, h8, h9, ?_⟩
      · simp only [walkOwn, ownCtors, List.map_cons]; rw [h1]; simp
      · simp only [ownRoutes]; exact h5
      · simp only [ownMwIds]; exact h10
    | mw m =>
      obtain ⟨es, rs, ms, h1, h2, h3, h4, h5, h6, h7, h8, h9, h10⟩ :=
        ih cur { st.addScope cur with mws := st.mws ++ [(m, st.next)] }
      refine ⟨(cur, st.next) :: es, rs, (m, st.next) :: ms, ?_, ?_, ?_, ?_, ?_, ?_, ?_, ?_, ?_, ?_⟩
      · simp only [walkOwn, ownCtors]; rw [h1]; rfl
      · simp only [walkOwn]; rw [h2]; simp [St.addScope]
      · intro e he
        simp only [List.mem_cons] at he
        rcases he with rfl | he
        · exact ⟨rfl, Nat.le_refl _⟩
        · have := h3 e he; simp only [St.addScope] at this; exact ⟨this.1, by omega⟩
      · simp only [walkOwn]; rw [h4]; rfl
      · simp only [ownRoutes]; exact h5
      · intro r hr; exact List.mem_cons_of_mem _ (h6 r hr)
      · simp only [walkOwn]; rw [h7]; simp
      · intro x hx
        simp only [List.mem_cons] at hx
        rcases hx with rfl | hx
        · simp
        · exact List.mem_cons_of_mem _ (h8 x hx)
      · simp only [walkOwn]; rw [h9]; rfl
      · simp only [ownMwIds, List.map_cons]; rw [h10]
    | route r =>
      obtain ⟨es, rs, ms, h1, h2, h3, h4, h5, h6, h7, h8, h9, h10⟩ :=
        ih cur { st.addScope cur with routes := st.routes ++ [(r, st.next)] }
      refine ⟨(cur, st.next) :: es, (r, st.next) :: rs, ms, ?_, ?_, ?_, ?_, ?_, ?_, ?_, ?_, ?_, ?_⟩
      · simp only [walkOwn, ownCtors]; rw [h1]; rfl
      · simp only [walkOwn]; rw [h2]; simp [St.addScope]
      · intro e he
        simp only [List.mem_cons] at he
        rcases he with rfl | he
        · exact ⟨rfl, Nat.le_refl _⟩
        · have := h3 e he; simp only [St.addScope] at this; exact ⟨this.1, by omega⟩
      · simp only [walkOwn]; rw [h4]; simp
      · simp only [ownRoutes, List.map_cons]; rw [h5]
      · intro x hx
        simp only [List.mem_cons] at hx
        rcases hx with rfl | hx
        · simp
        · exact List.mem_cons_of_mem _ (h6 x hx)
      · simp only [walkOwn]; rw [h7]; rfl
      · intro x hx; exact List.mem_cons_of_mem _ (h8 x hx)
      · simp only [walkOwn]; rw [h9]; rfl
      · simp only [ownMwIds]; exact h10
    | nest b' =>
      obtain ⟨es, rs, ms, h⟩ := ih cur st
      exact ⟨es, rs, ms, by simpa [walkOwn, ownCtors, ownRoutes, ownMwIds] using h⟩
    | other =>
      obtain ⟨es, rs, ms, h⟩ := ih cur st
      exact ⟨es, rs, ms, by simpa [walkOwn, ownCtors, ownRoutes, ownMwIds] using h⟩
  | ctor c => trivial
  | mw m => trivial
  | route r => trivial
  | nest b _ => trivial
  | other => trivial


/-- `fin` is `st` plus things that only concern scopes created later -/
structure Ext (st fin : St) : Prop where
  next : st.next ≤ fin.next
  regs : ∃ re, fin.regs = st.regs ++ re ∧ ∀ r ∈ re, st.next ≤ r.1
  edges : ∃ ee, fin.edges = st.edges ++ ee ∧ ∀ e ∈ ee, st.next ≤ e.2
  routes : ∃ rr, fin.routes = st.routes ++ rr
  mws : ∃ mm, fin.mws = st.mws ++ mm

theorem Ext.refl (st : St) : Ext st st := ⟨Nat.le_refl _, ⟨[], by simp⟩, ⟨[], by simp⟩, ⟨[], by simp⟩, ⟨[], by simp⟩⟩

theorem Ext.trans {a b c : St} (h1 : Ext a b) (h2 : Ext b c) : Ext a c := by
  obtain ⟨r1, hr1, hr1'⟩ := h1.regs
  obtain ⟨r2, hr2, hr2'⟩ := h2.regs
  obtain ⟨e1, he1, he1'⟩ := h1.edges
  obtain ⟨e2, he2, he2'⟩ := h2.edges
  obtain ⟨q1, hq1⟩ := h1.routes
  obtain ⟨q2, hq2⟩ := h2.routes
  obtain ⟨m1, hm1⟩ := h1.mws
  obtain ⟨m2, hm2⟩ := h2.mws
  refine ⟨Nat.le_trans h1.next h2.next, ⟨r1 ++ r2, by rw [hr2, hr1, List.append_assoc], ?_⟩,
    ⟨e1 ++ e2, by rw [he2, he1, List.append_assoc], ?_⟩, ⟨q1 ++ q2, by rw [hq2, hq1, List.append_assoc]⟩,
    ⟨m1 ++ m2, by rw [hm2, hm1, List.append_assoc]⟩⟩
  · intro r hr
    simp only [List.mem_append] at hr
    rcases hr with hr | hr
    · exact hr1' r hr
    · have := hr2' r hr; have := h1.next; omega
  · intro e he
    simp only [List.mem_append] at he
    rcases he with he | he
    · exact he1' e he
    · have := he2' e he; have := h1.next; omega

/-- registrations only name scopes that exist -/
def RegsLt (st : St) : Prop := ∀ r ∈ st.regs, r.1 < st.next

theorem filter_range_more (pr : Nat → Bool) (m d : Nat) (h : ∀ p, m ≤ p → pr p = false) :
    (List.range (m + d)).filter pr = (List.range m).filter pr := by
  induction d with
  | zero => rfl
  | succ d ih =>
    rw [← Nat.add_assoc, List.range_succ, List.filter_append, ih]
    simp [h (m + d) (by omega)]

/-- in a later state the parents of an old scope are what they were -/
theorem parents_frozen {st fin : St} (hx : Ext st fin) (hst : st.Wf) (_hfin : fin.Wf) (s : Nat) (hs : s < st.next) :
    (build fin).parents s = (build st).parents s := by
  obtain ⟨ee, hee, hee'⟩ := hx.edges
  unfold SGraph.parents
  have hpred : ∀ p, (build fin).edges.contains (p, s) = (build st).edges.contains (p, s) := by
    intro p
    simp only [build, hee]
    rw [Bool.eq_iff_iff]
    simp only [List.contains_iff_mem, List.mem_append, List.mem_map, Prod.mk.injEq]
    constructor
    · rintro ((h | h) | ⟨q, _, _, h⟩)
      · exact Or.inl h
      · have := hee' _ h; simp only at this; omega
      · have := hx.next; omega
    · rintro (h | ⟨q, _, _, h⟩)
      · exact Or.inl (Or.inl h)
      · omega
  have hfalse : ∀ p, st.next + 1 ≤ p → (build st).edges.contains (p, s) = false := by
    intro p hp
    rw [Bool.eq_false_iff]
    intro hc
    simp only [build, List.contains_iff_mem, List.mem_append, List.mem_map, Prod.mk.injEq] at hc
    rcases hc with h | ⟨q, _, _, h⟩
    · have := (hst.lt _ h).1; simp only at this; omega
    · omega
  have h1 : (build fin).app + 1 = (st.next + 1) + (fin.next - st.next) := by
    have := hx.next; simp only [build]; omega
  have h2 : (build st).app + 1 = st.next + 1 := rfl
  rw [h1, h2]
  rw [filter_range_more _ _ _ (by intro p hp; rw [hpred]; exact hfalse p hp)]
  congr 1
  funext p
  exact hpred p

theorem chainF_congr (par1 par2 : Nat → List Nat) (hd : Decr par1) :
    ∀ f s, (∀ k, k ≤ s → par1 k = par2 k) → chainF par1 f s = chainF par2 f s := by
  intro f
  induction f with
  | zero => intro s _; rfl
  | succ f ih =>
    intro s h
    simp only [chainF]
    rw [← h s (Nat.le_refl _)]
    congr 1
    match hp : par1 s with
    | [] => rfl
    | [p] =>
      simp only
      have hlt : p < s := hd s p (by simp [hp])
      exact ih p (fun k hk => h k (by omega))
    | _ :: _ :: _ => rfl

theorem chainF_le (par : Nat → List Nat) (hd : Decr par) : ∀ f s, ∀ k ∈ chainF par f s, k ≤ s := by
  intro f
  induction f with
  | zero => intro s k hk; simp [chainF] at hk
  | succ f ih =>
    intro s k hk
    simp only [chainF, List.mem_cons] at hk
    rcases hk with rfl | hk
    · exact Nat.le_refl _
    · match hp : par s with
      | [] => rw [hp] at hk; simp at hk
      | [p] =>
        rw [hp] at hk
        simp only at hk
        have hlt : p < s := hd s p (by simp [hp])
        have := ih p k hk
        omega
      | _ :: _ :: _ => rw [hp] at hk; simp at hk

def getF (st : St) (s ty : Nat) : Option Ctor := get (build st) st.regs s ty

theorem getF_eq (st : St) (hst : st.Wf) (s ty : Nat) (hs : s < st.next) :
    getF st s ty = firstHit (fun k => lookup st.regs k ty) (ancestors (build st) s) := by
  have hd := build_decr _ hst
  unfold getF
  apply get_nearest _ _ _ _ hd
  · simp [build]; omega
  · exact treeFrom_of_le_one _ hd st.next (build_parents_le_one _ hst) _ _ hs

/-- **frozen**: what an existing scope resolves to does not change when the rest of the blueprint is processed -/
theorem getF_frozen {st fin : St} (hx : Ext st fin) (hst : st.Wf) (hfin : fin.Wf) (s ty : Nat) (hs : s < st.next) :
    getF fin s ty = getF st s ty := by
  rw [getF_eq fin hfin s ty (by have := hx.next; omega), getF_eq st hst s ty hs]
  have hanc : ancestors (build fin) s = ancestors (build st) s := by
    unfold ancestors
    apply chainF_congr _ _ (build_decr _ hfin)
    intro k hk
    exact parents_frozen hx hst hfin k (by omega)
  rw [hanc]
  apply firstHit_congr
  intro k hk
  have hk' : k ≤ s := chainF_le _ (build_decr _ hst) _ _ k hk
  apply lookup_congr
  obtain ⟨re, hre, hre'⟩ := hx.regs
  rw [hre, List.filter_append]
  have : re.filter (fun r => r.1 == k) = [] := by
    rw [List.filter_eq_nil_iff]
    intro r hr hrk
    simp only [beq_iff_eq] at hrk
    have := hre' r hr
    omega
  rw [this, List.append_nil]


theorem parents_of_edge {st : St} (hst : st.Wf) {p s : Nat} (h : (p, s) ∈ st.edges) : (build st).parents s = [p] := by
  have hlt := hst.lt _ h
  simp only at hlt
  have hmem : p ∈ (build st).parents s := by
    simp only [SGraph.parents, List.mem_filter, List.mem_range, List.contains_iff_mem, build, List.mem_append]
    exact ⟨by omega, Or.inl h⟩
  have hlen := build_parents_le_one st hst s hlt.2
  match hp : (build st).parents s with
  | [] => rw [hp] at hmem; cases hmem
  | [q] => rw [hp] at hmem; simp only [List.mem_singleton] at hmem; rw [hmem]
  | _ :: _ :: _ => rw [hp] at hlen; simp at hlen

theorem lookup_of_no_regs (regs : List (Nat × Ctor)) (s ty : Nat) (h : regs.filter (fun r => r.1 == s) = []) :
    lookup regs s ty = none := by
  unfold lookup table
  rw [h]; rfl

theorem lookup_own (regs : List (Nat × Ctor)) (sc : Nat) (l : List Ctor) (ty : Nat)
    (h : regs.filter (fun r => r.1 == sc) = []) :
    lookup (regs ++ l.map (fun c => (sc, c))) sc ty = (l.filter (fun c => c.ty == ty)).getLast? := by
  rw [latest_wins, List.filter_append]
  have h1 : regs.filter (fun r => r.1 == sc && r.2.ty == ty) = [] := by
    rw [List.filter_eq_nil_iff] at h ⊢
    intro r hr hc
    simp only [Bool.and_eq_true] at hc
    exact h r hr hc.1
  rw [h1, List.nil_append, List.filter_map]
  have : ((fun r : Nat × Ctor => r.1 == sc && r.2.ty == ty) ∘ fun c => (sc, c)) = fun c => c.ty == ty := by
    funext c; simp
  rw [this, List.getLast?_map, Option.map_map]
  cases (l.filter (fun c => c.ty == ty)).getLast? <;> rfl

/-- what processing one nested blueprint's own registrations establishes -/
theorem nest_walk (b : Bp) (cur : Nat) (st : St) (hst : st.Wf) (hr : RegsLt st) (hc : cur < st.next) (ty : Nat) :
    let st2 := walkOwn b st.next { st.addScope cur with nested := st.nested ++ [(st.next, cur)] }
    st2.Wf ∧ RegsLt st2 ∧ st.next < st2.next ∧ Ext st st2 ∧
    lookup st2.regs st.next ty = ownLast b ty ∧ (build st2).parents st.next = [cur] ∧
    (∃ rs, st2.routes = st.routes ++ rs ∧ rs.map (·.1) = ownRoutes b ∧
      ∀ r ∈ rs, r.2 < st2.next ∧ (build st2).parents r.2 = [st.next] ∧ lookup st2.regs r.2 ty = none) ∧
    (∃ ms, st2.mws = st.mws ++ ms ∧ ms.map (·.1) = ownMwIds b ∧
      ∀ r ∈ ms, r.2 < st2.next ∧ (build st2).parents r.2 = [st.next] ∧ lookup st2.regs r.2 ty = none) := by
  intro st2
  have h0 : ({ st.addScope cur with nested := st.nested ++ [(st.next, cur)] } : St).Wf :=
    wf_nested _ _ (addScope_wf st cur hst hc)
  have hw := walkOwn_wf b st.next _ h0 (by simp [St.addScope])
  obtain ⟨es, rs, ms, h1, h2, h3, h4, h5, h6, h7, h8, h9, h10⟩ :=
    walkOwn_delta b st.next { st.addScope cur with nested := st.nested ++ [(st.next, cur)] }
  have hnext : st.next + 1 ≤ st2.next := hw.2
  have hnone : st.regs.filter (fun r => r.1 == st.next) = [] := by
    rw [List.filter_eq_nil_iff]
    intro r hr' hc'
    simp only [beq_iff_eq] at hc'
    have := hr r hr'
    omega
  have hedge : (cur, st.next) ∈ st2.edges := by
    show (cur, st.next) ∈ (walkOwn b st.next _).edges
    rw [h2]; simp [St.addScope]
  have leaf : ∀ k, (st.next, k) ∈ es →
      k < st2.next ∧ (build st2).parents k = [st.next] ∧ lookup st2.regs k ty = none := by
    intro k he
    have hge := (h3 _ he).2
    simp only [St.addScope] at hge
    have hmem : (st.next, k) ∈ st2.edges := by
      show _ ∈ (walkOwn b st.next _).edges
      rw [h2]; exact List.mem_append_right _ he
    refine ⟨(hw.1.lt _ hmem).2, parents_of_edge hw.1 hmem, ?_⟩
    apply lookup_of_no_regs
    show (walkOwn b st.next _).regs.filter _ = []
    rw [h1, List.filter_append]
    have a1 : st.regs.filter (fun x => x.1 == k) = [] := by
      rw [List.filter_eq_nil_iff]
      intro x hx hc'
      simp only [beq_iff_eq] at hc'
      have := hr x hx
      omega
    have a2 : ((ownCtors b).map (fun c => (st.next, c))).filter (fun x => x.1 == k) = [] := by
      rw [List.filter_eq_nil_iff]
      intro x hx hc'
      simp only [List.mem_map] at hx
      obtain ⟨c, _, rfl⟩ := hx
      simp only [beq_iff_eq] at hc'
      omega
    rw [show ({ st.addScope cur with nested := st.nested ++ [(st.next, cur)] } : St).regs = st.regs from rfl, a1, a2]
    rfl
  refine ⟨hw.1, ?_, by omega, ?_, ?_, parents_of_edge hw.1 hedge, ⟨rs, h4, h5, fun r hr' => leaf r.2 (h6 r hr')⟩,
    ⟨ms, h7, h10, fun r hr' => leaf r.2 (h8 r hr')⟩⟩
  · intro r hr'
    have hr'' : r ∈ (walkOwn b st.next _).regs := hr'
    rw [h1] at hr''
    simp only [List.mem_append, List.mem_map] at hr''
    rcases hr'' with hr'' | ⟨c, _, rfl⟩
    · have := hr r hr''; omega
    · show st.next < st2.next; omega
  · refine ⟨by omega, ⟨_, h1, ?_⟩, ⟨(cur, st.next) :: es, ?_, ?_⟩, ⟨rs, h4⟩, ⟨ms, h7⟩⟩
    · intro r hr'
      simp only [List.mem_map] at hr'
      obtain ⟨c, _, rfl⟩ := hr'
      exact Nat.le_refl _
    · show (walkOwn b st.next _).edges = _
      rw [h2]; simp [St.addScope]
    · intro e he
      simp only [List.mem_cons] at he
      rcases he with rfl | he
      · exact Nat.le_refl _
      · have := (h3 e he).2; simp only [St.addScope] at this; omega
  · show lookup (walkOwn b st.next _).regs st.next ty = ownLast b ty
    rw [h1]
    exact lookup_own st.regs st.next (ownCtors b) ty hnone

theorem getF_parent (st : St) (hst : st.Wf) (s p ty : Nat) (hs : s < st.next)
    (hp : (build st).parents s = [p]) (hnone : lookup st.regs s ty = none) : getF st s ty = getF st p ty := by
  have hd := build_decr _ hst
  exact parent_inherited _ _ s p ty hd (by simp [build]; omega)
    (treeFrom_of_le_one _ hd st.next (build_parents_le_one _ hst) _ _ hs) hp hnone

theorem getF_own (st : St) (s ty : Nat) (c : Ctor) (h : lookup st.regs s ty = some c) : getF st s ty = some c :=
  own_registration_wins _ _ s ty c h

theorem kids_facts : ∀ (b : Bp) (cur : Nat) (st : St), st.Wf → RegsLt st → cur < st.next →
    RegsLt (kids b cur st) ∧ Ext st (kids b cur st) := by
  intro b
  induction b using Bp.rec (motive_1 := fun i => ∀ (cur : Nat) (st : St), st.Wf → RegsLt st → cur < st.next →
      RegsLt (kid i cur st) ∧ Ext st (kid i cur st)) with
  | nil => intro cur st _ hr _; simp only [kids]; exact ⟨hr, Ext.refl _⟩
  | cons i rest ihi ihr =>
    intro cur st h hr hc
    simp only [kids]
    have h1 := ihr cur st h hr hc
    have hw := kids_wf rest cur st h hc
    have h2 := ihi cur _ hw.1 h1.1 (by omega)
    exact ⟨h2.1, Ext.trans h1.2 h2.2⟩
  | ctor c => rename_i cur st _ hr _; simp only [kid]; exact ⟨hr, Ext.refl _⟩
  | mw m => rename_i cur st _ hr _; simp only [kid]; exact ⟨hr, Ext.refl _⟩
  | route r => rename_i cur st _ hr _; simp only [kid]; exact ⟨hr, Ext.refl _⟩
  | other => rename_i cur st _ hr _; simp only [kid]; exact ⟨hr, Ext.refl _⟩
  | nest b ih =>
    rename_i cur st h hr hc
    simp only [kid]
    obtain ⟨hw2, hr2, hlt, hx2, _⟩ := nest_walk b cur st h hr hc 0
    have := ih st.next _ hw2 hr2 hlt
    exact ⟨this.1, Ext.trans hx2 this.2⟩

/-- **C04 — the scope walk implements the documented rule, on every blueprint**: inside the blueprints nested in `b`
    every route resolves a type to what the rule designates, given what `b`'s own scope resolves it to. -/
theorem kids_designated (ty : Nat) : ∀ (b : Bp) (cur : Nat) (st fin : St) (env : Option Ctor),
    st.Wf → RegsLt st → cur < st.next → fin.Wf → Ext (kids b cur st) fin → getF fin cur ty = env →
    ∀ rs, (kids b cur st).routes = st.routes ++ rs → ∀ rk ∈ rs, (rk.1, getF fin rk.2 ty) ∈ nestedDesig env ty b := by
  intro b
  induction b using Bp.rec (motive_1 := fun i => ∀ (cur : Nat) (st fin : St) (env : Option Ctor),
      st.Wf → RegsLt st → cur < st.next → fin.Wf → Ext (kid i cur st) fin → getF fin cur ty = env →
      ∀ rs, (kid i cur st).routes = st.routes ++ rs → ∀ rk ∈ rs, (rk.1, getF fin rk.2 ty) ∈ nestedItem env ty i) with
  | nil =>
    intro cur st fin env _ _ _ _ _ _ rs hrs rk hrk
    simp only [kids] at hrs
    have : rs = [] := by simpa using hrs
    rw [this] at hrk; cases hrk
  | cons i rest ihi ihr =>
    intro cur st fin env h hr hc hfin hx henv rs hrs rk hrk
    simp only [kids] at hrs hx
    have hA := kids_facts rest cur st h hr hc
    have hwA := kids_wf rest cur st h hc
    have hB := kids_facts (.cons i .nil) cur (kids rest cur st) hwA.1 hA.1 (by omega)
    simp only [kids] at hB
    obtain ⟨r1, hr1⟩ := hA.2.routes
    obtain ⟨r2, hr2⟩ := hB.2.routes
    have hsplit : rs = r1 ++ r2 := by
      rw [hr2, hr1, List.append_assoc] at hrs
      exact (List.append_cancel_left hrs).symm
    rw [hsplit] at hrk
    simp only [nestedDesig, List.mem_append] at hrk ⊢
    rcases hrk with hrk | hrk
    · right
      exact ihr cur st fin env h hr hc hfin (Ext.trans hB.2 hx) henv r1 hr1 rk hrk
    · left
      exact ihi cur _ fin env hwA.1 hA.1 (by omega) hfin hx henv r2 hr2 rk hrk
  | ctor c =>
    rename_i cur st fin env _ _ _ _ _ _ rs hrs rk hrk
    simp only [kid] at hrs
    have : rs = [] := by simpa using hrs
    rw [this] at hrk; cases hrk
  | mw m =>
    rename_i cur st fin env _ _ _ _ _ _ rs hrs rk hrk
    simp only [kid] at hrs
    have : rs = [] := by simpa using hrs
    rw [this] at hrk; cases hrk
  | route r =>
    rename_i cur st fin env _ _ _ _ _ _ rs hrs rk hrk
    simp only [kid] at hrs
    have : rs = [] := by simpa using hrs
    rw [this] at hrk; cases hrk
  | other =>
    rename_i cur st fin env _ _ _ _ _ _ rs hrs rk hrk
    simp only [kid] at hrs
    have : rs = [] := by simpa using hrs
    rw [this] at hrk; cases hrk
  | nest b ih =>
    rename_i cur st fin env h hr hc hfin hx henv rs hrs rk hrk
    simp only [kid] at hrs hx
    obtain ⟨hw2, hr2, hlt, hx2, hlook, hpar, ⟨rs2, hrs2, hmap2, hroutes2⟩, _⟩ := nest_walk b cur st h hr hc ty
    -- names for the two intermediate states
    generalize hst2 : walkOwn b st.next { st.addScope cur with nested := st.nested ++ [(st.next, cur)] } = st2 at *
    have h3 := kids_facts b st.next st2 hw2 hr2 hlt
    obtain ⟨rs3, hrs3⟩ := h3.2.routes
    have hsplit : rs = rs2 ++ rs3 := by
      rw [hrs3, hrs2, List.append_assoc] at hrs
      exact (List.append_cancel_left hrs).symm
    have hx2fin : Ext st2 fin := Ext.trans h3.2 hx
    have hxfin : Ext st fin := Ext.trans hx2 hx2fin
    -- what the nested blueprint's scope resolves the type to
    have hcur : getF st2 cur ty = env := by
      rw [← henv, getF_frozen hxfin h hfin cur ty hc, getF_frozen hx2 h hw2 cur ty hc]
    have hsc : getF fin st.next ty = (ownLast b ty).or env := by
      rw [getF_frozen hx2fin hw2 hfin st.next ty hlt]
      cases hl : ownLast b ty with
      | some c =>
        rw [hl] at hlook
        simpa using getF_own st2 st.next ty c hlook
      | none =>
        rw [hl] at hlook
        rw [getF_parent st2 hw2 st.next cur ty hlt hpar hlook, hcur]
        simp
    rw [hsplit] at hrk
    simp only [nestedItem, List.mem_append] at hrk ⊢
    rcases hrk with hrk | hrk
    · left
      obtain ⟨hk1, hk2, hk3⟩ := hroutes2 rk hrk
      have : getF fin rk.2 ty = (ownLast b ty).or env := by
        rw [getF_frozen hx2fin hw2 hfin rk.2 ty hk1, getF_parent st2 hw2 rk.2 st.next ty hk1 hk2 hk3,
          ← getF_frozen hx2fin hw2 hfin st.next ty hlt, hsc]
      rw [this]
      refine List.mem_map.mpr ⟨rk.1, ?_, rfl⟩
      rw [← hmap2]
      exact List.mem_map.mpr ⟨rk, hrk, rfl⟩
    · right
      exact ih st.next st2 fin _ hw2 hr2 hlt hfin hx hsc rs3 hrs3 rk hrk


/-- the same for middlewares: inside the blueprints nested in `b`
    every middleware resolves a type to what the rule designates, given what `b`'s own scope resolves it to. -/
theorem kids_designated_m (ty : Nat) : ∀ (b : Bp) (cur : Nat) (st fin : St) (env : Option Ctor),
    st.Wf → RegsLt st → cur < st.next → fin.Wf → Ext (kids b cur st) fin → getF fin cur ty = env →
    ∀ rs, (kids b cur st).mws = st.mws ++ rs → ∀ rk ∈ rs, (rk.1, getF fin rk.2 ty) ∈ nestedDesigM env ty b := by
  intro b
  induction b using Bp.rec (motive_1 := fun i => ∀ (cur : Nat) (st fin : St) (env : Option Ctor),
      st.Wf → RegsLt st → cur < st.next → fin.Wf → Ext (kid i cur st) fin → getF fin cur ty = env →
      ∀ rs, (kid i cur st).mws = st.mws ++ rs → ∀ rk ∈ rs, (rk.1, getF fin rk.2 ty) ∈ nestedItemM env ty i) with
  | nil =>
    intro cur st fin env _ _ _ _ _ _ rs hrs rk hrk
    simp only [kids] at hrs
    have : rs = [] := by simpa using hrs
    rw [this] at hrk; cases hrk
  | cons i rest ihi ihr =>
    intro cur st fin env h hr hc hfin hx henv rs hrs rk hrk
    simp only [kids] at hrs hx
    have hA := kids_facts rest cur st h hr hc
    have hwA := kids_wf rest cur st h hc
    have hB := kids_facts (.cons i .nil) cur (kids rest cur st) hwA.1 hA.1 (by omega)
    simp only [kids] at hB
    obtain ⟨r1, hr1⟩ := hA.2.mws
    obtain ⟨r2, hr2⟩ := hB.2.mws
    have hsplit : rs = r1 ++ r2 := by
      rw [hr2, hr1, List.append_assoc] at hrs
      exact (List.append_cancel_left hrs).symm
    rw [hsplit] at hrk
    simp only [nestedDesigM, List.mem_append] at hrk ⊢
    rcases hrk with hrk | hrk
    · right
      exact ihr cur st fin env h hr hc hfin (Ext.trans hB.2 hx) henv r1 hr1 rk hrk
    · left
      exact ihi cur _ fin env hwA.1 hA.1 (by omega) hfin hx henv r2 hr2 rk hrk
  | ctor c =>
    rename_i cur st fin env _ _ _ _ _ _ rs hrs rk hrk
    simp only [kid] at hrs
    have : rs = [] := by simpa using hrs
    rw [this] at hrk; cases hrk
  | mw m =>
    rename_i cur st fin env _ _ _ _ _ _ rs hrs rk hrk
    simp only [kid] at hrs
    have : rs = [] := by simpa using hrs
    rw [this] at hrk; cases hrk
  | route r =>
    rename_i cur st fin env _ _ _ _ _ _ rs hrs rk hrk
    simp only [kid] at hrs
    have : rs = [] := by simpa using hrs
    rw [this] at hrk; cases hrk
  | other =>
    rename_i cur st fin env _ _ _ _ _ _ rs hrs rk hrk
    simp only [kid] at hrs
    have : rs = [] := by simpa using hrs
    rw [this] at hrk; cases hrk
  | nest b ih =>
    rename_i cur st fin env h hr hc hfin hx henv rs hrs rk hrk
    simp only [kid] at hrs hx
    obtain ⟨hw2, hr2, hlt, hx2, hlook, hpar, _, ⟨rs2, hrs2, hmap2, hroutes2⟩⟩ := nest_walk b cur st h hr hc ty
    -- names for the two intermediate states
    generalize hst2 : walkOwn b st.next { st.addScope cur with nested := st.nested ++ [(st.next, cur)] } = st2 at *
    have h3 := kids_facts b st.next st2 hw2 hr2 hlt
    obtain ⟨rs3, hrs3⟩ := h3.2.mws
    have hsplit : rs = rs2 ++ rs3 := by
      rw [hrs3, hrs2, List.append_assoc] at hrs
      exact (List.append_cancel_left hrs).symm
    have hx2fin : Ext st2 fin := Ext.trans h3.2 hx
    have hxfin : Ext st fin := Ext.trans hx2 hx2fin
    -- what the nested blueprint's scope resolves the type to
    have hcur : getF st2 cur ty = env := by
      rw [← henv, getF_frozen hxfin h hfin cur ty hc, getF_frozen hx2 h hw2 cur ty hc]
    have hsc : getF fin st.next ty = (ownLast b ty).or env := by
      rw [getF_frozen hx2fin hw2 hfin st.next ty hlt]
      cases hl : ownLast b ty with
      | some c =>
        rw [hl] at hlook
        simpa using getF_own st2 st.next ty c hlook
      | none =>
        rw [hl] at hlook
        rw [getF_parent st2 hw2 st.next cur ty hlt hpar hlook, hcur]
        simp
    rw [hsplit] at hrk
    simp only [nestedItemM, List.mem_append] at hrk ⊢
    rcases hrk with hrk | hrk
    · left
      obtain ⟨hk1, hk2, hk3⟩ := hroutes2 rk hrk
      have : getF fin rk.2 ty = (ownLast b ty).or env := by
        rw [getF_frozen hx2fin hw2 hfin rk.2 ty hk1, getF_parent st2 hw2 rk.2 st.next ty hk1 hk2 hk3,
          ← getF_frozen hx2fin hw2 hfin st.next ty hlt, hsc]
      rw [this]
      refine List.mem_map.mpr ⟨rk.1, ?_, rfl⟩
      rw [← hmap2]
      exact List.mem_map.mpr ⟨rk, hrk, rfl⟩
    · right
      exact ih st.next st2 fin _ hw2 hr2 hlt hfin hx hsc rs3 hrs3 rk hrk


theorem getF_root (st : St) (hst : st.Wf) (ty : Nat) : getF st 0 ty = lookup st.regs 0 ty := by
  rw [getF_eq st hst 0 ty hst.pos]
  have : ancestors (build st) 0 = [0] := by
    unfold ancestors
    simp only [chainF]
    split <;> rfl
  rw [this]
  simp only [firstHit]
  cases lookup st.regs 0 ty <;> rfl

end Pxv.Scope
