import Pxv.Model.TyParse
/-! Helper lemmas for C17: the reader of rendered types inverts `renderD false` on well-formed types. -/
namespace Pxv.Ty

/-! #### characters and spans -/

theorem spanP_append {p : Char → Bool} : ∀ (w r : List Char), (∀ c ∈ w, p c = true) →
    (r = [] ∨ ∃ c r', r = c :: r' ∧ p c = false) → spanP p (w ++ r) = (w, r)
  | [], r, _, hr => by
      rcases hr with rfl | ⟨c, r', rfl, hc⟩
      · rfl
      · simp [spanP, hc]
  | a :: w, r, hw, hr => by
      have ha : p a = true := hw a (by simp)
      have := spanP_append w r (fun c hc => hw c (by simp [hc])) hr
      simp [spanP, ha, this]

/-- What may follow a rendered type inside a rendered type. -/
def follow : List Char → Bool
  | [] => true
  | c :: _ => c == ',' || c == '>' || c == ')' || c == ']' || c == ';'

theorem follow_cases {rest : List Char} (h : follow rest = true) :
    rest = [] ∨ ∃ c r, rest = c :: r ∧ (c = ',' ∨ c = '>' ∨ c = ')' ∨ c = ']' ∨ c = ';') := by
  cases rest with
  | nil => exact Or.inl rfl
  | cons c r =>
    right; refine ⟨c, r, rfl, ?_⟩
    simp [follow] at h
    rcases h with (((h | h) | h) | h) | h <;> simp [h]

/-- The facts about a follow character the proofs use. -/
theorem follow_facts {rest : List Char} (h : follow rest = true) :
    rest = [] ∨ ∃ c r, rest = c :: r ∧ isIdChar c = false ∧ c.isDigit = false ∧ c ≠ ':' ∧ c ≠ '<' ∧ c ≠ ' '
      ∧ c ≠ '\'' := by
  rcases follow_cases h with rfl | ⟨c, r, rfl, hc⟩
  · exact Or.inl rfl
  · right; refine ⟨c, r, rfl, ?_⟩
    rcases hc with rfl | rfl | rfl | rfl | rfl <;> decide

theorem follow_notId {rest : List Char} (h : follow rest = true) :
    rest = [] ∨ ∃ c r', rest = c :: r' ∧ isIdChar c = false := by
  rcases follow_facts h with rfl | ⟨c, r, rfl, h1, _⟩
  · exact Or.inl rfl
  · exact Or.inr ⟨c, r, rfl, h1⟩

theorem isIdStart_isIdChar {c : Char} (h : isIdStart c = true) : isIdChar c = true := by
  simp only [isIdStart, isIdChar, Char.isAlphanum, Bool.or_eq_true] at *
  rcases h with h | h
  · exact Or.inl (Or.inl h)
  · exact Or.inr h

/-- An identifier, unpacked. -/
theorem isIdent_unpack {x : String} (h : isIdent x = true) :
    (∃ c r, x.toList = c :: r ∧ isIdStart c = true) ∧ (∀ c ∈ x.toList, isIdChar c = true) ∧
      x ≠ "_" ∧ x ∉ reserved := by
  unfold isIdent at h
  simp only [Bool.and_eq_true, bne_iff_ne, ne_eq, Bool.not_eq_true', List.contains_eq_mem,
    decide_eq_false_iff_not] at h
  obtain ⟨⟨h1, h2⟩, h3⟩ := h
  cases hx : x.toList with
  | nil => simp [hx] at h1
  | cons c r =>
    simp only [hx, Bool.and_eq_true, List.all_eq_true] at h1
    refine ⟨⟨c, r, rfl, h1.1⟩, ?_, h2, h3⟩
    intro d hd
    simp only [List.mem_cons] at hd
    rcases hd with rfl | hd
    · exact isIdStart_isIdChar h1.1
    · exact h1.2 d hd

theorem toList_ne_of_ne {x : String} {w : String} (h : x ≠ w) : x.toList ≠ w.toList := by
  intro e
  apply h
  have := congrArg String.ofList e
  simpa using this

theorem isIdent_not_kw {x : String} (h : isIdent x = true) {w : String} (hw : w ∈ reserved) :
    x.toList ≠ w.toList := by
  apply toList_ne_of_ne
  intro e
  exact (isIdent_unpack h).2.2.2 (e ▸ hw)


/-! #### decimal numbers -/

theorem digitChars_spec : ∀ d : Fin 10, (digitChars.getD d.val '0').isDigit = true ∧
    (digitChars.getD d.val '0').toNat - 48 = d.val := by decide

theorem natDigits_ne_nil (n : Nat) : natDigits n ≠ [] := by
  unfold natDigits; split <;> simp

theorem natDigits_isDigit : ∀ (n : Nat), ∀ c ∈ natDigits n, c.isDigit = true := by
  intro n
  induction n using Nat.strongRecOn with
  | _ n ih =>
    intro c hc
    rw [natDigits.eq_1] at hc
    split at hc
    · rename_i h
      simp only [List.mem_singleton] at hc
      subst hc
      exact (digitChars_spec ⟨n, h⟩).1
    · simp only [List.mem_append, List.mem_singleton] at hc
      rcases hc with hc | hc
      · exact ih (n / 10) (by omega) c hc
      · subst hc
        exact (digitChars_spec ⟨n % 10, Nat.mod_lt _ (by decide)⟩).1

theorem digitsVal_natDigits : ∀ (n : Nat), digitsVal (natDigits n) = n := by
  intro n
  induction n using Nat.strongRecOn with
  | _ n ih =>
    rw [natDigits.eq_1]
    split
    · rename_i h
      have := (digitChars_spec ⟨n, h⟩).2
      simp only [digitsVal, List.foldl_cons, List.foldl_nil] at *
      omega
    · have h1 := ih (n / 10) (by omega)
      have h2 := (digitChars_spec ⟨n % 10, Nat.mod_lt _ (by decide)⟩).2
      simp only [digitsVal, List.foldl_append, List.foldl_cons, List.foldl_nil] at *
      rw [h1]
      omega

/-! #### scalars, ABIs, lifetimes -/

theorem scalarOfName_name (s : Scalar) : scalarOfName s.name.toList = some s := by cases s <;> rfl

theorem scalar_name_head (s : Scalar) : ∃ c r, s.name.toList = c :: r ∧ isIdStart c = true := by
  cases s <;> exact ⟨_, _, rfl, by decide⟩

theorem scalar_name_idChars (s : Scalar) : ∀ c ∈ s.name.toList, isIdChar c = true := by
  cases s <;> decide

theorem scalar_name_not_kw (s : Scalar) :
    s.name.toList ≠ "unsafe".toList ∧ s.name.toList ≠ "extern".toList ∧ s.name.toList ≠ "fn".toList ∧
    s.name.toList ≠ "mut".toList ∧ s.name.toList ≠ "true".toList ∧ s.name.toList ≠ "false".toList := by
  cases s <;> decide

theorem scalarOfName_none {x : String} (h : isScalarName x = false) : scalarOfName x.toList = none := by
  unfold scalarOfName
  rw [List.find?_eq_none]
  intro s hs
  unfold isScalarName at h
  rw [List.any_eq_false] at h
  have := h s hs
  simp only [beq_iff_eq] at this ⊢
  exact toList_ne_of_ne this

theorem ltOfName_ident {n : String} (h : isIdent n = true) : ltOfName n.toList = .named n := by
  have h1 : n.toList ≠ "static".toList := isIdent_not_kw h (by decide)
  have h2 : n.toList ≠ "_".toList := toList_ne_of_ne (isIdent_unpack h).2.2.1
  unfold ltOfName
  rw [if_neg (by simpa using h1), if_neg (by simpa using h2), String.ofList_toList]

theorem gltOfName_ident {n : String} (h : isIdent n = true) : gltOfName n.toList = .named n := by
  have h1 : n.toList ≠ "static".toList := isIdent_not_kw h (by decide)
  have h2 : n.toList ≠ "_".toList := toList_ne_of_ne (isIdent_unpack h).2.2.1
  unfold gltOfName
  rw [if_neg (by simpa using h1), if_neg (by simpa using h2), String.ofList_toList]

/-- The ABI string of a well-formed ABI contains no quote and reads back as that ABI. -/
theorem abi_roundtrip {abi : Abi} {a : String} (hw : wfAbi abi = true) (ha : abi.str? = some a) :
    (∀ c ∈ a.toList, (c != '"') = true) ∧ abiOfStr a.toList = abi := by
  cases abi with
  | rust => simp [Abi.str?] at ha
  | other s =>
    simp only [Abi.str?, Option.some.injEq] at ha
    subst ha
    simp only [wfAbi, Bool.and_eq_true, List.all_eq_true, Bool.or_eq_true, beq_iff_eq, Bool.not_eq_true',
      List.any_eq_false] at hw
    constructor
    · intro c hc
      rcases hw.1 c hc with h | h
      · cases hq : (c != '"')
        · simp only [bne_eq_false_iff_eq] at hq; subst hq; exact absurd h (by decide)
        · rfl
      · subst h; decide
    · unfold abiOfStr
      have : allAbis.find? (fun a => a.str? == some (String.ofList s.toList)) = none := by
        rw [List.find?_eq_none]
        intro x hx
        rw [String.ofList_toList]
        have := hw.2 x hx
        simpa using this
      rw [this, String.ofList_toList]
  | c u => cases u <;> simp [Abi.str?] at ha <;> subst ha <;> exact ⟨by decide, by rfl⟩
  | cdecl u => cases u <;> simp [Abi.str?] at ha <;> subst ha <;> exact ⟨by decide, by rfl⟩
  | stdcall u => cases u <;> simp [Abi.str?] at ha <;> subst ha <;> exact ⟨by decide, by rfl⟩
  | fastcall u => cases u <;> simp [Abi.str?] at ha <;> subst ha <;> exact ⟨by decide, by rfl⟩
  | aapcs u => cases u <;> simp [Abi.str?] at ha <;> subst ha <;> exact ⟨by decide, by rfl⟩
  | win64 u => cases u <;> simp [Abi.str?] at ha <;> subst ha <;> exact ⟨by decide, by rfl⟩
  | sysv64 u => cases u <;> simp [Abi.str?] at ha <;> subst ha <;> exact ⟨by decide, by rfl⟩
  | system u => cases u <;> simp [Abi.str?] at ha <;> subst ha <;> exact ⟨by decide, by rfl⟩


/-! #### path segments -/

/-- `"::" ++ seg` for every segment. -/
def segStr : List String → List Char
  | [] => []
  | x :: r => ':' :: ':' :: (x.toList ++ segStr r)

theorem joinSep_cons : ∀ (r : List String) (x : String), joinSep "::".toList (x :: r) = x.toList ++ segStr r
  | [], x => by simp [joinSep, segStr]
  | y :: r, x => by
      have := joinSep_cons r y
      simp only [joinSep] at this ⊢
      rw [this]
      simp [segStr]

theorem segStr_length : ∀ (segs : List String), segs.length ≤ (segStr segs).length
  | [] => by simp
  | x :: r => by have := segStr_length r; simp [segStr]; omega

theorem parseSegs_segStr : ∀ (segs : List String) (Y : List Char) (fuel : Nat), segs.length ≤ fuel →
    (∀ x ∈ segs, isIdent x = true) →
    (Y = [] ∨ ∃ c r, Y = c :: r ∧ isIdChar c = false ∧ c ≠ ':') →
    parseSegs fuel (segStr segs ++ Y) = (segs, Y)
  | [], Y, fuel, _, _, hY => by
      cases fuel with
      | zero => rfl
      | succ f =>
        rcases hY with rfl | ⟨c, r, rfl, _, hc⟩
        · rfl
        · simp only [segStr, List.nil_append]
          unfold parseSegs
          split
          · rename_i h; simp at h; exact absurd h.1 hc
          · rfl
  | x :: r, Y, fuel, hf, hid, hY => by
      cases fuel with
      | zero => simp at hf
      | succ f =>
        have hx := isIdent_unpack (hid x (by simp))
        obtain ⟨c0, r0, hx0, _⟩ := hx.1
        have hrest : (segStr r ++ Y = [] ∨ ∃ c r', segStr r ++ Y = c :: r' ∧ isIdChar c = false) := by
          cases r with
          | nil =>
            rcases hY with rfl | ⟨c, r', rfl, hc, _⟩
            · left; rfl
            · right; exact ⟨c, r', rfl, hc⟩
          | cons y r' => right; exact ⟨':', _, rfl, by decide⟩
        have hs := spanP_append x.toList (segStr r ++ Y) hx.2.1 hrest
        have ih := parseSegs_segStr r Y f (by simp at hf; omega) (fun y hy => hid y (by simp [hy])) hY
        simp only [segStr, List.cons_append, List.append_assoc]
        unfold parseSegs
        simp only [hs, ih]
        rw [if_neg (by rw [hx0]; simp), String.ofList_toList]

/-! #### the head of a rendered type -/

/-- What the proofs need to know about the beginning of `renderD false t ++ rest`. -/
structure HeadOk (s : List Char) : Prop where
  first : ∃ c r, s = c :: r ∧ (c = '&' ∨ c = '(' ∨ c = '[' ∨ c = '*' ∨ isIdStart c = true)
  notMut : (spanP isIdChar s).1 ≠ "mut".toList
  notTrue : (spanP isIdChar s).1 ≠ "true".toList
  notFalse : (spanP isIdChar s).1 ≠ "false".toList
  notName : dropPrefix? ": ".toList (spanP isIdChar s).2 = none

theorem headOk_ident {x : String} (hx : isIdent x = true) {q : List Char}
    (hq : q = [] ∨ ∃ c r, q = c :: r ∧ isIdChar c = false ∧ (c = ':' → ∃ r', r = ':' :: r')) :
    HeadOk (x.toList ++ q) := by
  have hu := isIdent_unpack hx
  obtain ⟨c0, r0, hx0, hc0⟩ := hu.1
  have hs : spanP isIdChar (x.toList ++ q) = (x.toList, q) := by
    apply spanP_append _ _ hu.2.1
    rcases hq with rfl | ⟨c, r, rfl, hc, _⟩
    · exact Or.inl rfl
    · exact Or.inr ⟨c, r, rfl, hc⟩
  refine ⟨⟨c0, r0 ++ q, by rw [hx0]; rfl, Or.inr (Or.inr (Or.inr (Or.inr hc0)))⟩, ?_, ?_, ?_, ?_⟩
  · rw [hs]; exact isIdent_not_kw hx (by decide)
  · rw [hs]; exact isIdent_not_kw hx (by decide)
  · rw [hs]; exact isIdent_not_kw hx (by decide)
  · rw [hs]
    rcases hq with rfl | ⟨c, r, rfl, hc, hcol⟩
    · rfl
    · by_cases hcc : c = ':'
      · obtain ⟨r'', h⟩ := hcol hcc
        subst hcc h
        simp [dropPrefix?]
      · have : ¬ ':' = c := fun e => hcc e.symm
        simp [dropPrefix?, this]

theorem headOk_scalar (sc : Scalar) {q : List Char} (hq : q = [] ∨ ∃ c r, q = c :: r ∧ isIdChar c = false ∧ c ≠ ':') :
    HeadOk (sc.name.toList ++ q) := by
  obtain ⟨c0, r0, hx0, hc0⟩ := scalar_name_head sc
  have hs : spanP isIdChar (sc.name.toList ++ q) = (sc.name.toList, q) := by
    apply spanP_append _ _ (scalar_name_idChars sc)
    rcases hq with rfl | ⟨c, r, rfl, hc, _⟩
    · exact Or.inl rfl
    · exact Or.inr ⟨c, r, rfl, hc⟩
  have nk := scalar_name_not_kw sc
  refine ⟨⟨c0, r0 ++ q, by rw [hx0]; rfl, Or.inr (Or.inr (Or.inr (Or.inr hc0)))⟩, ?_, ?_, ?_, ?_⟩
  · rw [hs]; exact nk.2.2.2.1
  · rw [hs]; exact nk.2.2.2.2.1
  · rw [hs]; exact nk.2.2.2.2.2
  · rw [hs]
    rcases hq with rfl | ⟨c, r, rfl, hc, hcol⟩
    · rfl
    · have : ¬ ':' = c := fun e => hcol e.symm
      simp [dropPrefix?, this]

/-- `fn(` inputs `)` output. -/
def fnBody (ins : FnIns) (out : OTy) : List Char :=
  "fn(".toList ++ (renderInsD false true ins ++ (')' :: renderOD false out))

theorem render_fnPtr (ins : FnIns) (out : OTy) (abi : Abi) (u : Bool) :
    renderD false (.fnPtr ins out abi u) = fnPrefix abi u ++ fnBody ins out := by
  simp [renderD, fnBody]

/-- The keyword a rendered function pointer starts with. -/
theorem fn_head (ins : FnIns) (out : OTy) (abi : Abi) (u : Bool) (rest : List Char) :
    ∃ w q, renderD false (.fnPtr ins out abi u) ++ rest = w ++ q ∧
      (w = "unsafe".toList ∨ w = "extern".toList ∨ w = "fn".toList) ∧
      (∃ c q', q = c :: q' ∧ (c = ' ' ∨ c = '(')) := by
  rw [render_fnPtr]
  cases u with
  | true =>
    refine ⟨"unsafe".toList, ' ' :: ((match abi.str? with
        | some s => "extern \"".toList ++ s.toList ++ "\" ".toList
        | none => []) ++ fnBody ins out ++ rest), ?_, Or.inl rfl, ⟨' ', _, rfl, Or.inl rfl⟩⟩
    cases ha : abi.str? <;> simp [fnPrefix, kwUnsafe, ha]
  | false =>
    cases ha : abi.str? with
    | some a =>
      refine ⟨"extern".toList, ' ' :: '"' :: (a.toList ++ "\" ".toList ++ fnBody ins out ++ rest), ?_,
        Or.inr (Or.inl rfl), ⟨' ', _, rfl, Or.inl rfl⟩⟩
      simp [fnPrefix, ha]
    | none =>
      refine ⟨"fn".toList, '(' :: (renderInsD false true ins ++ (')' :: renderOD false out) ++ rest), ?_,
        Or.inr (Or.inr rfl), ⟨'(', _, rfl, Or.inr rfl⟩⟩
      simp [fnPrefix, ha, fnBody]

theorem fn_span (ins : FnIns) (out : OTy) (abi : Abi) (u : Bool) (rest : List Char) :
    ∃ w q, spanP isIdChar (renderD false (.fnPtr ins out abi u) ++ rest) = (w, q) ∧
      (w = "unsafe".toList ∨ w = "extern".toList ∨ w = "fn".toList) ∧
      (∃ c q', q = c :: q' ∧ (c = ' ' ∨ c = '(')) ∧
      (∃ c r, renderD false (.fnPtr ins out abi u) ++ rest = c :: r ∧ isIdStart c = true) := by
  obtain ⟨w, q, e, hw, c, q', hq, hc⟩ := fn_head ins out abi u rest
  refine ⟨w, q, ?_, hw, ⟨c, q', hq, hc⟩, ?_⟩
  · rw [e]
    apply spanP_append
    · rcases hw with rfl | rfl | rfl <;> decide
    · right; refine ⟨c, q', hq, ?_⟩
      rcases hc with rfl | rfl <;> decide
  · rw [e]
    rcases hw with rfl | rfl | rfl
    · exact ⟨'u', _, rfl, by decide⟩
    · exact ⟨'e', _, rfl, by decide⟩
    · exact ⟨'f', _, rfl, by decide⟩

theorem headOk_fn (ins : FnIns) (out : OTy) (abi : Abi) (u : Bool) (rest : List Char) :
    HeadOk (renderD false (.fnPtr ins out abi u) ++ rest) := by
  obtain ⟨w, q, hs, hw, ⟨c, q', hq, hc⟩, c0, r0, h0, hc0⟩ := fn_span ins out abi u rest
  refine ⟨⟨c0, r0, h0, Or.inr (Or.inr (Or.inr (Or.inr hc0)))⟩, ?_, ?_, ?_, ?_⟩
  · rw [hs]; show w ≠ _; rcases hw with rfl | rfl | rfl <;> decide
  · rw [hs]; show w ≠ _; rcases hw with rfl | rfl | rfl <;> decide
  · rw [hs]; show w ≠ _; rcases hw with rfl | rfl | rfl <;> decide
  · rw [hs, hq]
    rcases hc with rfl | rfl <;> simp [dropPrefix?]

end Pxv.Ty
