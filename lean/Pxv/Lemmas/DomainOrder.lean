import Pxv.Model.Domain
/-! Helper lemmas for C20 `conflict_or_ordered` / `domain_deterministic`. -/
namespace Pxv.Domain

theorem prefix_same_len {a b p : List Char} (ha : a.isPrefixOf p = true) (hb : b.isPrefixOf p = true)
    (hl : a.length = b.length) : a = b := by
  rw [List.isPrefixOf_iff_prefix] at ha hb
  obtain ⟨ta, hta⟩ := ha
  obtain ⟨tb, htb⟩ := hb
  have := List.append_inj (hta.trans htb.symm) hl
  exact this.1

/-- Two routes that both match a path are in conflict (one of the two `insert`s fails) or one of
    them is searched strictly before the other. -/
theorem conflict_or_prefer (a b : List Seg) (ps : List (List Char))
    (ha : segsMatch a ps = true) (hb : segsMatch b ps = true) :
    conflict a b = true ∨ prefer a b = true ∨ prefer b a = true := by
  induction a generalizing b ps with
  | nil =>
    cases ps with
    | nil =>
      cases b with
      | nil => simp [conflict]
      | cons y ys => cases y <;> simp [segsMatch] at hb
    | cons p ps => simp [segsMatch] at ha
  | cons x xs ih =>
    cases ps with
    | nil => cases x <;> simp [segsMatch] at ha
    | cons p ps =>
      cases b with
      | nil => simp [segsMatch] at hb
      | cons y ys =>
        cases x with
        | lit s =>
          cases y with
          | lit t =>
            simp only [segsMatch, Bool.and_eq_true, beq_iff_eq] at ha hb
            obtain ⟨rfl, ha⟩ := ha
            obtain ⟨rfl, hb⟩ := hb
            rcases ih ys ps ha hb with h | h | h
            · left; simp [conflict, h]
            · right; left; simp [prefer, Seg.rank, h]
            · right; right; simp [prefer, Seg.rank, h]
          | param q _ => right; left; simp [prefer, Seg.rank]
          | catchAll q _ => right; left; simp [prefer, Seg.rank]
        | param pr _ =>
          cases y with
          | lit t => right; right; simp [prefer, Seg.rank]
          | param q _ =>
            simp only [segsMatch, Bool.and_eq_true, decide_eq_true_eq] at ha hb
            obtain ⟨⟨ha1, _⟩, ha⟩ := ha
            obtain ⟨⟨hb1, _⟩, hb⟩ := hb
            by_cases h1 : pr.length > q.length
            · right; left; simp [prefer, Seg.rank, h1]
            · by_cases h2 : pr.length < q.length
              · right; right; simp [prefer, Seg.rank, h2]
              · have heq := prefix_same_len ha1 hb1 (by omega)
                subst heq
                rcases ih ys ps ha hb with h | h | h
                · left; simp [conflict, h]
                · right; left; simp [prefer, Seg.rank, Seg.isCatchAll, h]
                · right; right; simp [prefer, Seg.rank, Seg.isCatchAll, h]
          | catchAll q _ =>
            simp only [segsMatch, Bool.and_eq_true, decide_eq_true_eq] at ha hb
            obtain ⟨⟨ha1, _⟩, ha⟩ := ha
            obtain ⟨⟨_, hb1⟩, hb⟩ := hb
            by_cases h1 : pr.length > q.length
            · right; left; simp [prefer, Seg.rank, h1]
            · by_cases h2 : pr.length < q.length
              · right; right; simp [prefer, Seg.rank, h2]
              · have heq := prefix_same_len ha1 hb1 (by omega)
                left; simp [conflict, heq]
        | catchAll pr _ =>
          cases y with
          | lit t => right; right; simp [prefer, Seg.rank]
          | param q _ =>
            simp only [segsMatch, Bool.and_eq_true, decide_eq_true_eq] at ha hb
            obtain ⟨⟨_, ha1⟩, ha⟩ := ha
            obtain ⟨⟨hb1, _⟩, hb⟩ := hb
            by_cases h1 : pr.length > q.length
            · right; left; simp [prefer, Seg.rank, h1]
            · by_cases h2 : pr.length < q.length
              · right; right; simp [prefer, Seg.rank, h2]
              · have heq := prefix_same_len ha1 hb1 (by omega)
                left; simp [conflict, heq]
          | catchAll q _ =>
            simp only [segsMatch, Bool.and_eq_true, decide_eq_true_eq] at ha hb
            obtain ⟨⟨_, ha1⟩, ha⟩ := ha
            obtain ⟨⟨_, hb1⟩, hb⟩ := hb
            by_cases h1 : pr.length > q.length
            · right; left; simp [prefer, Seg.rank, h1]
            · by_cases h2 : pr.length < q.length
              · right; right; simp [prefer, Seg.rank, h2]
              · have heq := prefix_same_len ha1 hb1 (by omega)
                left; simp [conflict, heq]

/-! ### a genuine conflict makes `insert` fail -/

def tailToks : List Seg → List Tok
  | [] => []
  | ss => .c '/' :: toks ss

theorem toks_cons (s : Seg) (ss : List Seg) : toks (s :: ss) = s.toks ++ tailToks ss := by
  cases ss with
  | nil => simp [toks, tailToks]
  | cons a as => simp [toks, tailToks]

theorem conflict_nil_left {b : List Seg} (h : conflict [] b = true) : b = [] := by
  cases b with
  | nil => rfl
  | cons y ys => simp [conflict] at h

theorem conflict_nil_right {a : List Seg} (h : conflict a [] = true) : a = [] := by
  cases a with
  | nil => rfl
  | cons x xs => cases x <;> simp [conflict] at h

theorem insChk_chars (x : List Char) {r R : List Tok}
    (h : ∀ sl rt, insChk [r] R sl rt = true) :
    ∀ sl rt, insChk [x.map .c ++ r] (x.map .c ++ R) sl rt = true := by
  induction x with
  | nil => simpa using h
  | cons ch cs ih =>
    intro sl rt
    simp only [List.map_cons, List.cons_append, insChk, List.filterMap_cons, List.filterMap_nil,
      if_true]
    simpa using ih (ch == '/') false

theorem insChk_tail {as bs : List Seg}
    (h : ∀ sl rt, insChk [toks as] (toks bs) sl rt = true) (hc : conflict as bs = true) :
    ∀ sl rt, insChk [tailToks as] (tailToks bs) sl rt = true := by
  intro sl rt
  cases as with
  | nil =>
    have := conflict_nil_left hc
    subst this
    simp [tailToks, insChk]
  | cons a as' =>
    cases bs with
    | nil => exact absurd (conflict_nil_right hc) (by simp)
    | cons b bs' =>
      simp only [tailToks, insChk, List.filterMap_cons, List.filterMap_nil, if_true]
      simpa using h true false

theorem insChk_of_conflict (a b : List Seg) (h : conflict a b = true) :
    ∀ sl rt, insChk [toks a] (toks b) sl rt = true := by
  induction a generalizing b with
  | nil =>
    have := conflict_nil_left h
    subst this
    intro sl rt; simp [toks, insChk]
  | cons x xs ih =>
    cases b with
    | nil => exact absurd (conflict_nil_right h) (by simp)
    | cons y ys =>
      rw [toks_cons, toks_cons]
      cases x with
      | lit s =>
        cases y with
        | lit t =>
          simp only [conflict, Bool.and_eq_true, beq_iff_eq] at h
          obtain ⟨rfl, h⟩ := h
          simp only [Seg.toks]
          exact insChk_chars s (insChk_tail (ih ys h) h)
        | param q _ => simp [conflict] at h
        | catchAll q _ => simp [conflict] at h
      | param p _ =>
        cases y with
        | lit t => simp [conflict] at h
        | param q _ =>
          simp only [conflict, Bool.and_eq_true, beq_iff_eq] at h
          obtain ⟨rfl, h⟩ := h
          simp only [Seg.toks, List.append_assoc]
          refine insChk_chars p ?_
          intro sl rt
          have := insChk_tail (ih ys h) h false false
          simpa [insChk, startsWild, startsStar, Tok.isWild] using this
        | catchAll q _ =>
          simp only [conflict, beq_iff_eq] at h
          subst h
          simp only [Seg.toks, List.append_assoc]
          refine insChk_chars p ?_
          intro sl rt
          simp [insChk, startsWild, Tok.isWild]
      | catchAll p _ =>
        cases y with
        | lit t => simp [conflict] at h
        | param q _ =>
          simp only [conflict, beq_iff_eq] at h
          subst h
          simp only [Seg.toks, List.append_assoc]
          refine insChk_chars p ?_
          intro sl rt
          simp [insChk, startsWild, startsStar, Tok.isWild]
        | catchAll q _ =>
          simp only [conflict, beq_iff_eq] at h
          subst h
          simp only [Seg.toks, List.append_assoc]
          refine insChk_chars p ?_
          intro sl rt
          simp [insChk, startsWild, Tok.isWild]

theorem beq_chars_comm (p q : List Char) : (p == q) = (q == p) := Bool.beq_comm

theorem conflict_symm (a b : List Seg) : conflict a b = conflict b a := by
  induction a generalizing b with
  | nil => cases b <;> simp [conflict]
  | cons x xs ih =>
    cases b with
    | nil => cases x <;> simp [conflict]
    | cons y ys =>
      cases x with
      | lit s => cases y with
        | lit t => simp only [conflict, ih ys, beq_chars_comm s t]
        | param q _ => simp [conflict]
        | catchAll q _ => simp [conflict]
      | param p _ => cases y with
        | lit t => simp [conflict]
        | param q _ => simp only [conflict, ih ys, beq_chars_comm p q]
        | catchAll q _ => simp only [conflict, beq_chars_comm p q]
      | catchAll p _ => cases y with
        | lit t => simp [conflict]
        | param q _ => simp only [conflict, beq_chars_comm p q]
        | catchAll q _ => simp only [conflict, beq_chars_comm p q]

theorem insChk_empty (R : List Tok) (sl : Bool) : insChk [] R sl true = false := by
  cases R with
  | nil => simp [insChk]
  | cons t R => cases t <;> simp [insChk]

/-! ### `prefer` is a strict order -/

/-- `a` stays on static text strictly longer than `b`. -/
def HGt (a b : Seg) : Prop :=
  (a.rank = none ∧ b.rank ≠ none) ∨ (∃ m n, a.rank = some m ∧ b.rank = some n ∧ m > n)

/-- `a` and `b` go equally far (and are no catch-alls): the next segment decides. -/
def HTie (a b : Seg) : Prop :=
  (a.rank = none ∧ a = b) ∨
  (∃ m, a.rank = some m ∧ b.rank = some m ∧ a.isCatchAll = false ∧ b.isCatchAll = false)

theorem prefer_cons (a b : Seg) (as bs : List Seg) :
    prefer (a :: as) (b :: bs) = true ↔ HGt a b ∨ (HTie a b ∧ prefer as bs = true) := by
  unfold HGt HTie
  rcases ha : a.rank with _ | m <;> rcases hb : b.rank with _ | n <;> simp only [prefer, ha, hb]
  · -- both literal
    by_cases hab : a = b
    · subst hab; simp
    · have : (a == b) = false := by simpa using hab
      simp [this, hab]
  · simp
  · simp
  · by_cases h1 : m > n
    · simp [h1]
    · by_cases h2 : m < n
      · simp [h1, h2]; omega
      · have : m = n := by omega
        subst this
        cases hca : a.isCatchAll <;> cases hcb : b.isCatchAll <;> simp

theorem HGt_irrefl_swap {a b : Seg} (h : HGt a b) : ¬ HGt b a ∧ ¬ HTie b a := by
  unfold HGt HTie at *
  rcases h with ⟨h1, h2⟩ | ⟨m, n, h1, h2, h3⟩
  · refine ⟨?_, ?_⟩
    · rintro (⟨h4, h5⟩ | ⟨m, n, h4, h5, _⟩)
      · exact h2 h4
      · rw [h1] at h5; cases h5
    · rintro (⟨h4, _⟩ | ⟨m, h4, h5, _⟩)
      · exact h2 h4
      · rw [h1] at h5; cases h5
  · refine ⟨?_, ?_⟩
    · rintro (⟨h4, _⟩ | ⟨m', n', h4, h5, h6⟩)
      · rw [h2] at h4; cases h4
      · rw [h2] at h4; rw [h1] at h5; cases h4; cases h5; omega
    · rintro (⟨h4, _⟩ | ⟨m', h4, h5, _⟩)
      · rw [h2] at h4; cases h4
      · rw [h2] at h4; rw [h1] at h5; cases h4; cases h5; omega

theorem HTie_symm {a b : Seg} (h : HTie a b) : HTie b a := by
  unfold HTie at *
  rcases h with ⟨h1, rfl⟩ | ⟨m, h1, h2, h3, h4⟩
  · exact Or.inl ⟨h1, rfl⟩
  · exact Or.inr ⟨m, h2, h1, h4, h3⟩

theorem prefer_asymm (a b : List Seg) (h : prefer a b = true) : prefer b a = false := by
  induction a generalizing b with
  | nil => simp [prefer] at h
  | cons x xs ih =>
    cases b with
    | nil => simp [prefer] at h
    | cons y ys =>
      rw [prefer_cons] at h
      cases hp : prefer (y :: ys) (x :: xs) with
      | false => rfl
      | true =>
        rw [prefer_cons] at hp
        rcases h with h | ⟨h, h'⟩
        · rcases hp with hp | ⟨hp, _⟩
          · exact absurd hp (HGt_irrefl_swap h).1
          · exact absurd hp (HGt_irrefl_swap h).2
        · rcases hp with hp | ⟨_, hp'⟩
          · exact absurd h (HGt_irrefl_swap hp).2
          · rw [ih ys h'] at hp'; cases hp'

theorem HGt_trans {a b c : Seg} (h1 : HGt a b) (h2 : HGt b c ∨ HTie b c) : HGt a c := by
  unfold HGt HTie at *
  rcases h1 with ⟨ha, hb⟩ | ⟨m, n, ha, hb, hmn⟩
  · left
    refine ⟨ha, ?_⟩
    rcases h2 with (⟨hb', _⟩ | ⟨m, n, _, hc, _⟩) | (⟨hb', _⟩ | ⟨m, _, hc, _⟩)
    · exact absurd hb' hb
    · rw [hc]; simp
    · exact absurd hb' hb
    · rw [hc]; simp
  · rcases h2 with (⟨hb', _⟩ | ⟨m', n', hb', hc, hmn'⟩) | (⟨hb', _⟩ | ⟨m', hb', hc, _⟩)
    · rw [hb] at hb'; cases hb'
    · rw [hb] at hb'; cases hb'
      exact Or.inr ⟨m, n', ha, hc, by omega⟩
    · rw [hb] at hb'; cases hb'
    · rw [hb] at hb'; cases hb'
      exact Or.inr ⟨m, n, ha, hc, hmn⟩

theorem HTie_HGt {a b c : Seg} (h1 : HTie a b) (h2 : HGt b c) : HGt a c := by
  unfold HGt HTie at *
  rcases h1 with ⟨ha, rfl⟩ | ⟨m, ha, hb, _, _⟩
  · exact h2
  · rcases h2 with ⟨hb', _⟩ | ⟨m', n', hb', hc, hmn⟩
    · rw [hb] at hb'; cases hb'
    · rw [hb] at hb'; cases hb'
      exact Or.inr ⟨m, n', ha, hc, hmn⟩

theorem HTie_trans {a b c : Seg} (h1 : HTie a b) (h2 : HTie b c) : HTie a c := by
  unfold HTie at *
  rcases h1 with ⟨ha, rfl⟩ | ⟨m, ha, hb, hca, _⟩
  · exact h2
  · rcases h2 with ⟨hb', rfl⟩ | ⟨m', hb', hc, _, hcc⟩
    · rw [hb] at hb'; cases hb'
    · rw [hb] at hb'; cases hb'
      exact Or.inr ⟨m, ha, hc, hca, hcc⟩

theorem prefer_trans (a b c : List Seg) (h1 : prefer a b = true) (h2 : prefer b c = true) :
    prefer a c = true := by
  induction a generalizing b c with
  | nil => simp [prefer] at h1
  | cons x xs ih =>
    cases b with
    | nil => simp [prefer] at h1
    | cons y ys =>
      cases c with
      | nil => simp [prefer] at h2
      | cons z zs =>
        rw [prefer_cons] at h1 h2 ⊢
        rcases h1 with h1 | ⟨h1, h1'⟩
        · left
          rcases h2 with h2 | ⟨h2, _⟩
          · exact HGt_trans h1 (Or.inl h2)
          · exact HGt_trans h1 (Or.inr h2)
        · rcases h2 with h2 | ⟨h2, h2'⟩
          · left; exact HTie_HGt h1 h2
          · right; exact ⟨HTie_trans h1 h2, ih ys zs h1' h2'⟩

/-! ### `Router::at` returns the unique most specific matching route -/

/-- `b` is a matching route that is searched before every other matching route. -/
def IsBest (routes : List (Nat × List Seg)) (segs : List (List Char)) (b : Nat × List Seg) : Prop :=
  b ∈ routes ∧ segsMatch b.2 segs = true ∧
    ∀ r ∈ routes, segsMatch r.2 segs = true → r = b ∨ prefer b.2 r.2 = true

/-- Any two distinct matching routes are ordered. -/
def Ordered (routes : List (Nat × List Seg)) (segs : List (List Char)) : Prop :=
  ∀ r ∈ routes, ∀ r' ∈ routes, segsMatch r.2 segs = true → segsMatch r'.2 segs = true →
    r = r' ∨ prefer r.2 r'.2 = true ∨ prefer r'.2 r.2 = true

theorem isBest_unique {routes : List (Nat × List Seg)} {segs : List (List Char)}
    {b b' : Nat × List Seg} (h : IsBest routes segs b) (h' : IsBest routes segs b') : b = b' := by
  rcases h.2.2 b' h'.1 h'.2.1 with e | p
  · exact e.symm
  · rcases h'.2.2 b h.1 h.2.1 with e | p'
    · exact e
    · rw [prefer_asymm _ _ p] at p'; cases p'

def FoldInv (P : List (Nat × List Seg)) (segs : List (List Char)) :
    Option (Nat × List Seg) → Prop
  | none => ∀ r ∈ P, segsMatch r.2 segs = false
  | some b => IsBest P segs b

theorem foldl_pick {segs : List (List Char)} (L P : List (Nat × List Seg))
    (acc : Option (Nat × List Seg)) (hord : Ordered (P ++ L) segs) (hinv : FoldInv P segs acc) :
    FoldInv (P ++ L) segs (L.foldl (pickStep segs) acc) := by
  induction L generalizing P acc with
  | nil => simpa using hinv
  | cons r L ih =>
    have hstep : FoldInv (P ++ [r]) segs (pickStep segs acc r) := by
      unfold pickStep
      by_cases hm : segsMatch r.2 segs = true
      · simp only [hm, if_true]
        cases acc with
        | none =>
          simp only [FoldInv] at hinv ⊢
          refine ⟨by simp, hm, ?_⟩
          intro x hx hxm
          rcases List.mem_append.mp hx with hx | hx
          · rw [hinv x hx] at hxm; cases hxm
          · left; simpa using hx
        | some b =>
          simp only [FoldInv] at hinv
          obtain ⟨hb1, hb2, hb3⟩ := hinv
          by_cases hp : prefer r.2 b.2 = true
          · simp only [hp, if_true, FoldInv]
            refine ⟨by simp, hm, ?_⟩
            intro x hx hxm
            rcases List.mem_append.mp hx with hx | hx
            · rcases hb3 x hx hxm with e | p
              · subst e; exact Or.inr hp
              · exact Or.inr (prefer_trans _ _ _ hp p)
            · left; simpa using hx
          · simp only [hp, if_false, FoldInv]
            refine ⟨by simp [hb1], hb2, ?_⟩
            intro x hx hxm
            rcases List.mem_append.mp hx with hx | hx
            · exact hb3 x hx hxm
            · have hx : x = r := by simpa using hx
              subst hx
              rcases hord x (by simp) b (by simp [hb1]) hm hb2 with e | p | p
              · exact Or.inl e
              · exact absurd p hp
              · exact Or.inr p
      · have hm' : segsMatch r.2 segs = false := by simpa using hm
        simp only [hm', Bool.false_eq_true, if_false]
        cases acc with
        | none =>
          simp only [FoldInv] at hinv ⊢
          intro x hx
          rcases List.mem_append.mp hx with hx | hx
          · exact hinv x hx
          · have : x = r := by simpa using hx
            subst this; exact hm'
        | some b =>
          simp only [FoldInv] at hinv ⊢
          obtain ⟨hb1, hb2, hb3⟩ := hinv
          refine ⟨by simp [hb1], hb2, ?_⟩
          intro x hx hxm
          rcases List.mem_append.mp hx with hx | hx
          · exact hb3 x hx hxm
          · have : x = r := by simpa using hx
            subst this; rw [hm'] at hxm; cases hxm
    have := ih (P ++ [r]) (pickStep segs acc r) (by simpa using hord) hstep
    simpa using this

theorem bestRoute_spec {routes : List (Nat × List Seg)} {segs : List (List Char)}
    (hord : Ordered routes segs) : FoldInv routes segs (bestRoute routes segs) := by
  have := foldl_pick (segs := segs) routes [] none (by simpa using hord) (by simp [FoldInv])
  simpa [bestRoute] using this

theorem bestRoute_perm {r1 r2 : List (Nat × List Seg)} {segs : List (List Char)}
    (hp : r1.Perm r2) (hord : Ordered r1 segs) : bestRoute r1 segs = bestRoute r2 segs := by
  have hord2 : Ordered r2 segs := by
    intro a ha b hb
    exact hord a (hp.mem_iff.mpr ha) b (hp.mem_iff.mpr hb)
  have h1 := bestRoute_spec hord
  have h2 := bestRoute_spec hord2
  cases hb1 : bestRoute r1 segs with
  | none =>
    cases hb2 : bestRoute r2 segs with
    | none => rfl
    | some b =>
      rw [hb1] at h1; rw [hb2] at h2
      simp only [FoldInv] at h1 h2
      have := h2.2.1
      rw [h1 b (hp.mem_iff.mpr h2.1)] at this
      cases this
  | some b =>
    rw [hb1] at h1
    simp only [FoldInv] at h1
    cases hb2 : bestRoute r2 segs with
    | none =>
      rw [hb2] at h2
      simp only [FoldInv] at h2
      have := h1.2.1
      rw [h2 b (hp.mem_iff.mp h1.1)] at this
      cases this
    | some b' =>
      rw [hb2] at h2
      simp only [FoldInv] at h2
      have h2' : IsBest r1 segs b' :=
        ⟨hp.mem_iff.mpr h2.1, h2.2.1, fun x hx => h2.2.2 x (hp.mem_iff.mp hx)⟩
      rw [isBest_unique h1 h2']

end Pxv.Domain
