import Pxv.Lemmas.TyEquiv
/-! Helper lemmas for C17: canonical names are injective; canonicalisation is idempotent; equal
canonical forms are equivalent. -/
namespace Pxv.Ty

theorem nameDigits_ne_nil (n : Nat) : nameDigits n ≠ [] := by
  unfold nameDigits
  split <;> simp

theorem nameDigits_inj : ∀ (n m : Nat), nameDigits n = nameDigits m → n = m := by
  intro n
  induction n using Nat.strongRecOn with
  | _ n ih =>
    intro m h
    rw [nameDigits.eq_1 n, nameDigits.eq_1 m] at h
    by_cases hn : n < 26 <;> by_cases hm : m < 26 <;> simp only [hn, hm, dite_true, dite_false] at h
    · simpa using h
    · have := congrArg List.length h
      simp only [List.length_append, List.length_cons, List.length_nil] at this
      have hne := nameDigits_ne_nil (m / 26 - 1)
      cases hd : nameDigits (m / 26 - 1) with
      | nil => exact absurd hd hne
      | cons a l => rw [hd] at this; simp at this
    · have := congrArg List.length h
      simp only [List.length_append, List.length_cons, List.length_nil] at this
      have hne := nameDigits_ne_nil (n / 26 - 1)
      cases hd : nameDigits (n / 26 - 1) with
      | nil => exact absurd hd hne
      | cons a l => rw [hd] at this; simp at this
    · have := List.append_inj' h rfl
      have h1 := ih (n / 26 - 1) (by omega) _ this.1
      have h2 : n % 26 = m % 26 := by simpa using this.2
      omega

theorem upper_inj : ∀ d d' : Fin 26, upperLetters.getD d.val 'A' = upperLetters.getD d'.val 'A' → d = d' := by
  decide

theorem lower_inj : ∀ d d' : Fin 26, lowerLetters.getD d.val 'a' = lowerLetters.getD d'.val 'a' → d = d' := by
  decide

theorem gname_inj {n m : Nat} (h : gname n = gname m) : n = m := by
  unfold gname at h
  have h := congrArg String.toList h
  simp only [String.toList_ofList] at h
  exact nameDigits_inj _ _ ((List.map_inj_right upper_inj).1 h)

theorem lname_inj {n m : Nat} (h : lname n = lname m) : n = m := by
  unfold lname at h
  have h := congrArg String.toList h
  simp only [String.toList_ofList] at h
  exact nameDigits_inj _ _ ((List.map_inj_right lower_inj).1 h)


/-! #### equal canonical forms ⇒ equivalent -/
mutual
theorem canonGo_equiv : ∀ (a b : Ty) (sa sb : CSt), (canonGo a sa).1 = (canonGo b sb).1 →
    equivGo a b (sa.seen, sb.seen) = some ((canonGo a sa).2.seen, (canonGo b sb).2.seen)
  | .path al p i bs as, b, sa, sb, h => by
      cases b <;> simp [canonGo] at h
      obtain ⟨h1, h2, h3, h4, h⟩ := h
      subst h1 h2 h3 h4
      simp [equivGo, canonGo, canonArgs_equiv _ _ _ _ h]
  | .ref m l t, b, sa, sb, h => by
      cases b <;> simp [canonGo] at h
      obtain ⟨h1, _, h⟩ := h
      subst h1
      have := canonGo_equiv _ _ _ _ h
      simp [equivGo, canonGo, this]
  | .tuple es, b, sa, sb, h => by
      cases b <;> simp [canonGo] at h
      simp [equivGo, canonGo, canonTys_equiv _ _ _ _ h]
  | .scalar x, b, sa, sb, h => by
      cases b <;> simp [canonGo] at h
      subst h
      simp [equivGo, canonGo]
  | .slice e, b, sa, sb, h => by
      cases b <;> simp [canonGo] at h
      simp [equivGo, canonGo, canonGo_equiv _ _ _ _ h]
  | .array e n, b, sa, sb, h => by
      cases b <;> simp [canonGo] at h
      obtain ⟨h, h1⟩ := h
      subst h1
      simp [equivGo, canonGo, canonGo_equiv _ _ _ _ h]
  | .rawPtr m t, b, sa, sb, h => by
      cases b <;> simp [canonGo] at h
      obtain ⟨h1, h⟩ := h
      subst h1
      simp [equivGo, canonGo, canonGo_equiv _ _ _ _ h]
  | .fnPtr ins out abi u, b, sa, sb, h => by
      cases b <;> simp [canonGo] at h
      obtain ⟨hi, ho, h1, h2⟩ := h
      subst h1 h2
      have ei := canonIns_equiv _ _ _ _ hi
      have eo := canonO_equiv _ _ _ _ ho
      simp [equivGo, canonGo, ei, eo]
  | .generic x, b, sa, sb, h => by
      cases b <;> simp [canonGo] at h
      have := gname_inj h
      simp [equivGo, canonGo, this]
theorem canonArgs_equiv : ∀ (a b : GArgs) (sa sb : CSt), (canonArgs a sa).1 = (canonArgs b sb).1 →
    equivArgs a b (sa.seen, sb.seen) = some ((canonArgs a sa).2.seen, (canonArgs b sb).2.seen)
  | .nil, b, sa, sb, h => by
      cases b <;> simp [canonArgs] at h
      simp [equivArgs, canonArgs]
  | .ty t r, b, sa, sb, h => by
      cases b <;> simp [canonArgs] at h
      obtain ⟨hh, hr⟩ := h
      have e1 := canonGo_equiv _ _ _ _ hh
      have e2 := canonArgs_equiv _ _ _ _ hr
      simp [equivArgs, canonArgs, e1, e2]
  | .lt l r, b, sa, sb, h => by
      cases b <;> simp [canonArgs] at h
      obtain ⟨_, hr⟩ := h
      have e2 := canonArgs_equiv _ _ _ _ hr
      simp [equivArgs, canonArgs, e2]
  | .const v r, b, sa, sb, h => by
      cases b <;> simp [canonArgs] at h
      obtain ⟨hv, hr⟩ := h
      subst hv
      have e2 := canonArgs_equiv _ _ _ _ hr
      simp [equivArgs, canonArgs, e2]
theorem canonTys_equiv : ∀ (a b : Tys) (sa sb : CSt), (canonTys a sa).1 = (canonTys b sb).1 →
    equivTys a b (sa.seen, sb.seen) = some ((canonTys a sa).2.seen, (canonTys b sb).2.seen)
  | .nil, b, sa, sb, h => by
      cases b <;> simp [canonTys] at h
      simp [equivTys, canonTys]
  | .cons t r, b, sa, sb, h => by
      cases b <;> simp [canonTys] at h
      obtain ⟨hh, hr⟩ := h
      have e1 := canonGo_equiv _ _ _ _ hh
      have e2 := canonTys_equiv _ _ _ _ hr
      simp [equivTys, canonTys, e1, e2]
theorem canonIns_equiv : ∀ (a b : FnIns) (sa sb : CSt), (canonIns a sa).1 = (canonIns b sb).1 →
    equivIns a b (sa.seen, sb.seen) = some ((canonIns a sa).2.seen, (canonIns b sb).2.seen)
  | .nil, b, sa, sb, h => by
      cases b <;> simp [canonIns] at h
      simp [equivIns, canonIns]
  | .cons n t r, b, sa, sb, h => by
      cases b <;> simp [canonIns] at h
      obtain ⟨hh, hr⟩ := h
      have e1 := canonGo_equiv _ _ _ _ hh
      have e2 := canonIns_equiv _ _ _ _ hr
      simp [equivIns, canonIns, e1, e2]
theorem canonO_equiv : ∀ (a b : OTy) (sa sb : CSt), (canonO a sa).1 = (canonO b sb).1 →
    equivO a b (sa.seen, sb.seen) = some ((canonO a sa).2.seen, (canonO b sb).2.seen)
  | .none, b, sa, sb, h => by
      cases b <;> simp [canonO] at h
      simp [equivO, canonO]
  | .some t, b, sa, sb, h => by
      cases b <;> simp [canonO] at h
      simp [equivO, canonO, canonGo_equiv _ _ _ _ h]
end


/-! #### idempotence -/

/-- The canonical names of the first `k` generic parameters. -/
def cnames (k : Nat) : List String := (List.range k).map gname

theorem cnames_length (k : Nat) : (cnames k).length = k := by simp [cnames]

theorem cnames_succ (k : Nat) : cnames (k + 1) = cnames k ++ [gname k] := by
  simp [cnames, List.range_succ]

theorem mem_cnames {i k : Nat} : gname i ∈ cnames k ↔ i < k := by
  simp only [cnames, List.mem_map, List.mem_range]
  constructor
  · rintro ⟨j, hj, e⟩; rw [← gname_inj e]; exact hj
  · intro h; exact ⟨i, h, rfl⟩

theorem idxOf_cnames : ∀ {k i : Nat}, i < k → (cnames k).idxOf (gname i) = i
  | 0, i, h => by omega
  | k + 1, i, h => by
      rw [cnames_succ, List.idxOf_append]
      by_cases hi : i < k
      · simp only [mem_cnames, hi, if_true]; exact idxOf_cnames hi
      · have : i = k := by omega
        subst this
        simp [mem_cnames, cnames_length]

theorem idOf_cnames_lt {k i : Nat} (h : i < k) : idOf (cnames k) (gname i) = (i, cnames k) := by
  simp [idOf, mem_cnames, h, idxOf_cnames h]

theorem idOf_cnames_eq (k : Nat) : idOf (cnames k) (gname k) = (k, cnames (k + 1)) := by
  simp [idOf, mem_cnames, cnames_length, cnames_succ]

theorem canonLt_idem (l : Lt) (n : Nat) : canonLt (canonLt l n).1 n = canonLt l n := by
  cases l <;> simp [canonLt]

theorem canonGLt_idem (l : GLt) (n : Nat) : canonGLt (canonGLt l n).1 n = canonGLt l n := by
  cases l <;> simp [canonGLt]

mutual
theorem canonGo_idem : ∀ (a : Ty) (s : CSt),
    canonGo (canonGo a s).1 ⟨s.lt, cnames s.seen.length⟩ =
      ((canonGo a s).1, ⟨(canonGo a s).2.lt, cnames (canonGo a s).2.seen.length⟩)
  | .path al p i bs as, s => by
      have := canonArgs_idem as s
      simp [canonGo, this]
  | .ref m l t, s => by
      have h1 := canonLt_idem l s.lt
      have h2 := canonGo_idem t ⟨(canonLt l s.lt).2, s.seen⟩
      simp only [canonGo]
      simp only [h1]
      simp only [] at h2
      rw [h2]
  | .tuple es, s => by
      have := canonTys_idem es s
      simp [canonGo, this]
  | .scalar x, s => by simp [canonGo]
  | .slice e, s => by
      have := canonGo_idem e s
      simp [canonGo, this]
  | .array e n, s => by
      have := canonGo_idem e s
      simp [canonGo, this]
  | .rawPtr m t, s => by
      have := canonGo_idem t s
      simp [canonGo, this]
  | .fnPtr ins out abi u, s => by
      have h1 := canonIns_idem ins s
      have h2 := canonO_idem out (canonIns ins s).2
      simp only [canonGo]
      rw [h1]
      simp only []
      rw [h2]
  | .generic x, s => by
      simp only [canonGo]
      by_cases hx : x ∈ s.seen
      · have hlt : s.seen.idxOf x < s.seen.length := List.idxOf_lt_length_iff.2 hx
        have e : idOf s.seen x = (s.seen.idxOf x, s.seen) := by simp [idOf, hx]
        rw [e]
        simp only []
        rw [idOf_cnames_lt hlt]
      · have e : idOf s.seen x = (s.seen.length, s.seen ++ [x]) := by simp [idOf, hx]
        rw [e]
        simp only []
        rw [idOf_cnames_eq]
        simp
theorem canonArgs_idem : ∀ (a : GArgs) (s : CSt),
    canonArgs (canonArgs a s).1 ⟨s.lt, cnames s.seen.length⟩ =
      ((canonArgs a s).1, ⟨(canonArgs a s).2.lt, cnames (canonArgs a s).2.seen.length⟩)
  | .nil, s => by simp [canonArgs]
  | .ty t r, s => by
      have h1 := canonGo_idem t s
      have h2 := canonArgs_idem r (canonGo t s).2
      simp only [canonArgs]
      rw [h1]
      simp only []
      rw [h2]
  | .lt l r, s => by
      have h1 := canonGLt_idem l s.lt
      have h2 := canonArgs_idem r ⟨(canonGLt l s.lt).2, s.seen⟩
      simp only [canonArgs]
      simp only [h1]
      simp only [] at h2
      rw [h2]
  | .const v r, s => by
      have := canonArgs_idem r s
      simp [canonArgs, this]
theorem canonTys_idem : ∀ (a : Tys) (s : CSt),
    canonTys (canonTys a s).1 ⟨s.lt, cnames s.seen.length⟩ =
      ((canonTys a s).1, ⟨(canonTys a s).2.lt, cnames (canonTys a s).2.seen.length⟩)
  | .nil, s => by simp [canonTys]
  | .cons t r, s => by
      have h1 := canonGo_idem t s
      have h2 := canonTys_idem r (canonGo t s).2
      simp only [canonTys]
      rw [h1]
      simp only []
      rw [h2]
theorem canonIns_idem : ∀ (a : FnIns) (s : CSt),
    canonIns (canonIns a s).1 ⟨s.lt, cnames s.seen.length⟩ =
      ((canonIns a s).1, ⟨(canonIns a s).2.lt, cnames (canonIns a s).2.seen.length⟩)
  | .nil, s => by simp [canonIns]
  | .cons n t r, s => by
      have h1 := canonGo_idem t s
      have h2 := canonIns_idem r (canonGo t s).2
      simp only [canonIns]
      rw [h1]
      simp only []
      rw [h2]
theorem canonO_idem : ∀ (a : OTy) (s : CSt),
    canonO (canonO a s).1 ⟨s.lt, cnames s.seen.length⟩ =
      ((canonO a s).1, ⟨(canonO a s).2.lt, cnames (canonO a s).2.seen.length⟩)
  | .none, s => by simp [canonO]
  | .some t, s => by
      have := canonGo_idem t s
      simp [canonO, this]
end

end Pxv.Ty
