import Pxv.Model.Stalemate
import Pxv.Lemmas.Order
import Pxv.Lemmas.Borrow
/-! Helper lemmas about `findStalemate` / `resolveStalemates` (the forward-played node ordering). -/
namespace Pxv.CG
open Graph

theorem insertSorted_ne_nil (x : Nat) (l : List Nat) : insertSorted x l ≠ [] := by
  cases l with
  | nil => simp [insertSorted]
  | cons y ys =>
    simp only [insertSorted]
    split
    · simp
    · split <;> simp

theorem foldl_insertSorted_ne_nil (l acc : List Nat) (h : acc ≠ [] ∨ l ≠ []) :
    l.foldl (fun acc x => insertSorted x acc) acc ≠ [] := by
  induction l generalizing acc with
  | nil => simpa using h
  | cons a l ih => exact ih _ (Or.inl (insertSorted_ne_nil a acc))

theorem toSet_eq_nil {l : List Nat} : toSet l = [] ↔ l = [] := by
  constructor
  · intro h
    apply Classical.byContradiction
    intro hne
    exact foldl_insertSorted_ne_nil l [] (Or.inr hne) h
  · rintro rfl; rfl

/-- the guard of the ordering step, as the forward pass evaluates it. -/
theorem canPlace_iff {g : Graph} {placed : List Nat} {n : Nat} :
    canPlace g placed n = true ↔
      ((g.preds n).all placed.contains = true ∧ blockedInputs g placed n = []) := by
  unfold canPlace blockedInputs
  rw [toSet_eq_nil, List.filter_eq_nil_iff, List.all_eq_true, List.all_eq_true]
  constructor
  · intro h
    refine ⟨fun p hp => ?_, fun p hp => ?_⟩
    · have := h p hp; simp only [Bool.and_eq_true] at this; exact this.1
    · have := h p hp; simp only [Bool.and_eq_true, Bool.not_eq_true'] at this
      simpa using this.2
  · rintro ⟨h1, h2⟩ p hp
    have a := h1 p hp
    have b := h2 p hp
    simp only [Bool.and_eq_true, Bool.not_eq_true']
    exact ⟨a, by simpa using b⟩


/-- a run extended by one legal placement is a run. -/
theorem isRunFrom_snoc {g : Graph} {placed : List Nat} {m : Nat}
    (hrun : isRunFrom g [] placed = true) (hm : m ∉ placed) (hc : canPlace g placed m = true) :
    isRunFrom g [] (placed ++ [m]) = true := by
  have ext : ∀ (pl σ : List Nat), isRunFrom g pl σ = true → (∀ x ∈ pl, x ≠ m) → m ∉ σ →
      canPlace g (pl ++ σ) m = true → isRunFrom g pl (σ ++ [m]) = true := by
    intro pl σ
    induction σ generalizing pl with
    | nil =>
      intro _ hpl _ hc
      simp only [List.nil_append, isRunFrom, Bool.and_eq_true, Bool.not_eq_true', and_true]
      refine ⟨?_, by simpa using hc⟩
      cases hcm : pl.contains m with
      | false => rfl
      | true => exact absurd rfl (hpl m (List.contains_iff_mem.mp hcm))
    | cons a σ ih2 =>
      intro hr hpl hmσ hc
      simp only [isRunFrom, Bool.and_eq_true] at hr
      simp only [List.cons_append, isRunFrom, Bool.and_eq_true]
      refine ⟨hr.1, ?_⟩
      apply ih2 (pl ++ [a]) hr.2
      · intro x hx
        simp at hx
        rcases hx with hx | hx
        · exact hpl x hx
        · intro h; apply hmσ; simp [← h, hx]
      · intro h; apply hmσ; simp [h]
      · simpa [List.append_assoc] using hc
  exact ext [] placed hrun (by simp) hm (by simpa using hc)

/-- what a (partial) sweep that started from `placed0` guarantees after examining the nodes `done`. -/
structure SweepInv (g : Graph) (placed0 : List Nat) (st : Sweep) (done : List Nat) : Prop where
  run : isRunFrom g [] st.placed = true
  bound : ∀ x ∈ st.placed, x < g.size
  same : st.progressed = false → st.placed = placed0
  frontier : st.progressed = false → st.stale = [] →
    ∀ n ∈ done, n ∈ placed0 ∨ (g.preds n).all placed0.contains = false
  /-- in a sweep that schedules nothing, no examined node could have been scheduled -/
  stuck : st.progressed = false → ∀ n ∈ done, n ∈ placed0 ∨ canPlace g placed0 n = false
  /-- the stuck nodes recorded so far are examined nodes outside `st.placed` -/
  staleOut : ∀ s ∈ st.stale, s.1 ∈ done ∧ s.1 ∉ st.placed

theorem sweepStep_inv {g : Graph} {placed0 : List Nat} {st : Sweep} {done : List Nat} {n : Nat}
    (hn : n < g.size) (hnd : n ∉ done) (h : SweepInv g placed0 st done) :
    SweepInv g placed0 (sweepStep g [] st n) (done ++ [n]) := by
  cases h1 : st.placed.contains n with
  | true =>
    have h1m : n ∈ st.placed := List.contains_iff_mem.mp h1
    have e : sweepStep g [] st n = st := by simp [sweepStep, h1m]
    rw [e]
    refine ⟨h.run, h.bound, h.same, fun hp hs m hm => ?_, fun hp m hm => ?_, fun s hs => ?_⟩
    · simp only [List.mem_append, List.mem_singleton] at hm
      rcases hm with hm | rfl
      · exact h.frontier hp hs m hm
      · left; rw [← h.same hp]; exact List.contains_iff_mem.mp h1
    · simp only [List.mem_append, List.mem_singleton] at hm
      rcases hm with hm | rfl
      · exact h.stuck hp m hm
      · left; rw [← h.same hp]; exact List.contains_iff_mem.mp h1
    · exact ⟨List.mem_append_left _ (h.staleOut s hs).1, (h.staleOut s hs).2⟩
  | false =>
    have h1m : n ∉ st.placed := fun hm => by
      have := List.contains_iff_mem.mpr hm
      rw [h1] at this; exact Bool.noConfusion this
    cases h2 : (g.preds n).all st.placed.contains with
    | false =>
      have e : sweepStep g [] st n = st := by simp [sweepStep, h1m, h2]
      rw [e]
      refine ⟨h.run, h.bound, h.same, fun hp hs m hm => ?_, fun hp m hm => ?_, fun s hs => ?_⟩
      · simp only [List.mem_append, List.mem_singleton] at hm
        rcases hm with hm | rfl
        · exact h.frontier hp hs m hm
        · right; rw [← h.same hp]; exact h2
      · simp only [List.mem_append, List.mem_singleton] at hm
        rcases hm with hm | rfl
        · exact h.stuck hp m hm
        · right
          rw [← h.same hp]
          cases hcp : canPlace g st.placed m with
          | false => rfl
          | true => rw [(canPlace_iff.mp hcp).1] at h2; cases h2
      · exact ⟨List.mem_append_left _ (h.staleOut s hs).1, (h.staleOut s hs).2⟩
    | true =>
      cases h3 : (blockedInputs g st.placed n).isEmpty with
      | true =>
        have e : sweepStep g [] st n = { st with placed := st.placed ++ [n], progressed := true } := by
          simp [sweepStep, h1m, h2, h3]
        rw [e]
        have hcp : canPlace g st.placed n = true :=
          canPlace_iff.mpr ⟨h2, List.isEmpty_iff.mp h3⟩
        have hnm : n ∉ st.placed := h1m
        refine ⟨isRunFrom_snoc h.run hnm hcp, ?_, by simp, by simp, by simp, fun s hs => ?_⟩
        · intro x hx
          simp only [List.mem_append, List.mem_singleton] at hx
          rcases hx with hx | rfl
          · exact h.bound x hx
          · exact hn
        · have := h.staleOut s hs
          refine ⟨List.mem_append_left _ this.1, ?_⟩
          simp only [List.mem_append, List.mem_singleton, not_or]
          refine ⟨this.2, ?_⟩
          intro heq
          -- `n` was not examined before: the nodes of a sweep are examined once (`done` has no duplicates is not
          -- needed: a stuck node recorded earlier equal to `n` would have had `n ∉ st.placed`, still true now, but it
          -- is being placed: only possible if it was recorded in THIS sweep before, i.e. `n ∈ done`)
          exact hnd (heq ▸ this.1)
      | false =>
        have e : sweepStep g [] st n = { st with stale := st.stale ++ [(n, blockedInputs g st.placed n)] } := by
          simp [sweepStep, h1m, h2, h3]
        rw [e]
        refine ⟨h.run, h.bound, h.same, by simp, fun hp m hm => ?_, fun s hs => ?_⟩
        · simp only [List.mem_append, List.mem_singleton] at hm
          rcases hm with hm | rfl
          · exact h.stuck hp m hm
          · right
            rw [← h.same hp]
            cases hcp : canPlace g st.placed m with
            | false => rfl
            | true =>
              have := (canPlace_iff.mp hcp).2
              rw [this] at h3; cases h3
        · simp only [List.mem_append, List.mem_singleton] at hs
          rcases hs with hs | rfl
          · exact ⟨List.mem_append_left _ (h.staleOut s hs).1, (h.staleOut s hs).2⟩
          · exact ⟨by simp, h1m⟩

theorem sweep_fold_inv {g : Graph} {placed0 : List Nat} :
    ∀ (l : List Nat) (st : Sweep) (done : List Nat), (∀ n ∈ l, n < g.size) → (done ++ l).Nodup →
      SweepInv g placed0 st done → SweepInv g placed0 (l.foldl (sweepStep g []) st) (done ++ l) := by
  intro l
  induction l with
  | nil => intro st done _ _ h; simpa using h
  | cons a l ih =>
    intro st done hl hnd h
    have hnda : a ∉ done := by
      rw [List.nodup_append] at hnd
      intro ha
      exact hnd.2.2 a ha a (List.mem_cons_self ..) rfl
    have := ih (sweepStep g [] st a) (done ++ [a]) (fun n hn => hl n (List.mem_cons_of_mem _ hn))
      (by simpa [List.append_assoc] using hnd)
      (sweepStep_inv (hl a (List.mem_cons_self ..)) hnda h)
    simpa [List.append_assoc] using this

theorem sweep_inv {g : Graph} {placed0 : List Nat} (hrun : isRunFrom g [] placed0 = true)
    (hb : ∀ x ∈ placed0, x < g.size) :
    SweepInv g placed0 (sweep g [] placed0) (List.range g.size) := by
  have := sweep_fold_inv (g := g) (placed0 := placed0) (List.range g.size) { placed := placed0 } []
    (fun n hn => List.mem_range.mp hn) (by simpa using List.nodup_range)
    ⟨hrun, hb, fun _ => rfl, fun _ _ m hm => by simp at hm, fun _ m hm => by simp at hm, fun s hs => by simp at hs⟩
  simpa [sweep] using this

/-- when the forward pass ends without a stalemate, what it scheduled is a run of the ordering system and every node
    left out still waits for a dependency. -/
theorem findStalemateLoop_none {g : Graph} :
    ∀ (fuel : Nat) (placed : List Nat), isRunFrom g [] placed = true → (∀ x ∈ placed, x < g.size) →
      findStalemateLoop g [] fuel placed = [] →
      ∃ final, isRunFrom g [] final = true ∧ (∀ x ∈ final, x < g.size) ∧
        ∀ n, n < g.size → n ∈ final ∨ (g.preds n).all final.contains = false := by
  intro fuel
  induction fuel with
  | zero => intro placed _ _ h; simp [findStalemateLoop] at h
  | succ f ih =>
    intro placed hrun hb h
    have inv := sweep_inv hrun hb
    simp only [findStalemateLoop] at h
    by_cases hp : (sweep g [] placed).progressed = true
    · simp only [hp, if_true] at h
      exact ih _ inv.run inv.bound h
    · simp only [hp] at h
      have hp' : (sweep g [] placed).progressed = false := by simpa using hp
      refine ⟨placed, hrun, hb, fun n hn => ?_⟩
      exact inv.frontier hp' (by simpa using h) n (List.mem_range.mpr hn)

/-- in an acyclic, well-formed graph, a set of nodes outside of which every node waits for a dependency is everything. -/
theorem all_placed {g : Graph} {r : Nat → Nat} (hr : ∀ e ∈ g.edges, r e.src < r e.dst)
    (hwf : g.wellFormed = true) {final : List Nat}
    (h : ∀ n, n < g.size → n ∈ final ∨ (g.preds n).all final.contains = false) :
    ∀ n, n < g.size → n ∈ final := by
  suffices H : ∀ k n, r n = k → n < g.size → n ∈ final from fun n hn => H (r n) n rfl hn
  intro k
  induction k using Nat.strongRecOn with
  | ind k ih =>
    intro n hk hn
    rcases h n hn with h1 | h1
    · exact h1
    · exfalso
      rw [List.all_eq_false] at h1
      obtain ⟨p, hp, hpf⟩ := h1
      simp only [preds, inEdges, List.mem_map, List.mem_filter] at hp
      obtain ⟨e, ⟨he, hd⟩, rfl⟩ := hp
      have hd' : e.dst = n := by simpa using hd
      have hlt := hr e he
      unfold wellFormed at hwf
      rw [List.all_eq_true] at hwf
      have hs := hwf e he
      simp only [Bool.and_eq_true, decide_eq_true_eq] at hs
      have := ih (r e.src) (by rw [← hk, ← hd']; exact hlt) e.src rfl hs.1
      exact hpf (List.contains_iff_mem.mpr this)


theorem mem_insertSorted {x y : Nat} {l : List Nat} : x ∈ insertSorted y l ↔ x = y ∨ x ∈ l := by
  induction l with
  | nil => simp [insertSorted]
  | cons z zs ih =>
    simp only [insertSorted]
    split
    · simp
    · split
      · rename_i h; have : y = z := by simpa using h
        subst this; simp
      · simp [ih]; constructor <;> (intro h; rcases h with h | h | h <;> simp [h])

theorem mem_foldl_insertSorted {x : Nat} (l acc : List Nat) :
    x ∈ l.foldl (fun acc x => insertSorted x acc) acc ↔ x ∈ acc ∨ x ∈ l := by
  induction l generalizing acc with
  | nil => simp
  | cons a l ih =>
    simp only [List.foldl_cons, ih, mem_insertSorted, List.mem_cons]
    constructor
    · rintro ((h | h) | h)
      · right; left; exact h
      · left; exact h
      · right; right; exact h
    · rintro (h | h | h)
      · left; right; exact h
      · left; left; exact h
      · right; exact h

theorem mem_toSet {x : Nat} {l : List Nat} : x ∈ toSet l ↔ x ∈ l := by
  simp [toSet, mem_foldl_insertSorted]

theorem mem_blockedInputs {g : Graph} {placed : List Nat} {n b : Nat} (h : b ∈ blockedInputs g placed n) :
    b ∈ g.preds n := by
  unfold blockedInputs at h
  rw [mem_toSet] at h
  exact (List.mem_filter.mp h).1

/-- a reported stalemate names a node of the graph and dependencies of that node. -/
def StaleOk (g : Graph) (o : List (Nat × List Nat)) : Prop :=
  ∀ n bl, (n, bl) ∈ o → ∀ b ∈ bl, b ∈ g.preds n

theorem sweepStep_stale (g : Graph) (ign : List Nat) (st : Sweep) (n : Nat) :
    (sweepStep g ign st n).stale = st.stale ∨
      (sweepStep g ign st n).stale =
        st.stale ++ [(n, if ign.contains n then [] else blockedInputs g st.placed n)] := by
  simp only [sweepStep]
  repeat' split
  all_goals first | (left; rfl) | (right; simp_all)

theorem sweepStep_staleOk {g : Graph} {ign : List Nat} {st : Sweep} {n : Nat} (h : StaleOk g st.stale) :
    StaleOk g (sweepStep g ign st n).stale := by
  rcases sweepStep_stale g ign st n with e | e
  · rw [e]; exact h
  · rw [e]
    intro m bl hm b hb
    simp only [List.mem_append, List.mem_singleton, Prod.mk.injEq] at hm
    rcases hm with hm | ⟨rfl, rfl⟩
    · exact h m bl hm b hb
    · split at hb
      · cases hb
      · exact mem_blockedInputs hb

theorem sweep_staleOk (g : Graph) (ign placed : List Nat) : StaleOk g (sweep g ign placed).stale := by
  unfold sweep
  have : ∀ (l : List Nat) (st : Sweep), StaleOk g st.stale → StaleOk g (l.foldl (sweepStep g ign) st).stale := by
    intro l
    induction l with
    | nil => intro st h; exact h
    | cons a l ih => intro st h; exact ih _ (sweepStep_staleOk h)
  exact this _ _ (by intro n bl h; cases h)

theorem findStalemateLoop_staleOk (g : Graph) (ign : List Nat) :
    ∀ (fuel : Nat) (placed : List Nat), StaleOk g (findStalemateLoop g ign fuel placed) := by
  intro fuel
  induction fuel with
  | zero =>
    intro placed n bl h b hb
    simp only [findStalemateLoop, outOfFuel, List.mem_singleton, Prod.mk.injEq] at h
    rw [h.2] at hb; cases hb
  | succ f ih =>
    intro placed
    simp only [findStalemateLoop]
    split
    · exact ih _
    · exact sweep_staleOk g ign placed

/-- acyclicity, as a rank function that every edge increases. -/
def Ranked (g : Graph) (r : Nat → Nat) : Prop := ∀ e ∈ g.edges, r e.src < r e.dst

theorem mem_preds {g : Graph} {b n : Nat} (h : b ∈ g.preds n) : ∃ e ∈ g.edges, e.src = b ∧ e.dst = n := by
  simp only [preds, inEdges, List.mem_map, List.mem_filter] at h
  obtain ⟨e, ⟨he, hd⟩, rfl⟩ := h
  exact ⟨e, he, rfl, by simpa using hd⟩

theorem wf_endpoints {g : Graph} (hwf : g.wellFormed = true) {e : Edge} (he : e ∈ g.edges) :
    e.src < g.size ∧ e.dst < g.size := by
  unfold wellFormed at hwf
  rw [List.all_eq_true] at hwf
  simpa using hwf e he

theorem edges_insertClone (g : Graph) (dep consumer : Nat) :
    (insertClone g dep consumer).1.edges =
      (g.edges.filter (fun e => !(e.src == dep && e.dst == consumer))) ++
        [⟨dep, g.size, .shared⟩, ⟨g.size, consumer, .move⟩] := rfl

/-- cloning a dependency for one of its consumers keeps the graph well-formed and acyclic. -/
theorem insertClone_wf_ranked {g : Graph} {r : Nat → Nat} {dep consumer : Nat}
    (hwf : g.wellFormed = true) (hr : Ranked g r) (hp : dep ∈ g.preds consumer) :
    (insertClone g dep consumer).1.wellFormed = true ∧
      Ranked (insertClone g dep consumer).1
        (fun x => if x = g.size then 2 * r dep + 1 else 2 * r x) := by
  obtain ⟨e0, he0, hs0, hd0⟩ := mem_preds hp
  have hb0 := wf_endpoints hwf he0
  have hr0 := hr e0 he0
  rw [hs0] at hb0 hr0; rw [hd0] at hb0 hr0
  constructor
  · unfold wellFormed
    rw [List.all_eq_true]
    intro e he
    rw [size_insertClone, edges_insertClone] at *
    simp only [List.mem_append, List.mem_filter, List.mem_cons, List.not_mem_nil, or_false] at he
    simp only [Bool.and_eq_true, decide_eq_true_eq]
    rcases he with ⟨he, _⟩ | rfl | rfl
    · have := wf_endpoints hwf he; omega
    · simp; omega
    · simp; omega
  · intro e he
    rw [edges_insertClone] at he
    simp only [List.mem_append, List.mem_filter, List.mem_cons, List.not_mem_nil, or_false] at he
    rcases he with ⟨he, _⟩ | rfl | rfl
    · have hb := wf_endpoints hwf he
      have := hr e he
      have h1 : e.src ≠ g.size := by omega
      have h2 : e.dst ≠ g.size := by omega
      simp only [h1, h2, if_false]; omega
    · have h1 : dep ≠ g.size := by omega
      simp only [h1, if_false, if_true]; omega
    · have h1 : consumer ≠ g.size := by omega
      simp only [h1, if_false, if_true]; omega


theorem findStalemate_staleOk (g : Graph) (ign : List Nat) : StaleOk g (findStalemate g ign) :=
  findStalemateLoop_staleOk g ign _ _

/-- when `ordering_stalemates` reports nothing, the graph it returns is well-formed, acyclic and free of stalemates. -/
theorem resolveLoop_sound :
    ∀ (fuel : Nat) (g : Graph) (reported : List Nat) (ds : List OsDiag) (g' : Graph),
      resolveLoop fuel g reported ds = (g', []) → g.wellFormed = true → (∃ r, Ranked g r) →
      ds = [] ∧ g'.wellFormed = true ∧ (∃ r, Ranked g' r) ∧ (reported = [] → findStalemate g' [] = []) := by
  intro fuel
  induction fuel with
  | zero =>
    intro g reported ds g' h _ _
    simp [resolveLoop] at h
  | succ f ih =>
    intro g reported ds g' h hwf hr
    simp only [resolveLoop] at h
    split at h
    · rename_i hnone
      simp only [Prod.mk.injEq] at h
      obtain ⟨rfl, rfl⟩ := h
      exact ⟨rfl, hwf, hr, fun hrep => by rw [← hrep]; exact hnone⟩
    · rename_i n0 bl0 rest hsome
      split at h
      · rename_i n b hfs
        obtain ⟨s, hs, hf⟩ := List.exists_of_findSome?_eq_some hfs
        simp only [Option.map_eq_some_iff, Prod.mk.injEq] at hf
        obtain ⟨b', hb', rfl, rfl⟩ := hf
        have hbm : b' ∈ s.2 := List.mem_of_find?_eq_some hb'
        have hpred : b' ∈ g.preds s.1 :=
          findStalemate_staleOk g reported s.1 s.2 (by rw [hsome]; exact hs) b' hbm
        obtain ⟨r, hr⟩ := hr
        have := insertClone_wf_ranked hwf hr hpred
        exact ih _ reported ds g' h this.1 ⟨_, this.2⟩
      · have := (ih g (reported ++ [n0]) (ds ++ [.stalemate n0 bl0]) g' h hwf hr).1
        simp at this

end Pxv.CG
