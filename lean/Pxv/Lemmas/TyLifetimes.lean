import Pxv.Lemmas.TyCanon
/-! Helper lemmas for C17: rewriting lifetime names (`set_implicit_lifetimes`,
`rename_lifetime_parameters`) never changes the canonical form, unless it introduces `'static`. -/
namespace Pxv.Ty

theorem canonLt_fromName {x : String} (hx : stripQuote x ≠ "static") (l : Lt) (hl : l ≠ .static) (n : Nat) :
    canonLt (Lt.fromName x) n = canonLt l n := by
  unfold Lt.fromName
  simp only []
  by_cases h1 : stripQuote x = "_"
  · simp only [h1, if_true]; cases l <;> simp [canonLt] at hl ⊢
  · simp only [h1, if_false, hx]; cases l <;> simp [canonLt] at hl ⊢

theorem canonGLt_fromName {x : String} (hx : stripQuote x ≠ "static") (l : GLt) (hl : l ≠ .static) (n : Nat) :
    canonGLt (GLt.fromName x) n = canonGLt l n := by
  unfold GLt.fromName
  simp only []
  by_cases h1 : stripQuote x = "_"
  · simp only [h1, if_true]; cases l <;> simp [canonGLt] at hl ⊢
  · simp only [h1, if_false, hx]; cases l <;> simp [canonGLt] at hl ⊢

/-- The lifetime of a reference after `set_implicit_lifetimes` canonicalises like the original. -/
theorem canonLt_setImplicit {x : String} (hx : stripQuote x ≠ "static") (l : Lt) (n : Nat) :
    canonLt (setImplicitLt x l) n = canonLt l n := by
  cases l with
  | static => rfl
  | named a => rfl
  | inferred => exact canonLt_fromName hx _ (by simp) n
  | elided => exact canonLt_fromName hx _ (by simp) n

theorem canonGLt_setImplicit {x : String} (hx : stripQuote x ≠ "static") (l : GLt) (n : Nat) :
    canonGLt (setImplicitGLt x l) n = canonGLt l n := by
  cases l with
  | static => rfl
  | named a => rfl
  | inferred => exact canonGLt_fromName hx _ (by simp) n

mutual
theorem canonGo_setImplicit {x : String} (hx : stripQuote x ≠ "static") : ∀ (t : Ty) (s : CSt),
    canonGo (setImplicit x t) s = canonGo t s
  | .path al p i bs as, s => by simp [setImplicit, canonGo, canonArgs_setImplicit hx as s]
  | .ref m l t, s => by
      simp only [setImplicit, canonGo, canonLt_setImplicit hx l s.lt, canonGo_setImplicit hx t]
  | .tuple es, s => by simp [setImplicit, canonGo, canonTys_setImplicit hx es s]
  | .scalar _, s => by simp [setImplicit]
  | .slice e, s => by simp [setImplicit, canonGo, canonGo_setImplicit hx e s]
  | .array e n, s => by simp [setImplicit, canonGo, canonGo_setImplicit hx e s]
  | .rawPtr m t, s => by simp [setImplicit, canonGo, canonGo_setImplicit hx t s]
  | .fnPtr ins out abi u, s => by
      simp [setImplicit, canonGo, canonIns_setImplicit hx ins s, canonO_setImplicit hx out]
  | .generic _, s => by simp [setImplicit]
theorem canonArgs_setImplicit {x : String} (hx : stripQuote x ≠ "static") : ∀ (a : GArgs) (s : CSt),
    canonArgs (setImplicitArgs x a) s = canonArgs a s
  | .nil, s => by simp [setImplicitArgs]
  | .ty t r, s => by simp [setImplicitArgs, canonArgs, canonGo_setImplicit hx t s, canonArgs_setImplicit hx r]
  | .lt l r, s => by
      simp only [setImplicitArgs, canonArgs, canonGLt_setImplicit hx l s.lt, canonArgs_setImplicit hx r]
  | .const v r, s => by simp [setImplicitArgs, canonArgs, canonArgs_setImplicit hx r s]
theorem canonTys_setImplicit {x : String} (hx : stripQuote x ≠ "static") : ∀ (a : Tys) (s : CSt),
    canonTys (setImplicitTys x a) s = canonTys a s
  | .nil, s => by simp [setImplicitTys]
  | .cons t r, s => by simp [setImplicitTys, canonTys, canonGo_setImplicit hx t s, canonTys_setImplicit hx r]
theorem canonIns_setImplicit {x : String} (hx : stripQuote x ≠ "static") : ∀ (a : FnIns) (s : CSt),
    canonIns (setImplicitIns x a) s = canonIns a s
  | .nil, s => by simp [setImplicitIns]
  | .cons n t r, s => by simp [setImplicitIns, canonIns, canonGo_setImplicit hx t s, canonIns_setImplicit hx r]
theorem canonO_setImplicit {x : String} (hx : stripQuote x ≠ "static") : ∀ (a : OTy) (s : CSt),
    canonO (setImplicitO x a) s = canonO a s
  | .none, s => by simp [setImplicitO]
  | .some t, s => by simp [setImplicitO, canonO, canonGo_setImplicit hx t s]
end

/-- No renaming target is `'static`. -/
def NoStaticTargets (m : List (String × String)) : Prop := ∀ k v, mget m k = some v → stripQuote v ≠ "static"

theorem canonLt_rename {m : List (String × String)} (hm : NoStaticTargets m) (l : Lt) (n : Nat) :
    canonLt (renameLt m l) n = canonLt l n := by
  cases l with
  | static => rfl
  | inferred => rfl
  | elided => rfl
  | named a =>
    simp only [renameLt]
    cases h : mget m a with
    | none => rfl
    | some new => exact canonLt_fromName (hm a new h) _ (by simp) n

theorem canonGLt_rename {m : List (String × String)} (hm : NoStaticTargets m) (l : GLt) (n : Nat) :
    canonGLt (renameGLt m l) n = canonGLt l n := by
  cases l with
  | static => rfl
  | inferred => rfl
  | named a =>
    simp only [renameGLt]
    cases h : mget m a with
    | none => rfl
    | some new => exact canonGLt_fromName (hm a new h) _ (by simp) n

mutual
theorem canonGo_rename {m : List (String × String)} (hm : NoStaticTargets m) : ∀ (t : Ty) (s : CSt),
    canonGo (renameLts m t) s = canonGo t s
  | .path al p i bs as, s => by simp [renameLts, canonGo, canonArgs_rename hm as s]
  | .ref mu l t, s => by
      simp only [renameLts, canonGo, canonLt_rename hm l s.lt, canonGo_rename hm t]
  | .tuple es, s => by simp [renameLts, canonGo, canonTys_rename hm es s]
  | .scalar _, s => by simp [renameLts]
  | .slice e, s => by simp [renameLts, canonGo, canonGo_rename hm e s]
  | .array e n, s => by simp [renameLts, canonGo, canonGo_rename hm e s]
  | .rawPtr mu t, s => by simp [renameLts, canonGo, canonGo_rename hm t s]
  | .fnPtr ins out abi u, s => by
      simp [renameLts, canonGo, canonIns_rename hm ins s, canonO_rename hm out]
  | .generic _, s => by simp [renameLts]
theorem canonArgs_rename {m : List (String × String)} (hm : NoStaticTargets m) : ∀ (a : GArgs) (s : CSt),
    canonArgs (renameLtsArgs m a) s = canonArgs a s
  | .nil, s => by simp [renameLtsArgs]
  | .ty t r, s => by simp [renameLtsArgs, canonArgs, canonGo_rename hm t s, canonArgs_rename hm r]
  | .lt l r, s => by
      simp only [renameLtsArgs, canonArgs, canonGLt_rename hm l s.lt, canonArgs_rename hm r]
  | .const v r, s => by simp [renameLtsArgs, canonArgs, canonArgs_rename hm r s]
theorem canonTys_rename {m : List (String × String)} (hm : NoStaticTargets m) : ∀ (a : Tys) (s : CSt),
    canonTys (renameLtsTys m a) s = canonTys a s
  | .nil, s => by simp [renameLtsTys]
  | .cons t r, s => by simp [renameLtsTys, canonTys, canonGo_rename hm t s, canonTys_rename hm r]
theorem canonIns_rename {m : List (String × String)} (hm : NoStaticTargets m) : ∀ (a : FnIns) (s : CSt),
    canonIns (renameLtsIns m a) s = canonIns a s
  | .nil, s => by simp [renameLtsIns]
  | .cons n t r, s => by simp [renameLtsIns, canonIns, canonGo_rename hm t s, canonIns_rename hm r]
theorem canonO_rename {m : List (String × String)} (hm : NoStaticTargets m) : ∀ (a : OTy) (s : CSt),
    canonO (renameLtsO m a) s = canonO a s
  | .none, s => by simp [renameLtsO]
  | .some t, s => by simp [renameLtsO, canonO, canonGo_rename hm t s]
end

/-! `set_implicit_lifetimes` leaves no implicit lifetime behind (unless asked to write `'_`). -/
theorem fromName_explicit {x : String} (hx : stripQuote x ≠ "_") :
    Lt.fromName x ≠ .inferred ∧ Lt.fromName x ≠ .elided ∧ GLt.fromName x ≠ .inferred := by
  unfold Lt.fromName GLt.fromName
  simp only [hx, if_false]
  by_cases h : stripQuote x = "static" <;> simp [h]

mutual
theorem hasImplicit_setImplicit {x : String} (hx : stripQuote x ≠ "_") : ∀ (t : Ty),
    hasImplicit (setImplicit x t) = false
  | .path al p i bs as => by simp [setImplicit, hasImplicit, hasImplicitArgs_setImplicit hx as]
  | .ref m l t => by
      have ih := hasImplicit_setImplicit hx t
      have hf := fromName_explicit hx
      cases l with
      | static => simp [setImplicit, setImplicitLt, hasImplicit, ih]
      | named a => simp [setImplicit, setImplicitLt, hasImplicit, ih]
      | inferred =>
        simp only [setImplicit, setImplicitLt, hasImplicit]
        cases hq : Lt.fromName x with
        | static => simp [ih]
        | named a => simp [ih]
        | inferred => exact absurd hq hf.1
        | elided => exact absurd hq hf.2.1
      | elided =>
        simp only [setImplicit, setImplicitLt, hasImplicit]
        cases hq : Lt.fromName x with
        | static => simp [ih]
        | named a => simp [ih]
        | inferred => exact absurd hq hf.1
        | elided => exact absurd hq hf.2.1
  | .tuple es => by simp [setImplicit, hasImplicit, hasImplicitTys_setImplicit hx es]
  | .scalar _ => by simp [setImplicit, hasImplicit]
  | .slice e => by simp [setImplicit, hasImplicit, hasImplicit_setImplicit hx e]
  | .array e n => by simp [setImplicit, hasImplicit, hasImplicit_setImplicit hx e]
  | .rawPtr m t => by simp [setImplicit, hasImplicit, hasImplicit_setImplicit hx t]
  | .fnPtr ins out abi u => by
      simp [setImplicit, hasImplicit, hasImplicitIns_setImplicit hx ins, hasImplicitO_setImplicit hx out]
  | .generic _ => by simp [setImplicit, hasImplicit]
theorem hasImplicitArgs_setImplicit {x : String} (hx : stripQuote x ≠ "_") : ∀ (a : GArgs),
    hasImplicitArgs (setImplicitArgs x a) = false
  | .nil => by simp [setImplicitArgs, hasImplicitArgs]
  | .ty t r => by simp [setImplicitArgs, hasImplicitArgs, hasImplicit_setImplicit hx t, hasImplicitArgs_setImplicit hx r]
  | .lt l r => by
      have ih := hasImplicitArgs_setImplicit hx r
      have hf := fromName_explicit hx
      cases l with
      | static => simp [setImplicitArgs, setImplicitGLt, hasImplicitArgs, ih]
      | named a => simp [setImplicitArgs, setImplicitGLt, hasImplicitArgs, ih]
      | inferred =>
        simp only [setImplicitArgs, setImplicitGLt, hasImplicitArgs]
        cases hq : GLt.fromName x with
        | static => simp [ih]
        | named a => simp [ih]
        | inferred => exact absurd hq hf.2.2
  | .const v r => by simp [setImplicitArgs, hasImplicitArgs, hasImplicitArgs_setImplicit hx r]
theorem hasImplicitTys_setImplicit {x : String} (hx : stripQuote x ≠ "_") : ∀ (a : Tys),
    hasImplicitTys (setImplicitTys x a) = false
  | .nil => by simp [setImplicitTys, hasImplicitTys]
  | .cons t r => by simp [setImplicitTys, hasImplicitTys, hasImplicit_setImplicit hx t, hasImplicitTys_setImplicit hx r]
theorem hasImplicitIns_setImplicit {x : String} (hx : stripQuote x ≠ "_") : ∀ (a : FnIns),
    hasImplicitIns (setImplicitIns x a) = false
  | .nil => by simp [setImplicitIns, hasImplicitIns]
  | .cons n t r => by simp [setImplicitIns, hasImplicitIns, hasImplicit_setImplicit hx t, hasImplicitIns_setImplicit hx r]
theorem hasImplicitO_setImplicit {x : String} (hx : stripQuote x ≠ "_") : ∀ (a : OTy),
    hasImplicitO (setImplicitO x a) = false
  | .none => by simp [setImplicitO, hasImplicitO]
  | .some t => by simp [setImplicitO, hasImplicitO, hasImplicit_setImplicit hx t]
end

end Pxv.Ty
