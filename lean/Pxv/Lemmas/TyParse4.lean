import Pxv.Lemmas.TyParse3
/-! Helper lemmas for C17: the fuel `parse` passes to the reader is enough. -/
namespace Pxv.Ty

theorem render_len_pos (t : Ty) (hw : wf t = true) : 1 ≤ (renderD false t).length := by
  have := (render_head t [] hw rfl).first
  obtain ⟨c, r, h, _⟩ := this
  rw [List.append_nil] at h
  rw [h]; simp

theorem renderGLt_len_pos (l : GLt) : 1 ≤ (renderGLt false l).length := by
  cases l with
  | static => have : renderGLt false .static = "'static".toList := rfl; rw [this]; decide
  | inferred => have : renderGLt false .inferred = "'_".toList := rfl; rw [this]; decide
  | named n => have : renderGLt false (.named n) = '\'' :: n.toList := rfl; rw [this]; simp

theorem wfConst_len_pos {v : String} (h : wfConst v = true) : 1 ≤ v.toList.length := by
  simp only [wfConst, Bool.or_eq_true, beq_iff_eq, Bool.and_eq_true, bne_iff_ne, ne_eq] at h
  rcases h with (h | h) | h
  · subst h; decide
  · subst h; decide
  · cases hv : v.toList with
    | nil => exact absurd hv h.1
    | cons c r => simp

mutual
theorem need_le : ∀ (t : Ty), wf t = true → need t ≤ 2 * (renderD false t).length
  | .path al p i bs as, hw => by
      simp only [wf, Bool.and_eq_true, decide_eq_true_eq, List.all_eq_true] at hw
      obtain ⟨⟨hlen, _⟩, hwa⟩ := hw
      match bs, hlen with
      | s0 :: s1 :: more, _ =>
        have ha := needArgs_le as true hwa
        rw [renderD_path, joinSep_cons]
        simp only [need, segStr, List.length_append, List.length_cons]
        cases as with
        | nil => simp only [needArgs, argsPart, List.length_nil]; omega
        | ty t r => simp only [argsPart, List.length_cons, List.length_append, List.length_nil] at ha ⊢; omega
        | lt l r => simp only [argsPart, List.length_cons, List.length_append, List.length_nil] at ha ⊢; omega
        | const v r => simp only [argsPart, List.length_cons, List.length_append, List.length_nil] at ha ⊢; omega
  | .ref m l t, hw => by
      simp only [wf, Bool.and_eq_true] at hw
      have := need_le t hw.2
      simp only [need, renderD, List.length_cons, List.length_append]
      omega
  | .tuple es, hw => by
      simp only [wf] at hw
      have := needTys_le es true hw
      simp only [need, renderD, List.length_cons, List.length_append]
      omega
  | .scalar s, _ => by
      obtain ⟨c, r, h, _⟩ := scalar_name_head s
      simp only [need, renderD, h, List.length_cons]
      omega
  | .slice e, hw => by
      simp only [wf] at hw
      have := need_le e hw
      simp only [need, renderD, List.length_cons, List.length_append]
      omega
  | .array e n, hw => by
      simp only [wf] at hw
      have := need_le e hw
      simp only [need, renderD, List.length_cons, List.length_append]
      omega
  | .rawPtr m t, hw => by
      simp only [wf] at hw
      have := need_le t hw
      have e1 : "*mut ".toList.length = 5 := by decide
      have e2 : "*const ".toList.length = 7 := by decide
      cases m <;> simp only [need, renderD, List.length_append, if_true, Bool.false_eq_true, if_false, e1, e2] <;> omega
  | .fnPtr ins out abi u, hw => by
      simp only [wf, Bool.and_eq_true] at hw
      have h1 := needIns_le ins true hw.1.2
      have h2 := needO_le out hw.2
      have e : "fn(".toList.length = 3 := by decide
      rw [render_fnPtr]
      simp only [need, fnBody, List.length_append, List.length_cons, e]
      omega
  | .generic x, hw => by
      simp only [wf, Bool.and_eq_true] at hw
      obtain ⟨c, r, h, _⟩ := (isIdent_unpack hw.1).1
      simp only [need, renderD, h, List.length_cons]
      omega
theorem needArgs_le : ∀ (as : GArgs) (first : Bool), wfArgs as = true →
    needArgs as ≤ 2 * (renderArgsD false first as).length + 2
  | .nil, _, _ => by simp [needArgs]
  | .ty t r, first, hw => by
      simp only [wfArgs, Bool.and_eq_true] at hw
      have h1 := need_le t hw.1
      have h2 := needArgs_le r false hw.2
      have h3 := render_len_pos t hw.1
      simp only [needArgs, renderArgsD, List.length_append]
      omega
  | .lt l r, first, hw => by
      simp only [wfArgs, Bool.and_eq_true] at hw
      have h2 := needArgs_le r false hw.2
      have h3 := renderGLt_len_pos l
      simp only [needArgs, renderArgsD, List.length_append]
      omega
  | .const v r, first, hw => by
      simp only [wfArgs, Bool.and_eq_true] at hw
      have h2 := needArgs_le r false hw.2
      have h3 := wfConst_len_pos hw.1
      simp only [needArgs, renderArgsD, List.length_append]
      omega
theorem needTys_le : ∀ (es : Tys) (first : Bool), wfTys es = true →
    needTys es ≤ 2 * (renderTysD false first es).length + 2
  | .nil, _, _ => by simp [needTys]
  | .cons t r, first, hw => by
      simp only [wfTys, Bool.and_eq_true] at hw
      have h1 := need_le t hw.1
      have h2 := needTys_le r false hw.2
      have h3 := render_len_pos t hw.1
      simp only [needTys, renderTysD, List.length_append]
      omega
theorem needIns_le : ∀ (ins : FnIns) (first : Bool), wfIns ins = true →
    needIns ins ≤ 2 * (renderInsD false first ins).length + 2
  | .nil, _, _ => by simp [needIns]
  | .cons n t r, first, hw => by
      simp only [wfIns, Bool.and_eq_true] at hw
      have h1 := need_le t hw.1.2
      have h2 := needIns_le r false hw.2
      have h3 := render_len_pos t hw.1.2
      simp only [needIns, renderInsD, List.length_append]
      omega
theorem needO_le : ∀ (o : OTy), wfO o = true → needO o ≤ 2 * (renderOD false o).length
  | .none, _ => by simp [needO]
  | .some t, hw => by
      simp only [wfO] at hw
      have := need_le t hw
      simp only [needO, renderOD, List.length_append]
      omega
end

/-- The reader inverts the renderer on well-formed types. -/
theorem parse_renderD (t : Ty) (hw : wf t = true) : parse (renderD false t) = some (strip t) := by
  have h := parseTy_render t (2 * (renderD false t).length + 2) [] hw (by have := need_le t hw; omega) rfl
  rw [List.append_nil] at h
  unfold parse
  rw [h]

end Pxv.Ty
