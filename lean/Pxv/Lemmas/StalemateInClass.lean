import Pxv.Lemmas.StalemateFuel
/-! On capture-free call graphs in which every contended value may be cloned, `resolveStalemates` reports nothing. -/
namespace Pxv.CG
open Graph

theorem allBorrowers_of_captureFree {g : Graph} (h : captureFree g = true) (d : Nat) :
    allBorrowers g d = g.borrowers d := by
  unfold allBorrowers holderUsers
  have : ∀ t, (t != d && (g.inEdges t).any (fun e => e.isData && holds g e.src d)) = false := by
    intro t
    have : (g.inEdges t).any (fun e => e.isData && holds g e.src d) = false := by
      rw [List.any_eq_false]
      intro e _
      simp [holds, held_of_captureFree h]
    simp [this]
  simp [this]

theorem captureFree_insertClone {g : Graph} (h : captureFree g = true) (b n : Nat) :
    captureFree (insertClone g b n).1 = true := by
  unfold captureFree at *
  rw [List.all_eq_true] at *
  intro nd hnd
  simp only [insertClone, List.mem_append, List.mem_map, List.mem_singleton] at hnd
  rcases hnd with ⟨⟨nd0, i⟩, hm, rfl⟩ | rfl
  · have hm0 : nd0 ∈ g.nodes := by
      have := List.mem_zipIdx hm
      simpa using (List.mem_iff_getElem.mpr ⟨i, by simpa using this.2.1, by simpa using this.2.2.symm⟩ : nd0 ∈ g.nodes)
    have := h nd0 hm0
    simp only [Bool.and_eq_true, List.isEmpty_iff] at this
    split <;> simp [this.1, this.2]
  · simp


theorem outEdges_insertClone_other (g : Graph) (dep consumer d : Nat) (hd : d ≠ dep) (hds : d < g.size) :
    (insertClone g dep consumer).1.outEdges d = g.outEdges d := by
  unfold outEdges
  rw [edges_insertClone, List.filter_append, List.filter_filter]
  have h1 : ([⟨dep, g.size, .shared⟩, ⟨g.size, consumer, .move⟩] : List Edge).filter (·.src == d) = [] := by
    have a : (dep == d) = false := by simpa using fun h => hd h.symm
    have b : (g.size == d) = false := by simp; omega
    simp [List.filter_cons, a, b]
  rw [h1, List.append_nil]
  apply List.filter_congr
  intro e _
  by_cases hs : e.src = d
  · simp [hs, hd]
  · simp [hs]

theorem outEdges_insertClone_new (g : Graph) (dep consumer : Nat) (hwf : g.wellFormed = true)
    (hdep : dep < g.size) :
    (insertClone g dep consumer).1.outEdges g.size = [⟨g.size, consumer, .move⟩] := by
  unfold outEdges
  rw [edges_insertClone, List.filter_append, List.filter_filter]
  have h0 : g.edges.filter (fun e => (e.src == g.size) && !(e.src == dep && e.dst == consumer)) = [] := by
    rw [List.filter_eq_nil_iff]
    intro e he
    have := (wf_endpoints hwf he).1
    have : (e.src == g.size) = false := by simp; omega
    simp [this]
  have a : (dep == g.size) = false := by simp; omega
  rw [h0]
  simp [List.filter_cons, a]

theorem copy_insertClone_old (g : Graph) (b n x : Nat) (hx : x < g.size) :
    ((insertClone g b n).1.node x).copy = (g.node x).copy := by
  simp only [insertClone, Graph.node, Graph.size] at *
  rw [List.getD_eq_getElem?_getD, List.getD_eq_getElem?_getD, List.getElem?_append_left (by simpa using hx)]
  simp [hx]
  split <;> rfl

/-- every value that some node takes by value while another borrows it is Copy or may be cloned
    (what being "in class" means for the last pass). -/
def ContendedCloneable (g : Graph) : Prop :=
  ∀ p, p < g.size → (g.node p).copy = true ∨ (g.node p).cloneable = true ∨ g.consumers p = [] ∨ g.borrowers p = []

theorem contendedCloneable_insertClone {g : Graph} {b n : Nat} (hwf : g.wellFormed = true)
    (hb : b < g.size) (hc : (g.node b).cloneable = true) (h : ContendedCloneable g) :
    ContendedCloneable (insertClone g b n).1 := by
  intro p hp
  rw [size_insertClone] at hp
  by_cases hpn : p = g.size
  · subst hpn
    right; right; right
    simp [borrowers, outEdges_insertClone_new g b n hwf hb, List.filter_cons]
  · have hp' : p < g.size := by omega
    by_cases hpb : p = b
    · subst hpb
      right; left
      rw [node_insertClone_old g p n p hp']; exact hc
    · rcases h p hp' with h1 | h1 | h1 | h1
      · left; rw [copy_insertClone_old g b n p hp']; exact h1
      · right; left; rw [node_insertClone_old g b n p hp']; exact h1
      · right; right; left; rw [consumers_insertClone_other g b n p hpb hp']; exact h1
      · right; right; right
        simp only [borrowers] at h1 ⊢
        rw [outEdges_insertClone_other g b n p hpb hp']; exact h1

/-- **in-class graphs pass the last pass silently**: on a capture-free call graph in which every contended value is Copy
    or may be cloned, `resolveStalemates` reports nothing (it resolves every stalemate with a clone). -/
theorem resolveLoop_inClass :
    ∀ (fuel : Nat) (g : Graph) (ds : List OsDiag), g.wellFormed = true → captureFree g = true →
      ContendedCloneable g → ∀ d ∈ (resolveLoop fuel g [] ds).2, d ∈ ds ∨ d = .outOfFuel := by
  intro fuel
  induction fuel with
  | zero => intro g ds _ _ _ d hd; simpa [resolveLoop] using hd
  | succ f ih =>
    intro g ds hwf hcf hcc d hd
    simp only [resolveLoop] at hd
    split at hd
    · left; exact hd
    · rename_i n0 bl0 rest hsome
      -- every contended input of every stuck node may be cloned
      have hall : ∀ s ∈ findStalemate g [], ∀ b ∈ s.2, b < g.size ∧ (g.node b).cloneable = true := by
        intro s hs b hb
        have hg := findStalemate_genuine hs
        have hspec := hg.2.2.2 b hb
        obtain ⟨e, he, hsrc, _⟩ := mem_preds hspec.1
        have hbs : b < g.size := hsrc ▸ (wf_endpoints hwf he).1
        refine ⟨hbs, ?_⟩
        rcases hcc b hbs with h1 | h1 | h1 | h1
        · rw [hspec.2.2.1] at h1; cases h1
        · exact h1
        · rw [h1] at hspec; simp at hspec
        · rw [allBorrowers_of_captureFree hcf, h1] at hspec; simp at hspec
      split at hd
      · rename_i n b hfs
        obtain ⟨s, hs, hf⟩ := List.exists_of_findSome?_eq_some hfs
        simp only [Option.map_eq_some_iff, Prod.mk.injEq] at hf
        obtain ⟨b', hfind, rfl, rfl⟩ := hf
        have hsm : s ∈ findStalemate g [] := by rw [hsome]; exact hs
        have hbm : b' ∈ s.2 := List.mem_of_find?_eq_some hfind
        have hb2 := hall s hsm b' hbm
        have hpred := ((findStalemate_genuine hsm).2.2.2 b' hbm).1
        exact ih _ ds (insertClone_wf hwf hpred) (captureFree_insertClone hcf b' _)
          (contendedCloneable_insertClone hwf hb2.1 hb2.2 hcc) d hd
      · rename_i hfs
        exfalso
        rw [List.findSome?_eq_none_iff] at hfs
        have h0m : (n0, bl0) ∈ findStalemate g [] := by rw [hsome]; exact List.mem_cons_self ..
        have h0 := hfs (n0, bl0) (List.mem_cons_self ..)
        simp only [Option.map_eq_none_iff] at h0
        rw [List.find?_eq_none] at h0
        have hg := findStalemate_genuine h0m
        cases hbl : bl0 with
        | nil => exact hg.2.2.1 hbl
        | cons b0 rest0 =>
          have hb0 : b0 ∈ bl0 := by rw [hbl]; exact List.mem_cons_self ..
          have := h0 b0 hb0
          have hc := (hall (n0, bl0) h0m b0 hb0).2
          simp [hc] at this

/-- **C02 for the last pass**: a well-formed capture-free call graph in which every contended value is Copy or
    clone-if-necessary goes through `ordering_stalemates` without a diagnostic. -/
theorem resolve_inClass_silent {g : Graph} (hwf : g.wellFormed = true) (hcf : captureFree g = true)
    (hcc : ContendedCloneable g) : (resolveStalemates g).2 = [] := by
  have h1 := resolveLoop_inClass (resolveFuel g) g [] hwf hcf hcc
  have h2 := resolve_never_out_of_fuel hwf
  unfold resolveStalemates at *
  cases hds : (resolveLoop (resolveFuel g) g [] []).2 with
  | nil => rfl
  | cons d rest =>
    have hm : d ∈ (resolveLoop (resolveFuel g) g [] []).2 := by rw [hds]; exact List.mem_cons_self ..
    rcases h1 d hm with h | h
    · cases h
    · exact absurd h (h2 d hm)

end Pxv.CG

namespace Pxv.CG
open Graph

/-- what the last pass may have added to the call graph `g0`: nodes that may not be cloned themselves, each fed by one
    shared borrow of a clone-if-necessary node of `g0` and moved into its consumer. -/
structure OnlyClones (g0 g : Graph) : Prop where
  size : g0.size ≤ g.size
  old : ∀ x, x < g0.size → (g.node x).cloneable = (g0.node x).cloneable
  new : ∀ x, g0.size ≤ x → x < g.size → (g.node x).cloneable = false
  edges : ∀ e ∈ g.edges, e ∈ g0.edges ∨
    (e.kind = .shared ∧ e.src < g0.size ∧ (g0.node e.src).cloneable = true ∧ g0.size ≤ e.dst) ∨
    (e.kind = .move ∧ g0.size ≤ e.src)

theorem onlyClones_refl (g : Graph) : OnlyClones g g :=
  ⟨Nat.le_refl _, fun _ _ => rfl, fun x h1 h2 => absurd h2 (by omega), fun e he => Or.inl he⟩

theorem onlyClones_insertClone {g0 g : Graph} {b n : Nat} (h : OnlyClones g0 g) (hb : b < g.size)
    (hc : (g.node b).cloneable = true) : OnlyClones g0 (insertClone g b n).1 := by
  have hb0 : b < g0.size := by
    apply Classical.byContradiction
    intro hnot
    have := h.new b (by omega) hb
    rw [hc] at this; cases this
  have hc0 : (g0.node b).cloneable = true := by rw [← h.old b hb0]; exact hc
  refine ⟨by rw [size_insertClone]; have := h.size; omega, ?_, ?_, ?_⟩
  · intro x hx
    rw [node_insertClone_old g b n x (by have := h.size; omega)]
    exact h.old x hx
  · intro x h1 h2
    rw [size_insertClone] at h2
    by_cases hx : x = g.size
    · subst hx; exact node_insertClone_new g b n
    · rw [node_insertClone_old g b n x (by omega)]
      exact h.new x h1 (by omega)
  · intro e he
    rw [edges_insertClone] at he
    simp only [List.mem_append, List.mem_filter, List.mem_cons, List.not_mem_nil, or_false] at he
    rcases he with ⟨he, _⟩ | rfl | rfl
    · exact h.edges e he
    · right; left; exact ⟨rfl, hb0, hc0, h.size⟩
    · right; right; exact ⟨rfl, h.size⟩

/-- **no illicit copies by the last pass**: whatever `resolveStalemates` adds to a call graph is a clone of a
    clone-if-necessary node, handed to one consumer. -/
theorem resolveLoop_onlyClones (g0 : Graph) :
    ∀ (fuel : Nat) (g : Graph) (reported : List Nat) (ds : List OsDiag), g.wellFormed = true → OnlyClones g0 g →
      OnlyClones g0 (resolveLoop fuel g reported ds).1 := by
  intro fuel
  induction fuel with
  | zero => intro g reported ds _ h; simpa [resolveLoop] using h
  | succ f ih =>
    intro g reported ds hwf h
    simp only [resolveLoop]
    split
    · exact h
    · rename_i n0 bl0 rest hsome
      split
      · rename_i n b hfs
        obtain ⟨s, hs, hf⟩ := List.exists_of_findSome?_eq_some hfs
        simp only [Option.map_eq_some_iff, Prod.mk.injEq] at hf
        obtain ⟨b', hfind, rfl, rfl⟩ := hf
        have hg := findStalemate_genuine (g := g) (ign := reported) (s := s) (by rw [hsome]; exact hs)
        have hbm : b' ∈ s.2 := List.mem_of_find?_eq_some hfind
        have hcb : (g.node b').cloneable = true := by simpa using List.find?_some hfind
        have hpred := (hg.2.2.2 b' hbm).1
        obtain ⟨e, he, hsrc, _⟩ := mem_preds hpred
        have hbs : b' < g.size := hsrc ▸ (wf_endpoints hwf he).1
        exact ih _ reported ds (insertClone_wf hwf hpred) (onlyClones_insertClone h hbs hcb)
      · exact ih g _ _ hwf h

end Pxv.CG
