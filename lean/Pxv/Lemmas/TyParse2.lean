import Pxv.Lemmas.TyParse
/-! Helper lemmas for C17: single steps of the reader on rendered input. -/
namespace Pxv.Ty

theorem isIdStart_not_digit {c : Char} (h : isIdStart c = true) : c.isDigit = false := by
  simp only [isIdStart, Char.isAlpha, Char.isUpper, Char.isLower, Bool.or_eq_true, Bool.and_eq_true,
    decide_eq_true_eq, beq_iff_eq] at h
  simp only [Char.isDigit, Bool.and_eq_false_iff, decide_eq_false_iff_not]
  rcases h with (h | h) | h
  · simp [UInt32.le_iff_toNat_le] at *; omega
  · simp [UInt32.le_iff_toNat_le] at *; omega
  · subst h; decide

theorem parseTy_idLed {f : Nat} {c : Char} {r : List Char} (hc : isIdStart c = true) :
    parseTy (f + 1) (c :: r) = parseIdLed f (c :: r) := by
  unfold parseTy
  split
  · rename_i heq; injection heq with h1 _; subst h1; exact absurd hc (by decide)
  · rename_i heq; injection heq with h1 _; subst h1; exact absurd hc (by decide)
  · rename_i heq; injection heq with h1 _; subst h1; exact absurd hc (by decide)
  · rename_i heq; injection heq with h1 _; subst h1; exact absurd hc (by decide)
  · rfl

/-- The first character of a rendered type is neither a quote, nor a digit, nor `)`. -/
theorem first_facts {s : List Char}
    (h : ∃ c r, s = c :: r ∧ (c = '&' ∨ c = '(' ∨ c = '[' ∨ c = '*' ∨ isIdStart c = true)) :
    ∃ c r, s = c :: r ∧ c ≠ '\'' ∧ c.isDigit = false ∧ c ≠ ')' ∧ c ≠ ',' := by
  obtain ⟨c, r, rfl, hc⟩ := h
  refine ⟨c, r, rfl, ?_⟩
  rcases hc with rfl | rfl | rfl | rfl | hc
  · decide
  · decide
  · decide
  · decide
  · refine ⟨?_, isIdStart_not_digit hc, ?_, ?_⟩ <;> (rintro rfl; exact absurd hc (by decide))

theorem headOk_sym {c : Char} (X : List Char) (hc : isIdChar c = false) (h2 : c ≠ ':')
    (hf : c = '&' ∨ c = '(' ∨ c = '[' ∨ c = '*') : HeadOk (c :: X) := by
  have hs : spanP isIdChar (c :: X) = ([], c :: X) := by simp [spanP, hc]
  refine ⟨⟨c, X, rfl, ?_⟩, ?_, ?_, ?_, ?_⟩
  · rcases hf with h | h | h | h <;> simp [h]
  · rw [hs]; show ([] : List Char) ≠ _; decide
  · rw [hs]; show ([] : List Char) ≠ _; decide
  · rw [hs]; show ([] : List Char) ≠ _; decide
  · rw [hs]
    have : ¬ ':' = c := fun e => h2 e.symm
    simp [dropPrefix?, this]

/-- The `<…>` part of a rendered path. -/
def argsPart (as : GArgs) : List Char :=
  match as with
  | .nil => []
  | as => '<' :: (renderArgsD false true as ++ ['>'])

theorem renderD_path (al : Bool) (p : String) (i : Option Nat) (bs : List String) (as : GArgs) :
    renderD false (.path al p i bs as) = joinSep "::".toList bs ++ argsPart as := by
  cases as <;> simp [renderD, argsPart]

/-- Every rendered well-formed type, in a legal context, has a good head. -/
theorem render_head (t : Ty) (rest : List Char) (hw : wf t = true) (hr : follow rest = true) :
    HeadOk (renderD false t ++ rest) := by
  have hq : rest = [] ∨ ∃ c r, rest = c :: r ∧ isIdChar c = false ∧ c ≠ ':' := by
    rcases follow_facts hr with h | ⟨c, r, h, h1, _, h3, _⟩
    · exact Or.inl h
    · exact Or.inr ⟨c, r, h, h1, h3⟩
  cases t with
  | path al p i bs as =>
    simp only [wf, Bool.and_eq_true, decide_eq_true_eq, List.all_eq_true] at hw
    obtain ⟨⟨hlen, hid⟩, _⟩ := hw
    match bs, hlen, hid with
    | s0 :: s1 :: more, _, hid =>
      rw [renderD_path, joinSep_cons]
      simp only [segStr, List.append_assoc, List.cons_append]
      apply headOk_ident (hid s0 (by simp))
      right
      exact ⟨':', _, rfl, by decide, fun _ => ⟨_, rfl⟩⟩
  | ref m l t => exact headOk_sym _ (by decide) (by decide) (Or.inl rfl)
  | tuple es => exact headOk_sym _ (by decide) (by decide) (Or.inr (Or.inl rfl))
  | scalar s =>
    simp only [renderD]
    exact headOk_scalar s hq
  | slice e => exact headOk_sym _ (by decide) (by decide) (Or.inr (Or.inr (Or.inl rfl)))
  | array e n => exact headOk_sym _ (by decide) (by decide) (Or.inr (Or.inr (Or.inl rfl)))
  | rawPtr m t =>
    cases m <;> exact headOk_sym _ (by decide) (by decide) (Or.inr (Or.inr (Or.inr rfl)))
  | fnPtr ins out abi u => exact headOk_fn ins out abi u rest
  | generic x =>
    simp only [wf, Bool.and_eq_true] at hw
    simp only [renderD]
    apply headOk_ident hw.1
    rcases hq with h | ⟨c, r, h, h1, h2⟩
    · exact Or.inl h
    · exact Or.inr ⟨c, r, h, h1, fun e => absurd e h2⟩

/-! #### single steps -/

theorem idChars_static : ∀ c ∈ "static".toList, isIdChar c = true := by decide
theorem idChars_us : ∀ c ∈ "_".toList, isIdChar c = true := by decide
theorem toList_qstatic : "'static ".toList = '\'' :: ("static".toList ++ [' ']) := by decide
theorem toList_qus : "'_ ".toList = '\'' :: ("_".toList ++ [' ']) := by decide
theorem ltOfName_static : ltOfName "static".toList = .static := by decide
theorem ltOfName_us : ltOfName "_".toList = .inferred := by decide
theorem static_ne_nil : "static".toList ≠ [] := by decide
theorem us_ne_nil : "_".toList ≠ [] := by decide

theorem renderRefLt_elided : renderRefLt false .elided = [] := rfl
theorem renderRefLt_static : renderRefLt false .static = "'static ".toList := rfl
theorem renderRefLt_inferred : renderRefLt false .inferred = "'_ ".toList := rfl
theorem renderRefLt_named (n : String) : renderRefLt false (.named n) = '\'' :: (n.toList ++ [' ']) := rfl

theorem parseRefLt_static (X : List Char) : parseRefLt (renderRefLt false .static ++ X) = some (.static, X) := by
  have hs : spanP isIdChar ("static".toList ++ ' ' :: X) = ("static".toList, ' ' :: X) :=
    spanP_append _ _ idChars_static (Or.inr ⟨' ', X, rfl, by decide⟩)
  simp only [renderRefLt_static, toList_qstatic, List.cons_append, List.append_assoc, List.nil_append]
  unfold parseRefLt
  simp only [hs, ltOfName_static]
  rw [if_neg static_ne_nil]

theorem parseRefLt_inferred (X : List Char) : parseRefLt (renderRefLt false .inferred ++ X) = some (.inferred, X) := by
  have hs : spanP isIdChar ("_".toList ++ ' ' :: X) = ("_".toList, ' ' :: X) :=
    spanP_append _ _ idChars_us (Or.inr ⟨' ', X, rfl, by decide⟩)
  simp only [renderRefLt_inferred, toList_qus, List.cons_append, List.append_assoc, List.nil_append]
  unfold parseRefLt
  simp only [hs, ltOfName_us]
  rw [if_neg us_ne_nil]

theorem parseRefLt_elided (X : List Char) (hX : ∀ r, X ≠ '\'' :: r) :
    parseRefLt (renderRefLt false .elided ++ X) = some (.elided, X) := by
  simp only [renderRefLt_elided, List.nil_append]
  unfold parseRefLt
  split
  · exact (hX _ rfl).elim
  · rfl

theorem parseRefLt_named (n : String) (X : List Char) (hl : isIdent n = true) :
    parseRefLt (renderRefLt false (.named n) ++ X) = some (.named n, X) := by
  have hu := isIdent_unpack hl
  obtain ⟨c0, r0, hx0, _⟩ := hu.1
  have hs : spanP isIdChar (n.toList ++ ' ' :: X) = (n.toList, ' ' :: X) :=
    spanP_append _ _ hu.2.1 (Or.inr ⟨' ', X, rfl, by decide⟩)
  simp only [renderRefLt_named, List.cons_append, List.append_assoc, List.nil_append]
  unfold parseRefLt
  simp only [hs]
  rw [if_neg (by rw [hx0]; simp), ltOfName_ident hl]

theorem parseRefLt_render (l : Lt) (X : List Char) (hl : wfLt l = true) (hX : ∀ r, X ≠ '\'' :: r) :
    parseRefLt (renderRefLt false l ++ X) = some (l, X) := by
  cases l with
  | static => exact parseRefLt_static X
  | inferred => exact parseRefLt_inferred X
  | elided => exact parseRefLt_elided X hX
  | named n => exact parseRefLt_named n X (by simpa [wfLt] using hl)

theorem parseArg_ty {f : Nat} {t : Ty} {X : List Char} (hh : HeadOk (renderD false t ++ X))
    (hp : parseTy f (renderD false t ++ X) = some (strip t, X)) :
    parseArg (f + 1) (renderD false t ++ X) = some (.ty (strip t), X) := by
  obtain ⟨c, r, hs, h1, h2, _⟩ := first_facts hh.first
  have hd : spanP Char.isDigit (renderD false t ++ X) = ([], renderD false t ++ X) := by
    rw [hs]; simp [spanP, h2]
  unfold parseArg
  split
  · rename_i r' heq; rw [hs] at heq; injection heq with e _; exact absurd e h1
  · simp only [hd, ne_eq, not_true_eq_false, if_false]
    rw [if_neg (by
      intro h
      rcases h with h | h
      · exact hh.notTrue h
      · exact hh.notFalse h)]
    rw [hp]

theorem parseArg_lt {f : Nat} (l : GLt) (X : List Char) (hl : wfGLt l = true)
    (hX : X = [] ∨ ∃ c r, X = c :: r ∧ isIdChar c = false) :
    parseArg (f + 1) (renderGLt false l ++ X) = some (.lt l, X) := by
  cases l with
  | static =>
    have hs : spanP isIdChar ("static".toList ++ X) = ("static".toList, X) := spanP_append _ _ (by decide) hX
    simp only [renderGLt]
    show parseArg (f + 1) ('\'' :: ("static".toList ++ X)) = _
    unfold parseArg
    simp only [hs]
    rfl
  | inferred =>
    have hs : spanP isIdChar ("_".toList ++ X) = ("_".toList, X) := spanP_append _ _ (by decide) hX
    simp only [renderGLt]
    show parseArg (f + 1) ('\'' :: ("_".toList ++ X)) = _
    unfold parseArg
    simp only [hs]
    rfl
  | named n =>
    simp only [wfGLt] at hl
    have hu := isIdent_unpack hl
    obtain ⟨c0, r0, hx0, _⟩ := hu.1
    have hs : spanP isIdChar (n.toList ++ X) = (n.toList, X) := spanP_append _ _ hu.2.1 hX
    simp only [renderGLt, Bool.false_eq_true, if_false, List.cons_append]
    unfold parseArg
    simp only [hs]
    rw [if_neg (by rw [hx0]; simp), gltOfName_ident hl]

theorem parseArg_const {f : Nat} (v : String) (X : List Char) (hv : wfConst v = true)
    (hX : X = [] ∨ ∃ c r, X = c :: r ∧ isIdChar c = false ∧ c.isDigit = false) :
    parseArg (f + 1) (v.toList ++ X) = some (.const v, X) := by
  have hXd : X = [] ∨ ∃ c r, X = c :: r ∧ c.isDigit = false := by
    rcases hX with h | ⟨c, r, h, _, h2⟩
    · exact Or.inl h
    · exact Or.inr ⟨c, r, h, h2⟩
  have hXi : X = [] ∨ ∃ c r, X = c :: r ∧ isIdChar c = false := by
    rcases hX with h | ⟨c, r, h, h1, _⟩
    · exact Or.inl h
    · exact Or.inr ⟨c, r, h, h1⟩
  simp only [wfConst, Bool.or_eq_true, beq_iff_eq, Bool.and_eq_true, bne_iff_ne, ne_eq, List.all_eq_true] at hv
  rcases hv with (hv | hv) | hv
  · subst hv
    have hs : spanP isIdChar ("true".toList ++ X) = ("true".toList, X) := spanP_append _ _ (by decide) hXi
    have hd : spanP Char.isDigit ("true".toList ++ X) = ([], "true".toList ++ X) := by simp [spanP]
    unfold parseArg
    split
    · rename_i heq; simp at heq
    · simp only [hd, ne_eq, not_true_eq_false, if_false, hs, true_or, if_true]
      rw [String.ofList_toList]
  · subst hv
    have hs : spanP isIdChar ("false".toList ++ X) = ("false".toList, X) := spanP_append _ _ (by decide) hXi
    have hd : spanP Char.isDigit ("false".toList ++ X) = ([], "false".toList ++ X) := by simp [spanP]
    unfold parseArg
    split
    · rename_i heq; simp at heq
    · simp only [hd, ne_eq, not_true_eq_false, if_false, hs, or_true, if_true]
      rw [String.ofList_toList]
  · have hd : spanP Char.isDigit (v.toList ++ X) = (v.toList, X) := spanP_append _ _ hv.2 hXd
    cases hvl : v.toList with
    | nil => exact absurd hvl hv.1
    | cons c0 r0 =>
      have hc0 : c0.isDigit = true := hv.2 c0 (by rw [hvl]; simp)
      rw [hvl] at hd
      unfold parseArg
      split
      · rename_i heq; simp at heq; rw [heq.1] at hc0; exact absurd hc0 (by decide)
      · simp only [hd, ne_eq, reduceCtorEq, not_false_eq_true, if_true]
        rw [← hvl, String.ofList_toList]

theorem parseIn_named {f : Nat} {x : String} {t : Ty} {X : List Char} (hx : isIdent x = true)
    (hp : parseTy f (renderD false t ++ X) = some (strip t, X)) :
    parseIn (f + 1) (x.toList ++ (':' :: ' ' :: (renderD false t ++ X))) = some ((some x, strip t), X) := by
  have hu := isIdent_unpack hx
  obtain ⟨c0, r0, hx0, _⟩ := hu.1
  have hs : spanP isIdChar (x.toList ++ (':' :: ' ' :: (renderD false t ++ X))) =
      (x.toList, ':' :: ' ' :: (renderD false t ++ X)) :=
    spanP_append _ _ hu.2.1 (Or.inr ⟨':', _, rfl, by decide⟩)
  have hd : dropPrefix? ": ".toList (':' :: ' ' :: (renderD false t ++ X)) = some (renderD false t ++ X) := by
    simp [dropPrefix?]
  unfold parseIn
  simp only [hs, hd]
  rw [if_neg (by rw [hx0]; simp), hp, String.ofList_toList]

theorem parseIn_unnamed {f : Nat} {t : Ty} {X : List Char} (hh : HeadOk (renderD false t ++ X))
    (hp : parseTy f (renderD false t ++ X) = some (strip t, X)) :
    parseIn (f + 1) (renderD false t ++ X) = some ((none, strip t), X) := by
  unfold parseIn
  simp only [hh.notName, hp]


/-! #### the prefix of a function pointer -/

theorem dropPrefix?_append : ∀ (p X : List Char), dropPrefix? p (p ++ X) = some X
  | [], X => by cases X <;> rfl
  | a :: p, X => by simp [dropPrefix?, dropPrefix?_append p X]

theorem kwUnsafe_cons : kwUnsafe = 'u' :: ['n', 's', 'a', 'f', 'e', ' '] := by decide
theorem externq_cons : "extern \"".toList = 'e' :: ['x', 't', 'e', 'r', 'n', ' ', '"'] := by decide
theorem fnp_cons : "fn(".toList = 'f' :: ['n', '('] := by decide
theorem qsp_cons : "\" ".toList = ['"', ' '] := by decide

theorem str?_none {abi : Abi} (h : abi.str? = none) : abi = .rust := by
  cases abi <;> simp [Abi.str?] at h
  rfl

/-- The `extern "…" ` part of `write_fn_pointer_prefix`. -/
def externPart (abi : Abi) : List Char :=
  match abi.str? with
  | some s => "extern \"".toList ++ s.toList ++ "\" ".toList
  | none => []

theorem fnPrefix_eq (abi : Abi) (u : Bool) : fnPrefix abi u = (if u then kwUnsafe else []) ++ externPart abi := rfl

theorem parseAbiFn_render (abi : Abi) (Z : List Char) (hw : wfAbi abi = true) :
    parseAbiFn (externPart abi ++ ("fn(".toList ++ Z)) = some (abi, Z) := by
  unfold parseAbiFn externPart
  cases ha : abi.str? with
  | none =>
    have := str?_none ha
    subst this
    have d : dropPrefix? "extern \"".toList ("fn(".toList ++ Z) = none := by
      rw [externq_cons, fnp_cons]; simp [dropPrefix?]
    simp only [List.nil_append, d, dropPrefix?_append]
  | some a =>
    obtain ⟨hq, hab⟩ := abi_roundtrip hw ha
    have d : dropPrefix? "extern \"".toList
        ("extern \"".toList ++ a.toList ++ "\" ".toList ++ ("fn(".toList ++ Z)) =
        some (a.toList ++ ("\" ".toList ++ ("fn(".toList ++ Z))) := by
      rw [List.append_assoc, List.append_assoc]
      exact dropPrefix?_append _ _
    have hs : spanP (fun c => c != '"') (a.toList ++ ("\" ".toList ++ ("fn(".toList ++ Z))) =
        (a.toList, "\" ".toList ++ ("fn(".toList ++ Z)) := by
      apply spanP_append _ _ hq
      right
      rw [qsp_cons]
      exact ⟨'"', _, rfl, by decide⟩
    simp only [d, hs, dropPrefix?_append, hab]

theorem parseFnPrefix_render (abi : Abi) (u : Bool) (Z : List Char) (hw : wfAbi abi = true) :
    parseFnPrefix (fnPrefix abi u ++ ("fn(".toList ++ Z)) = some ((u, abi), Z) := by
  have key := parseAbiFn_render abi Z hw
  unfold parseFnPrefix
  rw [fnPrefix_eq]
  cases u with
  | true =>
    simp only [if_true, List.append_assoc, dropPrefix?_append, key]
  | false =>
    have d : dropPrefix? kwUnsafe (externPart abi ++ ("fn(".toList ++ Z)) = none := by
      unfold externPart
      cases abi.str? with
      | none => rw [kwUnsafe_cons, fnp_cons]; simp [dropPrefix?]
      | some a => rw [kwUnsafe_cons, externq_cons]; simp [dropPrefix?]
    simp only [Bool.false_eq_true, if_false, List.nil_append, d, key]

theorem startsWithRParen_cons (q : List Char) : startsWithRParen (')' :: q) = true := rfl

theorem startsWithRParen_ne {c : Char} (q : List Char) (h : c ≠ ')') : startsWithRParen (c :: q) = false := by
  unfold startsWithRParen
  split
  · rename_i heq; injection heq with e _; exact absurd e h
  · rfl

end Pxv.Ty
