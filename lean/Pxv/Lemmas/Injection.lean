import Pxv.Lemmas.Transient
/-! What the modelled pipeline delivers vs what the scopes designate (helpers for `Thm/C04.lean`). -/
namespace Pxv.Life
open Pxv.Scope

/-- the `j`-th input of the component at position `ci`, when the pipeline delivers a value built by a
    constructor at all, was built by the constructor the component's own scope designates for that type -/
def faithfulAt (env : Env) (p : Plan) (ci : Nat) (cp : CompPlan) : Bool :=
  (cp.comp.ins.zip cp.args).all (fun x =>
    match p.ctorAt (p.origin ci x.2) with
    | some c => decide (env.get cp.comp.scope x.1.1 = some c)
    | none => true)

/-- every input of every handler and middleware of the pipeline is built by the designated constructor -/
def faithful (env : Env) (p : Plan) : Bool :=
  p.comps.zipIdx.all (fun x => faithfulAt env p x.2 x.1)

/-- the full-strength statement: whatever the scopes of the components designate -/
def injection_statement : Prop :=
  ∀ (env : Env) (tyOf : Nat → Option Nat) (chain : List Comp) (h : Comp),
    (plan env tyOf chain h).invariantsOk = true → faithful env (plan env tyOf chain h) = true

def wC0 : CDef := { uid := 0, ty := 0, life := .request }
def wC0b : CDef := { uid := 100, ty := 0, life := .request }
/-- root: `c0`, wrap `m0` (scope 1); nested blueprint: `c0b` overrides T0, post `m1(&T0)` (scope 4),
    route `h0(&T0)` (scope 5) -/
def wEnv : Env := { get := fun s t => if t = 0 then (if s = 1 then some wC0 else some wC0b) else none, fuel := 3 }
def wChain : List Comp := [⟨.noop, 0, 5, []⟩, ⟨.wrap, 0, 1, []⟩, ⟨.post, 1, 4, [(0, .ref)]⟩]
def wH : Comp := ⟨.handler, 0, 5, [(0, .ref)]⟩


/-! ### uniform pipelines: what is delivered is what is designated -/

/-- the answer `s` the traversal gave for an input of type `ty` is right: a node of the constructor
    `lk` designates for `ty`, or the parameter of that very type -/
def Ans (lk : Nat → Option CDef) (cl : Closure) (ty : Nat) (s : Src) : Prop :=
  match s with
  | .built i => ∃ n, cl.nodes[i]? = some n ∧ lk ty = some n.ctor
  | .param t => t = ty

theorem ans_mono {lk : Nat → Option CDef} {cl cl' : Closure} (h : ∃ new, cl'.nodes = cl.nodes ++ new)
    {ty : Nat} {s : Src} (ha : Ans lk cl ty s) : Ans lk cl' ty s := by
  obtain ⟨new, hn⟩ := h
  cases s with
  | param t => exact ha
  | built i =>
    obtain ⟨n, hn1, hn2⟩ := ha
    refine ⟨n, ?_, hn2⟩
    rw [hn]
    have : i < cl.nodes.length := by
      rcases Nat.lt_or_ge i cl.nodes.length with h | h
      · exact h
      · rw [List.getElem?_eq_none h] at hn1; cases hn1
    rw [List.getElem?_append_left this]; exact hn1

theorem found_is {lk : Nat → Option CDef} (hu : UidInj lk) {cl : Closure} (hg : Good lk cl)
    {c : CDef} {t i : Nat} (hc : lk t = some c)
    (hf : cl.nodes.findIdx? (fun n => n.ctor.uid == c.uid) = some i) : Ans lk cl t (.built i) := by
  rw [List.findIdx?_eq_some_iff_getElem] at hf
  obtain ⟨hi, hp, _⟩ := hf
  refine ⟨cl.nodes[i], List.getElem?_eq_getElem hi, ?_⟩
  obtain ⟨t', ht'⟩ := hg.ran _ (List.getElem_mem hi)
  have := hu t' t _ _ ht' hc (by simpa using hp)
  rw [this]; exact hc

theorem resolve_ans (lk : Nat → Option CDef) (hu : UidInj lk) (pre : List Nat) (once : Life) :
    ∀ f cl ty m, Good lk cl →
      Ans lk (resolve lk pre once f cl (ty, m)).1 ty (resolve lk pre once f cl (ty, m)).2 := by
  intro f cl ty m h
  cases f with
  | zero => simp only [resolve]; rfl
  | succ f =>
    simp only [resolve]
    cases hl : lk ty with
    | none => rfl
    | some c =>
      simp only
      have hs := foldRes_step lk _ (resolve_step lk hu pre once f) c.ins cl h
      by_cases ht : c.life = .transient
      · simp only [ht, beq_self_eq_true, if_true]
        exact ⟨⟨c, (foldRes (resolve lk pre once f) cl c.ins).2⟩, by simp [Closure.push], hl⟩
      · have ht' : (c.life == Life.transient) = false := by simpa using ht
        simp only [ht', Bool.false_eq_true, if_false]
        by_cases hp : (c.life != once || pre.contains c.uid) = true
        · simp only [hp, if_true]; rfl
        · simp only [hp, Bool.false_eq_true, if_false]
          cases hf : cl.nodes.findIdx? (fun n => n.ctor.uid == c.uid) with
          | some i0 => exact found_is hu h hl hf
          | none =>
            simp only
            unfold Closure.pushOnce
            cases hf2 : (foldRes (resolve lk pre once f) cl c.ins).1.nodes.findIdx? (fun n => n.ctor.uid == c.uid) with
            | some i1 => exact found_is hu (step_good hs) hl hf2
            | none => exact ⟨⟨c, (foldRes (resolve lk pre once f) cl c.ins).2⟩, by simp [Closure.push], hl⟩

theorem foldRes_length (r : Closure → Nat × Mode → Closure × Src) :
    ∀ l cl, (foldRes r cl l).2.length = l.length := by
  intro l
  induction l with
  | nil => intro cl; rfl
  | cons i rest ih => intro cl; simp only [foldRes, List.length_cons, ih]

/-- every input of a closure got a right answer -/
theorem foldRes_ans (lk : Nat → Option CDef) (hu : UidInj lk) (pre : List Nat) (once : Life) (f : Nat) :
    ∀ (l : List (Nat × Mode)) cl, Good lk cl → ∀ (j : Nat) (inp : Nat × Mode) (s : Src), l[j]? = some inp →
      (foldRes (resolve lk pre once f) cl l).2[j]? = some s →
      Ans lk (foldRes (resolve lk pre once f) cl l).1 inp.1 s := by
  intro l
  induction l with
  | nil => intro cl _ j inp s hj; simp at hj
  | cons i rest ih =>
    intro cl hg j inp s hj hs
    simp only [foldRes] at hs ⊢
    have h1 := resolve_step lk hu pre once f cl i hg
    have hg1 := step_good h1
    have h2 := foldRes_step lk _ (resolve_step lk hu pre once f) rest _ hg1
    cases j with
    | zero =>
      simp only [List.getElem?_cons_zero, Option.some.injEq] at hj hs
      subst hj; subst hs
      obtain ⟨ty, m⟩ := i
      exact ans_mono h2.ext (resolve_ans lk hu pre once f cl ty m hg)
    | succ j =>
      simp only [List.getElem?_cons_succ] at hj hs
      exact ih _ hg1 j inp s hj hs


/-- what `stepComp` records for component `c` of stage `k` -/
def mkPlan (env : Env) (ba : List (Nat × Nat)) (k : Nat) (next : Option (List (Nat × Mode))) (c : Comp) : CompPlan :=
  let pre := (ba.filter (fun b => b.2 < k)).map (·.1)
  let extra := if c.isWrapping then next.getD [] else []
  let r := closureOf (env.get c.scope) pre .request env.fuel (c.ins ++ extra)
  ⟨k, c, r.1, r.2.take c.ins.length, zipFields extra (r.2.drop c.ins.length)⟩

theorem stepComp_plans_eq (env : Env) (ba : List (Nat × Nat)) (k : Nat) (acc : Acc) (c : Comp) :
    (stepComp env ba k acc c).plans = mkPlan env ba k acc.next c :: acc.plans := rfl

/-- a property of all recorded components that every newly recorded one has -/
theorem plans_all (env : Env) (tyOf : Nat → Option Nat) (Q : CompPlan → Prop) (chain : List Comp) (h : Comp)
    (hQ : ∀ k next c, c ∈ (group chain [] [] h).flatMap StageC.order →
      Q (mkPlan env (builtAt (usersFrom env 0 (group chain [] [] h))) k next c)) :
    ∀ cp ∈ (plan env tyOf chain h).comps, Q cp := by
  unfold plan
  simp only
  generalize hba : builtAt (usersFrom env 0 (group chain [] [] h)) = ba at hQ ⊢
  -- the stages that are walked are stages of the pipeline
  have hmem : ∀ ks ∈ (indexFrom 0 (group chain [] [] h)).reverse, ks.2 ∈ group chain [] [] h := by
    intro ks hks
    rw [List.mem_reverse] at hks
    have : ∀ (l : List StageC) n, ∀ ks ∈ indexFrom n l, ks.2 ∈ l := by
      intro l
      induction l with
      | nil => intro n ks h; simp [indexFrom] at h
      | cons s rest ih =>
        intro n ks h
        simp only [indexFrom, List.mem_cons] at h
        rcases h with rfl | h
        · simp
        · exact List.mem_cons_of_mem _ (ih _ ks h)
    exact this _ 0 ks hks
  generalize (indexFrom 0 (group chain [] [] h)).reverse = l at hmem
  have key : ∀ (l : List (Nat × StageC)) (acc : Acc), (∀ ks ∈ l, ks.2 ∈ group chain [] [] h) →
      (∀ cp ∈ acc.plans, Q cp) → ∀ cp ∈ (stepStages env ba tyOf l acc).plans, Q cp := by
    intro l
    induction l with
    | nil => intro acc _ h; exact h
    | cons ks rest ih =>
      intro acc hl hacc
      obtain ⟨k, s⟩ := ks
      simp only [stepStages]
      apply ih _ (fun x hx => hl x (List.mem_cons_of_mem _ hx))
      -- one stage
      have hs : s ∈ group chain [] [] h := hl (k, s) (by simp)
      have hfold : ∀ (cs : List Comp) (acc : Acc), (∀ c ∈ cs, c ∈ s.order) → (∀ cp ∈ acc.plans, Q cp) →
          ∀ cp ∈ (cs.foldl (stepComp env ba k) acc).plans, Q cp := by
        intro cs
        induction cs with
        | nil => intro acc _ h; exact h
        | cons c cs ih2 =>
          intro acc hcs hacc
          simp only [List.foldl_cons]
          apply ih2 _ (fun x hx => hcs x (List.mem_cons_of_mem _ hx))
          intro cp hcp
          rw [stepComp_plans_eq] at hcp
          simp only [List.mem_cons] at hcp
          rcases hcp with rfl | hcp
          · exact hQ k acc.next c (List.mem_flatMap.mpr ⟨s, hs, hcs c (by simp)⟩)
          · exact hacc cp hcp
      have := hfold s.order.reverse acc (fun c hc => by simpa using hc) hacc
      unfold stepStage
      split
      · exact this
      · exact this
  exact key l {} hmem (by simp)

/-- members of the stages are members of the chain, or the handler -/
theorem group_mem : ∀ (ms pres posts : List Comp) (h : Comp), ∀ s ∈ group ms pres posts h, ∀ c ∈ s.order,
    c ∈ ms ∨ c ∈ pres ∨ c ∈ posts ∨ c = h := by
  intro ms
  induction ms with
  | nil =>
    intro pres posts h s hs c hc
    simp only [group, List.mem_singleton] at hs
    subst hs
    simp only [StageC.order, List.mem_append, List.mem_singleton] at hc
    rcases hc with (hc | hc) | hc
    · exact Or.inr (Or.inl hc)
    · exact Or.inr (Or.inr (Or.inr hc))
    · exact Or.inr (Or.inr (Or.inl hc))
  | cons m ms ih =>
    intro pres posts h s hs c hc
    simp only [group] at hs
    cases hk : m.kind with
    | pre =>
      rw [hk] at hs
      rcases ih _ _ h s hs c hc with h1 | h1 | h1 | h1
      · exact Or.inl (List.mem_cons_of_mem _ h1)
      · simp only [List.mem_append, List.mem_singleton] at h1
        rcases h1 with h1 | rfl
        · exact Or.inr (Or.inl h1)
        · exact Or.inl (by simp)
      · exact Or.inr (Or.inr (Or.inl h1))
      · exact Or.inr (Or.inr (Or.inr h1))
    | post =>
      rw [hk] at hs
      rcases ih _ _ h s hs c hc with h1 | h1 | h1 | h1
      · exact Or.inl (List.mem_cons_of_mem _ h1)
      · exact Or.inr (Or.inl h1)
      · simp only [List.mem_append, List.mem_singleton] at h1
        rcases h1 with h1 | rfl
        · exact Or.inr (Or.inr (Or.inl h1))
        · exact Or.inl (by simp)
      · exact Or.inr (Or.inr (Or.inr h1))
    | noop | wrap | handler =>
      rw [hk] at hs
      simp only [List.mem_cons] at hs
      rcases hs with rfl | hs
      · simp only [StageC.order, List.mem_append, List.mem_singleton] at hc
        rcases hc with (hc | rfl) | hc
        · exact Or.inr (Or.inl hc)
        · exact Or.inl (by simp)
        · exact Or.inr (Or.inr (Or.inl hc))
      · rcases ih _ _ h s hs c hc with h1 | h1 | h1 | h1
        · exact Or.inl (List.mem_cons_of_mem _ h1)
        · simp at h1
        · simp at h1
        · exact Or.inr (Or.inr (Or.inr h1))


/-- all components of the pipeline resolve types the same way: no blueprint between them overrides a
    constructor that another one of them sees -/
def Uniform (env : Env) (lk : Nat → Option CDef) (chain : List Comp) (h : Comp) : Prop :=
  ∀ c, c ∈ chain ∨ c = h → env.get c.scope = lk

theorem zipFields_mem : ∀ (fs : List (Nat × Mode)) (ss : List Src) (t : Nat) (s : Src),
    (t, s) ∈ zipFields fs ss → ∃ (j : Nat) (m : Mode), fs[j]? = some (t, m) ∧ ss[j]? = some s := by
  intro fs
  induction fs with
  | nil => intro ss t s h; simp [zipFields] at h
  | cons f fs ih =>
    intro ss t s h
    obtain ⟨t0, m0⟩ := f
    cases ss with
    | nil => simp [zipFields] at h
    | cons s0 ss =>
      simp only [zipFields, List.mem_cons, Prod.mk.injEq] at h
      rcases h with ⟨rfl, rfl⟩ | h
      · exact ⟨0, m0, by simp, by simp⟩
      · obtain ⟨j, m, h1, h2⟩ := ih ss t s h
        exact ⟨j + 1, m, by simpa using h1, by simpa using h2⟩

/-- what a recorded component knows about its sources, in a scope that resolves like `lk` -/
structure PlanOk (lk : Nat → Option CDef) (cp : CompPlan) : Prop where
  args : ∀ (j : Nat) (inp : Nat × Mode) (s : Src), cp.comp.ins[j]? = some inp → cp.args[j]? = some s → Ans lk cp.cl inp.1 s
  next : ∀ t s, (t, s) ∈ cp.nextArgs → Ans lk cp.cl t s

theorem mkPlan_ok (env : Env) (ba : List (Nat × Nat)) (k : Nat) (next : Option (List (Nat × Mode))) (c : Comp)
    (lk : Nat → Option CDef) (hu : UidInj lk) (hlk : env.get c.scope = lk) : PlanOk lk (mkPlan env ba k next c) := by
  unfold mkPlan
  simp only
  rw [hlk]
  generalize hpre : (ba.filter (fun b => b.2 < k)).map (·.1) = pre
  generalize hex : (if c.isWrapping then next.getD [] else []) = extra
  have hans := foldRes_ans lk hu pre .request env.fuel (c.ins ++ extra) {} ⟨by simp, by simp [Closure.inner]⟩
  constructor
  · intro j inp s hj hs
    simp only [List.getElem?_take] at hs
    split at hs
    · rename_i hlt
      apply hans j inp s _ hs
      rw [List.getElem?_append_left hlt]; exact hj
    · cases hs
  · intro t s hts
    obtain ⟨j, m, h1, h2⟩ := zipFields_mem _ _ t s hts
    simp only [List.getElem?_drop] at h2
    apply hans (c.ins.length + j) (t, m) s _ h2
    rw [List.getElem?_append_right (by omega)]
    simpa using h1

theorem plan_ok (env : Env) (tyOf : Nat → Option Nat) (chain : List Comp) (h : Comp)
    (lk : Nat → Option CDef) (hu : UidInj lk) (hun : Uniform env lk chain h) :
    ∀ cp ∈ (plan env tyOf chain h).comps, PlanOk lk cp ∧ env.get cp.comp.scope = lk := by
  apply plans_all env tyOf (fun cp => PlanOk lk cp ∧ env.get cp.comp.scope = lk) chain h
  intro k next c hc
  obtain ⟨s, hs, hcs⟩ := List.mem_flatMap.mp hc
  have hmem : c ∈ chain ∨ c = h := by
    rcases group_mem chain [] [] h s hs c hcs with h1 | h1 | h1 | h1
    · exact Or.inl h1
    · simp at h1
    · simp at h1
    · exact Or.inr h1
  exact ⟨mkPlan_ok env _ k next c lk hu (hun c hmem), hun c hmem⟩

/-- a value that travelled through `Next` states was built by the constructor designated for its type -/
theorem originOfParam_ok (p : Plan) (lk : Nat → Option CDef) (hok : ∀ cp ∈ p.comps, PlanOk lk cp) :
    ∀ k ty w i, p.originOfParam k ty = .node w i →
      ∃ wp n, p.comps[w]? = some wp ∧ wp.cl.nodes[i]? = some n ∧ lk ty = some n.ctor := by
  intro k
  induction k with
  | zero => intro ty w i h; simp [Plan.originOfParam] at h
  | succ k ih =>
    intro ty w i h
    simp only [Plan.originOfParam] at h
    split at h
    · cases h
    · rename_i w0 hw0
      split at h
      · cases h
      · rename_i wp hwp
        split at h
        · cases h
        · rename_i t0 i0 hfind
          cases h
          have hmem := List.mem_of_find?_eq_some hfind
          have ht : t0 = ty := by simpa using List.find?_some hfind
          subst ht
          obtain ⟨n, hn1, hn2⟩ := (hok wp (List.mem_of_getElem? hwp)).next _ _ hmem
          exact ⟨wp, n, hwp, hn1, hn2⟩
        · rename_i t0 t1 hfind
          have hmem := List.mem_of_find?_eq_some hfind
          have ht : t0 = ty := by simpa using List.find?_some hfind
          subst ht
          have := (hok wp (List.mem_of_getElem? hwp)).next _ _ hmem
          simp only [Ans] at this
          subst this
          exact ih _ w i h


end Pxv.Life
