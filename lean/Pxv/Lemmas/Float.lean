import Pxv.Model.Float
/-! The rounding core of the float model: `roundHalfEven n d` is a nearest integer to `n / d`, ties to even. -/
namespace Pxv.ReqData

/-- `q = roundHalfEven n d` is within half a unit of `n / d` (stated without division: `2·|q·d − n| ≤ d`) -/
theorem roundHalfEven_near (n d : Nat) (hd : 0 < d) :
    2 * (roundHalfEven n d * d) ≤ 2 * n + d ∧ 2 * n ≤ 2 * (roundHalfEven n d * d) + d := by
  have hdm := Nat.div_add_mod n d
  have hlt := Nat.mod_lt n hd
  have hmul : d * (n / d) = n / d * d := Nat.mul_comm ..
  unfold roundHalfEven
  simp only []
  split
  · omega
  · split
    · rw [Nat.add_mul]; omega
    · split
      · omega
      · rw [Nat.add_mul]; omega

/-- on an exact tie the even neighbour is chosen -/
theorem roundHalfEven_tie_even (n d : Nat) (hd : 0 < d) (htie : 2 * (n % d) = d) : roundHalfEven n d % 2 = 0 := by
  unfold roundHalfEven
  simp only []
  have h1 : ¬ (2 * (n % d) < d) := by omega
  have h2 : ¬ (d < 2 * (n % d)) := by omega
  simp only [h1, h2, if_false]
  split
  · assumption
  · omega

/-- no other integer is strictly closer: for every `k`, `|q·d − n| ≤ |k·d − n|` (in the doubled, division-free form) -/
theorem roundHalfEven_nearest (n d k : Nat) (hd : 0 < d) :
    (roundHalfEven n d * d ≤ n → k * d ≤ n → n - roundHalfEven n d * d ≤ n - k * d) ∧
    (roundHalfEven n d * d ≤ n → n ≤ k * d → n - roundHalfEven n d * d ≤ k * d - n) ∧
    (n ≤ roundHalfEven n d * d → k * d ≤ n → roundHalfEven n d * d - n ≤ n - k * d) ∧
    (n ≤ roundHalfEven n d * d → n ≤ k * d → roundHalfEven n d * d - n ≤ k * d - n) := by
  obtain ⟨h1, h2⟩ := roundHalfEven_near n d hd
  generalize roundHalfEven n d = q at h1 h2
  -- either k = q, or k·d differs from q·d by at least d
  have hk : k = q ∨ (k + 1 ≤ q) ∨ (q + 1 ≤ k) := by omega
  rcases hk with rfl | hk | hk
  · omega
  · have : (k + 1) * d ≤ q * d := Nat.mul_le_mul_right d hk
    rw [Nat.add_mul] at this
    omega
  · have : (q + 1) * d ≤ k * d := Nat.mul_le_mul_right d hk
    rw [Nat.add_mul] at this
    omega

/-- an exactly representable quotient is returned unchanged -/
theorem roundHalfEven_exact (q d : Nat) (hd : 0 < d) : roundHalfEven (q * d) d = q := by
  unfold roundHalfEven
  simp [Nat.mul_div_cancel _ hd, hd]

end Pxv.ReqData
