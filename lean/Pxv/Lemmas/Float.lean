import Pxv.Model.Float
/-! The rounding core of the float model: `roundHalfEven n d` is a nearest integer to `n / d`, ties to even. -/
namespace Pxv.ReqData

/-- `q = roundHalfEven n d` is within half a unit of `n / d` (stated without division: `2·|q·d − n| ≤ d`) -/
theorem roundHalfEven_near (n d : Nat) (hd : 0 < d) :
    2 * (roundHalfEven n d * d) ≤ 2 * n + d ∧ 2 * n ≤ 2 * (roundHalfEven n d * d) + d := by
  have hdm := Nat.div_add_mod n d
  have hlt := Nat.mod_lt n hd
  have hmul : d * (n / d) = n / d * d := Nat.mul_comm ..
  unfold roundHalfEven
  simp only []
  split
  · omega
  · split
    · rw [Nat.add_mul]; omega
    · split
      · omega
      · rw [Nat.add_mul]; omega

/-- on an exact tie the even neighbour is chosen -/
theorem roundHalfEven_tie_even (n d : Nat) (hd : 0 < d) (htie : 2 * (n % d) = d) : roundHalfEven n d % 2 = 0 := by
  unfold roundHalfEven
  simp only []
  have h1 : ¬ (2 * (n % d) < d) := by omega
  have h2 : ¬ (d < 2 * (n % d)) := by omega
  simp only [h1, h2, if_false]
  split
  · assumption
  · omega

/-- no other integer is strictly closer: for every `k`, `|q·d − n| ≤ |k·d − n|` (in the doubled, division-free form) -/
theorem roundHalfEven_nearest (n d k : Nat) (hd : 0 < d) :
    (roundHalfEven n d * d ≤ n → k * d ≤ n → n - roundHalfEven n d * d ≤ n - k * d) ∧
    (roundHalfEven n d * d ≤ n → n ≤ k * d → n - roundHalfEven n d * d ≤ k * d - n) ∧
    (n ≤ roundHalfEven n d * d → k * d ≤ n → roundHalfEven n d * d - n ≤ n - k * d) ∧
    (n ≤ roundHalfEven n d * d → n ≤ k * d → roundHalfEven n d * d - n ≤ k * d - n) := by
  obtain ⟨h1, h2⟩ := roundHalfEven_near n d hd
  generalize roundHalfEven n d = q at h1 h2
  -- either k = q, or k·d differs from q·d by at least d
  have hk : k = q ∨ (k + 1 ≤ q) ∨ (q + 1 ≤ k) := by omega
  rcases hk with rfl | hk | hk
  · omega
  · have : (k + 1) * d ≤ q * d := Nat.mul_le_mul_right d hk
    rw [Nat.add_mul] at this
    omega
  · have : (q + 1) * d ≤ k * d := Nat.mul_le_mul_right d hk
    rw [Nat.add_mul] at this
    omega

/-- an exactly representable quotient is returned unchanged -/
theorem roundHalfEven_exact (q d : Nat) (hd : 0 < d) : roundHalfEven (q * d) d = q := by
  unfold roundHalfEven
  simp [Nat.mul_div_cancel _ hd, hd]

end Pxv.ReqData

namespace Pxv.ReqData

theorem pow2_mul (a b : Nat) : 2 ^ a * 2 ^ b = 2 ^ (a + b) := (Nat.pow_add 2 a b).symm

/-- `floorLog2` finds the binade of the exact value: `2^e ≤ num/den < 2^(e+1)` for `num, den > 0` -/
theorem floorLog2_spec (num den : Nat) (hn : 0 < num) (hd : 0 < den) :
    geePow2 num den (floorLog2 num den) = true ∧ geePow2 num den (floorLog2 num den + 1) = false := by
  have hA1 : 2 ^ num.log2 ≤ num := Nat.log2_self_le (by omega)
  have hA2 : num < 2 ^ (num.log2 + 1) := Nat.lt_log2_self
  have hB1 : 2 ^ den.log2 ≤ den := Nat.log2_self_le (by omega)
  have hB2 : den < 2 ^ (den.log2 + 1) := Nat.lt_log2_self
  unfold floorLog2
  simp only []
  generalize num.log2 = a at hA1 hA2 ⊢
  generalize den.log2 = b at hB1 hB2 ⊢
  by_cases hab : b ≤ a
  · -- l = a - b ≥ 0
    obtain ⟨k, rfl⟩ : ∃ k, a = b + k := ⟨a - b, by omega⟩
    have hl : ((b + k : Nat) : Int) - (b : Int) = (k : Int) := by omega
    simp only [hl]
    by_cases hg : geePow2 num den (k : Int) = true
    · simp only [hg, if_true, true_and]
      -- den * 2^(k+1) > num
      have : (k : Int) + 1 = ((k + 1 : Nat) : Int) := by omega
      rw [this]
      unfold geePow2
      simp only [Int.natCast_nonneg, if_true, Int.toNat_natCast, decide_eq_false_iff_not, Nat.not_le]
      calc num < 2 ^ (b + k + 1) := hA2
        _ = 2 ^ b * 2 ^ (k + 1) := by rw [pow2_mul]; congr 1
        _ ≤ den * 2 ^ (k + 1) := Nat.mul_le_mul_right _ hB1
    · have hgf : geePow2 num den (k : Int) = false := by simpa using hg
      simp only [hgf, Bool.false_eq_true, if_false]
      refine ⟨?_, by rw [show (k : Int) - 1 + 1 = (k : Int) by omega]; exact hgf⟩
      cases k with
      | zero =>
        -- l - 1 = -1: den ≤ num * 2
        rw [show ((0 : Nat) : Int) - 1 = -1 by omega]
        unfold geePow2
        have hm1 : ¬ ((0 : Int) ≤ -1) := by omega
        simp only [hm1, if_false, Int.neg_neg, Int.toNat_one, Nat.pow_one, decide_eq_true_eq]
        have : den < 2 ^ (b + 1) := hB2
        have h2 : 2 ^ (b + 1) = 2 ^ b * 2 := Nat.pow_succ ..
        simp only [Nat.add_zero] at hA1
        omega
      | succ j =>
        have : ((j + 1 : Nat) : Int) - 1 = ((j : Nat) : Int) := by omega
        rw [this]
        unfold geePow2
        simp only [Int.natCast_nonneg, if_true, Int.toNat_natCast, decide_eq_true_eq]
        have h1 : den * 2 ^ j < 2 ^ (b + 1) * 2 ^ j := Nat.mul_lt_mul_of_pos_right hB2 (Nat.pow_pos (by omega))
        rw [pow2_mul] at h1
        have h2 : b + 1 + j = b + (j + 1) := by omega
        rw [h2] at h1
        omega
  · -- l = -(b - a) < 0
    obtain ⟨j, rfl⟩ : ∃ j, b = a + (j + 1) := ⟨b - a - 1, by omega⟩
    have hl : ((a : Nat) : Int) - ((a + (j + 1) : Nat) : Int) = -((j + 1 : Nat) : Int) := by omega
    simp only [hl]
    have hneg : ¬ (0 ≤ -((j + 1 : Nat) : Int)) := by omega
    by_cases hg : geePow2 num den (-((j + 1 : Nat) : Int)) = true
    · simp only [hg, if_true, true_and]
      cases j with
      | zero =>
        rw [show -((0 + 1 : Nat) : Int) + 1 = (0 : Int) by omega]
        unfold geePow2
        simp only [Int.le_refl, if_true, Int.toNat_zero, Nat.pow_zero, Nat.mul_one, decide_eq_false_iff_not, Nat.not_le]
        have : 2 ^ (a + (0 + 1)) ≤ den := hB1
        simp only [Nat.zero_add] at this
        omega
      | succ i =>
        rw [show -((i + 1 + 1 : Nat) : Int) + 1 = -((i + 1 : Nat) : Int) by omega]
        unfold geePow2
        have hneg2 : ¬ (0 ≤ -((i + 1 : Nat) : Int)) := by omega
        simp only [hneg2, if_false, Int.neg_neg, Int.toNat_natCast, decide_eq_false_iff_not, Nat.not_le]
        have h1 : num * 2 ^ (i + 1) < 2 ^ (a + 1) * 2 ^ (i + 1) := Nat.mul_lt_mul_of_pos_right hA2 (Nat.pow_pos (by omega))
        rw [pow2_mul] at h1
        have h2 : a + 1 + (i + 1) = a + (i + 1 + 1) := by omega
        rw [h2] at h1
        omega
    · have hgf : geePow2 num den (-((j + 1 : Nat) : Int)) = false := by simpa using hg
      simp only [hgf, Bool.false_eq_true, if_false]
      refine ⟨?_, by rw [show -((j + 1 : Nat) : Int) - 1 + 1 = -((j + 1 : Nat) : Int) by omega]; exact hgf⟩
      rw [show -((j + 1 : Nat) : Int) - 1 = -((j + 1 + 1 : Nat) : Int) by omega]
      unfold geePow2
      have hneg2 : ¬ (0 ≤ -((j + 1 + 1 : Nat) : Int)) := by omega
      simp only [hneg2, if_false, Int.neg_neg, Int.toNat_natCast, decide_eq_true_eq]
      have h1 : 2 ^ a * 2 ^ (j + 1 + 1) ≤ num * 2 ^ (j + 1 + 1) := Nat.mul_le_mul_right _ hA1
      rw [pow2_mul] at h1
      have h2 : a + (j + 1 + 1) = a + (j + 1) + 1 := by omega
      rw [h2] at h1
      omega

end Pxv.ReqData

namespace Pxv.ReqData

/-- rounding keeps a value inside any integer interval that contains it: `lo ≤ n/d < hi` gives `lo ≤ round (n/d) ≤ hi` -/
theorem roundHalfEven_range (n d lo hi : Nat) (hd : 0 < d) (h1 : lo * d ≤ n) (h2 : n < hi * d) :
    lo ≤ roundHalfEven n d ∧ roundHalfEven n d ≤ hi := by
  obtain ⟨ha, hb⟩ := roundHalfEven_near n d hd
  generalize roundHalfEven n d = q at ha hb
  constructor
  · -- if q + 1 ≤ lo then (q+1)·d ≤ lo·d ≤ n, but 2n ≤ 2qd + d
    apply Classical.byContradiction
    intro hlt
    have hq : q + 1 ≤ lo := by omega
    have := Nat.mul_le_mul_right d hq
    rw [Nat.add_mul] at this
    omega
  · apply Classical.byContradiction
    intro hgt
    have hq : hi + 1 ≤ q := by omega
    have := Nat.mul_le_mul_right d hq
    rw [Nat.add_mul] at this
    omega

end Pxv.ReqData
