import Pxv.Lemmas.Complex
/-! `complexCheck` reports nothing when every contended value may be cloned (C02's "Clone and clone-if-necessary"). -/
namespace Pxv.CG
open Graph

theorem node_insertClone_copy_old (g : Graph) (b n x : Nat) (hx : x < g.size) :
    ((insertClone g b n).1.node x).copy = (g.node x).copy := by
  simp only [insertClone, Graph.node, Graph.size] at *
  rw [List.getD_eq_getElem?_getD, List.getD_eq_getElem?_getD, List.getElem?_append_left (by simpa using hx)]
  simp [hx]
  split <;> rfl

theorem node_insertClone_ge (g : Graph) (b n x : Nat) (hx : g.size ≤ x) :
    ((insertClone g b n).1.node x).copy = false ∧ ((insertClone g b n).1.node x).cloneable = false := by
  simp only [insertClone, Graph.node, Graph.size] at *
  rw [List.getD_eq_getElem?_getD]
  generalize hm : (List.map _ g.nodes.zipIdx) = m
  have hl : m.length = g.nodes.length := by rw [← hm]; simp
  rw [List.getElem?_append_right (by omega), hl]
  cases h : x - g.nodes.length with
  | zero => simp
  | succ k => simp

end Pxv.CG

namespace Pxv.CG
open Graph

/-- the invariant of `complexCheck` on graphs whose contended values may all be cloned -/
structure CK (s : Cx) : Prop where
  noError : s.ctl.strat ≠ .error
  diags : s.diags = []
  flag : s.ctl.strat = .clone → s.parked ≠ [] → s.ctl.flag = true
  cc : ∀ p, (s.g.node p).copy = true ∨ (s.g.node p).cloneable = true ∨ lookup s.own.consumers p = [] ∨
    lookup s.own.borrowers p = []
  wf : s.g.wellFormed = true
  fresh : ∀ k, s.g.size ≤ k → lookup s.own.consumers k = [] ∧ lookup s.own.borrowers k = []

theorem blocked_cloneable {s : Cx} (h : CK s) {n p : Nat} (hb : s.blocked n p = true) : (s.g.node p).cloneable = true := by
  unfold Cx.blocked Own.isConsumedBy Own.isBorrowed at hb
  simp only [Bool.and_eq_true, Bool.not_eq_true', List.isEmpty_eq_false_iff] at hb
  obtain ⟨⟨hc, hbo⟩, hcopy⟩ := hb
  rcases h.cc p with h1 | h1 | h1 | h1
  · rw [h1] at hcopy; cases hcopy
  · exact h1
  · rw [h1] at hc; simp at hc
  · exact absurd h1 hbo

theorem union_ne_nil_right (a : List Nat) (x : Nat) : union a [x] ≠ [] := by
  intro h
  have : x ∈ union a [x] := mem_union.2 (Or.inr (List.mem_singleton.2 rfl))
  rw [h] at this; cases this

theorem CK_cloneFor {s : Cx} (h : CK s) {n b : Nat} (hp : b ∈ s.g.preds n) (hc : (s.g.node b).cloneable = true)
    (hstrat : s.ctl.strat = .clone) (parked' : List Nat) :
    CK { (s.cloneFor n b) with parked := parked' } := by
  obtain ⟨e, he, hsrc, _⟩ := mem_preds hp
  have hbs : b < s.g.size := hsrc ▸ (wf_endpoints h.wf he).1
  have hg : (s.cloneFor n b).g = (insertClone s.g b n).1 := rfl
  have hsize : (insertClone s.g b n).1.size = s.g.size + 1 := size_insertClone ..
  have hc2 : (insertClone s.g b n).2 = s.g.size := rfl
  refine ⟨?_, h.diags, fun _ _ => rfl, ?_, insertClone_wf h.wf hp, ?_⟩
  · show s.ctl.strat ≠ .error
    rw [hstrat]; intro hh; cases hh
  · intro p
    show ((insertClone s.g b n).1.node p).copy = true ∨ ((insertClone s.g b n).1.node p).cloneable = true ∨
      lookup (((s.own.addConsume n (insertClone s.g b n).2).removeConsumer b n).addBorrow (insertClone s.g b n).2 b).consumers p = [] ∨
      lookup (((s.own.addConsume n (insertClone s.g b n).2).removeConsumer b n).addBorrow (insertClone s.g b n).2 b).borrowers p = []
    rw [hc2]
    by_cases hpb : p = b
    · subst hpb
      right; left
      rw [node_insertClone_old _ _ _ _ hbs]; exact hc
    · by_cases hpc : p = s.g.size
      · subst hpc
        right; right; right
        simp only [Own.addBorrow, Own.removeConsumer, Own.addConsume, lookup_setKey, hpb, if_false]
        exact (h.fresh _ (Nat.le_refl _)).2
      · by_cases hlt : p < s.g.size
        · rcases h.cc p with h1 | h1 | h1 | h1
          · left; rw [node_insertClone_copy_old _ _ _ _ hlt]; exact h1
          · right; left; rw [node_insertClone_old _ _ _ _ hlt]; exact h1
          · right; right; left
            simp only [Own.addBorrow, Own.removeConsumer, Own.addConsume, lookup_setKey, hpb, hpc, if_false]
            exact h1
          · right; right; right
            simp only [Own.addBorrow, Own.removeConsumer, Own.addConsume, lookup_setKey, hpb, if_false]
            exact h1
        · right; right; left
          simp only [Own.addBorrow, Own.removeConsumer, Own.addConsume, lookup_setKey, hpb, hpc, if_false]
          exact (h.fresh p (by omega)).1
  · intro k hk
    have hk' : s.g.size + 1 ≤ k := by rw [← hsize]; exact hk
    have hkb : k ≠ b := by omega
    have hkc : k ≠ s.g.size := by omega
    show lookup (((s.own.addConsume n (insertClone s.g b n).2).removeConsumer b n).addBorrow (insertClone s.g b n).2 b).consumers k = [] ∧
      lookup (((s.own.addConsume n (insertClone s.g b n).2).removeConsumer b n).addBorrow (insertClone s.g b n).2 b).borrowers k = []
    rw [hc2]
    simp only [Own.addBorrow, Own.removeConsumer, Own.addConsume, lookup_setKey, hkb, hkc, if_false]
    exact h.fresh k (by omega)

end Pxv.CG

namespace Pxv.CG
open Graph

theorem CK_toVisit {s : Cx} (h : CK s) (tv : List Nat) : CK { s with toVisit := tv } :=
  ⟨h.noError, h.diags, h.flag, h.cc, h.wf, h.fresh⟩

theorem CK_visit {s : Cx} (h : CK s) (n : Nat) : CK (s.visit n).1 := by
  unfold Cx.visit
  simp only []
  generalize union s.toVisit (List.filter (fun p => !(s.finished.contains p || s.parked.contains p))
    (List.filter (fun p => !s.blocked n p) (dedup (predsAdj s.g n)))) = tv
  split
  · refine ⟨h.noError, h.diags, h.flag, ?_, h.wf, ?_⟩
    · intro p
      rcases h.cc p with h1 | h1 | h1 | h1
      · exact Or.inl h1
      · exact Or.inr (Or.inl h1)
      · exact Or.inr (Or.inr (Or.inl h1))
      · exact Or.inr (Or.inr (Or.inr (fold_filter_nil n p _ _ h1)))
    · intro k hk
      exact ⟨(h.fresh k hk).1, fold_filter_nil n k _ _ (h.fresh k hk).2⟩
  · rename_i hbl
    split
    · rename_i hs
      exact ⟨h.noError, h.diags, fun hc => (by rw [hs] at hc; cases hc), h.cc, h.wf, h.fresh⟩
    · rename_i hs
      split
      · rename_i b hfind
        have hb := List.mem_of_find?_eq_some hfind
        have hc := List.find?_some hfind
        simp only [List.mem_filter] at hb
        exact CK_cloneFor (CK_toVisit h tv) (mem_predsAdj.1 (mem_dedup'.1 hb.1)) (by simpa using hc) hs _
      · rename_i hnone
        exfalso
        rw [List.find?_eq_none] at hnone
        cases hl : (dedup (predsAdj s.g n)).filter (s.blocked n) with
        | nil => rw [hl] at hbl; simp at hbl
        | cons b0 rest =>
          have hb0 : b0 ∈ (dedup (predsAdj s.g n)).filter (s.blocked n) := by rw [hl]; exact List.mem_cons_self ..
          have := hnone b0 hb0
          have hcl := blocked_cloneable h (List.mem_filter.1 hb0).2
          simp [hcl] at this
    · rename_i hs
      exact absurd hs h.noError

theorem CK_visiting : ∀ (fuel : Nat) (s : Cx), CK s → CK (Cx.visiting fuel s) := by
  intro fuel
  induction fuel with
  | zero => intro s h; exact ⟨h.noError, h.diags, h.flag, h.cc, h.wf, h.fresh⟩
  | succ f ih =>
    intro s h
    unfold Cx.visiting
    split
    · exact h
    · rename_i n _
      have hv := CK_visit (CK_toVisit h s.toVisit.dropLast) n
      simp only []
      split
      · exact hv
      · exact ih _ hv

theorem CK_endRound {s s' : Cx} (h : CK s) (he : s.endRound = some s') : CK s' := by
  unfold Cx.endRound at he
  simp only [Option.map_eq_some_iff] at he
  obtain ⟨c, hc, rfl⟩ := he
  have hflagfree : ∀ (c' : Ctl), c'.strat ≠ .error → CK { s with ctl := c', toVisit := union s.toVisit s.parked, parked := [] } :=
    fun c' hne => ⟨hne, h.diags, fun _ hp => absurd rfl hp, h.cc, h.wf, h.fresh⟩
  apply hflagfree
  unfold Ctl.next at hc
  simp only [Bool.or_false] at hc
  split at hc
  · cases hc
  · rename_i hn0
    split at hc
    · split at hc
      · cases hc; intro hh; cases hh
      · rename_i hstrat
        split at hc
        · cases hc; intro hh; cases hh
        · rename_i hfl
          exfalso
          apply hfl
          apply h.flag hstrat
          intro hp
          rw [hp] at hn0
          simp at hn0
      · rename_i hstrat
        exact absurd hstrat h.noError
    · cases hc
      exact h.noError

theorem CK_loop : ∀ (fuel : Nat) (s : Cx), CK s → (Cx.loop fuel s).diags = [] := by
  intro fuel
  induction fuel with
  | zero => intro s h; exact h.diags
  | succ f ih =>
    intro s h
    unfold Cx.loop
    have hv := CK_visiting (Cx.visitFuel s.g) s h
    simp only []
    split
    · exact hv.diags
    · rename_i s' hs'
      exact ih s' (CK_endRound hv hs')

end Pxv.CG

namespace Pxv.CG
open Graph

/-- whatever `captured_nodes` says a value holds a reference to is the source of an edge of the call graph -/
theorem captured_src (g : Graph) : ∀ k x, x ∈ lookup (captured g) k → ∃ e ∈ g.edges, e.src = x := by
  unfold captured
  generalize (postOrder g).reverse = l
  suffices H : ∀ (l : List Nat) (cap : List (Nat × List Nat)),
      (∀ k x, x ∈ lookup cap k → ∃ e ∈ g.edges, e.src = x) →
      ∀ k x, x ∈ lookup (l.foldl (capturedNode g) cap) k → ∃ e ∈ g.edges, e.src = x from
    H l [] (fun k x hx => by simp [lookup] at hx)
  intro l
  induction l with
  | nil => intro cap h; exact h
  | cons n ns ih =>
    intro cap h
    simp only [List.foldl_cons]
    apply ih
    intro k x hx
    unfold capturedNode at hx
    simp only [] at hx
    have hinner : ∀ (deps : List Nat) (cur0 : List Nat), (∀ d ∈ deps, ∃ e ∈ g.edges, e.src = d) →
        (∀ y ∈ cur0, ∃ e ∈ g.edges, e.src = y) →
        ∀ y ∈ deps.foldl (fun cur d =>
          let cur := if (g.node n).tied.contains d then union cur (lookup cap d) else cur
          if (g.node n).direct.contains d then union cur [d] else cur) cur0, ∃ e ∈ g.edges, e.src = y := by
      intro deps
      induction deps with
      | nil => intro cur0 _ h0 y hy; exact h0 y hy
      | cons d ds ihd =>
        intro cur0 hd h0 y hy
        simp only [List.foldl_cons] at hy
        refine ihd _ (fun d' hd' => hd d' (List.mem_cons_of_mem _ hd')) ?_ y hy
        intro z hz
        have hq1 : ∀ z ∈ (if (g.node n).tied.contains d then union cur0 (lookup cap d) else cur0), ∃ e ∈ g.edges, e.src = z := by
          intro z hz
          split at hz
          · rcases mem_union.1 hz with hz | hz
            · exact h0 z hz
            · exact h d z hz
          · exact h0 z hz
        split at hz
        · rcases mem_union.1 hz with hz | hz
          · exact hq1 z hz
          · rw [List.mem_singleton.1 hz]; exact hd d (List.mem_cons_self ..)
        · exact hq1 z hz
    split at hx
    · exact h k x hx
    · rw [lookup_setKey] at hx
      split at hx
      · refine hinner _ [] ?_ (fun y hy => by cases hy) x hx
        intro d hd
        simp only [List.mem_map, List.mem_filter] at hd
        obtain ⟨e, ⟨he, _⟩, rfl⟩ := hd
        exact ⟨e, (List.mem_filter.1 he).1, rfl⟩
      · exact h k x hx

/-- every value that is taken by value while somebody borrows it is Copy or may be cloned -/
def contendedCloneable (g : Graph) : Bool :=
  g.edges.all (fun e => e.kind != .move || (g.node e.src).copy || (g.node e.src).cloneable ||
    g.edges.all (fun e' => !(e'.src == e.src && (e'.kind == .shared || e'.kind == .excl)) &&
      (e'.kind == .before || !(lookup (captured g) e'.src).contains e.src)))

theorem CK_init {g : Graph} (hwf : g.wellFormed = true) (h : contendedCloneable g = true) : CK (Cx.init g) := by
  have hsrc := Own.compute_src g (captured g)
  refine ⟨by simp [Cx.init], rfl, fun hc => by simp [Cx.init] at hc, ?_, hwf, ?_⟩
  · intro p
    show (g.node p).copy = true ∨ (g.node p).cloneable = true ∨ lookup (Own.compute g (captured g)).consumers p = [] ∨
      lookup (Own.compute g (captured g)).borrowers p = []
    by_cases hc : lookup (Own.compute g (captured g)).consumers p = []
    · exact Or.inr (Or.inr (Or.inl hc))
    · obtain ⟨e, he, hk, rfl⟩ := hsrc.1 p hc
      unfold contendedCloneable at h
      rw [List.all_eq_true] at h
      have h1 := h e he
      simp only [hk, bne_self_eq_false, Bool.false_or, Bool.or_eq_true] at h1
      rcases h1 with (h1 | h1) | h1
      · exact Or.inl h1
      · exact Or.inr (Or.inl h1)
      · right; right; right
        apply Classical.byContradiction
        intro hb
        rw [List.all_eq_true] at h1
        rcases hsrc.2 e.src hb with ⟨e', he', hk', hs'⟩ | ⟨e', he', hk', hm'⟩
        · have := h1 e' he'
          rcases hk' with hk' | hk' <;> simp [hs', hk'] at this
        · have := h1 e' he'
          have hkb : (e'.kind == .before) = false := by cases hke : e'.kind <;> simp_all
          simp [hkb] at this
          exact this.2 hm'
  · intro k hk
    show lookup (Own.compute g (captured g)).consumers k = [] ∧ lookup (Own.compute g (captured g)).borrowers k = []
    constructor
    · apply Classical.byContradiction
      intro hne
      obtain ⟨e, he, _, hs⟩ := hsrc.1 k hne
      have := (wf_endpoints hwf he).1
      have hk' : g.size ≤ k := hk
      omega
    · apply Classical.byContradiction
      intro hne
      have hk' : g.size ≤ k := hk
      rcases hsrc.2 k hne with ⟨e, he, _, hs⟩ | ⟨e, he, _, hm⟩
      · have := (wf_endpoints hwf he).1; omega
      · obtain ⟨e', he', hs'⟩ := captured_src g _ _ hm
        have := (wf_endpoints hwf he').1; omega

/-- on a well-formed call graph whose contended values may all be cloned, `complexCheck` reports nothing -/
theorem complexCheck_no_diag_of_contendedCloneable {g : Graph} (hwf : g.wellFormed = true)
    (h : contendedCloneable g = true) : (complexCheck g).diags = [] :=
  CK_loop (roundFuel g) (Cx.init g) (CK_init hwf h)

end Pxv.CG
