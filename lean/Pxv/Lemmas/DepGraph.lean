import Pxv.Model.DepGraph
/-! `DependencyGraph::build`: when the loop ends by itself, the graph is closed under error handlers, transformers and (for
    visited components) dependencies. -/
namespace Pxv.Dep

def targets (w : List Item) : List Nat := w.map (·.1)

theorem mem_addNode {ns : List Nat} {c x : Nat} : x ∈ addNode ns c ↔ x ∈ ns ∨ x = c := by
  unfold addNode
  split
  · rename_i h
    have hc : c ∈ ns := by simpa using h
    constructor
    · exact Or.inl
    · rintro (h | rfl)
      · exact h
      · exact hc
  · simp

theorem mem_pushItem {w : List Item} {i j : Item} : i ∈ pushItem w j ↔ i ∈ w ∨ i = j := by
  unfold pushItem
  split
  · rename_i h
    have hc : j ∈ w := by simpa using h
    constructor
    · exact Or.inl
    · rintro (h | rfl)
      · exact h
      · exact hc
  · simp

theorem mem_targets_pushItem {w : List Item} {j : Item} {x : Nat} : x ∈ targets (pushItem w j) ↔ x ∈ targets w ∨ x = j.1 := by
  unfold targets
  simp only [List.mem_map]
  constructor
  · rintro ⟨i, hi, rfl⟩
    rcases mem_pushItem.1 hi with h | rfl
    · exact Or.inl ⟨i, h, rfl⟩
    · exact Or.inr rfl
  · rintro (⟨i, hi, rfl⟩ | rfl)
    · exact ⟨i, mem_pushItem.2 (Or.inl hi), rfl⟩
    · exact ⟨j, mem_pushItem.2 (Or.inr rfl), rfl⟩

theorem targets_foldl_push (c : Nat) : ∀ (ds : List Nat) (w : List Item) (x : Nat),
    x ∈ targets (ds.foldl (fun w d => pushItem w (d, some (false, c))) w) ↔ x ∈ targets w ∨ x ∈ ds := by
  intro ds
  induction ds with
  | nil => intro w x; simp
  | cons d ds ih =>
    intro w x
    simp only [List.foldl_cons, ih, mem_targets_pushItem, List.mem_cons]
    constructor
    · rintro ((h | h) | h)
      · exact Or.inl h
      · exact Or.inr (Or.inl h)
      · exact Or.inr (Or.inr h)
    · rintro (h | h | h)
      · exact Or.inl (Or.inl h)
      · exact Or.inl (Or.inr h)
      · exact Or.inr h

/-- what has been asked so far has been answered: the dependencies of every explored component, the error handler of every
    component looked at by the second phase, the transformers of every component looked at by the third, are nodes of the
    graph or waiting to be visited -/
structure Inv (db : DB) (s : St) : Prop where
  deps : ∀ c ∈ s.processed, db.isCompute c = true → ∀ d ∈ db.depsOf c, d ∈ s.nodes ∨ d ∈ targets s.work
  eh : ∀ c ∈ s.handled, db.isCompute c = true → ∀ h, db.ehOf c = some h → h ∈ s.nodes ∨ h ∈ targets s.work
  tr : ∀ c ∈ s.transformed, db.isCompute c = true → ∀ t ∈ db.trOf c, t ∈ s.nodes

/-- the state only grows, except that a visited item leaves the worklist for the graph -/
def Grows (s s' : St) : Prop :=
  (∀ x ∈ s.nodes, x ∈ s'.nodes) ∧ (∀ x ∈ targets s.work, x ∈ s'.nodes ∨ x ∈ targets s'.work)

theorem inv_of_grows {db : DB} {s s' : St} (h : Inv db s) (hg : Grows s s')
    (hp : s'.processed = s.processed) (hh : s'.handled = s.handled) (ht : s'.transformed = s.transformed) : Inv db s' := by
  refine ⟨?_, ?_, ?_⟩
  · intro c hc hcomp d hd
    rw [hp] at hc
    rcases h.deps c hc hcomp d hd with h1 | h1
    · exact Or.inl (hg.1 d h1)
    · exact hg.2 d h1
  · intro c hc hcomp e he
    rw [hh] at hc
    rcases h.eh c hc hcomp e he with h1 | h1
    · exact Or.inl (hg.1 e h1)
    · exact hg.2 e h1
  · intro c hc hcomp t htm
    rw [ht] at hc
    exact hg.1 t (h.tr c hc hcomp t htm)

end Pxv.Dep

namespace Pxv.Dep

theorem visit_spec (db : DB) (s1 : St) (it : Item) :
    (∀ x, x ∈ (visit db s1 it).nodes ↔ x ∈ s1.nodes ∨ x = it.1) ∧
    (visit db s1 it).handled = s1.handled ∧ (visit db s1 it).transformed = s1.transformed ∧
    ((s1.processed.contains it.1 = true ∧ (visit db s1 it).work = s1.work ∧ (visit db s1 it).processed = s1.processed) ∨
     (s1.processed.contains it.1 = false ∧ (visit db s1 it).processed = s1.processed ++ [it.1] ∧
      (∀ x, x ∈ targets s1.work → x ∈ targets (visit db s1 it).work) ∧
      (db.isCompute it.1 = true → ∀ d ∈ db.depsOf it.1, d ∈ targets (visit db s1 it).work))) := by
  obtain ⟨c, nb⟩ := it
  unfold visit
  simp only []
  have hn : ∀ (e : List (Nat × Nat)), True := fun _ => trivial
  rcases nb with _ | ⟨b, p⟩
  · simp only []
    by_cases hp : s1.processed.contains c = true
    · simp only [hp, if_true]
      exact ⟨fun x => mem_addNode, (by first | rfl | trivial), (by first | rfl | trivial), Or.inl ⟨(by first | rfl | trivial), (by first | rfl | trivial), (by first | rfl | trivial)⟩⟩
    · have hpf : s1.processed.contains c = false := by simpa using hp
      simp only [hpf, Bool.false_eq_true, if_false]
      refine ⟨?_, ?_, ?_, Or.inr ⟨(by first | rfl | trivial), ?_, ?_, ?_⟩⟩
      · intro x; split <;> exact mem_addNode
      · split <;> rfl
      · split <;> rfl
      · split <;> rfl
      · intro x hx
        split
        · exact (targets_foldl_push c _ _ x).2 (Or.inl hx)
        · exact hx
      · intro hc d hd
        simp only [hc, if_true]
        exact (targets_foldl_push c _ _ d).2 (Or.inr hd)
  · cases b <;>
    · simp only []
      by_cases hp : s1.processed.contains c = true
      · simp only [hp, if_true]
        exact ⟨fun x => mem_addNode, (by first | rfl | trivial), (by first | rfl | trivial), Or.inl ⟨(by first | rfl | trivial), (by first | rfl | trivial), (by first | rfl | trivial)⟩⟩
      · have hpf : s1.processed.contains c = false := by simpa using hp
        simp only [hpf, Bool.false_eq_true, if_false]
        refine ⟨?_, ?_, ?_, Or.inr ⟨(by first | rfl | trivial), ?_, ?_, ?_⟩⟩
        · intro x; split <;> exact mem_addNode
        · split <;> rfl
        · split <;> rfl
        · split <;> rfl
        · intro x hx
          split
          · exact (targets_foldl_push c _ _ x).2 (Or.inl hx)
          · exact hx
        · intro hc d hd
          simp only [hc, if_true]
          exact (targets_foldl_push c _ _ d).2 (Or.inr hd)

end Pxv.Dep

namespace Pxv.Dep

theorem work_eq_of_getLast {w : List Item} {it : Item} (h : w.getLast? = some it) : w = w.dropLast ++ [it] := by
  induction w with
  | nil => simp at h
  | cons a as ih =>
    cases as with
    | nil => simp at h; simp [h]
    | cons b bs =>
      have : (b :: bs).getLast? = some it := by simpa [List.getLast?_cons_cons] using h
      have := ih this
      simp only [List.dropLast_cons_cons, List.cons_append]
      rw [← this]

theorem inv_visit {db : DB} {s : St} {it : Item} (h : Inv db s) (hl : s.work.getLast? = some it) :
    Inv db (visit db { s with work := s.work.dropLast } it) := by
  have hw := work_eq_of_getLast hl
  have htw : ∀ x, x ∈ targets s.work ↔ x ∈ targets s.work.dropLast ∨ x = it.1 := by
    intro x
    conv => lhs; rw [hw]
    unfold targets
    simp
  obtain ⟨hn, hh, ht, hcase⟩ := visit_spec db { s with work := s.work.dropLast } it
  generalize visit db { s with work := s.work.dropLast } it = s' at hn hh ht hcase
  simp only at hn hh ht hcase
  have hwmono : ∀ x, x ∈ targets s.work.dropLast → x ∈ targets s'.work := by
    intro x hx
    rcases hcase with ⟨_, hwe, _⟩ | ⟨_, _, hm, _⟩
    · rw [hwe]; exact hx
    · exact hm x hx
  have hgrow : ∀ x, (x ∈ s.nodes ∨ x ∈ targets s.work) → (x ∈ s'.nodes ∨ x ∈ targets s'.work) := by
    intro x hx
    rcases hx with hx | hx
    · exact Or.inl ((hn x).2 (Or.inl hx))
    · rcases (htw x).1 hx with hx | hx
      · exact Or.inr (hwmono x hx)
      · exact Or.inl ((hn x).2 (Or.inr hx))
  refine ⟨?_, ?_, ?_⟩
  · intro c hc hcomp d hd
    rcases hcase with ⟨_, _, hpe⟩ | ⟨_, hpe, _, hdeps⟩
    · rw [hpe] at hc
      exact hgrow d (h.deps c hc hcomp d hd)
    · rw [hpe] at hc
      rcases List.mem_append.1 hc with hc | hc
      · exact hgrow d (h.deps c hc hcomp d hd)
      · have : c = it.1 := by simpa using hc
        subst this
        exact Or.inr (hdeps hcomp d hd)
  · intro c hc hcomp e he
    rw [hh] at hc
    exact hgrow e (h.eh c hc hcomp e he)
  · intro c hc hcomp t htm
    rw [ht] at hc
    exact (hn t).2 (Or.inl (h.tr c hc hcomp t htm))

theorem inv_visitAll {db : DB} : ∀ (fuel : Nat) (s : St), Inv db s → Inv db (visitAll db fuel s) := by
  intro fuel
  induction fuel with
  | zero => intro s h; exact h
  | succ f ih =>
    intro s h
    unfold visitAll
    split
    · exact h
    · rename_i it hl
      exact ih _ (inv_visit h hl)

end Pxv.Dep

namespace Pxv.Dep

/-- one step of the second phase -/
def heStep (db : DB) (s : St) (c : Nat) : St :=
  if s.handled.contains c then s
  else
    let s := if db.isCompute c then
        match db.ehOf c with
        | some h => { s with work := pushItem s.work (h, some (true, c)) }
        | none => s
      else s
    { s with handled := s.handled ++ [c] }

theorem handleErrors_eq (db : DB) (s : St) : handleErrors db s = s.nodes.foldl (heStep db) s := rfl

theorem heStep_spec {db : DB} {s : St} (h : Inv db s) (c : Nat) :
    Inv db (heStep db s c) ∧ (heStep db s c).nodes = s.nodes ∧ c ∈ (heStep db s c).handled ∧
    (∀ x ∈ s.handled, x ∈ (heStep db s c).handled) ∧ (heStep db s c).transformed = s.transformed ∧
    (heStep db s c).processed = s.processed := by
  unfold heStep
  by_cases hc : s.handled.contains c = true
  · simp only [hc, if_true]
    exact ⟨h, (by first | rfl | trivial), (by simpa using hc), fun x hx => hx, (by first | rfl | trivial), (by first | rfl | trivial)⟩
  · have hcf : s.handled.contains c = false := by simpa using hc
    simp only [hcf, Bool.false_eq_true, if_false]
    -- the work list after the optional push
    have key : ∀ (w' : List Item), (∀ x ∈ targets s.work, x ∈ targets w') →
        (db.isCompute c = true → ∀ e, db.ehOf c = some e → e ∈ targets w') →
        Inv db { s with work := w', handled := s.handled ++ [c] } := by
      intro w' hmono hpush
      refine ⟨?_, ?_, ?_⟩
      · intro c' hc' hcomp d hd
        rcases h.deps c' hc' hcomp d hd with h1 | h1
        · exact Or.inl h1
        · exact Or.inr (hmono d h1)
      · intro c' hc' hcomp e he
        rcases List.mem_append.1 hc' with hc' | hc'
        · rcases h.eh c' hc' hcomp e he with h1 | h1
          · exact Or.inl h1
          · exact Or.inr (hmono e h1)
        · have : c' = c := by simpa using hc'
          subst this
          exact Or.inr (hpush hcomp e he)
      · exact h.tr
    refine ⟨?_, ?_, ?_, ?_, ?_, ?_⟩
    · by_cases hcomp : db.isCompute c = true
      · simp only [hcomp, if_true]
        cases he : db.ehOf c with
        | none =>
          simp only []
          exact key s.work (fun x hx => hx) (fun _ e he' => by rw [he] at he'; cases he')
        | some e =>
          simp only []
          refine key _ (fun x hx => mem_targets_pushItem.2 (Or.inl hx)) ?_
          intro _ e' he'
          rw [he] at he'
          cases he'
          exact mem_targets_pushItem.2 (Or.inr rfl)
      · have hcf' : db.isCompute c = false := by simpa using hcomp
        simp only [hcf', Bool.false_eq_true, if_false]
        exact key s.work (fun x hx => hx) (fun hh => by rw [hcf'] at hh; cases hh)
    · split
      · split <;> rfl
      · rfl
    · simp
    · intro x hx
      simp only [List.mem_append, List.mem_singleton]
      left
      split
      · split <;> exact hx
      · exact hx
    · split
      · split <;> rfl
      · rfl
    · split
      · split <;> rfl
      · rfl

theorem handleErrors_spec {db : DB} {s : St} (h : Inv db s) :
    Inv db (handleErrors db s) ∧ (handleErrors db s).nodes = s.nodes ∧ (∀ c ∈ s.nodes, c ∈ (handleErrors db s).handled) ∧
    (handleErrors db s).transformed = s.transformed ∧ (handleErrors db s).processed = s.processed := by
  rw [handleErrors_eq]
  have gen : ∀ (l : List Nat) (s0 : St), Inv db s0 →
      Inv db (l.foldl (heStep db) s0) ∧ (l.foldl (heStep db) s0).nodes = s0.nodes ∧
      (∀ c ∈ l, c ∈ (l.foldl (heStep db) s0).handled) ∧ (∀ c ∈ s0.handled, c ∈ (l.foldl (heStep db) s0).handled) ∧
      (l.foldl (heStep db) s0).transformed = s0.transformed ∧ (l.foldl (heStep db) s0).processed = s0.processed := by
    intro l
    induction l with
    | nil => intro s0 h0; exact ⟨h0, rfl, (fun c hc => by cases hc), (fun c hc => hc), rfl, rfl⟩
    | cons a as ih =>
      intro s0 h0
      obtain ⟨i1, i2, i3, i4, i5, i6⟩ := heStep_spec h0 a
      obtain ⟨j1, j2, j3, j4, j5, j6⟩ := ih _ i1
      simp only [List.foldl_cons]
      refine ⟨j1, j2.trans i2, ?_, fun c hc => j4 c (i4 c hc), j5.trans i5, j6.trans i6⟩
      intro c hc
      rcases List.mem_cons.1 hc with rfl | hc
      · exact j4 _ i3
      · exact j3 c hc
  obtain ⟨g1, g2, g3, _, g5, g6⟩ := gen s.nodes s h
  exact ⟨g1, g2, g3, g5, g6⟩

end Pxv.Dep

namespace Pxv.Dep

theorem addNode_prefix (ns : List Nat) (t : Nat) : ∃ extra, addNode ns t = ns ++ extra := by
  unfold addNode
  split
  · exact ⟨[], by simp⟩
  · exact ⟨[t], rfl⟩

theorem trFold_spec (c : Nat) : ∀ (ts : List Nat) (s : St),
    let r := ts.foldl (fun s t => { s with nodes := addNode s.nodes t, edges := addEdge s.edges (c, t) }) s
    r.work = s.work ∧ r.processed = s.processed ∧ r.handled = s.handled ∧ r.transformed = s.transformed ∧
    (∃ extra, r.nodes = s.nodes ++ extra) ∧ (∀ t ∈ ts, t ∈ r.nodes) := by
  intro ts
  induction ts with
  | nil => intro s; exact ⟨rfl, rfl, rfl, rfl, ⟨[], by simp⟩, fun t ht => by cases ht⟩
  | cons t ts ih =>
    intro s
    simp only [List.foldl_cons]
    obtain ⟨h1, h2, h3, h4, ⟨ex, h5⟩, h6⟩ := ih { s with nodes := addNode s.nodes t, edges := addEdge s.edges (c, t) }
    obtain ⟨ex0, h0⟩ := addNode_prefix s.nodes t
    refine ⟨h1, h2, h3, h4, ⟨ex0 ++ ex, ?_⟩, ?_⟩
    · rw [h5]; simp only []; rw [h0, List.append_assoc]
    · intro t' ht'
      rcases List.mem_cons.1 ht' with rfl | ht'
      · rw [h5]; simp only []
        exact List.mem_append.2 (Or.inl (mem_addNode.2 (Or.inr rfl)))
      · exact h6 t' ht'

/-- one step of the third phase -/
def atStep (db : DB) (s : St) (c : Nat) : St :=
  if s.transformed.contains c then s
  else
    let s := if db.isCompute c then
        (db.trOf c).foldl (fun s t => { s with nodes := addNode s.nodes t, edges := addEdge s.edges (c, t) }) s
      else s
    { s with transformed := s.transformed ++ [c] }

theorem addTransformers_eq (db : DB) (s : St) : addTransformers db s = s.nodes.foldl (atStep db) s := rfl

theorem atStep_spec {db : DB} {s : St} (h : Inv db s) (c : Nat) :
    Inv db (atStep db s c) ∧ (atStep db s c).work = s.work ∧ (∃ extra, (atStep db s c).nodes = s.nodes ++ extra) ∧
    c ∈ (atStep db s c).transformed ∧ (∀ x ∈ s.transformed, x ∈ (atStep db s c).transformed) ∧
    (atStep db s c).handled = s.handled ∧ (atStep db s c).processed = s.processed := by
  unfold atStep
  by_cases hc : s.transformed.contains c = true
  · simp only [hc, if_true]
    exact ⟨h, (by first | rfl | trivial), ⟨[], by simp⟩, (by simpa using hc), fun x hx => hx, (by first | rfl | trivial), (by first | rfl | trivial)⟩
  · have hcf : s.transformed.contains c = false := by simpa using hc
    simp only [hcf, Bool.false_eq_true, if_false]
    by_cases hcomp : db.isCompute c = true
    · simp only [hcomp, if_true]
      obtain ⟨h1, h2, h3, h4, ⟨ex, h5⟩, h6⟩ := trFold_spec c (db.trOf c) s
      generalize (db.trOf c).foldl (fun s t => { s with nodes := addNode s.nodes t, edges := addEdge s.edges (c, t) }) s = r at h1 h2 h3 h4 h5 h6
      have hsub : ∀ x ∈ s.nodes, x ∈ r.nodes := fun x hx => by rw [h5]; exact List.mem_append.2 (Or.inl hx)
      refine ⟨⟨?_, ?_, ?_⟩, h1, ⟨ex, h5⟩, by simp, fun x hx => by simp [h4, hx], h3, h2⟩
      · intro c' hc' hcomp' d hd
        simp only [] at hc'
        rw [h2] at hc'
        rcases h.deps c' hc' hcomp' d hd with g | g
        · exact Or.inl (hsub d g)
        · exact Or.inr (by rw [h1]; exact g)
      · intro c' hc' hcomp' e he
        simp only [] at hc'
        rw [h3] at hc'
        rcases h.eh c' hc' hcomp' e he with g | g
        · exact Or.inl (hsub e g)
        · exact Or.inr (by rw [h1]; exact g)
      · intro c' hc' hcomp' t ht
        simp only [h4] at hc'
        rcases List.mem_append.1 hc' with hc' | hc'
        · exact hsub t (h.tr c' hc' hcomp' t ht)
        · have : c' = c := by simpa using hc'
          subst this
          exact h6 t ht
    · have hcf' : db.isCompute c = false := by simpa using hcomp
      simp only [hcf', Bool.false_eq_true, if_false]
      refine ⟨⟨h.deps, h.eh, ?_⟩, (by first | rfl | trivial), ⟨[], by simp⟩, by simp, fun x hx => by simp [hx], (by first | rfl | trivial), (by first | rfl | trivial)⟩
      intro c' hc' hcomp' t ht
      rcases List.mem_append.1 hc' with hc' | hc'
      · exact h.tr c' hc' hcomp' t ht
      · have : c' = c := by simpa using hc'
        subst this
        rw [hcf'] at hcomp'; cases hcomp'

theorem addTransformers_spec {db : DB} {s : St} (h : Inv db s) :
    Inv db (addTransformers db s) ∧ (addTransformers db s).work = s.work ∧
    (∃ extra, (addTransformers db s).nodes = s.nodes ++ extra) ∧ (∀ c ∈ s.nodes, c ∈ (addTransformers db s).transformed) ∧
    (addTransformers db s).handled = s.handled ∧ (addTransformers db s).processed = s.processed := by
  rw [addTransformers_eq]
  have gen : ∀ (l : List Nat) (s0 : St), Inv db s0 →
      Inv db (l.foldl (atStep db) s0) ∧ (l.foldl (atStep db) s0).work = s0.work ∧
      (∃ extra, (l.foldl (atStep db) s0).nodes = s0.nodes ++ extra) ∧
      (∀ c ∈ l, c ∈ (l.foldl (atStep db) s0).transformed) ∧ (∀ c ∈ s0.transformed, c ∈ (l.foldl (atStep db) s0).transformed) ∧
      (l.foldl (atStep db) s0).handled = s0.handled ∧ (l.foldl (atStep db) s0).processed = s0.processed := by
    intro l
    induction l with
    | nil => intro s0 h0; exact ⟨h0, rfl, ⟨[], by simp⟩, (fun c hc => by cases hc), (fun c hc => hc), rfl, rfl⟩
    | cons a as ih =>
      intro s0 h0
      obtain ⟨i1, i2, ⟨e1, i3⟩, i4, i5, i6, i7⟩ := atStep_spec h0 a
      obtain ⟨j1, j2, ⟨e2, j3⟩, j4, j5, j6, j7⟩ := ih _ i1
      simp only [List.foldl_cons]
      refine ⟨j1, j2.trans i2, ⟨e1 ++ e2, by rw [j3, i3, List.append_assoc]⟩, ?_, fun c hc => j5 c (i5 c hc), j6.trans i6, j7.trans i7⟩
      intro c hc
      rcases List.mem_cons.1 hc with rfl | hc
      · exact j5 _ i4
      · exact j4 c hc
  obtain ⟨g1, g2, g3, g4, _, g6, g7⟩ := gen s.nodes s h
  exact ⟨g1, g2, g3, g4, g6, g7⟩

end Pxv.Dep

namespace Pxv.Dep

/-- the graph is closed: every compute node has its error handler and its transformers in the graph, and every explored
    compute node has the constructors of its inputs there -/
def Closed (db : DB) (s : St) : Prop :=
  ∀ c ∈ s.nodes, db.isCompute c = true →
    (∀ e, db.ehOf c = some e → e ∈ s.nodes) ∧ (∀ t ∈ db.trOf c, t ∈ s.nodes) ∧
    (c ∈ s.processed → ∀ d ∈ db.depsOf c, d ∈ s.nodes)

theorem round_spec {db : DB} {fuel : Nat} {s : St} (h : Inv db s) :
    Inv db (round db fuel s).1 ∧ ((round db fuel s).2 = true → Closed db (round db fuel s).1) := by
  unfold round
  simp only []
  have h1 := inv_visitAll (db := db) fuel s h
  generalize visitAll db fuel s = s1 at h1
  obtain ⟨h2, hn2, hh2, _, _⟩ := handleErrors_spec h1
  generalize handleErrors db s1 = s2 at h2 hn2 hh2
  obtain ⟨h3, hw3, ⟨extra, hn3⟩, ht3, hh3, _⟩ := addTransformers_spec h2
  generalize addTransformers db s2 = s3 at h3 hw3 hn3 ht3 hh3
  refine ⟨h3, ?_⟩
  intro hflag
  simp only [Bool.and_eq_true, List.isEmpty_iff, beq_iff_eq] at hflag
  obtain ⟨hwe, hlen⟩ := hflag
  have hex : extra = [] := by
    have : s3.nodes.length = s2.nodes.length + extra.length := by rw [hn3, List.length_append]
    rw [hn2] at this
    have : extra.length = 0 := by omega
    exact List.eq_nil_of_length_eq_zero this
  have hnodes : s3.nodes = s2.nodes := by rw [hn3, hex, List.append_nil]
  have hnt : ∀ x, x ∈ targets s3.work → False := by
    intro x hx; rw [hwe] at hx; simp [targets] at hx
  intro c hc hcomp
  have hc2 : c ∈ s2.nodes := hnodes ▸ hc
  have hc1 : c ∈ s1.nodes := hn2 ▸ hc2
  refine ⟨?_, ?_, ?_⟩
  · intro e he
    have hch : c ∈ s3.handled := by rw [hh3]; exact hh2 c hc1
    rcases h3.eh c hch hcomp e he with g | g
    · exact g
    · exact (hnt e g).elim
  · intro t ht
    exact h3.tr c (ht3 c hc2) hcomp t ht
  · intro hp d hd
    rcases h3.deps c hp hcomp d hd with g | g
    · exact g
    · exact (hnt d g).elim

theorem loopWith_spec {db : DB} {vf : Nat} : ∀ (fuel : Nat) (s : St), Inv db s →
    (loopWith (round db vf) fuel s).2 = true → Closed db (loopWith (round db vf) fuel s).1 := by
  intro fuel
  induction fuel with
  | zero => intro s _ h; simp [loopWith] at h
  | succ f ih =>
    intro s h hend
    unfold loopWith at hend ⊢
    simp only [] at hend ⊢
    obtain ⟨hi, hc⟩ := round_spec (db := db) (fuel := vf) h
    split
    · rename_i hflag
      exact hc hflag
    · rename_i hflag
      simp only [hflag, Bool.false_eq_true, if_false] at hend
      exact ih _ hi hend

end Pxv.Dep

namespace Pxv.Dep

theorem visitAll_nodes_mono (db : DB) : ∀ (fuel : Nat) (s : St) (x : Nat), x ∈ s.nodes → x ∈ (visitAll db fuel s).nodes := by
  intro fuel
  induction fuel with
  | zero => intro s x hx; exact hx
  | succ f ih =>
    intro s x hx
    unfold visitAll
    split
    · exact hx
    · rename_i it _
      apply ih
      exact ((visit_spec db { s with work := s.work.dropLast } it).1 x).2 (Or.inl hx)

theorem visitAll_last (db : DB) (fuel : Nat) (s : St) (it : Item) (hl : s.work.getLast? = some it) :
    it.1 ∈ (visitAll db (fuel + 1) s).nodes := by
  unfold visitAll
  simp only [hl]
  apply visitAll_nodes_mono
  exact ((visit_spec db { s with work := s.work.dropLast } it).1 it.1).2 (Or.inr rfl)

theorem round_nodes_mono (db : DB) (vf : Nat) (s : St) (x : Nat) (hx : x ∈ (visitAll db vf s).nodes) :
    x ∈ (round db vf s).1.nodes := by
  unfold round
  simp only []
  unfold handleErrors addTransformers
  -- the second phase leaves the nodes alone, the third only appends
  have h2 : ∀ (l : List Nat) (s0 : St), x ∈ s0.nodes → x ∈ (l.foldl (heStep db) s0).nodes := by
    intro l
    induction l with
    | nil => intro s0 h; exact h
    | cons a as ih =>
      intro s0 h
      simp only [List.foldl_cons]
      apply ih
      unfold heStep
      split
      · exact h
      · split
        · split <;> exact h
        · exact h
  have h3 : ∀ (l : List Nat) (s0 : St), x ∈ s0.nodes → x ∈ (l.foldl (atStep db) s0).nodes := by
    intro l
    induction l with
    | nil => intro s0 h; exact h
    | cons a as ih =>
      intro s0 h
      simp only [List.foldl_cons]
      apply ih
      unfold atStep
      split
      · exact h
      · split
        · obtain ⟨_, _, _, _, ⟨ex, h5⟩, _⟩ := trFold_spec a (db.trOf a) s0
          simp only [] at h5 ⊢
          rw [h5]
          exact List.mem_append.2 (Or.inl h)
        · exact h
  exact h3 _ _ (h2 _ _ hx)

theorem loopWith_nodes_mono (db : DB) (vf : Nat) : ∀ (fuel : Nat) (s : St) (x : Nat), x ∈ s.nodes →
    x ∈ (loopWith (round db vf) fuel s).1.nodes := by
  intro fuel
  induction fuel with
  | zero => intro s x hx; exact hx
  | succ f ih =>
    intro s x hx
    unfold loopWith
    simp only []
    have := round_nodes_mono db vf s x (visitAll_nodes_mono db vf s x hx)
    split
    · exact this
    · exact ih _ x this

/-- the root is a node of the graph whenever the loop ends by itself -/
theorem build_root (db : DB) (fuel root : Nat) (observers : List Nat) (h : (build db fuel root observers).2 = true) :
    root ∈ (build db fuel root observers).1.nodes := by
  unfold build at h ⊢
  cases fuel with
  | zero => simp [loopWith] at h
  | succ f =>
    unfold loopWith
    simp only []
    have hl : ({ work := observers.map (fun o => (o, none)) ++ [(root, none)] } : St).work.getLast? = some (root, none) := by
      simp
    have h1 := visitAll_last db f _ _ hl
    have h2 := round_nodes_mono db (f + 1) _ root h1
    split
    · exact h2
    · exact loopWith_nodes_mono db (f + 1) f _ root h2

end Pxv.Dep

namespace Pxv.Dep

/-- an edge the database justifies: a constructor feeding a component, a component and its error handler, a component and one of
    its transformers -/
def Just (db : DB) (e : Nat × Nat) : Prop :=
  e.1 ∈ db.depsOf e.2 ∨ db.ehOf e.1 = some e.2 ∨ e.2 ∈ db.trOf e.1

def ItemJust (db : DB) (it : Item) : Prop :=
  match it.2 with
  | none => True
  | some (true, p) => db.ehOf p = some it.1
  | some (false, ch) => it.1 ∈ db.depsOf ch ∧ db.isCompute ch = true

/-- every edge of the graph, and every edge a pending work item will add, is justified by the database -/
structure EInv (db : DB) (s : St) : Prop where
  edges : ∀ e ∈ s.edges, Just db e
  work : ∀ it ∈ s.work, ItemJust db it

theorem mem_addEdge {es : List (Nat × Nat)} {e x : Nat × Nat} : x ∈ addEdge es e ↔ x ∈ es ∨ x = e := by
  unfold addEdge
  split
  · rename_i h
    have hc : e ∈ es := by simpa using h
    constructor
    · exact Or.inl
    · rintro (h | rfl)
      · exact h
      · exact hc
  · simp

theorem mem_foldl_pushItem (c : Nat) : ∀ (ds : List Nat) (w : List Item) (it : Item),
    it ∈ ds.foldl (fun w d => pushItem w (d, some (false, c))) w → it ∈ w ∨ ∃ d ∈ ds, it = (d, some (false, c)) := by
  intro ds
  induction ds with
  | nil => intro w it h; exact Or.inl h
  | cons d ds ih =>
    intro w it h
    simp only [List.foldl_cons] at h
    rcases ih _ it h with h1 | ⟨d', hd', rfl⟩
    · rcases mem_pushItem.1 h1 with h2 | rfl
      · exact Or.inl h2
      · exact Or.inr ⟨d, List.mem_cons_self .., rfl⟩
    · exact Or.inr ⟨d', List.mem_cons_of_mem _ hd', rfl⟩

theorem einv_visit_tail {db : DB} (s1 : St) (c : Nat) (h1 : EInv db s1) :
    EInv db (if s1.processed.contains c then s1
      else
        let s2 := if db.isCompute c then
            { s1 with work := (db.depsOf c).foldl (fun w d => pushItem w (d, some (false, c))) s1.work }
          else s1
        { s2 with processed := s2.processed ++ [c] }) := by
  split
  · exact h1
  · simp only []
    by_cases hcomp : db.isCompute c = true
    · simp only [hcomp, if_true]
      refine ⟨h1.edges, ?_⟩
      intro it' hit'
      rcases mem_foldl_pushItem c _ _ it' hit' with h2 | ⟨d, hd, rfl⟩
      · exact h1.work it' h2
      · exact ⟨hd, hcomp⟩
    · have hcf : db.isCompute c = false := by simpa using hcomp
      simp only [hcf, Bool.false_eq_true, if_false]
      exact ⟨h1.edges, h1.work⟩

theorem einv_visit {db : DB} {s : St} {it : Item} (h : EInv db s) (hit : ItemJust db it) : EInv db (visit db s it) := by
  obtain ⟨c, nb⟩ := it
  rcases nb with _ | ⟨b, q⟩
  · exact einv_visit_tail { s with nodes := addNode s.nodes c } c ⟨h.edges, h.work⟩
  · cases b
    · refine einv_visit_tail { s with nodes := addNode s.nodes c, edges := addEdge s.edges (c, q) } c ⟨?_, h.work⟩
      intro e he
      rcases mem_addEdge.1 he with he | rfl
      · exact h.edges e he
      · exact Or.inl hit.1
    · refine einv_visit_tail { s with nodes := addNode s.nodes c, edges := addEdge s.edges (q, c) } c ⟨?_, h.work⟩
      intro e he
      rcases mem_addEdge.1 he with he | rfl
      · exact h.edges e he
      · exact Or.inr (Or.inl hit)

end Pxv.Dep

namespace Pxv.Dep

theorem einv_visitAll {db : DB} : ∀ (fuel : Nat) (s : St), EInv db s → EInv db (visitAll db fuel s) := by
  intro fuel
  induction fuel with
  | zero => intro s h; exact h
  | succ f ih =>
    intro s h
    unfold visitAll
    split
    · exact h
    · rename_i it hl
      have hw := work_eq_of_getLast hl
      have hit : ItemJust db it := h.work it (by rw [hw]; simp)
      have hs : EInv db { s with work := s.work.dropLast } :=
        ⟨h.edges, fun it' hit' => h.work it' (by rw [hw]; exact List.mem_append.2 (Or.inl hit'))⟩
      exact ih _ (einv_visit hs hit)

theorem einv_heStep {db : DB} {s : St} (h : EInv db s) (c : Nat) : EInv db (heStep db s c) := by
  unfold heStep
  split
  · exact h
  · by_cases hcomp : db.isCompute c = true
    · simp only [hcomp, if_true]
      cases he : db.ehOf c with
      | none => exact ⟨h.edges, h.work⟩
      | some e =>
        refine ⟨h.edges, ?_⟩
        intro it hit
        rcases mem_pushItem.1 hit with h1 | rfl
        · exact h.work it h1
        · exact he
    · have hcf : db.isCompute c = false := by simpa using hcomp
      simp only [hcf, Bool.false_eq_true, if_false]
      exact ⟨h.edges, h.work⟩

theorem einv_trFold {db : DB} (c : Nat) : ∀ (ts : List Nat) (s : St), (∀ t ∈ ts, t ∈ db.trOf c) → EInv db s →
    EInv db (ts.foldl (fun s t => { s with nodes := addNode s.nodes t, edges := addEdge s.edges (c, t) }) s) := by
  intro ts
  induction ts with
  | nil => intro s _ h; exact h
  | cons t ts ih =>
    intro s hts h
    simp only [List.foldl_cons]
    apply ih _ (fun t' ht' => hts t' (List.mem_cons_of_mem _ ht'))
    refine ⟨?_, h.work⟩
    intro e he
    rcases mem_addEdge.1 he with he | rfl
    · exact h.edges e he
    · exact Or.inr (Or.inr (hts t (List.mem_cons_self ..)))

theorem einv_atStep {db : DB} {s : St} (h : EInv db s) (c : Nat) : EInv db (atStep db s c) := by
  unfold atStep
  split
  · exact h
  · by_cases hcomp : db.isCompute c = true
    · simp only [hcomp, if_true]
      have := einv_trFold (db := db) c (db.trOf c) s (fun t ht => ht) h
      exact ⟨this.edges, this.work⟩
    · have hcf : db.isCompute c = false := by simpa using hcomp
      simp only [hcf, Bool.false_eq_true, if_false]
      exact ⟨h.edges, h.work⟩

theorem einv_round {db : DB} (vf : Nat) (s : St) (h : EInv db s) : EInv db (round db vf s).1 := by
  unfold round
  simp only []
  have h1 := einv_visitAll (db := db) vf s h
  have foldHe : ∀ (l : List Nat) (s0 : St), EInv db s0 → EInv db (l.foldl (heStep db) s0) := by
    intro l; induction l with
    | nil => intro s0 h0; exact h0
    | cons a as ih => intro s0 h0; exact ih _ (einv_heStep h0 a)
  have foldAt : ∀ (l : List Nat) (s0 : St), EInv db s0 → EInv db (l.foldl (atStep db) s0) := by
    intro l; induction l with
    | nil => intro s0 h0; exact h0
    | cons a as ih => intro s0 h0; exact ih _ (einv_atStep h0 a)
  rw [handleErrors_eq, addTransformers_eq]
  exact foldAt _ _ (foldHe _ _ h1)

theorem einv_loopWith {db : DB} (vf : Nat) : ∀ (fuel : Nat) (s : St), EInv db s → EInv db (loopWith (round db vf) fuel s).1 := by
  intro fuel
  induction fuel with
  | zero => intro s h; exact h
  | succ f ih =>
    intro s h
    unfold loopWith
    simp only []
    have := einv_round vf s h
    split
    · exact this
    · exact ih _ this

/-- **no spurious edges**: every edge of the dependency graph is justified by the database — a constructor feeding a component
    that needs its output, a component and its error handler, a component and one of its transformers — whether or not the
    loop ran to its end -/
theorem build_edges_justified (db : DB) (fuel root : Nat) (observers : List Nat) :
    ∀ e ∈ (build db fuel root observers).1.edges, Just db e := by
  unfold build
  refine (einv_loopWith fuel fuel _ ⟨(fun e he => by cases he), ?_⟩).edges
  intro it hit
  simp only [List.mem_append, List.mem_map, List.mem_singleton] at hit
  rcases hit with ⟨o, _, rfl⟩ | rfl <;> exact trivial

end Pxv.Dep
