import Pxv.Lemmas.ComplexCloneable
/-! `multiple_consumers` reports nothing when every contended value may be cloned (C02's fourth alternative). -/
namespace Pxv.CG
open Graph

theorem node_insertClone_isRef_old (g : Graph) (b n x : Nat) (hx : x < g.size) :
    ((insertClone g b n).1.node x).isRef = (g.node x).isRef := by
  simp only [insertClone, Graph.node, Graph.size] at *
  rw [List.getD_eq_getElem?_getD, List.getD_eq_getElem?_getD, List.getElem?_append_left (by simpa using hx)]
  simp [hx]
  split <;> rfl

/-- what the pass may have done to the graph `g0` by the time it looks at a node: grown it, kept the flags of the original
    nodes, and kept the by-value consumers of every original node other than those it cloned for (`n`, here) -/
structure Pres (g0 : Graph) (n : Nat) (g : Graph) : Prop where
  size : g0.size ≤ g.size
  flags : ∀ x, x < g0.size → (g.node x).copy = (g0.node x).copy ∧ (g.node x).isRef = (g0.node x).isRef ∧
    (g.node x).cloneable = (g0.node x).cloneable
  cons : ∀ x, x < g0.size → x ≠ n → g.consumers x = g0.consumers x

theorem Pres.refl (g : Graph) (n : Nat) : Pres g n g := ⟨Nat.le_refl _, fun _ _ => ⟨rfl, rfl, rfl⟩, fun _ _ _ => rfl⟩

theorem Pres.step {g0 g : Graph} {n : Nat} (h : Pres g0 n g) (c : Nat) : Pres g0 n (Pxv.CG.insertClone g n c).1 := by
  refine ⟨by rw [size_insertClone]; have := h.size; omega, ?_, ?_⟩
  · intro x hx
    have hx' : x < g.size := Nat.lt_of_lt_of_le hx h.size
    rw [node_insertClone_copy_old _ _ _ _ hx', node_insertClone_isRef_old _ _ _ _ hx', node_insertClone_old _ _ _ _ hx']
    exact h.flags x hx
  · intro x hx hne
    have hx' : x < g.size := Nat.lt_of_lt_of_le hx h.size
    rw [consumers_insertClone_other _ _ _ _ hne hx']
    exact h.cons x hx hne

theorem Pres.foldInsert {g0 : Graph} {n : Nat} : ∀ (cs : List Nat) (g : Graph), Pres g0 n g →
    Pres g0 n (cs.foldl (fun g c => (Pxv.CG.insertClone g n c).1) g) := by
  intro cs
  induction cs with
  | nil => intro g h; exact h
  | cons c cs ih => intro g h; exact ih _ (h.step c)

theorem Pres.mcCloneSets {g0 g : Graph} {n : Nat} (h : Pres g0 n g) (sets : List (List Nat)) :
    Pres g0 n (mcCloneSets g n sets).1 := by
  unfold CG.mcCloneSets
  have : ∀ (sets : List (List Nat)) (st : Graph × List Nat), Pres g0 n st.1 → Pres g0 n (sets.foldl (mcCloneStep n) st).1 := by
    intro sets
    induction sets with
    | nil => intro st h; exact h
    | cons s ss ih =>
      intro st h
      simp only [List.foldl_cons]
      apply ih
      unfold mcCloneStep
      simp only []
      split
      · exact h
      · exact Pres.foldInsert _ _ h
  exact this sets (g, []) h

/-- changing the node the pass cloned for: what holds "except at `n`" for a cloneable `n` holds for every non-cloneable node -/
def PresAll (g0 g : Graph) : Prop :=
  g0.size ≤ g.size ∧
  (∀ x, x < g0.size → (g.node x).copy = (g0.node x).copy ∧ (g.node x).isRef = (g0.node x).isRef ∧
    (g.node x).cloneable = (g0.node x).cloneable) ∧
  (∀ x, x < g0.size → (g0.node x).cloneable = false → g.consumers x = g0.consumers x)

/-- every value with several by-value consumers is Copy, a reference, or may be cloned -/
def mcCloneable (g : Graph) : Bool :=
  (List.range g.size).all (fun n => (toSet (g.consumers n)).length ≤ 1 || (g.node n).copy || (g.node n).isRef || (g.node n).cloneable)

theorem mcNode_presAll {g0 : Graph} (hq : mcCloneable g0 = true) (sinks : List Nat) (st : Graph × List Diag) (n : Nat)
    (hn : n < g0.size) (h : PresAll g0 st.1) (hd : st.2 = []) :
    PresAll g0 (mcNode sinks st n).1 ∧ (mcNode sinks st n).2 = [] := by
  obtain ⟨hsz, hfl, hco⟩ := h
  have hq' := (List.all_eq_true.1 hq) n (List.mem_range.2 hn)
  simp only [Bool.or_eq_true, decide_eq_true_eq] at hq'
  obtain ⟨f1, f2, f3⟩ := hfl n hn
  unfold mcNode
  simp only []
  split
  · exact ⟨⟨hsz, hfl, hco⟩, hd⟩
  · rename_i hlen
    split
    · exact ⟨⟨hsz, hfl, hco⟩, hd⟩
    · rename_i hcr
      split
      · exact ⟨⟨hsz, hfl, hco⟩, hd⟩
      · -- several consumers, not Copy, not a reference, competing: the value must be cloneable
        have hcl : (st.1.node n).cloneable = true := by
          rw [f3]
          cases hc0 : (g0.node n).cloneable with
          | true => rfl
          | false =>
            exfalso
            rcases hq' with ((h1 | h1) | h1) | h1
            · rw [hco n hn hc0] at hlen; exact hlen h1
            · rw [← f1] at h1; simp [h1] at hcr
            · rw [← f2] at h1; simp [h1] at hcr
            · rw [hc0] at h1; cases h1
        simp only [hcl, Bool.not_true, Bool.false_eq_true, if_false]
        refine ⟨?_, hd⟩
        have key : ∀ sets, PresAll g0 (mcCloneSets st.1 n sets).1 := by
          intro sets
          have hp := (Pres.refl st.1 n).mcCloneSets sets
          generalize (mcCloneSets st.1 n sets).1 = g2 at hp ⊢
          refine ⟨Nat.le_trans hsz hp.size, ?_, ?_⟩
          · intro x hx
            have hx' : x < st.1.size := Nat.lt_of_lt_of_le hx hsz
            obtain ⟨a1, a2, a3⟩ := hp.flags x hx'
            obtain ⟨b1, b2, b3⟩ := hfl x hx
            exact ⟨a1.trans b1, a2.trans b2, a3.trans b3⟩
          · intro x hx hnc
            have hx' : x < st.1.size := Nat.lt_of_lt_of_le hx hsz
            have hxn : x ≠ n := by
              intro he; subst he
              rw [f3] at hcl; rw [hcl] at hnc; cases hnc
            rw [hp.cons x hx' hxn]
            exact hco x hx hnc
        exact key _

/-- **`multiple_consumers` never rejects an application whose contended values may be cloned**: if every value that several
    nodes take by value is Copy, a reference, or clone-if-necessary, the pass reports nothing (it clones instead). -/
theorem multipleConsumers_no_diag {g : Graph} (hq : mcCloneable g = true) : (multipleConsumers g).2 = [] := by
  unfold multipleConsumers
  have : ∀ (l : List Nat) (st : Graph × List Diag), (∀ n ∈ l, n < g.size) → PresAll g st.1 → st.2 = [] →
      (l.foldl (mcNode g.sinks) st).2 = [] := by
    intro l
    induction l with
    | nil => intro st _ _ hd; exact hd
    | cons n ns ih =>
      intro st hl h hd
      simp only [List.foldl_cons]
      obtain ⟨h1, h2⟩ := mcNode_presAll hq g.sinks st n (hl n (List.mem_cons_self ..)) h hd
      exact ih _ (fun m hm => hl m (List.mem_cons_of_mem _ hm)) h1 h2
  exact this _ (g, []) (fun n hn => List.mem_range.1 hn) ⟨Nat.le_refl _, fun _ _ => ⟨rfl, rfl, rfl⟩, fun _ _ _ => rfl⟩ rfl

end Pxv.CG
