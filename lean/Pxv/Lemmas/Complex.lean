import Pxv.Model.Complex
import Pxv.Lemmas.StalemateInClass
/-! `complexCheck` (the mirror of `complex_borrow_check`): what it may add to a call graph. -/
namespace Pxv.CG
open Graph

theorem mem_union_foldl (b a : List Nat) (x : Nat) :
    x ∈ b.foldl (fun acc y => if acc.contains y then acc else acc ++ [y]) a ↔ x ∈ a ∨ x ∈ b := by
  induction b generalizing a with
  | nil => simp
  | cons y ys ih =>
    simp only [List.foldl_cons, ih, List.mem_cons]
    split
    · rename_i h
      have hy : y ∈ a := by simpa using h
      constructor
      · rintro (h | h)
        · exact Or.inl h
        · exact Or.inr (Or.inr h)
      · rintro (h | h | h)
        · exact Or.inl h
        · exact Or.inl (h ▸ hy)
        · exact Or.inr h
    · simp only [List.mem_append, List.mem_singleton]
      constructor
      · rintro ((h | h) | h)
        · exact Or.inl h
        · exact Or.inr (Or.inl h)
        · exact Or.inr (Or.inr h)
      · rintro (h | h | h)
        · exact Or.inl (Or.inl h)
        · exact Or.inl (Or.inr h)
        · exact Or.inr h

theorem mem_union {a b : List Nat} {x : Nat} : x ∈ union a b ↔ x ∈ a ∨ x ∈ b := mem_union_foldl b a x

theorem mem_dedup' {l : List Nat} {x : Nat} : x ∈ dedup l ↔ x ∈ l := by
  unfold dedup; rw [mem_union]; simp

theorem mem_predsAdj {g : Graph} {n x : Nat} : x ∈ predsAdj g n ↔ x ∈ g.preds n := by
  unfold predsAdj Graph.preds; simp

/-- the graph invariant of the pass -/
def GInv (g0 g : Graph) : Prop := g.wellFormed = true ∧ OnlyClones g0 g

theorem cloneFor_g (s : Cx) (n b : Nat) : (s.cloneFor n b).g = (insertClone s.g b n).1 := rfl

/-- one visited node: the call graph is left alone, or one contended clone-if-necessary dependency of the node is cloned -/
theorem visit_g (s : Cx) (n : Nat) :
    (s.visit n).1.g = s.g ∨
      ∃ b, b ∈ s.g.preds n ∧ (s.g.node b).cloneable = true ∧ s.blocked n b = true ∧ s.ctl.strat = .clone ∧
        (s.visit n).1.g = (insertClone s.g b n).1 := by
  unfold Cx.visit
  simp only []
  split
  · left; rfl
  · split
    · left; rfl
    · rename_i hstrat
      split
      · rename_i b hfind
        right
        have hb := List.mem_of_find?_eq_some hfind
        have hc := List.find?_some hfind
        simp only [List.mem_filter] at hb
        exact ⟨b, mem_predsAdj.1 (mem_dedup'.1 hb.1), by simpa using hc, hb.2, hstrat, rfl⟩
      · left; rfl
    · left; rfl

theorem visit_ginv {g0 : Graph} (s : Cx) (n : Nat) (h : GInv g0 s.g) : GInv g0 (s.visit n).1.g := by
  rcases visit_g s n with h1 | ⟨b, hp, hc, _, _, h1⟩
  · rw [h1]; exact h
  · rw [h1]
    obtain ⟨e, he, hsrc, _⟩ := mem_preds hp
    have hbs : b < s.g.size := hsrc ▸ (wf_endpoints h.1 he).1
    exact ⟨insertClone_wf h.1 hp, onlyClones_insertClone h.2 hbs hc⟩

theorem visiting_ginv {g0 : Graph} : ∀ (fuel : Nat) (s : Cx), GInv g0 s.g → GInv g0 (Cx.visiting fuel s).g := by
  intro fuel
  induction fuel with
  | zero => intro s h; simpa [Cx.visiting] using h
  | succ f ih =>
    intro s h
    unfold Cx.visiting
    split
    · exact h
    · rename_i n _
      have hv := visit_ginv (g0 := g0) { s with toVisit := s.toVisit.dropLast } n h
      simp only []
      split
      · exact hv
      · exact ih _ hv

theorem endRound_g {s s' : Cx} (h : s.endRound = some s') : s'.g = s.g := by
  unfold Cx.endRound at h
  simp only [Option.map_eq_some_iff] at h
  obtain ⟨c, _, rfl⟩ := h
  rfl

theorem loop_ginv {g0 : Graph} : ∀ (fuel : Nat) (s : Cx), GInv g0 s.g → GInv g0 (Cx.loop fuel s).g := by
  intro fuel
  induction fuel with
  | zero => intro s h; simpa [Cx.loop] using h
  | succ f ih =>
    intro s h
    unfold Cx.loop
    have hv := visiting_ginv (g0 := g0) (Cx.visitFuel s.g) s h
    simp only []
    split
    · exact hv
    · rename_i s' hs'
      exact ih s' (by rw [endRound_g hs']; exact hv)

/-- whatever `complexCheck` adds to a well-formed call graph is a clone of a clone-if-necessary node of that graph, handed to
    one consumer; the result is well-formed again. -/
theorem complexCheck_ginv {g : Graph} (hwf : g.wellFormed = true) : GInv g (complexCheck g).g :=
  loop_ginv (g0 := g) (roundFuel g) (Cx.init g) ⟨hwf, onlyClones_refl g⟩

end Pxv.CG

namespace Pxv.CG
open Graph

theorem lookup_setKey (m : List (Nat × List Nat)) (k k' : Nat) (v : List Nat) :
    lookup (setKey m k v) k' = if k' = k then v else lookup m k' := by
  unfold lookup setKey
  rw [List.find?_append]
  by_cases h : k' = k
  · subst h
    have : (m.filter (fun x => x.1 != k')).find? (fun x => x.1 == k') = none := by
      rw [List.find?_eq_none]
      intro x hx
      simp only [List.mem_filter] at hx
      simpa using hx.2
    simp [this]
  · have h1 : (m.filter (fun x => x.1 != k)).find? (fun x => x.1 == k') = m.find? (fun x => x.1 == k') := by
      induction m with
      | nil => rfl
      | cons a as ih =>
        rw [List.filter_cons, List.find?_cons]
        cases hk1 : (a.1 != k) with
        | true =>
          simp only [if_true, List.find?_cons]
          cases hk2 : (a.1 == k') <;> simp [ih]
        | false =>
          have hak : a.1 = k := by simpa using hk1
          have hk2 : (a.1 == k') = false := by simp [hak]; exact fun h' => h h'.symm
          simp [hk2, ih]
    rw [h1]
    have hk : (k == k') = false := by simp; exact fun h' => h h'.symm
    cases hf : m.find? (fun x => x.1 == k') with
    | none => simp [hk, h]
    | some p => simp [h]

end Pxv.CG

namespace Pxv.CG
open Graph

/-- no value is wanted by value while it is borrowed, unless it is Copy (the state of `OwnershipRelationships`) -/
def NoBlock (o : Own) (g : Graph) : Prop :=
  ∀ p, (g.node p).copy = true ∨ lookup o.consumers p = [] ∨ lookup o.borrowers p = []

theorem blocked_false_of_noBlock {s : Cx} (h : NoBlock s.own s.g) (n p : Nat) : s.blocked n p = false := by
  unfold Cx.blocked Own.isConsumedBy Own.isBorrowed
  rcases h p with h | h | h <;> simp [h]

theorem fold_filter_nil (n p : Nat) : ∀ (bs : List Nat) (m : List (Nat × List Nat)), lookup m p = [] →
    lookup (bs.foldl (fun m b => setKey m b ((lookup m b).filter (· != n))) m) p = [] := by
  intro bs
  induction bs with
  | nil => intro m h; simpa using h
  | cons b bs ih =>
    intro m h
    simp only [List.foldl_cons]
    apply ih
    rw [lookup_setKey]
    split
    · rename_i hpb; subst hpb; simp [h]
    · exact h

theorem noBlock_removeAllBorrows {o : Own} {g : Graph} (h : NoBlock o g) (n : Nat) : NoBlock (o.removeAllBorrows n) g := by
  intro p
  rcases h p with h | h | h
  · exact Or.inl h
  · exact Or.inr (Or.inl h)
  · exact Or.inr (Or.inr (fold_filter_nil n p _ _ h))

/-- a node visited while nothing is contended is finished at once: nothing is parked, cloned or reported -/
theorem visit_silent (s : Cx) (n : Nat) (h : NoBlock s.own s.g) :
    (s.visit n).2 = false ∧ (s.visit n).1.g = s.g ∧ (s.visit n).1.diags = s.diags ∧ (s.visit n).1.parked = s.parked ∧
      (s.visit n).1.ctl = s.ctl ∧ NoBlock (s.visit n).1.own (s.visit n).1.g := by
  have hbl : (dedup (predsAdj s.g n)).filter (s.blocked n) = [] := by
    rw [List.filter_eq_nil_iff]
    intro p _
    simp [blocked_false_of_noBlock h n p]
  unfold Cx.visit
  simp only [hbl, List.isEmpty_nil, if_true]
  exact ⟨trivial, trivial, trivial, trivial, trivial, noBlock_removeAllBorrows h n⟩

theorem visiting_silent : ∀ (fuel : Nat) (s : Cx), NoBlock s.own s.g →
    (Cx.visiting fuel s).g = s.g ∧ (Cx.visiting fuel s).diags = s.diags ∧ (Cx.visiting fuel s).parked = s.parked ∧
      (Cx.visiting fuel s).ctl = s.ctl := by
  intro fuel
  induction fuel with
  | zero => intro s _; simp [Cx.visiting]
  | succ f ih =>
    intro s h
    unfold Cx.visiting
    split
    · exact ⟨rfl, rfl, rfl, rfl⟩
    · rename_i n _
      obtain ⟨h1, h2, h3, h4, h5, h6⟩ := visit_silent { s with toVisit := s.toVisit.dropLast } n h
      simp only [h1]
      obtain ⟨i1, i2, i3, i4⟩ := ih _ h6
      exact ⟨i1.trans h2, i2.trans h3, i3.trans h4, i4.trans h5⟩

/-- **the pass is the identity, and silent, when nothing is contended**: if no non-Copy value of the call graph is both
    taken by value and borrowed (directly, or through a value that holds a reference to it), `complexCheck` returns the
    graph as it was and reports nothing. -/
theorem complexCheck_silent {g : Graph} (h : NoBlock (Own.compute g (captured g)) g) :
    (complexCheck g).g = g ∧ (complexCheck g).diags = [] := by
  unfold complexCheck
  have hf : roundFuel g = (roundFuel g - 1) + 1 := by unfold roundFuel; omega
  rw [hf]
  unfold Cx.loop
  obtain ⟨h1, h2, h3, h4⟩ := visiting_silent (Cx.visitFuel (Cx.init g).g) (Cx.init g) h
  have hend : (Cx.visiting (Cx.visitFuel (Cx.init g).g) (Cx.init g)).endRound = none := by
    unfold Cx.endRound
    rw [h3, h4]
    simp [Cx.init, Ctl.next]
  simp only [hend]
  exact ⟨h1, h2⟩

end Pxv.CG

namespace Pxv.CG
open Graph

/-- where the entries of a relationship table come from: `C p` for every value with a consumer, `B p` for every borrowed one -/
def Own.Src (C B : Nat → Prop) (o : Own) : Prop :=
  (∀ p, lookup o.consumers p ≠ [] → C p) ∧ (∀ p, lookup o.borrowers p ≠ [] → B p)

theorem Own.src_addConsume {C B : Nat → Prop} {o : Own} (h : o.Src C B) (n d : Nat) (hd : C d) : (o.addConsume n d).Src C B := by
  refine ⟨fun p hp => ?_, h.2⟩
  simp only [Own.addConsume, lookup_setKey] at hp
  split at hp
  · rename_i hpd; exact hpd ▸ hd
  · exact h.1 p hp

theorem Own.src_addBorrow {C B : Nat → Prop} {o : Own} (h : o.Src C B) (n b : Nat) (hb : B b) : (o.addBorrow n b).Src C B := by
  refine ⟨h.1, fun p hp => ?_⟩
  simp only [Own.addBorrow, lookup_setKey] at hp
  split at hp
  · rename_i hpb; exact hpb ▸ hb
  · exact h.2 p hp

theorem Own.src_fold1 {C B : Nat → Prop} : ∀ (es : List Edge) (o : Own), o.Src C B →
    (∀ e ∈ es, (e.kind = .move → C e.src) ∧ ((e.kind = .shared ∨ e.kind = .excl) → B e.src)) →
    (es.foldl (fun (o : Own) e => match e.kind with
      | .shared => o.addBorrow e.dst e.src
      | .excl => o.addBorrow e.dst e.src
      | .move => o.addConsume e.dst e.src
      | .before => o) o).Src C B := by
  intro es
  induction es with
  | nil => intro o h _; exact h
  | cons e es ih =>
    intro o h hes
    simp only [List.foldl_cons]
    apply ih
    · have he := hes e (List.mem_cons_self ..)
      cases hk : e.kind with
      | move => simp only []; exact Own.src_addConsume h _ _ (he.1 hk)
      | shared => simp only []; exact Own.src_addBorrow h _ _ (he.2 (Or.inl hk))
      | excl => simp only []; exact Own.src_addBorrow h _ _ (he.2 (Or.inr hk))
      | before => simp only []; exact h
    · exact fun e' he' => hes e' (List.mem_cons_of_mem _ he')

theorem Own.src_foldCap {C B : Nat → Prop} (t : Nat) : ∀ (cs : List Nat) (o : Own), o.Src C B → (∀ c ∈ cs, B c) →
    (cs.foldl (fun (o : Own) c => if c != t then o.addBorrow t c else o) o).Src C B := by
  intro cs
  induction cs with
  | nil => intro o h _; exact h
  | cons c cs ih =>
    intro o h hcs
    simp only [List.foldl_cons]
    apply ih
    · split
      · exact Own.src_addBorrow h _ _ (hcs c (List.mem_cons_self ..))
      · exact h
    · exact fun c' hc' => hcs c' (List.mem_cons_of_mem _ hc')

theorem Own.src_fold2 {C B : Nat → Prop} (cap : List (Nat × List Nat)) : ∀ (es : List Edge) (o : Own), o.Src C B →
    (∀ e ∈ es, e.kind ≠ .before → ∀ c ∈ lookup cap e.src, B c) →
    (es.foldl (fun (o : Own) e =>
      if e.kind == .before then o
      else (lookup cap e.src).foldl (fun (o : Own) c => if c != e.dst then o.addBorrow e.dst c else o) o) o).Src C B := by
  intro es
  induction es with
  | nil => intro o h _; exact h
  | cons e es ih =>
    intro o h hes
    simp only [List.foldl_cons]
    apply ih
    · split
      · exact h
      · rename_i hk
        exact Own.src_foldCap e.dst _ o h (hes e (List.mem_cons_self ..) (by simpa using hk))
    · exact fun e' he' => hes e' (List.mem_cons_of_mem _ he')

/-- every entry of the tables `OwnershipRelationships::compute` builds comes from an edge of the call graph: a consumer from a
    `move` edge, a borrower from a `&`/`&mut` edge or from a data edge out of a value that holds a reference -/
theorem Own.compute_src (g : Graph) (cap : List (Nat × List Nat)) :
    (Own.compute g cap).Src (fun p => ∃ e ∈ g.edges, e.kind = .move ∧ e.src = p)
      (fun p => (∃ e ∈ g.edges, (e.kind = .shared ∨ e.kind = .excl) ∧ e.src = p) ∨
        (∃ e ∈ g.edges, e.kind ≠ .before ∧ p ∈ lookup cap e.src)) := by
  unfold Own.compute
  apply Own.src_fold2
  · apply Own.src_fold1
    · exact ⟨fun p hp => absurd rfl hp, fun p hp => absurd rfl hp⟩
    · exact fun e he => ⟨fun hk => ⟨e, he, hk, rfl⟩, fun hk => Or.inl ⟨e, he, hk, rfl⟩⟩
  · exact fun e he hk c hc => Or.inr ⟨e, he, hk, hc⟩

/-- the graph-level reading of "nothing is contended": whatever is taken by value is Copy, or nobody borrows it and no value
    that is used anywhere holds a reference to it (↔ C02's "moved into one consumer and never borrowed"). -/
def uncontended (g : Graph) : Bool :=
  g.edges.all (fun e => e.kind != .move || (g.node e.src).copy ||
    g.edges.all (fun e' => !(e'.src == e.src && (e'.kind == .shared || e'.kind == .excl)) &&
      (e'.kind == .before || !(lookup (captured g) e'.src).contains e.src)))

theorem noBlock_of_uncontended {g : Graph} (h : uncontended g = true) : NoBlock (Own.compute g (captured g)) g := by
  intro p
  have hsrc := Own.compute_src g (captured g)
  by_cases hc : lookup (Own.compute g (captured g)).consumers p = []
  · exact Or.inr (Or.inl hc)
  · obtain ⟨e, he, hk, rfl⟩ := hsrc.1 p hc
    unfold uncontended at h
    rw [List.all_eq_true] at h
    have h1 := h e he
    simp only [hk, bne_self_eq_false, Bool.false_or, Bool.or_eq_true] at h1
    rcases h1 with h1 | h1
    · exact Or.inl h1
    · right; right
      apply Classical.byContradiction
      intro hb
      rw [List.all_eq_true] at h1
      rcases hsrc.2 e.src hb with ⟨e', he', hk', hs'⟩ | ⟨e', he', hk', hm'⟩
      · have := h1 e' he'
        rcases hk' with hk' | hk' <;> simp [hs', hk'] at this
      · have := h1 e' he'
        have hkb : (e'.kind == .before) = false := by cases hke : e'.kind <;> simp_all
        have hcont : (lookup (captured g) e'.src).contains e.src = true := by simpa using hm'
        simp [hkb] at this
        exact this.2 hm'

/-- **C02 for `complex_borrow_check`**: on a call graph in which every value that is taken by value is Copy or is borrowed by
    nobody (neither directly nor through a value holding a reference to it), the pass changes nothing and reports nothing. -/
theorem complexCheck_silent_of_uncontended {g : Graph} (h : uncontended g = true) :
    (complexCheck g).g = g ∧ (complexCheck g).diags = [] :=
  complexCheck_silent (noBlock_of_uncontended h)

end Pxv.CG
