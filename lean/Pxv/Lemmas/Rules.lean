import Pxv.Model.Rules
/-! Helper lemmas for C08: the worklist closure and the DFS cycle search of `Pxv/Model/Rules.lean`. -/
namespace Pxv.Rules

/-! ## counting -/

theorem length_filterMap_pos {α β} {f : α → Option β} {l : List α} {a : α} (ha : a ∈ l)
    (hfa : (f a).isSome = true) : 0 < (l.filterMap f).length := by
  obtain ⟨b, hb⟩ := Option.isSome_iff_exists.mp hfa
  have : b ∈ l.filterMap f := List.mem_filterMap.mpr ⟨a, ha, hb⟩
  exact List.length_pos_of_mem this

theorem two_le_length_filterMap {α β} {f : α → Option β} : ∀ {l : List α} {a b : α},
    a ∈ l → b ∈ l → a ≠ b → (f a).isSome = true → (f b).isSome = true → 2 ≤ (l.filterMap f).length := by
  intro l
  induction l with
  | nil => intro a b ha; cases ha
  | cons x l ih =>
    intro a b ha hb hab hfa hfb
    have hmono : (l.filterMap f).length ≤ ((x :: l).filterMap f).length := by
      rw [List.filterMap_cons]; split <;> simp
    rcases List.mem_cons.mp ha with rfl | ha'
    · rcases List.mem_cons.mp hb with e | hb'
      · exact absurd e.symm hab
      · obtain ⟨y, hy⟩ := Option.isSome_iff_exists.mp hfa
        rw [List.filterMap_cons, hy]
        have := length_filterMap_pos hb' hfb
        simp; omega
    · rcases List.mem_cons.mp hb with rfl | hb'
      · obtain ⟨y, hy⟩ := Option.isSome_iff_exists.mp hfb
        rw [List.filterMap_cons, hy]
        have := length_filterMap_pos ha' hfa
        simp; omega
      · exact Nat.le_trans (ih ha' hb' hab hfa hfb) hmono

theorem two_le_length_filter {α} {p : α → Bool} : ∀ {l : List α} {k1 k2 : Nat} {a b : α},
    k1 < k2 → l[k1]? = some a → l[k2]? = some b → p a = true → p b = true → 2 ≤ (l.filter p).length := by
  intro l
  induction l with
  | nil => intro k1 k2 a b _ h; simp at h
  | cons x l ih =>
    intro k1 k2 a b hlt h1 h2 pa pb
    cases k2 with
    | zero => omega
    | succ k2 =>
      simp only [List.getElem?_cons_succ] at h2
      cases k1 with
      | zero =>
        simp only [List.getElem?_cons_zero, Option.some.injEq] at h1
        subst h1
        have hb : b ∈ l.filter p := List.mem_filter.mpr ⟨List.mem_of_getElem? h2, pb⟩
        have := List.length_pos_of_mem hb
        simp [List.filter_cons, pa]; omega
      | succ k1 =>
        simp only [List.getElem?_cons_succ] at h1
        have := ih (Nat.lt_of_succ_lt_succ hlt) h1 h2 pa pb
        rw [List.filter_cons]; split <;> simp <;> omega

/-! ## `enq` -/

theorem enq_mono (next todo rem : List Nat) {x : Nat} (h : x ∈ todo) : x ∈ enq next todo rem := by
  unfold enq
  induction next generalizing todo with
  | nil => simpa using h
  | cons a next ih =>
    simp only [List.foldl_cons]
    apply ih
    split
    · exact List.mem_append_left _ h
    · exact h

theorem enq_mem_of (next todo rem : List Nat) {x : Nat} (hx : x ∈ next) (hr : x ∈ rem) :
    x ∈ enq next todo rem := by
  unfold enq
  induction next generalizing todo with
  | nil => cases hx
  | cons a next ih =>
    simp only [List.foldl_cons]
    rcases List.mem_cons.mp hx with rfl | hx
    · have : x ∈ (if (rem.contains x && !todo.contains x) = true then todo ++ [x] else todo) := by
        by_cases ht : x ∈ todo
        · split
          · exact List.mem_append_left _ ht
          · exact ht
        · have : (rem.contains x && !todo.contains x) = true := by simp [hr, ht]
          rw [if_pos this]
          simp
      exact enq_mono next _ rem this
    · exact ih _ hx

theorem enq_sub (next todo rem : List Nat) {x : Nat} (h : x ∈ enq next todo rem) :
    x ∈ todo ∨ (x ∈ next ∧ x ∈ rem) := by
  unfold enq at h
  induction next generalizing todo with
  | nil => left; simpa using h
  | cons a next ih =>
    simp only [List.foldl_cons] at h
    rcases ih _ h with h1 | ⟨h1, h2⟩
    · split at h1
      · rename_i hc
        rcases List.mem_append.mp h1 with h1 | h1
        · exact Or.inl h1
        · simp at h1
          subst h1
          simp at hc
          exact Or.inr ⟨List.mem_cons_self, hc.1⟩
      · exact Or.inl h1
    · exact Or.inr ⟨List.mem_cons_of_mem _ h1, h2⟩

theorem enq_nodup (next todo rem : List Nat) (h : todo.Nodup) : (enq next todo rem).Nodup := by
  unfold enq
  induction next generalizing todo with
  | nil => simpa using h
  | cons a next ih =>
    simp only [List.foldl_cons]
    apply ih
    split
    · rename_i hc
      simp at hc
      rw [List.nodup_append]
      refine ⟨h, by simp, ?_⟩
      intro x hx y hy
      simp at hy
      subst hy
      intro hxy
      subst hxy
      exact hc.2 hx
    · exact h

/-! ## the worklist closure -/

/-- reachability through `succ` inside the node set `{0..n-1}`. -/
inductive ReachN (succ : Nat → List Nat) (n : Nat) : Nat → Nat → Prop
  | refl (a : Nat) : ReachN succ n a a
  | step {a b c : Nat} : ReachN succ n a b → c ∈ succ b → c < n → ReachN succ n a c

theorem closureLoop_spec (succ : Nat → List Nat) (n : Nat) :
    ∀ (fuel : Nat) (todo rem done : List Nat),
      todo.Nodup → (∀ x ∈ todo, x ∈ rem) → rem.Nodup → rem.length ≤ fuel →
      (∀ x, x < n → x ∈ rem ∨ x ∈ done) →
      (∀ i ∈ done, ∀ j ∈ succ i, j < n → j ∈ done ∨ j ∈ todo) →
      (∀ x ∈ done, x ∈ closureLoop succ fuel todo rem done) ∧
      (∀ x ∈ todo, x ∈ closureLoop succ fuel todo rem done) ∧
      (∀ i ∈ closureLoop succ fuel todo rem done, ∀ j ∈ succ i, j < n →
        j ∈ closureLoop succ fuel todo rem done) := by
  intro fuel
  induction fuel with
  | zero =>
    intro todo rem done _ hsub _ hlen _ hJ
    have hrem : rem = [] := List.eq_nil_of_length_eq_zero (Nat.le_zero.mp hlen)
    have htodo : todo = [] := by
      cases todo with
      | nil => rfl
      | cons a t => have := hsub a List.mem_cons_self; simp [hrem] at this
    subst htodo
    simp only [closureLoop]
    refine ⟨fun x hx => hx, by simp, ?_⟩
    intro i hi j hj hjn
    rcases hJ i hi j hj hjn with h | h
    · exact h
    · cases h
  | succ fuel ih =>
    intro todo rem done hnd hsub hrnd hlen hK hJ
    cases todo with
    | nil =>
      simp only [closureLoop]
      refine ⟨fun x hx => hx, by simp, ?_⟩
      intro i hi j hj hjn
      rcases hJ i hi j hj hjn with h | h
      · exact h
      · cases h
    | cons i todo =>
      simp only [closureLoop]
      have hi_rem : i ∈ rem := hsub i List.mem_cons_self
      have hnd' := List.nodup_cons.mp hnd
      have key := ih (enq (succ i) todo (rem.erase i)) (rem.erase i) (done ++ [i])
        (enq_nodup _ _ _ hnd'.2)
        (by
          intro x hx
          rcases enq_sub _ _ _ hx with h | ⟨_, h⟩
          · have hne : x ≠ i := by intro e; subst e; exact hnd'.1 h
            exact (List.mem_erase_of_ne hne).mpr (hsub x (List.mem_cons_of_mem _ h))
          · exact h)
        (List.Nodup.erase i hrnd)
        (by rw [List.length_erase_of_mem hi_rem]; omega)
        (by
          intro x hx
          rcases hK x hx with h | h
          · by_cases e : x = i
            · right; subst e; simp
            · left; exact (List.mem_erase_of_ne e).mpr h
          · right; exact List.mem_append_left _ h)
        (by
          intro i' hi' j hj hjn
          rcases List.mem_append.mp hi' with hi' | hi'
          · rcases hJ i' hi' j hj hjn with h | h
            · left; exact List.mem_append_left _ h
            · rcases List.mem_cons.mp h with h | h
              · left; subst h; simp
              · right; exact enq_mono _ _ _ h
          · simp at hi'
            subst hi'
            rcases hK j hjn with h | h
            · by_cases e : j = i'
              · left; subst e; simp
              · right; exact enq_mem_of _ _ _ hj ((List.mem_erase_of_ne e).mpr h)
            · left; exact List.mem_append_left _ h)
      obtain ⟨k1, k2, k3⟩ := key
      refine ⟨fun x hx => k1 x (List.mem_append_left _ hx), ?_, k3⟩
      intro x hx
      rcases List.mem_cons.mp hx with h | h
      · subst h; exact k1 x (by simp)
      · exact k2 x (enq_mono _ _ _ h)

/-- the closure contains the roots and is closed under `succ` (within `{0..n-1}`). -/
theorem closure_closed (succ : Nat → List Nat) (n : Nat) (roots : List Nat) :
    (∀ r ∈ roots, r < n → r ∈ closure succ n roots) ∧
    (∀ i ∈ closure succ n roots, ∀ j ∈ succ i, j < n → j ∈ closure succ n roots) := by
  have key := closureLoop_spec succ n n (enq roots [] (List.range n)) (List.range n) []
    (enq_nodup _ _ _ List.nodup_nil)
    (by
      intro x hx
      rcases enq_sub _ _ _ hx with h | ⟨_, h⟩
      · cases h
      · exact h)
    List.nodup_range (by simp)
    (by intro x hx; left; exact List.mem_range.mpr hx)
    (by intro i hi; cases hi)
  refine ⟨?_, key.2.2⟩
  intro r hr hrn
  exact key.2.1 r (enq_mem_of _ _ _ hr (List.mem_range.mpr hrn))

/-- **completeness of the worklist**: everything reachable from a root is processed. -/
theorem closure_complete (succ : Nat → List Nat) (n : Nat) (roots : List Nat) {r c : Nat}
    (hr : r ∈ roots) (hrn : r < n) (h : ReachN succ n r c) : c ∈ closure succ n roots := by
  induction h with
  | refl => exact (closure_closed succ n roots).1 r hr hrn
  | step _ hc hcn ih => exact (closure_closed succ n roots).2 _ ih _ hc hcn


/-- **soundness of the worklist**: whatever is processed is a node reachable from a root. -/
theorem closureLoop_sound (succ : Nat → List Nat) (n : Nat) (roots : List Nat) :
    ∀ (fuel : Nat) (todo rem done : List Nat),
      (∀ x ∈ todo, x < n ∧ ∃ r ∈ roots, ReachN succ n r x) →
      (∀ x ∈ done, x < n ∧ ∃ r ∈ roots, ReachN succ n r x) →
      (∀ x ∈ rem, x < n) →
      ∀ x ∈ closureLoop succ fuel todo rem done, x < n ∧ ∃ r ∈ roots, ReachN succ n r x := by
  intro fuel
  induction fuel with
  | zero => intro todo rem done _ hd _ x hx; exact hd x (by simpa [closureLoop] using hx)
  | succ fuel ih =>
    intro todo rem done ht hd hr x hx
    cases todo with
    | nil => exact hd x (by simpa [closureLoop] using hx)
    | cons i todo =>
      simp only [closureLoop] at hx
      have hi := ht i List.mem_cons_self
      refine ih _ _ _ ?_ ?_ ?_ x hx
      · intro y hy
        rcases enq_sub _ _ _ hy with h | ⟨h1, h2⟩
        · exact ht y (List.mem_cons_of_mem _ h)
        · have hyn : y < n := hr y (List.mem_of_mem_erase h2)
          obtain ⟨r, hr', hreach⟩ := hi.2
          exact ⟨hyn, r, hr', .step hreach h1 hyn⟩
      · intro y hy
        rcases List.mem_append.mp hy with h | h
        · exact hd y h
        · simp at h; subst h; exact hi
      · intro y hy; exact hr y (List.mem_of_mem_erase hy)

theorem closure_sound (succ : Nat → List Nat) (n : Nat) (roots : List Nat) {c : Nat}
    (h : c ∈ closure succ n roots) : c < n ∧ ∃ r ∈ roots, ReachN succ n r c := by
  refine closureLoop_sound succ n roots n _ _ [] ?_ (by simp) (by intro x hx; exact List.mem_range.mp hx) c h
  intro x hx
  rcases enq_sub _ _ _ hx with h | ⟨h1, h2⟩
  · cases h
  · exact ⟨List.mem_range.mp h2, x, h1, .refl x⟩

/-! ## DFS cycle search -/

/-- a path with at least one edge in the graph given by a successor function. -/
inductive PathS (succ : Nat → List Nat) : Nat → Nat → Prop
  | single {a b : Nat} : b ∈ succ a → PathS succ a b
  | cons {a b c : Nat} : b ∈ succ a → PathS succ b c → PathS succ a c

theorem PathS.snoc {succ : Nat → List Nat} {a b c : Nat} (h : PathS succ a b) (e : c ∈ succ b) :
    PathS succ a c := by
  induction h with
  | single e1 => exact .cons e1 (.single e)
  | cons e1 _ ih => exact .cons e1 (ih e)

theorem PathS.trans {succ : Nat → List Nat} {a b c : Nat} (h : PathS succ a b) (h2 : PathS succ b c) :
    PathS succ a c := by
  induction h with
  | single e1 => exact .cons e1 h2
  | cons e1 _ ih => exact .cons e1 (ih h2)

/-- a path stays a path in any graph that agrees with the first one on a set closed under its edges. -/
theorem PathS.transfer {f g : Nat → List Nat} {P : Nat → Prop}
    (hstep : ∀ a b, P a → b ∈ f a → b ∈ g a ∧ P b) {a c : Nat} (ha : P a) (h : PathS f a c) :
    PathS g a c := by
  induction h with
  | single e => exact .single (hstep _ _ ha e).1
  | cons e _ ih => exact .cons (hstep _ _ ha e).1 (ih (hstep _ _ ha e).2)

def OnCycle (adj : List (List Nat)) (v : Nat) : Prop := PathS (succOf adj) v v
def HasCycle (adj : List (List Nat)) : Prop := ∃ v, OnCycle adj v

theorem onCycle_succ {adj : List (List Nat)} {v : Nat} (h : OnCycle adj v) :
    ∃ w ∈ succOf adj v, OnCycle adj w := by
  unfold OnCycle at h
  cases h with
  | single e => exact ⟨v, e, .single e⟩
  | cons e p => exact ⟨_, e, p.snoc e⟩

theorem not_onCycle_of_ge {adj : List (List Nat)} {v : Nat} (h : adj.length ≤ v) : ¬ OnCycle adj v := by
  intro hc
  obtain ⟨w, hw, _⟩ := onCycle_succ hc
  simp [succOf, List.getD_eq_getElem?_getD, List.getElem?_eq_none h] at hw

def Black (st : DfsState) (x : Nat) : Prop := x ∉ st.unvis ∧ x ∉ st.stack
/-- no finished node lies on a cycle -/
def PInv (adj : List (List Nat)) (st : DfsState) : Prop := ∀ x, Black st x → ¬ OnCycle adj x
/-- nodes on the stack have been visited -/
def DInv (st : DfsState) : Prop := ∀ x ∈ st.stack, x ∉ st.unvis

/-- one iteration of the loop over the neighbours in `dfs`. -/
def dfsStep (adj : List (List Nat)) (fuel : Nat) (st : DfsState) (w : Nat) : DfsState :=
  if st.unvis.contains w then dfs adj fuel w st
  else if st.stack.contains w then
    { st with cycles := st.cycles ++ [st.stack.dropWhile (· != w)] }
  else st

theorem dfs_succ_eq (adj : List (List Nat)) (fuel v : Nat) (st : DfsState) :
    dfs adj (fuel + 1) v st =
      let st2 := (succOf adj v).foldl (dfsStep adj fuel)
        { st with unvis := st.unvis.erase v, stack := st.stack ++ [v] }
      { st2 with stack := st2.stack.dropLast } := by
  rfl

structure DfsPost (adj : List (List Nat)) (st st' : DfsState) : Prop where
  stack : st'.stack = st.stack
  unvis : st'.unvis.Sublist st.unvis
  mono : st'.cycles = [] → st.cycles = []
  pinv : st'.cycles = [] → PInv adj st → PInv adj st'

theorem fold_spec (adj : List (List Nat)) (fuel : Nat)
    (ihd : ∀ v st, v ∈ st.unvis → st.unvis.Nodup → st.unvis.length ≤ fuel → DInv st →
      DfsPost adj st (dfs adj fuel v st) ∧ v ∉ (dfs adj fuel v st).unvis) :
    ∀ (ws : List Nat) (st0 : DfsState), st0.unvis.Nodup → st0.unvis.length ≤ fuel → DInv st0 →
      DfsPost adj st0 (ws.foldl (dfsStep adj fuel) st0) ∧
      ((ws.foldl (dfsStep adj fuel) st0).cycles = [] → PInv adj st0 → ∀ w ∈ ws, ¬ OnCycle adj w) := by
  intro ws
  induction ws with
  | nil =>
    intro st0 _ _ _
    exact ⟨⟨rfl, List.Sublist.refl _, id, fun _ h => h⟩, by simp⟩
  | cons w ws ih =>
    intro st0 hnd hlen hD
    simp only [List.foldl_cons]
    -- the step for `w`
    have hstep : DfsPost adj st0 (dfsStep adj fuel st0 w) ∧
        ((dfsStep adj fuel st0 w).cycles = [] → PInv adj st0 → ¬ OnCycle adj w) := by
      unfold dfsStep
      by_cases h1 : w ∈ st0.unvis
      · have hc : st0.unvis.contains w = true := List.contains_iff_mem.mpr h1
        simp only [hc, if_true]
        obtain ⟨post, hw⟩ := ihd w st0 h1 hnd hlen hD
        refine ⟨post, ?_⟩
        intro hcy hP
        apply post.pinv hcy hP w
        refine ⟨hw, ?_⟩
        rw [post.stack]
        intro hs
        exact hD w hs h1
      · have hc : st0.unvis.contains w = false := by
          cases h : st0.unvis.contains w
          · rfl
          · exact absurd (List.contains_iff_mem.mp h) h1
        simp only [hc, Bool.false_eq_true, if_false]
        by_cases h2 : w ∈ st0.stack
        · have hc2 : st0.stack.contains w = true := List.contains_iff_mem.mpr h2
          simp only [hc2, if_true]
          refine ⟨⟨rfl, List.Sublist.refl _, ?_, ?_⟩, ?_⟩ <;> simp
        · have hc2 : st0.stack.contains w = false := by
            cases h : st0.stack.contains w
            · rfl
            · exact absurd (List.contains_iff_mem.mp h) h2
          simp only [hc2, Bool.false_eq_true, if_false]
          exact ⟨⟨rfl, List.Sublist.refl _, id, fun _ h => h⟩, fun _ hP => hP w ⟨h1, h2⟩⟩
    obtain ⟨post1, hw⟩ := hstep
    have hnd1 : (dfsStep adj fuel st0 w).unvis.Nodup := List.Nodup.sublist post1.unvis hnd
    have hlen1 : (dfsStep adj fuel st0 w).unvis.length ≤ fuel :=
      Nat.le_trans post1.unvis.length_le hlen
    have hD1 : DInv (dfsStep adj fuel st0 w) := by
      intro x hx hx2
      rw [post1.stack] at hx
      exact hD x hx (post1.unvis.subset hx2)
    obtain ⟨post2, hws⟩ := ih (dfsStep adj fuel st0 w) hnd1 hlen1 hD1
    refine ⟨⟨post2.stack.trans post1.stack, post2.unvis.trans post1.unvis,
      fun h => post1.mono (post2.mono h), fun h hP => post2.pinv h (post1.pinv (post2.mono h) hP)⟩, ?_⟩
    intro hcy hP x hx
    rcases List.mem_cons.mp hx with e | hx
    · subst e; exact hw (post2.mono hcy) hP
    · exact hws hcy (post1.pinv (post2.mono hcy) hP) x hx

theorem dfs_spec (adj : List (List Nat)) :
    ∀ (fuel v : Nat) (st : DfsState), v ∈ st.unvis → st.unvis.Nodup → st.unvis.length ≤ fuel → DInv st →
      DfsPost adj st (dfs adj fuel v st) ∧ v ∉ (dfs adj fuel v st).unvis := by
  intro fuel
  induction fuel with
  | zero =>
    intro v st hv _ hlen _
    have : st.unvis = [] := List.eq_nil_of_length_eq_zero (Nat.le_zero.mp hlen)
    rw [this] at hv
    cases hv
  | succ fuel ih =>
    intro v st hv hnd hlen hD
    rw [dfs_succ_eq]
    let st1 : DfsState := { st with unvis := st.unvis.erase v, stack := st.stack ++ [v] }
    have hnd1 : st1.unvis.Nodup := List.Nodup.erase v hnd
    have hlen1 : st1.unvis.length ≤ fuel := by
      show (st.unvis.erase v).length ≤ fuel
      rw [List.length_erase_of_mem hv]; omega
    have hvnot : v ∉ st.unvis.erase v := by
      intro h
      exact ((List.Nodup.mem_erase_iff hnd).mp h).1 rfl
    have hD1 : DInv st1 := by
      intro x hx hx2
      have hx2' : x ∈ st.unvis.erase v := hx2
      rcases List.mem_append.mp (show x ∈ st.stack ++ [v] from hx) with h | h
      · exact hD x h (List.mem_of_mem_erase hx2')
      · simp at h; subst h; exact hvnot hx2'
    obtain ⟨post, hws⟩ := fold_spec adj fuel ih (succOf adj v) st1 hnd1 hlen1 hD1
    have hstack : ((succOf adj v).foldl (dfsStep adj fuel) st1).stack = st.stack ++ [v] := post.stack
    refine ⟨⟨?_, ?_, ?_, ?_⟩, ?_⟩
    · show (((succOf adj v).foldl (dfsStep adj fuel) st1).stack).dropLast = st.stack
      rw [hstack, List.dropLast_concat]
    · exact post.unvis.trans List.erase_sublist
    · intro h; exact post.mono h
    · intro hcy hP
      have hP1 : PInv adj st1 := by
        intro x hb
        apply hP x
        have hxv : x ≠ v := by
          intro e; subst e
          exact hb.2 (List.mem_append_right _ (by simp))
        refine ⟨?_, ?_⟩
        · intro hx; exact hb.1 ((List.mem_erase_of_ne hxv).mpr hx)
        · intro hx; exact hb.2 (List.mem_append_left _ hx)
      have hP2 := post.pinv hcy hP1
      have hsucc := hws hcy hP1
      intro x hb
      by_cases e : x = v
      · subst e
        intro hc
        obtain ⟨w, hw, hwc⟩ := onCycle_succ hc
        exact hsucc w hw hwc
      · apply hP2 x
        refine ⟨hb.1, ?_⟩
        intro hx
        rw [hstack] at hx
        rcases List.mem_append.mp hx with h | h
        · exact hb.2 (by show x ∈ (((succOf adj v).foldl (dfsStep adj fuel) st1).stack).dropLast; rw [hstack, List.dropLast_concat]; exact h)
        · simp at h; exact e h
    · intro h
      exact hvnot (post.unvis.subset h)


/-- one iteration of the outer loop of `find_cycles`. -/
def topStep (adj : List (List Nat)) (st : DfsState) (v : Nat) : DfsState :=
  if st.unvis.contains v then dfs adj adj.length v st else st

theorem findCyclesState_eq (adj : List (List Nat)) :
    findCyclesState adj = (List.range adj.length).foldl (topStep adj)
      { unvis := List.range adj.length, stack := [], cycles := [] } := rfl

theorem top_spec (adj : List (List Nat)) :
    ∀ (vs : List Nat) (st0 : DfsState), st0.stack = [] → st0.unvis.Nodup → st0.unvis.length ≤ adj.length →
      DfsPost adj st0 (vs.foldl (topStep adj) st0) ∧ ∀ v ∈ vs, v ∉ (vs.foldl (topStep adj) st0).unvis := by
  intro vs
  induction vs with
  | nil => intro st0 _ _ _; exact ⟨⟨rfl, List.Sublist.refl _, id, fun _ h => h⟩, by simp⟩
  | cons v vs ih =>
    intro st0 hs hnd hlen
    simp only [List.foldl_cons]
    have hD0 : DInv st0 := by intro x hx; rw [hs] at hx; cases hx
    have hstep : DfsPost adj st0 (topStep adj st0 v) ∧ v ∉ (topStep adj st0 v).unvis := by
      unfold topStep
      by_cases h1 : v ∈ st0.unvis
      · simp only [List.contains_iff_mem.mpr h1, if_true]
        exact dfs_spec adj adj.length v st0 h1 hnd hlen hD0
      · have hc : st0.unvis.contains v = false := by
          cases h : st0.unvis.contains v
          · rfl
          · exact absurd (List.contains_iff_mem.mp h) h1
        simp only [hc, Bool.false_eq_true, if_false]
        exact ⟨⟨rfl, List.Sublist.refl _, id, fun _ h => h⟩, h1⟩
    obtain ⟨post1, hv⟩ := hstep
    obtain ⟨post2, hvs⟩ := ih (topStep adj st0 v) (post1.stack.trans hs)
      (List.Nodup.sublist post1.unvis hnd) (Nat.le_trans post1.unvis.length_le hlen)
    refine ⟨⟨post2.stack.trans post1.stack, post2.unvis.trans post1.unvis,
      fun h => post1.mono (post2.mono h), fun h hP => post2.pinv h (post1.pinv (post2.mono h) hP)⟩, ?_⟩
    intro x hx
    rcases List.mem_cons.mp hx with e | hx
    · subst e; intro h; exact hv (post2.unvis.subset h)
    · exact hvs x hx

/-- **completeness of the cycle search**: if the graph has a cycle, `find_cycles` reports one. -/
theorem findCycles_complete (adj : List (List Nat)) (h : HasCycle adj) : findCycles adj ≠ [] := by
  intro hnil
  obtain ⟨v, hv⟩ := h
  unfold findCycles at hnil
  rw [findCyclesState_eq] at hnil
  obtain ⟨post, hvis⟩ := top_spec adj (List.range adj.length)
    { unvis := List.range adj.length, stack := [], cycles := [] } rfl List.nodup_range (by simp)
  have hP0 : PInv adj { unvis := List.range adj.length, stack := [], cycles := [] } := by
    intro x hb
    have : ¬ x < adj.length := fun hx => hb.1 (List.mem_range.mpr hx)
    exact not_onCycle_of_ge (Nat.le_of_not_lt this)
  have hPf := post.pinv hnil hP0
  apply hPf v _ hv
  refine ⟨?_, ?_⟩
  · by_cases hlt : v < adj.length
    · exact hvis v (List.mem_range.mpr hlt)
    · intro hmem
      exact hlt (List.mem_range.mp (post.unvis.subset hmem))
  · rw [post.stack]; simp


/-! ## soundness of the cycle search: every reported cycle is one -/

/-- consecutive elements are edges -/
def Chain (succ : Nat → List Nat) : List Nat → Prop
  | [] => True
  | a :: l => (∀ b, l.head? = some b → b ∈ succ a) ∧ Chain succ l

/-- a closed walk: non-empty, and followed by its first node it is a chain
    (so the last node points back at the first). -/
def IsCycle (adj : List (List Nat)) (c : List Nat) : Prop :=
  ∃ a, c.head? = some a ∧ Chain (succOf adj) (c ++ [a])

theorem chain_of_append {succ : Nat → List Nat} : ∀ (t l : List Nat), Chain succ (t ++ l) → Chain succ l := by
  intro t
  induction t with
  | nil => intro l h; exact h
  | cons x t ih => intro l h; exact ih l h.2

theorem chain_snoc_edge {succ : Nat → List Nat} {v w : Nat} (hw : w ∈ succ v) :
    ∀ (l : List Nat), Chain succ (l ++ [v]) → Chain succ (l ++ [v] ++ [w]) := by
  intro l
  induction l with
  | nil =>
    intro _
    show (∀ b, [w].head? = some b → b ∈ succ v) ∧ Chain succ [w]
    refine ⟨?_, ?_, trivial⟩
    · intro b hb; simp at hb; subst hb; exact hw
    · intro b hb; simp at hb
  | cons a l ih =>
    intro h
    have h' : (∀ b, (l ++ [v]).head? = some b → b ∈ succ a) ∧ Chain succ (l ++ [v]) := h
    show (∀ b, (l ++ [v] ++ [w]).head? = some b → b ∈ succ a) ∧ Chain succ (l ++ [v] ++ [w])
    refine ⟨?_, ih h'.2⟩
    intro b hb
    apply h'.1 b
    cases l with
    | nil => simpa using hb
    | cons x l => simpa using hb

theorem head?_dropWhile_ne {w : Nat} : ∀ (l : List Nat), w ∈ l → (l.dropWhile (· != w)).head? = some w := by
  intro l
  induction l with
  | nil => intro h; cases h
  | cons x l ih =>
    intro h
    rw [List.dropWhile_cons]
    by_cases e : x = w
    · subst e; simp
    · have : (x != w) = true := by simp [e]
      rw [if_pos this]
      rcases List.mem_cons.mp h with h | h
      · exact absurd h.symm e
      · exact ih h

theorem chain_to_path {succ : Nat → List Nat} : ∀ (l : List Nat) (a b : Nat),
    Chain succ (a :: (l ++ [b])) → PathS succ a b := by
  intro l
  induction l with
  | nil =>
    intro a b h
    exact .single (h.1 b (by simp))
  | cons x l ih =>
    intro a b h
    exact .cons (h.1 x (by simp)) (ih x b h.2)

/-- a reported cycle gives a node that reaches itself. -/
theorem IsCycle.onCycle {adj : List (List Nat)} {c : List Nat} (h : IsCycle adj c) : ∃ a, OnCycle adj a := by
  obtain ⟨a, ha, hch⟩ := h
  cases c with
  | nil => simp at ha
  | cons x l =>
    simp at ha
    subst ha
    exact ⟨x, chain_to_path l x x hch⟩

/-- the stack is a chain and everything reported so far is a cycle -/
def SInv (adj : List (List Nat)) (st : DfsState) : Prop :=
  ∀ c ∈ st.cycles, IsCycle adj c

theorem dfsStep_stack (adj : List (List Nat)) (fuel : Nat)
    (ih : ∀ v st, (dfs adj fuel v st).stack = st.stack) (st : DfsState) (w : Nat) :
    (dfsStep adj fuel st w).stack = st.stack := by
  unfold dfsStep
  split
  · exact ih w st
  · split <;> rfl

theorem fold_stack (adj : List (List Nat)) (fuel : Nat)
    (ih : ∀ v st, (dfs adj fuel v st).stack = st.stack) :
    ∀ (ws : List Nat) (st : DfsState), (ws.foldl (dfsStep adj fuel) st).stack = st.stack := by
  intro ws
  induction ws with
  | nil => intro st; rfl
  | cons w ws ihw =>
    intro st
    simp only [List.foldl_cons]
    rw [ihw, dfsStep_stack adj fuel ih]

/-- `dfs` leaves the stack as it found it. -/
theorem dfs_stack (adj : List (List Nat)) : ∀ (fuel v : Nat) (st : DfsState),
    (dfs adj fuel v st).stack = st.stack := by
  intro fuel
  induction fuel with
  | zero => intro v st; rfl
  | succ fuel ih =>
    intro v st
    rw [dfs_succ_eq]
    show (((succOf adj v).foldl (dfsStep adj fuel) _).stack).dropLast = st.stack
    rw [fold_stack adj fuel ih]
    exact List.dropLast_concat

theorem fold_sound (adj : List (List Nat)) (fuel v : Nat)
    (ihd : ∀ w st, Chain (succOf adj) (st.stack ++ [w]) → SInv adj st → SInv adj (dfs adj fuel w st)) :
    ∀ (ws : List Nat) (st0 : DfsState) (S : List Nat), (∀ w ∈ ws, w ∈ succOf adj v) →
      st0.stack = S ++ [v] → Chain (succOf adj) (S ++ [v]) → SInv adj st0 →
      SInv adj (ws.foldl (dfsStep adj fuel) st0) := by
  intro ws
  induction ws with
  | nil => intro st0 S _ _ _ h; exact h
  | cons w ws ih =>
    intro st0 S hws hst hch hinv
    simp only [List.foldl_cons]
    have hw : w ∈ succOf adj v := hws w List.mem_cons_self
    have hch' : Chain (succOf adj) (st0.stack ++ [w]) := by rw [hst]; exact chain_snoc_edge hw S hch
    have hstep : SInv adj (dfsStep adj fuel st0 w) := by
      unfold dfsStep
      split
      · exact ihd w st0 hch' hinv
      · split
        · rename_i _ hmem
          intro c hc
          simp only [List.mem_append, List.mem_singleton] at hc
          rcases hc with hc | hc
          · exact hinv c hc
          · subst hc
            have hwm : w ∈ st0.stack := List.contains_iff_mem.mp hmem
            refine ⟨w, head?_dropWhile_ne _ hwm, ?_⟩
            obtain ⟨t, ht⟩ := List.dropWhile_suffix (l := st0.stack) (· != w)
            apply chain_of_append t
            rw [← List.append_assoc, ht]
            exact hch'
        · exact hinv
    have hstack : (dfsStep adj fuel st0 w).stack = S ++ [v] := by
      rw [dfsStep_stack adj fuel (dfs_stack adj fuel)]; exact hst
    exact ih _ S (fun x hx => hws x (List.mem_cons_of_mem _ hx)) hstack hch hstep

theorem dfs_sound (adj : List (List Nat)) : ∀ (fuel v : Nat) (st : DfsState),
    Chain (succOf adj) (st.stack ++ [v]) → SInv adj st → SInv adj (dfs adj fuel v st) := by
  intro fuel
  induction fuel with
  | zero => intro v st _ h; exact h
  | succ fuel ih =>
    intro v st hch hinv
    rw [dfs_succ_eq]
    exact fold_sound adj fuel v ih (succOf adj v) _ st.stack (fun _ h => h) rfl hch hinv

/-- **soundness of the cycle search**: every list `find_cycles` returns is a closed walk of the graph. -/
theorem findCycles_sound (adj : List (List Nat)) : ∀ c ∈ findCycles adj, IsCycle adj c := by
  unfold findCycles
  rw [findCyclesState_eq]
  suffices h : ∀ (vs : List Nat) (st : DfsState), st.stack = [] → SInv adj st →
      SInv adj (vs.foldl (topStep adj) st) ∧ (vs.foldl (topStep adj) st).stack = [] from
    (h _ _ rfl (by intro c hc; cases hc)).1
  intro vs
  induction vs with
  | nil => intro st hs h; exact ⟨h, hs⟩
  | cons v vs ih =>
    intro st hs hinv
    simp only [List.foldl_cons]
    have h1 : SInv adj (topStep adj st v) ∧ (topStep adj st v).stack = [] := by
      unfold topStep
      split
      · refine ⟨dfs_sound adj _ v st ?_ hinv, by rw [dfs_stack]; exact hs⟩
        rw [hs]; exact ⟨by simp, trivial⟩
      · exact ⟨hinv, hs⟩
    exact ih _ h1.2 h1.1

end Pxv.Rules
