import Pxv.Lemmas.TyParse2
import Pxv.Model.TySpec
/-! Helper lemmas for C17: `render_type` (crate lookup) is `display_for_error` of the relabelled type. -/
namespace Pxv.Ty

theorem headLk_eq {lk : List (String × String)} {p cn x : String} {tail : List String}
    (h : crateOf lk p = some cn) (b0 : String) :
    headLk lk p (b0 :: x :: tail) = some (joinSep "::".toList (cn :: x :: tail)) := by
  simp only [headLk, h, joinSep_cons, segStr]
  have e : "::".toList = [':', ':'] := by decide
  simp [e]

-- the equation lemmas of `renderLk` (string literals inside) are expensive to generate
set_option maxHeartbeats 1000000 in
mutual
theorem renderLk_relabel (lk : List (String × String)) (e : Bool) : ∀ (t t' : Ty), relabel lk t = some t' →
    longPaths t = true → renderLk lk e t = some (renderD e t')
  | .path al p i bs as, t', h, hl => by
      simp only [longPaths, Bool.and_eq_true, decide_eq_true_eq] at hl
      match bs, hl with
      | b0 :: x :: tail, hl =>
        simp only [relabel] at h
        split at h
        · cases h
        · rename_i cn hcn
          split at h
          · rename_i as' has
            cases h
            have hh := headLk_eq (tail := tail) hcn b0 (x := x)
            have ha := renderArgsLk_relabel lk e as as' has hl.2 true
            cases as with
            | nil => simp only [relabelArgs] at has; cases has; simp [renderLk, hh, renderD]
            | ty t r =>
              simp only [relabelArgs] at has
              split at has
              · split at has
                · cases has; simp [renderLk, hh, ha, renderD]
                · cases has
              · cases has
            | lt l r =>
              simp only [relabelArgs] at has
              split at has
              · cases has; simp [renderLk, hh, ha, renderD]
              · cases has
            | const v r =>
              simp only [relabelArgs] at has
              split at has
              · cases has; simp [renderLk, hh, ha, renderD]
              · cases has
          · cases h
  | .ref m l t, t', h, hl => by
      simp only [longPaths] at hl
      simp only [relabel] at h
      split at h
      · rename_i t1 h1
        cases h
        simp [renderLk, renderD, renderLk_relabel lk e t t1 h1 hl]
      · cases h
  | .tuple es, t', h, hl => by
      simp only [longPaths] at hl
      simp only [relabel] at h
      split at h
      · rename_i es1 h1
        cases h
        have hlen : tysLen es1 = tysLen es := relabelTys_len lk es es1 h1
        simp [renderLk, renderD, renderTysLk_relabel lk e es es1 h1 hl true, hlen]
      · cases h
  | .scalar s, t', h, hl => by
      simp only [relabel] at h; cases h; simp [renderLk, renderD]
  | .slice x, t', h, hl => by
      simp only [longPaths] at hl
      simp only [relabel] at h
      split at h
      · rename_i t1 h1
        cases h
        simp [renderLk, renderD, renderLk_relabel lk e x t1 h1 hl]
      · cases h
  | .array x n, t', h, hl => by
      simp only [longPaths] at hl
      simp only [relabel] at h
      split at h
      · rename_i t1 h1
        cases h
        simp [renderLk, renderD, renderLk_relabel lk e x t1 h1 hl]
      · cases h
  | .rawPtr m t, t', h, hl => by
      simp only [longPaths] at hl
      simp only [relabel] at h
      split at h
      · rename_i t1 h1
        cases h
        simp [renderLk, renderD, renderLk_relabel lk e t t1 h1 hl]
      · cases h
  | .fnPtr ins out abi u, t', h, hl => by
      simp only [longPaths, Bool.and_eq_true] at hl
      simp only [relabel] at h
      split at h
      · rename_i ins1 h1
        split at h
        · rename_i out1 h2
          cases h
          simp [renderLk, renderD, renderInsLk_relabel lk e ins ins1 h1 hl.1 true,
            renderOLk_relabel lk e out out1 h2 hl.2]
        · cases h
      · cases h
  | .generic x, t', h, hl => by
      simp only [relabel] at h; cases h; simp [renderLk, renderD]
theorem relabelTys_len (lk : List (String × String)) : ∀ (es es' : Tys), relabelTys lk es = some es' →
    tysLen es' = tysLen es
  | .nil, es', h => by simp only [relabelTys] at h; cases h; rfl
  | .cons t r, es', h => by
      simp only [relabelTys] at h
      split at h
      · split at h
        · rename_i r1 h2
          cases h
          simp [tysLen, relabelTys_len lk r r1 h2]
        · cases h
      · cases h
theorem renderArgsLk_relabel (lk : List (String × String)) (e : Bool) : ∀ (as as' : GArgs),
    relabelArgs lk as = some as' → longPathsArgs as = true →
    ∀ first, renderArgsLk lk e first as = some (renderArgsD e first as')
  | .nil, as', h, hl, first => by simp only [relabelArgs] at h; cases h; simp [renderArgsLk, renderArgsD]
  | .ty t r, as', h, hl, first => by
      simp only [longPathsArgs, Bool.and_eq_true] at hl
      simp only [relabelArgs] at h
      split at h
      · rename_i t1 h1
        split at h
        · rename_i r1 h2
          cases h
          simp [renderArgsLk, renderArgsD, renderLk_relabel lk e t t1 h1 hl.1,
            renderArgsLk_relabel lk e r r1 h2 hl.2 false]
        · cases h
      · cases h
  | .lt l r, as', h, hl, first => by
      simp only [longPathsArgs] at hl
      simp only [relabelArgs] at h
      split at h
      · rename_i r1 h2
        cases h
        simp [renderArgsLk, renderArgsD, renderArgsLk_relabel lk e r r1 h2 hl false]
      · cases h
  | .const v r, as', h, hl, first => by
      simp only [longPathsArgs] at hl
      simp only [relabelArgs] at h
      split at h
      · rename_i r1 h2
        cases h
        simp [renderArgsLk, renderArgsD, renderArgsLk_relabel lk e r r1 h2 hl false]
      · cases h
theorem renderTysLk_relabel (lk : List (String × String)) (e : Bool) : ∀ (es es' : Tys),
    relabelTys lk es = some es' → longPathsTys es = true →
    ∀ first, renderTysLk lk e first es = some (renderTysD e first es')
  | .nil, es', h, hl, first => by simp only [relabelTys] at h; cases h; simp [renderTysLk, renderTysD]
  | .cons t r, es', h, hl, first => by
      simp only [longPathsTys, Bool.and_eq_true] at hl
      simp only [relabelTys] at h
      split at h
      · rename_i t1 h1
        split at h
        · rename_i r1 h2
          cases h
          simp [renderTysLk, renderTysD, renderLk_relabel lk e t t1 h1 hl.1,
            renderTysLk_relabel lk e r r1 h2 hl.2 false]
        · cases h
      · cases h
theorem renderInsLk_relabel (lk : List (String × String)) (e : Bool) : ∀ (ins ins' : FnIns),
    relabelIns lk ins = some ins' → longPathsIns ins = true →
    ∀ first, renderInsLk lk e first ins = some (renderInsD e first ins')
  | .nil, ins', h, hl, first => by simp only [relabelIns] at h; cases h; simp [renderInsLk, renderInsD]
  | .cons n t r, ins', h, hl, first => by
      simp only [longPathsIns, Bool.and_eq_true] at hl
      simp only [relabelIns] at h
      split at h
      · rename_i t1 h1
        split at h
        · rename_i r1 h2
          cases h
          simp [renderInsLk, renderInsD, renderLk_relabel lk e t t1 h1 hl.1,
            renderInsLk_relabel lk e r r1 h2 hl.2 false]
        · cases h
      · cases h
theorem renderOLk_relabel (lk : List (String × String)) (e : Bool) : ∀ (o o' : OTy),
    relabelO lk o = some o' → longPathsO o = true → renderOLk lk e o = some (renderOD e o')
  | .none, o', h, hl => by simp only [relabelO] at h; cases h; simp [renderOLk, renderOD]
  | .some t, o', h, hl => by
      simp only [longPathsO] at hl
      simp only [relabelO] at h
      split at h
      · rename_i t1 h1
        cases h
        simp [renderOLk, renderOD, renderLk_relabel lk e t t1 h1 hl]
      · cases h
end

end Pxv.Ty
