import Pxv.Lemmas.Scope
/-! The FIFO walk of `ConstructibleDb::get` on tree-shaped scope graphs: proofs behind `Thm/C04.lean`. -/
namespace Pxv.Scope

/-- ancestor-or-self scopes of `s`, nearest first -/
def ancestors (g : SGraph) (s : Nat) : List Nat := chainF g.parents (s + 1) s

/-- every scope from `s` up to the root has at most one parent (true of every scope except the
    application-state scope) -/
def TreeAbove (g : SGraph) (s : Nat) : Prop := TreeFrom g.parents (s + 1) s


namespace Walk
theorem fuel_ge (g : SGraph) (s : Nat) (h : s ≤ g.app) : s + 1 ≤ g.fuel := by
  unfold SGraph.fuel
  have : g.app + 1 ≤ (g.app + 1) * (g.app + 1) := Nat.le_mul_of_pos_left _ (by omega)
  omega

theorem treeFrom_ge (parents : Nat → List Nat) (s : Nat) :
    ∀ f, TreeFrom parents f s → ∀ f', f' ≤ f → TreeFrom parents f' s := by
  intro f h f' hle
  induction hle with
  | refl => exact h
  | step _ ih => exact ih (treeFrom_mono parents _ s h)

/-- more fuel does not break tree-likeness when parents decrease (the chain has ended by then) -/
theorem treeFrom_more (parents : Nat → List Nat) (hd : Decr parents) :
    ∀ s, TreeFrom parents (s + 1) s → ∀ f, TreeFrom parents f s := by
  intro s
  induction s using Nat.strongRecOn with
  | _ s ih =>
    intro h f
    cases f with
    | zero => trivial
    | succ f =>
      unfold TreeFrom at h ⊢
      match hp : parents s with
      | [] => trivial
      | [p] =>
        rw [hp] at h
        simp only at h ⊢
        have hlt : p < s := hd s p (by simp [hp])
        exact ih p hlt (treeFrom_ge parents p s h (p + 1) (by omega)) f
      | _ :: _ :: _ => rw [hp] at h; exact h.elim

/-- **C04 (1) — nearest enclosing registration**: from a scope whose ancestors form a chain (every
    request handler, middleware and blueprint scope), `ConstructibleDb::get` returns what the first
    scope on the way up to the root has registered for the type. -/
theorem get_nearest (g : SGraph) (regs : List (Nat × Ctor)) (s ty : Nat)
    (hd : Decr g.parents) (hs : s ≤ g.app) (ht : TreeAbove g s) :
    get g regs s ty = firstHit (fun k => lookup regs k ty) (ancestors g s) := by
  unfold get ancestors
  rw [bfs_chain _ _ _ _ (treeFrom_more _ hd s ht _)]
  rw [chainF_stable _ hd s _ (fuel_ge g s hs)]

/-- `firstHit` spelled out: the answer comes from the nearest ancestor-or-self scope that has the
    type, and every scope nearer than that one has nothing for it. -/
theorem firstHit_iff (has : Nat → Option Ctor) (l : List Nat) (c : Ctor) :
    firstHit has l = some c ↔
      ∃ pre a post, l = pre ++ a :: post ∧ has a = some c ∧ ∀ k ∈ pre, has k = none := by
  induction l with
  | nil => simp [firstHit]
  | cons x xs ih =>
    simp only [firstHit]
    cases hx : has x with
    | some c' =>
      constructor
      · intro h
        refine ⟨[], x, xs, rfl, ?_, by simp⟩
        simpa [hx] using h
      · rintro ⟨pre, a, post, hl, ha, hpre⟩
        cases pre with
        | nil =>
          simp only [List.nil_append, List.cons.injEq] at hl
          rw [hl.1, ha] at hx
          simp_all
        | cons y ys =>
          simp only [List.cons_append, List.cons.injEq] at hl
          have := hpre y (by simp)
          rw [← hl.1, hx] at this
          cases this
    | none =>
      simp only
      rw [ih]
      constructor
      · rintro ⟨pre, a, post, hl, ha, hpre⟩
        refine ⟨x :: pre, a, post, by simp [hl], ha, ?_⟩
        intro k hk
        simp only [List.mem_cons] at hk
        rcases hk with rfl | hk
        · exact hx
        · exact hpre k hk
      · rintro ⟨pre, a, post, hl, ha, hpre⟩
        cases pre with
        | nil =>
          simp only [List.nil_append, List.cons.injEq] at hl
          rw [← hl.1, hx] at ha
          cases ha
        | cons y ys =>
          simp only [List.cons_append, List.cons.injEq] at hl
          exact ⟨ys, a, post, hl.2, ha, fun k hk => hpre k (by simp [hk])⟩

/-- **C04 (1')**, in words: `get` answers `c` exactly when `c` is what the nearest ancestor-or-self
    scope with a registration for `ty` holds. -/
theorem get_nearest_iff (g : SGraph) (regs : List (Nat × Ctor)) (s ty : Nat) (c : Ctor)
    (hd : Decr g.parents) (hs : s ≤ g.app) (ht : TreeAbove g s) :
    get g regs s ty = some c ↔
      ∃ pre a post, ancestors g s = pre ++ a :: post ∧ lookup regs a ty = some c ∧
        ∀ k ∈ pre, lookup regs k ty = none := by
  rw [get_nearest g regs s ty hd hs ht, firstHit_iff]

/-- **C04 (2) — the latest registration wins inside one scope**: what a scope holds for a type is the
    last constructor registered against that scope for that type. -/
theorem latest_wins (regs : List (Nat × Ctor)) (s ty : Nat) :
    lookup regs s ty =
      ((regs.filter (fun r => r.1 == s && r.2.ty == ty)).getLast?).map (·.2) := by
  unfold lookup table
  rw [find_foldl_insert]
  simp [List.filter_filter, Bool.and_comm]

theorem ancestors_cons (g : SGraph) (s p : Nat) (hd : Decr g.parents) (hp : g.parents s = [p]) :
    ancestors g s = s :: ancestors g p := by
  unfold ancestors
  have hlt : p < s := hd s p (by simp [hp])
  have h1 : chainF g.parents (s + 1) s = s :: chainF g.parents s p := by
    rw [chainF]
    simp only [hp]
  rw [h1, chainF_stable _ hd p s (by omega)]

/-- **C04 (3) — registrations of parents are inherited**: a scope that has nothing for the type
    gets exactly what its parent gets. -/
theorem parent_inherited (g : SGraph) (regs : List (Nat × Ctor)) (s p ty : Nat)
    (hd : Decr g.parents) (hs : s ≤ g.app) (ht : TreeAbove g s)
    (hp : g.parents s = [p]) (hnone : lookup regs s ty = none) :
    get g regs s ty = get g regs p ty := by
  have hlt : p < s := hd s p (by simp [hp])
  have htp : TreeAbove g p := by
    unfold TreeAbove at ht ⊢
    unfold TreeFrom at ht
    rw [hp] at ht
    exact treeFrom_ge _ _ _ ht _ (by omega)
  rw [get_nearest g regs s ty hd hs ht, get_nearest g regs p ty hd (by omega) htp,
    ancestors_cons g s p hd hp]
  simp [firstHit, hnone]

/-- …and a scope that has a registration of its own uses it, whatever its ancestors say. -/
theorem own_registration_wins (g : SGraph) (regs : List (Nat × Ctor)) (s ty : Nat) (c : Ctor)
    (hown : lookup regs s ty = some c) : get g regs s ty = some c := by
  unfold get SGraph.fuel
  simp [bfs, hown]

theorem lookup_congr (regs regs' : List (Nat × Ctor)) (s ty : Nat)
    (h : regs.filter (fun r => r.1 == s) = regs'.filter (fun r => r.1 == s)) :
    lookup regs s ty = lookup regs' s ty := by
  unfold lookup table
  rw [h]

theorem firstHit_congr (has has' : Nat → Option Ctor) (l : List Nat)
    (h : ∀ k ∈ l, has k = has' k) : firstHit has l = firstHit has' l := by
  induction l with
  | nil => rfl
  | cons x xs ih =>
    simp only [firstHit]
    rw [h x (by simp), ih (fun k hk => h k (by simp [hk]))]

/-- **C04 (4) — siblings are invisible**: registrations against scopes that are not ancestors of `s`
    (sibling blueprints, their routes, anything nested elsewhere) cannot change what `s` gets,
    wherever they sit in the registration order. -/
theorem sibling_invisible (g : SGraph) (regs extra : List (Nat × Ctor)) (s ty : Nat)
    (hd : Decr g.parents) (hs : s ≤ g.app) (ht : TreeAbove g s)
    (hout : ∀ r ∈ extra, r.1 ∉ ancestors g s) :
    get g (regs ++ extra) s ty = get g regs s ty := by
  rw [get_nearest g _ s ty hd hs ht, get_nearest g _ s ty hd hs ht]
  apply firstHit_congr
  intro k hk
  apply lookup_congr
  rw [List.filter_append]
  have : extra.filter (fun r => r.1 == k) = [] := by
    rw [List.filter_eq_nil_iff]
    intro r hr
    have := hout r hr
    intro hrk
    simp only [beq_iff_eq] at hrk
    exact this (hrk ▸ hk)
  rw [this, List.append_nil]


end Walk
end Pxv.Scope
