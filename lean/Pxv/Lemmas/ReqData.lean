import Pxv.Model.ReqData
/-! Helper lemmas for C15 (typed request data). -/
namespace Pxv.ReqData

/-! ### percent-decoding, one step at a time -/

theorem isHex_hexUpper : ∀ n, n < 16 → isHex (hexUpper n) = true := by decide

theorem hexVal_hexUpper : ∀ n, n < 16 → hexVal (hexUpper n) = n := by decide

theorem hexUpper_ne_percent : ∀ n, n < 16 → hexUpper n ≠ 37 := by decide

theorem percentDecode_nil : percentDecode [] = [] := by simp [percentDecode]

/-- A byte other than `%` is copied. -/
theorem percentDecode_cons_ne {b : Nat} (h : b ≠ 37) (rest : List Nat) :
    percentDecode (b :: rest) = b :: percentDecode rest := by
  match rest with
  | [] => simp [percentDecode]
  | [x] => simp [percentDecode]
  | x :: y :: r => simp [percentDecode, h]

/-- `%XY` with two hex digits is one byte. -/
theorem percentDecode_escape {h l : Nat} (hh : isHex h = true) (hl : isHex l = true) (rest : List Nat) :
    percentDecode (37 :: h :: l :: rest) = (hexVal h * 16 + hexVal l) :: percentDecode rest := by
  simp [percentDecode, hh, hl]

/-- A `%` not followed by two hex digits is copied, and scanning resumes right after it. -/
theorem percentDecode_percent_literal {rest : List Nat}
    (h : ∀ x y r, rest = x :: y :: r → ¬ (isHex x = true ∧ isHex y = true)) :
    percentDecode (37 :: rest) = 37 :: percentDecode rest := by
  match rest, h with
  | [], _ => simp [percentDecode]
  | [x], _ => simp [percentDecode]
  | x :: y :: r, h =>
    have := h x y r rfl
    simp only [percentDecode]
    split
    · rename_i hc
      simp at hc
      exact absurd ⟨hc.1, hc.2⟩ this
    · rfl

theorem percentDecode_encByte {b : Nat} (hb : b < 256) (rest : List Nat) :
    percentDecode (percentEncodeByte b ++ rest) = b :: percentDecode rest := by
  have h1 : b / 16 < 16 := by omega
  have h2 : b % 16 < 16 := by omega
  simp only [percentEncodeByte, List.cons_append, List.nil_append]
  rw [percentDecode_escape (isHex_hexUpper _ h1) (isHex_hexUpper _ h2),
      hexVal_hexUpper _ h1, hexVal_hexUpper _ h2]
  congr 1
  omega


/-! ### form_urlencoded: serialise then decode -/

theorem hexUpper_ne_plus : ∀ n, n < 16 → hexUpper n ≠ 43 := by decide

theorem plusToSpace_append (a b : List Nat) : plusToSpace (a ++ b) = plusToSpace a ++ plusToSpace b := by
  simp [plusToSpace]

theorem plusToSpace_encByte {b : Nat} (hb : b < 256) : plusToSpace (percentEncodeByte b) = percentEncodeByte b := by
  have h1 : b / 16 < 16 := by omega
  have h2 : b % 16 < 16 := by omega
  simp [plusToSpace, percentEncodeByte, hexUpper_ne_plus _ h1, hexUpper_ne_plus _ h2]

theorem formUnchanged_ne {b : Nat} (h : formUnchanged b = true) : b ≠ 43 ∧ b ≠ 37 ∧ b ≠ 38 ∧ b ≠ 61 := by
  simp [formUnchanged] at h
  omega

theorem formDecodeBytes_byteSerialize (bs : List Nat) (hb : ∀ b ∈ bs, b < 256) :
    formDecodeBytes (byteSerialize bs) = bs := by
  induction bs with
  | nil => simp [formDecodeBytes, byteSerialize, plusToSpace, percentDecode_nil]
  | cons b bs ih =>
    have hb' : ∀ x ∈ bs, x < 256 := fun x hx => hb x (List.mem_cons_of_mem _ hx)
    have hlt : b < 256 := hb b (List.mem_cons_self ..)
    have ih' := ih hb'
    unfold formDecodeBytes at ih' ⊢
    simp only [byteSerialize, plusToSpace_append]
    by_cases hu : formUnchanged b = true
    · have := formUnchanged_ne hu
      simp only [hu, if_true]
      have h1 : plusToSpace [b] = [b] := by simp [plusToSpace, this.1]
      rw [h1, List.cons_append, List.nil_append, percentDecode_cons_ne this.2.1, ih']
    · simp only [hu]
      by_cases hs : b = 32
      · subst hs
        have h1 : plusToSpace [43] = [32] := by simp [plusToSpace]
        simp only [Bool.false_eq_true, if_false, if_true, h1, List.cons_append, List.nil_append]
        rw [percentDecode_cons_ne (by decide), ih']
      · simp only [Bool.false_eq_true, if_false, hs]
        rw [plusToSpace_encByte hlt, percentDecode_encByte hlt, ih']

/-! ### UTF-8 -/

theorem utf8Step_width {bs : List Nat} {cp w : Nat} (h : utf8Step bs = some (cp, w)) :
    1 ≤ w ∧ w ≤ bs.length := by
  unfold utf8Step at h
  split at h
  · cases h
  · split at h
    · simp only [Option.some.injEq, Prod.mk.injEq] at h; obtain ⟨-, rfl⟩ := h; simp
    · split at h
      · split at h
        · split at h
          · simp only [Option.some.injEq, Prod.mk.injEq] at h; obtain ⟨-, rfl⟩ := h; simp
          · cases h
        · cases h
      · split at h
        · split at h
          · split at h
            · simp only [Option.some.injEq, Prod.mk.injEq] at h; obtain ⟨-, rfl⟩ := h; simp
            · cases h
          · cases h
        · split at h
          · split at h
            · split at h
              · simp only [Option.some.injEq, Prod.mk.injEq] at h; obtain ⟨-, rfl⟩ := h; simp
              · cases h
            · cases h
          · cases h

theorem take_append_drop_pred (b0 : Nat) (r : List Nat) {w : Nat} (hw : 1 ≤ w) :
    (b0 :: r).take w ++ r.drop (w - 1) = b0 :: r := by
  obtain ⟨k, rfl⟩ : ∃ k, w = k + 1 := ⟨w - 1, by omega⟩
  simp [List.take_append_drop]

theorem utf8LossyAux_of_valid : ∀ (fuel : Nat) (bs : List Nat),
    utf8DecodeAux fuel bs ≠ none → utf8LossyAux fuel bs = bs := by
  intro fuel
  induction fuel with
  | zero =>
    intro bs h
    cases bs with
    | nil => simp [utf8LossyAux]
    | cons b r => simp [utf8DecodeAux] at h
  | succ fuel ih =>
    intro bs h
    cases bs with
    | nil => simp [utf8LossyAux]
    | cons b0 r =>
      simp only [utf8DecodeAux] at h
      simp only [utf8LossyAux]
      cases hs : utf8Step (b0 :: r) with
      | none => simp [hs] at h
      | some p =>
        obtain ⟨cp, w⟩ := p
        simp only [hs] at h ⊢
        have hw := utf8Step_width hs
        have hrec : utf8DecodeAux fuel (r.drop (w - 1)) ≠ none := by
          intro hn
          simp [hn] at h
        rw [ih _ hrec]
        exact take_append_drop_pred b0 r hw.1


/-! ### integers: print then parse -/

theorem digitsVal_append (xs ys : List Nat) (acc : Nat) :
    digitsVal (xs ++ ys) acc = (digitsVal xs acc).bind (digitsVal ys) := by
  induction xs generalizing acc with
  | nil => simp [digitsVal]
  | cons x xs ih =>
    simp only [List.cons_append, digitsVal]
    split
    · exact ih _
    · simp

theorem digitsVal_decDigits (n : Nat) : digitsVal (decDigits n) 0 = some n := by
  induction n using Nat.strongRecOn with
  | _ n ih =>
    rw [decDigits]
    split
    · simp [digitsVal]
      omega
    · rw [digitsVal_append, ih (n / 10) (by omega)]
      simp [digitsVal]
      omega

theorem decDigits_head (n : Nat) : ∃ d rest, decDigits n = d :: rest ∧ 48 ≤ d ∧ d ≤ 57 := by
  induction n using Nat.strongRecOn with
  | _ n ih =>
    rw [decDigits]
    split
    · exact ⟨48 + n, [], rfl, by omega, by omega⟩
    · obtain ⟨d, rest, h, h1, h2⟩ := ih (n / 10) (by omega)
      exact ⟨d, rest ++ [48 + n % 10], by simp [h], h1, h2⟩

theorem stripPlus_of_ne {d : Nat} (h : d ≠ 43) (rest : List Nat) : stripPlus (d :: rest) = d :: rest := by
  unfold stripPlus
  split
  · rename_i heq
    simp only [List.cons.injEq] at heq
    omega
  · rfl

theorem parseDigits_decDigits (max n : Nat) :
    parseDigits max (decDigits n) = if n ≤ max then some n else none := by
  obtain ⟨d, rest, h, _, _⟩ := decDigits_head n
  have hv := digitsVal_decDigits n
  unfold parseDigits
  rw [hv, h]
  simp

theorem parseUnsigned_decDigits (max n : Nat) :
    parseUnsigned max (decDigits n) = if n ≤ max then some n else none := by
  obtain ⟨d, rest, h, h1, _⟩ := decDigits_head n
  unfold parseUnsigned
  rw [h, stripPlus_of_ne (by omega), ← h, parseDigits_decDigits]

theorem parseDigits_le {max : Nat} {ds : List Nat} {n : Nat} (h : parseDigits max ds = some n) : n ≤ max := by
  unfold parseDigits at h
  cases he : ds.isEmpty <;> simp [he] at h
  cases hd : digitsVal ds 0 <;> simp [hd] at h
  obtain ⟨h1, rfl⟩ := h
  exact h1

theorem parseUnsigned_le {max : Nat} {bs : List Nat} {n : Nat} (h : parseUnsigned max bs = some n) : n ≤ max :=
  parseDigits_le h


/-! ### association lists -/

theorem lookup_append {α : Type} (k : List Nat) (a b : List (List Nat × α)) :
    lookup k (a ++ b) = match lookup k a with
      | some v => some v
      | none => lookup k b := by
  induction a with
  | nil => simp [lookup]
  | cons p a ih =>
    obtain ⟨k', v⟩ := p
    simp only [List.cons_append, lookup]
    split
    · rfl
    · exact ih

theorem lookup_none_of_not_mem {α : Type} {k : List Nat} {l : List (List Nat × α)}
    (h : k ∉ l.map (·.1)) : lookup k l = none := by
  induction l with
  | nil => simp [lookup]
  | cons p l ih =>
    obtain ⟨k', v⟩ := p
    simp only [List.map_cons, List.mem_cons, not_or] at h
    simp only [lookup]
    rw [if_neg (fun e => h.1 e.symm)]
    exact ih h.2

theorem lookup_of_mem_nodup {α : Type} {k : List Nat} {v : α} {l : List (List Nat × α)}
    (hn : (l.map (·.1)).Nodup) (hm : (k, v) ∈ l) : lookup k l = some v := by
  induction l with
  | nil => cases hm
  | cons p l ih =>
    obtain ⟨k', v'⟩ := p
    simp only [List.map_cons, List.nodup_cons] at hn
    simp only [lookup]
    rcases List.mem_cons.mp hm with heq | hm'
    · cases heq
      simp
    · have : k' ≠ k := by
        intro e
        subst e
        exact hn.1 (List.mem_map.mpr ⟨(k', v), hm', rfl⟩)
      rw [if_neg this]
      exact ih hn.2 hm'

theorem lookup_some_mem {α : Type} {k : List Nat} {v : α} {l : List (List Nat × α)}
    (h : lookup k l = some v) : (k, v) ∈ l := by
  induction l with
  | nil => simp [lookup] at h
  | cons p l ih =>
    obtain ⟨k', v'⟩ := p
    simp only [lookup] at h
    split at h
    · rename_i e
      cases h
      subst e
      exact List.mem_cons_self ..
    · exact List.mem_cons_of_mem _ (ih h)

theorem findField_some {k : List Nat} {fields : List Field} {f : Field}
    (h : findField k fields = some f) : f ∈ fields ∧ f.name = k := by
  induction fields with
  | nil => simp [findField] at h
  | cons g fs ih =>
    simp only [findField] at h
    split at h
    · rename_i e
      cases h
      exact ⟨List.mem_cons_self .., e⟩
    · obtain ⟨h1, h2⟩ := ih h
      exact ⟨List.mem_cons_of_mem _ h1, h2⟩

theorem findField_of_mem_nodup {fields : List Field} {f : Field}
    (hn : (fields.map (·.name)).Nodup) (hm : f ∈ fields) : findField f.name fields = some f := by
  induction fields with
  | nil => cases hm
  | cons g fs ih =>
    simp only [List.map_cons, List.nodup_cons] at hn
    simp only [findField]
    rcases List.mem_cons.mp hm with heq | hm'
    · subst heq
      simp
    · have : g.name ≠ f.name := by
        intro e
        exact hn.1 (e ▸ List.mem_map.mpr ⟨f, hm', rfl⟩)
      rw [if_neg this]
      exact ih hn.2 hm'

theorem findField_none_of_not_mem {k : List Nat} {fields : List Field}
    (h : k ∉ fields.map (·.name)) : findField k fields = none := by
  induction fields with
  | nil => simp [findField]
  | cons g fs ih =>
    simp only [List.map_cons, List.mem_cons, not_or] at h
    simp only [findField]
    rw [if_neg (fun e => h.1 e.symm)]
    exact ih h.2


/-! ### the serde `visit_map` loop computes a by-name table -/

/-- The table the `visit_map` loop builds when nothing fails. -/
def walkVals {β : Type} (de : List Nat → Ty → β → Except Err Val) (fields : List Field) :
    List (List Nat × β) → List (List Nat × Val)
  | [] => []
  | (k, e) :: ps =>
    match findField k fields with
    | none => walkVals de fields ps
    | some f =>
      match de k f.ty e with
      | .ok x => (k, x) :: walkVals de fields ps
      | .error _ => walkVals de fields ps

/-- Every entry that names a field has an acceptable value. -/
def knownParse {β : Type} (de : List Nat → Ty → β → Except Err Val) (fields : List Field)
    (dps : List (List Nat × β)) : Prop :=
  ∀ p ∈ dps, ∀ f, findField p.1 fields = some f → ∃ x, de p.1 f.ty p.2 = .ok x

theorem visitMap_ok_iff {β : Type} (de : List Nat → Ty → β → Except Err Val) (fields : List Field) :
    ∀ (dps : List (List Nat × β)) (acc0 acc : List (List Nat × Val)),
    (dps.map (·.1)).Nodup → (∀ p ∈ dps, lookup p.1 acc0 = none) →
    (visitMap de fields dps acc0 = .ok acc ↔ (acc = acc0 ++ walkVals de fields dps ∧ knownParse de fields dps)) := by
  intro dps
  induction dps with
  | nil =>
    intro acc0 acc _ _
    simp [visitMap, walkVals, knownParse, eq_comm]
  | cons p ps ih =>
    intro acc0 acc hn hfree
    obtain ⟨k, v⟩ := p
    simp only [List.map_cons, List.nodup_cons] at hn
    have hfree' : ∀ q ∈ ps, lookup q.1 acc0 = none := fun q hq => hfree q (List.mem_cons_of_mem _ hq)
    have hk : lookup k acc0 = none := hfree (k, v) (List.mem_cons_self ..)
    simp only [visitMap, walkVals]
    cases hf : findField k fields with
    | none =>
      simp only []
      rw [ih acc0 acc hn.2 hfree']
      constructor
      · rintro ⟨h1, h2⟩
        refine ⟨h1, ?_⟩
        intro q hq f hqf
        rcases List.mem_cons.mp hq with e | hq'
        · subst e
          simp [hf] at hqf
        · exact h2 q hq' f hqf
      · rintro ⟨h1, h2⟩
        exact ⟨h1, fun q hq f hqf => h2 q (List.mem_cons_of_mem _ hq) f hqf⟩
    | some f =>
      simp only [hk]
      cases hp : de k f.ty v with
      | error e =>
        simp only []
        constructor
        · intro h
          cases h
        · rintro ⟨_, h2⟩
          obtain ⟨x, hx⟩ := h2 (k, v) (List.mem_cons_self ..) f hf
          simp [hp] at hx
      | ok x =>
        simp only []
        have hfree'' : ∀ q ∈ ps, lookup q.1 (acc0 ++ [(k, x)]) = none := by
          intro q hq
          rw [lookup_append, hfree' q hq]
          simp only [lookup]
          have : k ≠ q.1 := by
            intro e
            exact hn.1 (e ▸ List.mem_map.mpr ⟨q, hq, rfl⟩)
          simp [this]
        rw [ih (acc0 ++ [(k, x)]) acc hn.2 hfree'']
        constructor
        · rintro ⟨h1, h2⟩
          refine ⟨by simp [h1], ?_⟩
          intro q hq g hqg
          rcases List.mem_cons.mp hq with e | hq'
          · subst e
            simp only [hf, Option.some.injEq] at hqg
            subst hqg
            exact ⟨x, hp⟩
          · exact h2 q hq' g hqg
        · rintro ⟨h1, h2⟩
          exact ⟨by simp [h1], fun q hq g hqg => h2 q (List.mem_cons_of_mem _ hq) g hqg⟩

theorem lookup_walkVals_none {β : Type} {de : List Nat → Ty → β → Except Err Val} {fields : List Field}
    {k : List Nat} :
    ∀ {dps : List (List Nat × β)}, k ∉ dps.map (·.1) → lookup k (walkVals de fields dps) = none := by
  intro dps
  induction dps with
  | nil => intro _; simp [walkVals, lookup]
  | cons p ps ih =>
    intro h
    obtain ⟨k', v⟩ := p
    simp only [List.map_cons, List.mem_cons, not_or] at h
    simp only [walkVals]
    cases findField k' fields with
    | none => exact ih h.2
    | some f =>
      simp only []
      cases de k' f.ty v with
      | error e => exact ih h.2
      | ok x =>
        simp only [lookup]
        rw [if_neg (fun e => h.1 e.symm)]
        exact ih h.2

/-- With distinct entry keys and distinct field names, the table maps each field's name to `de` of
    the entry of that name. -/
theorem lookup_walkVals {β : Type} {de : List Nat → Ty → β → Except Err Val} {fields : List Field}
    {f : Field} (hfn : (fields.map (·.name)).Nodup) (hf : f ∈ fields) :
    ∀ {dps : List (List Nat × β)}, (dps.map (·.1)).Nodup →
    lookup f.name (walkVals de fields dps) =
      match lookup f.name dps with
      | some e => (match de f.name f.ty e with | .ok x => some x | .error _ => none)
      | none => none := by
  intro dps
  induction dps with
  | nil => intro _; simp [walkVals, lookup]
  | cons p ps ih =>
    intro hn
    obtain ⟨k, v⟩ := p
    simp only [List.map_cons, List.nodup_cons] at hn
    by_cases hk : k = f.name
    · subst hk
      simp only [walkVals, findField_of_mem_nodup hfn hf, lookup, if_true]
      cases hp : de f.name f.ty v with
      | error e => simpa using lookup_walkVals_none hn.1
      | ok x => simp [lookup]
    · simp only [walkVals, lookup, if_neg hk]
      cases findField k fields with
      | none => exact ih hn.2
      | some g =>
        simp only []
        cases de k g.ty v with
        | error e => exact ih hn.2
        | ok x =>
          simp only [lookup, if_neg hk]
          exact ih hn.2

theorem finishOne_eq_spec {β : Type} {de : List Nat → Ty → β → Except Err Val} {fields : List Field}
    {f : Field} {dps : List (List Nat × β)}
    (hfn : (fields.map (·.name)).Nodup) (hf : f ∈ fields) (hdn : (dps.map (·.1)).Nodup)
    (hk : knownParse de fields dps) :
    finishOne (walkVals de fields dps) f = fieldSpec de dps f := by
  unfold finishOne fieldSpec
  rw [lookup_walkVals hfn hf hdn]
  cases hl : lookup f.name dps with
  | none => rfl
  | some v =>
    have hm := lookup_some_mem hl
    obtain ⟨x, hx⟩ := hk (f.name, v) hm f (findField_of_mem_nodup hfn hf)
    simp only at hx
    simp only [hx]

theorem finishFields_eq_spec {β : Type} {de : List Nat → Ty → β → Except Err Val}
    {dps : List (List Nat × β)} {acc : List (List Nat × Val)} :
    ∀ (fs : List Field), (∀ f ∈ fs, finishOne acc f = fieldSpec de dps f) →
    ∀ vals, (finishFields fs acc = .ok vals ↔ structSpec de dps fs = some vals) := by
  intro fs
  induction fs with
  | nil => intro _ vals; simp [finishFields, structSpec, eq_comm]
  | cons f fs ih =>
    intro h vals
    have hf := h f (List.mem_cons_self ..)
    have ih' := ih (fun g hg => h g (List.mem_cons_of_mem _ hg))
    simp only [finishFields, structSpec, hf]
    cases hs : fieldSpec de dps f with
    | error e => simp
    | ok v =>
      simp only []
      cases hr : finishFields fs acc with
      | error e =>
        cases hq : structSpec de dps fs with
        | none => simp
        | some r => exact absurd ((ih' r).mpr hq) (by simp [hr])
      | ok r =>
        have := (ih' r).mp hr
        simp [this]

theorem structSpec_ok_field {β : Type} {de : List Nat → Ty → β → Except Err Val} {dps : List (List Nat × β)} :
    ∀ {fs : List Field} {vals : List (List Nat × Val)}, structSpec de dps fs = some vals →
    ∀ f ∈ fs, ∃ v, fieldSpec de dps f = .ok v := by
  intro fs
  induction fs with
  | nil => intro _ _ f hf; cases hf
  | cons g fs ih =>
    intro vals h f hf
    simp only [structSpec] at h
    cases hs : fieldSpec de dps g with
    | error e => simp [hs] at h
    | ok v =>
      cases hr : structSpec de dps fs with
      | none => simp [hs, hr] at h
      | some r =>
        rcases List.mem_cons.mp hf with e | hf'
        · subst e
          exact ⟨v, hs⟩
        · exact ih hr f hf'

theorem knownParse_of_spec {β : Type} {de : List Nat → Ty → β → Except Err Val} {fields : List Field}
    {dps : List (List Nat × β)}
    {vals : List (List Nat × Val)} (hdn : (dps.map (·.1)).Nodup)
    (h : structSpec de dps fields = some vals) : knownParse de fields dps := by
  intro p hp f hpf
  obtain ⟨hfm, hname⟩ := findField_some hpf
  obtain ⟨v, hv⟩ := structSpec_ok_field h f hfm
  obtain ⟨k, val⟩ := p
  simp only at hname hpf ⊢
  subst hname
  unfold fieldSpec at hv
  rw [lookup_of_mem_nodup hdn hp] at hv
  exact ⟨v, hv⟩

/-- The loop followed by the missing-field pass succeeds exactly when the by-name specification
    does, with the same struct. -/
theorem visit_finish_iff {β : Type} (de : List Nat → Ty → β → Except Err Val) (fields : List Field)
    (dps : List (List Nat × β)) (hfn : (fields.map (·.name)).Nodup) (hdn : (dps.map (·.1)).Nodup)
    (vals : List (List Nat × Val)) :
    visitStruct de fields dps = .ok vals ↔ structSpec de dps fields = some vals := by
  unfold visitStruct
  have hw := visitMap_ok_iff de fields dps []
  constructor
  · intro h
    cases hwk : visitMap de fields dps [] with
    | error e => simp [hwk] at h
    | ok acc =>
      simp only [hwk] at h
      obtain ⟨hacc, hk⟩ := (hw acc hdn (by intro p _; simp [lookup])).mp hwk
      simp only [List.nil_append] at hacc
      subst hacc
      exact (finishFields_eq_spec fields (fun f hf => finishOne_eq_spec hfn hf hdn hk) vals).mp h
  · intro h
    have hk := knownParse_of_spec hdn h
    have hwk : visitMap de fields dps [] = .ok (walkVals de fields dps) :=
      (hw _ hdn (by intro p _; simp [lookup])).mpr ⟨by simp, hk⟩
    simp only [hwk]
    exact (finishFields_eq_spec fields (fun f hf => finishOne_eq_spec hfn hf hdn hk) vals).mpr h

theorem decodeParams_keys : ∀ {params : List (List Nat × List Nat)} {dps : List (List Nat × List Nat × Bool)},
    decodeParams params = .ok dps → dps.map (·.1) = params.map (·.1) := by
  intro params
  induction params with
  | nil => intro dps h; simp [decodeParams] at h; subst h; rfl
  | cons p ps ih =>
    intro dps h
    obtain ⟨k, raw⟩ := p
    simp only [decodeParams] at h
    split at h
    · cases hr : decodeParams ps with
      | error e => simp [hr] at h
      | ok r =>
        simp only [hr, Except.ok.injEq] at h
        subst h
        simp [ih hr]
    · cases h


/-! ### serde_html_form: grouping by key -/

theorem mem_keys_groupInsert {k : List Nat} {v : List Nat × Bool} {x : List Nat} :
    ∀ {g : List (List Nat × List (List Nat × Bool))},
    x ∈ (groupInsert k v g).map (·.1) ↔ x ∈ g.map (·.1) ∨ x = k := by
  intro g
  induction g with
  | nil => simp [groupInsert]
  | cons p g ih =>
    obtain ⟨k', vs⟩ := p
    simp only [groupInsert]
    split
    · rename_i e
      subst e
      simp only [List.map_cons, List.mem_cons]
      constructor
      · intro h; exact Or.inl h
      · rintro (h | h)
        · exact h
        · exact Or.inl h
    · simp only [List.map_cons, List.mem_cons, ih]
      constructor
      · rintro (h | h | h)
        · exact Or.inl (Or.inl h)
        · exact Or.inl (Or.inr h)
        · exact Or.inr h
      · rintro ((h | h) | h)
        · exact Or.inl h
        · exact Or.inr (Or.inl h)
        · exact Or.inr (Or.inr h)

theorem groupInsert_nodup {k : List Nat} {v : List Nat × Bool} :
    ∀ {g : List (List Nat × List (List Nat × Bool))},
    (g.map (·.1)).Nodup → ((groupInsert k v g).map (·.1)).Nodup := by
  intro g
  induction g with
  | nil => intro _; simp [groupInsert]
  | cons p g ih =>
    intro hn
    obtain ⟨k', vs⟩ := p
    simp only [List.map_cons, List.nodup_cons] at hn
    simp only [groupInsert]
    split
    · simpa using hn
    · rename_i hne
      simp only [List.map_cons, List.nodup_cons]
      refine ⟨?_, ih hn.2⟩
      rw [mem_keys_groupInsert]
      rintro (h | h)
      · exact hn.1 h
      · exact hne h

theorem groupEntries_nodup :
    ∀ (ps : List (List Nat × List Nat × Bool)) (acc : List (List Nat × List (List Nat × Bool))),
    (acc.map (·.1)).Nodup → ((groupEntries ps acc).map (·.1)).Nodup := by
  intro ps
  induction ps with
  | nil => intro acc h; simpa [groupEntries] using h
  | cons p ps ih =>
    intro acc h
    obtain ⟨k, v, o⟩ := p
    simp only [groupEntries]
    exact ih _ (groupInsert_nodup h)

theorem lookup_groupInsert (k : List Nat) (v : List Nat × Bool) (k' : List Nat) :
    ∀ (g : List (List Nat × List (List Nat × Bool))),
    lookup k' (groupInsert k v g) =
      if k' = k then some ((match lookup k g with | some vs => vs | none => []) ++ [v]) else lookup k' g := by
  intro g
  induction g with
  | nil =>
    simp only [groupInsert, lookup]
    by_cases h : k' = k
    · simp [h]
    · have : ¬ k = k' := fun e => h e.symm
      simp [h, this]
  | cons p g ih =>
    obtain ⟨k0, vs⟩ := p
    simp only [groupInsert]
    by_cases h0 : k0 = k
    · subst h0
      simp only [if_true, lookup]
      by_cases h : k' = k0
      · subst h
        simp
      · have : ¬ k0 = k' := fun e => h e.symm
        simp [h, this]
    · simp only [if_neg h0, lookup]
      by_cases h1 : k0 = k'
      · subst h1
        simp [h0]
      · simp only [if_neg h1, ih]

/-- How the occurrences of a key combine with what was already grouped. -/
def mergeOcc (o : Option (List (List Nat × Bool))) (occ : List (List Nat × Bool)) :
    Option (List (List Nat × Bool)) :=
  match o, occ with
  | some vs, occ => some (vs ++ occ)
  | none, [] => none
  | none, occ => some occ

theorem lookup_groupEntries (k : List Nat) :
    ∀ (ps : List (List Nat × List Nat × Bool)) (acc : List (List Nat × List (List Nat × Bool))),
    lookup k (groupEntries ps acc) = mergeOcc (lookup k acc) (occurrences k ps) := by
  intro ps
  induction ps with
  | nil =>
    intro acc
    simp only [groupEntries, occurrences]
    cases lookup k acc <;> simp [mergeOcc]
  | cons p ps ih =>
    intro acc
    obtain ⟨k', v, o⟩ := p
    simp only [groupEntries, occurrences]
    rw [ih, lookup_groupInsert]
    by_cases h : k' = k
    · subst h
      simp only [if_true]
      cases lookup k' acc with
      | none => simp [mergeOcc]
      | some vs => simp [mergeOcc]
    · have : ¬ k = k' := fun e => h e.symm
      simp only [if_neg h, if_neg this]

theorem fieldSpec_grouped (ps : List (List Nat × List Nat × Bool)) (f : Field) :
    fieldSpec formField (groupEntries ps []) f = formFieldSpec ps f := by
  unfold fieldSpec formFieldSpec
  rw [lookup_groupEntries]
  simp only [lookup]
  cases occurrences f.name ps with
  | nil => simp [mergeOcc]
  | cons x xs => simp [mergeOcc]

theorem structSpec_grouped (ps : List (List Nat × List Nat × Bool)) :
    ∀ (fs : List Field), structSpec formField (groupEntries ps []) fs = formSpec ps fs := by
  intro fs
  induction fs with
  | nil => simp [structSpec, formSpec]
  | cons f fs ih => simp only [structSpec, formSpec, fieldSpec_grouped, ih]


/-! ### decoding the raw parameters -/

/-- `EncodedParamValue::decode` on one raw parameter. -/
def decodeOne (p : List Nat × List Nat) : List Nat × List Nat × Bool :=
  (p.1, percentDecode p.2, percentDecode p.2 != p.2)

theorem decodeParams_ok_iff : ∀ {params : List (List Nat × List Nat)} {dps : List (List Nat × List Nat × Bool)},
    decodeParams params = .ok dps ↔
      (∀ p ∈ params, utf8Valid (percentDecode p.2) = true) ∧ dps = params.map decodeOne := by
  intro params
  induction params with
  | nil =>
    intro dps
    simp only [decodeParams, Except.ok.injEq, List.map_nil]
    constructor
    · intro h; subst h; exact ⟨(by intro p hp; cases hp), rfl⟩
    · rintro ⟨_, h⟩; exact h.symm
  | cons p ps ih =>
    intro dps
    obtain ⟨k, raw⟩ := p
    simp only [decodeParams, List.mem_cons, forall_eq_or_imp, List.map_cons]
    by_cases hv : utf8Valid (percentDecode raw) = true
    · simp only [hv, if_true, true_and]
      cases hr : decodeParams ps with
      | error e =>
        simp only []
        constructor
        · intro h; cases h
        · rintro ⟨h1, _⟩
          have := (ih (dps := ps.map decodeOne)).mpr ⟨h1, rfl⟩
          simp [hr] at this
      | ok r =>
        obtain ⟨h1, h2⟩ := ih.mp hr
        subst h2
        simp only [Except.ok.injEq]
        constructor
        · intro h; subst h; exact ⟨h1, rfl⟩
        · rintro ⟨_, h⟩; rw [h]; rfl
    · simp [hv]

theorem decodeParams_error {params : List (List Nat × List Nat)} {e : Err}
    (h : decodeParams params = .error e) :
    ∃ p ∈ params, utf8Valid (percentDecode p.2) = false ∧ e = .invalidUtf8 p.1 := by
  induction params with
  | nil => simp [decodeParams] at h
  | cons p ps ih =>
    obtain ⟨k, raw⟩ := p
    simp only [decodeParams] at h
    split at h
    · cases hr : decodeParams ps with
      | error e' =>
        simp only [hr, Except.error.injEq] at h
        subst h
        obtain ⟨q, hq, h1, h2⟩ := ih hr
        exact ⟨q, List.mem_cons_of_mem _ hq, h1, h2⟩
      | ok r => simp [hr] at h
    · rename_i hv
      simp only [Except.error.injEq] at h
      exact ⟨(k, raw), List.mem_cons_self .., by simpa using hv, h.symm⟩

theorem structSpec_lookup {β : Type} {de : List Nat → Ty → β → Except Err Val} {dps : List (List Nat × β)} :
    ∀ {fs : List Field} {vals : List (List Nat × Val)}, structSpec de dps fs = some vals →
    (fs.map (·.name)).Nodup → ∀ f ∈ fs, ∀ v, fieldSpec de dps f = .ok v → lookup f.name vals = some v := by
  intro fs
  induction fs with
  | nil => intro _ _ _ f hf; cases hf
  | cons g fs ih =>
    intro vals h hn f hf v hv
    simp only [List.map_cons, List.nodup_cons] at hn
    simp only [structSpec] at h
    cases hs : fieldSpec de dps g with
    | error e => simp [hs] at h
    | ok w =>
      cases hr : structSpec de dps fs with
      | none => simp [hs, hr] at h
      | some r =>
        simp only [hs, hr, Option.some.injEq] at h
        subst h
        simp only [lookup]
        rcases List.mem_cons.mp hf with e | hf'
        · subst e
          simp only [if_true]
          rw [hs] at hv
          cases hv
          rfl
        · have : g.name ≠ f.name := by
            intro e
            exact hn.1 (e ▸ List.mem_map.mpr ⟨f, hf', rfl⟩)
          rw [if_neg this]
          exact ih hr hn.2 f hf' v hv

theorem structSpec_names {β : Type} {de : List Nat → Ty → β → Except Err Val} {dps : List (List Nat × β)} :
    ∀ {fs : List Field} {vals : List (List Nat × Val)}, structSpec de dps fs = some vals →
    vals.map (·.1) = fs.map (·.name) := by
  intro fs
  induction fs with
  | nil => intro vals h; simp [structSpec] at h; subst h; rfl
  | cons g fs ih =>
    intro vals h
    simp only [structSpec] at h
    cases hs : fieldSpec de dps g with
    | error e => simp [hs] at h
    | ok w =>
      cases hr : structSpec de dps fs with
      | none => simp [hs, hr] at h
      | some r =>
        simp only [hs, hr, Option.some.injEq] at h
        subst h
        simp [ih hr]


/-! ### scalars: print then parse -/

theorem parseSigned_of_digit_head {d : Nat} (rest : List Nat) (bits : Nat) (h1 : 48 ≤ d) :
    parseSigned bits (d :: rest) = (parseUnsigned (2 ^ (bits - 1) - 1) (d :: rest)).map (fun n => (n : Int)) := by
  unfold parseSigned
  split
  · rename_i heq
    simp only [List.cons.injEq] at heq
    omega
  · rfl

theorem parseSigned_neg (bits : Nat) (ds : List Nat) :
    parseSigned bits (45 :: ds) = (parseDigits (2 ^ (bits - 1)) ds).map (fun n => -(n : Int)) := by
  simp [parseSigned]

theorem parseSigned_intDigits (bits : Nat) (z : Int) :
    parseSigned bits (intDigits z) =
      if -((2 ^ (bits - 1) : Nat) : Int) ≤ z ∧ z < ((2 ^ (bits - 1) : Nat) : Int) then some z else none := by
  have hP : 1 ≤ 2 ^ (bits - 1) := Nat.one_le_two_pow
  unfold intDigits
  by_cases hz : z < 0
  · simp only [hz, if_true]
    rw [parseSigned_neg, parseDigits_decDigits]
    generalize 2 ^ (bits - 1) = P at hP
    have hn : (z.natAbs : Int) = -z := Int.ofNat_natAbs_of_nonpos (by omega)
    by_cases hle : z.natAbs ≤ P
    · have hc : -(P : Int) ≤ z ∧ z < (P : Int) := by omega
      simp only [hle, hc, if_true, and_self]
      simp
      omega
    · have hc : ¬ (-(P : Int) ≤ z ∧ z < (P : Int)) := by omega
      simp [hle, hc]
  · simp only [hz, if_false]
    obtain ⟨d, rest, h, h1, _⟩ := decDigits_head z.natAbs
    rw [h, parseSigned_of_digit_head rest bits h1, ← h, parseUnsigned_decDigits]
    generalize 2 ^ (bits - 1) = P at hP
    have hn : (z.natAbs : Int) = z := Int.natAbs_of_nonneg (by omega)
    by_cases hle : z.natAbs ≤ P - 1
    · have hc : -(P : Int) ≤ z ∧ z < (P : Int) := by omega
      simp only [hle, hc, if_true, and_self]
      simp
      exact hn
    · have hc : ¬ (-(P : Int) ≤ z ∧ z < (P : Int)) := by omega
      simp [hle, hc]

theorem decDigits_ascii (n : Nat) : ∀ b ∈ decDigits n, 48 ≤ b ∧ b ≤ 57 := by
  induction n using Nat.strongRecOn with
  | _ n ih =>
    rw [decDigits]
    split
    · intro b hb
      simp only [List.mem_cons, List.mem_nil_iff, or_false] at hb
      omega
    · intro b hb
      rcases List.mem_append.mp hb with h | h
      · exact ih (n / 10) (by omega) b h
      · simp only [List.mem_cons, List.mem_nil_iff, or_false] at h
        omega

theorem utf8DecodeAux_ascii : ∀ (bs : List Nat) (fuel : Nat), bs.length ≤ fuel → (∀ b ∈ bs, b < 128) →
    utf8DecodeAux fuel bs = some bs := by
  intro bs
  induction bs with
  | nil => intro fuel _ _; cases fuel <;> simp [utf8DecodeAux]
  | cons b r ih =>
    intro fuel hf hb
    cases fuel with
    | zero => simp at hf
    | succ fuel =>
      have hlt : b < 128 := hb b (List.mem_cons_self ..)
      simp only [utf8DecodeAux, utf8Step, hlt, if_true, Nat.sub_self, List.drop_zero]
      rw [ih fuel (by simpa using hf) (fun x hx => hb x (List.mem_cons_of_mem _ hx))]

theorem utf8Valid_ascii {bs : List Nat} (h : ∀ b ∈ bs, b < 128) : utf8Valid bs = true := by
  simp [utf8Valid, utf8Decode, utf8DecodeAux_ascii bs bs.length (Nat.le_refl _) h]

theorem parseScalar_print_u (bits : Nat) (owned : Bool) (z : Int) (h : 0 ≤ z ∧ z < ((2 ^ bits : Nat) : Int)) :
    parseScalar (.u bits) owned (printSVal (.int z)) = some (.int z) := by
  have hP : 1 ≤ 2 ^ bits := Nat.one_le_two_pow
  simp only [parseScalar, printSVal, intDigits]
  have hz : ¬ z < 0 := by omega
  simp only [hz, if_false, parseUnsigned_decDigits]
  generalize 2 ^ bits = P at h hP
  have hn : (z.natAbs : Int) = z := Int.natAbs_of_nonneg h.1
  have hle : z.natAbs ≤ P - 1 := by omega
  simp only [hle, if_true]
  simp
  exact hn

theorem parseScalar_print_i (bits : Nat) (owned : Bool) (z : Int)
    (h : -((2 ^ (bits - 1) : Nat) : Int) ≤ z ∧ z < ((2 ^ (bits - 1) : Nat) : Int)) :
    parseScalar (.i bits) owned (printSVal (.int z)) = some (.int z) := by
  simp only [parseScalar, printSVal, parseSigned_intDigits, h, and_self, if_true, Option.map_some]


/-! ### `char`: encode then parse -/

theorem parseChar_utf8Encode (c : Nat) (h : isScalar c = true) : parseChar (utf8Encode c) = some c := by
  simp only [isScalar, Bool.or_eq_true, Bool.and_eq_true, decide_eq_true_eq] at h
  unfold utf8Encode
  by_cases h1 : c < 128
  · simp [h1, parseChar, utf8Decode, utf8DecodeAux, utf8Step]
  · by_cases h2 : c < 2048
    · have a1 : ¬ (192 + c / 64 < 128) := by omega
      have a2 : 194 ≤ 192 + c / 64 := by omega
      have a3 : 192 + c / 64 ≤ 223 := by omega
      have a4 : 128 ≤ 128 + c % 64 := by omega
      have a5 : 128 + c % 64 ≤ 191 := by omega
      have a6 : (192 + c / 64 - 192) * 64 + (128 + c % 64 - 128) = c := by omega
      simp [h1, h2, parseChar, utf8Decode, utf8DecodeAux, utf8Step, isCont, a1, a2, a3, a4, a5]
      omega
    · by_cases h3 : c < 65536
      · have a1 : ¬ (224 + c / 4096 < 128) := by omega
        have a2 : ¬ (224 + c / 4096 ≤ 223) := by omega
        have a3 : 224 ≤ 224 + c / 4096 := by omega
        have a4 : 224 + c / 4096 ≤ 239 := by omega
        have a5 : 128 ≤ 128 + c % 64 := by omega
        have a6 : 128 + c % 64 ≤ 191 := by omega
        have a7 : 128 ≤ 128 + c / 64 % 64 := by omega
        have a8 : 128 + c / 64 % 64 ≤ 191 := by omega
        have a9 : ((224 + c / 4096 - 224) * 64 + (128 + c / 64 % 64 - 128)) * 64 + (128 + c % 64 - 128) = c := by omega
        have s3 : second3 (224 + c / 4096) (128 + c / 64 % 64) = true := by
          unfold second3
          by_cases e1 : 224 + c / 4096 = 224
          · have : 160 ≤ 128 + c / 64 % 64 := by omega
            simp [e1, this, a8]
          · by_cases e2 : 224 + c / 4096 = 237
            · have : 128 + c / 64 % 64 ≤ 159 := by omega
              simp [e1, e2, this, a7]
            · simp [e1, e2, isCont, a7, a8]
              try omega
        simp [h1, h2, h3, parseChar, utf8Decode, utf8DecodeAux, utf8Step, isCont, a1, a2, a3, a4, a5, a6, s3]
        omega
      · have a1 : ¬ (240 + c / 262144 < 128) := by omega
        have a2 : ¬ (240 + c / 262144 ≤ 223) := by omega
        have a3 : ¬ (240 + c / 262144 ≤ 239) := by omega
        have a4 : 240 ≤ 240 + c / 262144 := by omega
        have a5 : 240 + c / 262144 ≤ 244 := by omega
        have b1 : 128 ≤ 128 + c % 64 := by omega
        have b2 : 128 + c % 64 ≤ 191 := by omega
        have b3 : 128 ≤ 128 + c / 64 % 64 := by omega
        have b4 : 128 + c / 64 % 64 ≤ 191 := by omega
        have b5 : 128 ≤ 128 + c / 4096 % 64 := by omega
        have b6 : 128 + c / 4096 % 64 ≤ 191 := by omega
        have a9 : (((240 + c / 262144 - 240) * 64 + (128 + c / 4096 % 64 - 128)) * 64 + (128 + c / 64 % 64 - 128)) * 64 +
            (128 + c % 64 - 128) = c := by omega
        have s4 : second4 (240 + c / 262144) (128 + c / 4096 % 64) = true := by
          unfold second4
          by_cases e1 : 240 + c / 262144 = 240
          · have : 144 ≤ 128 + c / 4096 % 64 := by omega
            simp [e1, this, b6]
          · by_cases e2 : 240 + c / 262144 = 244
            · have : 128 + c / 4096 % 64 ≤ 143 := by omega
              simp [e1, e2, this, b5]
            · simp [e1, e2, isCont, b5, b6]
              try omega
        simp [h1, h2, h3, parseChar, utf8Decode, utf8DecodeAux, utf8Step, isCont, a1, a2, a3, a4, a5, b1, b2, b3, b4, s4]
        omega


theorem parseScalar_print (t : STy) (owned : Bool) (v : SVal) (h : SValOk t v) :
    parseScalar t owned (printSVal v) = some v := by
  cases t <;> cases v <;> simp only [SValOk] at h
  · exact parseScalar_print_u _ owned _ h
  · exact parseScalar_print_i _ owned _ h.2
  · rename_i b
    cases b <;> simp [parseScalar, printSVal, parseBool]
  · rename_i c
    simp [parseScalar, printSVal, parseChar_utf8Encode c h]
  · simp [parseScalar, printSVal]
  · simp [parseScalar, printSVal]

theorem structSpec_of_all {β : Type} {de : List Nat → Ty → β → Except Err Val} {dps : List (List Nat × β)}
    (g : Field → Val) : ∀ (fs : List Field), (∀ f ∈ fs, fieldSpec de dps f = .ok (g f)) →
    structSpec de dps fs = some (fs.map (fun f => (f.name, g f))) := by
  intro fs
  induction fs with
  | nil => intro _; rfl
  | cons f fs ih =>
    intro h
    simp only [structSpec, h f (List.mem_cons_self ..), ih (fun x hx => h x (List.mem_cons_of_mem _ hx)), List.map_cons]


/-! ### form_urlencoded: serialise then parse -/

theorem hexUpper_not_sep : ∀ n, n < 16 → hexUpper n ≠ 38 ∧ hexUpper n ≠ 61 := by decide

theorem byteSerialize_no_sep (bs : List Nat) (hb : ∀ b ∈ bs, b < 256) :
    38 ∉ byteSerialize bs ∧ 61 ∉ byteSerialize bs := by
  induction bs with
  | nil => simp [byteSerialize]
  | cons b bs ih =>
    have hlt : b < 256 := hb b (List.mem_cons_self ..)
    have ih' := ih (fun x hx => hb x (List.mem_cons_of_mem _ hx))
    have h1 : b / 16 < 16 := by omega
    have h2 : b % 16 < 16 := by omega
    simp only [byteSerialize, List.mem_append, not_or]
    by_cases hu : formUnchanged b = true
    · have := formUnchanged_ne hu
      simp only [hu, if_true, List.mem_cons, List.mem_nil_iff, or_false]
      exact ⟨⟨fun e => this.2.2.1 e.symm, ih'.1⟩, ⟨fun e => this.2.2.2 e.symm, ih'.2⟩⟩
    · by_cases hs : b = 32
      · simp only [hu, hs, Bool.false_eq_true, if_false, if_true, List.mem_cons, List.mem_nil_iff, or_false]
        exact ⟨⟨by decide, ih'.1⟩, ⟨by decide, ih'.2⟩⟩
      · simp only [hu, hs, Bool.false_eq_true, if_false, percentEncodeByte, List.mem_cons, List.mem_nil_iff, or_false, not_or]
        have e1 := hexUpper_not_sep _ h1
        have e2 := hexUpper_not_sep _ h2
        exact ⟨⟨⟨by decide, fun e => e1.1 e.symm, fun e => e2.1 e.symm⟩, ih'.1⟩,
               ⟨⟨by decide, fun e => e1.2 e.symm, fun e => e2.2 e.symm⟩, ih'.2⟩⟩

theorem splitOn_ne_nil (sep : Nat) (bs : List Nat) : splitOn sep bs ≠ [] := by
  induction bs with
  | nil => simp [splitOn]
  | cons b bs ih =>
    simp only [splitOn]
    split
    · simp
    · split <;> simp

theorem splitOn_no_sep {sep : Nat} {a : List Nat} (h : sep ∉ a) : splitOn sep a = [a] := by
  induction a with
  | nil => simp [splitOn]
  | cons b a ih =>
    simp only [List.mem_cons, not_or] at h
    simp only [splitOn, ih h.2]
    rw [if_neg (fun e => h.1 e.symm)]

theorem splitOn_append_sep {sep : Nat} {a : List Nat} (rest : List Nat) (h : sep ∉ a) :
    splitOn sep (a ++ sep :: rest) = a :: splitOn sep rest := by
  induction a with
  | nil =>
    simp only [List.nil_append, splitOn]
    cases hs : splitOn sep rest with
    | nil => exact absurd hs (splitOn_ne_nil sep rest)
    | cons p ps => simp
  | cons b a ih =>
    simp only [List.mem_cons, not_or] at h
    simp only [List.cons_append, splitOn, ih h.2]
    rw [if_neg (fun e => h.1 e.symm)]

theorem splitFirst_append {sep : Nat} {a : List Nat} (b : List Nat) (h : sep ∉ a) :
    splitFirst sep (a ++ sep :: b) = (a, b) := by
  induction a with
  | nil => simp [splitFirst]
  | cons x a ih =>
    simp only [List.mem_cons, not_or] at h
    simp only [List.cons_append, splitFirst]
    rw [if_neg (fun e => h.1 e.symm), ih h.2]

/-- One serialised pair: `name=value`. -/
def pairPiece (kv : List Nat × List Nat) : List Nat := byteSerialize kv.1 ++ 61 :: byteSerialize kv.2

theorem formSerialize_cons (kv : List Nat × List Nat) (rest : List (List Nat × List Nat)) :
    formSerialize (kv :: rest) =
      match rest with
      | [] => pairPiece kv
      | _ :: _ => pairPiece kv ++ 38 :: formSerialize rest := by
  cases rest with
  | nil => simp [formSerialize, pairPiece]
  | cons kv' rest' => simp [formSerialize, pairPiece, List.append_assoc]

theorem pairPiece_props (kv : List Nat × List Nat)
    (hb : (∀ b ∈ kv.1, b < 256) ∧ (∀ b ∈ kv.2, b < 256)) :
    38 ∉ pairPiece kv ∧ pairPiece kv ≠ [] ∧ splitFirst 61 (pairPiece kv) = (byteSerialize kv.1, byteSerialize kv.2) := by
  have h1 := byteSerialize_no_sep kv.1 hb.1
  have h2 := byteSerialize_no_sep kv.2 hb.2
  refine ⟨?_, ?_, ?_⟩
  · simp only [pairPiece, List.mem_append, List.mem_cons, not_or]
    exact ⟨h1.1, by decide, h2.1⟩
  · simp [pairPiece]
  · exact splitFirst_append _ h1.2

theorem formPairsRaw_formSerialize : ∀ (pairs : List (List Nat × List Nat)),
    (∀ kv ∈ pairs, (∀ b ∈ kv.1, b < 256) ∧ (∀ b ∈ kv.2, b < 256)) →
    formPairsRaw (formSerialize pairs) = pairs.map (fun kv => (byteSerialize kv.1, byteSerialize kv.2)) := by
  intro pairs
  induction pairs with
  | nil => intro _; simp [formPairsRaw, formSerialize, splitOn]
  | cons kv rest ih =>
    intro hb
    obtain ⟨p1, p2, p3⟩ := pairPiece_props kv (hb kv (List.mem_cons_self ..))
    have ih' := ih (fun x hx => hb x (List.mem_cons_of_mem _ hx))
    rw [formSerialize_cons]
    cases rest with
    | nil =>
      simp only [formPairsRaw, splitOn_no_sep p1, List.map_cons, List.map_nil]
      have : (pairPiece kv).isEmpty = false := by
        cases h : pairPiece kv with
        | nil => exact absurd h p2
        | cons _ _ => rfl
      simp [List.filter, this, p3]
    | cons kv' rest' =>
      simp only [formPairsRaw] at ih' ⊢
      rw [splitOn_append_sep _ p1]
      have : (pairPiece kv).isEmpty = false := by
        cases h : pairPiece kv with
        | nil => exact absurd h p2
        | cons _ _ => rfl
      simp only [List.filter_cons, this, Bool.not_false, if_true, List.map_cons, p3]
      rw [ih']
      rfl


/-! ### which errors can come out -/

theorem visitMap_error {β : Type} {de : List Nat → Ty → β → Except Err Val} {fields : List Field} {e : Err} :
    ∀ {ps : List (List Nat × β)} {acc : List (List Nat × Val)}, visitMap de fields ps acc = .error e →
    (∃ k, e = .duplicateField k) ∨ ∃ k t b, de k t b = .error e := by
  intro ps
  induction ps with
  | nil => intro acc h; simp [visitMap] at h
  | cons p ps ih =>
    intro acc h
    obtain ⟨k, b⟩ := p
    simp only [visitMap] at h
    cases hf : findField k fields with
    | none => simp only [hf] at h; exact ih h
    | some f =>
      simp only [hf] at h
      cases hl : lookup k acc with
      | some v =>
        simp only [hl, Except.error.injEq] at h
        exact Or.inl ⟨k, h.symm⟩
      | none =>
        simp only [hl] at h
        cases hd : de k f.ty b with
        | error e' =>
          simp only [hd, Except.error.injEq] at h
          subst h
          exact Or.inr ⟨k, f.ty, b, hd⟩
        | ok x =>
          simp only [hd] at h
          exact ih h

theorem finishFields_error {e : Err} {acc : List (List Nat × Val)} :
    ∀ {fs : List Field}, finishFields fs acc = .error e → ∃ n, e = .missingField n := by
  intro fs
  induction fs with
  | nil => intro h; simp [finishFields] at h
  | cons f fs ih =>
    intro h
    simp only [finishFields] at h
    cases ho : finishOne acc f with
    | error e' =>
      simp only [ho, Except.error.injEq] at h
      subst h
      unfold finishOne at ho
      split at ho
      · cases ho
      · split at ho
        · cases ho
        · cases ho
        · simp only [Except.error.injEq] at ho
          exact ⟨f.name, ho.symm⟩
    | ok v =>
      simp only [ho] at h
      cases hr : finishFields fs acc with
      | error e' =>
        simp only [hr, Except.error.injEq] at h
        subst h
        exact ih hr
      | ok r => simp [hr] at h

theorem pathField_error {k : List Nat} {t : Ty} {v : List Nat} {o : Bool} {e : Err}
    (h : pathField k t v o = .error e) :
    e = .borrowedStr k ∨ (∃ st, e = .parseAt k v st) ∨ e = .unsupported := by
  unfold pathField at h
  split at h
  · split at h
    · cases h
    · split at h
      · simp only [Except.error.injEq] at h; exact Or.inl h.symm
      · simp only [Except.error.injEq] at h; exact Or.inr (Or.inl ⟨_, h.symm⟩)
  · split at h
    · cases h
    · split at h
      · simp only [Except.error.injEq] at h; exact Or.inl h.symm
      · simp only [Except.error.injEq] at h; exact Or.inr (Or.inl ⟨_, h.symm⟩)
  · simp only [Except.error.injEq] at h; exact Or.inr (Or.inr h.symm)
  · simp only [Except.error.injEq] at h; exact Or.inr (Or.inr h.symm)

/-! ### routing: one `{param}` per segment -/

theorem splitOn_joinSlash : ∀ (segs : List (List Nat)), segs ≠ [] → (∀ s ∈ segs, 47 ∉ s) →
    splitOn 47 (joinSlash segs) = segs := by
  intro segs
  induction segs with
  | nil => intro h; exact absurd rfl h
  | cons s rest ih =>
    intro _ hs
    have h1 : 47 ∉ s := hs s (List.mem_cons_self ..)
    cases rest with
    | nil => simp [joinSlash, splitOn_no_sep h1]
    | cons s' rest' =>
      have : joinSlash (s :: s' :: rest') = s ++ 47 :: joinSlash (s' :: rest') := by
        simp [joinSlash]
      rw [this, splitOn_append_sep _ h1, ih (by simp) (fun x hx => hs x (List.mem_cons_of_mem _ hx))]

theorem matchSegs_params : ∀ (names segs : List (List Nat)), names.length = segs.length →
    (∀ s ∈ segs, s ≠ []) → matchSegs (names.map Seg.param) segs = some (names.zip segs) := by
  intro names
  induction names with
  | nil =>
    intro segs hl _
    cases segs with
    | nil => simp [matchSegs]
    | cons _ _ => simp at hl
  | cons n names ih =>
    intro segs hl hne
    cases segs with
    | nil => simp at hl
    | cons s segs =>
      have hs : s ≠ [] := hne s (List.mem_cons_self ..)
      have hlen : names.length = segs.length := by simpa using hl
      have ih' := ih segs hlen (fun x hx => hne x (List.mem_cons_of_mem _ hx))
      have hsE : s.isEmpty = false := by
        cases s with
        | nil => exact absurd rfl hs
        | cons _ _ => rfl
      simp only [List.map_cons, List.zip_cons_cons]
      unfold matchSegs
      simp [hsE, ih']


/-! ### query round trip -/

theorem formSpec_of_all {ps : List (List Nat × List Nat × Bool)} (g : Field → Val) :
    ∀ (fs : List Field), (∀ f ∈ fs, formFieldSpec ps f = .ok (g f)) →
    formSpec ps fs = some (fs.map (fun f => (f.name, g f))) := by
  intro fs
  induction fs with
  | nil => intro _; rfl
  | cons f fs ih =>
    intro h
    simp only [formSpec, h f (List.mem_cons_self ..), ih (fun x hx => h x (List.mem_cons_of_mem _ hx)), List.map_cons]

theorem occurrences_not_mem {k : List Nat} : ∀ {ps : List (List Nat × List Nat × Bool)},
    k ∉ ps.map (·.1) → occurrences k ps = [] := by
  intro ps
  induction ps with
  | nil => intro _; rfl
  | cons p ps ih =>
    intro h
    obtain ⟨k', v, o⟩ := p
    simp only [List.map_cons, List.mem_cons, not_or] at h
    simp only [occurrences]
    rw [if_neg (fun e => h.1 e.symm)]
    exact ih h.2

theorem occurrences_of_mem_nodup {k v : List Nat} {o : Bool} : ∀ {ps : List (List Nat × List Nat × Bool)},
    (ps.map (·.1)).Nodup → (k, v, o) ∈ ps → occurrences k ps = [(v, o)] := by
  intro ps
  induction ps with
  | nil => intro _ h; cases h
  | cons p ps ih =>
    intro hn hm
    obtain ⟨k', v', o'⟩ := p
    simp only [List.map_cons, List.nodup_cons] at hn
    simp only [occurrences]
    rcases List.mem_cons.mp hm with heq | hm'
    · cases heq
      simp only [if_true]
      rw [occurrences_not_mem hn.1]
    · have : k' ≠ k := by
        intro e
        subst e
        exact hn.1 (List.mem_map.mpr ⟨(k', v, o), hm', rfl⟩)
      rw [if_neg this]
      exact ih hn.2 hm'

end Pxv.ReqData
