import Pxv.Model.ReqData
/-! Helper lemmas for C15 (typed request data). -/
namespace Pxv.ReqData

/-! ### percent-decoding, one step at a time -/

theorem isHex_hexUpper : ∀ n, n < 16 → isHex (hexUpper n) = true := by decide

theorem hexVal_hexUpper : ∀ n, n < 16 → hexVal (hexUpper n) = n := by decide

theorem hexUpper_ne_percent : ∀ n, n < 16 → hexUpper n ≠ 37 := by decide

theorem percentDecode_nil : percentDecode [] = [] := by simp [percentDecode]

/-- A byte other than `%` is copied. -/
theorem percentDecode_cons_ne {b : Nat} (h : b ≠ 37) (rest : List Nat) :
    percentDecode (b :: rest) = b :: percentDecode rest := by
  match rest with
  | [] => simp [percentDecode]
  | [x] => simp [percentDecode]
  | x :: y :: r => simp [percentDecode, h]

/-- `%XY` with two hex digits is one byte. -/
theorem percentDecode_escape {h l : Nat} (hh : isHex h = true) (hl : isHex l = true) (rest : List Nat) :
    percentDecode (37 :: h :: l :: rest) = (hexVal h * 16 + hexVal l) :: percentDecode rest := by
  simp [percentDecode, hh, hl]

/-- A `%` not followed by two hex digits is copied, and scanning resumes right after it. -/
theorem percentDecode_percent_literal {rest : List Nat}
    (h : ∀ x y r, rest = x :: y :: r → ¬ (isHex x = true ∧ isHex y = true)) :
    percentDecode (37 :: rest) = 37 :: percentDecode rest := by
  match rest, h with
  | [], _ => simp [percentDecode]
  | [x], _ => simp [percentDecode]
  | x :: y :: r, h =>
    have := h x y r rfl
    simp only [percentDecode]
    split
    · rename_i hc
      simp at hc
      exact absurd ⟨hc.1, hc.2⟩ this
    · rfl

theorem percentDecode_encByte {b : Nat} (hb : b < 256) (rest : List Nat) :
    percentDecode (percentEncodeByte b ++ rest) = b :: percentDecode rest := by
  have h1 : b / 16 < 16 := by omega
  have h2 : b % 16 < 16 := by omega
  simp only [percentEncodeByte, List.cons_append, List.nil_append]
  rw [percentDecode_escape (isHex_hexUpper _ h1) (isHex_hexUpper _ h2),
      hexVal_hexUpper _ h1, hexVal_hexUpper _ h2]
  congr 1
  omega

end Pxv.ReqData
