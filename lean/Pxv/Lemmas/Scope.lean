import Pxv.Model.Scope
/-! Helper lemmas for `Thm/C04.lean`: the per-scope table, the FIFO walk on tree-shaped scope graphs,
    clone insertion. -/
namespace Pxv.Scope

/-! ### the per-scope table: last insertion wins -/

theorem find_insert (m : List (Nat × Ctor)) (c : Ctor) (ty : Nat) :
    (insert m c).find? (fun e => e.1 == ty) =
      if c.ty = ty then some (c.ty, c) else m.find? (fun e => e.1 == ty) := by
  unfold insert
  by_cases h : c.ty = ty
  · simp [h]
  · have h' : (c.ty == ty) = false := by simpa using h
    simp only [List.find?_cons, h', h, if_false]
    rw [List.find?_filter]
    congr 1
    funext a
    by_cases ha : a.1 = ty
    · subst ha
      have : a.1 ≠ c.ty := fun hh => h hh.symm
      simp [this]
    · simp [ha]

/-- folding `insert` over registrations: the last one for `ty` wins, older content survives otherwise. -/
theorem find_foldl_insert (l : List (Nat × Ctor)) (m : List (Nat × Ctor)) (ty : Nat) :
    ((l.foldl (fun m r => insert m r.2) m).find? (fun e => e.1 == ty)).map (·.2) =
      (((l.filter (fun r => r.2.ty == ty)).getLast?).map (·.2)).or
        ((m.find? (fun e => e.1 == ty)).map (·.2)) := by
  induction l generalizing m with
  | nil => simp
  | cons r rest ih =>
    simp only [List.foldl_cons]
    rw [ih]
    rw [find_insert]
    by_cases h : r.2.ty = ty
    · subst h
      simp only [if_true, List.filter_cons, beq_self_eq_true]
      rw [List.getLast?_cons]
      cases hl : (rest.filter (fun r' => r'.2.ty == r.2.ty)).getLast? with
      | none => simp
      | some x => simp
    · have hb : (r.2.ty == ty) = false := by simpa using h
      simp [h, hb]

/-! ### the FIFO walk -/

/-- first scope of the list that has the type -/
def firstHit (has : Nat → Option Ctor) : List Nat → Option Ctor
  | [] => none
  | s :: rest => match has s with
    | some c => some c
    | none => firstHit has rest

/-- ancestor-or-self chain of `s` as long as scopes have exactly one parent, `fuel` steps at most. -/
def chainF (parents : Nat → List Nat) : Nat → Nat → List Nat
  | 0, _ => []
  | f + 1, s => s :: match parents s with
    | [p] => chainF parents f p
    | _ => []

/-- the chain stops at a scope without parents (never at one with several) -/
def TreeFrom (parents : Nat → List Nat) : Nat → Nat → Prop
  | 0, _ => True
  | f + 1, s => match parents s with
    | [] => True
    | [p] => TreeFrom parents f p
    | _ => False

/-- on a single-parent chain the FIFO never holds more than one scope: the walk is the chain. -/
theorem bfs_chain (parents : Nat → List Nat) (has : Nat → Option Ctor) :
    ∀ fuel s, TreeFrom parents fuel s → bfs parents has fuel [s] = firstHit has (chainF parents fuel s) := by
  intro fuel
  induction fuel with
  | zero => intro s _; simp [bfs, chainF, firstHit]
  | succ f ih =>
    intro s ht
    simp only [bfs, chainF, firstHit]
    cases hh : has s with
    | some c => rfl
    | none =>
      simp only [List.nil_append]
      unfold TreeFrom at ht
      match hp : parents s with
      | [] =>
        cases f with
        | zero => simp [bfs, firstHit]
        | succ f' => simp [bfs, firstHit]
      | [p] =>
        rw [hp] at ht
        simp only at ht
        exact ih p ht
      | _ :: _ :: _ => rw [hp] at ht; exact ht.elim

/-- parents have smaller ids -/
def Decr (parents : Nat → List Nat) : Prop := ∀ s, ∀ p ∈ parents s, p < s

/-- with decreasing parents a chain from `s` has at most `s + 1` elements: more fuel changes nothing. -/
theorem chainF_stable (parents : Nat → List Nat) (hd : Decr parents) :
    ∀ s f, s + 1 ≤ f → chainF parents f s = chainF parents (s + 1) s := by
  intro s
  induction s using Nat.strongRecOn with
  | _ s ih =>
    intro f hf
    obtain ⟨f', rfl⟩ : ∃ f', f = f' + 1 := ⟨f - 1, by omega⟩
    simp only [chainF]
    congr 1
    match hp : parents s with
    | [] => rfl
    | [p] =>
      simp only
      have hlt : p < s := hd s p (by simp [hp])
      rw [ih p hlt f' (by omega), ih p hlt s (by omega)]
    | _ :: _ :: _ => rfl

theorem treeFrom_mono (parents : Nat → List Nat) :
    ∀ f s, TreeFrom parents (f + 1) s → TreeFrom parents f s := by
  intro f
  induction f with
  | zero => intro s _; trivial
  | succ f ih =>
    intro s h
    unfold TreeFrom at h ⊢
    match hp : parents s with
    | [] => trivial
    | [p] => rw [hp] at h; simp only at h ⊢; exact ih p h
    | _ :: _ :: _ => rw [hp] at h; exact h.elim

/-! ### clone insertion -/
open Pxv.CG Pxv.CG.Graph

abbrev CGr := Pxv.CG.Graph

theorem node_append_lt (g : CGr) (es : List Edge) (x : Node) (i : Nat) (h : i < g.size) :
    ({ nodes := g.nodes ++ [x], edges := es } : CGr).node i = g.node i := by
  unfold Graph.node Graph.size at *
  simp [List.getD_eq_getElem?_getD, List.getElem?_append_left h]

theorem node_append_eq (g : CGr) (x : Node) (es : List Edge) :
    ({ nodes := g.nodes ++ [x], edges := es } : CGr).node g.size = x := by
  unfold Graph.node Graph.size
  simp [List.getD_eq_getElem?_getD]

theorem lt_size_of_cloneable (g : CGr) (d : Nat) (h : (g.node d).cloneable = true) : d < g.size := by
  unfold Graph.node Graph.size at *
  by_cases hd : d < g.nodes.length
  · exact hd
  · have : g.nodes[d]? = none := List.getElem?_eq_none (by omega)
    simp [List.getD_eq_getElem?_getD, this] at h

/-- what a successful `tryClone` did -/
theorem tryClone_some {cg cg' : CGraph} {d c : Nat} (h : tryClone cg d c = some cg') :
    (cg.g.node d).cloneable = true ∧ (⟨d, c, .move⟩ : Edge) ∈ cg.g.edges ∧
    cg'.g.nodes = cg.g.nodes ++ [({} : Node)] ∧
    cg'.g.edges = cg.g.edges.erase ⟨d, c, .move⟩ ++ [⟨d, cg.g.size, .shared⟩, ⟨cg.g.size, c, .move⟩] ∧
    cg'.clones = cg.clones ++ [(cg.g.size, d)] := by
  unfold tryClone at h
  split at h
  · rename_i hc
    simp only [Bool.and_eq_true, List.contains_iff_mem] at hc
    cases h
    exact ⟨hc.1, hc.2, rfl, rfl, rfl⟩
  · cases h

/-- clone nodes are what they should be: in range, and their only incoming edge is a shared borrow
    of the node they copy. -/
def CloneInv (cg : CGraph) : Prop :=
  cg.g.wellFormed = true ∧
  ∀ kd ∈ cg.clones, kd.1 < cg.g.size ∧ cg.g.inEdges kd.1 = [⟨kd.2, kd.1, .shared⟩]

theorem filter_erase_of_not {α : Type} [BEq α] [LawfulBEq α] (p : α → Bool) (a : α) (l : List α)
    (h : p a = false) : (l.erase a).filter p = l.filter p := by
  induction l with
  | nil => rfl
  | cons x xs ih =>
    by_cases hx : x = a
    · subst hx; simp [h]
    · have : (x == a) = false := by simpa using hx
      simp [this, List.filter_cons, ih]

theorem tryClone_inv {cg cg' : CGraph} {d c : Nat} (h : tryClone cg d c = some cg')
    (hi : CloneInv cg) : CloneInv cg' := by
  obtain ⟨hcl, hmem, hn, he, hc⟩ := tryClone_some h
  obtain ⟨hwf, hcs⟩ := hi
  have hwf' : ∀ e ∈ cg.g.edges, e.src < cg.g.size ∧ e.dst < cg.g.size := by
    intro e hmem'
    unfold wellFormed at hwf
    rw [List.all_eq_true] at hwf
    simpa using hwf e hmem'
  have hd : d < cg.g.size := (hwf' _ hmem).1
  have hcc : c < cg.g.size := (hwf' _ hmem).2
  have hsize : cg'.g.size = cg.g.size + 1 := by unfold Graph.size; rw [hn]; simp
  refine ⟨?_, ?_⟩
  · unfold wellFormed
    rw [List.all_eq_true]
    intro e hmem'
    rw [he] at hmem'
    rw [hsize]
    simp only [List.mem_append, List.mem_cons, List.mem_nil_iff, or_false] at hmem'
    rcases hmem' with h1 | h1 | h1
    · have := hwf' e (List.mem_of_mem_erase h1)
      simp; omega
    · subst h1; simp; omega
    · subst h1; simp; omega
  · intro kd hkd
    rw [hc] at hkd
    simp only [List.mem_append, List.mem_singleton] at hkd
    rw [hsize]
    unfold inEdges
    rw [he]
    rcases hkd with hold | hnew
    · obtain ⟨hlt, hin⟩ := hcs kd hold
      refine ⟨by omega, ?_⟩
      -- the erased edge does not point at an older clone node: its in-edge is a shared borrow
      have hne : c ≠ kd.1 := by
        intro hceq
        have : (⟨d, c, .move⟩ : Edge) ∈ cg.g.inEdges kd.1 := by
          unfold inEdges
          rw [← hceq]
          simp [List.mem_filter, hmem]
        rw [hin] at this
        simp at this
      have hp : (fun e : Edge => e.dst == kd.1) ⟨d, c, .move⟩ = false := by simpa using hne
      rw [List.filter_append, filter_erase_of_not (fun e : Edge => e.dst == kd.1) ⟨d, c, .move⟩ _ hp]
      unfold inEdges at hin
      rw [hin]
      have h1 : (cg.g.size == kd.1) = false := by simpa using (by omega : cg.g.size ≠ kd.1)
      have h2 : (c == kd.1) = false := by simpa using hne
      simp [h1, h2]
    · subst hnew
      refine ⟨by simp, ?_⟩
      have hp : (fun e : Edge => e.dst == cg.g.size) ⟨d, c, .move⟩ = false := by
        simpa using (by omega : c ≠ cg.g.size)
      rw [List.filter_append, filter_erase_of_not (fun e : Edge => e.dst == cg.g.size) ⟨d, c, .move⟩ _ hp]
      have hnone : cg.g.edges.filter (fun e => e.dst == cg.g.size) = [] := by
        rw [List.filter_eq_nil_iff]
        intro e hmem'
        have := (hwf' e hmem').2
        simpa using (by omega : e.dst ≠ cg.g.size)
      have h2 : (c == cg.g.size) = false := by simpa using (by omega : c ≠ cg.g.size)
      simp [hnone, h2]

theorem applyReqs_inv (reqs : List (Nat × Nat)) : ∀ cg, CloneInv cg → CloneInv (applyReqs cg reqs) := by
  induction reqs with
  | nil => intro cg h; exact h
  | cons r rest ih =>
    intro cg h
    obtain ⟨d, c⟩ := r
    simp only [applyReqs]
    cases ht : tryClone cg d c with
    | none => exact ih cg h
    | some cg' => exact ih cg' (tryClone_inv ht h)

/-- every clone inserted by a run of requests copies an original, cloneable node. -/
theorem applyReqs_origin (reqs : List (Nat × Nat)) : ∀ cg, ∀ kd ∈ (applyReqs cg reqs).clones,
    kd ∈ cg.clones ∨ ((cg.g.node kd.2).cloneable = true ∧ kd.2 < cg.g.size ∧ cg.g.size ≤ kd.1) := by
  induction reqs with
  | nil => intro cg kd h; exact Or.inl h
  | cons r rest ih =>
    intro cg kd h
    obtain ⟨d, c⟩ := r
    simp only [applyReqs] at h
    cases ht : tryClone cg d c with
    | none => rw [ht] at h; exact ih cg kd h
    | some cg' =>
      rw [ht] at h
      obtain ⟨hcl, _, hn, _, hc⟩ := tryClone_some ht
      have hsize : cg'.g.size = cg.g.size + 1 := by unfold Graph.size; rw [hn]; simp
      rcases ih cg' kd h with h1 | ⟨h1, h2, h3⟩
      · rw [hc] at h1
        simp only [List.mem_append, List.mem_singleton] at h1
        rcases h1 with h1 | h1
        · exact Or.inl h1
        · subst h1
          exact Or.inr ⟨hcl, lt_size_of_cloneable _ _ hcl, Nat.le_refl _⟩
      · right
        have hnode : cg'.g = ({ nodes := cg.g.nodes ++ [({} : Node)], edges := cg'.g.edges } : CGr) := by
          cases hg : cg'.g; simp [hg] at hn ⊢; exact hn
        by_cases hlt : kd.2 < cg.g.size
        · rw [hnode, node_append_lt _ _ _ _ hlt] at h1
          exact ⟨h1, hlt, by omega⟩
        · have : kd.2 = cg.g.size := by omega
          rw [hnode, this, node_append_eq] at h1
          simp at h1

end Pxv.Scope
