import Pxv.Model.Store
/-! Helper lemmas for C13 (association-list table, live views, one-step simulations). -/
namespace Pxv.Store

variable {σ : Type}

/-! ### the table -/

@[simp] theorem get_nil (i : Nat) : get ([] : Tbl σ) i = none := rfl

theorem get_cons (j : Nat) (r : Rec σ) (t : Tbl σ) (i : Nat) :
    get ((j, r) :: t) i = if j = i then some r else get t i := rfl

theorem get_erase (t : Tbl σ) (i j : Nat) : get (erase t i) j = if j = i then none else get t j := by
  induction t with
  | nil => simp [erase]
  | cons p t ih =>
    obtain ⟨k, r⟩ := p
    unfold erase at ih ⊢
    by_cases hk : k = i
    · subst hk
      simp only [List.filter_cons, bne_self_eq_false, Bool.false_eq_true, if_false, ih, get_cons]
      by_cases hj : j = k
      · simp [hj]
      · have : ¬ k = j := fun h => hj h.symm
        simp [hj, this]
    · have hne : (k != i) = true := by simpa using hk
      simp only [List.filter_cons, hne, if_true, get_cons, ih]
      by_cases hj : j = i
      · subst hj; simp [hk]
      · simp [hj]

theorem get_put (t : Tbl σ) (i : Nat) (r : Rec σ) (j : Nat) :
    get (put t i r) j = if j = i then some r else get t j := by
  unfold put
  rw [get_cons, get_erase]
  by_cases hj : j = i
  · subst hj; simp
  · have : ¬ i = j := fun h => hj h.symm
    simp [hj, this]

theorem get_eraseAll (t : Tbl σ) (ids : List Nat) (j : Nat) :
    get (eraseAll t ids) j = if j ∈ ids then none else get t j := by
  induction t with
  | nil => simp [eraseAll]
  | cons p t ih =>
    obtain ⟨k, r⟩ := p
    unfold eraseAll at ih ⊢
    by_cases hk : k ∈ ids
    · have : (!ids.contains k) = false := by simp [hk]
      simp only [List.filter_cons, this, Bool.false_eq_true, if_false, ih, get_cons]
      by_cases hj : k = j
      · subst hj; simp [hk]
      · simp [hj]
    · have : (!ids.contains k) = true := by simp [hk]
      simp only [List.filter_cons, this, if_true, get_cons, ih]
      by_cases hj : k = j
      · subst hj; simp [hk]
      · simp [hj]

theorem get_isSome_iff_mem_keys (t : Tbl σ) (i : Nat) : (get t i).isSome = true ↔ i ∈ keys t := by
  induction t with
  | nil => simp [keys]
  | cons p t ih =>
    obtain ⟨k, r⟩ := p
    rw [get_cons]
    by_cases hk : k = i
    · subst hk; simp [keys]
    · have : ¬ i = k := fun h => hk h.symm
      simp only [hk, if_false, ih, keys, List.map_cons, List.mem_cons, this, false_or]

/-! ### live views -/

/-- The live part of an optional record. -/
def liveOpt (now : Nat) (o : Option (Rec σ)) : Option (Rec σ) :=
  match o with
  | some r => if live now r then some r else none
  | none => none

/-- What an observer can learn about id `i` from the physical table at time `now`. -/
def tblLive (t : Tbl σ) (now i : Nat) : Option (Rec σ) := liveOpt now (get t i)

theorem liveAt_eq (a : AMap σ) (now i : Nat) : a.liveAt now i = liveOpt now (a i) := rfl

theorem memFresh_eq (t : Tbl σ) (now i : Nat) : memFresh t now i = tblLive t now i := by
  unfold memFresh tblLive liveOpt memStale live
  cases get t i with
  | none => rfl
  | some r => by_cases h : r.deadline ≤ now <;> simp [h, Nat.not_lt.mpr, Nat.lt_of_not_le]

theorem sqlSel_eq (t : Tbl σ) (nowS i : Nat) : sqlSel t nowS i = tblLive t nowS i := by
  unfold sqlSel tblLive liveOpt sqlLive live
  cases get t i <;> rfl

theorem liveOpt_mono {now now' : Nat} (h : now ≤ now') (o : Option (Rec σ)) :
    liveOpt now' (liveOpt now o) = liveOpt now' o := by
  cases o with
  | none => rfl
  | some r =>
    unfold liveOpt live
    by_cases h1 : now < r.deadline
    · simp [h1]
    · have : ¬ now' < r.deadline := by omega
      simp [h1, this]

theorem liveOpt_some {now : Nat} {o : Option (Rec σ)} {r : Rec σ} (h : liveOpt now o = some r) :
    o = some r ∧ now < r.deadline := by
  cases o with
  | none => simp [liveOpt] at h
  | some r' =>
    unfold liveOpt live at h
    by_cases h1 : now < r'.deadline
    · simp [h1] at h; subst h; exact ⟨rfl, h1⟩
    · simp [h1] at h

theorem liveOpt_none_iff {now : Nat} {o : Option (Rec σ)} :
    liveOpt now o = none ↔ ∀ r, o = some r → r.deadline ≤ now := by
  cases o with
  | none => simp [liveOpt]
  | some r' =>
    unfold liveOpt live
    by_cases h1 : now < r'.deadline
    · simp [h1]
    · simp [h1]; omega

/-- The refinement relation: table and abstract map show the same live records. -/
def Agree (now : Nat) (t : Tbl σ) (a : AMap σ) : Prop := ∀ i, tblLive t now i = a.liveAt now i

theorem agree_empty (now : Nat) : Agree now ([] : Tbl σ) AMap.empty := fun _ => rfl

theorem agree_mono {now now' : Nat} {t : Tbl σ} {a : AMap σ} (h : now ≤ now') (ag : Agree now t a) :
    Agree now' t a := by
  intro i
  have := ag i
  unfold tblLive at this ⊢
  rw [liveAt_eq] at this ⊢
  rw [← liveOpt_mono h (get t i), this, liveOpt_mono h]

theorem set_apply (a : AMap σ) (i : Nat) (v : Option (Rec σ)) (j : Nat) :
    a.set i v j = if j = i then v else a j := rfl

theorem agree_put {now : Nat} {t : Tbl σ} {a : AMap σ} (ag : Agree now t a) (i : Nat) (r : Rec σ) :
    Agree now (put t i r) (a.set i (some r)) := by
  intro j
  have := ag j
  unfold tblLive at this ⊢
  rw [liveAt_eq] at this ⊢
  rw [get_put, set_apply]
  by_cases hj : j = i <;> simp [hj, this]

theorem agree_erase {now : Nat} {t : Tbl σ} {a : AMap σ} (ag : Agree now t a) (i : Nat) :
    Agree now (erase t i) (a.set i none) := by
  intro j
  have := ag j
  unfold tblLive at this ⊢
  rw [liveAt_eq] at this ⊢
  rw [get_erase, set_apply]
  by_cases hj : j = i <;> simp [hj, this]

/-- Replacing or dropping a record that is not live is invisible. -/
theorem agree_erase_dead {now : Nat} {t : Tbl σ} {a : AMap σ} (ag : Agree now t a) (i : Nat)
    (hd : tblLive t now i = none) : Agree now (erase t i) a := by
  intro j
  have := ag j
  unfold tblLive at this ⊢ hd
  rw [get_erase]
  by_cases hj : j = i
  · subst hj; rw [← this, hd]; simp [liveOpt]
  · simp [hj, this]

theorem agree_eraseAll_dead {now : Nat} {t : Tbl σ} {a : AMap σ} (ag : Agree now t a) (ids : List Nat)
    (hd : ∀ i ∈ ids, tblLive t now i = none) : Agree now (eraseAll t ids) a := by
  intro j
  have := ag j
  unfold tblLive at this ⊢
  rw [get_eraseAll]
  by_cases hj : j ∈ ids
  · have h2 := hd j hj
    unfold tblLive at h2
    rw [← this, h2]; simp [hj, liveOpt]
  · simp [hj, this]

/-! ### one-step simulations -/

theorem tblLive_some {t : Tbl σ} {now i : Nat} {r : Rec σ} (h : tblLive t now i = some r) :
    get t i = some r ∧ now < r.deadline := liveOpt_some h

theorem mem_staleIds_dead (t : Tbl σ) (now : Nat) (batch : Option Nat) (ord : List Nat) :
    ∀ i ∈ memStaleIds t now batch ord, ∃ r, get t i = some r ∧ r.deadline ≤ now := by
  intro i hi
  have hf : i ∈ (iterOrder t ord).filter (fun i => match get t i with
      | some r => memStale now r
      | none => false) := by
    unfold memStaleIds at hi
    cases batch with
    | none => exact hi
    | some b => exact List.mem_of_mem_take hi
  have := (List.mem_filter.mp hf).2
  cases hg : get t i with
  | none => simp [hg] at this
  | some r => exact ⟨r, rfl, by simpa [hg, memStale] using this⟩

theorem sql_expiredIds_dead (t : Tbl σ) (nowS : Nat) (batch : Option Nat) (ord : List Nat) :
    ∀ i ∈ sqlExpiredIds t nowS batch ord, ∃ r, get t i = some r ∧ r.deadline < nowS := by
  intro i hi
  have hf : i ∈ (iterOrder t ord).filter (fun i => match get t i with
      | some r => decide (r.deadline < nowS)
      | none => false) := by
    unfold sqlExpiredIds at hi
    cases batch with
    | none => exact hi
    | some b => exact List.mem_of_mem_take hi
  have := (List.mem_filter.mp hf).2
  cases hg : get t i with
  | none => simp [hg] at this
  | some r => exact ⟨r, rfl, by simpa [hg] using this⟩

theorem tblLive_none_of_dead {t : Tbl σ} {now i : Nat} {r : Rec σ} (hg : get t i = some r)
    (hd : r.deadline ≤ now) : tblLive t now i = none := by
  unfold tblLive
  rw [hg]
  exact liveOpt_none_iff.mpr (fun r' h => by cases h; exact hd)

/-- Memory backend: every call is a step of the specification (strict policy). -/
theorem mem_sim {now : Nat} {t : Tbl σ} {a : AMap σ} (ag : Agree now t a) (op : Op σ) :
    absRes 1 now (memStep now op t).2 = (specStep (Policy.strict false) (now / 1) (absOp 1 now op) a).2
    ∧ Agree (now / 1) (memStep now op t).1 (specStep (Policy.strict false) (now / 1) (absOp 1 now op) a).1 := by
  rw [Nat.div_one]
  cases op with
  | create i st ttl =>
    simp only [memStep, specStep, absOp, memFresh_eq, ag i, Nat.div_one]
    cases a.liveAt now i with
    | some r => exact ⟨rfl, ag⟩
    | none => exact ⟨rfl, agree_put ag _ _⟩
  | update i st ttl =>
    simp only [memStep, specStep, absOp, memFresh_eq, ag i, Nat.div_one]
    cases a.liveAt now i with
    | some r => exact ⟨rfl, agree_put ag _ _⟩
    | none => exact ⟨rfl, ag⟩
  | updateTtl i ttl =>
    simp only [memStep, specStep, absOp, memFresh_eq, ag i, Nat.div_one]
    cases a.liveAt now i with
    | some r => exact ⟨rfl, agree_put ag _ _⟩
    | none => exact ⟨rfl, ag⟩
  | load i =>
    simp only [memStep, specStep, absOp, memFresh_eq]
    have hi := ag i
    cases h : a.liveAt now i with
    | some r =>
      rw [h] at hi
      have := (tblLive_some hi).2
      simp only [hi, absRes, Nat.div_one]
      refine ⟨?_, ag⟩
      congr 3
      omega
    | none => rw [h] at hi; simp only [hi, absRes]; exact ⟨trivial, ag⟩
  | delete i =>
    have hi := ag i
    simp only [memStep, specStep, absOp, memDelete]
    cases hg : get t i with
    | none =>
      have : a.liveAt now i = none := by rw [← hi]; simp [tblLive, hg, liveOpt]
      simp only [this]; exact ⟨rfl, ag⟩
    | some r =>
      by_cases hs : r.deadline ≤ now
      · have hd := tblLive_none_of_dead hg hs
        have : a.liveAt now i = none := by rw [← hi, hd]
        simp only [this, memStale, hs, decide_true, if_true]
        exact ⟨rfl, agree_erase_dead ag i hd⟩
      · have hl : tblLive t now i = some r := by
          simp [tblLive, hg, liveOpt, live, Nat.lt_of_not_le hs]
        have : a.liveAt now i = some r := by rw [← hi, hl]
        simp only [this, memStale, hs, decide_false, Bool.false_eq_true, if_false]
        exact ⟨rfl, agree_erase ag i⟩
  | changeId o n =>
    have ho := ag o
    have hn := ag n
    simp only [memStep, specStep, absOp, memFresh_eq]
    cases h1 : a.liveAt now o with
    | none => rw [h1] at ho; simp only [ho]; exact ⟨rfl, ag⟩
    | some r =>
      rw [h1] at ho
      simp only [ho]
      by_cases hno : n = o
      · subst hno
        simp only [ho, if_true, Policy.strict]
        exact ⟨rfl, ag⟩
      · simp only [hno, if_false]
        cases h2 : a.liveAt now n with
        | some r2 => rw [h2] at hn; simp only [hn]; exact ⟨rfl, ag⟩
        | none =>
          rw [h2] at hn
          obtain ⟨hg, hl⟩ := tblLive_some ho
          have hs : ¬ r.deadline ≤ now := by omega
          simp only [hn, memDelete, hg, memStale, hs, decide_false, Bool.false_eq_true, if_false]
          exact ⟨rfl, agree_put (agree_erase ag o) n r⟩
  | deleteExpired batch ord =>
    simp only [memStep, specStep, absOp, absRes]
    refine ⟨trivial, agree_eraseAll_dead ag _ ?_⟩
    intro i hi
    obtain ⟨r, hg, hd⟩ := mem_staleIds_dead t now batch ord i hi
    exact tblLive_none_of_dead hg hd

/-- SQLite backend: every call that is not one of the two recorded findings is a step of the
    specification (at second resolution); with `createOnLiveOk` the first finding is absorbed. -/
theorem sql_sim {now : Nat} {t : Tbl σ} {a : AMap σ} (p : Policy) (hp : p.renameSelfOk = true)
    (ag : Agree (now / 1000) t a) (op : Op σ)
    (hc : p.createOnLiveOk = true ∨ sqlCreateOnLive now op t = false)
    (hs : sqlSquattedRename now op t = false) :
    absRes 1000 now (sqlStep now op t).2 = (specStep p (now / 1000) (absOp 1000 now op) a).2
    ∧ Agree (now / 1000) (sqlStep now op t).1 (specStep p (now / 1000) (absOp 1000 now op) a).1 := by
  cases op with
  | create i st ttl =>
    have hi := ag i
    simp only [sqlStep, specStep, absOp]
    cases hg : get t i with
    | none =>
      have : a.liveAt (now / 1000) i = none := by rw [← hi]; simp [tblLive, hg, liveOpt]
      simp only [this]; exact ⟨rfl, agree_put ag _ _⟩
    | some r =>
      by_cases hd : r.deadline ≤ now / 1000
      · have : a.liveAt (now / 1000) i = none := by rw [← hi, tblLive_none_of_dead hg hd]
        simp only [this, hd, if_true]; exact ⟨rfl, agree_put ag _ _⟩
      · have hl : tblLive t (now / 1000) i = some r := by
          simp [tblLive, hg, liveOpt, live, Nat.lt_of_not_le hd]
        have h2 : a.liveAt (now / 1000) i = some r := by rw [← hi, hl]
        simp only [h2, hd, if_false]
        rcases hc with hc | hc
        · simp only [hc, if_true]; exact ⟨rfl, ag⟩
        · simp [sqlCreateOnLive, sqlSel_eq, hl] at hc
  | update i st ttl =>
    simp only [sqlStep, specStep, absOp, sqlSel_eq, ag i]
    cases a.liveAt (now / 1000) i with
    | some r => exact ⟨rfl, agree_put ag _ _⟩
    | none => exact ⟨rfl, ag⟩
  | updateTtl i ttl =>
    simp only [sqlStep, specStep, absOp, sqlSel_eq, ag i]
    cases a.liveAt (now / 1000) i with
    | some r => exact ⟨rfl, agree_put ag _ _⟩
    | none => exact ⟨rfl, ag⟩
  | load i =>
    simp only [sqlStep, specStep, absOp, sqlSel_eq]
    have hi := ag i
    cases h : a.liveAt (now / 1000) i with
    | some r =>
      rw [h] at hi
      have := (tblLive_some hi).2
      simp only [hi, absRes]
      refine ⟨?_, ag⟩
      congr 3
      omega
    | none => rw [h] at hi; simp only [hi, absRes]; exact ⟨trivial, ag⟩
  | delete i =>
    simp only [sqlStep, specStep, absOp, sqlSel_eq, ag i]
    cases a.liveAt (now / 1000) i with
    | some r => exact ⟨rfl, agree_erase ag i⟩
    | none => exact ⟨rfl, ag⟩
  | changeId o n =>
    have ho := ag o
    have hn := ag n
    simp only [sqlStep, specStep, absOp, sqlSel_eq]
    cases h1 : a.liveAt (now / 1000) o with
    | none => rw [h1] at ho; simp only [ho]; exact ⟨rfl, ag⟩
    | some r =>
      rw [h1] at ho
      simp only [ho]
      by_cases hno : n = o
      · subst hno
        simp only [if_true, hp]
        exact ⟨rfl, ag⟩
      · simp only [hno, if_false]
        cases hg : get t n with
        | some r2 =>
          cases h2 : a.liveAt (now / 1000) n with
          | some r3 => exact ⟨rfl, ag⟩
          | none =>
            rw [h2] at hn
            simp [sqlSquattedRename, sqlSel_eq, ho, hn, hg, hno] at hs
        | none =>
          have h2 : a.liveAt (now / 1000) n = none := by rw [← hn]; simp [tblLive, hg, liveOpt]
          simp only [h2]
          exact ⟨rfl, agree_put (agree_erase ag o) n r⟩
  | deleteExpired batch ord =>
    simp only [sqlStep, specStep, absOp, absRes]
    refine ⟨trivial, agree_eraseAll_dead ag _ ?_⟩
    intro i hi
    obtain ⟨r, hg, hd⟩ := sql_expiredIds_dead t (now / 1000) batch ord i hi
    exact tblLive_none_of_dead hg (Nat.le_of_lt hd)

/-! ### from steps to histories -/

/-- One induction for both backends: a one-step simulation (possibly only for calls that are `ok`
    in the sense of a guard `bad`) lifts to every history; time only moves forward. -/
theorem refines_of_sim {S : Type} (g : Nat) (step : Nat → Op σ → S → S × Res σ) (p : Policy)
    (bad : Nat → Op σ → S → Bool) (Inv : Nat → S → AMap σ → Prop)
    (mono : ∀ n n' s a, n ≤ n' → Inv n s a → Inv n' s a)
    (sim : ∀ now op s a, Inv now s a → bad now op s = false →
      absRes g now (step now op s).2 = (specStep p (now / g) (absOp g now op) a).2
      ∧ Inv now (step now op s).1 (specStep p (now / g) (absOp g now op) a).1) :
    ∀ (h : List (Nat × Op σ)) (now : Nat) (s : S) (a : AMap σ), Inv now s a →
      anyStep step bad now s h = false → runObs g step now s h = specObs p g now a h := by
  intro h
  induction h with
  | nil => intros; rfl
  | cons x h ih =>
    obtain ⟨d, op⟩ := x
    intro now s a inv hb
    simp only [anyStep, Bool.or_eq_false_iff] at hb
    have inv' := mono now (now + d) s a (Nat.le_add_right _ _) inv
    obtain ⟨h1, h2⟩ := sim (now + d) op s a inv' hb.1
    simp only [runObs, specObs]
    rw [h1, ih (now + d) _ _ h2 hb.2]

theorem anyStep_false_of_never {S R : Type} (step : Nat → Op σ → S → S × R) (h : List (Nat × Op σ)) :
    ∀ (now : Nat) (s : S), anyStep step (fun _ _ _ => false) now s h = false := by
  induction h with
  | nil => intros; rfl
  | cons x h ih => intro now s; obtain ⟨d, op⟩ := x; simp [anyStep, ih]

theorem anyStep_or {S R : Type} (step : Nat → Op σ → S → S × R) (p q : Nat → Op σ → S → Bool)
    (h : List (Nat × Op σ)) : ∀ (now : Nat) (s : S),
    anyStep step (fun n o s => p n o s || q n o s) now s h = (anyStep step p now s h || anyStep step q now s h) := by
  induction h with
  | nil => intros; rfl
  | cons x h ih =>
    intro now s; obtain ⟨d, op⟩ := x
    simp only [anyStep, ih]
    cases p (now + d) op s <;> cases q (now + d) op s <;> simp

/-! ### well-formed tables (one entry per id) and counting -/

/-- `HashMap` / `PRIMARY KEY`: at most one entry per id. -/
def WF (t : Tbl σ) : Prop := (keys t).Nodup

theorem wf_nil : WF ([] : Tbl σ) := List.nodup_nil

theorem wf_filter {t : Tbl σ} (wf : WF t) (q : Nat × Rec σ → Bool) : WF (t.filter q) := by
  unfold WF keys at *
  exact List.Nodup.sublist (List.Sublist.map _ List.filter_sublist) wf

theorem wf_erase {t : Tbl σ} (wf : WF t) (i : Nat) : WF (erase t i) := wf_filter wf _
theorem wf_eraseAll {t : Tbl σ} (wf : WF t) (ids : List Nat) : WF (eraseAll t ids) := wf_filter wf _

theorem wf_put {t : Tbl σ} (wf : WF t) (i : Nat) (r : Rec σ) : WF (put t i r) := by
  unfold put
  have h1 : i ∉ keys (erase t i) := by
    rw [← get_isSome_iff_mem_keys, get_erase]; simp
  have h2 := wf_erase wf i
  unfold WF keys at *
  exact List.nodup_cons.mpr ⟨h1, h2⟩

theorem memDelete_wf {t : Tbl σ} (wf : WF t) (now i : Nat) : WF (memDelete t now i).1 := by
  unfold memDelete
  split
  · exact wf
  · exact wf_erase wf _

theorem memStep_wf {t : Tbl σ} (wf : WF t) (now : Nat) (op : Op σ) : WF (memStep now op t).1 := by
  cases op with
  | create i st ttl => simp only [memStep]; split <;> first | exact wf | exact wf_put wf _ _
  | update i st ttl => simp only [memStep]; split <;> first | exact wf | exact wf_put wf _ _
  | updateTtl i ttl => simp only [memStep]; split <;> first | exact wf | exact wf_put wf _ _
  | load i => simp only [memStep]; split <;> exact wf
  | delete i =>
    have := memDelete_wf wf now i
    simp only [memStep]
    split <;> (rename_i heq; rw [heq] at this; exact this)
  | changeId o n =>
    have := memDelete_wf wf now o
    simp only [memStep]
    split
    · exact wf
    · split
      · exact wf
      · split <;> (rename_i heq; rw [heq] at this; first | exact wf_put this _ _ | exact this)
  | deleteExpired batch ord => exact wf_eraseAll wf _

theorem sqlStep_wf {t : Tbl σ} (wf : WF t) (now : Nat) (op : Op σ) : WF (sqlStep now op t).1 := by
  cases op with
  | create i st ttl =>
    simp only [sqlStep]
    split
    · exact wf_put wf _ _
    · split <;> first | exact wf | exact wf_put wf _ _
  | update i st ttl => simp only [sqlStep]; split <;> first | exact wf | exact wf_put wf _ _
  | updateTtl i ttl => simp only [sqlStep]; split <;> first | exact wf | exact wf_put wf _ _
  | load i => simp only [sqlStep]; split <;> exact wf
  | delete i => simp only [sqlStep]; split <;> first | exact wf | exact wf_erase wf _
  | changeId o n =>
    simp only [sqlStep]
    split
    · exact wf
    · split
      · exact wf
      · split <;> first | exact wf | exact wf_put (wf_erase wf _) _ _
  | deleteExpired batch ord => exact wf_eraseAll wf _

theorem mem_dedup (l : List Nat) (x : Nat) : x ∈ dedup l ↔ x ∈ l := by
  induction l with
  | nil => simp [dedup]
  | cons y l ih =>
    simp only [dedup, List.mem_cons, List.mem_filter, ih]
    constructor
    · rintro (h | ⟨h, _⟩)
      · exact Or.inl h
      · exact Or.inr h
    · rintro (h | h)
      · exact Or.inl h
      · by_cases hx : x = y
        · exact Or.inl hx
        · exact Or.inr ⟨h, by simpa using hx⟩

theorem nodup_dedup (l : List Nat) : (dedup l).Nodup := by
  induction l with
  | nil => exact List.nodup_nil
  | cons y l ih =>
    simp only [dedup]
    refine List.nodup_cons.mpr ⟨?_, List.Nodup.sublist List.filter_sublist ih⟩
    simp [List.mem_filter]

theorem nodup_iterOrder (t : Tbl σ) (ord : List Nat) : (iterOrder t ord).Nodup := by
  unfold iterOrder
  refine List.nodup_append.mpr ⟨List.Nodup.sublist List.filter_sublist (nodup_dedup _),
    List.Nodup.sublist List.filter_sublist (nodup_dedup _), ?_⟩
  intro a ha b hb hab
  subst hab
  have h1 := (mem_dedup ord a).mp (List.mem_filter.mp ha).1
  have h2 := (List.mem_filter.mp hb).2
  simp [h1] at h2

theorem mem_iterOrder (t : Tbl σ) (ord : List Nat) (i : Nat) : i ∈ iterOrder t ord ↔ i ∈ keys t := by
  unfold iterOrder
  simp only [List.mem_append, List.mem_filter, mem_dedup, get_isSome_iff_mem_keys]
  constructor
  · rintro (⟨_, h⟩ | ⟨h, _⟩) <;> exact h
  · intro h
    by_cases ho : i ∈ ord
    · exact Or.inl ⟨ho, h⟩
    · exact Or.inr ⟨h, by simpa using ho⟩

/-- Removing `ids` (distinct, all present) from a well-formed table shrinks it by `ids.length`. -/
theorem length_eraseAll (t : Tbl σ) : ∀ (ids : List Nat), WF t → ids.Nodup → (∀ i ∈ ids, i ∈ keys t) →
    (eraseAll t ids).length + ids.length = t.length := by
  induction t with
  | nil =>
    intro ids _ _ sub
    cases ids with
    | nil => rfl
    | cons i ids => have := sub i (List.mem_cons_self ..); simp [keys] at this
  | cons p t ih =>
    obtain ⟨k, r⟩ := p
    intro ids wf nd sub
    have wf' : WF t := by unfold WF keys at *; exact (List.nodup_cons.mp wf).2
    have hk : k ∉ keys t := by unfold WF keys at *; exact (List.nodup_cons.mp wf).1
    by_cases hki : k ∈ ids
    · have e1 : eraseAll ((k, r) :: t) ids = eraseAll t (ids.erase k) := by
        unfold eraseAll
        have : (!ids.contains k) = false := by simp [hki]
        simp only [List.filter_cons, this, Bool.false_eq_true, if_false]
        apply List.filter_congr
        intro q hq
        have hqk : q.1 ≠ k := by
          intro h; apply hk; unfold keys; exact List.mem_map.mpr ⟨q, hq, h⟩
        have : q.1 ∈ ids.erase k ↔ q.1 ∈ ids := by
          rw [List.Nodup.mem_erase_iff nd]; simp [hqk]
        by_cases hm : q.1 ∈ ids <;> simp [hm, this]
      have nd' : (ids.erase k).Nodup := List.Nodup.erase k nd
      have sub' : ∀ i ∈ ids.erase k, i ∈ keys t := by
        intro i hi
        rw [List.Nodup.mem_erase_iff nd] at hi
        have := sub i hi.2
        simp only [keys, List.map_cons, List.mem_cons] at this
        rcases this with h | h
        · exact absurd h hi.1
        · exact h
      have := ih (ids.erase k) wf' nd' sub'
      rw [e1]
      have hl : (ids.erase k).length = ids.length - 1 := List.length_erase_of_mem hki
      have hpos : 0 < ids.length := List.length_pos_of_mem hki
      simp only [List.length_cons]
      omega
    · have e1 : eraseAll ((k, r) :: t) ids = (k, r) :: eraseAll t ids := by
        unfold eraseAll
        have : (!ids.contains k) = true := by simp [hki]
        simp only [List.filter_cons, this, if_true]
      have sub' : ∀ i ∈ ids, i ∈ keys t := by
        intro i hi
        have := sub i hi
        simp only [keys, List.map_cons, List.mem_cons] at this
        rcases this with h | h
        · subst h; exact absurd hi hki
        · exact h
      have := ih ids wf' nd sub'
      rw [e1]
      simp only [List.length_cons]
      omega

theorem agree_self (now : Nat) (t : Tbl σ) : Agree now t (fun i => get t i) := fun _ => rfl

theorem absRes_ok_iff (g now : Nat) (r : Res σ) : absRes g now r = .ok ↔ r = .ok := by
  cases r with
  | loaded o => cases o with
    | none => simp [absRes]
    | some x => obtain ⟨a, b⟩ := x; simp [absRes]
  | _ => simp [absRes]

end Pxv.Store
