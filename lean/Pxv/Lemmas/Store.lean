import Pxv.Model.Store
/-! Helper lemmas for C13 (association-list table, live views, one-step simulations). -/
namespace Pxv.Store

variable {σ : Type}

/-! ### the table -/

@[simp] theorem get_nil (i : Nat) : get ([] : Tbl σ) i = none := rfl

theorem get_cons (j : Nat) (r : Rec σ) (t : Tbl σ) (i : Nat) :
    get ((j, r) :: t) i = if j = i then some r else get t i := rfl

theorem get_erase (t : Tbl σ) (i j : Nat) : get (erase t i) j = if j = i then none else get t j := by
  induction t with
  | nil => simp [erase]
  | cons p t ih =>
    obtain ⟨k, r⟩ := p
    unfold erase at ih ⊢
    by_cases hk : k = i
    · subst hk
      simp only [List.filter_cons, bne_self_eq_false, Bool.false_eq_true, if_false, ih, get_cons]
      by_cases hj : j = k
      · simp [hj]
      · have : ¬ k = j := fun h => hj h.symm
        simp [hj, this]
    · have hne : (k != i) = true := by simpa using hk
      simp only [List.filter_cons, hne, if_true, get_cons, ih]
      by_cases hj : j = i
      · subst hj; simp [hk]
      · simp [hj]

theorem get_put (t : Tbl σ) (i : Nat) (r : Rec σ) (j : Nat) :
    get (put t i r) j = if j = i then some r else get t j := by
  unfold put
  rw [get_cons, get_erase]
  by_cases hj : j = i
  · subst hj; simp
  · have : ¬ i = j := fun h => hj h.symm
    simp [hj, this]

theorem get_eraseAll (t : Tbl σ) (ids : List Nat) (j : Nat) :
    get (eraseAll t ids) j = if j ∈ ids then none else get t j := by
  induction t with
  | nil => simp [eraseAll]
  | cons p t ih =>
    obtain ⟨k, r⟩ := p
    unfold eraseAll at ih ⊢
    by_cases hk : k ∈ ids
    · have : (!ids.contains k) = false := by simp [hk]
      simp only [List.filter_cons, this, Bool.false_eq_true, if_false, ih, get_cons]
      by_cases hj : k = j
      · subst hj; simp [hk]
      · simp [hj]
    · have : (!ids.contains k) = true := by simp [hk]
      simp only [List.filter_cons, this, if_true, get_cons, ih]
      by_cases hj : k = j
      · subst hj; simp [hk]
      · simp [hj]

theorem get_isSome_iff_mem_keys (t : Tbl σ) (i : Nat) : (get t i).isSome = true ↔ i ∈ keys t := by
  induction t with
  | nil => simp [keys]
  | cons p t ih =>
    obtain ⟨k, r⟩ := p
    rw [get_cons]
    by_cases hk : k = i
    · subst hk; simp [keys]
    · have : ¬ i = k := fun h => hk h.symm
      simp only [hk, if_false, ih, keys, List.map_cons, List.mem_cons, this, false_or]

/-! ### live views -/

/-- The live part of an optional record. -/
def liveOpt (now : Nat) (o : Option (Rec σ)) : Option (Rec σ) :=
  match o with
  | some r => if live now r then some r else none
  | none => none

/-- What an observer can learn about id `i` from the physical table at time `now`. -/
def tblLive (t : Tbl σ) (now i : Nat) : Option (Rec σ) := liveOpt now (get t i)

theorem liveAt_eq (a : AMap σ) (now i : Nat) : a.liveAt now i = liveOpt now (a i) := rfl

theorem memFresh_eq (t : Tbl σ) (now i : Nat) : memFresh t now i = tblLive t now i := by
  unfold memFresh tblLive liveOpt memStale live
  cases get t i with
  | none => rfl
  | some r => by_cases h : r.deadline ≤ now <;> simp [h, Nat.not_lt.mpr, Nat.lt_of_not_le]

theorem sqlSel_eq (t : Tbl σ) (nowS i : Nat) : sqlSel t nowS i = tblLive t nowS i := by
  unfold sqlSel tblLive liveOpt sqlLive live
  cases get t i <;> rfl

theorem liveOpt_mono {now now' : Nat} (h : now ≤ now') (o : Option (Rec σ)) :
    liveOpt now' (liveOpt now o) = liveOpt now' o := by
  cases o with
  | none => rfl
  | some r =>
    unfold liveOpt live
    by_cases h1 : now < r.deadline
    · simp [h1]
    · have : ¬ now' < r.deadline := by omega
      simp [h1, this]

theorem liveOpt_some {now : Nat} {o : Option (Rec σ)} {r : Rec σ} (h : liveOpt now o = some r) :
    o = some r ∧ now < r.deadline := by
  cases o with
  | none => simp [liveOpt] at h
  | some r' =>
    unfold liveOpt live at h
    by_cases h1 : now < r'.deadline
    · simp [h1] at h; subst h; exact ⟨rfl, h1⟩
    · simp [h1] at h

theorem liveOpt_none_iff {now : Nat} {o : Option (Rec σ)} :
    liveOpt now o = none ↔ ∀ r, o = some r → r.deadline ≤ now := by
  cases o with
  | none => simp [liveOpt]
  | some r' =>
    unfold liveOpt live
    by_cases h1 : now < r'.deadline
    · simp [h1]
    · simp [h1]; omega

/-- The refinement relation: table and abstract map show the same live records. -/
def Agree (now : Nat) (t : Tbl σ) (a : AMap σ) : Prop := ∀ i, tblLive t now i = a.liveAt now i

theorem agree_empty (now : Nat) : Agree now ([] : Tbl σ) AMap.empty := fun _ => rfl

theorem agree_mono {now now' : Nat} {t : Tbl σ} {a : AMap σ} (h : now ≤ now') (ag : Agree now t a) :
    Agree now' t a := by
  intro i
  have := ag i
  unfold tblLive at this ⊢
  rw [liveAt_eq] at this ⊢
  rw [← liveOpt_mono h (get t i), this, liveOpt_mono h]

theorem set_apply (a : AMap σ) (i : Nat) (v : Option (Rec σ)) (j : Nat) :
    a.set i v j = if j = i then v else a j := rfl

theorem agree_put {now : Nat} {t : Tbl σ} {a : AMap σ} (ag : Agree now t a) (i : Nat) (r : Rec σ) :
    Agree now (put t i r) (a.set i (some r)) := by
  intro j
  have := ag j
  unfold tblLive at this ⊢
  rw [liveAt_eq] at this ⊢
  rw [get_put, set_apply]
  by_cases hj : j = i <;> simp [hj, this]

theorem agree_erase {now : Nat} {t : Tbl σ} {a : AMap σ} (ag : Agree now t a) (i : Nat) :
    Agree now (erase t i) (a.set i none) := by
  intro j
  have := ag j
  unfold tblLive at this ⊢
  rw [liveAt_eq] at this ⊢
  rw [get_erase, set_apply]
  by_cases hj : j = i <;> simp [hj, this]

/-- Replacing or dropping a record that is not live is invisible. -/
theorem agree_erase_dead {now : Nat} {t : Tbl σ} {a : AMap σ} (ag : Agree now t a) (i : Nat)
    (hd : tblLive t now i = none) : Agree now (erase t i) a := by
  intro j
  have := ag j
  unfold tblLive at this ⊢ hd
  rw [get_erase]
  by_cases hj : j = i
  · subst hj; rw [← this, hd]; simp [liveOpt]
  · simp [hj, this]

theorem agree_eraseAll_dead {now : Nat} {t : Tbl σ} {a : AMap σ} (ag : Agree now t a) (ids : List Nat)
    (hd : ∀ i ∈ ids, tblLive t now i = none) : Agree now (eraseAll t ids) a := by
  intro j
  have := ag j
  unfold tblLive at this ⊢
  rw [get_eraseAll]
  by_cases hj : j ∈ ids
  · have h2 := hd j hj
    unfold tblLive at h2
    rw [← this, h2]; simp [hj, liveOpt]
  · simp [hj, this]

/-! ### one-step simulations -/

theorem tblLive_some {t : Tbl σ} {now i : Nat} {r : Rec σ} (h : tblLive t now i = some r) :
    get t i = some r ∧ now < r.deadline := liveOpt_some h

theorem mem_staleIds_dead (t : Tbl σ) (now : Nat) (batch : Option Nat) (ord : List Nat) :
    ∀ i ∈ memStaleIds t now batch ord, ∃ r, get t i = some r ∧ r.deadline ≤ now := by
  intro i hi
  have hf : i ∈ (iterOrder t ord).filter (fun i => match get t i with
      | some r => memStale now r
      | none => false) := by
    unfold memStaleIds at hi
    cases batch with
    | none => exact hi
    | some b => exact List.mem_of_mem_take hi
  have := (List.mem_filter.mp hf).2
  cases hg : get t i with
  | none => simp [hg] at this
  | some r => exact ⟨r, rfl, by simpa [hg, memStale] using this⟩

theorem sql_expiredIds_dead (t : Tbl σ) (nowS : Nat) (batch : Option Nat) (ord : List Nat) :
    ∀ i ∈ sqlExpiredIds t nowS batch ord, ∃ r, get t i = some r ∧ r.deadline < nowS := by
  intro i hi
  have hf : i ∈ (iterOrder t ord).filter (fun i => match get t i with
      | some r => decide (r.deadline < nowS)
      | none => false) := by
    unfold sqlExpiredIds at hi
    cases batch with
    | none => exact hi
    | some b => exact List.mem_of_mem_take hi
  have := (List.mem_filter.mp hf).2
  cases hg : get t i with
  | none => simp [hg] at this
  | some r => exact ⟨r, rfl, by simpa [hg] using this⟩

theorem tblLive_none_of_dead {t : Tbl σ} {now i : Nat} {r : Rec σ} (hg : get t i = some r)
    (hd : r.deadline ≤ now) : tblLive t now i = none := by
  unfold tblLive
  rw [hg]
  exact liveOpt_none_iff.mpr (fun r' h => by cases h; exact hd)

/-- Memory backend: every call is a step of the specification (strict policy). -/
theorem mem_sim {now : Nat} {t : Tbl σ} {a : AMap σ} (ag : Agree now t a) (op : Op σ) :
    absRes 1 now (memStep now op t).2 = (specStep (Policy.strict false) (now / 1) (absOp 1 now op) a).2
    ∧ Agree (now / 1) (memStep now op t).1 (specStep (Policy.strict false) (now / 1) (absOp 1 now op) a).1 := by
  rw [Nat.div_one]
  cases op with
  | create i st ttl =>
    simp only [memStep, specStep, absOp, memFresh_eq, ag i, Nat.div_one]
    cases a.liveAt now i with
    | some r => exact ⟨rfl, ag⟩
    | none => exact ⟨rfl, agree_put ag _ _⟩
  | update i st ttl =>
    simp only [memStep, specStep, absOp, memFresh_eq, ag i, Nat.div_one]
    cases a.liveAt now i with
    | some r => exact ⟨rfl, agree_put ag _ _⟩
    | none => exact ⟨rfl, ag⟩
  | updateTtl i ttl =>
    simp only [memStep, specStep, absOp, memFresh_eq, ag i, Nat.div_one]
    cases a.liveAt now i with
    | some r => exact ⟨rfl, agree_put ag _ _⟩
    | none => exact ⟨rfl, ag⟩
  | load i =>
    simp only [memStep, specStep, absOp, memFresh_eq]
    have hi := ag i
    cases h : a.liveAt now i with
    | some r =>
      rw [h] at hi
      have := (tblLive_some hi).2
      simp only [hi, absRes, Nat.div_one]
      refine ⟨?_, ag⟩
      congr 3
      omega
    | none => rw [h] at hi; simp only [hi, absRes]; exact ⟨trivial, ag⟩
  | delete i =>
    have hi := ag i
    simp only [memStep, specStep, absOp, memDelete]
    cases hg : get t i with
    | none =>
      have : a.liveAt now i = none := by rw [← hi]; simp [tblLive, hg, liveOpt]
      simp only [this]; exact ⟨rfl, ag⟩
    | some r =>
      by_cases hs : r.deadline ≤ now
      · have hd := tblLive_none_of_dead hg hs
        have : a.liveAt now i = none := by rw [← hi, hd]
        simp only [this, memStale, hs, decide_true, if_true]
        exact ⟨rfl, agree_erase_dead ag i hd⟩
      · have hl : tblLive t now i = some r := by
          simp [tblLive, hg, liveOpt, live, Nat.lt_of_not_le hs]
        have : a.liveAt now i = some r := by rw [← hi, hl]
        simp only [this, memStale, hs, decide_false, Bool.false_eq_true, if_false]
        exact ⟨rfl, agree_erase ag i⟩
  | changeId o n =>
    have ho := ag o
    have hn := ag n
    simp only [memStep, specStep, absOp, memFresh_eq]
    cases h1 : a.liveAt now o with
    | none => rw [h1] at ho; simp only [ho]; exact ⟨rfl, ag⟩
    | some r =>
      rw [h1] at ho
      simp only [ho]
      by_cases hno : n = o
      · subst hno
        simp only [ho, if_true, Policy.strict]
        exact ⟨rfl, ag⟩
      · simp only [hno, if_false]
        cases h2 : a.liveAt now n with
        | some r2 => rw [h2] at hn; simp only [hn]; exact ⟨rfl, ag⟩
        | none =>
          rw [h2] at hn
          obtain ⟨hg, hl⟩ := tblLive_some ho
          have hs : ¬ r.deadline ≤ now := by omega
          simp only [hn, memDelete, hg, memStale, hs, decide_false, Bool.false_eq_true, if_false]
          exact ⟨rfl, agree_put (agree_erase ag o) n r⟩
  | deleteExpired batch ord =>
    simp only [memStep, specStep, absOp, absRes]
    refine ⟨trivial, agree_eraseAll_dead ag _ ?_⟩
    intro i hi
    obtain ⟨r, hg, hd⟩ := mem_staleIds_dead t now batch ord i hi
    exact tblLive_none_of_dead hg hd

/-- SQLite backend: every call that is not one of the two recorded findings is a step of the
    specification (at second resolution); with `createOnLiveOk` the first finding is absorbed. -/
theorem sql_sim {now : Nat} {t : Tbl σ} {a : AMap σ} (p : Policy) (hp : p.renameSelfOk = true)
    (ag : Agree (now / 1000) t a) (op : Op σ)
    (hc : p.createOnLiveOk = true ∨ sqlCreateOnLive now op t = false)
    (hs : sqlSquattedRename now op t = false) :
    absRes 1000 now (sqlStep now op t).2 = (specStep p (now / 1000) (absOp 1000 now op) a).2
    ∧ Agree (now / 1000) (sqlStep now op t).1 (specStep p (now / 1000) (absOp 1000 now op) a).1 := by
  cases op with
  | create i st ttl =>
    have hi := ag i
    simp only [sqlStep, specStep, absOp]
    cases hg : get t i with
    | none =>
      have : a.liveAt (now / 1000) i = none := by rw [← hi]; simp [tblLive, hg, liveOpt]
      simp only [this]; exact ⟨rfl, agree_put ag _ _⟩
    | some r =>
      by_cases hd : r.deadline ≤ now / 1000
      · have : a.liveAt (now / 1000) i = none := by rw [← hi, tblLive_none_of_dead hg hd]
        simp only [this, hd, if_true]; exact ⟨rfl, agree_put ag _ _⟩
      · have hl : tblLive t (now / 1000) i = some r := by
          simp [tblLive, hg, liveOpt, live, Nat.lt_of_not_le hd]
        have h2 : a.liveAt (now / 1000) i = some r := by rw [← hi, hl]
        simp only [h2, hd, if_false]
        rcases hc with hc | hc
        · simp only [hc, if_true]; exact ⟨rfl, ag⟩
        · simp [sqlCreateOnLive, sqlSel_eq, hl] at hc
  | update i st ttl =>
    simp only [sqlStep, specStep, absOp, sqlSel_eq, ag i]
    cases a.liveAt (now / 1000) i with
    | some r => exact ⟨rfl, agree_put ag _ _⟩
    | none => exact ⟨rfl, ag⟩
  | updateTtl i ttl =>
    simp only [sqlStep, specStep, absOp, sqlSel_eq, ag i]
    cases a.liveAt (now / 1000) i with
    | some r => exact ⟨rfl, agree_put ag _ _⟩
    | none => exact ⟨rfl, ag⟩
  | load i =>
    simp only [sqlStep, specStep, absOp, sqlSel_eq]
    have hi := ag i
    cases h : a.liveAt (now / 1000) i with
    | some r =>
      rw [h] at hi
      have := (tblLive_some hi).2
      simp only [hi, absRes]
      refine ⟨?_, ag⟩
      congr 3
      omega
    | none => rw [h] at hi; simp only [hi, absRes]; exact ⟨trivial, ag⟩
  | delete i =>
    simp only [sqlStep, specStep, absOp, sqlSel_eq, ag i]
    cases a.liveAt (now / 1000) i with
    | some r => exact ⟨rfl, agree_erase ag i⟩
    | none => exact ⟨rfl, ag⟩
  | changeId o n =>
    have ho := ag o
    have hn := ag n
    simp only [sqlStep, specStep, absOp, sqlSel_eq]
    cases h1 : a.liveAt (now / 1000) o with
    | none => rw [h1] at ho; simp only [ho]; exact ⟨rfl, ag⟩
    | some r =>
      rw [h1] at ho
      simp only [ho]
      by_cases hno : n = o
      · subst hno
        simp only [if_true, hp]
        exact ⟨rfl, ag⟩
      · simp only [hno, if_false]
        cases hg : get t n with
        | some r2 =>
          cases h2 : a.liveAt (now / 1000) n with
          | some r3 => exact ⟨rfl, ag⟩
          | none =>
            rw [h2] at hn
            simp [sqlSquattedRename, sqlSel_eq, ho, hn, hg, hno] at hs
        | none =>
          have h2 : a.liveAt (now / 1000) n = none := by rw [← hn]; simp [tblLive, hg, liveOpt]
          simp only [h2]
          exact ⟨rfl, agree_put (agree_erase ag o) n r⟩
  | deleteExpired batch ord =>
    simp only [sqlStep, specStep, absOp, absRes]
    refine ⟨trivial, agree_eraseAll_dead ag _ ?_⟩
    intro i hi
    obtain ⟨r, hg, hd⟩ := sql_expiredIds_dead t (now / 1000) batch ord i hi
    exact tblLive_none_of_dead hg (Nat.le_of_lt hd)

/-! ### from steps to histories -/

/-- One induction for both backends: a one-step simulation (possibly only for calls that are `ok`
    in the sense of a guard `bad`) lifts to every history; time only moves forward. -/
theorem refines_of_sim {S : Type} (g : Nat) (step : Nat → Op σ → S → S × Res σ) (p : Policy)
    (bad : Nat → Op σ → S → Bool) (Inv : Nat → S → AMap σ → Prop)
    (mono : ∀ n n' s a, n ≤ n' → Inv n s a → Inv n' s a)
    (sim : ∀ now op s a, Inv now s a → bad now op s = false →
      absRes g now (step now op s).2 = (specStep p (now / g) (absOp g now op) a).2
      ∧ Inv now (step now op s).1 (specStep p (now / g) (absOp g now op) a).1) :
    ∀ (h : List (Nat × Op σ)) (now : Nat) (s : S) (a : AMap σ), Inv now s a →
      anyStep step bad now s h = false → runObs g step now s h = specObs p g now a h := by
  intro h
  induction h with
  | nil => intros; rfl
  | cons x h ih =>
    obtain ⟨d, op⟩ := x
    intro now s a inv hb
    simp only [anyStep, Bool.or_eq_false_iff] at hb
    have inv' := mono now (now + d) s a (Nat.le_add_right _ _) inv
    obtain ⟨h1, h2⟩ := sim (now + d) op s a inv' hb.1
    simp only [runObs, specObs]
    rw [h1, ih (now + d) _ _ h2 hb.2]

theorem anyStep_false_of_never {S R : Type} (step : Nat → Op σ → S → S × R) (h : List (Nat × Op σ)) :
    ∀ (now : Nat) (s : S), anyStep step (fun _ _ _ => false) now s h = false := by
  induction h with
  | nil => intros; rfl
  | cons x h ih => intro now s; obtain ⟨d, op⟩ := x; simp [anyStep, ih]

theorem anyStep_or {S R : Type} (step : Nat → Op σ → S → S × R) (p q : Nat → Op σ → S → Bool)
    (h : List (Nat × Op σ)) : ∀ (now : Nat) (s : S),
    anyStep step (fun n o s => p n o s || q n o s) now s h = (anyStep step p now s h || anyStep step q now s h) := by
  induction h with
  | nil => intros; rfl
  | cons x h ih =>
    intro now s; obtain ⟨d, op⟩ := x
    simp only [anyStep, ih]
    cases p (now + d) op s <;> cases q (now + d) op s <;> simp

end Pxv.Store
