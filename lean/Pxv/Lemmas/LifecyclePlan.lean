import Pxv.Lemmas.Lifecycle
/-! Bookkeeping lemmas about the plan of a pipeline and about runs: helpers for `Thm/C03.lean`. -/
namespace Pxv.Life
open Pxv.Scope

theorem idsOf_addParam (cl : Closure) (ty : Nat) (m : Mode) (l : Life) :
    (cl.addParam ty m).idsOf l = cl.idsOf l := rfl

theorem idsOf_push (cl : Closure) (c : CDef) (srcs : List Src) (l : Life) :
    (cl.push c srcs).1.idsOf l = cl.idsOf l ++ (if c.life = l then [c.uid] else []) := by
  unfold Closure.push Closure.idsOf
  by_cases h : c.life = l
  · simp [List.filter_append, h]
  · have : (c.life == l) = false := by simpa using h
    simp [List.filter_append, h, this]

/-- the closure of every component of a pipeline is a request call graph built with the prebuilt set
    of its stage -/
def FromPipeline (env : Env) (ba : List (Nat × Nat)) (cp : CompPlan) : Prop :=
  ∃ ins, cp.cl = (closureOf (env.get cp.comp.scope)
    ((ba.filter (fun b => b.2 < cp.stage)).map (·.1)) .request env.fuel ins).1

theorem stepComp_plans (env : Env) (ba : List (Nat × Nat)) (k : Nat) (acc : Acc) (c : Comp)
    (h : ∀ cp ∈ acc.plans, FromPipeline env ba cp) :
    ∀ cp ∈ (stepComp env ba k acc c).plans, FromPipeline env ba cp := by
  intro cp hcp
  simp only [stepComp, List.mem_cons] at hcp
  rcases hcp with rfl | hcp
  · exact ⟨_, rfl⟩
  · exact h cp hcp

theorem foldl_stepComp_plans (env : Env) (ba : List (Nat × Nat)) (k : Nat) (cs : List Comp) :
    ∀ acc, (∀ cp ∈ acc.plans, FromPipeline env ba cp) →
      ∀ cp ∈ (cs.foldl (stepComp env ba k) acc).plans, FromPipeline env ba cp := by
  induction cs with
  | nil => intro acc h; exact h
  | cons c rest ih =>
    intro acc h
    simp only [List.foldl_cons]
    exact ih _ (stepComp_plans env ba k acc c h)

theorem stepStage_plans (env : Env) (ba : List (Nat × Nat)) (tyOf : Nat → Option Nat) (k : Nat) (acc : Acc)
    (s : StageC) (h : ∀ cp ∈ acc.plans, FromPipeline env ba cp) :
    ∀ cp ∈ (stepStage env ba tyOf k acc s).plans, FromPipeline env ba cp := by
  unfold stepStage
  have := foldl_stepComp_plans env ba k s.order.reverse acc h
  split
  · exact this
  · exact this

theorem stepStages_plans (env : Env) (ba : List (Nat × Nat)) (tyOf : Nat → Option Nat)
    (l : List (Nat × StageC)) : ∀ acc, (∀ cp ∈ acc.plans, FromPipeline env ba cp) →
      ∀ cp ∈ (stepStages env ba tyOf l acc).plans, FromPipeline env ba cp := by
  induction l with
  | nil => intro acc h; exact h
  | cons ks rest ih =>
    intro acc h
    obtain ⟨k, s⟩ := ks
    simp only [stepStages]
    exact ih _ (stepStage_plans env ba tyOf k acc s h)

theorem plan_comps (env : Env) (tyOf : Nat → Option Nat) (chain : List Comp) (h : Comp) :
    ∀ cp ∈ (plan env tyOf chain h).comps, FromPipeline env (plan env tyOf chain h).builtAt cp := by
  unfold plan
  simp only
  apply stepStages_plans
  intro cp hcp
  simp at hcp

/-- what executes for one request: per component of the pipeline, some of the nodes of its closure -/
structure Run (p : Plan) where
  exec : List (CompPlan × List Node)
  comps : exec.map (·.1) = p.comps
  sub : ∀ e ∈ exec, e.2.Sublist e.1.cl.nodes

def rsCount (x : Nat) (nodes : List Node) : Nat :=
  ((nodes.filter (fun n => n.ctor.life == .request)).map (·.ctor.uid) |>.filter (· == x)).length

/-- how often the request-scoped constructor `x` runs in a run -/
def Run.constructions {p : Plan} (r : Run p) (x : Nat) : Nat :=
  (r.exec.map (fun e => rsCount x e.2)).sum

theorem rsCount_sublist (x : Nat) {a b : List Node} (h : a.Sublist b) : rsCount x a ≤ rsCount x b := by
  unfold rsCount
  exact ((((h.filter _).map _).filter _).length_le)

theorem count_eq (p : Plan) (x : Nat) : p.count x = (p.comps.map (fun c => rsCount x c.cl.nodes)).sum := rfl

theorem constructions_le_count {p : Plan} (r : Run p) (x : Nat) : r.constructions x ≤ p.count x := by
  rw [count_eq, ← r.comps, List.map_map]
  unfold Run.constructions
  have hs := r.sub
  generalize r.exec = ex at hs
  induction ex with
  | nil => simp
  | cons e rest ih =>
    simp only [List.map_cons, List.sum_cons, Function.comp]
    have h1 := rsCount_sublist x (hs e (by simp))
    have h2 := ih (fun e' he' => hs e' (by simp [he']))
    omega

theorem count_le_one_of_invariants (p : Plan) (h : p.invariantsOk = true) (x : Nat) : p.count x ≤ 1 := by
  by_cases hx : x ∈ p.comps.flatMap (fun c => c.cl.rs)
  · unfold Plan.invariantsOk at h
    rw [List.all_eq_true] at h
    simpa using h x hx
  · -- `x` has no node at all
    have : p.count x = 0 := by
      unfold Plan.count
      apply sum_eq_zero_of
      intro n hn
      simp only [List.mem_map] at hn
      obtain ⟨c, hc, rfl⟩ := hn
      simp only [List.length_eq_zero_iff, List.filter_eq_nil_iff, beq_iff_eq]
      intro y hy hyx
      subst hyx
      exact hx (List.mem_flatMap.mpr ⟨c, hc, hy⟩)
    omega

/-- node `o` of the pipeline is a `Compute` node of the request-scoped constructor `x` -/
def Plan.isNodeOf (p : Plan) (o : Origin) (x : Nat) : Prop :=
  ∃ c, p.ctorAt o = some c ∧ c.uid = x ∧ c.life = .request

theorem rsCount_pos_of_node (x : Nat) (nodes : List Node) (i : Nat) (n : Node) (hn : nodes[i]? = some n)
    (hu : n.ctor.uid = x) (hl : n.ctor.life = .request) : 0 < rsCount x nodes := by
  unfold rsCount
  rw [List.length_pos_iff_exists_mem]
  refine ⟨x, ?_⟩
  simp only [List.mem_filter, List.mem_map, beq_iff_eq, and_true]
  exact ⟨n, ⟨List.mem_of_getElem? hn, by simp [hl]⟩, hu⟩

/-- one node per constructor of the de-duplicated lifecycle (proof of `dedup_unique`) -/
theorem closure_dedup (lk : Nat → Option CDef) (pre : List Nat) (once : Life) (hne : once ≠ .transient)
    (fuel : Nat) (ins : List (Nat × Mode)) :
    ((closureOf lk pre once fuel ins).1.idsOf once).Nodup := by
  apply closureOf_preserves (fun cl => (cl.idsOf once).Nodup)
  · intro cl ty m h; exact h
  · intro cl c srcs h ht
    show ((cl.push c srcs).1.idsOf once).Nodup
    rw [idsOf_push]
    have : c.life ≠ once := by rw [ht]; exact fun h => hne h.symm
    simpa [this] using h
  · intro cl c srcs h hl _ _ hf
    show ((cl.push c srcs).1.idsOf once).Nodup
    rw [idsOf_push]
    simp only [hl, if_true]
    rw [List.nodup_append]
    refine ⟨h, by simp, ?_⟩
    intro a ha b hb
    simp only [List.mem_singleton] at hb
    subst hb
    intro hab
    subst hab
    rw [List.findIdx?_eq_none_iff] at hf
    unfold Closure.idsOf at ha
    simp only [List.mem_map, List.mem_filter] at ha
    obtain ⟨n, ⟨hn, _⟩, hu⟩ := ha
    have := hf n hn
    simp [hu] at this
  · simp [Closure.idsOf]


end Pxv.Life
