import Pxv.Model.Scope
/-! The cross-middleware cloning pass of a stage (helpers for `Thm/C04.lean`). -/
namespace Pxv.Scope

/-- the by-value inputs recorded for a type really are inputs of the middleware they are recorded for -/
def Sound (inputsAt : Nat → List StageInput) (m : List (Nat × CloningInfo)) : Prop :=
  ∀ e ∈ m, ∀ ic ∈ e.2.consumedBy, ∃ inp ∈ inputsAt ic.1, inp.ty = e.1 ∧ inp.byRef = false ∧ inp.cloneable = ic.2

theorem mem_updInfo {m : List (Nat × CloningInfo)} {ty : Nat} {f : CloningInfo → CloningInfo} {e : Nat × CloningInfo}
    (h : e ∈ updInfo m ty f) : ∃ e0 ∈ m, e.1 = e0.1 ∧ (e.2 = e0.2 ∨ (e0.1 = ty ∧ e.2 = f e0.2)) := by
  unfold updInfo at h
  simp only [List.mem_map] at h
  obtain ⟨e0, he0, rfl⟩ := h
  refine ⟨e0, he0, ?_⟩
  by_cases hc : (e0.1 == ty) = true
  · rw [if_pos hc]
    exact ⟨rfl, Or.inr ⟨by simpa using hc, rfl⟩⟩
  · rw [if_neg hc]
    exact ⟨rfl, Or.inl rfl⟩

theorem collect_sound (inputsAt : Nat → List StageInput) (index : Nat) :
    ∀ (ins : List StageInput) (m : List (Nat × CloningInfo)), (∀ i ∈ ins, i ∈ inputsAt index) →
      Sound inputsAt m → Sound inputsAt (collect m index ins) := by
  intro ins
  induction ins with
  | nil => intro m _ h; exact h
  | cons i rest ih =>
    intro m hins hm
    simp only [collect]
    apply ih _ (fun x hx => hins x (List.mem_cons_of_mem _ hx))
    have hi := hins i (by simp)
    by_cases hr : i.byRef = true
    · simp only [hr, if_true]
      intro e he ic hic
      obtain ⟨e0, he0, h1, h2⟩ := mem_updInfo he
      rcases h2 with h2 | ⟨_, h2⟩
      · rw [h2] at hic; rw [h1]; exact hm e0 he0 ic hic
      · rw [h2] at hic; rw [h1]; exact hm e0 he0 ic hic
    · simp only [hr, Bool.false_eq_true, if_false]
      split
      · intro e he ic hic
        obtain ⟨e0, he0, h1, h2⟩ := mem_updInfo he
        rcases h2 with h2 | ⟨h3, h2⟩
        · rw [h2] at hic; rw [h1]; exact hm e0 he0 ic hic
        · rw [h2] at hic
          simp only [List.mem_append, List.mem_singleton] at hic
          rcases hic with hic | rfl
          · rw [h1]; exact hm e0 he0 ic hic
          · exact ⟨i, hi, by rw [h1, h3], by simpa using hr, rfl⟩
      · intro e he ic hic
        simp only [List.mem_append, List.mem_singleton] at he
        rcases he with he | rfl
        · exact hm e he ic hic
        · simp only [List.mem_singleton] at hic
          subst hic
          exact ⟨i, hi, rfl, by simpa using hr, rfl⟩

theorem collectAll_sound (all : List (List StageInput)) :
    ∀ (rest : List (List StageInput)) (index : Nat) (m : List (Nat × CloningInfo)),
      (∀ k mw, rest[k]? = some mw → all[index + k]? = some mw) →
      Sound (fun i => (all[i]?).getD []) m → Sound (fun i => (all[i]?).getD []) (collectAll m index rest) := by
  intro rest
  induction rest with
  | nil => intro index m _ h; exact h
  | cons mw rest ih =>
    intro index m hpos hm
    simp only [collectAll]
    apply ih (index + 1) _ (fun k mw' hk => by
      have := hpos (k + 1) mw' (by simpa using hk)
      rw [← this]; congr 1; omega)
    apply collect_sound _ index mw m _ hm
    intro i hi
    have := hpos 0 mw (by simp)
    simp only [Nat.add_zero] at this
    simp [this, hi]

theorem consumersOf_sub (ci : CloningInfo) : ∀ x ∈ consumersOf ci, x ∈ ci.consumedBy := by
  intro x hx
  unfold consumersOf at hx
  split at hx
  · split at hx
    · split at hx
      · exact (List.dropLast_sublist _).subset hx
      · exact hx
    · exact hx
  · exact (List.dropLast_sublist _).subset hx

theorem cloningFor_ok {ci : CloningInfo} {idxs : List Nat} (h : cloningFor ci = some (.ok idxs)) :
    ∀ i ∈ idxs, (i, true) ∈ ci.consumedBy := by
  unfold cloningFor at h
  split at h
  · cases h
  · split at h
    · cases h
    · split at h
      · cases h
      · rename_i hnone
        simp only [Option.some.injEq, Except.ok.injEq] at h
        subst h
        intro i hi
        simp only [List.mem_map] at hi
        obtain ⟨x, hx, rfl⟩ := hi
        rw [List.find?_eq_none] at hnone
        have := hnone x hx
        have hx2 : x.2 = true := by simpa using this
        have := consumersOf_sub ci x hx
        rw [← hx2]
        exact this

end Pxv.Scope
