import Pxv.Model.Bindings
/-! `get_expr_for_type` and the stage-level loop: every expression it hands out type-checks against the FINAL bindings. -/
namespace Pxv.Bind

/-- `bs'` declares the same parameters as `bs`, possibly with more of them `mut` -/
def Le : List Binding → List Binding → Prop
  | [], [] => True
  | b :: bs, b' :: bs' => b'.ident = b.ident ∧ b'.ty = b.ty ∧ (b.mutable = true → b'.mutable = true) ∧ Le bs bs'
  | _, _ => False

theorem Le.refl : ∀ (bs : List Binding), Le bs bs
  | [] => trivial
  | _ :: bs => ⟨rfl, rfl, id, Le.refl bs⟩

theorem Le.trans : ∀ {a b c : List Binding}, Le a b → Le b c → Le a c
  | [], [], [], _, _ => trivial
  | _ :: _, _ :: _, _ :: _, h1, h2 =>
    ⟨h2.1.trans h1.1, h2.2.1.trans h1.2.1, fun h => h2.2.2.1 (h1.2.2.1 h), Le.trans h1.2.2.2 h2.2.2.2⟩
  | [], [], _ :: _, _, h2 => h2.elim
  | [], _ :: _, _, h1, _ => h1.elim
  | _ :: _, [], _, h1, _ => h1.elim
  | _ :: _, _ :: _, [], _, h2 => h2.elim

theorem le_markMut (t : Ty) : ∀ (bs : List Binding), Le bs (markMut t bs)
  | [] => trivial
  | b :: bs => by
    unfold markMut
    split
    · exact ⟨rfl, rfl, fun _ => rfl, Le.refl bs⟩
    · exact ⟨rfl, rfl, id, le_markMut t bs⟩

theorem wellTyped_mono {bs bs' : List Binding} (h : Le bs bs') (e : Expr) (w : Ty) (ht : wellTyped bs e w = true) :
    wellTyped bs' e w = true := by
  induction bs generalizing bs' with
  | nil => cases e <;> simp [wellTyped] at ht
  | cons b bs ih =>
    cases bs' with
    | nil => exact h.elim
    | cons b' bs' =>
      obtain ⟨hi, hty, hm, hrest⟩ := h
      cases e with
      | name i =>
        simp only [wellTyped, List.any_cons, Bool.or_eq_true] at ht ⊢
        rcases ht with ht | ht
        · left; rw [hi, hty]; exact ht
        · right
          have := ih hrest (by simpa [wellTyped] using ht)
          simpa [wellTyped] using this
      | borrow m i =>
        simp only [wellTyped, List.any_cons, Bool.or_eq_true] at ht ⊢
        rcases ht with ht | ht
        · left
          simp only [Bool.and_eq_true, decide_eq_true_eq, Bool.or_eq_true, Bool.not_eq_true'] at ht ⊢
          refine ⟨⟨hi ▸ ht.1.1, hty ▸ ht.1.2⟩, ?_⟩
          rcases ht.2 with h1 | h1
          · exact Or.inl h1
          · exact Or.inr (hm h1)
        · right
          have := ih hrest (by simpa [wellTyped] using ht)
          simpa [wellTyped] using this

/-- the binding `find?` returns is the one `markMut` marks -/
theorem mem_markMut_of_find {t : Ty} : ∀ {bs : List Binding} {b : Binding}, bs.find? (fun b => b.ty = t) = some b →
    { b with mutable := true } ∈ markMut t bs
  | [], _, h => by simp at h
  | c :: cs, b, h => by
    unfold markMut
    by_cases hc : c.ty = t
    · simp only [List.find?_cons, hc, decide_true] at h
      cases h
      simp [hc]
    · simp only [List.find?_cons, hc, decide_false] at h
      simp only [hc, if_false]
      exact List.mem_cons_of_mem _ (mem_markMut_of_find h)

theorem getExpr_le {bs bs' : List Binding} {w : Ty} {e : Expr} (h : getExpr bs w = some (e, bs')) : Le bs bs' := by
  unfold getExpr at h
  split at h
  · cases h; exact Le.refl _
  · split at h
    · cases h
    · split at h
      · cases h
        split
        · exact le_markMut _ _
        · exact Le.refl _
      · split at h
        · cases h
        · split at h
          · cases h; exact Le.refl _
          · cases h

/-- **one lookup**: the expression `get_expr_for_type` returns may be passed where the wanted type is expected, given the
    bindings as the call leaves them: in particular a `&mut ident` comes with `mut ident`. -/
theorem getExpr_typed {bs bs' : List Binding} {w : Ty} {e : Expr} (h : getExpr bs w = some (e, bs')) :
    wellTyped bs' e w = true := by
  unfold getExpr at h
  cases hf : bs.find? (fun b => b.ty = w) with
  | some b =>
    rw [hf] at h
    cases h
    have hb := List.mem_of_find?_eq_some hf
    have ht : b.ty = w := by simpa using List.find?_some hf
    simp only [wellTyped, List.any_eq_true]
    exact ⟨b, hb, by simp [ht]⟩
  | none =>
    rw [hf] at h
    cases w with
    | base n => cases h
    | ref m inner =>
      simp only [] at h
      cases hf2 : bs.find? (fun b => b.ty = inner) with
      | some b =>
        rw [hf2] at h
        cases h
        have hb := List.mem_of_find?_eq_some hf2
        have ht : b.ty = inner := by simpa using List.find?_some hf2
        simp only [wellTyped, List.any_eq_true]
        cases m with
        | false => exact ⟨b, hb, by simp [ht]⟩
        | true => exact ⟨{ b with mutable := true }, mem_markMut_of_find hf2, by simp [ht]⟩
      | none =>
        rw [hf2] at h
        cases m with
        | true => simp at h
        | false =>
          simp only [Bool.false_eq_true, if_false] at h
          cases hf3 : bs.find? (fun b => b.ty = .ref true inner) with
          | some b =>
            rw [hf3] at h
            cases h
            have hb := List.mem_of_find?_eq_some hf3
            have ht : b.ty = .ref true inner := by simpa using List.find?_some hf3
            simp only [wellTyped, List.any_eq_true]
            exact ⟨b, hb, by simp [ht]⟩
          | none => rw [hf3] at h; cases h

/-- every argument is well typed -/
def allTyped (bs : List Binding) : List Expr → List Ty → Prop
  | [], [] => True
  | e :: es, t :: ts => wellTyped bs e t = true ∧ allTyped bs es ts
  | _, _ => False

theorem allTyped_mono {bs bs' : List Binding} (h : Le bs bs') : ∀ (es : List Expr) (ts : List Ty),
    allTyped bs es ts → allTyped bs' es ts
  | [], [], _ => trivial
  | e :: es, t :: ts, ht => ⟨wellTyped_mono h e t ht.1, allTyped_mono h es ts ht.2⟩
  | [], _ :: _, ht => ht.elim
  | _ :: _, [], ht => ht.elim

theorem resolveArgs_typed : ∀ (ts : List Ty) (bs bs' : List Binding) (es : List Expr),
    resolveArgs bs ts = some (es, bs') → Le bs bs' ∧ allTyped bs' es ts := by
  intro ts
  induction ts with
  | nil => intro bs bs' es h; simp [resolveArgs] at h; obtain ⟨rfl, rfl⟩ := h; exact ⟨Le.refl _, trivial⟩
  | cons t ts ih =>
    intro bs bs' es h
    unfold resolveArgs at h
    cases hg : getExpr bs t with
    | none => rw [hg] at h; cases h
    | some r =>
      obtain ⟨e, bs1⟩ := r
      rw [hg] at h
      simp only [] at h
      cases hr : resolveArgs bs1 ts with
      | none => rw [hr] at h; cases h
      | some r2 =>
        obtain ⟨es2, bs2⟩ := r2
        rw [hr] at h
        cases h
        obtain ⟨hle, hty⟩ := ih bs1 _ _ hr
        exact ⟨Le.trans (getExpr_le hg) hle, wellTyped_mono hle e t (getExpr_typed hg), hty⟩

end Pxv.Bind

namespace Pxv.Bind

theorem le_append_singleton : ∀ {a a' : List Binding} {x x' : Binding}, Le a a' → Le [x] [x'] → Le (a ++ [x]) (a' ++ [x'])
  | [], [], _, _, _, hx => hx
  | _ :: _, _ :: _, _, _, h, hx => ⟨h.1, h.2.1, h.2.2.1, le_append_singleton h.2.2.2 hx⟩
  | [], _ :: _, _, _, h, _ => h.elim
  | _ :: _, [], _, _, h, _ => h.elim

theorem le_snoc_inv : ∀ {a c : List Binding} {x : Binding}, Le (a ++ [x]) c →
    ∃ y, c = c.dropLast ++ [y] ∧ Le a c.dropLast ∧ y.ident = x.ident ∧ y.ty = x.ty
  | [], [], _, h => h.elim
  | [], [y], _, h => ⟨y, rfl, trivial, h.1, h.2.1⟩
  | [], _ :: _ :: _, _, h => h.2.2.2.elim
  | _ :: _, [], _, h => h.elim
  | b :: a, c0 :: c, x, h => by
    obtain ⟨h1, h2, h3, h4⟩ := h
    obtain ⟨y, hy, hle, hi, ht⟩ := le_snoc_inv (a := a) (c := c) (x := x) h4
    have hne : c ≠ [] := by intro hc; rw [hc] at hy; simp at hy
    refine ⟨y, ?_, ?_, hi, ht⟩
    · rw [List.dropLast_cons_of_ne_nil hne, List.cons_append, ← hy]
    · rw [List.dropLast_cons_of_ne_nil hne]
      exact ⟨h1, h2, h3, hle⟩

/-- every invocation of the stage is well typed against the parameters as the signature finally declares them; the
    temporary `response` binding of a post-processor is a `let`, not a parameter: nothing is claimed about `&mut response` -/
def stageTyped (resp : Binding) (bsF : List Binding) : List (Bool × List Ty) → List (List Expr) → Prop
  | [], [] => True
  | (post, wants) :: rest, es :: ess =>
    allTyped (if post then bsF ++ [{ resp with mutable := true }] else bsF) es wants ∧ stageTyped resp bsF rest ess
  | _, _ => False

theorem resolveStage_typed (resp : Binding) : ∀ (calls : List (Bool × List Ty)) (bs bsF : List Binding) (ess : List (List Expr)),
    resolveStage resp bs calls = some (ess, bsF) → Le bs bsF ∧ stageTyped resp bsF calls ess := by
  intro calls
  induction calls with
  | nil => intro bs bsF ess h; simp [resolveStage] at h; obtain ⟨rfl, rfl⟩ := h; exact ⟨Le.refl _, trivial⟩
  | cons c rest ih =>
    intro bs bsF ess h
    obtain ⟨post, wants⟩ := c
    unfold resolveStage at h
    cases hr : resolveArgs (if post then bs ++ [resp] else bs) wants with
    | none => rw [hr] at h; cases h
    | some r =>
      obtain ⟨es, bs1⟩ := r
      rw [hr] at h
      simp only [] at h
      cases hs : resolveStage resp (if post then bs1.dropLast else bs1) rest with
      | none => rw [hs] at h; cases h
      | some r2 =>
        obtain ⟨ess2, bs2⟩ := r2
        rw [hs] at h
        cases h
        obtain ⟨hle1, hty1⟩ := resolveArgs_typed wants _ _ _ hr
        obtain ⟨hle2, hty2⟩ := ih _ _ _ hs
        cases post with
        | false =>
          simp only [Bool.false_eq_true, if_false] at hle1 hty1 hle2 ⊢
          exact ⟨Le.trans hle1 hle2, allTyped_mono hle2 _ _ hty1, hty2⟩
        | true =>
          simp only [if_true] at hle1 hty1 hle2 ⊢
          obtain ⟨y, hy, hleD, hi, ht⟩ := le_snoc_inv hle1
          refine ⟨Le.trans hleD hle2, ?_, hty2⟩
          rw [hy] at hty1
          refine allTyped_mono (le_append_singleton hle2 ?_) _ _ hty1
          exact ⟨hi.symm, ht.symm, fun _ => rfl, trivial⟩

end Pxv.Bind
