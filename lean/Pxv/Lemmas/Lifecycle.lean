import Pxv.Model.Lifecycle
/-! Helper lemmas for `Thm/C03.lean`: an induction principle for the call-graph traversal, counting. -/
namespace Pxv.Life
open Pxv.Scope

/-- `foldRes` preserves whatever its step preserves -/
theorem foldRes_preserves (P : Closure → Prop) (r : Closure → Nat × Mode → Closure × Src)
    (hr : ∀ cl i, P cl → P (r cl i).1) : ∀ l cl, P cl → P (foldRes r cl l).1 := by
  intro l
  induction l with
  | nil => intro cl h; exact h
  | cons i rest ih =>
    intro cl h
    simp only [foldRes]
    exact ih _ (hr cl i h)

/-- **induction principle for `resolve`**: a property of closures that survives (a) a new parameter
    edge, (b) a new node for a transient constructor, (c) a new node for a constructor of the
    de-duplicated lifecycle that is not prebuilt and has no node yet, survives the whole traversal. -/
theorem resolve_preserves (P : Closure → Prop) (lk : Nat → Option CDef) (pre : List Nat) (once : Life)
    (hparam : ∀ cl ty m, P cl → P (cl.addParam ty m))
    (htrans : ∀ cl c srcs, P cl → c.life = .transient → P (cl.push c srcs).1)
    (honce : ∀ cl c srcs, P cl → c.life = once → c.life ≠ .transient → pre.contains c.uid = false →
      cl.nodes.findIdx? (fun n => n.ctor.uid == c.uid) = none → P (cl.push c srcs).1) :
    ∀ f cl i, P cl → P (resolve lk pre once f cl i).1 := by
  intro f
  induction f with
  | zero =>
    intro cl i h
    obtain ⟨ty, m⟩ := i
    simp only [resolve]
    exact hparam _ _ _ h
  | succ f ih =>
    intro cl i h
    obtain ⟨ty, m⟩ := i
    simp only [resolve]
    cases hl : lk ty with
    | none => exact hparam _ _ _ h
    | some c =>
      simp only
      by_cases ht : c.life = .transient
      · simp only [ht, beq_self_eq_true, if_true]
        exact htrans _ _ _ (foldRes_preserves P _ ih _ _ h) ht
      · have ht' : (c.life == Life.transient) = false := by simpa using ht
        simp only [ht', Bool.false_eq_true, if_false]
        by_cases hp : (c.life != once || pre.contains c.uid) = true
        · simp only [hp, if_true]
          exact hparam _ _ _ h
        · simp only [hp, Bool.false_eq_true, if_false]
          have hp' : c.life = once ∧ pre.contains c.uid = false := by
            simp only [Bool.or_eq_true, bne_iff_ne, ne_eq, not_or, Decidable.not_not, Bool.not_eq_true] at hp
            exact hp
          cases hf : cl.nodes.findIdx? (fun n => n.ctor.uid == c.uid) with
          | some i => exact h
          | none =>
            simp only
            have hP := foldRes_preserves P _ ih c.ins cl h
            unfold Closure.pushOnce
            cases hf2 : (foldRes (resolve lk pre once f) cl c.ins).1.nodes.findIdx? (fun n => n.ctor.uid == c.uid) with
            | some i => exact hP
            | none => exact honce _ _ _ hP hp'.1 ht hp'.2 hf2

theorem closureOf_preserves (P : Closure → Prop) (lk : Nat → Option CDef) (pre : List Nat) (once : Life)
    (hparam : ∀ cl ty m, P cl → P (cl.addParam ty m))
    (htrans : ∀ cl c srcs, P cl → c.life = .transient → P (cl.push c srcs).1)
    (honce : ∀ cl c srcs, P cl → c.life = once → c.life ≠ .transient → pre.contains c.uid = false →
      cl.nodes.findIdx? (fun n => n.ctor.uid == c.uid) = none → P (cl.push c srcs).1)
    (h0 : P {}) (fuel : Nat) (ins : List (Nat × Mode)) : P (closureOf lk pre once fuel ins).1 := by
  unfold closureOf
  exact foldRes_preserves P _ (resolve_preserves P lk pre once hparam htrans honce fuel) ins {} h0

/-- uids of the nodes of lifecycle `l` -/
def Closure.idsOf (cl : Closure) (l : Life) : List Nat :=
  (cl.nodes.filter (fun n => n.ctor.life == l)).map (·.ctor.uid)

theorem rs_eq_idsOf (cl : Closure) : cl.rs = cl.idsOf .request := rfl

theorem sum_le_one_of {l : List Nat} (h : l.sum ≤ 1) : ∀ x ∈ l, x ≤ 1 := by
  induction l with
  | nil => intro x hx; cases hx
  | cons a as ih =>
    intro x hx
    simp only [List.sum_cons] at h
    simp only [List.mem_cons] at hx
    rcases hx with rfl | hx
    · omega
    · exact ih (by omega) x hx

theorem sum_eq_zero_of : ∀ (l : List Nat), (∀ n ∈ l, n = 0) → l.sum = 0 := by
  intro l
  induction l with
  | nil => intro _; rfl
  | cons a as ih =>
    intro h
    simp only [List.sum_cons]
    rw [h a (by simp), ih (fun n hn => h n (by simp [hn]))]

theorem getElem_le_sum : ∀ (l : List Nat) (i : Nat) (h : i < l.length), l[i] ≤ l.sum := by
  intro l
  induction l with
  | nil => intro i h; simp at h
  | cons a as ih =>
    intro i h
    cases i with
    | zero => simp
    | succ i =>
      simp only [List.getElem_cons_succ, List.sum_cons]
      have := ih i (by simpa using h)
      omega

/-- in a list of naturals whose sum is at most one, two positions holding a positive number coincide -/
theorem sum_le_one_unique : ∀ (l : List Nat), l.sum ≤ 1 → ∀ i j, (h1 : i < l.length) → (h2 : j < l.length) →
    0 < l[i] → 0 < l[j] → i = j := by
  intro l
  induction l with
  | nil => intro _ i j h1; simp at h1
  | cons a as ih =>
    intro h i j h1 h2 hi hj
    simp only [List.sum_cons] at h
    cases i with
    | zero =>
      cases j with
      | zero => rfl
      | succ j =>
        simp only [List.getElem_cons_succ, List.getElem_cons_zero] at hi hj
        have := getElem_le_sum as j (by simpa using h2)
        omega
    | succ i =>
      cases j with
      | zero =>
        simp only [List.getElem_cons_succ, List.getElem_cons_zero] at hi hj
        have := getElem_le_sum as i (by simpa using h1)
        omega
      | succ j =>
        simp only [List.getElem_cons_succ] at hi hj
        have := ih (by omega) i j (by simpa using h1) (by simpa using h2) hi hj
        omega

/-- if the `f`-images of the `p`-elements of a list are pairwise distinct, two positions holding
    `p`-elements with the same image coincide -/
theorem nodup_map_filter_inj {α β : Type} [DecidableEq β] (p : α → Bool) (f : α → β) :
    ∀ (l : List α), ((l.filter p).map f).Nodup → ∀ i j (hi : i < l.length) (hj : j < l.length),
      p l[i] = true → p l[j] = true → f l[i] = f l[j] → i = j := by
  intro l
  induction l with
  | nil => intro _ i j hi; simp at hi
  | cons a as ih =>
    intro hnd i j hi hj hpi hpj hf
    have htail : ((as.filter p).map f).Nodup := by
      by_cases hpa : p a = true
      · simp only [List.filter_cons, hpa, if_true, List.map_cons, List.nodup_cons] at hnd
        exact hnd.2
      · simp only [List.filter_cons, hpa, Bool.false_eq_true, if_false] at hnd
        exact hnd
    cases i with
    | zero =>
      cases j with
      | zero => rfl
      | succ j =>
        exfalso
        simp only [List.getElem_cons_zero, List.getElem_cons_succ] at hpi hpj hf
        simp only [List.filter_cons, hpi, if_true, List.map_cons, List.nodup_cons] at hnd
        apply hnd.1
        rw [hf]
        exact List.mem_map.mpr ⟨as[j]'(by simpa using hj), List.mem_filter.mpr ⟨List.getElem_mem _, hpj⟩, rfl⟩
    | succ i =>
      cases j with
      | zero =>
        exfalso
        simp only [List.getElem_cons_zero, List.getElem_cons_succ] at hpi hpj hf
        simp only [List.filter_cons, hpj, if_true, List.map_cons, List.nodup_cons] at hnd
        apply hnd.1
        rw [← hf]
        exact List.mem_map.mpr ⟨as[i]'(by simpa using hi), List.mem_filter.mpr ⟨List.getElem_mem _, hpi⟩, rfl⟩
      | succ j =>
        simp only [List.getElem_cons_succ] at hpi hpj hf
        have := ih htail i j (by simpa using hi) (by simpa using hj) hpi hpj hf
        omega

end Pxv.Life
