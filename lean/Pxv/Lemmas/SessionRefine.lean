import Pxv.Model.SessionSpec
import Pxv.Lemmas.Session
/-! The abstraction from the `Session` model to the pair-of-maps specification, the coherence
invariant between a session and the store, and the simulation lemmas (one per operation). -/
set_option linter.unusedSectionVars false
set_option linter.unusedSimpArgs false
namespace Pxv.Session
open Spec

variable {κ ν : Type} [DecidableEq κ]

/-- What the application sees of the server state cell. -/
def viewSrv : Option (Srv κ ν) → SSrv κ ν
  | none => .unseen
  | some (.unchanged st _) => .present st
  | some (.changed st) => .present st
  | some .doesNotExist => .absent
  | some .markedForDeletion => .deleted

/-- Forget the dirty markers and the TTL. -/
def abs (s : Sess κ ν) : SSess κ ν :=
  { id := s.id, cli := s.client.state, cliDirty := s.client.isUpdated, srv := viewSrv s.server, inv := s.invalidated }

/-- Forget TTLs and the operation log: which map is stored under which id. -/
def absW (w : World κ ν) : SWorld κ ν :=
  { recs := fun i => (Map.lookup w.store i).map (·.state), nextId := w.nextId }

/-- Coherence between the session of the current request and the store. -/
structure Inv (s : Sess κ ν) (w : World κ ν) : Prop where
  storeLt : ∀ i, Map.lookup w.store i ≠ none → i < w.nextId
  newLt : s.id.newId < w.nextId
  oldLt : ∀ o, s.id.oldId = some o → o < w.nextId
  renamedFresh : ∀ o n, s.id = .toBeRenamed o n → Map.lookup w.store n = none ∧ o ≠ n
  newFresh : ∀ n, s.id = .newlyGenerated n → Map.lookup w.store n = none ∧ s.server ≠ none
  unchangedOk : ∀ st t, s.server = some (.unchanged st t) →
    ∃ o r, s.id.oldId = some o ∧ Map.lookup w.store o = some r ∧ r.state = st
  dneOk : s.server = some .doesNotExist → ∀ o, s.id.oldId = some o → Map.lookup w.store o = none
  invOk : s.invalidated = true → s.server = some .markedForDeletion

/-! ### maps -/

theorem Map.erase_of_lookup_none (m : Map κ ν) (k : κ) (h : Map.lookup m k = none) : Map.erase m k = m := by
  induction m with
  | nil => rfl
  | cons p t ih =>
    obtain ⟨k', v⟩ := p
    by_cases hk : k' = k
    · simp [Map.lookup, hk] at h
    · simp [Map.lookup, hk] at h
      simp [Map.erase, hk, ih h]

theorem Map.isEmpty_eq_nil (m : Map κ ν) (h : m.isEmpty = true) : m = [] := by
  cases m <;> simp_all

/-! ### the store operations on the abstract world -/

@[simp] theorem logged_store (w : World κ ν) (e : LogE κ ν) : (w.logged e).store = w.store := rfl
@[simp] theorem logged_nextId (w : World κ ν) (e : LogE κ ν) : (w.logged e).nextId = w.nextId := rfl

@[simp] theorem absW_logged (w : World κ ν) (e : LogE κ ν) : absW (w.logged e) = absW w := rfl

theorem absW_insert (w : World κ ν) (id : Nat) (r : Rec κ ν) :
    absW { w with store := Map.insert w.store id r } = (absW w).set id (some r.state) := by
  simp only [absW, SWorld.set]
  congr 1
  funext i
  simp only [Map.lookup_insert]
  split <;> simp

theorem absW_erase (w : World κ ν) (id : Nat) :
    absW { w with store := Map.erase w.store id } = (absW w).set id none := by
  simp only [absW, SWorld.set]
  congr 1
  funext i
  simp only [Map.lookup_erase]
  split <;> simp

@[simp] theorem absW_mk_insert (st : Map Nat (Rec κ ν)) (n : Nat) (log : List (LogE κ ν)) (id : Nat) (r : Rec κ ν) :
    absW ⟨Map.insert st id r, n, log⟩ = (absW ⟨st, n, log⟩).set id (some r.state) :=
  absW_insert ⟨st, n, log⟩ id r

@[simp] theorem absW_mk_erase (st : Map Nat (Rec κ ν)) (n : Nat) (log : List (LogE κ ν)) (id : Nat) :
    absW ⟨Map.erase st id, n, log⟩ = (absW ⟨st, n, log⟩).set id none :=
  absW_erase ⟨st, n, log⟩ id

@[simp] theorem absW_mk_eta (w : World κ ν) (log : List (LogE κ ν)) : absW ⟨w.store, w.nextId, log⟩ = absW w := rfl

theorem set_same (W : SWorld κ ν) (id : Nat) (v : Option (Map κ ν)) (h : W.recs id = v) : W.set id v = W := by
  cases W with
  | mk recs n =>
    simp only [SWorld.set]
    congr 1
    funext i
    split
    · subst_vars; rfl
    · rfl

theorem set_set (W : SWorld κ ν) (id : Nat) (u v : Option (Map κ ν)) : (W.set id u).set id v = W.set id v := by
  simp only [SWorld.set]
  congr 1
  funext i
  split <;> rfl


/-! ### `force_load` is `look` -/

theorem forceLoad_refines (cfg : Config) (rem : Nat) (s : Sess κ ν) (w : World κ ν) (h : Inv s w) :
    abs (forceLoad cfg rem s w).1 = look cfg (abs s) (absW w) ∧
    absW (forceLoad cfg rem s w).2 = absW w ∧
    Inv (forceLoad cfg rem s w).1 (forceLoad cfg rem s w).2 ∧
    (forceLoad cfg rem s w).1.server ≠ none := by
  obtain ⟨id, server, client, invalidated⟩ := s
  obtain ⟨h1, h2, h3, h4, h5, h6, h7, h8⟩ := h
  cases server with
  | some sv =>
    have e : forceLoad cfg rem ⟨id, some sv, client, invalidated⟩ w = (⟨id, some sv, client, invalidated⟩, w) := by
      unfold forceLoad; cases id <;> rfl
    rw [e]
    refine ⟨?_, rfl, ⟨h1, h2, h3, h4, h5, h6, h7, h8⟩, by simp⟩
    cases sv <;> rfl
  | none =>
    cases id with
    | newlyGenerated n => exact absurd rfl (h5 n rfl).2
    | existing o =>
      cases hl : Map.lookup w.store o <;> cases hm : cfg.missing <;>
        simp [forceLoad, CurId.oldId, stLoad, hl, hm, abs, look, viewSrv, absW] <;>
        constructor <;> simp_all [CurId.oldId, CurId.newId, World.logged] <;>
        (try (constructor <;> simp_all [CurId.oldId, CurId.newId]))
    | toBeRenamed o n =>
      cases hl : Map.lookup w.store o <;> cases hm : cfg.missing <;>
        simp [forceLoad, CurId.oldId, stLoad, hl, hm, abs, look, viewSrv, absW] <;>
        constructor <;> simp_all [CurId.oldId, CurId.newId, World.logged] <;>
        (try (constructor <;> simp_all [CurId.oldId, CurId.newId]))


/-! ### one operation of the model against one operation of the specification -/

/-- Same result, related post-states, invariant kept. -/
def Sim (m : Res ν × Sess κ ν × World κ ν) (sp : Res ν × SSess κ ν × SWorld κ ν) : Prop :=
  m.1 = sp.1 ∧ abs m.2.1 = sp.2.1 ∧ absW m.2.2 = sp.2.2 ∧ Inv m.2.1 m.2.2

theorem Inv.setChanged {s : Sess κ ν} {w : World κ ν} (h : Inv s w) (st : Map κ ν)
    (h1 : s.server ≠ some .markedForDeletion) (h2 : s.server ≠ none) :
    Inv { s with server := some (.changed st) } w := by
  obtain ⟨a, b, c, d, e, f, g, i⟩ := h
  constructor <;> simp_all

theorem getRaw_refines (cfg : Config) (strict : Bool) (rem : Nat) (k : κ) (s : Sess κ ν) (w : World κ ν) (h : Inv s w) :
    Sim (getRaw cfg rem k s w) (Spec.step cfg strict (.get k) (abs s) (absW w)) := by
  obtain ⟨ha, hw, hi, hn⟩ := forceLoad_refines cfg rem s w h
  unfold getRaw Spec.step Sim
  rw [← ha, ← hw]
  clear ha hw h
  generalize forceLoad cfg rem s w = p at *
  obtain ⟨⟨id, server, client, inval⟩, w1⟩ := p
  cases server with
  | none => simp at hn
  | some sv => cases sv <;> simp_all [abs, viewSrv]

theorem isEmpty_refines (cfg : Config) (strict : Bool) (rem : Nat) (s : Sess κ ν) (w : World κ ν) (h : Inv s w) :
    Sim (isEmpty cfg rem s w) (Spec.step cfg strict .isEmpty (abs s) (absW w)) := by
  obtain ⟨ha, hw, hi, hn⟩ := forceLoad_refines cfg rem s w h
  unfold isEmpty Spec.step Sim
  rw [← ha, ← hw]
  clear ha hw h
  generalize forceLoad cfg rem s w = p at *
  obtain ⟨⟨id, server, client, inval⟩, w1⟩ := p
  cases server with
  | none => simp at hn
  | some sv => cases sv <;> simp_all [abs, viewSrv]

theorem insertRaw_refines (cfg : Config) (strict : Bool) (rem : Nat) (k : κ) (v : ν) (s : Sess κ ν) (w : World κ ν) (h : Inv s w) :
    Sim (insertRaw cfg rem k v s w) (Spec.step cfg strict (.insert k v) (abs s) (absW w)) := by
  obtain ⟨ha, hw, hi, hn⟩ := forceLoad_refines cfg rem s w h
  unfold insertRaw Spec.step Sim
  rw [← ha, ← hw]
  clear ha hw h
  generalize forceLoad cfg rem s w = p at *
  obtain ⟨⟨id, server, client, inval⟩, w1⟩ := p
  cases server with
  | none => simp at hn
  | some sv =>
    cases sv <;> simp_all [abs, viewSrv] <;>
      exact Inv.setChanged hi _ (by simp) (by simp)

theorem removeRaw_refines (cfg : Config) (strict : Bool) (rem : Nat) (k : κ) (s : Sess κ ν) (w : World κ ν) (h : Inv s w) :
    Sim (removeRaw cfg rem k s w) (Spec.step cfg strict (.remove k) (abs s) (absW w)) := by
  obtain ⟨ha, hw, hi, hn⟩ := forceLoad_refines cfg rem s w h
  unfold removeRaw Spec.step Sim
  rw [← ha, ← hw]
  clear ha hw h
  generalize forceLoad cfg rem s w = p at *
  obtain ⟨⟨id, server, client, inval⟩, w1⟩ := p
  cases server with
  | none => simp at hn
  | some sv =>
    cases sv with
    | unchanged st t =>
      cases hl : Map.lookup st k with
      | none => simp_all [abs, viewSrv, Map.erase_of_lookup_none]
      | some v =>
        simp_all [abs, viewSrv]
        exact Inv.setChanged hi _ (by simp) (by simp)
    | changed st =>
      simp_all [abs, viewSrv]
      exact Inv.setChanged hi _ (by simp) (by simp)
    | doesNotExist => simp_all [abs, viewSrv]
    | markedForDeletion => simp_all [abs, viewSrv]

theorem clear_refines (cfg : Config) (strict : Bool) (rem : Nat) (s : Sess κ ν) (w : World κ ν) (h : Inv s w) :
    Sim (clear cfg rem s w) (Spec.step cfg strict .clear (abs s) (absW w)) := by
  obtain ⟨ha, hw, hi, hn⟩ := forceLoad_refines cfg rem s w h
  unfold clear Spec.step Sim
  rw [← ha, ← hw]
  clear ha hw h
  generalize forceLoad cfg rem s w = p at *
  obtain ⟨⟨id, server, client, inval⟩, w1⟩ := p
  cases server with
  | none => simp at hn
  | some sv =>
    cases sv with
    | unchanged st t =>
      by_cases he : st.isEmpty = true
      · have := Map.isEmpty_eq_nil st he
        subst this
        simp_all [abs, viewSrv]
      · simp_all [abs, viewSrv]
        exact Inv.setChanged hi _ (by simp) (by simp)
    | changed st =>
      simp_all [abs, viewSrv]
      exact Inv.setChanged hi _ (by simp) (by simp)
    | doesNotExist => simp_all [abs, viewSrv]
    | markedForDeletion => simp_all [abs, viewSrv]


theorem delete_refines (cfg : Config) (strict : Bool) (rem : Nat) (s : Sess κ ν) (w : World κ ν) (h : Inv s w) :
    Sim (step cfg rem .delete s w) (Spec.step cfg strict .delete (abs s) (absW w)) := by
  obtain ⟨a, b, c, d, e, f, g, i⟩ := h
  refine ⟨rfl, rfl, rfl, ?_⟩
  constructor <;> simp_all [step, delete]

theorem invalidate_refines (cfg : Config) (strict : Bool) (rem : Nat) (s : Sess κ ν) (w : World κ ν) (h : Inv s w) :
    Sim (step cfg rem .invalidate s w) (Spec.step cfg strict .invalidate (abs s) (absW w)) := by
  obtain ⟨a, b, c, d, e, f, g, i⟩ := h
  refine ⟨rfl, rfl, rfl, ?_⟩
  constructor <;> simp_all [step, invalidate]

theorem cycle_refines (cfg : Config) (strict : Bool) (rem : Nat) (s : Sess κ ν) (w : World κ ν) (h : Inv s w) :
    Sim (step cfg rem .cycle s w) (Spec.step cfg strict .cycle (abs s) (absW w)) := by
  obtain ⟨a, b, c, d, e, f, g, i⟩ := h
  have fresh : Map.lookup w.store w.nextId = none := by
    cases hl : Map.lookup w.store w.nextId with
    | none => rfl
    | some r => exact absurd (a w.nextId (by simp [hl])) (Nat.lt_irrefl _)
  obtain ⟨id, server, client, inval⟩ := s
  cases id with
  | existing o =>
    refine ⟨rfl, rfl, rfl, ?_⟩
    constructor <;> simp_all [step, cycleId, CurId.oldId, CurId.newId] <;> (try omega)
    · intro i hi; exact Nat.lt_succ_of_lt (a i hi)
  | toBeRenamed o n =>
    refine ⟨rfl, rfl, rfl, ?_⟩
    constructor <;> simp_all [step, cycleId, CurId.oldId, CurId.newId] <;> (try omega)
    · intro i hi; exact Nat.lt_succ_of_lt (a i hi)
  | newlyGenerated n =>
    refine ⟨rfl, rfl, rfl, ?_⟩
    constructor <;> simp_all [step, cycleId, CurId.oldId, CurId.newId] <;> (try omega)
    · intro i hi; exact Nat.lt_succ_of_lt (a i hi)

theorem isInvalidated_refines (cfg : Config) (strict : Bool) (rem : Nat) (s : Sess κ ν) (w : World κ ν) (h : Inv s w) :
    Sim (step cfg rem .isInvalidated s w) (Spec.step cfg strict .isInvalidated (abs s) (absW w)) :=
  ⟨rfl, rfl, rfl, h⟩

theorem forceLoadOp_refines (cfg : Config) (strict : Bool) (rem : Nat) (s : Sess κ ν) (w : World κ ν) (h : Inv s w) :
    Sim (step cfg rem .forceLoad s w) (Spec.step cfg strict .forceLoad (abs s) (absW w)) := by
  obtain ⟨ha, hw, hi, _⟩ := forceLoad_refines cfg rem s w h
  exact ⟨rfl, ha, hw, hi⟩

theorem Inv.setClient {s : Sess κ ν} {w : World κ ν} (h : Inv s w) (c : Cli κ ν) :
    Inv { s with client := c } w := by
  obtain ⟨a, b, c', d, e, f, g, i⟩ := h
  constructor <;> simp_all

theorem cGet_refines (cfg : Config) (strict : Bool) (rem : Nat) (k : κ) (s : Sess κ ν) (w : World κ ν) (h : Inv s w) :
    Sim (step cfg rem (.cGet k) s w) (Spec.step cfg strict (.cGet k) (abs s) (absW w)) :=
  ⟨rfl, rfl, rfl, h⟩

theorem cIsEmpty_refines (cfg : Config) (strict : Bool) (rem : Nat) (s : Sess κ ν) (w : World κ ν) (h : Inv s w) :
    Sim (step cfg rem .cIsEmpty s w) (Spec.step cfg strict .cIsEmpty (abs s) (absW w)) :=
  ⟨rfl, rfl, rfl, h⟩

theorem cInsert_refines (cfg : Config) (strict : Bool) (rem : Nat) (k : κ) (v : ν) (s : Sess κ ν) (w : World κ ν) (h : Inv s w) :
    Sim (step cfg rem (.cInsert k v) s w) (Spec.step cfg strict (.cInsert k v) (abs s) (absW w)) := by
  obtain ⟨id, server, client, inval⟩ := s
  cases inval
  · refine ⟨?_, ?_, ?_, ?_⟩ <;> simp [step, Spec.step, clientInsert, abs, Cli.isUpdated, Cli.state]
    exact h.setClient _
  · refine ⟨?_, ?_, ?_, ?_⟩ <;> simp [step, Spec.step, clientInsert, abs]
    exact h

theorem cRemove_refines (cfg : Config) (strict : Bool) (rem : Nat) (k : κ) (s : Sess κ ν) (w : World κ ν) (h : Inv s w) :
    Sim (step cfg rem (.cRemove k) s w) (Spec.step cfg strict (.cRemove k) (abs s) (absW w)) := by
  obtain ⟨id, server, client, inval⟩ := s
  cases inval
  · cases client with
    | updated st =>
      cases hl : Map.lookup st k with
      | none =>
        refine ⟨?_, ?_, ?_, ?_⟩ <;>
          simp [step, Spec.step, clientRemove, abs, hl, Cli.isUpdated, Cli.state, Map.erase_of_lookup_none]
        exact h
      | some v =>
        refine ⟨?_, ?_, ?_, ?_⟩ <;> simp [step, Spec.step, clientRemove, abs, hl, Cli.isUpdated, Cli.state]
        exact h.setClient _
    | unchanged st =>
      cases hl : Map.lookup st k with
      | none =>
        refine ⟨?_, ?_, ?_, ?_⟩ <;> simp [step, Spec.step, clientRemove, abs, hl, Cli.isUpdated, Cli.state]
        exact h
      | some v =>
        refine ⟨?_, ?_, ?_, ?_⟩ <;> simp [step, Spec.step, clientRemove, abs, hl, Cli.isUpdated, Cli.state]
        exact h.setClient _
  · refine ⟨?_, ?_, ?_, ?_⟩ <;> simp [step, Spec.step, clientRemove, abs]
    exact h

theorem cClear_refines (cfg : Config) (strict : Bool) (rem : Nat) (s : Sess κ ν) (w : World κ ν) (h : Inv s w) :
    Sim (step cfg rem .cClear s w) (Spec.step cfg strict .cClear (abs s) (absW w)) := by
  obtain ⟨id, server, client, inval⟩ := s
  cases inval
  · cases client with
    | updated st =>
      by_cases he : st.isEmpty = true
      · have := Map.isEmpty_eq_nil st he
        subst this
        refine ⟨?_, ?_, ?_, ?_⟩ <;> simp [step, Spec.step, clientClear, abs, Cli.isUpdated, Cli.state]
        exact h
      · refine ⟨?_, ?_, ?_, ?_⟩ <;> simp [step, Spec.step, clientClear, abs, Cli.isUpdated, Cli.state, he]
        exact h.setClient _
    | unchanged st =>
      by_cases he : st.isEmpty = true
      · refine ⟨?_, ?_, ?_, ?_⟩ <;> simp [step, Spec.step, clientClear, abs, Cli.isUpdated, Cli.state, he]
        exact h
      · refine ⟨?_, ?_, ?_, ?_⟩ <;> simp [step, Spec.step, clientClear, abs, Cli.isUpdated, Cli.state, he]
        exact h.setClient _
  · refine ⟨?_, ?_, ?_, ?_⟩ <;> simp [step, Spec.step, clientClear, abs]
    exact h


/-! ### `sync` is `flush` -/

/-- `sync` against `flush` (strict): either both succeed in related states, or both refuse — the
    model with exactly the error of finding F7, leaving session and records untouched. -/
def SyncSim (cfg : Config) (s : Sess κ ν) (w : World κ ν) : Prop :=
  match sync cfg s w, flush cfg true (abs s) (absW w) with
  | (.ok, s', w'), some (S', W') => abs s' = S' ∧ absW w' = W' ∧ Inv s' w'
  | (.err e, s', w'), none => e = f7 ∧ s' = s ∧ absW w' = absW w ∧ Inv s w'
  | _, _ => False

theorem absW_recs (w : World κ ν) (i : Nat) : (absW w).recs i = (Map.lookup w.store i).map (·.state) := rfl

theorem lookup_absW {w : World κ ν} {i : Nat} {r : Rec κ ν} (h : Map.lookup w.store i = some r) :
    (absW w).recs i = some r.state := by simp [absW, h]

theorem lookup_absW_none {w : World κ ν} {i : Nat} (h : Map.lookup w.store i = none) :
    (absW w).recs i = none := by simp [absW, h]

theorem sync_refines_none (cfg : Config) (id : CurId) (client : Cli κ ν) (inval : Bool) (w : World κ ν)
    (h : Inv ⟨id, none, client, inval⟩ w) : SyncSim cfg ⟨id, none, client, inval⟩ w := by
  obtain ⟨a, b, c, d, e, f, g, i⟩ := h
  cases id with
  | existing o =>
    simp [SyncSim, sync, syncStore, flush, abs, viewSrv, syncServer, syncId, CurId.newId]
    constructor <;> simp_all
  | newlyGenerated n => simp at e
  | toBeRenamed o n =>
    have hn := (d o n rfl).1
    have hne := (d o n rfl).2
    cases hl : Map.lookup w.store o with
    | none =>
      simp [SyncSim, sync, syncStore, flush, abs, viewSrv, stChangeId, hn, hl, failed, lookup_absW_none hl, f7]
      constructor <;> simp_all
    | some r =>
      simp [SyncSim, sync, syncStore, flush, abs, viewSrv, stChangeId, hn, hl, failed, lookup_absW hl,
        syncServer, syncId, CurId.newId]
      constructor <;> simp_all [Map.lookup_insert, Map.lookup_erase, CurId.newId, CurId.oldId]
      grind


theorem sync_refines_dne (cfg : Config) (id : CurId) (client : Cli κ ν) (inval : Bool) (w : World κ ν)
    (h : Inv ⟨id, some .doesNotExist, client, inval⟩ w) : SyncSim cfg ⟨id, some .doesNotExist, client, inval⟩ w := by
  obtain ⟨a, b, c, d, e, f, g, i⟩ := h
  have hfree : Map.lookup w.store id.newId = none := by
    cases id with
    | existing o => exact g rfl o rfl
    | toBeRenamed o n => exact (d o n rfl).1
    | newlyGenerated n => exact (e n rfl).1
  cases hcr : cfg.creation <;> cases hu : client.isUpdated <;> cases id <;>
    simp only [CurId.newId, CurId.oldId] at hfree <;>
    simp [SyncSim, sync, syncStore, flush, abs, viewSrv, createIfEmpty, hcr, hu, stCreate, hfree, failed, syncServer, syncId,
      CurId.newId, CurId.oldId, normId] <;>
    constructor <;> simp_all [Map.lookup_insert, CurId.newId, CurId.oldId] <;> grind


theorem sync_refines_mfd (cfg : Config) (id : CurId) (client : Cli κ ν) (inval : Bool) (w : World κ ν)
    (h : Inv ⟨id, some .markedForDeletion, client, inval⟩ w) : SyncSim cfg ⟨id, some .markedForDeletion, client, inval⟩ w := by
  obtain ⟨a, b, c, d, e, f, g, i⟩ := h
  cases id with
  | newlyGenerated n =>
    cases inval <;>
      simp [SyncSim, sync, syncStore, flush, abs, viewSrv, syncServer, syncId, CurId.newId, CurId.oldId, normId, SWorld.unset] <;>
      constructor <;> simp_all [CurId.newId, CurId.oldId]
  | existing o =>
    cases hl : Map.lookup w.store o <;> cases inval <;>
      simp [SyncSim, sync, syncStore, flush, abs, viewSrv, syncServer, syncId, CurId.newId, CurId.oldId, normId, SWorld.unset,
        stDelete, hl, set_same, absW_recs] <;>
      constructor <;> simp_all [Map.lookup_erase, CurId.newId, CurId.oldId] <;> grind
  | toBeRenamed o n =>
    have hn := (d o n rfl).1
    have hne := (d o n rfl).2
    cases hl : Map.lookup w.store o <;> cases inval <;>
      simp [SyncSim, sync, syncStore, flush, abs, viewSrv, syncServer, syncId, CurId.newId, CurId.oldId, normId, SWorld.unset,
        stDelete, hl, set_same, absW_recs] <;>
      constructor <;> simp_all [Map.lookup_erase, CurId.newId, CurId.oldId] <;> grind


theorem sync_refines_changed (cfg : Config) (id : CurId) (st : Map κ ν) (client : Cli κ ν) (inval : Bool) (w : World κ ν)
    (h : Inv ⟨id, some (.changed st), client, inval⟩ w) : SyncSim cfg ⟨id, some (.changed st), client, inval⟩ w := by
  obtain ⟨a, b, c, d, e, f, g, i⟩ := h
  cases id with
  | newlyGenerated n =>
    have hn := (e n rfl).1
    simp [SyncSim, sync, syncStore, flush, abs, viewSrv, syncServer, syncId, CurId.newId, CurId.oldId, SWorld.unset,
      stCreate, hn, failed]
    constructor <;> simp_all [Map.lookup_insert, CurId.newId, CurId.oldId] <;> grind
  | existing o =>
    cases hl : Map.lookup w.store o <;>
      simp [SyncSim, sync, syncStore, flush, abs, viewSrv, syncServer, syncId, CurId.newId, CurId.oldId, SWorld.unset,
        stUpdate, stCreate, hl, failed, set_set] <;>
      constructor <;> simp_all [Map.lookup_insert, CurId.newId, CurId.oldId] <;> grind
  | toBeRenamed o n =>
    have hn := (d o n rfl).1
    have hne := (d o n rfl).2
    have hn' : Map.lookup (Map.erase w.store o) n = none := by simp [Map.lookup_erase, hn]
    cases hl : Map.lookup w.store o <;>
      simp [SyncSim, sync, syncStore, flush, abs, viewSrv, syncServer, syncId, CurId.newId, CurId.oldId, SWorld.unset,
        stDelete, stCreate, hl, hn, hn', failed, set_same, absW_recs] <;>
      constructor <;> simp_all [Map.lookup_insert, Map.lookup_erase, CurId.newId, CurId.oldId] <;> grind


theorem sync_refines_unchanged (cfg : Config) (id : CurId) (st : Map κ ν) (t : Nat) (client : Cli κ ν) (inval : Bool) (w : World κ ν)
    (h : Inv ⟨id, some (.unchanged st t), client, inval⟩ w) : SyncSim cfg ⟨id, some (.unchanged st t), client, inval⟩ w := by
  obtain ⟨a, b, c, d, e, f, g, i⟩ := h
  obtain ⟨o', r, ho, hl, hr⟩ := f st t rfl
  cases id with
  | newlyGenerated n => simp [CurId.oldId] at ho
  | existing o =>
    simp [CurId.oldId] at ho
    subst ho hr
    by_cases hx : cfg.extend = .onLoadsAndChanges ∧ needExtend cfg t = true
    · simp [SyncSim, sync, syncStore, flush, abs, viewSrv, syncServer, syncId, CurId.newId, CurId.oldId, SWorld.unset,
        stUpdateTtl, hl, hx, failed, set_set, set_same, absW_recs]
      constructor <;> simp_all [Map.lookup_insert, CurId.newId, CurId.oldId] <;> grind
    · simp [SyncSim, sync, syncStore, flush, abs, viewSrv, syncServer, syncId, CurId.newId, CurId.oldId, SWorld.unset,
        hl, hx, set_set, set_same, absW_recs]
      constructor <;> simp_all [CurId.newId, CurId.oldId]
  | toBeRenamed o n =>
    simp [CurId.oldId] at ho
    subst ho hr
    have hn := (d o n rfl).1
    have hne := (d o n rfl).2
    simp [SyncSim, sync, syncStore, flush, abs, viewSrv, syncServer, syncId, CurId.newId, CurId.oldId, SWorld.unset,
      stChangeId, hl, hn, failed]
    constructor <;> simp_all [Map.lookup_insert, Map.lookup_erase, CurId.newId, CurId.oldId] <;> grind

theorem sync_refines (cfg : Config) (s : Sess κ ν) (w : World κ ν) (h : Inv s w) : SyncSim cfg s w := by
  obtain ⟨id, server, client, inval⟩ := s
  cases server with
  | none => exact sync_refines_none cfg id client inval w h
  | some sv =>
    cases sv with
    | unchanged st t => exact sync_refines_unchanged cfg id st t client inval w h
    | doesNotExist => exact sync_refines_dne cfg id client inval w h
    | markedForDeletion => exact sync_refines_mfd cfg id client inval w h
    | changed st => exact sync_refines_changed cfg id st client inval w h

end Pxv.Session
