import Pxv.Model.SessionSpec
import Pxv.Lemmas.Session
/-! The abstraction from the `Session` model to the pair-of-maps specification, the coherence
invariant between a session and the store, and the simulation lemmas (one per operation). -/
set_option linter.unusedSectionVars false
set_option linter.unusedSimpArgs false
namespace Pxv.Session
open Spec

variable {κ ν : Type} [DecidableEq κ]

/-- What the application sees of the server state cell. -/
def viewSrv : Option (Srv κ ν) → SSrv κ ν
  | none => .unseen
  | some (.unchanged st _) => .present st
  | some (.changed st) => .present st
  | some .doesNotExist => .absent
  | some .markedForDeletion => .deleted

/-- Forget the dirty markers and the TTL. -/
def abs (s : Sess κ ν) : SSess κ ν :=
  { id := s.id, cli := s.client.state, cliDirty := s.client.isUpdated, srv := viewSrv s.server, inv := s.invalidated }

/-- Forget TTLs and the operation log: which map is stored under which id. -/
def absW (w : World κ ν) : SWorld κ ν :=
  { recs := fun i => (Map.lookup w.store i).map (·.state), nextId := w.nextId }

/-- Coherence between the session of the current request and the store. -/
structure Inv (s : Sess κ ν) (w : World κ ν) : Prop where
  storeLt : ∀ i, Map.lookup w.store i ≠ none → i < w.nextId
  newLt : s.id.newId < w.nextId
  oldLt : ∀ o, s.id.oldId = some o → o < w.nextId
  renamedFresh : ∀ o n, s.id = .toBeRenamed o n → Map.lookup w.store n = none ∧ o ≠ n
  newFresh : ∀ n, s.id = .newlyGenerated n → Map.lookup w.store n = none ∧ s.server ≠ none
  unchangedOk : ∀ st t, s.server = some (.unchanged st t) →
    ∃ o r, s.id.oldId = some o ∧ Map.lookup w.store o = some r ∧ r.state = st
  dneOk : s.server = some .doesNotExist → ∀ o, s.id.oldId = some o → Map.lookup w.store o = none
  invOk : s.invalidated = true → s.server = some .markedForDeletion

/-! ### maps -/

theorem Map.erase_of_lookup_none (m : Map κ ν) (k : κ) (h : Map.lookup m k = none) : Map.erase m k = m := by
  induction m with
  | nil => rfl
  | cons p t ih =>
    obtain ⟨k', v⟩ := p
    by_cases hk : k' = k
    · simp [Map.lookup, hk] at h
    · simp [Map.lookup, hk] at h
      simp [Map.erase, hk, ih h]

theorem Map.isEmpty_eq_nil (m : Map κ ν) (h : m.isEmpty = true) : m = [] := by
  cases m <;> simp_all

/-! ### the store operations on the abstract world -/

@[simp] theorem logged_store (w : World κ ν) (e : LogE κ ν) : (w.logged e).store = w.store := rfl
@[simp] theorem logged_nextId (w : World κ ν) (e : LogE κ ν) : (w.logged e).nextId = w.nextId := rfl

@[simp] theorem absW_logged (w : World κ ν) (e : LogE κ ν) : absW (w.logged e) = absW w := rfl

theorem absW_insert (w : World κ ν) (id : Nat) (r : Rec κ ν) :
    absW { w with store := Map.insert w.store id r } = (absW w).set id (some r.state) := by
  simp only [absW, SWorld.set]
  congr 1
  funext i
  simp only [Map.lookup_insert]
  split <;> simp

theorem absW_erase (w : World κ ν) (id : Nat) :
    absW { w with store := Map.erase w.store id } = (absW w).set id none := by
  simp only [absW, SWorld.set]
  congr 1
  funext i
  simp only [Map.lookup_erase]
  split <;> simp

@[simp] theorem absW_mk_insert (st : Map Nat (Rec κ ν)) (n : Nat) (log : List (LogE κ ν)) (id : Nat) (r : Rec κ ν) :
    absW ⟨Map.insert st id r, n, log⟩ = (absW ⟨st, n, log⟩).set id (some r.state) :=
  absW_insert ⟨st, n, log⟩ id r

@[simp] theorem absW_mk_erase (st : Map Nat (Rec κ ν)) (n : Nat) (log : List (LogE κ ν)) (id : Nat) :
    absW ⟨Map.erase st id, n, log⟩ = (absW ⟨st, n, log⟩).set id none :=
  absW_erase ⟨st, n, log⟩ id

@[simp] theorem absW_mk_eta (w : World κ ν) (log : List (LogE κ ν)) : absW ⟨w.store, w.nextId, log⟩ = absW w := rfl

theorem set_same (W : SWorld κ ν) (id : Nat) (v : Option (Map κ ν)) (h : W.recs id = v) : W.set id v = W := by
  cases W with
  | mk recs n =>
    simp only [SWorld.set]
    congr 1
    funext i
    split
    · subst_vars; rfl
    · rfl

theorem set_set (W : SWorld κ ν) (id : Nat) (u v : Option (Map κ ν)) : (W.set id u).set id v = W.set id v := by
  simp only [SWorld.set]
  congr 1
  funext i
  split <;> rfl


/-! ### `force_load` is `look` -/

theorem forceLoad_refines (cfg : Config) (rem : Nat) (s : Sess κ ν) (w : World κ ν) (h : Inv s w) :
    abs (forceLoad cfg rem s w).1 = look cfg (abs s) (absW w) ∧
    absW (forceLoad cfg rem s w).2 = absW w ∧
    Inv (forceLoad cfg rem s w).1 (forceLoad cfg rem s w).2 ∧
    (forceLoad cfg rem s w).1.server ≠ none := by
  obtain ⟨id, server, client, invalidated⟩ := s
  obtain ⟨h1, h2, h3, h4, h5, h6, h7, h8⟩ := h
  cases server with
  | some sv =>
    have e : forceLoad cfg rem ⟨id, some sv, client, invalidated⟩ w = (⟨id, some sv, client, invalidated⟩, w) := by
      unfold forceLoad; cases id <;> rfl
    rw [e]
    refine ⟨?_, rfl, ⟨h1, h2, h3, h4, h5, h6, h7, h8⟩, by simp⟩
    cases sv <;> rfl
  | none =>
    cases id with
    | newlyGenerated n => exact absurd rfl (h5 n rfl).2
    | existing o =>
      cases hl : Map.lookup w.store o <;> cases hm : cfg.missing <;>
        simp [forceLoad, CurId.oldId, stLoad, hl, hm, abs, look, viewSrv, absW] <;>
        constructor <;> simp_all [CurId.oldId, CurId.newId, World.logged] <;>
        (try (constructor <;> simp_all [CurId.oldId, CurId.newId]))
    | toBeRenamed o n =>
      cases hl : Map.lookup w.store o <;> cases hm : cfg.missing <;>
        simp [forceLoad, CurId.oldId, stLoad, hl, hm, abs, look, viewSrv, absW] <;>
        constructor <;> simp_all [CurId.oldId, CurId.newId, World.logged] <;>
        (try (constructor <;> simp_all [CurId.oldId, CurId.newId]))


/-! ### one operation of the model against one operation of the specification -/

/-- Same result, related post-states, invariant kept. -/
def Sim (m : Res ν × Sess κ ν × World κ ν) (sp : Res ν × SSess κ ν × SWorld κ ν) : Prop :=
  m.1 = sp.1 ∧ abs m.2.1 = sp.2.1 ∧ absW m.2.2 = sp.2.2 ∧ Inv m.2.1 m.2.2

theorem Inv.setChanged {s : Sess κ ν} {w : World κ ν} (h : Inv s w) (st : Map κ ν)
    (h1 : s.server ≠ some .markedForDeletion) (h2 : s.server ≠ none) :
    Inv { s with server := some (.changed st) } w := by
  obtain ⟨a, b, c, d, e, f, g, i⟩ := h
  constructor <;> simp_all

theorem getRaw_refines (cfg : Config) (strict : Bool) (rem : Nat) (k : κ) (s : Sess κ ν) (w : World κ ν) (h : Inv s w) :
    Sim (getRaw cfg rem k s w) (Spec.step cfg strict (.get k) (abs s) (absW w)) := by
  obtain ⟨ha, hw, hi, hn⟩ := forceLoad_refines cfg rem s w h
  unfold getRaw Spec.step Sim
  rw [← ha, ← hw]
  clear ha hw h
  generalize forceLoad cfg rem s w = p at *
  obtain ⟨⟨id, server, client, inval⟩, w1⟩ := p
  cases server with
  | none => simp at hn
  | some sv => cases sv <;> simp_all [abs, viewSrv]

theorem isEmpty_refines (cfg : Config) (strict : Bool) (rem : Nat) (s : Sess κ ν) (w : World κ ν) (h : Inv s w) :
    Sim (isEmpty cfg rem s w) (Spec.step cfg strict .isEmpty (abs s) (absW w)) := by
  obtain ⟨ha, hw, hi, hn⟩ := forceLoad_refines cfg rem s w h
  unfold isEmpty Spec.step Sim
  rw [← ha, ← hw]
  clear ha hw h
  generalize forceLoad cfg rem s w = p at *
  obtain ⟨⟨id, server, client, inval⟩, w1⟩ := p
  cases server with
  | none => simp at hn
  | some sv => cases sv <;> simp_all [abs, viewSrv]

theorem insertRaw_refines (cfg : Config) (strict : Bool) (rem : Nat) (k : κ) (v : ν) (s : Sess κ ν) (w : World κ ν) (h : Inv s w) :
    Sim (insertRaw cfg rem k v s w) (Spec.step cfg strict (.insert k v) (abs s) (absW w)) := by
  obtain ⟨ha, hw, hi, hn⟩ := forceLoad_refines cfg rem s w h
  unfold insertRaw Spec.step Sim
  rw [← ha, ← hw]
  clear ha hw h
  generalize forceLoad cfg rem s w = p at *
  obtain ⟨⟨id, server, client, inval⟩, w1⟩ := p
  cases server with
  | none => simp at hn
  | some sv =>
    cases sv <;> simp_all [abs, viewSrv] <;>
      exact Inv.setChanged hi _ (by simp) (by simp)

theorem removeRaw_refines (cfg : Config) (strict : Bool) (rem : Nat) (k : κ) (s : Sess κ ν) (w : World κ ν) (h : Inv s w) :
    Sim (removeRaw cfg rem k s w) (Spec.step cfg strict (.remove k) (abs s) (absW w)) := by
  obtain ⟨ha, hw, hi, hn⟩ := forceLoad_refines cfg rem s w h
  unfold removeRaw Spec.step Sim
  rw [← ha, ← hw]
  clear ha hw h
  generalize forceLoad cfg rem s w = p at *
  obtain ⟨⟨id, server, client, inval⟩, w1⟩ := p
  cases server with
  | none => simp at hn
  | some sv =>
    cases sv with
    | unchanged st t =>
      cases hl : Map.lookup st k with
      | none => simp_all [abs, viewSrv, Map.erase_of_lookup_none]
      | some v =>
        simp_all [abs, viewSrv]
        exact Inv.setChanged hi _ (by simp) (by simp)
    | changed st =>
      simp_all [abs, viewSrv]
      exact Inv.setChanged hi _ (by simp) (by simp)
    | doesNotExist => simp_all [abs, viewSrv]
    | markedForDeletion => simp_all [abs, viewSrv]

theorem clear_refines (cfg : Config) (strict : Bool) (rem : Nat) (s : Sess κ ν) (w : World κ ν) (h : Inv s w) :
    Sim (clear cfg rem s w) (Spec.step cfg strict .clear (abs s) (absW w)) := by
  obtain ⟨ha, hw, hi, hn⟩ := forceLoad_refines cfg rem s w h
  unfold clear Spec.step Sim
  rw [← ha, ← hw]
  clear ha hw h
  generalize forceLoad cfg rem s w = p at *
  obtain ⟨⟨id, server, client, inval⟩, w1⟩ := p
  cases server with
  | none => simp at hn
  | some sv =>
    cases sv with
    | unchanged st t =>
      by_cases he : st.isEmpty = true
      · have := Map.isEmpty_eq_nil st he
        subst this
        simp_all [abs, viewSrv]
      · simp_all [abs, viewSrv]
        exact Inv.setChanged hi _ (by simp) (by simp)
    | changed st =>
      simp_all [abs, viewSrv]
      exact Inv.setChanged hi _ (by simp) (by simp)
    | doesNotExist => simp_all [abs, viewSrv]
    | markedForDeletion => simp_all [abs, viewSrv]


theorem delete_refines (cfg : Config) (strict : Bool) (rem : Nat) (s : Sess κ ν) (w : World κ ν) (h : Inv s w) :
    Sim (step cfg rem .delete s w) (Spec.step cfg strict .delete (abs s) (absW w)) := by
  obtain ⟨a, b, c, d, e, f, g, i⟩ := h
  refine ⟨rfl, rfl, rfl, ?_⟩
  constructor <;> simp_all [step, delete]

theorem invalidate_refines (cfg : Config) (strict : Bool) (rem : Nat) (s : Sess κ ν) (w : World κ ν) (h : Inv s w) :
    Sim (step cfg rem .invalidate s w) (Spec.step cfg strict .invalidate (abs s) (absW w)) := by
  obtain ⟨a, b, c, d, e, f, g, i⟩ := h
  refine ⟨rfl, rfl, rfl, ?_⟩
  constructor <;> simp_all [step, invalidate]

theorem cycle_refines (cfg : Config) (strict : Bool) (rem : Nat) (s : Sess κ ν) (w : World κ ν) (h : Inv s w) :
    Sim (step cfg rem .cycle s w) (Spec.step cfg strict .cycle (abs s) (absW w)) := by
  obtain ⟨a, b, c, d, e, f, g, i⟩ := h
  have fresh : Map.lookup w.store w.nextId = none := by
    cases hl : Map.lookup w.store w.nextId with
    | none => rfl
    | some r => exact absurd (a w.nextId (by simp [hl])) (Nat.lt_irrefl _)
  obtain ⟨id, server, client, inval⟩ := s
  cases id with
  | existing o =>
    refine ⟨rfl, rfl, rfl, ?_⟩
    constructor <;> simp_all [step, cycleId, CurId.oldId, CurId.newId] <;> (try omega)
    · intro i hi; exact Nat.lt_succ_of_lt (a i hi)
  | toBeRenamed o n =>
    refine ⟨rfl, rfl, rfl, ?_⟩
    constructor <;> simp_all [step, cycleId, CurId.oldId, CurId.newId] <;> (try omega)
    · intro i hi; exact Nat.lt_succ_of_lt (a i hi)
  | newlyGenerated n =>
    refine ⟨rfl, rfl, rfl, ?_⟩
    constructor <;> simp_all [step, cycleId, CurId.oldId, CurId.newId] <;> (try omega)
    · intro i hi; exact Nat.lt_succ_of_lt (a i hi)

theorem isInvalidated_refines (cfg : Config) (strict : Bool) (rem : Nat) (s : Sess κ ν) (w : World κ ν) (h : Inv s w) :
    Sim (step cfg rem .isInvalidated s w) (Spec.step cfg strict .isInvalidated (abs s) (absW w)) :=
  ⟨rfl, rfl, rfl, h⟩

theorem forceLoadOp_refines (cfg : Config) (strict : Bool) (rem : Nat) (s : Sess κ ν) (w : World κ ν) (h : Inv s w) :
    Sim (step cfg rem .forceLoad s w) (Spec.step cfg strict .forceLoad (abs s) (absW w)) := by
  obtain ⟨ha, hw, hi, _⟩ := forceLoad_refines cfg rem s w h
  exact ⟨rfl, ha, hw, hi⟩

theorem Inv.setClient {s : Sess κ ν} {w : World κ ν} (h : Inv s w) (c : Cli κ ν) :
    Inv { s with client := c } w := by
  obtain ⟨a, b, c', d, e, f, g, i⟩ := h
  constructor <;> simp_all

theorem cGet_refines (cfg : Config) (strict : Bool) (rem : Nat) (k : κ) (s : Sess κ ν) (w : World κ ν) (h : Inv s w) :
    Sim (step cfg rem (.cGet k) s w) (Spec.step cfg strict (.cGet k) (abs s) (absW w)) :=
  ⟨rfl, rfl, rfl, h⟩

theorem cIsEmpty_refines (cfg : Config) (strict : Bool) (rem : Nat) (s : Sess κ ν) (w : World κ ν) (h : Inv s w) :
    Sim (step cfg rem .cIsEmpty s w) (Spec.step cfg strict .cIsEmpty (abs s) (absW w)) :=
  ⟨rfl, rfl, rfl, h⟩

theorem cInsert_refines (cfg : Config) (strict : Bool) (rem : Nat) (k : κ) (v : ν) (s : Sess κ ν) (w : World κ ν) (h : Inv s w) :
    Sim (step cfg rem (.cInsert k v) s w) (Spec.step cfg strict (.cInsert k v) (abs s) (absW w)) := by
  obtain ⟨id, server, client, inval⟩ := s
  cases inval
  · refine ⟨?_, ?_, ?_, ?_⟩ <;> simp [step, Spec.step, clientInsert, abs, Cli.isUpdated, Cli.state]
    exact h.setClient _
  · refine ⟨?_, ?_, ?_, ?_⟩ <;> simp [step, Spec.step, clientInsert, abs]
    exact h

theorem cRemove_refines (cfg : Config) (strict : Bool) (rem : Nat) (k : κ) (s : Sess κ ν) (w : World κ ν) (h : Inv s w) :
    Sim (step cfg rem (.cRemove k) s w) (Spec.step cfg strict (.cRemove k) (abs s) (absW w)) := by
  obtain ⟨id, server, client, inval⟩ := s
  cases inval
  · cases client with
    | updated st =>
      cases hl : Map.lookup st k with
      | none =>
        refine ⟨?_, ?_, ?_, ?_⟩ <;>
          simp [step, Spec.step, clientRemove, abs, hl, Cli.isUpdated, Cli.state, Map.erase_of_lookup_none]
        exact h
      | some v =>
        refine ⟨?_, ?_, ?_, ?_⟩ <;> simp [step, Spec.step, clientRemove, abs, hl, Cli.isUpdated, Cli.state]
        exact h.setClient _
    | unchanged st =>
      cases hl : Map.lookup st k with
      | none =>
        refine ⟨?_, ?_, ?_, ?_⟩ <;> simp [step, Spec.step, clientRemove, abs, hl, Cli.isUpdated, Cli.state]
        exact h
      | some v =>
        refine ⟨?_, ?_, ?_, ?_⟩ <;> simp [step, Spec.step, clientRemove, abs, hl, Cli.isUpdated, Cli.state]
        exact h.setClient _
  · refine ⟨?_, ?_, ?_, ?_⟩ <;> simp [step, Spec.step, clientRemove, abs]
    exact h

theorem cClear_refines (cfg : Config) (strict : Bool) (rem : Nat) (s : Sess κ ν) (w : World κ ν) (h : Inv s w) :
    Sim (step cfg rem .cClear s w) (Spec.step cfg strict .cClear (abs s) (absW w)) := by
  obtain ⟨id, server, client, inval⟩ := s
  cases inval
  · cases client with
    | updated st =>
      by_cases he : st.isEmpty = true
      · have := Map.isEmpty_eq_nil st he
        subst this
        refine ⟨?_, ?_, ?_, ?_⟩ <;> simp [step, Spec.step, clientClear, abs, Cli.isUpdated, Cli.state]
        exact h
      · refine ⟨?_, ?_, ?_, ?_⟩ <;> simp [step, Spec.step, clientClear, abs, Cli.isUpdated, Cli.state, he]
        exact h.setClient _
    | unchanged st =>
      by_cases he : st.isEmpty = true
      · refine ⟨?_, ?_, ?_, ?_⟩ <;> simp [step, Spec.step, clientClear, abs, Cli.isUpdated, Cli.state, he]
        exact h
      · refine ⟨?_, ?_, ?_, ?_⟩ <;> simp [step, Spec.step, clientClear, abs, Cli.isUpdated, Cli.state, he]
        exact h.setClient _
  · refine ⟨?_, ?_, ?_, ?_⟩ <;> simp [step, Spec.step, clientClear, abs]
    exact h


/-! ### `sync` is `flush` -/

/-- `sync` against `flush` (strict): either both succeed in related states, or both refuse — the
    model with exactly the error of finding F7, leaving session and records untouched. -/
def SyncSim (cfg : Config) (s : Sess κ ν) (w : World κ ν) : Prop :=
  match sync cfg s w, flush cfg true (abs s) (absW w) with
  | (.ok, s', w'), some (S', W') => abs s' = S' ∧ absW w' = W' ∧ Inv s' w'
  | (.err e, s', w'), none => e = f7 ∧ s' = s ∧ absW w' = absW w ∧ Inv s w'
  | _, _ => False

theorem absW_recs (w : World κ ν) (i : Nat) : (absW w).recs i = (Map.lookup w.store i).map (·.state) := rfl

theorem lookup_absW {w : World κ ν} {i : Nat} {r : Rec κ ν} (h : Map.lookup w.store i = some r) :
    (absW w).recs i = some r.state := by simp [absW, h]

theorem lookup_absW_none {w : World κ ν} {i : Nat} (h : Map.lookup w.store i = none) :
    (absW w).recs i = none := by simp [absW, h]

theorem sync_refines_none (cfg : Config) (id : CurId) (client : Cli κ ν) (inval : Bool) (w : World κ ν)
    (h : Inv ⟨id, none, client, inval⟩ w) : SyncSim cfg ⟨id, none, client, inval⟩ w := by
  obtain ⟨a, b, c, d, e, f, g, i⟩ := h
  cases id with
  | existing o =>
    simp [SyncSim, sync, syncStore, flush, abs, viewSrv, syncServer, syncId, CurId.newId]
    constructor <;> simp_all
  | newlyGenerated n => simp at e
  | toBeRenamed o n =>
    have hn := (d o n rfl).1
    have hne := (d o n rfl).2
    cases hl : Map.lookup w.store o with
    | none =>
      simp [SyncSim, sync, syncStore, flush, abs, viewSrv, stChangeId, hn, hl, failed, lookup_absW_none hl, f7]
      constructor <;> simp_all
    | some r =>
      simp [SyncSim, sync, syncStore, flush, abs, viewSrv, stChangeId, hn, hl, failed, lookup_absW hl,
        syncServer, syncId, CurId.newId]
      constructor <;> simp_all [Map.lookup_insert, Map.lookup_erase, CurId.newId, CurId.oldId]
      grind


theorem sync_refines_dne (cfg : Config) (id : CurId) (client : Cli κ ν) (inval : Bool) (w : World κ ν)
    (h : Inv ⟨id, some .doesNotExist, client, inval⟩ w) : SyncSim cfg ⟨id, some .doesNotExist, client, inval⟩ w := by
  obtain ⟨a, b, c, d, e, f, g, i⟩ := h
  have hfree : Map.lookup w.store id.newId = none := by
    cases id with
    | existing o => exact g rfl o rfl
    | toBeRenamed o n => exact (d o n rfl).1
    | newlyGenerated n => exact (e n rfl).1
  cases hcr : cfg.creation <;> cases hu : client.isUpdated <;> cases id <;>
    simp only [CurId.newId, CurId.oldId] at hfree <;>
    simp [SyncSim, sync, syncStore, flush, abs, viewSrv, createIfEmpty, hcr, hu, stCreate, hfree, failed, syncServer, syncId,
      CurId.newId, CurId.oldId, normId] <;>
    constructor <;> simp_all [Map.lookup_insert, CurId.newId, CurId.oldId] <;> grind


theorem sync_refines_mfd (cfg : Config) (id : CurId) (client : Cli κ ν) (inval : Bool) (w : World κ ν)
    (h : Inv ⟨id, some .markedForDeletion, client, inval⟩ w) : SyncSim cfg ⟨id, some .markedForDeletion, client, inval⟩ w := by
  obtain ⟨a, b, c, d, e, f, g, i⟩ := h
  cases id with
  | newlyGenerated n =>
    cases inval <;>
      simp [SyncSim, sync, syncStore, flush, abs, viewSrv, syncServer, syncId, CurId.newId, CurId.oldId, normId, SWorld.unset] <;>
      constructor <;> simp_all [CurId.newId, CurId.oldId]
  | existing o =>
    cases hl : Map.lookup w.store o <;> cases inval <;>
      simp [SyncSim, sync, syncStore, flush, abs, viewSrv, syncServer, syncId, CurId.newId, CurId.oldId, normId, SWorld.unset,
        stDelete, hl, set_same, absW_recs] <;>
      constructor <;> simp_all [Map.lookup_erase, CurId.newId, CurId.oldId] <;> grind
  | toBeRenamed o n =>
    have hn := (d o n rfl).1
    have hne := (d o n rfl).2
    cases hl : Map.lookup w.store o <;> cases inval <;>
      simp [SyncSim, sync, syncStore, flush, abs, viewSrv, syncServer, syncId, CurId.newId, CurId.oldId, normId, SWorld.unset,
        stDelete, hl, set_same, absW_recs] <;>
      constructor <;> simp_all [Map.lookup_erase, CurId.newId, CurId.oldId] <;> grind


theorem sync_refines_changed (cfg : Config) (id : CurId) (st : Map κ ν) (client : Cli κ ν) (inval : Bool) (w : World κ ν)
    (h : Inv ⟨id, some (.changed st), client, inval⟩ w) : SyncSim cfg ⟨id, some (.changed st), client, inval⟩ w := by
  obtain ⟨a, b, c, d, e, f, g, i⟩ := h
  cases id with
  | newlyGenerated n =>
    have hn := (e n rfl).1
    simp [SyncSim, sync, syncStore, flush, abs, viewSrv, syncServer, syncId, CurId.newId, CurId.oldId, SWorld.unset,
      stCreate, hn, failed]
    constructor <;> simp_all [Map.lookup_insert, CurId.newId, CurId.oldId] <;> grind
  | existing o =>
    cases hl : Map.lookup w.store o <;>
      simp [SyncSim, sync, syncStore, flush, abs, viewSrv, syncServer, syncId, CurId.newId, CurId.oldId, SWorld.unset,
        stUpdate, stCreate, hl, failed, set_set] <;>
      constructor <;> simp_all [Map.lookup_insert, CurId.newId, CurId.oldId] <;> grind
  | toBeRenamed o n =>
    have hn := (d o n rfl).1
    have hne := (d o n rfl).2
    have hn' : Map.lookup (Map.erase w.store o) n = none := by simp [Map.lookup_erase, hn]
    cases hl : Map.lookup w.store o <;>
      simp [SyncSim, sync, syncStore, flush, abs, viewSrv, syncServer, syncId, CurId.newId, CurId.oldId, SWorld.unset,
        stDelete, stCreate, hl, hn, hn', failed, set_same, absW_recs] <;>
      constructor <;> simp_all [Map.lookup_insert, Map.lookup_erase, CurId.newId, CurId.oldId] <;> grind


theorem sync_refines_unchanged (cfg : Config) (id : CurId) (st : Map κ ν) (t : Nat) (client : Cli κ ν) (inval : Bool) (w : World κ ν)
    (h : Inv ⟨id, some (.unchanged st t), client, inval⟩ w) : SyncSim cfg ⟨id, some (.unchanged st t), client, inval⟩ w := by
  obtain ⟨a, b, c, d, e, f, g, i⟩ := h
  obtain ⟨o', r, ho, hl, hr⟩ := f st t rfl
  cases id with
  | newlyGenerated n => simp [CurId.oldId] at ho
  | existing o =>
    simp [CurId.oldId] at ho
    subst ho hr
    by_cases hx : cfg.extend = .onLoadsAndChanges ∧ needExtend cfg t = true
    · simp [SyncSim, sync, syncStore, flush, abs, viewSrv, syncServer, syncId, CurId.newId, CurId.oldId, SWorld.unset,
        stUpdateTtl, hl, hx, failed, set_set, set_same, absW_recs]
      constructor <;> simp_all [Map.lookup_insert, CurId.newId, CurId.oldId] <;> grind
    · simp [SyncSim, sync, syncStore, flush, abs, viewSrv, syncServer, syncId, CurId.newId, CurId.oldId, SWorld.unset,
        hl, hx, set_set, set_same, absW_recs]
      constructor <;> simp_all [CurId.newId, CurId.oldId]
  | toBeRenamed o n =>
    simp [CurId.oldId] at ho
    subst ho hr
    have hn := (d o n rfl).1
    have hne := (d o n rfl).2
    simp [SyncSim, sync, syncStore, flush, abs, viewSrv, syncServer, syncId, CurId.newId, CurId.oldId, SWorld.unset,
      stChangeId, hl, hn, failed]
    constructor <;> simp_all [Map.lookup_insert, Map.lookup_erase, CurId.newId, CurId.oldId] <;> grind

theorem sync_refines (cfg : Config) (s : Sess κ ν) (w : World κ ν) (h : Inv s w) : SyncSim cfg s w := by
  obtain ⟨id, server, client, inval⟩ := s
  cases server with
  | none => exact sync_refines_none cfg id client inval w h
  | some sv =>
    cases sv with
    | unchanged st t => exact sync_refines_unchanged cfg id st t client inval w h
    | doesNotExist => exact sync_refines_dne cfg id client inval w h
    | markedForDeletion => exact sync_refines_mfd cfg id client inval w h
    | changed st => exact sync_refines_changed cfg id st client inval w h


theorem syncOp_refines (cfg : Config) (rem : Nat) (s : Sess κ ν) (w : World κ ν) (h : Inv s w) :
    Sim (step cfg rem .sync s w) (Spec.step cfg true .sync (abs s) (absW w)) := by
  have hs := sync_refines cfg s w h
  unfold SyncSim at hs
  unfold step Spec.step Sim
  generalize sync cfg s w = m at *
  generalize flush cfg true (abs s) (absW w) = f at *
  obtain ⟨o, s', w'⟩ := m
  cases o with
  | ok =>
    cases f with
    | none => simp at hs
    | some p => obtain ⟨S', W'⟩ := p; simpa using hs
  | err e =>
    cases f with
    | none =>
      obtain ⟨h1, h2, h3, h4⟩ := hs
      subst h1 h2
      exact ⟨rfl, rfl, h3, h4⟩
    | some p => simp at hs
  | panic => cases f <;> simp at hs

/-- Every public operation of the model is the corresponding operation on the pair of maps. -/
theorem step_refines (cfg : Config) (rem : Nat) (op : Op κ ν) (s : Sess κ ν) (w : World κ ν) (h : Inv s w) :
    Sim (step cfg rem op s w) (Spec.step cfg true op (abs s) (absW w)) := by
  cases op with
  | get k => exact getRaw_refines cfg true rem k s w h
  | insert k v => exact insertRaw_refines cfg true rem k v s w h
  | remove k => exact removeRaw_refines cfg true rem k s w h
  | isEmpty => exact isEmpty_refines cfg true rem s w h
  | clear => exact clear_refines cfg true rem s w h
  | delete => exact delete_refines cfg true rem s w h
  | cycle => exact cycle_refines cfg true rem s w h
  | invalidate => exact invalidate_refines cfg true rem s w h
  | isInvalidated => exact isInvalidated_refines cfg true rem s w h
  | sync => exact syncOp_refines cfg rem s w h
  | forceLoad => exact forceLoadOp_refines cfg true rem s w h
  | cGet k => exact cGet_refines cfg true rem k s w h
  | cIsEmpty => exact cIsEmpty_refines cfg true rem s w h
  | cInsert k v => exact cInsert_refines cfg true rem k v s w h
  | cRemove k => exact cRemove_refines cfg true rem k s w h
  | cClear => exact cClear_refines cfg true rem s w h


/-! ### whole requests -/

theorem Spec.step_not_panic (cfg : Config) (strict : Bool) (op : Op κ ν) (S : SSess κ ν) (W : SWorld κ ν) :
    (Spec.step cfg strict op S W).1.isPanic = false := by
  cases op <;> simp only [Spec.step] <;> (repeat' split) <;> rfl

/-- All results equal, no panic, related post-states, invariant kept. -/
def OpsSim (m : List (Res ν) × Option (Sess κ ν) × World κ ν) (sp : List (Res ν) × SSess κ ν × SWorld κ ν) : Prop :=
  m.1 = sp.1 ∧ ∃ s', m.2.1 = some s' ∧ abs s' = sp.2.1 ∧ absW m.2.2 = sp.2.2 ∧ Inv s' m.2.2

theorem runOps_refines (cfg : Config) (rem : Nat) (ops : List (Op κ ν)) (s : Sess κ ν) (w : World κ ν) (h : Inv s w) :
    OpsSim (runOps cfg rem ops s w) (Spec.runOps cfg true ops (abs s) (absW w)) := by
  induction ops generalizing s w with
  | nil => exact ⟨rfl, s, rfl, rfl, rfl, h⟩
  | cons op ops ih =>
    obtain ⟨h1, h2, h3, h4⟩ := step_refines cfg rem op s w h
    have hp := Spec.step_not_panic cfg true op (abs s) (absW w)
    rw [← h1] at hp
    simp only [runOps, Spec.runOps]
    generalize step cfg rem op s w = m at *
    obtain ⟨r, s1, w1⟩ := m
    obtain ⟨e1, s', e2, e3, e4, e5⟩ := ih s1 w1 h4
    simp only at h1 h2 h3 hp
    rw [← h2, ← h3, ← h1]
    cases r <;> first | (simp [Res.isPanic] at hp; done) | exact ⟨by simp [e1], s', by simp [e2], e3, e4, e5⟩


/-- Every id in the store was handed out by the counter. -/
def WInv (w : World κ ν) : Prop := ∀ i, Map.lookup w.store i ≠ none → i < w.nextId

def FinSim (m : Fin κ ν × Sess κ ν × World κ ν) (sp : Fin κ ν × SWorld κ ν) : Prop :=
  m.1 = sp.1 ∧ absW m.2.2 = sp.2 ∧ WInv m.2.2 ∧ ∀ id c, m.1 = .set id c → id < m.2.2.nextId

theorem syncServer_shape (cfg : Config) (s : Sess κ ν) :
    (∀ st, syncServer cfg s ≠ some (.changed st)) ∧
    (syncServer cfg s = some .markedForDeletion → s.invalidated = true) := by
  obtain ⟨id, server, client, inval⟩ := s
  cases server with
  | none => simp [syncServer]
  | some sv =>
    cases sv <;> simp [syncServer] <;> (try split) <;> simp_all

theorem sync_ok_fields (cfg : Config) (s s' : Sess κ ν) (w w' : World κ ν) (h : sync cfg s w = (.ok, s', w')) :
    s'.server = syncServer cfg s ∧ s'.invalidated = s.invalidated ∧ s'.client = s.client := by
  unfold sync at h
  split at h
  · simp at h; obtain ⟨h1, _⟩ := h; subst h1; exact ⟨rfl, rfl, rfl⟩
  · rename_i o w1 hne heq
    simp at h
    obtain ⟨h1, _, _⟩ := h
    subst h1
    exact absurd rfl hne

theorem finalize_refines (cfg : Config) (s : Sess κ ν) (w : World κ ν) (h : Inv s w) :
    FinSim (finalize cfg s w) (Spec.finalize cfg true (abs s) (absW w)) := by
  have hs := sync_refines cfg s w h
  unfold SyncSim at hs
  unfold finalize Spec.finalize FinSim
  generalize hm : sync cfg s w = m at *
  generalize flush cfg true (abs s) (absW w) = f at *
  obtain ⟨o, s', w'⟩ := m
  cases o with
  | panic => cases f <;> simp at hs
  | err e =>
    cases f with
    | some p => simp at hs
    | none =>
      obtain ⟨h1, h2, h3, h4⟩ := hs
      subst h1 h2
      exact ⟨rfl, h3, h4.storeLt, by simp⟩
  | ok =>
    cases f with
    | none => simp at hs
    | some p =>
      obtain ⟨S', W'⟩ := p
      obtain ⟨h1, h2, h3⟩ := hs
      obtain ⟨g1, g2, g3⟩ := sync_ok_fields cfg s s' w w' hm
      obtain ⟨sh1, sh2⟩ := syncServer_shape cfg s
      rw [← g1] at sh1 sh2
      subst h1 h2
      obtain ⟨id, server, client, inval⟩ := s'
      obtain ⟨a, b, c, d, e, f', g, i⟩ := h3
      cases inval with
      | true =>
        cases id <;> simp [abs, CurId.oldId] <;> exact a
      | false =>
        have nm : server ≠ some .markedForDeletion := by
          intro hmf
          have := sh2 hmf
          simp [← g2] at this
        cases server with
        | none =>
          cases id <;> simp_all [abs, CurId.oldId, CurId.newId, viewSrv] <;> exact a
        | some sv =>
          cases sv with
          | markedForDeletion => exact absurd rfl nm
          | changed st => exact absurd rfl (sh1 st)
          | doesNotExist =>
            cases id <;> simp_all [abs, CurId.oldId, CurId.newId, viewSrv] <;> (try split) <;>
              (try simp_all) <;> (try exact a)
          | unchanged st t =>
            obtain ⟨o, r, ho, _, _⟩ := f' st t rfl
            cases id <;> simp_all [abs, CurId.oldId, CurId.newId, viewSrv] <;> exact a


theorem finalizeSession_refines (cfg : Config) (s : Sess κ ν) (w : World κ ν) (h : Inv s w) :
    FinSim (finalizeSession cfg s w) (Spec.finalizeSession cfg true (abs s) (absW w)) := by
  obtain ⟨h1, h2, h3, h4⟩ := finalize_refines cfg s w h
  have hce : clientIsEmpty s = cIsEmpty (abs s) := rfl
  unfold finalizeSession Spec.finalizeSession FinSim
  rw [hce]
  generalize finalize cfg s w = m at *
  generalize Spec.finalize cfg true (abs s) (absW w) = sp at *
  obtain ⟨f, s', w'⟩ := m
  obtain ⟨f', W'⟩ := sp
  simp only at h1 h2 h3 h4
  subst h1 h2
  cases f with
  | set id c =>
    have := h4 id c rfl
    simp only
    split <;> simp_all
    split <;> simp_all
  | removal =>
    simp only
    split <;> simp_all
    split <;> simp_all
  | none => exact ⟨rfl, rfl, h3, by simp⟩
  | err e => exact ⟨rfl, rfl, h3, by simp⟩
  | panic => exact ⟨rfl, rfl, h3, by simp⟩


/-! ### the id counter never goes back (on the specification side, where it is easy to see) -/

@[simp] theorem set_nextId (W : SWorld κ ν) (i : Nat) (v : Option (Map κ ν)) : (W.set i v).nextId = W.nextId := rfl

@[simp] theorem unset_nextId (W : SWorld κ ν) (o : Option Nat) : (W.unset o).nextId = W.nextId := by
  cases o <;> rfl

theorem flush_nextId (cfg : Config) (strict : Bool) (S S' : SSess κ ν) (W W' : SWorld κ ν)
    (h : flush cfg strict S W = some (S', W')) : W'.nextId = W.nextId := by
  unfold flush at h
  repeat' split at h
  all_goals (first | (simp at h; done) | (simp at h; obtain ⟨_, h2⟩ := h; subst h2; simp))

theorem Spec.step_nextId (cfg : Config) (strict : Bool) (op : Op κ ν) (S : SSess κ ν) (W : SWorld κ ν) :
    W.nextId ≤ (Spec.step cfg strict op S W).2.2.nextId := by
  cases op <;> simp only [Spec.step] <;> (repeat' split) <;> (try simp) <;> (try omega)
  all_goals
    rename_i h
    have := flush_nextId _ _ _ _ _ _ h
    omega


theorem Spec.runOps_nextId (cfg : Config) (strict : Bool) (ops : List (Op κ ν)) (S : SSess κ ν) (W : SWorld κ ν) :
    W.nextId ≤ (Spec.runOps cfg strict ops S W).2.2.nextId := by
  induction ops generalizing S W with
  | nil => exact Nat.le_refl _
  | cons op ops ih =>
    have h1 := Spec.step_nextId cfg strict op S W
    simp only [Spec.runOps]
    generalize Spec.step cfg strict op S W = m at *
    obtain ⟨r, S1, W1⟩ := m
    exact Nat.le_trans h1 (ih S1 W1)

theorem Spec.finalize_nextId (cfg : Config) (strict : Bool) (S : SSess κ ν) (W : SWorld κ ν) :
    (Spec.finalize cfg strict S W).2.nextId = W.nextId := by
  unfold Spec.finalize
  split
  · rfl
  · rename_i S' W' h
    have := flush_nextId _ _ _ _ _ _ h
    (repeat' split) <;> simpa using this

theorem Spec.finalizeSession_nextId (cfg : Config) (strict : Bool) (S : SSess κ ν) (W : SWorld κ ν) :
    (Spec.finalizeSession cfg strict S W).2.nextId = W.nextId := by
  have := Spec.finalize_nextId cfg strict S W
  unfold Spec.finalizeSession
  generalize Spec.finalize cfg strict S W = m at *
  obtain ⟨f, W'⟩ := m
  cases f <;> simpa using this

theorem newSession_refines (incoming : Option (Nat × Map κ ν)) (w : World κ ν) (hw : WInv w)
    (hi : ∀ id c, incoming = some (id, c) → id < w.nextId) :
    Spec.newSession incoming (absW w) = (abs (newSession incoming w).1, absW (newSession incoming w).2) ∧
    Inv (newSession incoming w).1 (newSession incoming w).2 := by
  cases incoming with
  | some p =>
    obtain ⟨id, c⟩ := p
    have := hi id c rfl
    refine ⟨rfl, ?_⟩
    constructor <;> simp_all [newSession, CurId.newId, CurId.oldId]
    exact hw
  | none =>
    have fresh : Map.lookup w.store w.nextId = none := by
      cases hl : Map.lookup w.store w.nextId with
      | none => rfl
      | some r => exact absurd (hw w.nextId (by simp [hl])) (Nat.lt_irrefl _)
    refine ⟨rfl, ?_⟩
    constructor <;> simp_all [newSession, CurId.newId, CurId.oldId]
    intro i h; exact Nat.lt_succ_of_lt (hw i h)

/-- One whole request (`Session::new`; operations; `finalize_session`) is the request of the
    specification: same results, same cookie, related worlds. -/
theorem request_refines (cfg : Config) (rem : Nat) (incoming : Option (Nat × Map κ ν)) (ops : List (Op κ ν))
    (w : World κ ν) (hw : WInv w) (hi : ∀ id c, incoming = some (id, c) → id < w.nextId) :
    (runRequest cfg rem incoming ops w).1 = (Spec.runRequest cfg true incoming ops (absW w)).1 ∧
    (runRequest cfg rem incoming ops w).2.1 = (Spec.runRequest cfg true incoming ops (absW w)).2.1 ∧
    absW (runRequest cfg rem incoming ops w).2.2 = (Spec.runRequest cfg true incoming ops (absW w)).2.2 ∧
    WInv (runRequest cfg rem incoming ops w).2.2 ∧
    (∀ id c, (runRequest cfg rem incoming ops w).2.1 = .set id c → id < (runRequest cfg rem incoming ops w).2.2.nextId) ∧
    w.nextId ≤ (runRequest cfg rem incoming ops w).2.2.nextId := by
  obtain ⟨n1, n2⟩ := newSession_refines incoming w hw hi
  have mono0 : w.nextId ≤ (newSession incoming w).2.nextId := by
    cases incoming <;> simp [newSession]
  unfold runRequest Spec.runRequest
  rw [n1]
  generalize newSession incoming w = p at *
  obtain ⟨s0, w0⟩ := p
  simp only at n2 mono0 ⊢
  obtain ⟨o1, s1, o2, o3, o4, o5⟩ := runOps_refines cfg rem ops s0 w0 n2
  have mono1 := Spec.runOps_nextId cfg true ops (abs s0) (absW w0)
  generalize runOps cfg rem ops s0 w0 = m at *
  generalize Spec.runOps cfg true ops (abs s0) (absW w0) = sp at *
  obtain ⟨rs, so, w1⟩ := m
  obtain ⟨rs', S1, W1⟩ := sp
  simp only at o1 o2 o3 o4 o5 mono1
  subst o1 o2 o3 o4
  simp only
  obtain ⟨f1, f2, f3, f4⟩ := finalizeSession_refines cfg s1 w1 o5
  have mono2 := Spec.finalizeSession_nextId cfg true (abs s1) (absW w1)
  generalize finalizeSession cfg s1 w1 = m at *
  generalize Spec.finalizeSession cfg true (abs s1) (absW w1) = sp at *
  obtain ⟨f, s2, w2⟩ := m
  obtain ⟨f', W2⟩ := sp
  simp only at f1 f2 f3 f4 mono2 ⊢
  subst f1 f2
  refine ⟨trivial, rfl, rfl, f3, f4, ?_⟩
  have e1 : (absW w2).nextId = w2.nextId := rfl
  have e2 : (absW w1).nextId = w1.nextId := rfl
  have e3 : (absW w0).nextId = w0.nextId := rfl
  omega


/-! ### whole histories -/

/-- Every cookie the client holds or was ever handed carries an id the counter handed out. -/
def ClientInv (c : Client κ ν) (n : Nat) : Prop :=
  (∀ t, c.jar = some t → t.id < n) ∧
  (∀ (j : Nat) t, c.issued[j]? = some (some t) → t.id < n)

theorem accept_id (cfg : Config) (t : Token κ ν) (id : Nat) (cl : Map κ ν)
    (h : accept cfg t = some (id, cl)) : id = t.id := by
  unfold accept at h
  split at h
  · simp at h; exact h.1.symm
  · simp at h

theorem sent_lt (c : Client κ ν) (n : Nat) (hc : ClientInv c n) (src : Src κ ν) :
    ∀ t, sent c src = some t → t.id < n := by
  intro t h
  cases src with
  | jar => exact hc.1 t h
  | none => simp [sent] at h
  | parts j cli => simp [sent] at h
  | issued j =>
    simp only [sent] at h
    cases hj : c.issued[j]? with
    | none => simp [hj] at h
    | some o =>
      cases o with
      | none => simp [hj] at h
      | some p =>
        simp [hj] at h
        subst h
        exact hc.2 j p hj

theorem presented_lt (cfg : Config) (c : Client κ ν) (n : Nat) (hc : ClientInv c n) (src : Src κ ν) :
    ∀ id cl, presented cfg c src = some (id, cl) → id < n := by
  intro id cl h
  have key : ∀ src', (sent c src').bind (accept cfg) = some (id, cl) → id < n := by
    intro src' h'
    cases hs : sent c src' with
    | none => simp [hs] at h'
    | some t =>
      simp [hs] at h'
      rw [accept_id cfg t id cl h']
      exact sent_lt c n hc src' t hs
  cases src with
  | jar => exact key .jar h
  | none => exact key .none h
  | issued j => exact key (.issued j) h
  | parts j cli =>
    simp only [presented] at h
    cases hj : c.issued[j]? with
    | none => simp [hj] at h
    | some o =>
      cases o with
      | none => simp [hj] at h
      | some p =>
        simp [hj] at h
        rw [← h.1]
        exact hc.2 j p hj

theorem WInv_expire (pres : Option (Nat × Map κ ν)) (w : World κ ν) (hw : WInv w) : WInv (expire pres w) := by
  cases pres with
  | none => exact hw
  | some p =>
    intro i hi
    simp only [expire, Map.lookup_erase] at hi
    split at hi
    · simp at hi
    · exact hw i hi

theorem absW_expire (pres : Option (Nat × Map κ ν)) (w : World κ ν) :
    absW (expire pres w) = Spec.expire pres (absW w) := by
  cases pres with
  | none => rfl
  | some p => exact absW_erase w p.1

theorem history_refines (cfg : Config) (reqs : List (Req κ ν)) (c : Client κ ν) (w : World κ ν)
    (hw : WInv w) (hc : ClientInv c w.nextId) :
    (runHistory cfg reqs c w).map (fun o => (o.res, o.fin)) = Spec.runHistory cfg true reqs c (absW w) := by
  induction reqs generalizing c w with
  | nil => rfl
  | cons rq rest ih =>
    simp only [runHistory, Spec.runHistory, List.map_cons]
    generalize reqCfg cfg rq.crypto = cfg'
    have hp := presented_lt cfg' c w.nextId hc rq.src
    have hs := sent_lt c w.nextId hc rq.src
    generalize presented cfg' c rq.src = pres at *
    generalize sent c rq.src = held at *
    -- the world the request starts from
    have hw1 : WInv (if rq.expire = true then expire pres w else w) := by
      split
      · exact WInv_expire pres w hw
      · exact hw
    have ha1 : absW (if rq.expire = true then expire pres w else w) =
        (if rq.expire = true then Spec.expire pres (absW w) else absW w) := by
      split
      · exact absW_expire pres w
      · rfl
    have hn1 : (if rq.expire = true then expire pres w else w).nextId = w.nextId := by
      split
      · cases pres <;> rfl
      · rfl
    rw [← ha1]
    generalize (if rq.expire = true then expire pres w else w) = w1 at *
    have hw2 : WInv { w1 with log := [] } := hw1
    have ha2 : absW { w1 with log := [] } = absW w1 := rfl
    rw [← ha2]
    have hn2 : ({ w1 with log := [] } : World κ ν).nextId = w.nextId := hn1
    generalize ({ w1 with log := [] } : World κ ν) = w2 at *
    obtain ⟨r1, r2, r3, r4, r5, r6⟩ := request_refines cfg' rq.rem pres rq.ops w2 hw2 (by rw [hn2]; exact hp)
    generalize runRequest cfg' rq.rem pres rq.ops w2 = m at *
    generalize Spec.runRequest cfg' true pres rq.ops (absW w2) = sp at *
    obtain ⟨rs, f, w3⟩ := m
    obtain ⟨rs', f', W3⟩ := sp
    simp only at r1 r2 r3 r4 r5 r6 ⊢
    subst r1 r2 r3
    congr 1
    apply ih
    · exact r4
    · refine ⟨?_, ?_⟩
      · intro t h
        cases f with
        | set id' c' =>
          simp [afterResponse] at h
          subst h
          exact r5 id' c' rfl
        | removal => simp [afterResponse] at h
        | none => exact Nat.lt_of_lt_of_le (hs t h) (by omega)
        | err e => exact Nat.lt_of_lt_of_le (hs t h) (by omega)
        | panic => exact Nat.lt_of_lt_of_le (hs t h) (by omega)
      · intro j t h
        by_cases hj : j < c.issued.length
        · rw [List.getElem?_append_left hj] at h
          exact Nat.lt_of_lt_of_le (hc.2 j t h) (by omega)
        · rw [List.getElem?_append_right (by omega)] at h
          cases f with
          | set id' c' =>
            cases hk : j - c.issued.length with
            | zero =>
              simp [hk, issuedBy] at h
              subst h
              exact r5 id' c' rfl
            | succ k => simp [hk] at h
          | removal => cases hk : j - c.issued.length <;> simp [hk, issuedBy] at h
          | none => cases hk : j - c.issued.length <;> simp [hk, issuedBy] at h
          | err e => cases hk : j - c.issued.length <;> simp [hk, issuedBy] at h
          | panic => cases hk : j - c.issued.length <;> simp [hk, issuedBy] at h

end Pxv.Session
