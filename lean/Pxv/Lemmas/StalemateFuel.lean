import Pxv.Lemmas.Stalemate
/-! `findStalemate` and `resolveStalemates` never run out of fuel; what a reported stalemate looks like. -/
namespace Pxv.CG
open Graph

/-- the three things one step of a sweep can do. -/
theorem sweepStep_cases (g : Graph) (ign : List Nat) (st : Sweep) (n : Nat) :
    sweepStep g ign st n = st ∨
    (n ∉ st.placed ∧ sweepStep g ign st n = { st with placed := st.placed ++ [n], progressed := true }) ∨
    (n ∉ st.placed ∧ n ∉ ign ∧ blockedInputs g st.placed n ≠ [] ∧
      sweepStep g ign st n = { st with stale := st.stale ++ [(n, blockedInputs g st.placed n)] }) := by
  simp only [sweepStep]
  repeat' split
  all_goals simp_all

theorem nodup_bound_length {l : List Nat} {k : Nat} (hnd : l.Nodup) (hb : ∀ x ∈ l, x < k) : l.length ≤ k := by
  have := List.Nodup.length_le_of_subset hnd (l₂ := List.range k)
    (by intro x hx; exact List.mem_range.mpr (hb x hx))
  simpa using this

/-- a stalemate as `find_ordering_stalemate` reports it: a node of the graph that is not ignored, and a non-empty list
    of dependencies each of which the node takes by value. -/
def Genuine (g : Graph) (ign : List Nat) (s : Nat × List Nat) : Prop :=
  s.1 < g.size ∧ s.1 ∉ ign ∧ s.2 ≠ [] ∧
    ∀ b ∈ s.2, b ∈ g.preds s.1 ∧ (g.consumers b).contains s.1 = true ∧ (g.node b).copy = false ∧ allBorrowers g b ≠ []

theorem blockedInputs_spec {g : Graph} {placed : List Nat} {n b : Nat} (h : b ∈ blockedInputs g placed n) :
    b ∈ g.preds n ∧ (g.consumers b).contains n = true ∧ (g.node b).copy = false ∧
      ∃ x ∈ allBorrowers g b, x ∉ placed := by
  unfold blockedInputs at h
  rw [mem_toSet, List.mem_filter] at h
  obtain ⟨hp, hc⟩ := h
  simp only [Bool.and_eq_true, Bool.not_eq_true', List.any_eq_true] at hc
  obtain ⟨⟨h1, x, hx, hxp⟩, h3⟩ := hc
  refine ⟨hp, h1, h3, x, hx, ?_⟩
  intro hm
  simp [hm] at hxp

structure SweepB (g : Graph) (ign : List Nat) (len0 : Nat) (st : Sweep) : Prop where
  nodup : st.placed.Nodup
  bound : ∀ x ∈ st.placed, x < g.size
  len : len0 ≤ st.placed.length
  prog : st.progressed = true → len0 < st.placed.length
  stale : ∀ s ∈ st.stale, Genuine g ign s

theorem sweepStep_B {g : Graph} {ign : List Nat} {len0 : Nat} {st : Sweep} {n : Nat} (hn : n < g.size)
    (h : SweepB g ign len0 st) : SweepB g ign len0 (sweepStep g ign st n) := by
  rcases sweepStep_cases g ign st n with e | ⟨hnp, e⟩ | ⟨hnp, hni, hbl, e⟩
  · rw [e]; exact h
  · rw [e]
    refine ⟨?_, ?_, ?_, ?_, h.stale⟩
    · rw [List.nodup_append]
      refine ⟨h.nodup, by simp, ?_⟩
      intro x hx y hy
      simp at hy; subst hy
      intro hxy; exact hnp (hxy ▸ hx)
    · intro x hx
      simp only [List.mem_append, List.mem_singleton] at hx
      rcases hx with hx | rfl
      · exact h.bound x hx
      · exact hn
    · have := h.len; simp; omega
    · intro _; have := h.len; simp; omega
  · rw [e]
    refine ⟨h.nodup, h.bound, h.len, h.prog, ?_⟩
    intro s hs'
    simp only [List.mem_append, List.mem_singleton] at hs'
    rcases hs' with hs' | rfl
    · exact h.stale s hs'
    refine ⟨hn, hni, hbl, fun b hb => ?_⟩
    have := blockedInputs_spec hb
    obtain ⟨x, hx, _⟩ := this.2.2.2
    exact ⟨this.1, this.2.1, this.2.2.1, List.ne_nil_of_mem hx⟩

theorem sweep_B {g : Graph} {ign placed : List Nat} (hnd : placed.Nodup) (hb : ∀ x ∈ placed, x < g.size) :
    SweepB g ign placed.length (sweep g ign placed) := by
  unfold sweep
  have : ∀ (l : List Nat) (st : Sweep), (∀ n ∈ l, n < g.size) → SweepB g ign placed.length st →
      SweepB g ign placed.length (l.foldl (sweepStep g ign) st) := by
    intro l
    induction l with
    | nil => intro st _ h; exact h
    | cons a l ih =>
      intro st hl h
      exact ih _ (fun n hn => hl n (List.mem_cons_of_mem _ hn)) (sweepStep_B (hl a (List.mem_cons_self ..)) h)
  exact this _ _ (fun n hn => List.mem_range.mp hn)
    ⟨hnd, hb, Nat.le_refl _, by simp, by simp⟩

/-- with `g.size + 1` rounds the forward pass never runs out of fuel, and what it reports is a genuine stalemate. -/
theorem findStalemateLoop_genuine (g : Graph) (ign : List Nat) :
    ∀ (fuel : Nat) (placed : List Nat), placed.Nodup → (∀ x ∈ placed, x < g.size) →
      g.size + 1 ≤ placed.length + fuel →
      ∀ s ∈ findStalemateLoop g ign fuel placed, Genuine g ign s := by
  intro fuel
  induction fuel with
  | zero =>
    intro placed hnd hb hlen
    have := nodup_bound_length hnd hb
    omega
  | succ f ih =>
    intro placed hnd hb hlen s hs
    have B := sweep_B (ign := ign) hnd hb
    simp only [findStalemateLoop] at hs
    split at hs
    · rename_i hp
      exact ih _ B.nodup B.bound (by have := B.prog hp; omega) s hs
    · exact B.stale s hs

theorem findStalemate_genuine {g : Graph} {ign : List Nat} {s : Nat × List Nat}
    (h : s ∈ findStalemate g ign) : Genuine g ign s :=
  findStalemateLoop_genuine g ign (g.size + 1) [] (by simp) (by simp) (by simp) s h


theorem node_insertClone_old (g : Graph) (b n x : Nat) (hx : x < g.size) :
    ((insertClone g b n).1.node x).cloneable = (g.node x).cloneable := by
  simp only [insertClone, Graph.node, Graph.size] at *
  rw [List.getD_eq_getElem?_getD, List.getD_eq_getElem?_getD, List.getElem?_append_left (by simpa using hx)]
  simp [hx]
  split <;> rfl

theorem node_insertClone_new (g : Graph) (b n : Nat) :
    ((insertClone g b n).1.node g.size).cloneable = false := by
  simp only [insertClone, Graph.node, Graph.size] at *
  rw [List.getD_eq_getElem?_getD, List.getElem?_append_right (by simp)]
  simp

theorem insertClone_wf {g : Graph} {dep consumer : Nat} (hwf : g.wellFormed = true)
    (hp : dep ∈ g.preds consumer) : (insertClone g dep consumer).1.wellFormed = true := by
  obtain ⟨e0, he0, hs0, hd0⟩ := mem_preds hp
  have hb0 := wf_endpoints hwf he0
  rw [hs0, hd0] at hb0
  unfold wellFormed
  rw [List.all_eq_true]
  intro e he
  rw [size_insertClone, edges_insertClone] at *
  simp only [List.mem_append, List.mem_filter, List.mem_cons, List.not_mem_nil, or_false] at he
  simp only [Bool.and_eq_true, decide_eq_true_eq]
  rcases he with ⟨he, _⟩ | rfl | rfl
  · have := wf_endpoints hwf he; omega
  · simp; omega
  · simp; omega

/-- the `move` edges whose source may be cloned: each clone inserted by `resolveStalemates` removes one. -/
def cloneableMoves (g : Graph) : Nat :=
  (g.edges.filter (fun e => e.kind == .move && (g.node e.src).cloneable)).length

theorem filter_and_lt {α : Type} (l : List α) (P Q : α → Bool) (h : ∃ e ∈ l, P e = true ∧ Q e = false) :
    (l.filter (fun e => P e && Q e)).length < (l.filter P).length := by
  induction l with
  | nil => obtain ⟨e, he, _⟩ := h; cases he
  | cons a l ih =>
    have hle : (l.filter (fun e => P e && Q e)).length ≤ (l.filter P).length := by
      clear ih h
      induction l with
      | nil => simp
      | cons b l ih2 =>
        simp only [List.filter_cons]
        cases P b <;> cases Q b <;> simp <;> omega
    obtain ⟨e, he, hP, hQ⟩ := h
    simp only [List.mem_cons] at he
    simp only [List.filter_cons]
    rcases he with rfl | he
    · simp [hP, hQ]; omega
    · have := ih ⟨e, he, hP, hQ⟩
      cases P a <;> cases Q a <;> simp <;> omega

theorem cloneableMoves_insertClone {g : Graph} {b n : Nat} (hwf : g.wellFormed = true)
    (hc : (g.node b).cloneable = true) (hm : (g.consumers b).contains n = true) :
    cloneableMoves (insertClone g b n).1 + 1 ≤ cloneableMoves g := by
  -- the move edge b -> n
  have hex : ∃ e ∈ g.edges, e.src = b ∧ e.dst = n ∧ e.kind = .move := by
    have := List.contains_iff_mem.mp hm
    simp only [consumers, outEdges, List.mem_map, List.mem_filter] at this
    obtain ⟨e, ⟨⟨he, hs⟩, hk⟩, hd⟩ := this
    exact ⟨e, he, by simpa using hs, hd, by simpa using hk⟩
  unfold cloneableMoves
  rw [edges_insertClone, List.filter_append]
  have hnew : ([⟨b, g.size, .shared⟩, ⟨g.size, n, .move⟩] : List Edge).filter
      (fun e => e.kind == .move && ((insertClone g b n).1.node e.src).cloneable) = [] := by
    simp [List.filter_cons, node_insertClone_new]
  rw [hnew, List.append_nil, List.filter_filter]
  -- on old edges the flags are unchanged
  have hcongr : (g.edges.filter (fun e => (e.kind == .move && ((insertClone g b n).1.node e.src).cloneable) &&
        !(e.src == b && e.dst == n))) =
      g.edges.filter (fun e => (e.kind == .move && (g.node e.src).cloneable) && !(e.src == b && e.dst == n)) := by
    apply List.filter_congr
    intro e he
    rw [node_insertClone_old g b n e.src (wf_endpoints hwf he).1]
  rw [hcongr]
  have := filter_and_lt g.edges (fun e => e.kind == .move && (g.node e.src).cloneable)
    (fun e => !(e.src == b && e.dst == n))
    (by
      obtain ⟨e, he, hs, hd, hk⟩ := hex
      refine ⟨e, he, ?_, ?_⟩
      · simp [hk, hs, hc]
      · simp [hs, hd])
  omega

theorem cloneableMoves_le (g : Graph) : cloneableMoves g ≤ g.edges.length := by
  unfold cloneableMoves
  exact List.length_filter_le _ _

/-- `resolveStalemates` never exhausts the fuel it is given. -/
theorem resolveLoop_fuel :
    ∀ (fuel : Nat) (g : Graph) (reported : List Nat) (ds : List OsDiag),
      g.wellFormed = true → reported.Nodup → (∀ x ∈ reported, x < g.size) →
      2 * cloneableMoves g + (g.size - reported.length) + 1 ≤ fuel →
      (∀ d ∈ ds, d ≠ .outOfFuel) → ∀ d ∈ (resolveLoop fuel g reported ds).2, d ≠ .outOfFuel := by
  intro fuel
  induction fuel with
  | zero => intro g reported ds _ _ _ h; omega
  | succ f ih =>
    intro g reported ds hwf hnd hb hf hds
    simp only [resolveLoop]
    split
    · exact hds
    · rename_i n0 bl0 rest hsome
      have hrl := nodup_bound_length hnd hb
      split
      · rename_i n b hfs
        obtain ⟨s, hs, hf⟩ := List.exists_of_findSome?_eq_some hfs
        simp only [Option.map_eq_some_iff, Prod.mk.injEq] at hf
        obtain ⟨b', hfind, rfl, rfl⟩ := hf
        have hg := findStalemate_genuine (g := g) (ign := reported) (s := s) (by rw [hsome]; exact hs)
        have hbm : b' ∈ s.2 := List.mem_of_find?_eq_some hfind
        have hcb : (g.node b').cloneable = true := by simpa using List.find?_some hfind
        have hb2 := hg.2.2.2 b' hbm
        have hM : cloneableMoves (insertClone g b' s.1).1 + 1 ≤ cloneableMoves g :=
          cloneableMoves_insertClone hwf hcb hb2.2.1
        apply ih _ reported ds (insertClone_wf hwf hb2.1) hnd
        · intro x hx; rw [size_insertClone]; have := hb x hx; omega
        · rw [size_insertClone]; omega
        · exact hds
      · have hg := findStalemate_genuine (g := g) (ign := reported) (s := (n0, bl0))
          (by rw [hsome]; exact List.mem_cons_self ..)
        have hnd' : (reported ++ [n0]).Nodup := by
          rw [List.nodup_append]
          refine ⟨hnd, by simp, ?_⟩
          intro x hx y hy
          simp at hy; subst hy
          intro hxy; exact hg.2.1 (hxy ▸ hx)
        have hb' : ∀ x ∈ reported ++ [n0], x < g.size := by
          intro x hx
          simp only [List.mem_append, List.mem_singleton] at hx
          rcases hx with hx | rfl
          · exact hb x hx
          · exact hg.1
        have hrl' := nodup_bound_length hnd' hb'
        simp at hrl'
        apply ih g (reported ++ [n0]) _ hwf hnd' hb'
        · simp; omega
        · intro d hd
          simp only [List.mem_append, List.mem_singleton] at hd
          rcases hd with hd | rfl
          · exact hds d hd
          · intro h; cases h

theorem resolve_never_out_of_fuel {g : Graph} (hwf : g.wellFormed = true) :
    ∀ d ∈ (resolveStalemates g).2, d ≠ .outOfFuel := by
  unfold resolveStalemates resolveFuel
  apply resolveLoop_fuel _ g [] [] hwf (by simp) (by simp)
  · have := cloneableMoves_le g; simp; omega
  · simp


theorem nodup_full {l : List Nat} {n : Nat} (hnd : l.Nodup) (hb : ∀ x ∈ l, x < n) (hlen : l.length = n) :
    ∀ x, x < n → x ∈ l := by
  intro x hx
  apply Classical.byContradiction
  intro hnot
  have hnd' : (x :: l).Nodup := List.nodup_cons.mpr ⟨hnot, hnd⟩
  have hb' : ∀ y ∈ x :: l, y < n := by
    intro y hy
    simp only [List.mem_cons] at hy
    rcases hy with rfl | hy
    · exact hx
    · exact hb y hy
  have := nodup_bound_length hnd' hb'
  simp at this
  omega

/-- when the forward pass reports stalemates, it has reached a state of the ordering system from which nothing can be
    scheduled although some node is left. -/
theorem findStalemateLoop_some {g : Graph} :
    ∀ (fuel : Nat) (placed : List Nat), isRunFrom g [] placed = true → (∀ x ∈ placed, x < g.size) →
      g.size + 1 ≤ placed.length + fuel →
      ∀ s ∈ findStalemateLoop g [] fuel placed,
        ∃ final, isRunFrom g [] final = true ∧ (∀ x ∈ final, x < g.size) ∧
          (∀ n, n < g.size → n ∈ final ∨ canPlace g final n = false) ∧ s.1 < g.size ∧ s.1 ∉ final := by
  intro fuel
  induction fuel with
  | zero =>
    intro placed hrun hb hlen
    have hnd : placed.Nodup := by simpa using isRunFrom_nodup hrun (by simp)
    have := nodup_bound_length hnd hb
    omega
  | succ f ih =>
    intro placed hrun hb hlen s hs
    have inv := sweep_inv hrun hb
    have hnd : placed.Nodup := by simpa using isRunFrom_nodup hrun (by simp)
    have B := sweep_B (ign := []) hnd hb
    simp only [findStalemateLoop] at hs
    by_cases hp : (sweep g [] placed).progressed = true
    · simp only [hp, if_true] at hs
      exact ih _ inv.run inv.bound (by have := B.prog hp; omega) s hs
    · simp only [hp] at hs
      have hp' : (sweep g [] placed).progressed = false := by simpa using hp
      have hso := inv.staleOut s hs
      refine ⟨placed, hrun, hb, fun n hn => inv.stuck hp' n (List.mem_range.mpr hn), ?_, ?_⟩
      · exact List.mem_range.mp hso.1
      · rw [← inv.same hp']; exact hso.2

end Pxv.CG
