import Pxv.Lemmas.Errors
/-! Helper lemmas for C06: the observer splice only appends observer nodes and edges that touch them, so it
does not disturb what the remaining error handlers look like (`Ext`); the branching injection only rewires
the fallible node it works on. -/
namespace Pxv.Err
open Graph

theorem kind_append_old (ns ks : List Kind) (es : List Edge) (n : Nat) (h : n < ns.length) :
    (Graph.mk (ns ++ ks) es).kind n = (Graph.mk ns es).kind n := by
  simp [Graph.kind, List.getD_eq_getElem?_getD, List.getElem?_append_left h]

/-- `g'` is `g` plus observer nodes, plus edges each of which enters a new node or leaves a new node. -/
structure Ext (C : Nat → Prop) (g g' : Graph) : Prop where
  nodes : ∃ ks, g'.nodes = g.nodes ++ ks ∧ ∀ k ∈ ks, isObserver k = true
  /-- a new edge enters a new node, or leaves a new node for another new node or for one of the `C` nodes -/
  edges : ∃ es, g'.edges = g.edges ++ es ∧ ∀ e ∈ es, g.size ≤ e.dst ∨ (g.size ≤ e.src ∧ C e.dst)

theorem Ext.refl (C : Nat → Prop) (g : Graph) : Ext C g g :=
  ⟨⟨[], by simp, by simp⟩, ⟨[], by simp, by simp⟩⟩

theorem Ext.size_le {C : Nat → Prop} {g g' : Graph} (h : Ext C g g') : g.size ≤ g'.size := by
  obtain ⟨ks, hk, _⟩ := h.nodes
  simp [Graph.size, hk]

theorem Ext.kind_old {C : Nat → Prop} {g g' : Graph} (h : Ext C g g') {n : Nat} (hn : n < g.size) : g'.kind n = g.kind n := by
  obtain ⟨ks, hk, _⟩ := h.nodes
  simp only [Graph.kind, hk, List.getD_eq_getElem?_getD]
  rw [List.getElem?_append_left hn]

/-- a node that is not a node of `g` is an observer or nothing at all in `g'` -/
theorem Ext.kind_new {C : Nat → Prop} {g g' : Graph} (h : Ext C g g') {n : Nat} (hn : g.size ≤ n) :
    isObserver (g'.kind n) = true ∨ g'.kind n = .other := by
  obtain ⟨ks, hk, hobs⟩ := h.nodes
  by_cases hlt : n < g'.size
  · left
    simp only [Graph.kind, hk, List.getD_eq_getElem?_getD]
    have hn' : g.nodes.length ≤ n := hn
    rw [List.getElem?_append_right hn']
    have hlt' : n - g.nodes.length < ks.length := by
      simp only [Graph.size, hk, List.length_append] at hlt
      omega
    rw [List.getElem?_eq_getElem hlt']
    exact hobs _ (List.getElem_mem hlt')
  · right
    exact kind_of_ge (Nat.le_of_not_lt hlt)

theorem Ext.trans {C : Nat → Prop} {a b c : Graph} (h1 : Ext C a b) (h2 : Ext C b c) : Ext C a c := by
  obtain ⟨k1, hk1, ho1⟩ := h1.nodes
  obtain ⟨k2, hk2, ho2⟩ := h2.nodes
  obtain ⟨e1, he1, hd1⟩ := h1.edges
  obtain ⟨e2, he2, hd2⟩ := h2.edges
  refine ⟨⟨k1 ++ k2, by rw [hk2, hk1, List.append_assoc], ?_⟩, ⟨e1 ++ e2, by rw [he2, he1, List.append_assoc], ?_⟩⟩
  · intro k hk
    rcases List.mem_append.mp hk with hk | hk
    · exact ho1 k hk
    · exact ho2 k hk
  · intro e he
    rcases List.mem_append.mp he with he | he
    · exact hd1 e he
    · have hs := h1.size_le
      rcases hd2 e he with h | h
      · exact Or.inl (Nat.le_trans hs h)
      · exact Or.inr ⟨Nat.le_trans hs h.1, h.2⟩

theorem Ext.addObserver {C : Nat → Prop} (g0 g : Graph) (o : Nat) (h : Ext C g0 g) : Ext C g0 (addNode g (.observer o)).1 := by
  refine h.trans ⟨⟨[.observer o], rfl, ?_⟩, ⟨[], by simp [addNode], by simp⟩⟩
  intro k hk
  simp only [List.mem_singleton] at hk
  subst hk; rfl

theorem Ext.addEdge {C : Nat → Prop} (g0 g : Graph) (s d : Nat) (k : EK) (h : Ext C g0 g)
    (hsd : g0.size ≤ d ∨ (g0.size ≤ s ∧ C d)) : Ext C g0 (addEdge g s d k) := by
  obtain ⟨ks, hk, ho⟩ := h.nodes
  obtain ⟨es, he, hd⟩ := h.edges
  refine ⟨⟨ks, hk, ho⟩, ⟨es ++ [⟨s, d, k⟩], by simp [Pxv.Err.addEdge, he], ?_⟩⟩
  intro e hmem
  rcases List.mem_append.mp hmem with hmem | hmem
  · exact hd e hmem
  · simp only [List.mem_singleton] at hmem
    subst hmem
    exact hsd

theorem attachObservers_ext {C : Nat → Prop} (g0 : Graph) (enew child : Nat) (hC : C child) :
    ∀ (obs : List Nat) (g : Graph) (prev : Option Nat),
    Ext C g0 g → (obs = [] → ∀ p, prev = some p → g0.size ≤ p) → Ext C g0 (attachObservers g enew child obs prev)
  | [], g, prev, h, hp => by
    cases prev with
    | none => simpa [attachObservers] using h
    | some p =>
      simp only [attachObservers]
      exact Ext.addEdge g0 g p child .before h (Or.inr ⟨hp rfl p rfl, hC⟩)
  | o :: rest, g, prev, h, hp => by
    simp only [attachObservers]
    have hn : g0.size ≤ g.size := h.size_le
    have h1 := Ext.addObserver g0 g o h
    apply attachObservers_ext g0 enew child hC rest
    · apply Ext.addEdge
      · cases prev with
        | none => exact h1
        | some p => exact Ext.addEdge g0 _ p g.size .before h1 (Or.inl hn)
      · exact Or.inl hn
    · intro _ p hpe
      cases hpe
      exact hn

/-! what the splice looks at, for a handler of the original graph, is not disturbed by an extension -/

theorem Ext.succs {C : Nat → Prop} {g g' : Graph} (h : Ext C g g') (n : Nat) (hn : n < g.size) :
    ∃ extra, g'.succs n = g.succs n ++ extra ∧ ∀ d ∈ extra, g.size ≤ d := by
  obtain ⟨es, he, hd⟩ := h.edges
  refine ⟨(es.filter (·.src == n)).map (·.dst), by simp [Graph.succs, he, List.filter_append], ?_⟩
  intro d hmem
  obtain ⟨e, hef, rfl⟩ := List.mem_map.mp hmem
  obtain ⟨hee, hsrc⟩ := List.mem_filter.mp hef
  rcases hd e hee with h | h
  · exact h
  · have : e.src = n := by simpa using hsrc
    omega

theorem Ext.preds {C : Nat → Prop} {g g' : Graph} (h : Ext C g g') (n : Nat) (hn : n < g.size) :
    ∃ extra, g'.preds n = g.preds n ++ extra ∧ ∀ s ∈ extra, g.size ≤ s := by
  obtain ⟨es, he, hd⟩ := h.edges
  refine ⟨(es.filter (·.dst == n)).map (·.src), by simp [Graph.preds, he, List.filter_append], ?_⟩
  intro s hmem
  obtain ⟨e, hef, rfl⟩ := List.mem_map.mp hmem
  obtain ⟨hee, hdst⟩ := List.mem_filter.mp hef
  rcases hd e hee with h | h
  · have : e.dst = n := by simpa using hdst
    omega
  · exact h.1

/-- every endpoint of an edge is a node -/
def Closed (g : Graph) : Prop := ∀ e ∈ g.edges, e.src < g.size ∧ e.dst < g.size

theorem find?_congr_mem {α : Type} (l : List α) (p q : α → Bool) (h : ∀ x ∈ l, p x = q x) :
    l.find? p = l.find? q := by
  induction l with
  | nil => rfl
  | cons a l ih =>
    simp only [List.find?_cons, h a List.mem_cons_self]
    rw [ih (fun x hx => h x (List.mem_cons_of_mem _ hx))]

/-- the `pavex::Error::new` node the splice finds for a handler of `g` is the same in every extension. -/
theorem Ext.errorNewOf {C : Nat → Prop} {g g' : Graph} (h : Ext C g g') (hc : Closed g) (x : Nat) (hx : x < g.size) (e : Nat)
    (he : Pxv.Err.errorNewOf g x = some e) : Pxv.Err.errorNewOf g' x = some e := by
  obtain ⟨pe, hpe, hpn⟩ := h.preds x hx
  have hpold : ∀ p ∈ g.preds x, p < g.size := by
    intro p hp
    simp only [Graph.preds, List.mem_map, List.mem_filter] at hp
    obtain ⟨ed, ⟨hed, _⟩, rfl⟩ := hp
    exact (hc ed hed).1
  have hnewk : ∀ p ∈ pe, (g'.kind p == Kind.errMatch) = false ∧ (g'.kind p == Kind.errorNew) = false := by
    intro p hp
    rcases h.kind_new (hpn p hp) with hk | hk
    · cases hkk : g'.kind p <;> simp_all [isObserver]
    · rw [hk]; exact ⟨rfl, rfl⟩
  have hfind : ∀ (k : Kind), (k = .errMatch ∨ k = .errorNew) →
      (g'.preds x).find? (fun p => g'.kind p == k) = (g.preds x).find? (fun p => g.kind p == k) := by
    intro k hk
    rw [hpe, List.find?_append]
    have h1 : (g.preds x).find? (fun p => g'.kind p == k) = (g.preds x).find? (fun p => g.kind p == k) :=
      find?_congr_mem _ _ _ (fun p hp => by rw [h.kind_old (hpold p hp)])
    have h2 : pe.find? (fun p => g'.kind p == k) = none := by
      apply List.find?_eq_none.mpr
      intro p hp
      rcases hk with rfl | rfl
      · simp [(hnewk p hp).1]
      · simp [(hnewk p hp).2]
    rw [h1, h2]; simp
  unfold Pxv.Err.errorNewOf at he ⊢
  rw [hfind .errMatch (Or.inl rfl)]
  cases hm : (g.preds x).find? (fun p => g.kind p == .errMatch) with
  | none =>
    rw [hm] at he
    simp only at he ⊢
    rw [hfind .errorNew (Or.inr rfl)]
    exact he
  | some m =>
    rw [hm] at he
    simp only at he ⊢
    have hmlt : m < g.size := hpold m (List.mem_of_find?_eq_some hm)
    obtain ⟨se, hse, _⟩ := h.succs m hmlt
    rw [hse, List.find?_append, he]
    rfl

theorem Ext.child {C : Nat → Prop} {g g' : Graph} (h : Ext C g g') (x : Nat) (hx : x < g.size) (c : Nat)
    (hc : (g.succs x).head? = some c) : (g'.succs x).head? = some c := by
  obtain ⟨se, hse, _⟩ := h.succs x hx
  rw [hse, List.head?_append, hc]
  rfl

/-- every handler of `hs` has its `IntoResponse` child and its `pavex::Error::new` in `g0` -/
def Eligible (g0 : Graph) (hs : List Nat) : Prop :=
  ∀ x ∈ hs, x < g0.size ∧ (g0.succs x).head?.isSome = true ∧ (Pxv.Err.errorNewOf g0 x).isSome = true

instance (g0 : Graph) (hs : List Nat) : Decidable (Eligible g0 hs) := by unfold Eligible; exact inferInstance
instance (g : Graph) : Decidable (Closed g) := by unfold Closed; exact inferInstance

/-- how many error handlers of `hs` get their observers attached (↔ the handlers that reach
    `attached_observer_indexes.insert` after the `for error_observer_id` loop) -/
def fired (obs : List Nat) : Graph → List Nat → Nat
  | _, [] => 0
  | g, h :: hs =>
    if obs.isEmpty then 0 else
    match (g.succs h).head?, errorNewOf g h with
    | some child, some enew => fired obs (attachObservers g enew child obs (some h)) hs + 1
    | _, _ => fired obs g hs

/-- how many fallible nodes get a `MatchBranching` node -/
def injected : Graph → List Nat → Nat
  | _, [] => 0
  | g, x :: xs =>
    if ((g.succs x).filter (fun m => g.kind m == .okMatch || g.kind m == .errMatch)).length != 2
    then injected g xs else injected (injectOne g x) xs + 1


/-- the children of the handlers `hs` in `g0` (the `IntoResponse` nodes the observers must happen before) -/
def ChildOf (g0 : Graph) (hs : List Nat) (d : Nat) : Prop := ∃ x ∈ hs, (g0.succs x).head? = some d

theorem Ext.mono {C D : Nat → Prop} {g g' : Graph} (h : Ext C g g') (hcd : ∀ d, C d → D d) : Ext D g g' := by
  obtain ⟨es, he, hd⟩ := h.edges
  refine ⟨h.nodes, ⟨es, he, ?_⟩⟩
  intro e hm
  rcases hd e hm with h | h
  · exact Or.inl h
  · exact Or.inr ⟨h.1, hcd _ h.2⟩

/-- the splice fires for every eligible handler, and only extends the graph. -/
theorem splice_fired (obs : List Nat) (hne : obs.isEmpty = false) (g0 : Graph) (hc : Closed g0) :
    ∀ (hs : List Nat) (g : Graph) (all : List Nat), (∀ x ∈ hs, x ∈ all) → Ext (ChildOf g0 all) g0 g → Eligible g0 hs →
      fired obs g hs = hs.length ∧ Ext (ChildOf g0 all) g0 (splice obs g hs)
  | [], g, _, _, hext, _ => ⟨rfl, by simpa [splice] using hext⟩
  | x :: hs, g, all, hall, hext, hel => by
    obtain ⟨hx, hcs, hes⟩ := hel x List.mem_cons_self
    obtain ⟨c, hc'⟩ := Option.isSome_iff_exists.mp hcs
    obtain ⟨e, he⟩ := Option.isSome_iff_exists.mp hes
    have hc2 := hext.child x hx c hc'
    have he2 := hext.errorNewOf hc x hx e he
    have hC : ChildOf g0 all c := ⟨x, hall x List.mem_cons_self, hc'⟩
    have hext2 := attachObservers_ext g0 e c hC obs g (some x) hext (fun h0 => by simp [h0] at hne)
    obtain ⟨ih1, ih2⟩ := splice_fired obs hne g0 hc hs (attachObservers g e c obs (some x)) all
      (fun y hy => hall y (List.mem_cons_of_mem _ hy)) hext2 (fun y hy => hel y (List.mem_cons_of_mem _ hy))
    constructor
    · simp only [fired, hne, Bool.false_eq_true, ↓reduceIte, hc2, he2, ih1, List.length_cons]
    · simp only [splice, hne, Bool.false_eq_true, ↓reduceIte, hc2, he2]
      exact ih2

/-! ### the branching injection -/

theorem foldl_addEdge_edges (b : Nat) : ∀ (ms : List Nat) (g : Graph),
    (ms.foldl (fun acc m => ({ nodes := acc.nodes, edges := acc.edges ++ [⟨b, m, .move⟩] } : Graph)) g).edges =
      g.edges ++ ms.map (fun m => (⟨b, m, .move⟩ : Edge))
  | [], g => by simp
  | m :: ms, g => by
    rw [List.foldl_cons, foldl_addEdge_edges b ms]
    simp

theorem foldl_addEdge_nodes (b : Nat) : ∀ (ms : List Nat) (g : Graph),
    (ms.foldl (fun acc m => ({ nodes := acc.nodes, edges := acc.edges ++ [⟨b, m, .move⟩] } : Graph)) g).nodes = g.nodes
  | [], _ => rfl
  | m :: ms, g => by
    rw [List.foldl_cons, foldl_addEdge_nodes b ms]

theorem graph_ext (a b : Graph) (hn : a.nodes = b.nodes) (he : a.edges = b.edges) : a = b := by
  cases a; cases b; simp_all

theorem injectOne_eq (g : Graph) (x : Nat) (h : (matcherSuccs g x).length = 2) :
    injectOne g x = ⟨g.nodes ++ [.branch],
      (g.edges.filter (fun e => !(e.src == x && (matcherSuccs g x).contains e.dst))) ++
        (matcherSuccs g x).map (fun m => (⟨g.size, m, .move⟩ : Edge)) ++ [⟨x, g.size, .move⟩]⟩ := by
  unfold injectOne
  have : ((matcherSuccs g x).length != 2) = false := by simp [h]
  simp only [matcherSuccs] at this ⊢
  simp only [this, Bool.false_eq_true, ↓reduceIte, addNode]
  apply graph_ext
  · simp only [addEdge]
    rw [foldl_addEdge_nodes]
  · simp only [addEdge]
    rw [foldl_addEdge_edges]

/-- what the injection leaves alone, relative to the graph `g0` it started from: the kinds of the nodes of
    `g0`, and the successors of every node of `g0` it has not worked on yet. -/
structure Rel (g0 g : Graph) (done : List Nat) : Prop where
  size : g0.size ≤ g.size
  kind : ∀ n, n < g0.size → g.kind n = g0.kind n
  succs : ∀ y, y < g0.size → y ∉ done → g.succs y = g0.succs y

theorem Rel.refl (g : Graph) : Rel g g [] := ⟨Nat.le_refl _, fun _ _ => rfl, fun _ _ _ => rfl⟩

theorem Rel.matcherSuccs_eq {g0 g : Graph} {done : List Nat} (h : Rel g0 g done) (hc : Closed g0) (y : Nat)
    (hy : y < g0.size) (hd : y ∉ done) : matcherSuccs g y = matcherSuccs g0 y := by
  unfold Pxv.Err.matcherSuccs
  rw [h.succs y hy hd]
  apply List.filter_congr
  intro d hd'
  obtain ⟨e, he, _, rfl⟩ := mem_succs.mp hd'
  rw [h.kind e.dst (hc e he).2]

theorem Rel.step {g0 g : Graph} {done : List Nat} (h : Rel g0 g done) (x : Nat)
    (hx : x < g0.size) (h2 : (matcherSuccs g x).length = 2) : Rel g0 (injectOne g x) (x :: done) := by
  rw [injectOne_eq g x h2]
  refine ⟨?_, ?_, ?_⟩
  · have := h.size
    simp only [Graph.size, List.length_append, List.length_singleton] at this ⊢
    omega
  · intro n hn
    have hn' : n < g.nodes.length := Nat.lt_of_lt_of_le hn h.size
    have := kind_append_old g.nodes [.branch] g.edges n hn'
    rw [← h.kind n hn]
    simp only [Graph.kind] at this ⊢
    exact this
  · intro y hy hyd
    have hyx : y ≠ x := fun hc => hyd (by simp [hc])
    have hyd' : y ∉ done := fun hc => hyd (by simp [hc])
    rw [← h.succs y hy hyd']
    have hys : y ≠ g.size := by
      have := h.size
      omega
    simp only [Graph.succs, List.filter_append, List.map_append, List.filter_filter]
    have h1 : (g.edges.filter (fun a => a.src == y && !(a.src == x && (matcherSuccs g x).contains a.dst))) =
        g.edges.filter (fun a => a.src == y) := by
      apply List.filter_congr
      intro e _
      by_cases hs : e.src = y
      · simp [hs, hyx]
      · have : (e.src == y) = false := by simpa using hs
        simp [this]
    have h2' : ((matcherSuccs g x).map (fun m => (⟨g.size, m, .move⟩ : Edge))).filter (fun a => a.src == y) = [] := by
      apply List.filter_eq_nil_iff.mpr
      intro e he
      obtain ⟨m, _, rfl⟩ := List.mem_map.mp he
      simpa using fun hc => hys hc.symm
    have h3 : ([(⟨x, g.size, .move⟩ : Edge)]).filter (fun a => a.src == y) = [] := by
      simp only [List.filter_cons, List.filter_nil]
      have : (x == y) = false := by simpa using fun hc => hyx hc.symm
      simp [this]
    rw [h1, h2', h3]
    simp

/-- every fallible node of `xs` gets its `MatchBranching` node. -/
theorem injected_eq_length (g0 : Graph) (hc : Closed g0) : ∀ (xs : List Nat) (g : Graph) (done : List Nat),
    Rel g0 g done → xs.Nodup → (∀ x ∈ xs, x < g0.size ∧ x ∉ done ∧ (matcherSuccs g0 x).length = 2) →
      injected g xs = xs.length
  | [], _, _, _, _, _ => rfl
  | x :: xs, g, done, hr, hnd, hall => by
    obtain ⟨hx, hxd, h2⟩ := hall x List.mem_cons_self
    have h2' : (matcherSuccs g x).length = 2 := by rw [hr.matcherSuccs_eq hc x hx hxd]; exact h2
    have hcond : (((g.succs x).filter (fun m => g.kind m == .okMatch || g.kind m == .errMatch)).length != 2) = false := by
      have := h2'
      simp only [matcherSuccs] at this
      simp [this]
    simp only [injected, hcond, Bool.false_eq_true, ↓reduceIte, List.length_cons]
    have hnd' := List.nodup_cons.mp hnd
    rw [injected_eq_length g0 hc xs (injectOne g x) (x :: done) (hr.step x hx h2') hnd'.2]
    intro y hy
    obtain ⟨hy1, hy2, hy3⟩ := hall y (List.mem_cons_of_mem _ hy)
    refine ⟨hy1, ?_, hy3⟩
    intro hmem
    rcases List.mem_cons.mp hmem with rfl | hmem
    · exact hnd'.1 hy
    · exact hy2 hmem

/-! ### closedness and what the splice leaves alone -/

theorem addNode_closed {g : Graph} (k : Kind) (h : Closed g) : Closed (addNode g k).1 := by
  intro e he
  have := h e he
  simp only [addNode, Graph.size, List.length_append, List.length_singleton] at this ⊢
  constructor <;> omega

theorem addEdge_closed {g : Graph} (s d : Nat) (k : EK) (h : Closed g) (hs : s < g.size) (hd : d < g.size) :
    Closed (addEdge g s d k) := by
  intro e he
  simp only [addEdge, List.mem_append, List.mem_singleton] at he
  rcases he with he | rfl
  · exact h e he
  · exact ⟨hs, hd⟩

theorem attachObservers_closed (enew child : Nat) : ∀ (obs : List Nat) (g : Graph) (prev : Option Nat),
    Closed g → enew < g.size → child < g.size → (∀ p, prev = some p → p < g.size) →
      Closed (attachObservers g enew child obs prev)
  | [], g, prev, h, _, hc, hp => by
    cases prev with
    | none => simpa [attachObservers] using h
    | some p =>
      simp only [attachObservers]
      exact addEdge_closed p child .before h (hp p rfl) hc
  | o :: rest, g, prev, h, he, hc, hp => by
    have hsz : (addNode g (.observer o)).1.size = g.size + 1 := by simp [addNode, Graph.size]
    have h1 : Closed (addNode g (.observer o)).1 := addNode_closed _ h
    cases prev with
    | none =>
      simp only [attachObservers]
      apply attachObservers_closed enew child rest
      · exact addEdge_closed enew g.size .shared h1 (by rw [hsz]; omega) (by rw [hsz]; omega)
      · simp only [addEdge, addNode, Graph.size, List.length_append, List.length_singleton] at he ⊢; omega
      · simp only [addEdge, addNode, Graph.size, List.length_append, List.length_singleton] at hc ⊢; omega
      · intro p hpe
        cases hpe
        simp only [addEdge, addNode, Graph.size, List.length_append, List.length_singleton]; omega
    | some q =>
      simp only [attachObservers]
      have hq := hp q rfl
      have h2 : Closed (addEdge (addNode g (.observer o)).1 q g.size .before) :=
        addEdge_closed q g.size .before h1 (by rw [hsz]; omega) (by rw [hsz]; omega)
      have hsz2 : (addEdge (addNode g (.observer o)).1 q g.size .before).size = g.size + 1 := by
        simp [addEdge, addNode, Graph.size]
      apply attachObservers_closed enew child rest
      · exact addEdge_closed enew g.size .shared h2
          (by simp only [addEdge, addNode, Graph.size, List.length_append, List.length_singleton] at he ⊢; omega)
          (by simp only [addEdge, addNode, Graph.size, List.length_append, List.length_singleton]; omega)
      · simp only [addEdge, addNode, Graph.size, List.length_append, List.length_singleton] at he ⊢; omega
      · simp only [addEdge, addNode, Graph.size, List.length_append, List.length_singleton] at hc ⊢; omega
      · intro p hpe
        cases hpe
        simp only [addEdge, addNode, Graph.size, List.length_append, List.length_singleton]; omega

theorem succs_lt {g : Graph} (h : Closed g) {x d : Nat} (hd : d ∈ g.succs x) : d < g.size := by
  obtain ⟨e, he, _, rfl⟩ := mem_succs.mp hd
  exact (h e he).2

theorem preds_lt {g : Graph} (h : Closed g) {x p : Nat} (hp : p ∈ g.preds x) : p < g.size := by
  simp only [Graph.preds, List.mem_map, List.mem_filter] at hp
  obtain ⟨e, ⟨he, _⟩, rfl⟩ := hp
  exact (h e he).1

theorem errorNewOf_lt {g : Graph} (h : Closed g) {x e : Nat} (he : Pxv.Err.errorNewOf g x = some e) : e < g.size := by
  unfold Pxv.Err.errorNewOf at he
  split at he
  · exact succs_lt h (List.mem_of_find?_eq_some he)
  · exact preds_lt h (List.mem_of_find?_eq_some he)

theorem splice_closed (obs : List Nat) : ∀ (hs : List Nat) (g : Graph), Closed g → Closed (splice obs g hs)
  | [], g, h => by simpa [splice] using h
  | x :: hs, g, h => by
    simp only [splice]
    split
    · exact h
    · split
      · rename_i child enew hc he
        apply splice_closed obs hs
        have hx : x < g.size := by
          obtain ⟨e, hee, hsrc, _⟩ := mem_succs.mp (List.mem_of_mem_head? hc)
          rw [← hsrc]; exact (h e hee).1
        exact attachObservers_closed enew child obs g (some x) h (errorNewOf_lt h he)
          (succs_lt h (List.mem_of_mem_head? hc)) (by intro p hp; cases hp; exact hx)
      · exact splice_closed obs hs g h

theorem Ext.matcherSuccs_eq {C : Nat → Prop} {g g' : Graph} (h : Ext C g g') (hc : Closed g) (x : Nat)
    (hx : x < g.size) : matcherSuccs g' x = matcherSuccs g x := by
  obtain ⟨extra, hs, hnew⟩ := h.succs x hx
  unfold matcherSuccs
  rw [hs, List.filter_append]
  have h1 : (g.succs x).filter (fun m => g'.kind m == .okMatch || g'.kind m == .errMatch) =
      (g.succs x).filter (fun m => g.kind m == .okMatch || g.kind m == .errMatch) := by
    apply List.filter_congr
    intro d hd
    rw [h.kind_old (succs_lt hc hd)]
  have h2 : extra.filter (fun m => g'.kind m == .okMatch || g'.kind m == .errMatch) = [] := by
    apply List.filter_eq_nil_iff.mpr
    intro d hd
    rcases h.kind_new (hnew d hd) with hk | hk
    · cases hkk : g'.kind d <;> simp_all [isObserver]
    · rw [hk]; simp
  rw [h1, h2]; simp

theorem isFallible_old {C : Nat → Prop} {g g' : Graph} (h : Ext C g g') (hc : Closed g) (x : Nat) (hx : x < g.size) :
    ((g'.succs x).any (fun m => g'.kind m == .errMatch) && g'.kind x != .branch) =
      ((g.succs x).any (fun m => g.kind m == .errMatch) && g.kind x != .branch) := by
  obtain ⟨extra, hs, hnew⟩ := h.succs x hx
  rw [hs, List.any_append, h.kind_old hx]
  have h1 : (g.succs x).any (fun m => g'.kind m == .errMatch) = (g.succs x).any (fun m => g.kind m == .errMatch) := by
    apply Bool.eq_iff_iff.mpr
    simp only [List.any_eq_true]
    constructor
    · rintro ⟨d, hd, hk⟩
      exact ⟨d, hd, by rwa [h.kind_old (succs_lt hc hd)] at hk⟩
    · rintro ⟨d, hd, hk⟩
      exact ⟨d, hd, by rwa [h.kind_old (succs_lt hc hd)]⟩
  have h2 : extra.any (fun m => g'.kind m == .errMatch) = false := by
    apply List.any_eq_false.mpr
    intro d hd
    rcases h.kind_new (hnew d hd) with hk | hk
    · cases hkk : g'.kind d <;> simp_all [isObserver]
    · rw [hk]; simp
  rw [h1, h2]; simp

theorem Ext.fallibleNodes_eq {C : Nat → Prop} {g g' : Graph} (h : Ext C g g') (hc : Closed g)
    (hC : ∀ d, C d → d < g.size ∧ g.kind d ≠ .errMatch) : fallibleNodes g' = fallibleNodes g := by
  obtain ⟨ks, hk, _⟩ := h.nodes
  obtain ⟨es, he, hd⟩ := h.edges
  have hsz : g'.size = g.size + ks.length := by simp [Graph.size, hk]
  unfold fallibleNodes
  rw [hsz, List.range_add, List.filter_append]
  have h1 : (List.range g.size).filter (fun x => (g'.succs x).any (fun m => g'.kind m == .errMatch) && g'.kind x != .branch) =
      (List.range g.size).filter (fun x => (g.succs x).any (fun m => g.kind m == .errMatch) && g.kind x != .branch) := by
    apply List.filter_congr
    intro x hx
    exact isFallible_old h hc x (List.mem_range.mp hx)
  have h2 : ((List.range ks.length).map (fun x => g.size + x)).filter
      (fun x => (g'.succs x).any (fun m => g'.kind m == .errMatch) && g'.kind x != .branch) = [] := by
    apply List.filter_eq_nil_iff.mpr
    intro x hx
    obtain ⟨i, _, rfl⟩ := List.mem_map.mp hx
    have hany : (g'.succs (g.size + i)).any (fun m => g'.kind m == .errMatch) = false := by
      apply List.any_eq_false.mpr
      intro d hdm
      obtain ⟨e, hee, hes, rfl⟩ := mem_succs.mp hdm
      rw [he] at hee
      rcases List.mem_append.mp hee with hee | hee
      · have := (hc e hee).1
        omega
      · rcases hd e hee with hdst | ⟨_, hcd⟩
        · rcases h.kind_new hdst with hkk | hkk
          · cases hk2 : g'.kind e.dst <;> simp_all [isObserver]
          · rw [hkk]; simp
        · obtain ⟨hlt, hne⟩ := hC e.dst hcd
          rw [h.kind_old hlt]
          simpa using hne
    simp [hany]
  rw [h1, h2]; simp

theorem attachObservers_nodes : ∀ (obs : List Nat) (g : Graph) (enew child : Nat) (prev : Option Nat),
    (attachObservers g enew child obs prev).nodes = g.nodes ++ obs.map Kind.observer
  | [], g, _, _, prev => by
    cases prev <;> simp [attachObservers, addEdge]
  | o :: rest, g, enew, child, prev => by
    simp only [attachObservers, addNode]
    rw [attachObservers_nodes rest]
    cases prev <;> simp [addEdge]

/-! ### the chain the splice builds -/

/-- the edges `attachObservers` adds, in closed form -/
def genEdges (enew child : Nat) : Nat → Nat → Option Nat → List Edge
  | _, 0, prev =>
    match prev with
    | some p => [⟨p, child, .before⟩]
    | none => []
  | n0, k + 1, prev =>
    (match prev with
     | some p => [(⟨p, n0, .before⟩ : Edge)]
     | none => []) ++ [⟨enew, n0, .shared⟩] ++ genEdges enew child (n0 + 1) k (some n0)

theorem attachObservers_edges (enew child : Nat) : ∀ (obs : List Nat) (g : Graph) (prev : Option Nat),
    (attachObservers g enew child obs prev).edges = g.edges ++ genEdges enew child g.size obs.length prev
  | [], g, prev => by
    cases prev <;> simp [attachObservers, genEdges, addEdge]
  | o :: rest, g, prev => by
    simp only [attachObservers, List.length_cons, genEdges]
    rw [attachObservers_edges enew child rest]
    cases prev <;> simp [addEdge, addNode, Graph.size]

/-- which happens-before edges the splice adds -/
theorem genEdges_before (enew child : Nat) : ∀ (k n0 : Nat) (prev : Option Nat) (e : Edge),
    e ∈ genEdges enew child n0 k prev → e.kind = .before →
      (e.dst = child ∧ ((k = 0 ∧ prev = some e.src) ∨ (0 < k ∧ e.src = n0 + k - 1))) ∨
      (n0 < e.dst ∧ e.dst < n0 + k ∧ e.src + 1 = e.dst) ∨
      (0 < k ∧ e.dst = n0 ∧ prev = some e.src)
  | 0, n0, prev, e, he, _ => by
    cases prev with
    | none => simp [genEdges] at he
    | some p =>
      simp only [genEdges, List.mem_singleton] at he
      subst he
      exact Or.inl ⟨rfl, Or.inl ⟨rfl, rfl⟩⟩
  | k + 1, n0, prev, e, he, hk => by
    simp only [genEdges, List.mem_append, List.mem_singleton] at he
    rcases he with (he | he) | he
    · cases prev with
      | none => simp at he
      | some p =>
        simp only [List.mem_singleton] at he
        subst he
        exact Or.inr (Or.inr ⟨by omega, rfl, rfl⟩)
    · subst he; cases hk
    · rcases genEdges_before enew child k (n0 + 1) (some n0) e he hk with ⟨hd, h⟩ | ⟨h1, h2, h3⟩ | ⟨h1, h2, h3⟩
      · refine Or.inl ⟨hd, Or.inr ⟨by omega, ?_⟩⟩
        rcases h with ⟨hk0, hp⟩ | ⟨hk0, hs⟩
        · cases hp; omega
        · omega
      · exact Or.inr (Or.inl ⟨by omega, by omega, h3⟩)
      · cases h3
        exact Or.inr (Or.inl ⟨by omega, by omega, by omega⟩)

/-- … and it does add the links of the chain. -/
theorem genEdges_links (enew child : Nat) : ∀ (k n0 : Nat) (prev : Option Nat),
    (∀ i, 0 < i → i < k → (⟨n0 + i - 1, n0 + i, .before⟩ : Edge) ∈ genEdges enew child n0 k prev) ∧
    (0 < k → (⟨n0 + k - 1, child, .before⟩ : Edge) ∈ genEdges enew child n0 k prev)
  | 0, _, _ => ⟨fun i h1 h2 => by omega, fun h => by omega⟩
  | k + 1, n0, prev => by
    obtain ⟨ih1, ih2⟩ := genEdges_links enew child k (n0 + 1) (some n0)
    constructor
    · intro i hi hik
      simp only [genEdges, List.mem_append, List.mem_singleton]
      right
      by_cases h1 : i = 1
      · subst h1
        -- the first link is the `prev` edge of the recursive call
        cases k with
        | zero => omega
        | succ k' => simp [genEdges]
      · have := ih1 (i - 1) (by omega) (by omega)
        have e1 : n0 + 1 + (i - 1) - 1 = n0 + i - 1 := by omega
        have e2 : n0 + 1 + (i - 1) = n0 + i := by omega
        rw [e1, e2] at this
        exact this
    · intro _
      simp only [genEdges, List.mem_append, List.mem_singleton]
      right
      cases k with
      | zero => simp [genEdges]
      | succ k' =>
        have := ih2 (by omega)
        have e1 : n0 + 1 + (k' + 1) - 1 = n0 + (k' + 1 + 1) - 1 := by omega
        rw [e1] at this
        exact this

theorem mem_unitBefores {g : Graph} {p n : Nat} :
    p ∈ unitBefores g n ↔ p < g.size ∧ isUnit (g.kind p) = true ∧ ∃ e ∈ g.edges, e.src = p ∧ e.dst = n ∧ e.kind = .before := by
  simp only [unitBefores, List.mem_filter, mem_befores]
  constructor
  · rintro ⟨⟨h1, h2⟩, h3⟩; exact ⟨h1, h3, h2⟩
  · rintro ⟨h1, h3, h2⟩; exact ⟨⟨h1, h2⟩, h3⟩

theorem unitBefores_eq_filter (g : Graph) (n : Nat) :
    unitBefores g n = (List.range g.size).filter (fun p =>
      g.edges.any (fun e => e.src == p && e.dst == n && e.kind == .before) && isUnit (g.kind p)) := by
  simp [unitBefores, Graph.befores, List.filter_filter, Bool.and_comm]

theorem filter_singleton_of {l : List Nat} {a : Nat} {q : Nat → Bool} (hnd : l.Nodup) (ha : a ∈ l) (hq : q a = true)
    (hall : ∀ n ∈ l, q n = true → n = a) : l.filter q = [a] := by
  induction l with
  | nil => cases ha
  | cons b l ih =>
    have hnd' := List.nodup_cons.mp hnd
    rcases List.mem_cons.mp ha with rfl | ha
    · simp only [List.filter_cons, hq, ↓reduceIte, List.cons.injEq, true_and]
      apply List.filter_eq_nil_iff.mpr
      intro n hn hqn
      have := hall n (List.mem_cons_of_mem _ hn) hqn
      subst this
      exact hnd'.1 hn
    · have hb : q b = false := by
        cases hqb : q b with
        | false => rfl
        | true =>
          have := hall b List.mem_cons_self hqb
          subst this
          exact absurd ha hnd'.1
      simp only [List.filter_cons, hb, Bool.false_eq_true, ↓reduceIte]
      exact ih hnd'.2 ha (fun n hn => hall n (List.mem_cons_of_mem _ hn))

/-- **the chain the splice builds for one error handler**: in `attachObservers g enew child obs prev` (`prev` = nothing,
    or the error handler itself: a node WITH an output, after which the first observer must run), for a
    `child` in front of which nothing is inlined yet, the chain of output-less nodes that happen before `child`
    is exactly the new nodes, in order, and they are the observers `obs`, in order. -/
theorem attachObservers_chain (g : Graph) (hc : Closed g) (enew child : Nat) (hchild : child < g.size)
    (hub : unitBefores g child = []) (obs : List Nat) (prev : Option Nat)
    (hprev : ∀ p, prev = some p → p < g.size ∧ isUnit (g.kind p) = false) (hne : obs = [] → prev = none) :
    chainOf (attachObservers g enew child obs prev) (attachObservers g enew child obs prev).size child =
        (List.range obs.length).map (g.size + ·) ∧
    ∀ i (hi : i < obs.length), (attachObservers g enew child obs prev).kind (g.size + i) = .observer obs[i] := by
  have hnodes := attachObservers_nodes obs g enew child prev
  have hedges := attachObservers_edges enew child obs g prev
  generalize hg' : attachObservers g enew child obs prev = g' at hnodes hedges ⊢
  have hsize : g'.size = g.size + obs.length := by simp [Graph.size, hnodes]
  have hkold : ∀ n, n < g.size → g'.kind n = g.kind n := by
    intro n hn
    simp only [Graph.kind, hnodes, List.getD_eq_getElem?_getD]
    rw [List.getElem?_append_left hn]
  have hknew : ∀ i (hi : i < obs.length), g'.kind (g.size + i) = .observer obs[i] := by
    intro i hi
    simp only [Graph.kind, hnodes, List.getD_eq_getElem?_getD]
    rw [List.getElem?_append_right (by simp [Graph.size])]
    simp [Graph.size, hi]
  refine ⟨?_, hknew⟩
  -- the happens-before edges of `g'` that end in a new node or in `child`
  have hbef : ∀ e ∈ g'.edges, e.kind = .before → e.dst = child ∨ g.size ≤ e.dst →
      e ∈ g.edges ∨ e ∈ genEdges enew child g.size obs.length prev := by
    intro e he _ _
    rw [hedges] at he
    exact List.mem_append.mp he
  -- what is inlined in front of the `i`-th new node
  have hnew : ∀ i, i < obs.length → unitBefores g' (g.size + i) = if i = 0 then [] else [g.size + i - 1] := by
    intro i hi
    split
    · rename_i hi0
      subst hi0
      rw [unitBefores_eq_filter]
      apply List.filter_eq_nil_iff.mpr
      intro p _ hq
      simp only [Bool.and_eq_true, List.any_eq_true, beq_iff_eq] at hq
      obtain ⟨⟨e, he, ⟨⟨hs, hd⟩, hk⟩⟩, hu⟩ := hq
      rw [hedges] at he
      rcases List.mem_append.mp he with he | he
      · have := (hc e he).2
        omega
      · rcases genEdges_before enew child _ _ prev e he hk with ⟨h1, _⟩ | ⟨h1, _, _⟩ | ⟨_, _, h3⟩
        · omega
        · omega
        · -- the edge from `prev` (the error handler): it has an output, nothing is inlined for it
          obtain ⟨hpl, hpu⟩ := hprev e.src h3
          rw [← hs, hkold _ hpl, hpu] at hu
          cases hu
    · rename_i hi0
      rw [unitBefores_eq_filter]
      apply filter_singleton_of List.nodup_range
      · exact List.mem_range.mpr (by omega)
      · have hlink := (genEdges_links enew child obs.length g.size prev).1 i (by omega) hi
        have hk := hknew (i - 1) (by omega)
        have e1 : g.size + (i - 1) = g.size + i - 1 := by omega
        rw [e1] at hk
        simp only [Bool.and_eq_true, List.any_eq_true, beq_iff_eq]
        refine ⟨⟨⟨g.size + i - 1, g.size + i, .before⟩, ?_, ⟨⟨rfl, rfl⟩, rfl⟩⟩, by rw [hk]; rfl⟩
        rw [hedges]; exact List.mem_append_right _ hlink
      · intro p _ hq
        simp only [Bool.and_eq_true, List.any_eq_true, beq_iff_eq] at hq
        obtain ⟨⟨e, he, ⟨⟨hs, hd⟩, hk⟩⟩, _⟩ := hq
        rw [hedges] at he
        rcases List.mem_append.mp he with he | he
        · have := (hc e he).2
          omega
        · rcases genEdges_before enew child _ _ prev e he hk with ⟨h1, _⟩ | ⟨_, _, h3⟩ | ⟨_, h2, _⟩
          · omega
          · omega
          · omega
  -- the chain in front of the `i`-th new node
  have hchain : ∀ i, i < obs.length → ∀ fuel, i < fuel →
      chainOf g' fuel (g.size + i) = (List.range i).map (g.size + ·) := by
    intro i
    induction i with
    | zero =>
      intro hi fuel hf
      cases fuel with
      | zero => omega
      | succ f =>
        have h0 := hnew 0 hi
        simp only [Nat.add_zero, ↓reduceIte] at h0
        simp [chainOf, h0]
    | succ j ih =>
      intro hi fuel hf
      cases fuel with
      | zero => omega
      | succ f =>
        simp only [chainOf, hnew (j + 1) hi, Nat.add_one_ne_zero, ↓reduceIte]
        have e1 : g.size + (j + 1) - 1 = g.size + j := by omega
        rw [e1, ih (by omega) f (by omega), List.range_succ]
        simp
  cases hk : obs.length with
  | zero =>
    -- no observers: nothing was added in front of `child`
    have hnil : obs = [] := List.length_eq_zero_iff.mp hk
    have hpn : prev = none := hne hnil
    subst hnil
    subst hpn
    have : g' = g := by rw [← hg']; rfl
    subst this
    have hsz : 0 < g'.size := by omega
    cases hs : g'.size with
    | zero => omega
    | succ f => simp [chainOf, hub]
  | succ k =>
    have hlast : unitBefores g' child = [g.size + k] := by
      rw [unitBefores_eq_filter]
      apply filter_singleton_of List.nodup_range
      · exact List.mem_range.mpr (by omega)
      · have hlink := (genEdges_links enew child obs.length g.size prev).2 (by omega)
        have hkk := hknew k (by omega)
        simp only [Bool.and_eq_true, List.any_eq_true, beq_iff_eq]
        have e1 : g.size + obs.length - 1 = g.size + k := by omega
        rw [e1] at hlink
        refine ⟨⟨⟨g.size + k, child, .before⟩, ?_, ⟨⟨rfl, rfl⟩, rfl⟩⟩, by rw [hkk]; rfl⟩
        rw [hedges]; exact List.mem_append_right _ hlink
      · intro p hp hq
        simp only [Bool.and_eq_true, List.any_eq_true, beq_iff_eq] at hq
        obtain ⟨⟨e, he, ⟨⟨hs, hd⟩, hkb⟩⟩, hu⟩ := hq
        rw [hedges] at he
        rcases List.mem_append.mp he with he | he
        · -- an old happens-before predecessor of `child` without output: excluded by `hub`
          exfalso
          have hpl : p < g.size := by rw [← hs]; exact (hc e he).1
          have : p ∈ unitBefores g child := by
            apply mem_unitBefores.mpr
            refine ⟨hpl, ?_, e, he, hs, hd, hkb⟩
            rw [← hkold p hpl]; exact hu
          rw [hub] at this; cases this
        · rcases genEdges_before enew child _ _ prev e he hkb with ⟨_, h | h⟩ | ⟨h1, _, _⟩ | ⟨_, h2, _⟩
          · omega
          · omega
          · omega
          · omega
    rw [hsize, hk]
    have hf : g.size + (k + 1) = (g.size + k) + 1 := by omega
    rw [hf]
    simp only [chainOf, hlast]
    rw [hchain k (by omega) (g.size + k) (by omega), List.range_succ]
    simp

end Pxv.Err
