import Pxv.Model.Matchit
/-! Helper lemmas for C07: the semantic `at` of the matchit model (`atGo`) returns a matching
    route, the most specific one, and misses none — the latter two when no two routes carry nested
    parameter suffixes at the same position. -/
namespace Pxv.Matchit

/-! ### membership in the advanced route sets -/

theorem mem_advC {y : Char} {S : RSet} {i : Nat} {t : List Tok} :
    (i, t) ∈ advC y S ↔ (i, Tok.c y :: t) ∈ S := by
  unfold advC
  simp only [List.mem_filterMap]
  constructor
  · rintro ⟨⟨j, u⟩, hmem, h⟩
    cases u with
    | nil => simp at h
    | cons x u =>
      cases x with
      | c x =>
        simp only at h
        split at h
        · rename_i hx; simp at h; obtain ⟨rfl, rfl⟩ := h; subst hx; exact hmem
        · simp at h
      | par s => simp at h
      | star => simp at h
  · intro h
    exact ⟨(i, Tok.c y :: t), h, by simp⟩

theorem mem_advPar {suf : List Char} {S : RSet} {i : Nat} {t : List Tok} :
    (i, t) ∈ advPar suf S ↔ (i, Tok.par suf :: t) ∈ S := by
  unfold advPar
  simp only [List.mem_filterMap]
  constructor
  · rintro ⟨⟨j, u⟩, hmem, h⟩
    cases u with
    | nil => simp at h
    | cons x u =>
      cases x with
      | c x => simp at h
      | par s =>
        simp only at h
        split at h
        · rename_i hx; simp at h; obtain ⟨rfl, rfl⟩ := h; subst hx; exact hmem
        · simp at h
      | star => simp at h
  · intro h
    exact ⟨(i, Tok.par suf :: t), h, by simp⟩

theorem atGo_nil (S : RSet) : atGo S [] = endsHere S := by
  simp [atGo, atFuel]

/-- What `{param}`-routes contribute at the current position. -/
def parStep (S : RSet) (y : Char) (p : List Char) (rec : RSet → List Char → Option Nat) : Option Nat :=
  if y = '/' then none
  else match longest (parCands S (splitSeg (y :: p)).1 (splitSeg (y :: p)).2.isEmpty) with
    | none => none
    | some suf => rec (advPar suf S) (splitSeg (y :: p)).2

theorem splitSeg_snd_le' {y : Char} (p : List Char) (h : y ≠ '/') : (splitSeg (y :: p)).2.length ≤ p.length := by
  unfold splitSeg
  simp only [List.dropWhile_cons, ne_eq, h, not_false_eq_true, decide_true, ↓reduceIte]
  exact length_dropWhile_le _ _

/-- More fuel than the path is long changes nothing. -/
theorem atFuel_mono : ∀ (n m : Nat) (S : RSet) (p : List Char), p.length < n → p.length < m →
    atFuel n S p = atFuel m S p := by
  intro n
  induction n with
  | zero => intro m S p h; cases h
  | succ n ih =>
    intro m S p hn hm
    cases m with
    | zero => cases hm
    | succ m =>
      cases p with
      | nil => simp [atFuel]
      | cons y p =>
        have hn' : p.length < n := by simpa using hn
        have hm' : p.length < m := by simpa using hm
        simp only [atFuel]
        rw [ih m (advC y S) p hn' hm']
        by_cases hy : y = '/'
        · simp [hy]
        · simp only [hy, ↓reduceIte]
          have hr := splitSeg_snd_le' p hy
          cases longest (parCands S (splitSeg (y :: p)).1 (splitSeg (y :: p)).2.isEmpty) with
          | none => rfl
          | some suf =>
            simp only
            rw [ih m (advPar suf S) (splitSeg (y :: p)).2 (by omega) (by omega)]

theorem atGo_cons (S : RSet) (y : Char) (p : List Char) :
    atGo S (y :: p) =
      match atGo (advC y S) p with
      | some i => some i
      | none =>
        match parStep S y p atGo with
        | some i => some i
        | none => starHere S := by
  unfold parStep
  simp only [atGo, List.length_cons, atFuel]
  by_cases hy : y = '/'
  · simp [hy]; rfl
  · simp only [hy, ↓reduceIte]
    have hr := splitSeg_snd_le' p hy
    cases longest (parCands S (splitSeg (y :: p)).1 (splitSeg (y :: p)).2.isEmpty) with
    | none => rfl
    | some suf =>
      simp only
      rw [atFuel_mono (p.length + 1) ((splitSeg (y :: p)).2.length + 1) (advPar suf S) (splitSeg (y :: p)).2 (by omega) (by omega)]
      rfl

/-! ### `matchTok`, equation by equation -/

@[simp] theorem matchTok_nil_nil : matchTok [] [] = true := by simp [matchTok]
@[simp] theorem matchTok_nil_cons (y : Char) (p : List Char) : matchTok [] (y :: p) = false := by simp [matchTok]
@[simp] theorem matchTok_c_nil (x : Char) (ts : List Tok) : matchTok (.c x :: ts) [] = false := by simp [matchTok]
@[simp] theorem matchTok_c_cons (x y : Char) (ts : List Tok) (p : List Char) :
    matchTok (.c x :: ts) (y :: p) = (x == y && matchTok ts p) := by simp [matchTok]
theorem matchTok_par (suf : List Char) (ts : List Tok) (p : List Char) :
    matchTok (.par suf :: ts) p = (fits suf (splitSeg p).1 && matchTok ts (splitSeg p).2) := by
  cases p <;> simp [matchTok]
@[simp] theorem matchTok_star_nil (ts : List Tok) : matchTok (.star :: ts) [] = false := by simp [matchTok]
@[simp] theorem matchTok_star_cons (ts : List Tok) (y : Char) (p : List Char) :
    matchTok (.star :: ts) (y :: p) = true := by simp [matchTok]

theorem fits_nil_seg (suf : List Char) : fits suf [] = false := by simp [fits]

theorem matchTok_nil_right {t : List Tok} (h : matchTok t [] = true) : t = [] := by
  cases t with
  | nil => rfl
  | cons x ts =>
    cases x with
    | c x => simp at h
    | par s => rw [matchTok_par] at h; simp [splitSeg, fits_nil_seg] at h
    | star => simp at h

/-- A route goes on after a `{param}` exactly when the path does. -/
theorem matchTok_kind {t : List Tok} {rest : List Char} (h : matchTok t rest = true) :
    t.isEmpty = rest.isEmpty := by
  cases rest with
  | nil => rw [matchTok_nil_right h]; rfl
  | cons y p =>
    cases t with
    | nil => simp at h
    | cons x ts => simp

theorem fits_iff {suf seg : List Char} : fits suf seg = true ↔ suf.length < seg.length ∧ suf <:+ seg := by
  simp [fits, List.isSuffixOf_iff_suffix]

/-! ### the side conditions are inherited by the advanced sets -/

theorem NoNestedSuffix.advC {S : RSet} (h : NoNestedSuffix S) (y : Char) : NoNestedSuffix (advC y S) := by
  intro pre s1 s2 t1 t2 i j h1 h2
  rw [mem_advC] at h1 h2
  exact h (Tok.c y :: pre) s1 s2 t1 t2 i j h1 h2

theorem NoNestedSuffix.advPar {S : RSet} (h : NoNestedSuffix S) (s : List Char) : NoNestedSuffix (advPar s S) := by
  intro pre s1 s2 t1 t2 i j h1 h2
  rw [mem_advPar] at h1 h2
  exact h (Tok.par s :: pre) s1 s2 t1 t2 i j h1 h2

/-- Under `NoNestedSuffix`, two `{param}` routes at the current position whose suffixes both fit a
    segment have the same suffix. -/
theorem NoNestedSuffix.same_suffix {S : RSet} (h : NoNestedSuffix S) {s1 s2 seg : List Char} {t1 t2 : List Tok}
    {i j : Nat} (h1 : (i, Tok.par s1 :: t1) ∈ S) (h2 : (j, Tok.par s2 :: t2) ∈ S)
    (f1 : fits s1 seg = true) (f2 : fits s2 seg = true) : s1 = s2 := by
  rcases h [] s1 s2 t1 t2 i j h1 h2 with e | ⟨n1, n2⟩
  · exact e
  · rcases List.suffix_or_suffix_of_suffix (fits_iff.mp f1).2 (fits_iff.mp f2).2 with a | a
    · exact absurd a n1
    · exact absurd a n2

/-! ### `endsHere`, `starHere`, `longest`, `parCands` -/

theorem endsHere_some {S : RSet} {i : Nat} (h : endsHere S = some i) : (i, []) ∈ S := by
  unfold endsHere at h
  rw [Option.map_eq_some_iff] at h
  obtain ⟨⟨j, t⟩, hf, rfl⟩ := h
  have hm := List.mem_of_find?_eq_some hf
  have hp := List.find?_some hf
  simp at hp
  subst hp; exact hm

theorem endsHere_none {S : RSet} (h : endsHere S = none) {j : Nat} {t : List Tok} (hm : (j, t) ∈ S) : t ≠ [] := by
  unfold endsHere at h
  rw [Option.map_eq_none_iff] at h
  have := List.find?_eq_none.mp h (j, t) hm
  intro e; subst e; simp at this

theorem starHere_some {S : RSet} {i : Nat} (h : starHere S = some i) : ∃ ts, (i, Tok.star :: ts) ∈ S := by
  unfold starHere at h
  rw [Option.map_eq_some_iff] at h
  obtain ⟨⟨j, t⟩, hf, rfl⟩ := h
  have hm := List.mem_of_find?_eq_some hf
  have hp := List.find?_some hf
  cases t with
  | nil => simp [startsWithStar] at hp
  | cons x ts =>
    cases x with
    | star => exact ⟨ts, hm⟩
    | c x => simp [startsWithStar] at hp
    | par s => simp [startsWithStar] at hp

theorem starHere_none {S : RSet} (h : starHere S = none) {j : Nat} {ts : List Tok} : (j, Tok.star :: ts) ∉ S := by
  unfold starHere at h
  rw [Option.map_eq_none_iff] at h
  intro hm
  have := List.find?_eq_none.mp h (j, Tok.star :: ts) hm
  simp [startsWithStar] at this

theorem longest_none {l : List (List Char)} (h : longest l = none) : l = [] := by
  cases l with
  | nil => rfl
  | cons s ss =>
    simp only [longest] at h
    split at h
    · simp at h
    · split at h <;> simp at h

theorem longest_mem {l : List (List Char)} {s : List Char} (h : longest l = some s) : s ∈ l := by
  induction l generalizing s with
  | nil => simp [longest] at h
  | cons a as ih =>
    simp only [longest] at h
    split at h
    · simp at h; subst h; simp
    · rename_i b hb
      split at h
      · simp at h; subst h; exact List.mem_cons_of_mem _ (ih hb)
      · simp at h; subst h; simp

theorem mem_parCands {S : RSet} {seg : List Char} {last : Bool} {s : List Char} :
    s ∈ parCands S seg last ↔ ∃ i t, (i, Tok.par s :: t) ∈ S ∧ fits s seg = true ∧ t.isEmpty = last := by
  unfold parCands
  simp only [List.mem_filterMap]
  constructor
  · rintro ⟨⟨i, u⟩, hm, h⟩
    cases u with
    | nil => simp at h
    | cons x t =>
      cases x with
      | c x => simp at h
      | star => simp at h
      | par s' =>
        simp only at h
        split at h
        · rename_i hc
          simp at h; subst h
          simp at hc
          exact ⟨i, t, hm, hc.1, hc.2⟩
        · simp at h
  · rintro ⟨i, t, hm, hf, hk⟩
    refine ⟨(i, Tok.par s :: t), hm, ?_⟩
    simp [hf, hk]


/-! ### specificity -/

theorem specGE_c_c (y : Char) (a b : List Tok) : specGE (.c y :: a) (.c y :: b) = specGE a b := by
  simp [specGE]
theorem specGE_par_par (s : List Char) (a b : List Tok) : specGE (.par s :: a) (.par s :: b) = specGE a b := by
  simp [specGE]
theorem specGE_c_par (y : Char) (s : List Char) (a b : List Tok) : specGE (.c y :: a) (.par s :: b) = true := by
  simp [specGE, Tok.rank]
theorem specGE_c_star (y : Char) (a b : List Tok) : specGE (.c y :: a) (.star :: b) = true := by
  simp [specGE, Tok.rank]
theorem specGE_par_star (s : List Char) (a b : List Tok) : specGE (.par s :: a) (.star :: b) = true := by
  simp [specGE, Tok.rank]
theorem specGE_star_star (a b : List Tok) : specGE (.star :: a) (.star :: b) = true := by
  simp [specGE]

theorem splitSeg_slash (p : List Char) : splitSeg ('/' :: p) = ([], '/' :: p) := by
  simp [splitSeg]

theorem splitSeg_snd_lt {y : Char} (p : List Char) (h : y ≠ '/') : (splitSeg (y :: p)).2.length ≤ p.length := by
  unfold splitSeg
  simp only [List.dropWhile_cons, ne_eq, h, not_false_eq_true, decide_true, ↓reduceIte]
  exact length_dropWhile_le _ _

/-- The statement proved by induction on the length of the path: `atGo` returns a matching route
    that is at least as specific as every other matching route, and finds one whenever there is one. -/
def AtSpec (S : RSet) (p : List Char) : Prop :=
  (∀ i, atGo S p = some i → ∃ t, (i, t) ∈ S ∧ matchTok t p = true ∧
      ∀ j t', (j, t') ∈ S → matchTok t' p = true → specGE t t' = true) ∧
  (atGo S p = none → ∀ j t', (j, t') ∈ S → matchTok t' p = false)

theorem atGo_spec_aux (n : Nat) : ∀ (S : RSet) (p : List Char), p.length ≤ n → NoNestedSuffix S → AtSpec S p := by
  induction n with
  | zero =>
    intro S p hp hN
    have : p = [] := List.eq_nil_of_length_eq_zero (Nat.le_zero.mp hp)
    subst this
    refine ⟨?_, ?_⟩
    · intro i h
      rw [atGo_nil] at h
      refine ⟨[], endsHere_some h, by simp, ?_⟩
      intro j t' _ hm'
      rw [matchTok_nil_right hm']; simp [specGE]
    · intro h j t' hm
      rw [atGo_nil] at h
      have := endsHere_none h hm
      cases t' with
      | nil => exact absurd rfl this
      | cons x ts =>
        cases hmt : matchTok (x :: ts) [] with
        | false => rfl
        | true => exact absurd (matchTok_nil_right hmt) (by simp)
  | succ n ih =>
    intro S p hp hN
    cases p with
    | nil => exact ih S [] (by simp) hN
    | cons y p =>
      have hlen : p.length ≤ n := by simpa using hp
      have ihC := ih (advC y S) p hlen (hN.advC y)
      -- facts about the three kinds of routes at this position
      have cRoute : ∀ j x t'', (j, Tok.c x :: t'') ∈ S → matchTok (Tok.c x :: t'') (y :: p) = true →
          (j, t'') ∈ advC y S ∧ matchTok t'' p = true ∧ x = y := by
        intro j x t'' hm hmt
        simp at hmt
        obtain ⟨hx, hmt⟩ := hmt
        subst hx
        exact ⟨mem_advC.mpr hm, hmt, rfl⟩
      unfold AtSpec
      rw [atGo_cons]
      cases hs : atGo (advC y S) p with
      | some k =>
        simp only
        obtain ⟨t0, hm0, hmt0, hmax0⟩ := ihC.1 k hs
        refine ⟨?_, by intro h; cases h⟩
        intro i hi
        cases hi
        refine ⟨Tok.c y :: t0, mem_advC.mp hm0, by simp [hmt0], ?_⟩
        intro j t' hm' hmt'
        cases t' with
        | nil => simp at hmt'
        | cons x t'' =>
          cases x with
          | c x =>
            obtain ⟨ha, hb, hx⟩ := cRoute j x t'' hm' hmt'
            subst hx
            rw [specGE_c_c]; exact hmax0 j t'' ha hb
          | par s => exact specGE_c_par _ _ _ _
          | star => exact specGE_c_star _ _ _
      | none =>
        simp only
        have noC : ∀ j x t'', (j, Tok.c x :: t'') ∈ S → matchTok (Tok.c x :: t'') (y :: p) = false := by
          intro j x t'' hm
          cases hmt : matchTok (Tok.c x :: t'') (y :: p) with
          | false => rfl
          | true =>
            obtain ⟨ha, hb, _⟩ := cRoute j x t'' hm hmt
            rw [ihC.2 hs j t'' ha] at hb; cases hb
        -- the `{param}` step
        have parFacts :
            (∀ i, parStep S y p atGo = some i → ∃ t, (i, t) ∈ S ∧ matchTok t (y :: p) = true ∧
              ∀ j t', (j, t') ∈ S → matchTok t' (y :: p) = true → specGE t t' = true) ∧
            (parStep S y p atGo = none → ∀ j s t'', (j, Tok.par s :: t'') ∈ S →
              matchTok (Tok.par s :: t'') (y :: p) = false) := by
          unfold parStep
          by_cases hy : y = '/'
          · subst hy
            simp only [↓reduceIte]
            refine ⟨(by intro i h; cases h), ?_⟩
            intro _ j s t'' _
            rw [matchTok_par, splitSeg_slash]; simp [fits_nil_seg]
          · simp only [hy, ↓reduceIte]
            have hrest : (splitSeg (y :: p)).2.length ≤ n := Nat.le_trans (splitSeg_snd_lt p hy) hlen
            cases hl : longest (parCands S (splitSeg (y :: p)).1 (splitSeg (y :: p)).2.isEmpty) with
            | none =>
              simp only
              refine ⟨(by intro i h; cases h), ?_⟩
              intro _ j s t'' hm
              cases hmt : matchTok (Tok.par s :: t'') (y :: p) with
              | false => rfl
              | true =>
                rw [matchTok_par] at hmt
                simp at hmt
                have : s ∈ parCands S (splitSeg (y :: p)).1 (splitSeg (y :: p)).2.isEmpty :=
                  mem_parCands.mpr ⟨j, t'', hm, hmt.1, matchTok_kind hmt.2⟩
                rw [longest_none hl] at this; cases this
            | some suf =>
              simp only
              obtain ⟨i0, t0', hsufS, hsufFits, _⟩ := mem_parCands.mp (longest_mem hl)
              have ihP := ih (advPar suf S) (splitSeg (y :: p)).2 hrest (hN.advPar suf)
              -- every matching `{param}` route carries the committed suffix
              have sameSuf : ∀ j s t'', (j, Tok.par s :: t'') ∈ S → matchTok (Tok.par s :: t'') (y :: p) = true →
                  s = suf ∧ (j, t'') ∈ advPar suf S ∧ matchTok t'' (splitSeg (y :: p)).2 = true := by
                intro j s t'' hm hmt
                rw [matchTok_par] at hmt
                simp at hmt
                have e : s = suf := hN.same_suffix hm hsufS hmt.1 hsufFits
                subst e
                exact ⟨rfl, mem_advPar.mpr hm, hmt.2⟩
              refine ⟨?_, ?_⟩
              · intro i hi
                obtain ⟨t0, hm0, hmt0, hmax0⟩ := ihP.1 i hi
                refine ⟨Tok.par suf :: t0, mem_advPar.mp hm0, ?_, ?_⟩
                · rw [matchTok_par]; simp [hsufFits, hmt0]
                · intro j t' hm' hmt'
                  cases t' with
                  | nil => simp at hmt'
                  | cons x t'' =>
                    cases x with
                    | c x => rw [noC j x t'' hm'] at hmt'; cases hmt'
                    | par s =>
                      obtain ⟨e, ha, hb⟩ := sameSuf j s t'' hm' hmt'
                      subst e
                      rw [specGE_par_par]; exact hmax0 j t'' ha hb
                    | star => exact specGE_par_star _ _ _
              · intro hnone j s t'' hm
                cases hmt : matchTok (Tok.par s :: t'') (y :: p) with
                | false => rfl
                | true =>
                  obtain ⟨_, ha, hb⟩ := sameSuf j s t'' hm hmt
                  rw [ihP.2 hnone j t'' ha] at hb; cases hb
        cases hp2 : parStep S y p atGo with
        | some k =>
          simp only
          refine ⟨?_, by intro h; cases h⟩
          intro i hi
          cases hi
          exact parFacts.1 k hp2
        | none =>
          simp only
          have noP := parFacts.2 hp2
          refine ⟨?_, ?_⟩
          · intro i hi
            obtain ⟨ts, hm⟩ := starHere_some hi
            refine ⟨Tok.star :: ts, hm, by simp, ?_⟩
            intro j t' hm' hmt'
            cases t' with
            | nil => simp at hmt'
            | cons x t'' =>
              cases x with
              | c x => rw [noC j x t'' hm'] at hmt'; cases hmt'
              | par s => rw [noP j s t'' hm'] at hmt'; cases hmt'
              | star => exact specGE_star_star _ _
          · intro hnone j t' hm'
            cases t' with
            | nil => simp
            | cons x t'' =>
              cases x with
              | c x => exact noC j x t'' hm'
              | par s => exact noP j s t'' hm'
              | star => exact absurd hm' (starHere_none hnone)

/-- **`at` is sound, complete and most-specific-first** (the latter two under `NoNestedSuffix`). -/
theorem atGo_spec (S : RSet) (p : List Char) (hN : NoNestedSuffix S) : AtSpec S p :=
  atGo_spec_aux p.length S p (Nat.le_refl _) hN


/-! ### deciding the side condition -/

theorem nestedSuffix_append (pre : List Tok) (s1 s2 : List Char) (t1 t2 : List Tok) (hne : s1 ≠ s2) :
    nestedSuffix (pre ++ Tok.par s1 :: t1) (pre ++ Tok.par s2 :: t2) = (s1.isSuffixOf s2 || s2.isSuffixOf s1) := by
  induction pre with
  | nil => simp [nestedSuffix, hne]
  | cons x pre ih =>
    cases x with
    | c ch => simp [nestedSuffix, ih]
    | par s => simp [nestedSuffix, ih]
    | star => simp [nestedSuffix, ih]

theorem noNestedSuffix_of_check {S : RSet} (h : noNestedSuffixB S = true) : NoNestedSuffix S := by
  intro pre s1 s2 t1 t2 i j h1 h2
  by_cases e : s1 = s2
  · exact Or.inl e
  · right
    unfold noNestedSuffixB at h
    rw [List.all_eq_true] at h
    have := h _ h1
    rw [List.all_eq_true] at this
    have := this _ h2
    simp only [Bool.not_eq_eq_eq_not, Bool.not_true] at this
    rw [nestedSuffix_append pre s1 s2 t1 t2 e] at this
    simp only [Bool.or_eq_false_iff] at this
    constructor
    · intro hs; rw [← List.isSuffixOf_iff_suffix] at hs; rw [hs] at this; exact absurd this.1 (by simp)
    · intro hs; rw [← List.isSuffixOf_iff_suffix] at hs; rw [hs] at this; exact absurd this.2 (by simp)


/-! ### the most specific matching pattern is unique -/

/-- A catch-all ends the route. -/
def StarLast : List Tok → Prop
  | [] => True
  | .star :: ts => ts = []
  | _ :: ts => StarLast ts

theorem toksGo_starLast : ∀ (fuel : Nat) (r : Rt), StarLast (toksGo fuel r) := by
  intro fuel
  induction fuel with
  | zero => intro r; simp [toksGo, StarLast]
  | succ n ih =>
    intro r
    cases r with
    | nil => simp [toksGo, StarLast]
    | cons b rest =>
      simp only [toksGo]
      split
      · split
        · simp [StarLast]
        · simp only [StarLast]; exact ih _
      · simp only [StarLast]; exact ih _

theorem toks_starLast (route : List Char) : StarLast (toks route) := by
  unfold toks
  split
  · exact toksGo_starLast _ _
  · simp [StarLast]

theorem specGE_antisymm : ∀ (a b : List Tok) (p : List Char), matchTok a p = true → matchTok b p = true →
    specGE a b = true → specGE b a = true → StarLast a → StarLast b → a = b := by
  intro a
  induction a with
  | nil =>
    intro b p ha hb _ _ _ _
    cases p with
    | nil => exact (matchTok_nil_right hb).symm
    | cons y p => simp at ha
  | cons x as ih =>
    intro b p ha hb h1 h2 sa sb
    cases b with
    | nil =>
      cases p with
      | nil => exact absurd (matchTok_nil_right ha) (by simp)
      | cons y p => simp at hb
    | cons y bs =>
      by_cases hxy : x = y
      · subst hxy
        cases x with
        | c ch =>
          cases p with
          | nil => simp at ha
          | cons z p =>
            simp at ha hb
            rw [specGE_c_c] at h1 h2
            rw [ih bs p ha.2 hb.2 h1 h2 sa sb]
        | par s =>
          rw [matchTok_par] at ha hb
          simp at ha hb
          rw [specGE_par_par] at h1 h2
          rw [ih bs _ ha.2 hb.2 h1 h2 sa sb]
        | star =>
          simp only [StarLast] at sa sb
          rw [sa, sb]
      · exfalso
        cases x with
        | c ch =>
          cases y with
          | c ch' =>
            cases p with
            | nil => simp at ha
            | cons z p =>
              simp at ha hb
              exact hxy (by rw [ha.1, hb.1])
          | par s => simp [specGE, Tok.rank] at h2
          | star => simp [specGE, Tok.rank] at h2
        | par s =>
          cases y with
          | c ch' => simp [specGE, Tok.rank] at h1
          | par s' =>
            rw [matchTok_par] at ha hb
            simp at ha hb
            have hne : ¬ (Tok.par s = Tok.par s') := hxy
            have hne' : ¬ (Tok.par s' = Tok.par s) := fun e => hxy e.symm
            simp [specGE, Tok.rank, hne, hne'] at h1 h2
            have hlen : s.length = s'.length := by omega
            have f1 := (fits_iff.mp ha.1).2
            have f2 := (fits_iff.mp hb.1).2
            rcases List.suffix_or_suffix_of_suffix f1 f2 with e | e
            · exact hxy (by rw [e.eq_of_length hlen])
            · exact hxy (by rw [e.eq_of_length hlen.symm])
          | star => simp [specGE, Tok.rank] at h2
        | star =>
          cases y with
          | c ch' => simp [specGE, Tok.rank] at h1
          | par s' => simp [specGE, Tok.rank] at h1
          | star => exact hxy rfl

end Pxv.Matchit
