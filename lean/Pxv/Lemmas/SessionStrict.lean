import Pxv.Lemmas.SessionRefine
/-! The strict specification (with the recorded finding F7) and the ideal one agree on every
history in which no sync reports F7. -/
set_option linter.unusedSectionVars false
set_option linter.unusedSimpArgs false
namespace Pxv.Session
open Spec

variable {κ ν : Type} [DecidableEq κ]

/-- "This result is the F7 refusal." -/
def Res.isF7 : Res ν → Bool
  | .syncErr e => decide (e = f7)
  | _ => false

def Fin.isF7 : Fin κ ν → Bool
  | .err (.sync e) => decide (e = f7)
  | _ => false

theorem flush_strict_some (cfg : Config) (S : SSess κ ν) (W : SWorld κ ν) (x : SSess κ ν × SWorld κ ν)
    (h : flush cfg true S W = some x) : flush cfg false S W = some x := by
  unfold flush at h ⊢
  repeat' split at h
  all_goals first | (simp at h; done) | simp_all

theorem step_strict (cfg : Config) (op : Op κ ν) (S : SSess κ ν) (W : SWorld κ ν)
    (h : (Spec.step cfg true op S W).1.isF7 = false) :
    Spec.step cfg false op S W = Spec.step cfg true op S W := by
  cases op <;> try rfl
  -- sync
  simp only [Spec.step] at h ⊢
  cases hf : flush cfg true S W with
  | none => simp [hf, Res.isF7] at h
  | some x => simp [flush_strict_some cfg S W x hf]

theorem runOps_strict (cfg : Config) (ops : List (Op κ ν)) (S : SSess κ ν) (W : SWorld κ ν)
    (h : ∀ r ∈ (Spec.runOps cfg true ops S W).1, Res.isF7 r = false) :
    Spec.runOps cfg false ops S W = Spec.runOps cfg true ops S W := by
  induction ops generalizing S W with
  | nil => rfl
  | cons op ops ih =>
    simp only [Spec.runOps] at h ⊢
    have h1 : (Spec.step cfg true op S W).1.isF7 = false := h _ (by simp)
    rw [step_strict cfg op S W h1]
    generalize Spec.step cfg true op S W = m at *
    obtain ⟨r, S1, W1⟩ := m
    simp only at h ⊢
    rw [ih S1 W1 (fun r' hr' => h r' (by simp [hr']))]

theorem finalize_strict (cfg : Config) (S : SSess κ ν) (W : SWorld κ ν)
    (h : (Spec.finalize cfg true S W).1.isF7 = false) :
    Spec.finalize cfg false S W = Spec.finalize cfg true S W := by
  unfold Spec.finalize at h ⊢
  cases hf : flush cfg true S W with
  | none => simp [hf, Fin.isF7] at h
  | some x => simp [flush_strict_some cfg S W x hf]

theorem finalizeSession_strict (cfg : Config) (S : SSess κ ν) (W : SWorld κ ν)
    (h : (Spec.finalizeSession cfg true S W).1.isF7 = false) :
    Spec.finalizeSession cfg false S W = Spec.finalizeSession cfg true S W := by
  have key : (Spec.finalize cfg true S W).1.isF7 = false := by
    unfold Spec.finalizeSession at h
    generalize Spec.finalize cfg true S W = m at *
    obtain ⟨f, W'⟩ := m
    cases f <;> simp_all [Fin.isF7]
  unfold Spec.finalizeSession
  rw [finalize_strict cfg S W key]

theorem runRequest_strict (cfg : Config) (incoming : Option (Nat × Map κ ν)) (ops : List (Op κ ν)) (W : SWorld κ ν)
    (h1 : ∀ r ∈ (Spec.runRequest cfg true incoming ops W).1, Res.isF7 r = false)
    (h2 : (Spec.runRequest cfg true incoming ops W).2.1.isF7 = false) :
    Spec.runRequest cfg false incoming ops W = Spec.runRequest cfg true incoming ops W := by
  unfold Spec.runRequest at h1 h2 ⊢
  generalize Spec.newSession incoming W = p at *
  obtain ⟨S0, W0⟩ := p
  simp only at h1 h2 ⊢
  have e1 := runOps_strict cfg ops S0 W0 (by
    generalize Spec.runOps cfg true ops S0 W0 = m at *
    obtain ⟨rs, S1, W1⟩ := m
    exact h1)
  rw [e1]
  generalize Spec.runOps cfg true ops S0 W0 = m at *
  obtain ⟨rs, S1, W1⟩ := m
  simp only at h1 h2 ⊢
  have e2 := finalizeSession_strict cfg S1 W1 (by
    generalize Spec.finalizeSession cfg true S1 W1 = q at *
    obtain ⟨f, W2⟩ := q
    exact h2)
  rw [e2]

/-- No F7 refusal anywhere in what the (strict) history shows. -/
def NoF7 (outs : List (List (Res ν) × Fin κ ν)) : Prop :=
  ∀ o ∈ outs, (∀ r ∈ o.1, Res.isF7 r = false) ∧ Fin.isF7 o.2 = false

theorem runHistory_strict (cfg : Config) (reqs : List (Req κ ν)) (c : Client κ ν) (W : SWorld κ ν)
    (h : NoF7 (Spec.runHistory cfg true reqs c W)) :
    Spec.runHistory cfg false reqs c W = Spec.runHistory cfg true reqs c W := by
  induction reqs generalizing c W with
  | nil => rfl
  | cons rq rest ih =>
    simp only [Spec.runHistory] at h ⊢
    generalize reqCfg cfg rq.crypto = cfg' at *
    generalize presented cfg' c rq.src = pres at *
    generalize sent c rq.src = held at *
    generalize (if rq.expire = true then Spec.expire pres W else W) = W1 at *
    have hd := h _ (List.mem_cons_self)
    have e := runRequest_strict cfg' pres rq.ops W1 (by
      generalize Spec.runRequest cfg' true pres rq.ops W1 = m at *
      obtain ⟨rs, f, W2⟩ := m
      exact hd.1) (by
      generalize Spec.runRequest cfg' true pres rq.ops W1 = m at *
      obtain ⟨rs, f, W2⟩ := m
      exact hd.2)
    rw [e]
    generalize Spec.runRequest cfg' true pres rq.ops W1 = m at *
    obtain ⟨rs, f, W2⟩ := m
    simp only at h ⊢
    congr 1
    exact ih _ _ (fun o ho => h o (List.mem_cons_of_mem _ ho))


/-! The specification never panics. -/

theorem Spec.runOps_no_panic (cfg : Config) (strict : Bool) (ops : List (Op κ ν)) (S : SSess κ ν) (W : SWorld κ ν) :
    ∀ r ∈ (Spec.runOps cfg strict ops S W).1, Res.isPanic r = false := by
  induction ops generalizing S W with
  | nil => intro r hr; simp [Spec.runOps] at hr
  | cons op ops ih =>
    have h1 := Spec.step_not_panic cfg strict op S W
    simp only [Spec.runOps]
    generalize Spec.step cfg strict op S W = m at *
    obtain ⟨r0, S1, W1⟩ := m
    intro r hr
    simp only [List.mem_cons] at hr
    cases hr with
    | inl h => subst h; exact h1
    | inr h => exact ih S1 W1 r h

theorem Spec.finalize_no_panic (cfg : Config) (strict : Bool) (S : SSess κ ν) (W : SWorld κ ν) :
    (Spec.finalize cfg strict S W).1 ≠ .panic := by
  unfold Spec.finalize
  (repeat' split) <;> simp

theorem Spec.finalizeSession_no_panic (cfg : Config) (strict : Bool) (S : SSess κ ν) (W : SWorld κ ν) :
    (Spec.finalizeSession cfg strict S W).1 ≠ .panic := by
  have := Spec.finalize_no_panic cfg strict S W
  unfold Spec.finalizeSession
  generalize Spec.finalize cfg strict S W = m at *
  obtain ⟨f, W'⟩ := m
  cases f <;> simp_all <;> (repeat' split) <;> simp

theorem Spec.runHistory_no_panic (cfg : Config) (strict : Bool) (reqs : List (Req κ ν)) (c : Client κ ν) (W : SWorld κ ν) :
    ∀ o ∈ Spec.runHistory cfg strict reqs c W, o.2 ≠ .panic ∧ ∀ r ∈ o.1, Res.isPanic r = false := by
  induction reqs generalizing c W with
  | nil => intro o ho; simp [Spec.runHistory] at ho
  | cons rq rest ih =>
    simp only [Spec.runHistory]
    generalize reqCfg cfg rq.crypto = cfg'
    generalize presented cfg' c rq.src = pres
    generalize sent c rq.src = held
    generalize (if rq.expire = true then Spec.expire pres W else W) = W1
    have h1 : (Spec.runRequest cfg' strict pres rq.ops W1).2.1 ≠ .panic ∧
        ∀ r ∈ (Spec.runRequest cfg' strict pres rq.ops W1).1, Res.isPanic r = false := by
      unfold Spec.runRequest
      generalize Spec.newSession pres W1 = p
      obtain ⟨S0, W0⟩ := p
      simp only
      have a := Spec.runOps_no_panic cfg' strict rq.ops S0 W0
      generalize Spec.runOps cfg' strict rq.ops S0 W0 = m at *
      obtain ⟨rs, S1, W2⟩ := m
      simp only
      have b := Spec.finalizeSession_no_panic cfg' strict S1 W2
      generalize Spec.finalizeSession cfg' strict S1 W2 = q at *
      obtain ⟨f, W3⟩ := q
      exact ⟨b, a⟩
    generalize Spec.runRequest cfg' strict pres rq.ops W1 = m at *
    obtain ⟨rs, f, W2⟩ := m
    intro o ho
    simp only [List.mem_cons] at ho
    cases ho with
    | inl h => subst h; exact h1
    | inr h => exact ih _ _ o h

end Pxv.Session
