import Pxv.Lemmas.Complex
/-! The first clone-insertion pass (`multiple_consumers`, mirrored in Model/Borrow.lean) on graphs where nothing competes. -/
namespace Pxv.CG
open Graph

/-- nothing competes for a value: at most one node takes it by value, or it is Copy or a reference, or no control-flow path
    (sink) is reached by two of the nodes that take it by value (they sit on different `match` arms). -/
def McQuiet (g : Graph) : Prop :=
  ∀ n, (toSet (g.consumers n)).length ≤ 1 ∨ (g.node n).copy = true ∨ (g.node n).isRef = true ∨
    (∀ s ∈ g.sinks, ((toSet (g.consumers n)).filter (fun c => g.reaches c s)).length ≤ 1)

theorem mc_sets_nil (g : Graph) (consumers : List Nat) : ∀ (sinks : List Nat),
    (∀ s ∈ sinks, (consumers.filter (fun c => g.reaches c s)).length ≤ 1) →
    sinks.foldl (fun (acc : List (List Nat)) s =>
      let cs := consumers.filter (fun c => g.reaches c s)
      if cs.length > 1 && !acc.contains cs then acc ++ [cs] else acc) [] = [] := by
  intro sinks
  induction sinks with
  | nil => intro _; rfl
  | cons s ss ih =>
    intro h
    simp only [List.foldl_cons]
    have hs := h s (List.mem_cons_self ..)
    have : ¬ ((consumers.filter (fun c => g.reaches c s)).length > 1) := by omega
    simp only [this, decide_false, Bool.false_and, Bool.false_eq_true, if_false]
    exact ih (fun s' hs' => h s' (List.mem_cons_of_mem _ hs'))

theorem mcNode_quiet {g : Graph} (h : McQuiet g) (ds : List Diag) (n : Nat) : mcNode g.sinks (g, ds) n = (g, ds) := by
  unfold mcNode
  simp only []
  rcases h n with h | h | h | h
  · simp [h]
  · split
    · rfl
    · simp [h]
  · split
    · rfl
    · simp [h]
  · split
    · rfl
    · split
      · rfl
      · rw [mc_sets_nil g _ g.sinks h]
        simp

/-- **`multiple_consumers` leaves rule-abiding call graphs alone**: when no value has two by-value consumers on one
    control-flow path (unless it is Copy or a reference), the pass returns the graph unchanged and reports nothing. -/
theorem multipleConsumers_quiet {g : Graph} (h : McQuiet g) : multipleConsumers g = (g, []) := by
  unfold multipleConsumers
  generalize List.range g.size = l
  induction l with
  | nil => rfl
  | cons n ns ih => simp only [List.foldl_cons]; rw [mcNode_quiet h]; exact ih

end Pxv.CG

namespace Pxv.CG
open Graph

/-! ### `move_while_borrowed` on graphs where nothing that is moved is borrowed -/

/-- `x` is borrowed by somebody: through a `&`/`&mut` edge, or because a value that is used somewhere holds a reference to it -/
def Bd (g : Graph) (cap : List (Nat × List Nat)) (x : Nat) : Prop :=
  (∃ e ∈ g.edges, (e.kind = .shared ∨ e.kind = .excl) ∧ e.src = x) ∨ (∃ e ∈ g.edges, x ∈ lookup cap e.src)

/-- no `&mut` edge, and whatever is taken by value is Copy or borrowed by nobody -/
def mwbQuiet (g : Graph) : Bool :=
  g.edges.all (fun e => e.kind != .excl && (e.kind != .move || (g.node e.src).copy ||
    g.edges.all (fun e' => !(e'.src == e.src && (e'.kind == .shared || e'.kind == .excl)) &&
      !(lookup (captured g) e'.src).contains e.src)))

theorem mwbQuiet_spec {g : Graph} (h : mwbQuiet g = true) {e : Edge} (he : e ∈ g.edges) :
    e.kind ≠ .excl ∧ (e.kind = .move → (g.node e.src).copy = true ∨ ¬ Bd g (captured g) e.src) := by
  unfold mwbQuiet at h
  rw [List.all_eq_true] at h
  have h1 := h e he
  simp only [Bool.and_eq_true, bne_iff_ne, ne_eq, Bool.or_eq_true] at h1
  refine ⟨h1.1, fun hk => ?_⟩
  rcases h1.2 with (h2 | h2) | h2
  · exact absurd hk h2
  · exact Or.inl h2
  · right
    rw [List.all_eq_true] at h2
    rintro (⟨e', he', hk', hs'⟩ | ⟨e', he', hm'⟩)
    · have := h2 e' he'
      rcases hk' with hk' | hk' <;> simp [hs', hk'] at this
    · have := h2 e' he'
      simp at this
      exact this.2 hm'

theorem mem_foldl_union_lookup {x : Nat} (f : Nat → List Nat) : ∀ (l : List Nat) (a : List Nat),
    x ∈ l.foldl (fun acc s => union acc (f s)) a → x ∈ a ∨ ∃ s ∈ l, x ∈ f s := by
  intro l
  induction l with
  | nil => intro a h; exact Or.inl h
  | cons s ss ih =>
    intro a h
    simp only [List.foldl_cons] at h
    rcases ih _ h with h | ⟨s', hs', hx⟩
    · rcases mem_union.1 h with h | h
      · exact Or.inl h
      · exact Or.inr ⟨s, List.mem_cons_self .., h⟩
    · exact Or.inr ⟨s', List.mem_cons_of_mem _ hs', hx⟩

theorem mem_immNow {x : Nat} (cap : List (Nat × List Nat)) : ∀ (ins : List Edge) (a : List Nat),
    x ∈ ins.foldl (fun acc e =>
      let acc := union acc (lookup cap e.src)
      if e.kind == .shared then union acc [e.src] else acc) a →
    x ∈ a ∨ ∃ e ∈ ins, x ∈ lookup cap e.src ∨ (e.kind = .shared ∧ x = e.src) := by
  intro ins
  induction ins with
  | nil => intro a h; exact Or.inl h
  | cons e es ih =>
    intro a h
    simp only [List.foldl_cons] at h
    rcases ih _ h with h | ⟨e', he', hx⟩
    · split at h
      · rename_i hk
        rcases mem_union.1 h with h | h
        · rcases mem_union.1 h with h | h
          · exact Or.inl h
          · exact Or.inr ⟨e, List.mem_cons_self .., Or.inl h⟩
        · exact Or.inr ⟨e, List.mem_cons_self .., Or.inr ⟨by simpa using hk, by simpa using h⟩⟩
      · rcases mem_union.1 h with h | h
        · exact Or.inl h
        · exact Or.inr ⟨e, List.mem_cons_self .., Or.inl h⟩
    · exact Or.inr ⟨e', List.mem_cons_of_mem _ he', hx⟩

end Pxv.CG

namespace Pxv.CG
open Graph

/-- the invariant of the second traversal of `move_while_borrowed` on a quiet graph -/
structure MwbInv (g : Graph) (st : MwbState) : Prop where
  g_eq : st.g = g
  diags : st.diags = []
  borrows : ∀ k x, x ∈ lookup st.borrows k → Bd g (captured g) x

theorem mwb_inner_quiet {g : Graph} (hq : mwbQuiet g = true) (n : Nat) (immNow later : List Nat)
    (himm : ∀ x ∈ immNow, Bd g (captured g) x) (hlat : ∀ x ∈ later, Bd g (captured g) x) :
    ∀ (ins : List Edge), (∀ e ∈ ins, e ∈ g.edges) →
    ins.foldl (mwbEdge g n immNow later) (g, [], []) = (g, [], []) := by
  intro ins
  induction ins with
  | nil => intro _; rfl
  | cons e es ih =>
    intro hes
    simp only [List.foldl_cons]
    have he := hes e (List.mem_cons_self ..)
    have hs := mwbQuiet_spec hq he
    have hstep : mwbEdge g n immNow later (g, [], []) e = (g, [], []) := by
      unfold mwbEdge
      cases hk : e.kind with
      | move =>
        simp only []
        rcases hs.2 hk with hc | hnb
        · simp [hc]
        · have h1 : e.src ∉ immNow := fun hc => hnb (himm _ hc)
          have h2 : e.src ∉ later := fun hc => hnb (hlat _ hc)
          simp [h1, h2]
      | excl => exact absurd hk hs.1
      | shared => rfl
      | before => rfl
    rw [hstep]
    exact ih (fun e' he' => hes e' (List.mem_cons_of_mem _ he'))

end Pxv.CG

namespace Pxv.CG
open Graph

theorem mwbNode_quiet {g : Graph} (hq : mwbQuiet g = true) {st : MwbState} (h : MwbInv g st) (n : Nat) :
    MwbInv g (mwbNode (captured g) st n) := by
  obtain ⟨g0, borrows, diags⟩ := st
  obtain ⟨hg, hd, hb⟩ := h
  simp only at hg hd hb
  subst hg
  subst hd
  have hlat : ∀ x ∈ (g0.succs n).foldl (fun acc s => union acc (lookup borrows s)) [], Bd g0 (captured g0) x := by
    intro x hx
    rcases mem_foldl_union_lookup (fun s => lookup borrows s) _ _ hx with h | ⟨s, _, h⟩
    · cases h
    · exact hb s x h
  have himm : ∀ x ∈ (g0.inEdges n).foldl (fun acc e =>
      let acc := union acc (lookup (captured g0) e.src)
      if e.kind == .shared then union acc [e.src] else acc) [], Bd g0 (captured g0) x := by
    intro x hx
    rcases mem_immNow (captured g0) _ _ hx with h | ⟨e, he, h | ⟨hk, rfl⟩⟩
    · cases h
    · exact Or.inr ⟨e, (List.mem_filter.1 he).1, h⟩
    · exact Or.inl ⟨e, (List.mem_filter.1 he).1, Or.inl hk, rfl⟩
  have hin := mwb_inner_quiet hq n _ _ himm hlat (g0.inEdges n) (fun e he => (List.mem_filter.1 he).1)
  unfold mwbNode
  simp only []
  rw [hin]
  refine ⟨rfl, rfl, ?_⟩
  intro k x hx
  simp only [List.foldl_nil] at hx
  rw [lookup_setKey] at hx
  split at hx
  · rcases mem_union.1 hx with h | h
    · rcases mem_union.1 h with h | h
      · exact himm x h
      · simp only [List.mem_map, List.mem_filter] at h
        obtain ⟨e, ⟨he, hk⟩, rfl⟩ := h
        exact Or.inl ⟨e, (List.mem_filter.1 he).1, Or.inr (by simpa using hk), rfl⟩
    · exact hlat x h
  · exact hb k x hx

/-- **`move_while_borrowed` leaves rule-abiding call graphs alone**: with no `&mut` input anywhere and every by-value input
    Copy or borrowed by nobody (directly or through a value that holds a reference to it), the pass returns the graph
    unchanged and reports nothing. -/
theorem moveWhileBorrowed_quiet {g : Graph} (hq : mwbQuiet g = true) : moveWhileBorrowed g = (g, []) := by
  unfold moveWhileBorrowed
  have : ∀ (l : List Nat) (st : MwbState), MwbInv g st → MwbInv g (l.foldl (mwbNode (captured g)) st) := by
    intro l
    induction l with
    | nil => intro st h; exact h
    | cons n ns ih => intro st h; exact ih _ (mwbNode_quiet hq h n)
  have h := this (postOrder g) ⟨g, [], []⟩ ⟨rfl, rfl, fun k x hx => by simp [lookup] at hx⟩
  simp only [h.g_eq, h.diags]

end Pxv.CG

namespace Pxv.CG
open Graph

/-! ### capture-free graphs: the hypotheses of the quiet theorems from the edges alone -/

theorem capturedNode_captureFree {g : Graph} (h : captureFree g = true) (cap : List (Nat × List Nat)) (n : Nat) :
    capturedNode g cap n = cap := by
  have hn : (g.node n).tied = [] ∧ (g.node n).direct = [] := by
    unfold captureFree at h
    rw [List.all_eq_true] at h
    unfold Graph.node
    by_cases hlt : n < g.nodes.length
    · have hm : g.nodes.getD n {} ∈ g.nodes := by
        rw [List.getD_eq_getElem?_getD, List.getElem?_eq_getElem hlt]; exact List.getElem_mem hlt
      have := h _ hm
      simpa using this
    · rw [List.getD_eq_getElem?_getD, List.getElem?_eq_none (by omega)]
      exact ⟨rfl, rfl⟩
  unfold capturedNode
  simp only [hn.1, hn.2]
  have : ∀ (deps : List Nat) (cur : List Nat), deps.foldl (fun cur d =>
      let cur := if ([] : List Nat).contains d then union cur (lookup cap d) else cur
      if ([] : List Nat).contains d then union cur [d] else cur) cur = cur := by
    intro deps
    induction deps with
    | nil => intro cur; rfl
    | cons d ds ih => intro cur; simp only [List.foldl_cons, List.contains_nil, Bool.false_eq_true, if_false]; exact ih cur
  rw [this]
  simp

theorem captured_captureFree {g : Graph} (h : captureFree g = true) : captured g = [] := by
  unfold captured
  generalize (postOrder g).reverse = l
  induction l with
  | nil => rfl
  | cons n ns ih => simp only [List.foldl_cons, capturedNode_captureFree h]; exact ih

/-- the edge-level reading of C02's ownership clause on a graph without captures: no `&mut` edge, and no non-Copy value is
    both taken by value and borrowed -/
def inClassEdges (g : Graph) : Bool :=
  g.edges.all (fun e => e.kind != .excl && (e.kind != .move || (g.node e.src).copy ||
    g.edges.all (fun e' => !(e'.src == e.src && (e'.kind == .shared || e'.kind == .excl)))))

theorem mwbQuiet_of_inClassEdges {g : Graph} (hcf : captureFree g = true) (h : inClassEdges g = true) : mwbQuiet g = true := by
  unfold mwbQuiet
  rw [captured_captureFree hcf]
  unfold inClassEdges at h
  rw [List.all_eq_true] at h ⊢
  intro e he
  have h1 := h e he
  simp only [Bool.and_eq_true, Bool.or_eq_true] at h1 ⊢
  refine ⟨h1.1, ?_⟩
  rcases h1.2 with (h2 | h2) | h2
  · exact Or.inl (Or.inl h2)
  · exact Or.inl (Or.inr h2)
  · right
    rw [List.all_eq_true] at h2 ⊢
    intro e' he'
    have := h2 e' he'
    simp only [lookup, List.find?_nil, List.contains_nil, Bool.not_false, Bool.and_true]
    exact this

end Pxv.CG

namespace Pxv.CG
open Graph

theorem noConflict_of_inClassEdges {g : Graph} (hcf : captureFree g = true) (h : inClassEdges g = true) : noConflict g = true := by
  unfold noConflict
  rw [List.all_eq_true]
  intro d _
  rw [allBorrowers_of_captureFree hcf]
  by_cases hc : g.consumers d = []
  · simp [hc]
  · -- some move edge leaves `d`
    have : ∃ e ∈ g.edges, e.src = d ∧ e.kind = .move := by
      unfold Graph.consumers Graph.outEdges at hc
      cases hl : (List.filter (fun x => x.kind == EK.move) (List.filter (fun x => x.src == d) g.edges)) with
      | nil => rw [hl] at hc; simp at hc
      | cons e es =>
        have he : e ∈ List.filter (fun x => x.kind == EK.move) (List.filter (fun x => x.src == d) g.edges) := by
          rw [hl]; exact List.mem_cons_self ..
        simp only [List.mem_filter, beq_iff_eq] at he
        exact ⟨e, he.1.1, he.1.2, he.2⟩
    obtain ⟨e, he, hsrc, hk⟩ := this
    unfold inClassEdges at h
    rw [List.all_eq_true] at h
    have h1 := h e he
    simp only [Bool.and_eq_true, Bool.or_eq_true, hk, bne_self_eq_false, Bool.false_eq_true, false_or] at h1
    rcases h1.2 with h2 | h2
    · rw [hsrc] at h2; simp [h2]
    · have hb : g.borrowers d = [] := by
        unfold Graph.borrowers Graph.outEdges
        rw [List.map_eq_nil_iff, List.filter_eq_nil_iff]
        intro e' he'
        simp only [List.mem_filter, beq_iff_eq] at he'
        rw [List.all_eq_true] at h2
        have := h2 e' he'.1
        simp only [he'.2, hsrc, beq_self_eq_true, Bool.true_and, Bool.not_eq_true'] at this
        simp [this]
      simp [hb]

end Pxv.CG
