import Pxv.Model.Domain
/-! Helper lemmas for C20 (`Pxv/Thm/C20.lean`). -/
namespace Pxv.Domain

/-! ### characters -/

theorem labelChar_ne {c : Char} (h : labelChar c = true) :
    c ≠ '{' ∧ c ≠ '}' ∧ c ≠ '.' ∧ c ≠ '*' ∧ c ≠ '/' := by
  refine ⟨?_, ?_, ?_, ?_, ?_⟩ <;> (intro e; subst e; revert h; decide)

theorem identCont_ne {c : Char} (h : identCont c = true) :
    c ≠ '{' ∧ c ≠ '}' ∧ c ≠ '.' ∧ c ≠ '*' ∧ c ≠ '/' := by
  refine ⟨?_, ?_, ?_, ?_, ?_⟩ <;> (intro e; subst e; revert h; decide)

theorem identStart_cont {c : Char} (h : identStart c = true) : identCont c = true := by
  simp only [identStart, identCont, Char.isAlphanum, Bool.or_eq_true] at *
  rcases h with h | h
  · exact Or.inl (Or.inl h)
  · exact Or.inr h

theorem isIdent_spec {n : List Char} (h : isIdent n = true) :
    n ≠ [] ∧ ∀ c ∈ n, identCont c = true := by
  cases n with
  | nil => simp [isIdent] at h
  | cons c cs =>
    simp only [isIdent, Bool.and_eq_true, List.all_eq_true] at h
    refine ⟨by simp, ?_⟩
    intro x hx
    rcases List.mem_cons.mp hx with rfl | hx
    · exact identStart_cont h.1.1
    · exact h.1.2 x hx

/-! ### the label scanner -/

/-- States from which the label can no longer be accepted. -/
def Bad (st : St) : Prop :=
  st.invalid = true ∨ 2 ≤ st.parsed.length ∨ (∃ p, st.parsed.head? = some p ∧ p.1 ≠ 0) ∨
  (∃ n s c, st.cur = some (n, s, c) ∧ (1 ≤ st.parsed.length ∨ s ≠ 0))

theorem scan_bad {i : Nat} {cs : List Char} {st st' : St} (hb : Bad st)
    (h : scan i cs st = .ok st') : Bad st' := by
  induction cs generalizing i st with
  | nil => simp [scan] at h; subst h; exact hb
  | cons c cs ih =>
    simp only [scan] at h
    split at h
    · -- '}'
      split at h
      · rename_i name start ca hcur
        split at h
        · cases h
        · split at h
          · cases h
          · refine ih ?_ h
            rcases hb with hb | hb | ⟨p, hp, hp0⟩ | ⟨n, s, c', hc, hb⟩
            · exact Or.inl hb
            · exact Or.inr (Or.inl (by simp; omega))
            · refine Or.inr (Or.inr (Or.inl ⟨p, ?_, hp0⟩))
              cases hps : st.parsed with
              | nil => simp [hps] at hp
              | cons a as => simp [hps] at hp ⊢; exact hp
            · rw [hcur] at hc
              cases hc
              rcases hb with hb | hb
              · exact Or.inr (Or.inl (by simp; omega))
              · cases hps : st.parsed with
                | nil => exact Or.inr (Or.inr (Or.inl ⟨(start, ca), by simp [hps], hb⟩))
                | cons a as => exact Or.inr (Or.inl (by simp [hps]))
      · exact ih (Or.inl rfl) h
    · split at h
      · rename_i name start ca hcur
        have hb' : ∀ nm ca', Bad { st with cur := some (nm, start, ca') } := by
          intro nm ca'
          rcases hb with hb | hb | hb | ⟨n, s, c', hc, hb⟩
          · exact Or.inl hb
          · exact Or.inr (Or.inl hb)
          · exact Or.inr (Or.inr (Or.inl hb))
          · rw [hcur] at hc; cases hc
            exact Or.inr (Or.inr (Or.inr ⟨nm, start, ca', rfl, hb⟩))
        split at h
        · exact ih (hb' _ _) h
        · exact ih (hb' _ _) h
      · rename_i hcur
        have hb3 : st.invalid = true ∨ 2 ≤ st.parsed.length ∨ (∃ p, st.parsed.head? = some p ∧ p.1 ≠ 0) := by
          rcases hb with hb | hb | hb | ⟨n, s, c', hc, _⟩
          · exact Or.inl hb
          · exact Or.inr (Or.inl hb)
          · exact Or.inr (Or.inr hb)
          · rw [hcur] at hc; cases hc
        split at h
        · refine ih ?_ h
          rcases hb3 with hb | hb | hb
          · exact Or.inl hb
          · exact Or.inr (Or.inl hb)
          · exact Or.inr (Or.inr (Or.inl hb))
        · refine ih ?_ h
          rcases hb3 with hb | hb | hb
          · exact Or.inl (by simp [hb])
          · exact Or.inr (Or.inl hb)
          · exact Or.inr (Or.inr (Or.inl hb))

theorem finish_bad {idx : Nat} {l : List Char} {st : St} (hb : Bad st) (n : Nat) :
    finish idx l st ≠ .ok n := by
  intro h
  unfold finish at h
  split at h
  · cases h
  · rename_i hcur
    split at h
    · cases h
    · rename_i hinv
      split at h
      · cases h
      · rename_i hlen
        rcases hb with hb | hb | ⟨p, hp, hp0⟩ | ⟨n', s, c', hc, _⟩
        · exact hinv hb
        · omega
        · simp only [hp] at h
          obtain ⟨start, ca⟩ := p
          simp only [ne_eq] at hp0
          simp [hp0] at h
        · simp [hc] at hcur

/-- Literal text after the parameter (or a purely literal label): the scanner just counts. -/
theorem scan_labelChars {i : Nat} {cs : List Char} {st : St} (hcur : st.cur = none)
    (hinv : st.invalid = false) (hall : ∀ c ∈ cs, labelChar c = true) :
    scan i cs st = .ok { st with len := st.len + cs.length } := by
  induction cs generalizing i st with
  | nil => simp [scan]
  | cons c cs ih =>
    have hc := hall c (by simp)
    have hne := labelChar_ne hc
    simp only [scan, hne.2.1, hne.1, if_false, hcur]
    rw [ih (by simp) (by simp [hinv, hc]) (fun x hx => hall x (by simp [hx]))]
    simp [hinv, hc]
    omega

/-- Conversely: if the scanner ends in an acceptable state, what it read outside a parameter was
    literal text (given that a parameter opened now could not be accepted any more). -/
theorem scan_clean {i : Nat} {cs : List Char} {st st' : St} (hcur : st.cur = none)
    (hpos : 1 ≤ st.parsed.length ∨ 0 < i) (h : scan i cs st = .ok st') (hgood : ¬ Bad st') :
    (∀ c ∈ cs, labelChar c = true) ∧ st' = { st with len := st.len + cs.length } := by
  obtain ⟨len, parsed, cur, invalid⟩ := st
  simp only at hcur
  subst hcur
  induction cs generalizing i len invalid with
  | nil => simp [scan] at h; subst h; simp
  | cons c cs ih =>
    simp only [scan] at h
    split at h
    · exact absurd (scan_bad (Or.inl rfl) h) hgood
    · split at h
      · refine absurd (scan_bad ?_ h) hgood
        refine Or.inr (Or.inr (Or.inr ⟨[], i, false, rfl, ?_⟩))
        rcases hpos with hp | hp
        · exact Or.inl hp
        · exact Or.inr (by omega)
      · by_cases hc : labelChar c = true
        · have := ih _ _ (by rcases hpos with hp | hp; exact Or.inl hp; exact Or.inr (by omega)) h
          obtain ⟨h1, h2⟩ := this
          refine ⟨?_, ?_⟩
          · intro x hx
            rcases List.mem_cons.mp hx with rfl | hx
            · exact hc
            · exact h1 x hx
          · have hinv : invalid = false := by
              cases hi : invalid with
              | false => rfl
              | true => subst hi; exact absurd (scan_bad (Or.inl (by simp)) h) hgood
            rw [h2]; simp [hc, hinv]; omega
        · refine absurd (scan_bad (Or.inl ?_) h) hgood
          simp [hc]

/-- Inside `{…`: everything up to the closing brace goes into the name. -/
theorem scan_accum {i : Nat} {a rest n : List Char} {s : Nat} {ca : Bool} {st : St}
    (ha : ∀ c ∈ a, c ≠ '}') (hns : n ≠ [] ∨ ca = true ∨ a.head? ≠ some '*') :
    scan i (a ++ rest) { st with cur := some (n, s, ca) } =
      scan (i + a.length) rest { st with cur := some (n ++ a, s, ca) } := by
  induction a generalizing i n with
  | nil => simp
  | cons c a ih =>
    have hc : c ≠ '}' := ha c (by simp)
    have hsw : ¬ (c = '*' ∧ n = [] ∧ ca = false) := by
      rintro ⟨h1, h2, h3⟩
      rcases hns with h | h | h
      · exact h h2
      · simp [h3] at h
      · simp [h1] at h
    simp only [List.cons_append, scan, hc, if_false, hsw]
    rw [ih (fun x hx => ha x (by simp [hx])) (Or.inl (by simp))]
    simp [Nat.add_assoc, Nat.add_comm 1]

/-- Inside `{…` (past the point where a `*` could still turn it into a catch-all): if the scanner
    gets out of the parameter, there was a closing brace, and the name before it is an identifier. -/
theorem scan_param_inv {i : Nat} {u n : List Char} {s : Nat} {ca : Bool} {st st' : St}
    (hns : n ≠ [] ∨ ca = true)
    (h : scan i u { st with cur := some (n, s, ca) } = .ok st') (hout : st'.cur = none) :
    ∃ a b, u = a ++ '}' :: b ∧ (∀ c ∈ a, c ≠ '}') ∧ n ++ a ≠ [] ∧ isIdent (n ++ a) = true ∧
      scan (i + a.length + 1) b
        { st with len := st.len + 1, parsed := st.parsed ++ [(s, ca)], cur := none } = .ok st' := by
  induction u generalizing i n with
  | nil => simp [scan] at h; subst h; simp at hout
  | cons c u ih =>
    simp only [scan] at h
    split at h
    · rename_i hc
      subst hc
      split at h
      · cases h
      · rename_i hne
        split at h
        · cases h
        · rename_i hid
          refine ⟨[], u, by simp, by simp, by simpa using hne, by simpa using hid, ?_⟩
          simpa using h
    · rename_i hc
      have hsw : ¬ (c = '*' ∧ n = [] ∧ ca = false) := by
        rintro ⟨_, h2, h3⟩
        rcases hns with h' | h'
        · exact h' h2
        · simp [h3] at h'
      simp only [hsw, if_false] at h
      obtain ⟨a, b, hu, ha, hne, hid, hscan⟩ := ih (n := n ++ [c]) (Or.inl (by simp)) h
      refine ⟨c :: a, b, by simp [hu], ?_, by simp, by simpa using hid, ?_⟩
      · intro x hx
        rcases List.mem_cons.mp hx with rfl | hx
        · exact hc
        · exact ha x hx
      · have : i + (c :: a).length + 1 = i + 1 + a.length + 1 := by simp; omega
        rw [this]; exact hscan

/-! ### one label: `scanLabel` decides `LabelG` -/

theorem getLast?_append_cons {α} (xs : List α) (b : α) (ys : List α) :
    (xs ++ b :: ys).getLast? = (b :: ys).getLast? := by
  induction xs with
  | nil => rfl
  | cons x xs ih =>
    cases hxs : xs ++ b :: ys with
    | nil => simp at hxs
    | cons z zs => rw [List.cons_append, hxs, List.getLast?_cons_cons, ← hxs, ih]

theorem finish_param {idx : Nat} {l rest : List Char} {ca : Bool}
    (hhead : l.head? = some '{')
    (hlast : l.getLast? = (('}' : Char) :: rest).getLast?)
    (hrest : RestOk rest) (hlen : 1 + rest.length ≤ 63) (hca : ca = true → idx = 0) :
    finish idx l { len := 1 + rest.length, parsed := [(0, ca)], cur := none, invalid := false }
      = .ok (1 + rest.length) := by
  have hca' : ¬ (ca = true ∧ ¬ idx = 0) := fun ⟨h1, h2⟩ => h2 (hca h1)
  have hl : ∃ last, ('}' :: rest).getLast? = some last ∧ (last ≠ '}' → last.isAlphanum = true) := by
    cases hr : rest.getLast? with
    | none =>
      have : rest = [] := by simpa using hr
      subst this
      exact ⟨'}', by simp, by simp⟩
    | some c =>
      refine ⟨c, ?_, fun _ => hrest.2 c hr⟩
      rw [List.getLast?_cons, hr]; simp
  obtain ⟨last, hl1, hl2⟩ := hl
  unfold finish
  simp only [Option.isSome_none, Bool.false_eq_true, if_false, List.length_singleton,
    gt_iff_lt, Nat.lt_irrefl, List.head?_cons, ne_eq, not_true_eq_false, hhead, hlast, hl1]
  have h63 : ¬ (1 + rest.length > 63) := by omega
  by_cases hk : last = '}'
  · simp [hk, hca', h63]
  · simp [hk, hl2 hk, hca', h63]

theorem scanLabel_of_LabelG {idx : Nat} {l : List Char} {n : Nat} (h : LabelG (idx == 0) l n) :
    scanLabel idx l = .ok n := by
  generalize hf : (idx == 0) = first at h
  cases h with
  | lit hne hall hhead hlast hlen =>
    unfold scanLabel
    rw [scan_labelChars (st := {}) rfl rfl hall]
    obtain ⟨c0, hc0⟩ : ∃ c, l.head? = some c := by
      cases l with
      | nil => exact absurd rfl hne
      | cons c _ => exact ⟨c, rfl⟩
    obtain ⟨c1, hc1⟩ : ∃ c, l.getLast? = some c := by
      cases hs : l.getLast? with
      | none => exact absurd (by simpa using hs) hne
      | some c => exact ⟨c, rfl⟩
    have h63 : ¬ (l.length > 63) := by omega
    simp [finish, hc0, hc1, hhead c0 hc0, hlast c1 hc1, h63]
  | @param _ name rest hid hrest hlen =>
    obtain ⟨hne, hcont⟩ := isIdent_spec hid
    have hnb : ∀ c ∈ name, c ≠ '}' := fun c hc => (identCont_ne (hcont c hc)).2.1
    have hstar : name.head? ≠ some '*' := by
      intro hh
      have : ('*' : Char) ∈ name := List.mem_of_mem_head? hh
      exact (identCont_ne (hcont _ this)).2.2.2.1 rfl
    unfold scanLabel
    have e1 : scan 0 ('{' :: name ++ '}' :: rest) {} =
        scan 1 (name ++ '}' :: rest) { cur := some ([], 0, false) } := by
      simp [scan]
    rw [e1, scan_accum (st := {}) hnb (Or.inr (Or.inr hstar))]
    have e2 : scan (1 + name.length) ('}' :: rest) { cur := some ([] ++ name, 0, false) } =
        scan (1 + name.length + 1) rest { len := 1, parsed := [(0, false)], cur := none } := by
      simp [scan, hne, hid]
    rw [e2, scan_labelChars rfl rfl hrest.1]
    simp only
    exact finish_param (by simp) (getLast?_append_cons _ _ _) hrest hlen (by simp)
  | @catchAll name rest hid hrest hlen =>
    have hidx : idx = 0 := by simpa using hf
    obtain ⟨hne, hcont⟩ := isIdent_spec hid
    have hnb : ∀ c ∈ name, c ≠ '}' := fun c hc => (identCont_ne (hcont c hc)).2.1
    unfold scanLabel
    have e1 : scan 0 ('{' :: '*' :: name ++ '}' :: rest) {} =
        scan 2 (name ++ '}' :: rest) { cur := some ([], 0, true) } := by
      simp [scan]
    rw [e1, scan_accum (st := {}) hnb (Or.inr (Or.inl rfl))]
    have e2 : scan (2 + name.length) ('}' :: rest) { cur := some ([] ++ name, 0, true) } =
        scan (2 + name.length + 1) rest { len := 1, parsed := [(0, true)], cur := none } := by
      simp [scan, hne, hid]
    rw [e2, scan_labelChars rfl rfl hrest.1]
    simp only
    refine finish_param (by simp) ?_ hrest hlen (fun _ => hidx)
    exact getLast?_append_cons _ _ _

theorem finish_cur {idx : Nat} {l : List Char} {st : St} {n : Nat} (h : finish idx l st = .ok n) :
    st.cur = none := by
  unfold finish at h
  split at h
  · cases h
  · rename_i hc
    cases hcur : st.cur with
    | none => rfl
    | some x => simp [hcur] at hc

theorem finish_ok_ends {idx : Nat} {l : List Char} {k n : Nat} {ps : List (Nat × Bool)}
    (h : finish idx l { len := k, parsed := ps, cur := none, invalid := false } = .ok n) :
    n = k ∧ k ≤ 63 ∧ ∃ first last, l.head? = some first ∧ l.getLast? = some last ∧
      (first = '{' ∨ first.isAlphanum = true) ∧ (last = '}' ∨ last.isAlphanum = true) := by
  unfold finish at h
  simp only [Option.isSome_none, Bool.false_eq_true, if_false] at h
  split at h
  · cases h
  · split at h
    · cases h
    · split at h
      · rename_i first last hf hl
        split at h
        · cases h
        · rename_i h1
          split at h
          · cases h
          · rename_i h2
            split at h
            · cases h
            · rename_i h3
              simp only [Except.ok.injEq] at h
              refine ⟨h.symm, by omega, first, last, hf, hl, ?_, ?_⟩
              · by_cases hb : first = '{'
                · exact Or.inl hb
                · right; simpa [hb] using h1
              · by_cases hb : last = '}'
                · exact Or.inl hb
                · right; simpa [hb] using h2
      · cases h

theorem finish_ok_ca {idx : Nat} {l : List Char} {k n : Nat}
    (h : finish idx l { len := k, parsed := [(0, true)], cur := none, invalid := false } = .ok n) :
    idx = 0 := by
  unfold finish at h
  by_cases hi : idx = 0
  · exact hi
  · simp [hi] at h

theorem restOk_of {b : List Char} (hall : ∀ c ∈ b, labelChar c = true)
    {l : List Char} {last : Char} (hl : l.getLast? = some last)
    (hlb : l.getLast? = (('}' : Char) :: b).getLast?)
    (hlast : last = '}' ∨ last.isAlphanum = true) : RestOk b := by
  refine ⟨hall, ?_⟩
  intro c hc
  have : ('}' :: b).getLast? = some c := by rw [List.getLast?_cons, hc]; simp
  rw [← hlb, hl] at this
  cases this
  rcases hlast with h | h
  · have := hall last (List.mem_of_getLast? hc)
    exact absurd h (labelChar_ne this).2.1
  · exact h

theorem LabelG_of_scanLabel {idx : Nat} {l : List Char} {n : Nat} (h : scanLabel idx l = .ok n) :
    LabelG (idx == 0) l n := by
  unfold scanLabel at h
  split at h
  · cases h
  rename_i st hscan
  have hgood : ¬ Bad st := fun hb => finish_bad hb n h
  have hcur : st.cur = none := finish_cur h
  cases l with
  | nil =>
    simp [scan] at hscan; subst hscan
    simp [finish] at h
  | cons c0 t =>
    by_cases hb : c0 = '{'
    · subst hb
      have e1 : scan 0 ('{' :: t) {} = scan 1 t { cur := some ([], 0, false) } := by simp [scan]
      rw [e1] at hscan
      cases t with
      | nil => simp [scan] at hscan; subst hscan; simp at hcur
      | cons c1 t' =>
        by_cases hs : c1 = '*'
        · subst hs
          have e2 : scan 1 ('*' :: t') { cur := some ([], 0, false) } =
              scan 2 t' { cur := some ([], 0, true) } := by simp [scan]
          rw [e2] at hscan
          obtain ⟨a, b, ht, ha, hne, hid, hscan'⟩ :=
            scan_param_inv (st := {}) (n := []) (Or.inr rfl) hscan hcur
          obtain ⟨hall, hst⟩ := scan_clean rfl (Or.inl (by simp)) hscan' hgood
          subst hst ht
          simp only [List.nil_append] at hne hid
          have hidx := finish_ok_ca (by simpa using h)
          obtain ⟨hn, h63, first, last, hf, hl, _, hlast⟩ := finish_ok_ends (by simpa using h)
          have hlb : ('{' :: '*' :: (a ++ '}' :: b)).getLast? = ('}' :: b).getLast? :=
            getLast?_append_cons ('{' :: '*' :: a) '}' b
          have hr := restOk_of hall hl hlb hlast
          subst hn
          have : (idx == 0) = true := by simp [hidx]
          rw [this]
          have := LabelG.catchAll (name := a) (rest := b) hid hr (by simpa using h63)
          simpa [Nat.add_comm] using this
        · by_cases hc : c1 = '}'
          · subst hc
            simp [scan] at hscan
          · have e2 : scan 1 (c1 :: t') { cur := some ([], 0, false) } =
                scan 2 t' { cur := some ([c1], 0, false) } := by simp [scan, hc, hs]
            rw [e2] at hscan
            obtain ⟨a, b, ht, ha, hne, hid, hscan'⟩ :=
              scan_param_inv (st := {}) (n := [c1]) (Or.inl (by simp)) hscan hcur
            obtain ⟨hall, hst⟩ := scan_clean rfl (Or.inl (by simp)) hscan' hgood
            subst hst ht
            obtain ⟨hn, h63, first, last, hf, hl, _, hlast⟩ := finish_ok_ends (by simpa using h)
            have hlb : ('{' :: c1 :: (a ++ '}' :: b)).getLast? = ('}' :: b).getLast? :=
              getLast?_append_cons ('{' :: c1 :: a) '}' b
            have hr := restOk_of hall hl hlb hlast
            subst hn
            have := LabelG.param (first := (idx == 0)) (name := c1 :: a) (rest := b) (by simpa using hid) hr
              (by simpa using h63)
            simpa [Nat.add_comm] using this
    · by_cases hc : c0 = '}'
      · subst hc
        have e1 : scan 0 ('}' :: t) {} = scan 1 t { len := 1, invalid := true } := by simp [scan]
        rw [e1] at hscan
        exact absurd (scan_bad (Or.inl rfl) hscan) hgood
      · have e1 : scan 0 (c0 :: t) {} = scan 1 t { len := 1, invalid := !labelChar c0 } := by
          simp [scan, hb, hc]
        rw [e1] at hscan
        obtain ⟨hall, hst⟩ := scan_clean rfl (Or.inr (by omega)) hscan hgood
        subst hst
        have hc0 : labelChar c0 = true := by
          cases hlc : labelChar c0 with
          | true => rfl
          | false => exact absurd (Or.inl (by simp [hlc])) hgood
        simp only [hc0, Bool.not_true] at h
        obtain ⟨hn, h63, first, last, hf, hl, hfirst, hlast⟩ := finish_ok_ends (by simpa using h)
        subst hn
        have hall' : ∀ c ∈ c0 :: t, labelChar c = true := by
          intro c hcm
          rcases List.mem_cons.mp hcm with rfl | hcm
          · exact hc0
          · exact hall c hcm
        have := LabelG.lit (first := (idx == 0)) (s := c0 :: t) (by simp) hall'
          (by intro c hh; simp at hh; subst hh; simp at hf; subst hf
              rcases hfirst with h' | h'
              · exact absurd h' hb
              · exact h')
          (by intro c hh; rw [hl] at hh; cases hh
              rcases hlast with h' | h'
              · exact absurd h' (labelChar_ne (hall' _ (List.mem_of_getLast? hl))).2.1
              · exact h')
          (by simpa [Nat.add_comm] using h63)
        simpa [Nat.add_comm] using this

theorem scanLabel_iff {idx : Nat} {l : List Char} {n : Nat} :
    scanLabel idx l = .ok n ↔ LabelG (idx == 0) l n :=
  ⟨LabelG_of_scanLabel, scanLabel_of_LabelG⟩

/-! ### labels and dots -/

theorem eq_dropLast_snoc {α} {s : List α} {c : α} (h : s.getLast? = some c) :
    s = s.dropLast ++ [c] := by
  have hne : s ≠ [] := by intro e; simp [e] at h
  have h2 := List.dropLast_concat_getLast hne
  rw [List.getLast?_eq_some_getLast hne] at h
  cases h
  exact h2.symm

theorem splitDots_ne_nil (s : List Char) : splitDots s ≠ [] := by
  induction s with
  | nil => simp [splitDots]
  | cons c cs ih =>
    simp only [splitDots]
    split
    · simp
    · split <;> simp

theorem splitDots_nodot {l : List Char} (h : '.' ∉ l) : splitDots l = [l] := by
  induction l with
  | nil => rfl
  | cons c cs ih =>
    have hc : c ≠ '.' := fun e => h (by simp [e])
    have := ih (fun hm => h (by simp [hm]))
    simp [splitDots, hc, this]

theorem splitDots_append {l s : List Char} (h : '.' ∉ l) :
    splitDots (l ++ '.' :: s) = l :: splitDots s := by
  induction l with
  | nil => simp [splitDots]
  | cons c cs ih =>
    have hc : c ≠ '.' := fun e => h (by simp [e])
    have := ih (fun hm => h (by simp [hm]))
    simp [splitDots, hc, this]

theorem splitDots_snoc_dot (b : List Char) : splitDots (b ++ ['.']) = splitDots b ++ [[]] := by
  induction b with
  | nil => simp [splitDots]
  | cons c cs ih =>
    simp only [List.cons_append, splitDots]
    split
    · simp [ih]
    · rw [ih]
      cases hs : splitDots cs with
      | nil => exact absurd hs (splitDots_ne_nil cs)
      | cons l ls => simp

/-- `labels.join(".")`. -/
def joinDots : List (List Char) → List Char
  | [] => []
  | [l] => l
  | l :: ls => l ++ '.' :: joinDots ls

theorem joinDots_splitDots (s : List Char) : joinDots (splitDots s) = s := by
  induction s with
  | nil => rfl
  | cons c cs ih =>
    simp only [splitDots]
    split
    · rename_i hc
      cases hs : splitDots cs with
      | nil => exact absurd hs (splitDots_ne_nil cs)
      | cons l ls => rw [hs] at ih; simp [joinDots, ih, hc]
    · cases hs : splitDots cs with
      | nil => exact absurd hs (splitDots_ne_nil cs)
      | cons l ls =>
        rw [hs] at ih
        cases ls with
        | nil => simp [joinDots] at ih ⊢; exact ih
        | cons l' ls' => simp [joinDots] at ih ⊢; exact ih

theorem splitDots_mem_nodot {s l : List Char} (h : l ∈ splitDots s) : '.' ∉ l := by
  induction s generalizing l with
  | nil => simp [splitDots] at h; subst h; simp
  | cons c cs ih =>
    simp only [splitDots] at h
    split at h
    · rcases List.mem_cons.mp h with rfl | h
      · simp
      · exact ih h
    · rename_i hc
      cases hs : splitDots cs with
      | nil => exact absurd hs (splitDots_ne_nil cs)
      | cons l' ls =>
        rw [hs] at h ih
        rcases List.mem_cons.mp h with rfl | h
        · intro hm
          rcases List.mem_cons.mp hm with e | hm
          · exact hc e.symm
          · exact ih (by simp) hm
        · exact ih (by simp [h])

theorem labelG_nodot {f : Bool} {l : List Char} {n : Nat} (h : LabelG f l n) : '.' ∉ l := by
  have key : ∀ name rest : List Char, isIdent name = true → RestOk rest →
      ∀ pre : List Char, '.' ∉ pre → '.' ∉ pre ++ name ++ '}' :: rest := by
    intro name rest hid hr pre hpre hm
    simp only [List.mem_append, List.mem_cons] at hm
    rcases hm with (hm | hm) | hm | hm
    · exact hpre hm
    · exact (identCont_ne ((isIdent_spec hid).2 _ hm)).2.2.1 rfl
    · exact absurd hm (by decide)
    · exact (labelChar_ne (hr.1 _ hm)).2.2.1 rfl
  cases h with
  | lit _ hall => exact fun hm => (labelChar_ne (hall _ hm)).2.2.1 rfl
  | param hid hr _ => simpa using key _ _ hid hr ['{'] (by decide)
  | catchAll hid hr _ => simpa using key _ _ hid hr ['{', '*'] (by decide)

theorem labelG_last {f : Bool} {l : List Char} {n : Nat} (h : LabelG f l n) :
    l ≠ [] ∧ l.getLast? ≠ some '.' := by
  have hnd := labelG_nodot h
  refine ⟨?_, fun hl => hnd (List.mem_of_getLast? hl)⟩
  cases h with
  | lit hne => exact hne
  | param => simp
  | catchAll => simp

theorem labelsG_last {f : Bool} {s : List Char} {n : Nat} (h : LabelsG f s n) :
    s ≠ [] ∧ s.getLast? ≠ some '.' := by
  induction h with
  | one hl => exact labelG_last hl
  | @cons f l s' n m hl _ ih =>
    refine ⟨by simp, ?_⟩
    rw [getLast?_append_cons]
    cases hs : s' with
    | nil => exact absurd hs ih.1
    | cons c cs => rw [List.getLast?_cons_cons, ← hs]; exact ih.2

theorem validateLabels_of_LabelsG {f : Bool} {body : List Char} {m : Nat} (h : LabelsG f body m) :
    ∀ idx total, f = (idx == 0) → validateLabels idx (splitDots body) total = .ok (total + 1 + m) := by
  induction h with
  | @one f l n hl =>
    intro idx total hf
    subst hf
    rw [splitDots_nodot (labelG_nodot hl)]
    simp [validateLabels, (labelG_last hl).1, scanLabel_of_LabelG hl]
  | @cons f l s n m hl _ ih =>
    intro idx total hf
    subst hf
    rw [splitDots_append (labelG_nodot hl)]
    simp only [validateLabels, (labelG_last hl).1, if_false, scanLabel_of_LabelG hl]
    rw [ih (idx + 1) (total + 1 + n) (by simp)]
    congr 1
    omega

theorem LabelsG_of_validateLabels {ls : List (List Char)} (hne : ls ≠ [])
    (hnd : ∀ l ∈ ls, '.' ∉ l) :
    ∀ idx total t, validateLabels idx ls total = .ok t →
      ∃ m, LabelsG (idx == 0) (joinDots ls) m ∧ t = total + 1 + m := by
  induction ls with
  | nil => exact absurd rfl hne
  | cons l ls ih =>
    intro idx total t h
    simp only [validateLabels] at h
    split at h
    · cases h
    · split at h
      · cases h
      · rename_i n hn
        have hl := LabelG_of_scanLabel hn
        cases ls with
        | nil =>
          simp only [validateLabels, Except.ok.injEq] at h
          exact ⟨n, by simpa [joinDots] using LabelsG.one hl, h.symm⟩
        | cons l' ls' =>
          obtain ⟨m, hm, ht⟩ := ih (by simp) (fun x hx => hnd x (by simp [hx])) (idx + 1) _ t h
          have e : (idx + 1 == 0) = false := by simp
          rw [e] at hm
          exact ⟨n + 1 + m, by simpa [joinDots] using LabelsG.cons hl hm, by omega⟩

end Pxv.Domain
