import Pxv.Lemmas.McCloneable
/-! `move_while_borrowed` reports nothing when there is no `&mut` input and every value taken by value is Copy or may be cloned. -/
namespace Pxv.CG
open Graph

theorem postOrderLoop_nodup (g : Graph) : ∀ (fuel : Nat) (done : List Nat), done.Nodup → (∀ x ∈ done, x < g.size) →
    (postOrderLoop g fuel done).Nodup ∧ ∀ x ∈ postOrderLoop g fuel done, x < g.size := by
  intro fuel
  induction fuel with
  | zero => intro done h hb; exact ⟨h, hb⟩
  | succ f ih =>
    intro done h hb
    unfold postOrderLoop
    split
    · rename_i n hf
      have hn := List.find?_some hf
      have hm := List.mem_of_find?_eq_some hf
      simp only [Bool.and_eq_true, Bool.not_eq_true', List.contains_eq_mem, decide_eq_false_iff_not] at hn
      apply ih
      · rw [List.nodup_append]
        refine ⟨h, by simp, ?_⟩
        intro a ha b hb' hab
        have : b = n := by simpa using hb'
        subst this; subst hab
        exact hn.1 ha
      · intro x hx
        rcases List.mem_append.1 hx with hx | hx
        · exact hb x hx
        · have : x = n := by simpa using hx
          subst this
          exact List.mem_range.1 hm
    · exact ⟨h, hb⟩

theorem inEdges_insertClone_other (g : Graph) (dep consumer m : Nat) (hm : m ≠ consumer) (hlt : m < g.size) :
    (insertClone g dep consumer).1.inEdges m = g.inEdges m := by
  unfold Graph.inEdges
  rw [edges_insertClone, List.filter_append]
  have h2 : ([⟨dep, g.size, .shared⟩, ⟨g.size, consumer, .move⟩] : List Edge).filter (fun e => e.dst == m) = [] := by
    have a1 : (g.size == m) = false := by simp; omega
    have a2 : (consumer == m) = false := by simp; exact fun h => hm h.symm
    simp [List.filter_cons, a1, a2]
  rw [h2, List.append_nil, List.filter_filter]
  apply List.filter_congr
  intro e _
  by_cases hd : e.dst = m
  · simp only [hd, beq_self_eq_true, Bool.true_and, Bool.and_eq_true, Bool.not_eq_true', Bool.and_eq_false_iff, beq_eq_false_iff_ne, ne_eq]
    exact Or.inr hm
  · simp [hd]

/-- no `&mut` input, and whatever is taken by value is Copy or may be cloned -/
def mwbCloneable (g : Graph) : Bool :=
  g.edges.all (fun e => e.kind != .excl && (e.kind != .move || (g.node e.src).copy || (g.node e.src).cloneable))

/-- what the clones inserted while the node `n` is examined leave alone -/
structure Keep (g0 : Graph) (n : Nat) (g : Graph) : Prop where
  size : g0.size ≤ g.size
  flags : ∀ x, x < g0.size → (g.node x).copy = (g0.node x).copy ∧ (g.node x).cloneable = (g0.node x).cloneable
  ins : ∀ m, m ≠ n → m < g0.size → g.inEdges m = g0.inEdges m

theorem Keep.refl (g : Graph) (n : Nat) : Keep g n g := ⟨Nat.le_refl _, fun _ _ => ⟨rfl, rfl⟩, fun _ _ _ => rfl⟩

theorem Keep.step {g0 g : Graph} {n : Nat} (h : Keep g0 n g) (dep : Nat) : Keep g0 n (Pxv.CG.insertClone g dep n).1 := by
  refine ⟨by rw [size_insertClone]; have := h.size; omega, ?_, ?_⟩
  · intro x hx
    have hx' : x < g.size := Nat.lt_of_lt_of_le hx h.size
    rw [node_insertClone_copy_old _ _ _ _ hx', node_insertClone_old _ _ _ _ hx']
    exact h.flags x hx
  · intro m hm hlt
    rw [inEdges_insertClone_other _ _ _ _ hm (Nat.lt_of_lt_of_le hlt h.size)]
    exact h.ins m hm hlt

/-- the inner fold of one node: no diagnostic, and only clones for this node are inserted -/
theorem mwb_inner_cloneable {g0 : Graph} (n : Nat) (immNow later : List Nat) :
    ∀ (ins : List Edge) (acc : Graph × List Diag × List (Nat × Nat)),
    (∀ e ∈ ins, e.kind ≠ .excl ∧ (e.kind = .move → (g0.node e.src).copy = true ∨ (g0.node e.src).cloneable = true)) →
    Keep g0 n acc.1 → acc.2.1 = [] →
    Keep g0 n (ins.foldl (mwbEdge g0 n immNow later) acc).1 ∧ (ins.foldl (mwbEdge g0 n immNow later) acc).2.1 = [] := by
  intro ins
  induction ins with
  | nil => intro acc _ hk hd; exact ⟨hk, hd⟩
  | cons e es ih =>
    intro acc hes hk hd
    simp only [List.foldl_cons]
    have he := hes e (List.mem_cons_self ..)
    apply ih _ (fun e' he' => hes e' (List.mem_cons_of_mem _ he'))
    · unfold mwbEdge
      cases hkind : e.kind with
      | move =>
        simp only []
        split
        · exact hk
        · split
          · exact hk
          · split
            · exact hk.step e.src
            · rename_i hc1 hc2
              rcases he.2 hkind with h1 | h1
              · exact absurd h1 hc1
              · exact absurd h1 hc2
      | excl => exact absurd hkind he.1
      | shared => exact hk
      | before => exact hk
    · unfold mwbEdge
      cases hkind : e.kind with
      | move =>
        simp only []
        split
        · exact hd
        · split
          · exact hd
          · split
            · exact hd
            · rename_i hc1 hc2
              rcases he.2 hkind with h1 | h1
              · exact absurd h1 hc1
              · exact absurd h1 hc2
      | excl => exact absurd hkind he.1
      | shared => exact hd
      | before => exact hd

end Pxv.CG

namespace Pxv.CG
open Graph

theorem mwbCloneable_spec {g : Graph} (h : mwbCloneable g = true) {e : Edge} (he : e ∈ g.edges) :
    e.kind ≠ .excl ∧ (e.kind = .move → (g.node e.src).copy = true ∨ (g.node e.src).cloneable = true) := by
  unfold mwbCloneable at h
  rw [List.all_eq_true] at h
  have h1 := h e he
  simp only [Bool.and_eq_true, bne_iff_ne, ne_eq, Bool.or_eq_true] at h1
  refine ⟨h1.1, fun hk => ?_⟩
  rcases h1.2 with (h2 | h2) | h2
  · exact absurd hk h2
  · exact Or.inl h2
  · exact Or.inr h2

/-- the invariant of the second traversal: nothing reported; the original nodes keep their flags; the nodes still to be
    examined keep their incoming edges -/
structure MJ (g : Graph) (done : List Nat) (st : MwbState) : Prop where
  diags : st.diags = []
  size : g.size ≤ st.g.size
  flags : ∀ x, x < g.size → (st.g.node x).copy = (g.node x).copy ∧ (st.g.node x).cloneable = (g.node x).cloneable
  ins : ∀ m, m ∉ done → m < g.size → st.g.inEdges m = g.inEdges m

theorem mwbNode_g_diags (cap : List (Nat × List Nat)) (st : MwbState) (n : Nat) :
    ∃ immNow later, (mwbNode cap st n).g = ((st.g.inEdges n).foldl (mwbEdge st.g n immNow later) (st.g, st.diags, [])).1 ∧
      (mwbNode cap st n).diags = ((st.g.inEdges n).foldl (mwbEdge st.g n immNow later) (st.g, st.diags, [])).2.1 := by
  unfold mwbNode
  exact ⟨_, _, rfl, rfl⟩

theorem MJ.step {g : Graph} (hwf : g.wellFormed = true) (hq : mwbCloneable g = true) (cap : List (Nat × List Nat))
    {done : List Nat} {st : MwbState} (h : MJ g done st) {n : Nat} (hn : n ∉ done) (hlt : n < g.size) :
    MJ g (done ++ [n]) (mwbNode cap st n) := by
  obtain ⟨immNow, later, hg, hd⟩ := mwbNode_g_diags cap st n
  have hins : st.g.inEdges n = g.inEdges n := h.ins n hn hlt
  have hedges : ∀ e ∈ st.g.inEdges n,
      e.kind ≠ .excl ∧ (e.kind = .move → (st.g.node e.src).copy = true ∨ (st.g.node e.src).cloneable = true) := by
    intro e he
    rw [hins] at he
    have heg : e ∈ g.edges := (List.mem_filter.1 he).1
    obtain ⟨h1, h2⟩ := mwbCloneable_spec hq heg
    have hsrc : e.src < g.size := (wf_endpoints hwf heg).1
    obtain ⟨f1, f2⟩ := h.flags e.src hsrc
    exact ⟨h1, fun hk => by rw [f1, f2]; exact h2 hk⟩
  obtain ⟨hk, hdd⟩ := mwb_inner_cloneable (g0 := st.g) n immNow later (st.g.inEdges n) (st.g, st.diags, []) hedges
    (Keep.refl st.g n) h.diags
  refine ⟨by rw [hd]; exact hdd, ?_, ?_, ?_⟩
  · rw [hg]; exact Nat.le_trans h.size hk.size
  · intro x hx
    rw [hg]
    obtain ⟨a1, a2⟩ := hk.flags x (Nat.lt_of_lt_of_le hx h.size)
    obtain ⟨b1, b2⟩ := h.flags x hx
    exact ⟨a1.trans b1, a2.trans b2⟩
  · intro m hm hml
    rw [hg]
    have hmn : m ≠ n := by
      intro he; subst he
      exact hm (List.mem_append.2 (Or.inr (List.mem_singleton.2 rfl)))
    have hmd : m ∉ done := fun hh => hm (List.mem_append.2 (Or.inl hh))
    rw [hk.ins m hmn (Nat.lt_of_lt_of_le hml h.size)]
    exact h.ins m hmd hml

/-- **`move_while_borrowed` never rejects an application without `&mut` inputs whose by-value inputs are Copy or
    clone-if-necessary**: it clones where a moved value is still borrowed, and the clones it inserts for one node leave the
    incoming edges of the nodes still to be examined, and the flags of every original node, as they were. -/
theorem moveWhileBorrowed_no_diag {g : Graph} (hwf : g.wellFormed = true) (hq : mwbCloneable g = true) :
    (moveWhileBorrowed g).2 = [] := by
  unfold moveWhileBorrowed
  obtain ⟨hnd, hb⟩ := postOrderLoop_nodup g g.size [] List.nodup_nil (fun x hx => by cases hx)
  have gen : ∀ (l : List Nat) (done : List Nat) (st : MwbState), l.Nodup → (∀ x ∈ l, x ∉ done ∧ x < g.size) →
      MJ g done st → MJ g (done ++ l) (l.foldl (mwbNode (captured g)) st) := by
    intro l
    induction l with
    | nil => intro done st _ _ h; simpa using h
    | cons a as ih =>
      intro done st hnd' hl h
      simp only [List.foldl_cons]
      have ha := hl a (List.mem_cons_self ..)
      have h1 := h.step hwf hq (captured g) ha.1 ha.2
      have hnd2 := List.nodup_cons.1 hnd'
      have := ih (done ++ [a]) _ hnd2.2 (fun x hx => by
        refine ⟨?_, (hl x (List.mem_cons_of_mem _ hx)).2⟩
        intro hm
        rcases List.mem_append.1 hm with hm | hm
        · exact (hl x (List.mem_cons_of_mem _ hx)).1 hm
        · have : x = a := by simpa using hm
          subst this
          exact hnd2.1 hx) h1
      simpa [List.append_assoc] using this
  have h0 : MJ g [] ⟨g, [], []⟩ := ⟨rfl, Nat.le_refl _, fun _ _ => ⟨rfl, rfl⟩, fun _ _ _ => rfl⟩
  have := gen (postOrder g) [] ⟨g, [], []⟩ hnd (fun x hx => ⟨by simp, hb x hx⟩) h0
  exact this.diags

end Pxv.CG
