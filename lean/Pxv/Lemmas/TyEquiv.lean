import Pxv.Lemmas.Ty
/-! Helper lemmas for C17: reflexivity, symmetry, transitivity of the state-passing comparison,
and "only names differ". -/
namespace Pxv.Ty

theorem zip_map_swap {α β} : ∀ (l1 : List α) (l2 : List β), (l1.zip l2).map Prod.swap = l2.zip l1
  | [], l2 => by cases l2 <;> simp
  | _ :: _, [] => by simp
  | a :: l1, b :: l2 => by simp [zip_map_swap l1 l2]

/-! #### reflexive -/
mutual
theorem equivGo_refl : ∀ (a : Ty) (g : List String), equivGo a a (g, g) = some (unassigned a g, unassigned a g)
  | .path al p i bs as, g => by simp [equivGo, unassigned, equivArgs_refl as g]
  | .ref m l t, g => by simp [equivGo, unassigned, equivGo_refl t g]
  | .tuple es, g => by simp [equivGo, unassigned, equivTys_refl es g]
  | .scalar x, g => by simp [equivGo, unassigned]
  | .slice e, g => by simp [equivGo, unassigned, equivGo_refl e g]
  | .array e n, g => by simp [equivGo, unassigned, equivGo_refl e g]
  | .rawPtr m t, g => by simp [equivGo, unassigned, equivGo_refl t g]
  | .fnPtr ins out abi u, g => by
      simp [equivGo, unassigned, equivIns_refl ins g, equivO_refl out (unassignedIns ins g)]
  | .generic x, g => by simp [equivGo, unassigned, idOf_snd]
theorem equivArgs_refl : ∀ (a : GArgs) (g : List String),
    equivArgs a a (g, g) = some (unassignedArgs a g, unassignedArgs a g)
  | .nil, g => by simp [equivArgs, unassignedArgs]
  | .ty t r, g => by simp [equivArgs, unassignedArgs, equivGo_refl t g, equivArgs_refl r (unassigned t g)]
  | .lt l r, g => by simp [equivArgs, unassignedArgs, equivArgs_refl r g]
  | .const v r, g => by simp [equivArgs, unassignedArgs, equivArgs_refl r g]
theorem equivTys_refl : ∀ (a : Tys) (g : List String),
    equivTys a a (g, g) = some (unassignedTys a g, unassignedTys a g)
  | .nil, g => by simp [equivTys, unassignedTys]
  | .cons t r, g => by simp [equivTys, unassignedTys, equivGo_refl t g, equivTys_refl r (unassigned t g)]
theorem equivIns_refl : ∀ (a : FnIns) (g : List String),
    equivIns a a (g, g) = some (unassignedIns a g, unassignedIns a g)
  | .nil, g => by simp [equivIns, unassignedIns]
  | .cons n t r, g => by simp [equivIns, unassignedIns, equivGo_refl t g, equivIns_refl r (unassigned t g)]
theorem equivO_refl : ∀ (a : OTy) (g : List String),
    equivO a a (g, g) = some (unassignedO a g, unassignedO a g)
  | .none, g => by simp [equivO, unassignedO]
  | .some t, g => by simp [equivO, unassignedO, equivGo_refl t g]
end

/-! #### symmetric -/
mutual
theorem equivGo_symm : ∀ (a b : Ty) (s s' : List String × List String), equivGo a b s = some s' →
    equivGo b a (s.2, s.1) = some (s'.2, s'.1)
  | .path al p i bs as, b, s, s', h => by
      cases b <;> simp [equivGo] at h
      obtain ⟨⟨h1, h2, h3, h4⟩, h⟩ := h
      subst h1 h2 h3 h4
      simp [equivGo, equivArgs_symm _ _ _ _ h]
  | .ref m l t, b, s, s', h => by
      cases b <;> simp [equivGo] at h
      obtain ⟨h1, h⟩ := h
      subst h1
      simp [equivGo, equivGo_symm _ _ _ _ h]
  | .tuple es, b, s, s', h => by
      cases b <;> simp [equivGo] at h
      simp [equivGo, equivTys_symm _ _ _ _ h]
  | .scalar x, b, s, s', h => by
      cases b <;> simp [equivGo] at h
      obtain ⟨h1, h⟩ := h
      subst h1 h
      simp [equivGo]
  | .slice e, b, s, s', h => by
      cases b <;> simp [equivGo] at h
      simp [equivGo, equivGo_symm _ _ _ _ h]
  | .array e n, b, s, s', h => by
      cases b <;> simp [equivGo] at h
      obtain ⟨h1, h⟩ := h
      subst h1
      simp [equivGo, equivGo_symm _ _ _ _ h]
  | .rawPtr m t, b, s, s', h => by
      cases b <;> simp [equivGo] at h
      obtain ⟨h1, h⟩ := h
      subst h1
      simp [equivGo, equivGo_symm _ _ _ _ h]
  | .fnPtr ins out abi u, b, s, s', h => by
      cases b <;> simp [equivGo] at h
      obtain ⟨⟨h1, h2⟩, h⟩ := h
      subst h1 h2
      split at h
      · rename_i s1 hi
        have e1 := equivIns_symm _ _ _ _ hi
        have e2 := equivO_symm _ _ _ _ h
        simp [equivGo, e1, e2]
      · cases h
  | .generic x, b, s, s', h => by
      cases b <;> simp [equivGo] at h
      obtain ⟨h1, h⟩ := h
      subst h
      simp [equivGo, h1]
theorem equivArgs_symm : ∀ (a b : GArgs) (s s' : List String × List String), equivArgs a b s = some s' →
    equivArgs b a (s.2, s.1) = some (s'.2, s'.1)
  | .nil, b, s, s', h => by
      cases b <;> simp [equivArgs] at h
      subst h; simp [equivArgs]
  | .ty t r, b, s, s', h => by
      cases b <;> simp only [equivArgs] at h <;> try cases h
      split at h
      · rename_i s1 h1
        have e1 := equivGo_symm _ _ _ _ h1
        have e2 := equivArgs_symm _ _ _ _ h
        simp [equivArgs, e1, e2]
      · cases h
  | .lt l r, b, s, s', h => by
      cases b <;> simp only [equivArgs] at h <;> try cases h
      simp [equivArgs, equivArgs_symm _ _ _ _ h]
  | .const v r, b, s, s', h => by
      cases b <;> simp only [equivArgs] at h <;> try cases h
      split at h
      · rename_i hv; subst hv
        simp [equivArgs, equivArgs_symm _ _ _ _ h]
      · cases h
theorem equivTys_symm : ∀ (a b : Tys) (s s' : List String × List String), equivTys a b s = some s' →
    equivTys b a (s.2, s.1) = some (s'.2, s'.1)
  | .nil, b, s, s', h => by
      cases b <;> simp [equivTys] at h
      subst h; simp [equivTys]
  | .cons t r, b, s, s', h => by
      cases b <;> simp only [equivTys] at h <;> try cases h
      split at h
      · rename_i s1 h1
        have e1 := equivGo_symm _ _ _ _ h1
        have e2 := equivTys_symm _ _ _ _ h
        simp [equivTys, e1, e2]
      · cases h
theorem equivIns_symm : ∀ (a b : FnIns) (s s' : List String × List String), equivIns a b s = some s' →
    equivIns b a (s.2, s.1) = some (s'.2, s'.1)
  | .nil, b, s, s', h => by
      cases b <;> simp [equivIns] at h
      subst h; simp [equivIns]
  | .cons n t r, b, s, s', h => by
      cases b <;> simp only [equivIns] at h <;> try cases h
      split at h
      · rename_i s1 h1
        have e1 := equivGo_symm _ _ _ _ h1
        have e2 := equivIns_symm _ _ _ _ h
        simp [equivIns, e1, e2]
      · cases h
theorem equivO_symm : ∀ (a b : OTy) (s s' : List String × List String), equivO a b s = some s' →
    equivO b a (s.2, s.1) = some (s'.2, s'.1)
  | .none, b, s, s', h => by
      cases b <;> simp [equivO] at h
      subst h; simp [equivO]
  | .some t, b, s, s', h => by
      cases b <;> simp only [equivO] at h <;> try cases h
      simp [equivO, equivGo_symm _ _ _ _ h]
end


/-! #### transitive -/
mutual
theorem equivGo_trans : ∀ (a b c : Ty) (g1 g2 g3 : List String) (s1 s2 : List String × List String),
    equivGo a b (g1, g2) = some s1 → equivGo b c (g2, g3) = some s2 →
    equivGo a c (g1, g3) = some (s1.1, s2.2)
  | .path al p i bs as, b, c, g1, g2, g3, s1, s2, h1, h2 => by
      cases b <;> simp [equivGo] at h1
      cases c <;> simp [equivGo] at h2
      obtain ⟨⟨a1, a2, a3, a4⟩, h1⟩ := h1
      obtain ⟨⟨b1, b2, b3, b4⟩, h2⟩ := h2
      subst a1 a2 a3 a4 b1 b2 b3 b4
      simp [equivGo, equivArgs_trans _ _ _ _ _ _ _ _ h1 h2]
  | .ref m l t, b, c, g1, g2, g3, s1, s2, h1, h2 => by
      cases b <;> simp [equivGo] at h1
      cases c <;> simp [equivGo] at h2
      obtain ⟨a1, h1⟩ := h1
      obtain ⟨b1, h2⟩ := h2
      subst a1 b1
      simp [equivGo, equivGo_trans _ _ _ _ _ _ _ _ h1 h2]
  | .tuple es, b, c, g1, g2, g3, s1, s2, h1, h2 => by
      cases b <;> simp [equivGo] at h1
      cases c <;> simp [equivGo] at h2
      simp [equivGo, equivTys_trans _ _ _ _ _ _ _ _ h1 h2]
  | .scalar x, b, c, g1, g2, g3, s1, s2, h1, h2 => by
      cases b <;> simp [equivGo] at h1
      cases c <;> simp [equivGo] at h2
      obtain ⟨a1, h1⟩ := h1
      obtain ⟨b1, h2⟩ := h2
      subst a1 b1 h1 h2
      simp [equivGo]
  | .slice e, b, c, g1, g2, g3, s1, s2, h1, h2 => by
      cases b <;> simp [equivGo] at h1
      cases c <;> simp [equivGo] at h2
      simp [equivGo, equivGo_trans _ _ _ _ _ _ _ _ h1 h2]
  | .array e n, b, c, g1, g2, g3, s1, s2, h1, h2 => by
      cases b <;> simp [equivGo] at h1
      cases c <;> simp [equivGo] at h2
      obtain ⟨a1, h1⟩ := h1
      obtain ⟨b1, h2⟩ := h2
      subst a1 b1
      simp [equivGo, equivGo_trans _ _ _ _ _ _ _ _ h1 h2]
  | .rawPtr m t, b, c, g1, g2, g3, s1, s2, h1, h2 => by
      cases b <;> simp [equivGo] at h1
      cases c <;> simp [equivGo] at h2
      obtain ⟨a1, h1⟩ := h1
      obtain ⟨b1, h2⟩ := h2
      subst a1 b1
      simp [equivGo, equivGo_trans _ _ _ _ _ _ _ _ h1 h2]
  | .fnPtr ins out abi u, b, c, g1, g2, g3, s1, s2, h1, h2 => by
      cases b <;> simp [equivGo] at h1
      cases c <;> simp [equivGo] at h2
      obtain ⟨⟨a1, a2⟩, h1⟩ := h1
      obtain ⟨⟨b1, b2⟩, h2⟩ := h2
      subst a1 a2 b1 b2
      split at h1
      · rename_i t1 hi1
        split at h2
        · rename_i t2 hi2
          have ei := equivIns_trans _ _ _ _ _ _ _ _ hi1 hi2
          have st1 := equivIns_state _ _ _ _ hi1
          have st2 := equivIns_state _ _ _ _ hi2
          have h1' : equivO _ _ (t1.1, t1.2) = some s1 := h1
          have h2' : equivO _ _ (t2.1, t2.2) = some s2 := h2
          have e12 : t1.2 = t2.1 := by rw [st1, st2]
          rw [e12] at h1'
          have eo := equivO_trans _ _ _ _ _ _ _ _ h1' h2'
          simp [equivGo, ei, eo]
        · cases h2
      · cases h1
  | .generic x, b, c, g1, g2, g3, s1, s2, h1, h2 => by
      cases b <;> simp [equivGo] at h1
      cases c <;> simp [equivGo] at h2
      obtain ⟨a1, h1⟩ := h1
      obtain ⟨b1, h2⟩ := h2
      subst h1 h2
      simp [equivGo, a1, b1]
theorem equivArgs_trans : ∀ (a b c : GArgs) (g1 g2 g3 : List String) (s1 s2 : List String × List String),
    equivArgs a b (g1, g2) = some s1 → equivArgs b c (g2, g3) = some s2 →
    equivArgs a c (g1, g3) = some (s1.1, s2.2)
  | .nil, b, c, g1, g2, g3, s1, s2, h1, h2 => by
      cases b <;> simp [equivArgs] at h1
      cases c <;> simp [equivArgs] at h2
      subst h1 h2; simp [equivArgs]
  | .ty t r, b, c, g1, g2, g3, s1, s2, h1, h2 => by
      cases b <;> simp only [equivArgs] at h1 <;> try cases h1
      cases c <;> simp only [equivArgs] at h2 <;> try cases h2
      split at h1
      · rename_i t1 hi1
        split at h2
        · rename_i t2 hi2
          have ei := equivGo_trans _ _ _ _ _ _ _ _ hi1 hi2
          have st1 := equivGo_state _ _ _ _ hi1
          have st2 := equivGo_state _ _ _ _ hi2
          have h1' : equivArgs _ _ (t1.1, t1.2) = some s1 := h1
          have h2' : equivArgs _ _ (t2.1, t2.2) = some s2 := h2
          have e12 : t1.2 = t2.1 := by rw [st1, st2]
          rw [e12] at h1'
          have eo := equivArgs_trans _ _ _ _ _ _ _ _ h1' h2'
          simp [equivArgs, ei, eo]
        · cases h2
      · cases h1
  | .lt l r, b, c, g1, g2, g3, s1, s2, h1, h2 => by
      cases b <;> simp only [equivArgs] at h1 <;> try cases h1
      cases c <;> simp only [equivArgs] at h2 <;> try cases h2
      simp [equivArgs, equivArgs_trans _ _ _ _ _ _ _ _ h1 h2]
  | .const v r, b, c, g1, g2, g3, s1, s2, h1, h2 => by
      cases b <;> simp only [equivArgs] at h1 <;> try cases h1
      cases c <;> simp only [equivArgs] at h2 <;> try cases h2
      split at h1
      · split at h2
        · rename_i e1 e2
          subst e1 e2
          simp [equivArgs, equivArgs_trans _ _ _ _ _ _ _ _ h1 h2]
        · cases h2
      · cases h1
theorem equivTys_trans : ∀ (a b c : Tys) (g1 g2 g3 : List String) (s1 s2 : List String × List String),
    equivTys a b (g1, g2) = some s1 → equivTys b c (g2, g3) = some s2 →
    equivTys a c (g1, g3) = some (s1.1, s2.2)
  | .nil, b, c, g1, g2, g3, s1, s2, h1, h2 => by
      cases b <;> simp [equivTys] at h1
      cases c <;> simp [equivTys] at h2
      subst h1 h2; simp [equivTys]
  | .cons t r, b, c, g1, g2, g3, s1, s2, h1, h2 => by
      cases b <;> simp only [equivTys] at h1 <;> try cases h1
      cases c <;> simp only [equivTys] at h2 <;> try cases h2
      split at h1
      · rename_i t1 hi1
        split at h2
        · rename_i t2 hi2
          have ei := equivGo_trans _ _ _ _ _ _ _ _ hi1 hi2
          have st1 := equivGo_state _ _ _ _ hi1
          have st2 := equivGo_state _ _ _ _ hi2
          have h1' : equivTys _ _ (t1.1, t1.2) = some s1 := h1
          have h2' : equivTys _ _ (t2.1, t2.2) = some s2 := h2
          have e12 : t1.2 = t2.1 := by rw [st1, st2]
          rw [e12] at h1'
          have eo := equivTys_trans _ _ _ _ _ _ _ _ h1' h2'
          simp [equivTys, ei, eo]
        · cases h2
      · cases h1
theorem equivIns_trans : ∀ (a b c : FnIns) (g1 g2 g3 : List String) (s1 s2 : List String × List String),
    equivIns a b (g1, g2) = some s1 → equivIns b c (g2, g3) = some s2 →
    equivIns a c (g1, g3) = some (s1.1, s2.2)
  | .nil, b, c, g1, g2, g3, s1, s2, h1, h2 => by
      cases b <;> simp [equivIns] at h1
      cases c <;> simp [equivIns] at h2
      subst h1 h2; simp [equivIns]
  | .cons n t r, b, c, g1, g2, g3, s1, s2, h1, h2 => by
      cases b <;> simp only [equivIns] at h1 <;> try cases h1
      cases c <;> simp only [equivIns] at h2 <;> try cases h2
      split at h1
      · rename_i t1 hi1
        split at h2
        · rename_i t2 hi2
          have ei := equivGo_trans _ _ _ _ _ _ _ _ hi1 hi2
          have st1 := equivGo_state _ _ _ _ hi1
          have st2 := equivGo_state _ _ _ _ hi2
          have h1' : equivIns _ _ (t1.1, t1.2) = some s1 := h1
          have h2' : equivIns _ _ (t2.1, t2.2) = some s2 := h2
          have e12 : t1.2 = t2.1 := by rw [st1, st2]
          rw [e12] at h1'
          have eo := equivIns_trans _ _ _ _ _ _ _ _ h1' h2'
          simp [equivIns, ei, eo]
        · cases h2
      · cases h1
theorem equivO_trans : ∀ (a b c : OTy) (g1 g2 g3 : List String) (s1 s2 : List String × List String),
    equivO a b (g1, g2) = some s1 → equivO b c (g2, g3) = some s2 →
    equivO a c (g1, g3) = some (s1.1, s2.2)
  | .none, b, c, g1, g2, g3, s1, s2, h1, h2 => by
      cases b <;> simp [equivO] at h1
      cases c <;> simp [equivO] at h2
      subst h1 h2; simp [equivO]
  | .some t, b, c, g1, g2, g3, s1, s2, h1, h2 => by
      cases b <;> simp only [equivO] at h1 <;> try cases h1
      cases c <;> simp only [equivO] at h2 <;> try cases h2
      simp [equivO, equivGo_trans _ _ _ _ _ _ _ _ h1 h2]
end

/-! #### only lifetimes and generic names may differ -/
mutual
theorem equivGo_skeleton : ∀ (a b : Ty) (s s' : List String × List String), equivGo a b s = some s' →
    skeleton a = skeleton b
  | .path al p i bs as, b, s, s', h => by
      cases b <;> simp [equivGo] at h
      obtain ⟨⟨h1, h2, h3, h4⟩, h⟩ := h
      subst h1 h2 h3 h4
      simp [skeleton, equivArgs_skeleton _ _ _ _ h]
  | .ref m l t, b, s, s', h => by
      cases b <;> simp [equivGo] at h
      obtain ⟨h1, h⟩ := h
      subst h1
      simp [skeleton, equivGo_skeleton _ _ _ _ h]
  | .tuple es, b, s, s', h => by
      cases b <;> simp [equivGo] at h
      simp [skeleton, equivTys_skeleton _ _ _ _ h]
  | .scalar x, b, s, s', h => by
      cases b <;> simp [equivGo] at h
      simp [skeleton, h.1]
  | .slice e, b, s, s', h => by
      cases b <;> simp [equivGo] at h
      simp [skeleton, equivGo_skeleton _ _ _ _ h]
  | .array e n, b, s, s', h => by
      cases b <;> simp [equivGo] at h
      obtain ⟨h1, h⟩ := h
      subst h1
      simp [skeleton, equivGo_skeleton _ _ _ _ h]
  | .rawPtr m t, b, s, s', h => by
      cases b <;> simp [equivGo] at h
      obtain ⟨h1, h⟩ := h
      subst h1
      simp [skeleton, equivGo_skeleton _ _ _ _ h]
  | .fnPtr ins out abi u, b, s, s', h => by
      cases b <;> simp [equivGo] at h
      obtain ⟨⟨h1, h2⟩, h⟩ := h
      subst h1 h2
      split at h
      · rename_i s1 hi
        simp [skeleton, equivIns_skeleton _ _ _ _ hi, equivO_skeleton _ _ _ _ h]
      · cases h
  | .generic x, b, s, s', h => by
      cases b <;> simp [equivGo] at h
      simp [skeleton]
theorem equivArgs_skeleton : ∀ (a b : GArgs) (s s' : List String × List String), equivArgs a b s = some s' →
    skeletonArgs a = skeletonArgs b
  | .nil, b, s, s', h => by
      cases b <;> simp [equivArgs] at h
      rfl
  | .ty t r, b, s, s', h => by
      cases b <;> simp only [equivArgs] at h <;> try cases h
      split at h
      · rename_i s1 h1
        simp [skeletonArgs, equivGo_skeleton _ _ _ _ h1, equivArgs_skeleton _ _ _ _ h]
      · cases h
  | .lt l r, b, s, s', h => by
      cases b <;> simp only [equivArgs] at h <;> try cases h
      simp [skeletonArgs, equivArgs_skeleton _ _ _ _ h]
  | .const v r, b, s, s', h => by
      cases b <;> simp only [equivArgs] at h <;> try cases h
      split at h
      · rename_i hv; subst hv
        simp [skeletonArgs, equivArgs_skeleton _ _ _ _ h]
      · cases h
theorem equivTys_skeleton : ∀ (a b : Tys) (s s' : List String × List String), equivTys a b s = some s' →
    skeletonTys a = skeletonTys b
  | .nil, b, s, s', h => by
      cases b <;> simp [equivTys] at h
      rfl
  | .cons t r, b, s, s', h => by
      cases b <;> simp only [equivTys] at h <;> try cases h
      split at h
      · rename_i s1 h1
        simp [skeletonTys, equivGo_skeleton _ _ _ _ h1, equivTys_skeleton _ _ _ _ h]
      · cases h
theorem equivIns_skeleton : ∀ (a b : FnIns) (s s' : List String × List String), equivIns a b s = some s' →
    skeletonIns a = skeletonIns b
  | .nil, b, s, s', h => by
      cases b <;> simp [equivIns] at h
      rfl
  | .cons n t r, b, s, s', h => by
      cases b <;> simp only [equivIns] at h <;> try cases h
      split at h
      · rename_i s1 h1
        simp [skeletonIns, equivGo_skeleton _ _ _ _ h1, equivIns_skeleton _ _ _ _ h]
      · cases h
theorem equivO_skeleton : ∀ (a b : OTy) (s s' : List String × List String), equivO a b s = some s' →
    skeletonO a = skeletonO b
  | .none, b, s, s', h => by
      cases b <;> simp [equivO] at h
      rfl
  | .some t, b, s, s', h => by
      cases b <;> simp only [equivO] at h <;> try cases h
      simp [skeletonO, equivGo_skeleton _ _ _ _ h]
end

end Pxv.Ty
